/-
L3 (part 1): values, errors, outcomes.

Rust anchors: src/cell.rs (enum Cell, PartialEq, value(), accessors), src/error.rs (enum Xerr).

Conventions (DESIGN §3.1):
* `Cell.int i` always carries an `Int` inside the i128 range (`Cell.WF`); every operation that
  Rust reduces is reduced explicitly (`wrap128`).
* reals travel as IEEE-754 bit patterns (`UInt64`).
* strings are `List Char`; byte length is computed with `utf8Len`.
* bit-strings at the value level are plain bit lists (representation independence is C04's job).
* `Cell`, `CellList`, `PairList` are mutual so every traversal is structurally recursive.
-/
namespace Xeh

mutual
inductive Cell where
  | nil : Cell
  | flag (b : Bool) : Cell
  | int (i : Int) : Cell
  | real (bits : UInt64) : Cell
  | str (s : List Char) : Cell
  | vec (xs : CellList) : Cell
  | map (kv : PairList) : Cell
  | fn (native : Bool) (addr : Nat) : Cell
  | bitstr (bits : List Bool) : Cell
  | any (id : Nat) : Cell
  | tagged (v : Cell) (tags : PairList) : Cell
inductive CellList where
  | nil : CellList
  | cons (h : Cell) (t : CellList) : CellList
inductive PairList where
  | nil : PairList
  | cons (k : Cell) (v : Cell) (t : PairList) : PairList
end

deriving instance DecidableEq for Cell, CellList, PairList
deriving instance Repr for Cell, CellList, PairList

instance : Inhabited Cell := ⟨.nil⟩
instance : Inhabited CellList := ⟨.nil⟩
instance : Inhabited PairList := ⟨.nil⟩

/-! ### list conversions -/

def CellList.toList : CellList → List Cell
  | .nil => []
  | .cons h t => h :: t.toList

def CellList.ofList : List Cell → CellList
  | [] => .nil
  | h :: t => .cons h (CellList.ofList t)

def PairList.toList : PairList → List (Cell × Cell)
  | .nil => []
  | .cons k v t => (k, v) :: t.toList

def PairList.ofList : List (Cell × Cell) → PairList
  | [] => .nil
  | (k, v) :: t => .cons k v (PairList.ofList t)

@[simp] theorem CellList.toList_ofList (l : List Cell) : (CellList.ofList l).toList = l := by
  induction l with
  | nil => rfl
  | cons h t ih => simp [CellList.ofList, CellList.toList, ih]

@[simp] theorem CellList.ofList_toList : (l : CellList) → CellList.ofList l.toList = l
  | .nil => rfl
  | .cons h t => by simp [CellList.ofList, CellList.toList, CellList.ofList_toList t]

@[simp] theorem PairList.toList_ofList (l : List (Cell × Cell)) : (PairList.ofList l).toList = l := by
  induction l with
  | nil => rfl
  | cons h t ih => cases h; simp [PairList.ofList, PairList.toList, ih]

@[simp] theorem PairList.ofList_toList : (l : PairList) → PairList.ofList l.toList = l
  | .nil => rfl
  | .cons k v t => by simp [PairList.ofList, PairList.toList, PairList.ofList_toList t]

def CellList.length (l : CellList) : Nat := l.toList.length

/-! ### `value()`: strip the outermost tag (tags never nest directly: `with_tags` stores `value()`) -/

/-- `Cell::value` — one level, exactly as in Rust. -/
def Cell.value : Cell → Cell
  | .tagged v _ => v
  | c => c

/-- `Cell::tags` -/
def Cell.tags : Cell → Option PairList
  | .tagged _ t => some t
  | _ => none

/-- `Cell::with_tags` -/
def Cell.withTags (c : Cell) (t : PairList) : Cell := .tagged c.value t

/-- `Cell::type_name` -/
def Cell.typeName : Cell → String
  | .nil => "nil" | .flag _ => "flag" | .int _ => "int" | .real _ => "real" | .str _ => "str"
  | .vec _ => "vec" | .map _ => "map" | .fn _ _ => "fun" | .bitstr _ => "bitstr" | .any _ => "any"
  | .tagged _ _ => "tag"

/-! ### i128 range -/

def i128Min : Int := -(2^127)
def i128Max : Int := 2^127 - 1

/-- two's-complement reduction to i128 — what `wrapping_*` and `as i128` do. -/
def wrap128 (x : Int) : Int := (x + 2^127) % 2^128 - 2^127

def InRange (x : Int) : Prop := -(2^127) ≤ x ∧ x < 2^127

instance (x : Int) : Decidable (InRange x) := by unfold InRange; infer_instance

theorem wrap128_id {x : Int} (h : InRange x) : wrap128 x = x := by
  unfold wrap128 InRange at *; omega

theorem wrap128_inRange (x : Int) : InRange (wrap128 x) := by
  unfold wrap128 InRange; omega

theorem wrap128_mod (x : Int) : (wrap128 x) % 2^128 = x % 2^128 := by
  unfold wrap128; omega

/-! ### errors (src/error.rs) — payloads kept where a property talks about them -/

inductive Xerr where
  | unknownWord (name : List Char)
  | parseError (msg : String)
  | strDecodeError
  | expectingName
  | expectingLiteral
  | controlFlow (msg : String)
  | integerOverflow
  | divisionByZero
  | stackUnderflow
  | returnStackUnderflow
  | loopStackUnderflow
  | typeError
  | typeErrorMsg (val : Cell) (msg : String)
  | typeNotSupported (val : Cell)
  | ioError
  | outOfBounds (index : Int) (lo hi : Nat)
  | assertFailed
  | assertEqFailed (a b : Cell)
  | internalError
  | readError (remain len : Nat)
  | seekError (offset : Nat)
  | matchError (failPos : Nat)
  | toBytestrError
  | bitstrSliceError
  | errorMsg (msg : String)
  | userError (c : Cell)
  | exit (code : Int)
deriving DecidableEq, Repr

/-- Result of running a piece of the implementation: a value, an error *value*, or a Rust panic
    (panics are values in the model, DESIGN §3.1). -/
inductive Outcome (α : Type) where
  | ok (a : α)
  | err (e : Xerr)
  | panic (site : String)
deriving Repr, DecidableEq

def Outcome.bind (x : Outcome α) (f : α → Outcome β) : Outcome β :=
  match x with
  | .ok a => f a
  | .err e => .err e
  | .panic s => .panic s

instance : Monad Outcome where
  pure := .ok
  bind := Outcome.bind

def Outcome.isPanic : Outcome α → Bool
  | .panic _ => true
  | _ => false

/-! ### accessors (src/cell.rs 269–420): all go through `value()`, errors carry the untagged value
    except `to_bool` / `to_usize`-negative which carry `self` -/

def Cell.toXint (c : Cell) : Outcome Int :=
  match c.value with
  | .int i => .ok i
  | v => .err (.typeErrorMsg v "int")

def Cell.toReal (c : Cell) : Outcome UInt64 :=
  match c.value with
  | .real r => .ok r
  | v => .err (.typeErrorMsg v "real")

def Cell.toBool (c : Cell) : Outcome Bool :=
  match c.value with
  | .flag b => .ok b
  | _ => .err (.typeErrorMsg c "flag")

def Cell.condTrue (c : Cell) : Outcome Bool :=
  match c.value with
  | .nil => .ok false
  | _ => c.toBool

def Cell.toVec (c : Cell) : Outcome CellList :=
  match c.value with
  | .vec v => .ok v
  | v => .err (.typeErrorMsg v "vec")

def Cell.toMap (c : Cell) : Outcome PairList :=
  match c.value with
  | .map m => .ok m
  | v => .err (.typeErrorMsg v "map")

def Cell.toStr (c : Cell) : Outcome (List Char) :=
  match c.value with
  | .str s => .ok s
  | v => .err (.typeErrorMsg v "str")

def Cell.toBitstr (c : Cell) : Outcome (List Bool) :=
  match c.value with
  | .bitstr s => .ok s
  | v => .err (.typeErrorMsg v "bitstr")

def usizeMax : Int := 2^64 - 1
def isizeMin : Int := -(2^63)
def isizeMax : Int := 2^63 - 1

/-- `Cell::to_usize` after the C06/C12 repair: negative → "positive integer" type error carrying
    `self`; above `usize::MAX` → IntegerOverflow (no truncation). -/
def Cell.toUsize (c : Cell) : Outcome Nat :=
  match c.value with
  | .int i =>
    if i < 0 then .err (.typeErrorMsg c "positive integer")
    else if i > usizeMax then .err .integerOverflow
    else .ok i.toNat
  | v => .err (.typeErrorMsg v "int")

/-- `Cell::to_isize` after the repair: out of the isize range → IntegerOverflow. -/
def Cell.toIsize (c : Cell) : Outcome Int :=
  match c.value with
  | .int i =>
    if i < isizeMin ∨ i > isizeMax then .err .integerOverflow else .ok i
  | v => .err (.typeErrorMsg v "int")

/-- UTF-8 length of a char, `char::len_utf8`. -/
def utf8Size (c : Char) : Nat :=
  let n := c.toNat
  if n < 0x80 then 1 else if n < 0x800 then 2 else if n < 0x10000 then 3 else 4

def utf8Len (s : List Char) : Nat := (s.map utf8Size).sum

/-! ### well-formedness: every int inside i128 -/

mutual
def Cell.WF : Cell → Prop
  | .int i => InRange i
  | .vec xs => CellList.WF xs
  | .map kv => PairList.WF kv
  | .tagged v t => Cell.WF v ∧ PairList.WF t
  | _ => True
def CellList.WF : CellList → Prop
  | .nil => True
  | .cons h t => Cell.WF h ∧ CellList.WF t
def PairList.WF : PairList → Prop
  | .nil => True
  | .cons k v t => Cell.WF k ∧ Cell.WF v ∧ PairList.WF t
end

end Xeh
