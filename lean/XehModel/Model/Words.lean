/-
Core native words of state.rs as programs over the primitives: stack words, loop counters,
vector / map / tag-map builders, foreach helpers, assertions, `error`, `exit`.
The word *names* are those `verif_code()` reports (`<vec-begin>` … for the unnamed helpers).
-/
import XehModel.Model.Prog
import XehModel.Model.Equal
import XehModel.Model.MapCore
import XehModel.Model.Arith

namespace Xeh
open Prog

def wordDepth : Prog := .depth fun n => .push (.int n) .done
def wordNilQ : Prog := .pop fun a => .push (.flag (Cell.beq a.value .nil)) .done
def wordEqual : Prog := .pop fun a => .pop fun b => .push (.flag (Cell.beq a b)) .done
def wordAssert : Prog :=
  .pop fun a => ofOutcome a.condTrue fun t => if t then .done else .fail .assertFailed
def wordAssertEq : Prog :=
  .pop fun a => .pop fun b => if Cell.beq a b then .done else .fail (.assertEqFailed a b)
def wordError : Prog := .pop fun a => .fail (.userError a)
/-- `exit` ( code -- ): the stop request is raised once the exit code has been taken — an `exit` that finds no code (or
    something that is not one) fails like any other word and stops nothing (repair: the flag used to be raised first) -/
def wordExit : Prog := .pop fun a => ofOutcome a.toIsize fun c => .stop (.fail (.exit c))

/-- `counter_value(n)` : I / J / K -/
def wordCounter (n : Nat) : Prog :=
  .loopAt n fun
    | none => .fail .loopStackUnderflow
    | some l =>
      match l.items.value with
      | .nil => .push (.int l.start) .done
      | .map kv =>
        match kv.toList[l.start.toNat]? with
        | some (k, v) => .push k (.push v .done)
        | none => .fail .internalError
      | .vec xs =>
        match xs.toList[l.start.toNat]? with
        | some v => .push v .done
        | none => .fail .internalError
      | other => .fail (.typeNotSupported other)

def vecBuilderBegin : Prog := .rawLen fun n => .pushSpecial n .done

/-- `vec_collect_till_ptr` then continue with the collected cells (bottom first) -/
def collectTillPtr (ptr : Nat) (underflow : Xerr) (k : List Cell → Prog) : Prog :=
  .rawLen fun top =>
    if top < ptr then .fail underflow
    else .rawFrom ptr fun cells => popN (top - ptr) (k cells)

def vecBuilderEnd : Prog :=
  .popSpecial fun
    | some ptr => collectTillPtr ptr (.controlFlow "vector stack underflow") fun cells =>
        .push (.vec (CellList.ofList cells)) .done
    | none => .fail (.controlFlow "unbalanced vector builder")

/-- `m.insert_mut(x[1], x[0])` over `chunks(2)` -/
def buildMap : List Cell → PairList → PairList
  | v :: k :: rest, m => buildMap rest (mapInsert k v m)
  | _, m => m

def mapCollect (ptr : Nat) (k : PairList → Prog) : Prog :=
  .rawLen fun top =>
    if top < ptr then .fail (.controlFlow "map stack underflow")
    else if (top - ptr) % 2 ≠ 0 then .fail (.controlFlow "missing key element")
    else .rawFrom ptr fun cells => popN (top - ptr) (k (buildMap cells .nil))

def mapBuilderEnd : Prog :=
  .popSpecial fun
    | some ptr => mapCollect ptr fun m => .push (.map m) .done
    | none => .fail (.controlFlow "unbalanced map builder")

def wordWithTags : Prog :=
  .pop fun t => ofOutcome t.toMap fun tags => .pop fun v => .push (v.withTags tags) .done

/-- `collect_tag_map` = `map_builder_end` then `with-tags` -/
def tagsEnd : Prog :=
  .popSpecial fun
    | some ptr => mapCollect ptr fun m => .push (.map m) wordWithTags
    | none => .fail (.controlFlow "unbalanced map builder")

/-- an empty collection is consumed here, because the loop body that would take it is skipped -/
def foreachRange (limit : Nat) : Prog :=
  if limit = 0 then .pop fun _ => .push (.int 0) (.push (.int 0) .done)
  else .push (.int limit) (.push (.int 0) .done)

def foreachInit : Prog :=
  .top fun t =>
    match t.value with
    | .map kv => foreachRange kv.size
    | .vec xs => foreachRange xs.length
    | other => .fail (.typeNotSupported other)

def foreachNext : Prog :=
  .loopAt 0 fun
    | none => .fail .loopStackUnderflow
    | some l => if l.start = 0 then .pop fun items => .setLoopItems items .done else .done

def coreTable : List (String × Prog) := [
  ("dup", .dup .done),
  ("drop", .pop fun _ => .done),
  ("swap", .swap .done),
  ("rot", .rot .done),
  ("over", .over .done),
  ("depth", wordDepth),
  ("nil?", wordNilQ),
  ("equal?", wordEqual),
  ("assert", wordAssert),
  ("assert-eq", wordAssertEq),
  ("error", wordError),
  ("exit", wordExit),
  ("I", wordCounter 0),
  ("J", wordCounter 1),
  ("K", wordCounter 2),
  ("<vec-begin>", vecBuilderBegin),
  ("<vec-end>", vecBuilderEnd),
  ("<map-begin>", vecBuilderBegin),
  ("<map-end>", mapBuilderEnd),
  ("<tags-end>", tagsEnd),
  ("with-tags", wordWithTags),
  ("<foreach-init>", foreachInit),
  ("<foreach-next>", foreachNext)
]

end Xeh
