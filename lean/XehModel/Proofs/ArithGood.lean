/- Per-family lemmas for C09's `type_error_payload` / `no_panic` (helper file). -/
import XehModel.Proofs.Tactics
namespace Xeh
open Prog

/-- the outcome is never a panic, and a type error quotes one of the operands (the cell itself or
    its untagged value) -/
def Good (o : Outcome (List Cell)) (ops : List Cell) : Prop :=
  (∀ site, o ≠ .panic site) ∧
  (∀ v m, o = .err (.typeErrorMsg v m) → ∃ c ∈ ops, v = c ∨ v = c.value)

theorem toXint_cases (a : Cell) : (∃ i, a.toXint = .ok i) ∨ a.toXint = .err (.typeErrorMsg a.value "int") := by
  unfold Cell.toXint; cases a.value <;> simp
theorem toReal_cases (a : Cell) : (∃ i, a.toReal = .ok i) ∨ a.toReal = .err (.typeErrorMsg a.value "real") := by
  unfold Cell.toReal; cases a.value <;> simp
theorem toBool_cases (a : Cell) : (∃ i, a.toBool = .ok i) ∨ a.toBool = .err (.typeErrorMsg a "flag") := by
  unfold Cell.toBool; cases a.value <;> simp

theorem good_arithOpsReal (fi fr) (s : List Cell) : Good ((arithOpsReal fi fr).runStack 0 s) (s.take 2) := by
  unfold arithOpsReal
  rcases s with _ | ⟨b, _ | ⟨a, s⟩⟩
  · simp [Good]
  · simp [Good, runStack]
  · simp only [runStack_pop_cons _ 0 _ _ (Nat.zero_le _)]
    cases hb : b.value <;> simp only [List.take, numErr]
    case int =>
      rcases toXint_cases a with ⟨i, hi⟩ | hi <;> simp [hi, ofOutcome, Good]
    case real =>
      rcases toReal_cases a with ⟨i, hi⟩ | hi <;> simp [hi, ofOutcome, Good]
    all_goals simp [Good]

theorem good_arithOpsInt (fi) (s : List Cell) : Good ((arithOpsInt fi).runStack 0 s) (s.take 2) := by
  unfold arithOpsInt
  rcases s with _ | ⟨b, s⟩
  · simp [Good]
  · simp only [runStack_pop_cons _ 0 _ _ (Nat.zero_le _)]
    rcases toXint_cases b with ⟨i, hi⟩ | hi
    · rcases s with _ | ⟨a, s⟩
      · simp [hi, ofOutcome, Good]
      · simp only [hi, ofOutcome, runStack_pop_cons _ 0 _ _ (Nat.zero_le _)]
        rcases toXint_cases a with ⟨j, hj⟩ | hj <;> simp [hj, ofOutcome, Good]
    · rcases s with _ | ⟨a, s⟩ <;> simp [hi, ofOutcome, Good]

theorem good_wordDiv (s : List Cell) : Good (wordDiv.runStack 0 s) (s.take 2) := by
  unfold wordDiv
  rcases s with _ | ⟨b, _ | ⟨a, s⟩⟩
  · simp [Good]
  · simp [Good, runStack]
  · simp only [runStack_pop_cons _ 0 _ _ (Nat.zero_le _)]
    cases hb : b.value <;> simp only [List.take, numErr]
    case int bi =>
      rcases toXint_cases a with ⟨i, hi⟩ | hi <;> simp [hi, ofOutcome, Good]
      split <;> (try split) <;> simp
    case real br =>
      rcases toReal_cases a with ⟨i, hi⟩ | hi <;> simp [hi, ofOutcome, Good]
      split <;> simp
    all_goals simp [Good]

theorem good_wordRem (s : List Cell) : Good (wordRem.runStack 0 s) (s.take 2) := by
  unfold wordRem
  rcases s with _ | ⟨b, _ | ⟨a, s⟩⟩
  · simp [Good]
  · simp [Good, runStack]
  · simp only [runStack_pop_cons _ 0 _ _ (Nat.zero_le _)]
    cases hb : b.value <;> simp only [List.take, numErr]
    case int bi =>
      rcases toXint_cases a with ⟨i, hi⟩ | hi <;> simp [hi, ofOutcome, Good]
      split <;> simp
    case real br =>
      rcases toReal_cases a with ⟨i, hi⟩ | hi <;> simp [hi, ofOutcome, Good]
    all_goals simp [Good]

theorem good_wordCmp (t) (s : List Cell) : Good ((wordCmp t).runStack 0 s) (s.take 2) := by
  unfold wordCmp
  rcases s with _ | ⟨b, _ | ⟨a, s⟩⟩
  · simp [Good]
  · simp [Good, runStack]
  · simp only [runStack_pop_cons _ 0 _ _ (Nat.zero_le _)]
    cases hb : b.value <;> simp only [List.take, numErr]
    case int bi =>
      rcases toXint_cases a with ⟨i, hi⟩ | hi <;> simp [hi, ofOutcome, Good]
    case real br =>
      rcases toReal_cases a with ⟨i, hi⟩ | hi <;> simp [hi, ofOutcome, Good]
    all_goals simp [Good]

theorem good_wordLogic (f) (s : List Cell) : Good ((wordLogic f).runStack 0 s) (s.take 2) := by
  unfold wordLogic
  rcases s with _ | ⟨b, _ | ⟨a, s⟩⟩
  · simp [Good]
  · simp [Good, runStack]
  · simp only [runStack_pop_cons _ 0 _ _ (Nat.zero_le _)]
    rcases toBool_cases a with ⟨i, hi⟩ | hi
    · rcases toBool_cases b with ⟨j, hj⟩ | hj <;> simp [hi, hj, ofOutcome, Good]
    · simp [hi, ofOutcome, Good]

/-- unary words: shape `pop a; match a.value …` -/
theorem good_wordNeg (s : List Cell) : Good (wordNeg.runStack 0 s) (s.take 2) := by
  unfold wordNeg
  rcases s with _ | ⟨a, s⟩
  · simp [Good]
  · simp only [runStack_pop_cons _ 0 _ _ (Nat.zero_le _)]
    cases ha : a.value <;> simp [Good, numErr]
    split <;> simp

theorem good_wordAbs (s : List Cell) : Good (wordAbs.runStack 0 s) (s.take 2) := by
  unfold wordAbs
  rcases s with _ | ⟨a, s⟩
  · simp [Good]
  · simp only [runStack_pop_cons _ 0 _ _ (Nat.zero_le _)]
    cases ha : a.value <;> simp [Good, numErr]
    split <;> simp

theorem good_wordNumTest (ti tr) (s : List Cell) : Good ((wordNumTest ti tr).runStack 0 s) (s.take 2) := by
  unfold wordNumTest
  rcases s with _ | ⟨a, s⟩
  · simp [Good]
  · simp only [runStack_pop_cons _ 0 _ _ (Nat.zero_le _)]
    cases ha : a.value <;> simp [Good, numErr]

theorem good_unInt (f : Int → Cell) (s : List Cell) :
    Good ((Prog.pop fun a => ofOutcome a.toXint fun ai => .push (f ai) .done).runStack 0 s) (s.take 2) := by
  rcases s with _ | ⟨a, s⟩
  · simp [Good]
  · simp only [runStack_pop_cons _ 0 _ _ (Nat.zero_le _)]
    rcases toXint_cases a with ⟨i, hi⟩ | hi <;> simp [hi, ofOutcome, Good]

theorem good_wordRound (s : List Cell) : Good (wordRound.runStack 0 s) (s.take 2) := by
  unfold wordRound
  rcases s with _ | ⟨a, s⟩
  · simp [Good]
  · simp only [runStack_pop_cons _ 0 _ _ (Nat.zero_le _)]
    rcases toReal_cases a with ⟨i, hi⟩ | hi <;> simp [hi, ofOutcome, Good]

theorem good_wordNot (s : List Cell) : Good (wordNot.runStack 0 s) (s.take 2) := by
  unfold wordNot
  rcases s with _ | ⟨a, s⟩
  · simp [Good]
  · simp only [runStack_pop_cons _ 0 _ _ (Nat.zero_le _)]
    rcases toBool_cases a with ⟨i, hi⟩ | hi <;> simp [hi, ofOutcome, Good]

theorem good_wordIntoReal (s : List Cell) : Good (wordIntoReal.runStack 0 s) (s.take 2) := by
  unfold wordIntoReal
  rcases s with _ | ⟨a, s⟩
  · simp [Good]
  · simp only [runStack_top_cons _ 0 _ _ (Nat.zero_le _)]
    cases ha : a.value <;> simp only [] <;> try (simp [Good]; done)
    all_goals
      simp only [runStack_pop_cons _ 0 _ _ (Nat.zero_le _)]
      rcases toXint_cases a with ⟨i, hi⟩ | hi <;> simp [hi, ofOutcome, Good]

theorem good_wordIntoInt (s : List Cell) : Good (wordIntoInt.runStack 0 s) (s.take 2) := by
  unfold wordIntoInt
  rcases s with _ | ⟨a, s⟩
  · simp [Good]
  · simp only [runStack_top_cons _ 0 _ _ (Nat.zero_le _)]
    cases ha : a.value <;> simp only [] <;> try (simp [Good]; done)
    all_goals
      simp only [runStack_pop_cons _ 0 _ _ (Nat.zero_le _)]
      rcases toReal_cases a with ⟨i, hi⟩ | hi <;> simp [hi, ofOutcome, Good]

end Xeh
