/-
Helper lemmas about the L0 bit-list specification (Model/Bits.lean).
-/
import XehModel.Model.Bits

namespace Xeh.Bits

@[simp] theorem beVal_nil : beVal [] = 0 := rfl

theorem beVal_cons (b : Bool) (r : List Bool) : beVal (b :: r) = b.toNat * 2 ^ r.length + beVal r := rfl

theorem beVal_lt (l : List Bool) : beVal l < 2 ^ l.length := by
  induction l with
  | nil => simp
  | cons b r ih =>
    rw [beVal_cons, List.length_cons, Nat.pow_succ]
    cases b <;> simp <;> omega

theorem beVal_append (a b : List Bool) : beVal (a ++ b) = beVal a * 2 ^ b.length + beVal b := by
  induction a with
  | nil => simp
  | cons x r ih =>
    rw [List.cons_append, beVal_cons, ih, beVal_cons, List.length_append, Nat.pow_add,
      Nat.add_mul, Nat.mul_assoc, Nat.add_assoc]

@[simp] theorem bitsOfNat_length (n v : Nat) : (bitsOfNat n v).length = n := by
  induction n with
  | zero => rfl
  | succ n ih => simp [bitsOfNat, ih]

theorem beVal_bitsOfNat (n v : Nat) : beVal (bitsOfNat n v) = v % 2 ^ n := by
  induction n with
  | zero => simp [bitsOfNat, Nat.mod_one]
  | succ n ih =>
    rw [bitsOfNat, beVal_cons, ih, bitsOfNat_length, Nat.mod_pow_succ]
    have h2 : v / 2 ^ n % 2 < 2 := Nat.mod_lt _ (by decide)
    rcases Nat.lt_or_ge (v / 2 ^ n % 2) 1 with h | h
    · have : v / 2 ^ n % 2 = 0 := by omega
      simp [this]
    · have : v / 2 ^ n % 2 = 1 := by omega
      simp [this]; omega

theorem bitsOfNat_mod (n v : Nat) : bitsOfNat n (v % 2 ^ n) = bitsOfNat n v := by
  induction n generalizing v with
  | zero => rfl
  | succ n ih =>
    simp only [bitsOfNat]
    congr 1
    · have h1 : v % 2 ^ (n + 1) / 2 ^ n % 2 = v / 2 ^ n % 2 := by
        rw [Nat.mod_pow_succ]
        have hp : 0 < 2 ^ n := Nat.two_pow_pos n
        rw [Nat.add_comm, Nat.mul_add_div hp, Nat.div_eq_of_lt (Nat.mod_lt _ hp), Nat.add_zero, Nat.mod_mod]
      rw [h1]
    · rw [← ih (v % 2 ^ (n + 1)), ← ih v]
      congr 1
      exact Nat.mod_mod_of_dvd v ⟨2, Nat.pow_succ ..⟩

/-! ### chunks8 -/

@[simp] theorem chunks8_nil : chunks8 [] = [] := by
  rw [chunks8]; simp

theorem chunks8_of_ne {l : List Bool} (h : l ≠ []) : chunks8 l = l.take 8 :: chunks8 (l.drop 8) := by
  rw [chunks8]; simp [h]

theorem chunks8_short {l : List Bool} (h : l ≠ []) (h8 : l.length ≤ 8) : chunks8 l = [l] := by
  rw [chunks8_of_ne h, List.take_of_length_le h8, List.drop_eq_nil_of_le h8, chunks8_nil]

@[simp] theorem leVal_nil : leVal [] = 0 := by simp [leVal, leGroups]

theorem leVal_of_ne {l : List Bool} (h : l ≠ []) :
    leVal l = beVal (l.take 8) + 256 * leVal (l.drop 8) := by
  simp [leVal, chunks8_of_ne h, leGroups]

theorem leVal_lt (l : List Bool) : leVal l < 2 ^ l.length := by
  induction hn : l.length using Nat.strongRecOn generalizing l with
  | _ n ih =>
    by_cases h : l = []
    · subst h; simp; exact Nat.two_pow_pos n
    · rw [leVal_of_ne h]
      have h1 := beVal_lt (l.take 8)
      by_cases h8 : l.length ≤ 8
      · rw [List.drop_eq_nil_of_le h8, leVal_nil, List.take_of_length_le h8] at *
        subst hn; simpa using h1
      · have hlen : (l.drop 8).length < n := by simp; omega
        have h2 := ih _ hlen (l.drop 8) rfl
        rw [List.length_take, Nat.min_eq_left (by omega)] at h1
        rw [List.length_drop] at h2
        have : 2 ^ n = 256 * 2 ^ (l.length - 8) := by
          rw [← hn]
          have : l.length = 8 + (l.length - 8) := by omega
          conv => lhs; rw [this, Nat.pow_add]
        omega

/-! ### slices -/

theorem slice_length (l : List Bool) (a b : Nat) (hb : b ≤ l.length) : (slice l a b).length = b - a := by
  simp [slice]; omega

theorem slice_split (l : List Bool) (a m b : Nat) (h1 : a ≤ m) (h2 : m ≤ b) :
    slice l a b = slice l a m ++ slice l m b := by
  unfold slice
  have : b - a = (m - a) + (b - m) := by omega
  rw [this, List.take_add, List.drop_drop]
  congr 3; omega

theorem slice_self (l : List Bool) (a : Nat) : slice l a a = [] := by simp [slice]

theorem slice_take8 (l : List Bool) (a b : Nat) : (slice l a b).take 8 = slice l a (a + min (b - a) 8) := by
  simp [slice, List.take_take, Nat.min_comm]

theorem slice_drop8 (l : List Bool) (a b : Nat) : (slice l a b).drop 8 = slice l (a + min (b - a) 8) b := by
  simp only [slice, List.drop_take, List.drop_drop]
  by_cases h : b - a ≤ 8
  · rw [Nat.min_eq_left h]
    have : b - (a + (b - a)) = 0 := by omega
    have h1 : b - a - 8 = 0 := by omega
    rw [this, h1]; simp
  · rw [Nat.min_eq_right (by omega)]
    congr 1

theorem ofBytes_length (bs : List Nat) : (ofBytes bs).length = 8 * bs.length := by
  induction bs with
  | nil => rfl
  | cons b r ih => simp [ofBytes, List.flatMap_cons] at *; omega

theorem ofBytes_cons (b : Nat) (r : List Nat) : ofBytes (b :: r) = bitsOfNat 8 b ++ ofBytes r := by
  simp [ofBytes, List.flatMap_cons]

theorem ofBytes_drop (bs : List Nat) (i : Nat) : (ofBytes bs).drop (8 * i) = ofBytes (bs.drop i) := by
  induction bs generalizing i with
  | nil => simp [ofBytes]
  | cons b r ih =>
    cases i with
    | zero => simp
    | succ i =>
      rw [ofBytes_cons, List.drop_succ_cons, ← ih i]
      rw [List.drop_append, List.drop_eq_nil_of_le (by simp; omega)]
      simp
      have : 8 * (i + 1) - 8 = 8 * i := by omega
      rw [this]

/-- bits `[p, p+k)` of a byte buffer that lie inside one byte are bits of that byte -/
theorem slice_in_byte (bs : List Nat) (p k : Nat) (hk : p % 8 + k ≤ 8) (hi : p / 8 < bs.length) :
    slice (ofBytes bs) p (p + k) = ((bitsOfNat 8 bs[p / 8]).drop (p % 8)).take k := by
  unfold slice
  have hp : p = 8 * (p / 8) + p % 8 := (Nat.div_add_mod p 8).symm
  have : (ofBytes bs).drop p = ((ofBytes bs).drop (8 * (p / 8))).drop (p % 8) := by
    rw [List.drop_drop, ← hp]
  rw [this, ofBytes_drop, List.drop_eq_getElem_cons hi, ofBytes_cons]
  rw [List.drop_append_of_le_length (by simp; omega)]
  have : p + k - p = k := by omega
  rw [this, List.take_append_of_le_length (by simp; omega)]

end Xeh.Bits
