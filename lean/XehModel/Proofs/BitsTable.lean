/-
The finite byte-level table behind `cut_bits` (bitstr.rs 31–37): for every byte, start bit and length
that stays inside the byte, shift-and-mask equals the big-endian value of the selected bits.
18 432 cases, closed by kernel evaluation (`decide +kernel`, no axioms beyond propext).
-/
import XehModel.Model.Bitstr

namespace Xeh.Bitstr
open Xeh Xeh.Bits

/-- the finite table: 256 bytes × 8 start bits × lengths that stay inside the byte -/
theorem cutCore_table : ∀ x : Fin 256, ∀ sb : Fin 8, ∀ len : Fin 9, sb.val + len.val ≤ 8 →
    cutCore x.val sb.val len.val = beVal (((bitsOfNat 8 x.val).drop sb.val).take len.val) := by
  decide +kernel

end Xeh.Bitstr
