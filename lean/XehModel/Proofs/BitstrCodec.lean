/-
Helper lemmas for the number codecs of the L1 model: `to_int` (two's complement), `from_int`
(both orders), float byte layouts.
-/
import XehModel.Proofs.BitstrHeap

namespace Xeh.Bitstr
open Xeh Xeh.Bits

theorem and_two_pow' (x i : Nat) : x &&& 2 ^ i = if x.testBit i then 2 ^ i else 0 := by
  apply Nat.eq_of_testBit_eq
  intro j
  rw [Nat.testBit_and, Nat.testBit_two_pow]
  by_cases hij : i = j
  · subst hij
    cases h : x.testBit i <;> simp [Nat.testBit_two_pow_self]
  · cases h : x.testBit i <;> simp [hij, Nat.testBit_two_pow_of_ne hij]

theorem testBit_top (u len : Nat) (h1 : 1 ≤ len) (hu : u < 2 ^ len) :
    u.testBit (len - 1) = decide (2 ^ (len - 1) ≤ u) := by
  by_cases h : u < 2 ^ (len - 1)
  · rw [Nat.testBit_lt_two_pow h]; simp; omega
  · have hp : 2 ^ len = 2 ^ (len - 1) * 2 := by
      rw [← Nat.pow_succ]; congr 1; omega
    have : u = 2 ^ (len - 1) + (u - 2 ^ (len - 1)) := by omega
    rw [this, Nat.testBit_two_pow_add_eq, Nat.testBit_lt_two_pow (by omega)]
    simp

theorem toInt_mask : ∀ len : Fin 128,
    (2 ^ 128 - 1) - (((2 ^ 128 - 1) <<< len.val) % 2 ^ 128) = 2 ^ len.val - 1 := by decide +kernel

theorem not_and_mask (u len : Nat) (hl : len < 128) (hu : u < 2 ^ len) :
    (2 ^ 128 - 1 - u) &&& (2 ^ len - 1) = 2 ^ len - 1 - u := by
  rw [Nat.and_two_pow_sub_one_eq_mod]
  have hq : (2 : Nat) ^ 128 = 2 ^ len * 2 ^ (128 - len) := by
    rw [← Nat.pow_add]; congr 1; omega
  have hq0 : 2 ^ (128 - len) ≠ 0 := Nat.ne_of_gt (Nat.two_pow_pos _)
  obtain ⟨q', hq'⟩ := Nat.exists_eq_succ_of_ne_zero hq0
  rw [hq', Nat.mul_succ] at hq
  have hP := Nat.two_pow_pos len
  rw [hq]
  have : 2 ^ len * q' + 2 ^ len - 1 - u = 2 ^ len * q' + (2 ^ len - 1 - u) := by omega
  rw [this, Nat.mul_add_mod, Nat.mod_eq_of_lt (by omega)]

theorem View.toInt_spec (v : View) (o : Byteorder) (u : Nat) (hu : v.toUint o = .ok u)
    (hlt : u < 2 ^ v.len) (h1 : 1 ≤ v.len) (h128 : v.len ≤ 128) :
    v.toInt o = .ok (sext v.len u) := by
  unfold View.toInt
  rw [hu]
  simp only
  have hne : (v.len == 0) = false := by simp; omega
  rw [hne]
  simp only [Bool.false_eq_true, if_false]
  by_cases hbig : v.len ≥ 128
  · have h128' : v.len = 128 := by omega
    rw [if_pos hbig, h128']
    unfold sext
    rfl
  · rw [if_neg hbig]
    have hl : v.len < 128 := by omega
    have hm := toInt_mask ⟨v.len, hl⟩
    simp only at hm
    rw [hm, and_two_pow', testBit_top u v.len h1 hlt]
    unfold sext
    by_cases hs : 2 ^ (v.len - 1) ≤ u
    · have hp := Nat.two_pow_pos (v.len - 1)
      simp only [hs, decide_true, if_true]
      rw [if_pos hp, if_neg (by omega), not_and_mask u v.len hl hlt]
      congr 1
      have : 2 ^ v.len - 1 - u + 1 = 2 ^ v.len - u := by omega
      have h2 : ((2 ^ v.len : Nat) : Int) = (2 : Int) ^ v.len := by simp
      rw [this, ← h2]
      omega
    · simp only [hs, decide_false]
      rw [if_neg (by simp), if_pos (by omega)]


/-- the u128 reinterpretation of an i128 (any Int): `val as u128` -/
def asU128 (val : Int) : Nat := (val % 2 ^ 128).toNat

theorem shrByte_spec (val : Int) (k : Nat) (hk : k + 8 ≤ 128) :
    shrByte val k = asU128 val / 2 ^ k % 256 := by
  unfold shrByte asU128
  have hk' : k % 2 ^ 32 % 128 = k := by omega
  rw [hk']
  have hU0 : 0 ≤ val % 2 ^ 128 := Int.emod_nonneg _ (by decide)
  obtain ⟨U, hU⟩ := Int.eq_ofNat_of_zero_le hU0
  have hval : val = (U : Int) + 2 ^ k * (2 ^ (128 - k) * (val / 2 ^ 128)) := by
    have h1 := Int.emod_add_mul_ediv val (2 ^ 128)
    rw [hU] at h1
    have h2 : (2 : Int) ^ 128 = 2 ^ k * 2 ^ (128 - k) := by
      rw [← Int.pow_add]; congr 1; omega
    rw [← Int.mul_assoc, ← h2]; omega
  have hne : (2 : Int) ^ k ≠ 0 := Int.ne_of_gt (Int.pow_pos (by decide))
  rw [hU, Int.toNat_natCast]
  conv => lhs; rw [hval, Int.add_mul_ediv_left _ _ hne]
  have h3 : (2 : Int) ^ (128 - k) = 256 * 2 ^ (120 - k) := by
    have : 128 - k = 8 + (120 - k) := by omega
    rw [this, Int.pow_add]; rfl
  rw [h3, Int.mul_assoc, Int.add_mul_emod_self_left]
  have h4 : ((U : Int) / 2 ^ k % 256) = ((U / 2 ^ k % 256 : Nat) : Int) := by
    simp
  rw [h4, Int.toNat_natCast]


/-- a group byte `x << (8-n)` (as u8) carries the `n` low bits of `x` in its top `n` positions -/
theorem group_table : ∀ n : Fin 9, ∀ x : Fin 256,
    (bitsOfNat 8 ((x.val <<< (8 - n.val)) % 256)).take n.val = bitsOfNat n.val x.val := by
  decide +kernel

theorem bitsOfNat_split (a b U : Nat) : bitsOfNat (a + b) U = bitsOfNat a (U / 2 ^ b) ++ bitsOfNat b U := by
  induction a with
  | zero => simp [bitsOfNat]
  | succ a ih =>
    have : a + 1 + b = (a + b) + 1 := by omega
    rw [this, bitsOfNat, bitsOfNat, ih, List.cons_append]
    congr 2
    rw [Nat.div_div_eq_div_mul, ← Nat.pow_add, Nat.add_comm b a]

theorem bitsOfNat_mod_of_le (n m U : Nat) (h : n ≤ m) : bitsOfNat n (U % 2 ^ m) = bitsOfNat n U := by
  rw [← bitsOfNat_mod n (U % 2 ^ m), ← bitsOfNat_mod n U]
  congr 1
  exact Nat.mod_mod_of_dvd U (Nat.pow_dvd_pow 2 h)

theorem slice_zero_append (A R : List Bool) (i : Nat) (hA : A.length ≤ i) :
    slice (A ++ R) 0 i = A ++ slice R 0 (i - A.length) := by
  simp only [slice, List.drop_zero, Nat.sub_zero]
  rw [List.take_append, List.take_of_length_le hA]

theorem fromIntBE_bits (val : Int) : ∀ fuel i, i ≤ fuel → i ≤ 128 →
    slice (allBits (fromIntBE val fuel i)) 0 i = bitsOfNat i (asU128 val) := by
  intro fuel
  induction fuel with
  | zero => intro i h _; have : i = 0 := by omega
            subst this; simp [slice, bitsOfNat]
  | succ fuel ih =>
    intro i hi h128
    unfold fromIntBE
    by_cases h0 : i > 0
    · rw [if_pos h0]
      simp only
      have hx : shrByte val (i - min i 8) < 256 := by
        rw [shrByte_spec _ _ (by omega)]; exact Nat.mod_lt _ (by decide)
      unfold allBits
      rw [ofBytes_cons]
      by_cases h8 : 8 ≤ i
      · have hn : min i 8 = 8 := by omega
        rw [hn]
        rw [slice_zero_append _ _ _ (by simp; exact h8), bitsOfNat_length]
        have := ih (i - 8) (by omega) (by omega)
        unfold allBits at this
        rw [this]
        have hs : (8 - 8 : Nat) = 0 := rfl
        rw [hs, Nat.shiftLeft_zero, Nat.mod_eq_of_lt (by rw [hn] at hx; exact hx)]
        rw [shrByte_spec _ _ (by omega)]
        have h256 : (256 : Nat) = 2 ^ 8 := rfl
        rw [h256, bitsOfNat_mod]
        have : i = 8 + (i - 8) := by omega
        conv => rhs; rw [this, bitsOfNat_split]
      · have hn : min i 8 = i := by omega
        rw [hn, Nat.sub_self]
        have hrest : fromIntBE val fuel 0 = [] := by
          cases fuel <;> simp [fromIntBE]
        rw [hrest]
        simp only [ofBytes, List.flatMap_nil, List.append_nil]
        have ht := group_table ⟨i, by omega⟩ ⟨shrByte val 0, by rw [hn, Nat.sub_self] at hx; exact hx⟩
        simp only at ht
        simp only [slice, List.drop_zero, Nat.sub_zero]
        rw [ht, shrByte_spec _ _ (by omega)]
        simp only [Nat.pow_zero, Nat.div_one]
        have h256 : (256 : Nat) = 2 ^ 8 := rfl
        rw [h256, bitsOfNat_mod_of_le _ _ _ (by omega)]
    · have : i = 0 := by omega
      subst this
      simp [slice, bitsOfNat]


theorem leVal_append8 (A R : List Bool) (hA : A.length = 8) : leVal (A ++ R) = beVal A + 256 * leVal R := by
  have hne : A ++ R ≠ [] := by
    intro h; have := congrArg List.length h; simp [hA] at this
  rw [leVal_of_ne hne, List.take_left' hA, List.drop_left' hA]

theorem leVal_short (l : List Bool) (h8 : l.length ≤ 8) : leVal l = beVal l := by
  by_cases h : l = []
  · subst h; simp
  · rw [leVal_of_ne h, List.take_of_length_le h8, List.drop_eq_nil_of_le h8]; simp

theorem fromIntLE_leVal (val : Int) (N : Nat) (hN : N ≤ 128) : ∀ fuel i, N - i ≤ fuel → i % 8 = 0 → i ≤ N →
    leVal (slice (allBits (fromIntLE val N fuel i)) 0 (N - i)) = (asU128 val / 2 ^ i) % 2 ^ (N - i) := by
  intro fuel
  induction fuel with
  | zero =>
    intro i h _ _
    have : N - i = 0 := by omega
    rw [this]; simp [slice, Nat.mod_one]
  | succ fuel ih =>
    intro i hf h8 hi
    unfold fromIntLE
    by_cases h0 : i < N
    · rw [if_pos h0]
      simp only
      have hx : shrByte val i < 256 := by
        rw [shrByte_spec _ _ (by omega)]; exact Nat.mod_lt _ (by decide)
      unfold allBits
      rw [ofBytes_cons]
      have h256 : (256 : Nat) = 2 ^ 8 := rfl
      by_cases hge : 8 ≤ N - i
      · have hn : min (N - i) 8 = 8 := by omega
        rw [hn]
        rw [slice_zero_append _ _ _ (by simp; exact hge), bitsOfNat_length]
        have hs : (8 - 8 : Nat) = 0 := rfl
        rw [hs, Nat.shiftLeft_zero, Nat.mod_eq_of_lt hx]
        rw [leVal_append8 _ _ (bitsOfNat_length _ _), beVal_bitsOfNat]
        have := ih (i + 8) (by omega) (by omega) (by omega)
        unfold allBits at this
        have hsub : N - (i + 8) = N - i - 8 := by omega
        rw [hsub] at this
        rw [this, shrByte_spec _ _ (by omega)]
        have hp : 2 ^ (N - i) = 2 ^ 8 * 2 ^ (N - i - 8) := by
          rw [← Nat.pow_add]; congr 1; omega
        rw [hp, Nat.mod_mul (x := asU128 val / 2 ^ i), Nat.div_div_eq_div_mul, ← Nat.pow_add, ← h256,
          Nat.mod_mod]
      · have hn : min (N - i) 8 = N - i := by omega
        rw [hn]
        have hrest : fromIntLE val N fuel (i + (N - i)) = [] := by
          cases fuel with
          | zero => rfl
          | succ f => unfold fromIntLE; rw [if_neg (by omega)]
        rw [hrest]
        simp only [ofBytes, List.flatMap_nil, List.append_nil]
        have ht := group_table ⟨N - i, by omega⟩ ⟨shrByte val i, hx⟩
        simp only at ht
        simp only [slice, List.drop_zero, Nat.sub_zero]
        rw [ht, leVal_short _ (by simp; omega), beVal_bitsOfNat, shrByte_spec _ _ (by omega), h256]
        exact Nat.mod_mod_of_dvd _ (Nat.pow_dvd_pow 2 (by omega))
    · have : N - i = 0 := by omega
      rw [this]; simp [slice, Nat.mod_one]

theorem fromIntBE_length (val : Int) : ∀ fuel i, i ≤ fuel →
    (fromIntBE val fuel i).length = upperBoundIndex i := by
  intro fuel
  induction fuel with
  | zero => intro i h; have : i = 0 := by omega
            subst this; rfl
  | succ fuel ih =>
    intro i hi
    unfold fromIntBE
    by_cases h0 : i > 0
    · rw [if_pos h0]; simp only [List.length_cons]
      rw [ih _ (by omega)]
      unfold upperBoundIndex; split <;> split <;> omega
    · have : i = 0 := by omega
      subst this; rfl

theorem fromIntLE_length (val : Int) (N : Nat) : ∀ fuel i, N - i ≤ fuel →
    (fromIntLE val N fuel i).length = upperBoundIndex (N - i) := by
  intro fuel
  induction fuel with
  | zero => intro i h; have : N - i = 0 := by omega
            rw [this]; rfl
  | succ fuel ih =>
    intro i hi
    unfold fromIntLE
    by_cases h0 : i < N
    · rw [if_pos h0]; simp only [List.length_cons]
      rw [ih _ (by omega)]
      unfold upperBoundIndex; split <;> split <;> omega
    · rw [if_neg h0]
      have : N - i = 0 := by omega
      rw [this]; rfl

theorem fromIntBE_lt (val : Int) : ∀ fuel i, ∀ b ∈ fromIntBE val fuel i, b < 256 := by
  intro fuel
  induction fuel with
  | zero => intro i b hb; simp [fromIntBE] at hb
  | succ fuel ih =>
    intro i b hb
    unfold fromIntBE at hb
    split at hb
    · simp only [List.mem_cons] at hb
      rcases hb with hb | hb
      · rw [hb]; exact Nat.mod_lt _ (by decide)
      · exact ih _ b hb
    · simp at hb

theorem fromIntLE_lt (val : Int) (N : Nat) : ∀ fuel i, ∀ b ∈ fromIntLE val N fuel i, b < 256 := by
  intro fuel
  induction fuel with
  | zero => intro i b hb; simp [fromIntLE] at hb
  | succ fuel ih =>
    intro i b hb
    unfold fromIntLE at hb
    split at hb
    · simp only [List.mem_cons] at hb
      rcases hb with hb | hb
      · rw [hb]; exact Nat.mod_lt _ (by decide)
      · exact ih _ b hb
    · simp at hb


theorem asU128_mod (v : Int) (n : Nat) (hn : n ≤ 128) : asU128 v % 2 ^ n = (v % 2 ^ n).toNat := by
  unfold asU128
  have hU0 : 0 ≤ v % 2 ^ 128 := Int.emod_nonneg _ (by decide)
  obtain ⟨U, hU⟩ := Int.eq_ofNat_of_zero_le hU0
  have hd : ((2 : Int) ^ n) ∣ 2 ^ 128 := by
    refine ⟨2 ^ (128 - n), ?_⟩
    rw [← Int.pow_add]; congr 1; omega
  have : v % 2 ^ n = (v % 2 ^ 128) % 2 ^ n := (Int.emod_emod_of_dvd v hd).symm
  rw [this, hU, Int.toNat_natCast]
  have : ((U : Int) % 2 ^ n) = ((U % 2 ^ n : Nat) : Int) := by simp
  rw [this, Int.toNat_natCast]

/-- the view of a freshly allocated buffer -/
theorem alloc_view (h : Heap) (bytes : List Nat) (bw : Bool) (a b : Nat) :
    (h.alloc bytes bw).1.view ⟨a, b, (h.alloc bytes bw).2⟩ = ⟨bytes, a, b⟩ := by
  simp [Heap.alloc, Heap.view]

theorem alloc_WF (h : Heap) (bytes : List Nat) (bw : Bool) (a b : Nat) (hab : a ≤ b)
    (hb : b ≤ 8 * bytes.length) (hlt : ∀ x ∈ bytes, x < 256) :
    WF (h.alloc bytes bw).1 ⟨a, b, (h.alloc bytes bw).2⟩ := by
  refine ⟨?_, ?_, ?_⟩
  · rw [alloc_view]; exact ⟨hab, hb, hlt⟩
  · simp [Heap.alloc]
  · simp [Heap.alloc]

theorem fromIntBytes_length (v : Int) (n : Nat) (o : Byteorder) :
    (fromIntBytes v n o).length = upperBoundIndex n := by
  cases o
  · simp only [fromIntBytes]; rw [fromIntLE_length _ _ _ _ (by omega)]; rfl
  · simp only [fromIntBytes]; exact fromIntBE_length _ _ _ (Nat.le_refl _)

theorem fromIntBytes_lt (v : Int) (n : Nat) (o : Byteorder) : ∀ b ∈ fromIntBytes v n o, b < 256 := by
  cases o
  · exact fromIntLE_lt _ _ _ _
  · exact fromIntBE_lt _ _ _

theorem le_8ubi (n : Nat) : n ≤ 8 * upperBoundIndex n := by
  unfold upperBoundIndex; split <;> omega

theorem fromInt_WF (h : Heap) (v : Int) (n : Nat) (o : Byteorder) :
    WF (fromInt h v n o).1 (fromInt h v n o).2 := by
  unfold fromInt
  exact alloc_WF h _ false 0 n (Nat.zero_le _) (by rw [fromIntBytes_length]; exact le_8ubi n) (fromIntBytes_lt v n o)

theorem fromInt_bits (h : Heap) (v : Int) (n : Nat) (o : Byteorder) :
    bits (fromInt h v n o).1 (fromInt h v n o).2 = slice (allBits (fromIntBytes v n o)) 0 n := by
  unfold fromInt bits View.bits
  rw [alloc_view]


theorem leBytes_length (k v : Nat) : (leBytes k v).length = k := by
  induction k generalizing v with
  | zero => rfl
  | succ k ih => simp [leBytes, ih]

theorem leBytes_lt (k v : Nat) : ∀ b ∈ leBytes k v, b < 256 := by
  induction k generalizing v with
  | zero => intro b hb; simp [leBytes] at hb
  | succ k ih =>
    intro b hb
    simp only [leBytes, List.mem_cons] at hb
    rcases hb with hb | hb
    · rw [hb]; exact Nat.mod_lt _ (by decide)
    · exact ih _ b hb

theorem leBytes_snoc (k v : Nat) : leBytes (k + 1) v = leBytes k v ++ [v / 256 ^ k % 256] := by
  induction k generalizing v with
  | zero => simp [leBytes]
  | succ k ih =>
    rw [leBytes, ih (v / 256)]
    simp only [leBytes, List.cons_append]
    rw [Nat.div_div_eq_div_mul, Nat.pow_succ, Nat.mul_comm]

theorem beBytes_succ (k v : Nat) : beBytes (k + 1) v = (v / 256 ^ k % 256) :: beBytes k v := by
  unfold beBytes; rw [leBytes_snoc]; simp

theorem fromIntLE_bytes (val : Int) (N : Nat) (h8 : N % 8 = 0) (hN : N ≤ 128) :
    ∀ fuel i, N - i ≤ fuel → i % 8 = 0 → i ≤ N →
      fromIntLE val N fuel i = leBytes ((N - i) / 8) (asU128 val / 2 ^ i) := by
  intro fuel
  induction fuel with
  | zero => intro i h _ _; have : N - i = 0 := by omega
            rw [this]; rfl
  | succ fuel ih =>
    intro i hf hi8 hi
    unfold fromIntLE
    by_cases h0 : i < N
    · rw [if_pos h0]
      simp only
      have hn : min (N - i) 8 = 8 := by omega
      have hk : (N - i) / 8 = (N - (i + 8)) / 8 + 1 := by omega
      rw [hn, hk, leBytes, ih (i + 8) (by omega) (by omega) (by omega)]
      have hs : (8 - 8 : Nat) = 0 := rfl
      rw [hs, Nat.shiftLeft_zero, shrByte_spec _ _ (by omega), Nat.mod_mod]
      congr 2
      rw [Nat.div_div_eq_div_mul, Nat.pow_add]
    · rw [if_neg h0]
      have : N - i = 0 := by omega
      rw [this]; rfl

theorem fromIntBE_bytes (val : Int) : ∀ fuel i, i ≤ fuel → i % 8 = 0 → i ≤ 128 →
    fromIntBE val fuel i = beBytes (i / 8) (asU128 val) := by
  intro fuel
  induction fuel with
  | zero => intro i h _ _; have : i = 0 := by omega
            subst this; rfl
  | succ fuel ih =>
    intro i hf hi8 hi
    unfold fromIntBE
    by_cases h0 : i > 0
    · rw [if_pos h0]
      simp only
      have hn : min i 8 = 8 := by omega
      have hk : i / 8 = (i - 8) / 8 + 1 := by omega
      rw [hn, hk, beBytes_succ, ih (i - 8) (by omega) (by omega) (by omega)]
      have hs : (8 - 8 : Nat) = 0 := rfl
      rw [hs, Nat.shiftLeft_zero, shrByte_spec _ _ (by omega), Nat.mod_mod]
      congr 3
      have : (256 : Nat) = 2 ^ 8 := rfl
      rw [this, ← Nat.pow_mul]; congr 1; omega
    · have : i = 0 := by omega
      subst this; rfl

/-! ### floats: `from_fNN` then `to_fNN` on bit patterns -/

theorem beBytesVal_snoc (l : List Nat) (b : Nat) : View.beBytesVal (l ++ [b]) = View.beBytesVal l * 256 + b := by
  simp [View.beBytesVal, List.foldl_append]

theorem beBytesVal_beBytes (k x : Nat) : View.beBytesVal (beBytes k x) = x % 256 ^ k := by
  induction k generalizing x with
  | zero => simp [beBytes, leBytes, View.beBytesVal, Nat.mod_one]
  | succ k ih =>
    have : beBytes (k + 1) x = beBytes k (x / 256) ++ [x % 256] := by
      simp [beBytes, leBytes]
    rw [this, beBytesVal_snoc, ih, Nat.pow_succ, Nat.mul_comm (256 ^ k), Nat.mod_mul]
    omega

theorem iter8_ofBytes (bs : List Nat) (hb : ∀ b ∈ bs, b < 256) :
    Bits.iter8 (ofBytes bs) = bs.map fun b => (b, 8) := by
  induction bs with
  | nil => simp [ofBytes, Bits.iter8]
  | cons b r ih =>
    have hne : ofBytes (b :: r) ≠ [] := by
      intro h; have := congrArg List.length h; rw [ofBytes_length] at this; simp at this
    rw [iter8_of_ne hne, ofBytes_cons, List.take_left' (bitsOfNat_length _ _),
      List.drop_left' (bitsOfNat_length _ _), ih (fun x hx => hb x (List.mem_cons_of_mem _ hx))]
    simp only [List.map_cons, bitsOfNat_length, beVal_bitsOfNat]
    have : b % 2 ^ 8 = b := Nat.mod_eq_of_lt (hb b (List.mem_cons_self ..))
    rw [this]

theorem slice_full (l : List Bool) : slice l 0 l.length = l := by simp [slice]

theorem firstBytes_map (bs : List Nat) :
    View.firstBytes (bs.map fun b => (b, 8)) bs.length = bs := by
  unfold View.firstBytes
  rw [List.map_map]
  have : (Prod.fst ∘ fun b : Nat => (b, 8)) = id := rfl
  rw [this, List.map_id, List.take_left' rfl]

/-- fresh byte buffer: `to_fNN` reads back the bytes -/
theorem toFloatBits_fresh (bs : List Nat) (hb : ∀ b ∈ bs, b < 256) (o : Byteorder) (k : Nat) (hk : bs.length = k) :
    View.toFloatBits ⟨bs, 0, bs.length * 8⟩ k o =
      .ok (match o with | .big => View.beBytesVal bs | .little => View.beBytesVal bs.reverse) := by
  subst hk
  have wf : View.WF ⟨bs, 0, bs.length * 8⟩ := ⟨Nat.zero_le _, by simp; omega, hb⟩
  unfold View.toFloatBits
  rw [View.iter8_spec _ wf]
  simp only
  have hbits : View.bits ⟨bs, 0, bs.length * 8⟩ = ofBytes bs := by
    unfold View.bits allBits
    have : bs.length * 8 = (ofBytes bs).length := by rw [ofBytes_length]; omega
    simp only; rw [this, slice_full]
  rw [hbits, iter8_ofBytes bs hb, firstBytes_map]
  cases o <;> rfl


theorem toInt_congr (v w : View) (o : Byteorder) (hu : v.toUint o = w.toUint o) (hl : v.len = w.len) :
    v.toInt o = w.toInt o := by
  unfold View.toInt; rw [hu, hl]

theorem emod_toNat_lt (v : Int) (n : Nat) : (v % 2 ^ n).toNat < 2 ^ n := by
  have h0 : 0 ≤ v % 2 ^ n := Int.emod_nonneg _ (Int.ne_of_gt (Int.pow_pos (by decide)))
  have h1 : v % 2 ^ n < 2 ^ n := Int.emod_lt_of_pos _ (Int.pow_pos (by decide))
  have h2 : ((2 ^ n : Nat) : Int) = (2 : Int) ^ n := by simp
  omega

end Xeh.Bitstr
