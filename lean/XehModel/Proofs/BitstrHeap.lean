/-
Heap-level helper lemmas for the L1 model: reference-count updates never change bytes,
well-formedness is preserved by the range operations, slices of slices.
-/
import XehModel.Proofs.BitstrLemmas

namespace Xeh.Bitstr
open Xeh Xeh.Bits

@[simp] theorem incRc_bytes (h : Heap) (b x : Nat) : ((h.incRc b).buf x).bytes = (h.buf x).bytes := by
  unfold Heap.incRc Heap.set; simp only; split <;> simp_all

@[simp] theorem decRc_bytes (h : Heap) (b x : Nat) : ((h.decRc b).buf x).bytes = (h.buf x).bytes := by
  unfold Heap.decRc Heap.set; simp only; split <;> simp_all

@[simp] theorem incRc_next (h : Heap) (b : Nat) : (h.incRc b).next = h.next := rfl
@[simp] theorem decRc_next (h : Heap) (b : Nat) : (h.decRc b).next = h.next := rfl

theorem incRc_rc_ge (h : Heap) (b x : Nat) : (h.buf x).rc ≤ ((h.incRc b).buf x).rc := by
  unfold Heap.incRc Heap.set; simp only; split <;> simp_all

/-- a clone (count + 1 anywhere) changes the bits of no handle -/
@[simp] theorem bits_incRc (h : Heap) (b : Nat) (t : Handle) : bits (h.incRc b) t = bits h t := by
  simp [bits, Heap.view]

@[simp] theorem bits_decRc (h : Heap) (b : Nat) (t : Handle) : bits (h.decRc b) t = bits h t := by
  simp [bits, Heap.view]

theorem bits_eq (h : Heap) (s : Handle) :
    bits h s = slice (allBits (h.buf s.buf).bytes) s.start s.end_ := rfl

theorem bits_length (h : Heap) (s : Handle) (wf : WF h s) : (bits h s).length = s.end_ - s.start := by
  rw [bits_eq, slice_length _ _ _ (by rw [allBits_length]; exact wf.view.bound)]

theorem WF_incRc (h : Heap) (b : Nat) (s : Handle) (wf : WF h s) : WF (h.incRc b) s := by
  refine ⟨⟨wf.view.le, ?_, ?_⟩, wf.alloc, Nat.le_trans wf.live (incRc_rc_ge h b s.buf)⟩
  · simpa [Heap.view] using wf.view.bound
  · simpa [Heap.view] using wf.view.bytes

/-- same buffer, sub-range: still well-formed -/
theorem WF_sub (h : Heap) (s : Handle) (wf : WF h s) (a b : Nat) (h1 : a ≤ b) (h2 : b ≤ s.end_) :
    WF h { s with start := a, end_ := b } :=
  ⟨⟨h1, Nat.le_trans h2 wf.view.bound, wf.view.bytes⟩, wf.alloc, wf.live⟩

theorem slice_drop (l : List Bool) (a b k : Nat) : (slice l a b).drop k = slice l (a + k) b := by
  simp only [slice, List.drop_take, List.drop_drop]
  congr 1; omega

theorem slice_take (l : List Bool) (a b k : Nat) (hk : a + k ≤ b) : (slice l a b).take k = slice l a (a + k) := by
  simp only [slice, List.take_take]
  congr 1; omega

theorem slice_slice (l : List Bool) (a b i j : Nat) (h : a + j ≤ b) :
    slice (slice l a b) i j = slice l (a + i) (a + j) := by
  have hd : slice (slice l a b) i j = ((slice l a b).drop i).take (j - i) := rfl
  rw [hd, slice_drop]
  by_cases hij : i ≤ j
  · rw [slice_take _ _ _ _ (by omega)]; congr 1; omega
  · have h0 : j - i = 0 := by omega
    rw [h0]; unfold slice
    have : a + j - (a + i) = 0 := by omega
    rw [this]; simp

theorem checkedAdd_some {a b c : Nat} (h : checkedAdd a b = some c) : c = a + b := by
  unfold checkedAdd at h; split at h <;> simp_all

end Xeh.Bitstr
