/-
Helper lemmas for the L1 model (Model/Bitstr.lean): byte-level facts about `cut_bits` (a finite
table closed by `decide +kernel`), lifted to `Iter8`, `Bits`, `to_uint`, `from_int`.
-/
import XehModel.Model.Bitstr
import XehModel.Proofs.BitsLemmas
import XehModel.Proofs.BitsTable

namespace Xeh.Bitstr
open Xeh Xeh.Bits

theorem cutCore_spec (x sb len : Nat) (hx : x < 256) (h : sb + len ≤ 8) (hsb : sb < 8) :
    cutCore x sb len = beVal (((bitsOfNat 8 x).drop sb).take len) :=
  cutCore_table ⟨x, hx⟩ ⟨sb, hsb⟩ ⟨len, by omega⟩ h

theorem idx_of_getElem? {bytes : List Nat} {i b : Nat} (h : bytes[i]? = some b) : idx bytes i = .ok b := by
  simp [idx, h]

theorem allBits_length (bytes : List Nat) : (allBits bytes).length = 8 * bytes.length := ofBytes_length bytes

/-- `cut_bits` on the byte that contains bit `start` returns the big-endian value of the bits
    `[start, start+n)`, `n = min (end-start) (bits left in that byte)` -/
theorem cutBits_spec (bs : List Nat) (hb : ∀ b ∈ bs, b < 256) (start end_ b : Nat)
    (hle : start ≤ end_) (hg : bs[start / 8]? = some b) :
    cutBits b start end_ =
      .ok (beVal (slice (allBits bs) start (start + min (end_ - start) (8 - start % 8))),
           min (end_ - start) (8 - start % 8)) := by
  obtain ⟨hi, hbe⟩ := List.getElem?_eq_some_iff.mp hg
  have hlt : b < 256 := hb b (hbe ▸ List.getElem_mem hi)
  have hm : start % 8 < 8 := Nat.mod_lt _ (by decide)
  unfold cutBits
  rw [if_neg (by omega)]
  simp only
  rw [cutCore_spec b (start % 8) _ hlt (by omega) hm]
  unfold allBits
  rw [slice_in_byte bs start _ (by omega) hi, hbe]

theorem getElem?_of_lt (bs : List Nat) (i : Nat) (h : i < bs.length) : ∃ b, bs[i]? = some b :=
  ⟨bs[i], List.getElem?_eq_getElem h⟩

theorem iter8Next_spec (v : View) (hb : ∀ b ∈ v.bytes, b < 256) (hbound : v.end_ ≤ 8 * v.bytes.length)
    (pos : Nat) (hpos : pos < v.end_) :
    v.iter8Next pos =
      .ok (some ((beVal (slice (allBits v.bytes) pos (pos + min (v.end_ - pos) 8)), min (v.end_ - pos) 8),
                 pos + min (v.end_ - pos) 8)) := by
  have hm : pos % 8 < 8 := Nat.mod_lt _ (by decide)
  obtain ⟨b0, hb0⟩ := getElem?_of_lt v.bytes (pos / 8) (by omega)
  unfold View.iter8Next
  rw [if_neg (by omega)]
  simp only
  rw [idx_of_getElem? hb0]
  simp only
  rw [cutBits_spec v.bytes hb pos _ b0 (by omega) hb0]
  simp only
  generalize hlen : min (v.end_ - pos) 8 = len
  have hlen8 : len ≤ 8 := by omega
  have hlenp : pos + len ≤ v.end_ := by omega
  have hsub : pos + len - pos = len := by omega
  rw [hsub]
  by_cases hn : min len (8 - pos % 8) < len
  · rw [if_pos hn]
    have hn' : min len (8 - pos % 8) = 8 - pos % 8 := by omega
    rw [hn']
    have hdiv : (pos + (8 - pos % 8)) / 8 = pos / 8 + 1 := by omega
    have hmod : (pos + (8 - pos % 8)) % 8 = 0 := by omega
    obtain ⟨b1, hb1⟩ := getElem?_of_lt v.bytes (pos / 8 + 1) (by omega)
    rw [idx_of_getElem? hb1]
    simp only
    rw [cutBits_spec v.bytes hb (pos + (8 - pos % 8)) _ b1 (by omega) (by rw [hdiv]; exact hb1)]
    simp only
    rw [hmod]
    have hn2 : min (pos + len - (pos + (8 - pos % 8))) (8 - 0) = len - (8 - pos % 8) := by omega
    rw [hn2]
    have hend : pos + (8 - pos % 8) + (len - (8 - pos % 8)) = pos + len := by omega
    rw [hend]
    congr 3
    rw [slice_split (allBits v.bytes) pos (pos + (8 - pos % 8)) (pos + len) (by omega) (by omega), beVal_append]
    have hl2 : (slice (allBits v.bytes) (pos + (8 - pos % 8)) (pos + len)).length = len - (8 - pos % 8) := by
      rw [slice_length _ _ _ (by rw [allBits_length]; omega)]; omega
    have hl1 : (slice (allBits v.bytes) pos (pos + (8 - pos % 8))).length = 8 - pos % 8 := by
      rw [slice_length _ _ _ (by rw [allBits_length]; omega)]; omega
    have h1 := beVal_lt (slice (allBits v.bytes) pos (pos + (8 - pos % 8)))
    have h2 := beVal_lt (slice (allBits v.bytes) (pos + (8 - pos % 8)) (pos + len))
    rw [hl1] at h1
    rw [hl2] at h2 ⊢
    generalize beVal (slice (allBits v.bytes) pos (pos + (8 - pos % 8))) = a at *
    generalize beVal (slice (allBits v.bytes) (pos + (8 - pos % 8)) (pos + len)) = c at *
    have hlt : a <<< (len - (8 - pos % 8)) < 256 := by
      rw [Nat.shiftLeft_eq]
      have : 2 ^ (8 - pos % 8) * 2 ^ (len - (8 - pos % 8)) ≤ 2 ^ 8 := by
        rw [← Nat.pow_add]; exact Nat.pow_le_pow_right (by decide) (by omega)
      have := Nat.mul_lt_mul_of_lt_of_le h1 (Nat.le_refl (2 ^ (len - (8 - pos % 8)))) (Nat.two_pow_pos _)
      omega
    rw [Nat.mod_eq_of_lt hlt, ← Nat.shiftLeft_add_eq_or_of_lt h2, Nat.shiftLeft_eq]
  · rw [if_neg hn]
    have hn' : min len (8 - pos % 8) = len := by omega
    rw [hn']

theorem iter8Go_spec (v : View) (hb : ∀ b ∈ v.bytes, b < 256) (hbound : v.end_ ≤ 8 * v.bytes.length) :
    ∀ fuel pos, pos ≤ v.end_ → v.end_ - pos < fuel →
      v.iter8Go fuel pos = .ok (Bits.iter8 (slice (allBits v.bytes) pos v.end_)) := by
  intro fuel
  induction fuel with
  | zero => intro pos _ h; omega
  | succ fuel ih =>
    intro pos hle hf
    unfold View.iter8Go
    by_cases hp : pos < v.end_
    · rw [iter8Next_spec v hb hbound pos hp]
      simp only
      rw [ih _ (by omega) (by omega)]
      simp only
      have hne : slice (allBits v.bytes) pos v.end_ ≠ [] := by
        intro h
        have := slice_length (allBits v.bytes) pos v.end_ (by rw [allBits_length]; omega)
        rw [h] at this; simp at this; omega
      simp only [Bits.iter8]
      rw [chunks8_of_ne hne, List.map_cons, slice_take8, slice_drop8]
      congr 3
      rw [slice_length _ _ _ (by rw [allBits_length]; omega)]; omega
    · have : pos = v.end_ := by omega
      subst this
      have : v.iter8Next v.end_ = .ok none := by
        unfold View.iter8Next; rw [if_pos (by omega)]
      rw [this, slice_self]
      simp [Bits.iter8]

theorem View.iter8_spec (v : View) (h : v.WF) : v.iter8 = .ok (Bits.iter8 v.bits) := by
  unfold View.iter8 View.bits
  exact iter8Go_spec v h.bytes h.bound _ _ h.le (by omega)

theorem bitMask_one : bitMask 1 = 1 := by decide

theorem bitsNext_spec (v : View) (hb : ∀ b ∈ v.bytes, b < 256) (hbound : v.end_ ≤ 8 * v.bytes.length)
    (pos : Nat) (hpos : pos < v.end_) :
    v.bitsNext pos = .ok (some (beVal (slice (allBits v.bytes) pos (pos + 1)), pos + 1)) := by
  have hm : pos % 8 < 8 := Nat.mod_lt _ (by decide)
  obtain ⟨b0, hb0⟩ := getElem?_of_lt v.bytes (pos / 8) (by omega)
  have hc := cutBits_spec v.bytes hb pos (pos + 1) b0 (by omega) hb0
  have h1 : min (pos + 1 - pos) (8 - pos % 8) = 1 := by omega
  rw [h1] at hc
  unfold cutBits at hc
  rw [if_neg (by omega)] at hc
  simp only [h1] at hc
  unfold cutCore at hc
  rw [bitMask_one] at hc
  have h2 : (8 - (pos % 8 + 1)) % 8 = 7 - pos % 8 := by omega
  rw [h2] at hc
  unfold View.bitsNext
  rw [if_neg (by omega), idx_of_getElem? hb0]
  simp only
  injection hc with hc
  injection hc with hc _
  rw [hc]

theorem slice_one (l : List Bool) (p : Nat) (h : p < l.length) : slice l p (p + 1) = [l[p]] := by
  unfold slice
  have : p + 1 - p = 1 := by omega
  rw [this, List.drop_eq_getElem_cons h]; rfl

theorem bitsGo_spec (v : View) (hb : ∀ b ∈ v.bytes, b < 256) (hbound : v.end_ ≤ 8 * v.bytes.length) :
    ∀ fuel pos, pos ≤ v.end_ → v.end_ - pos < fuel →
      v.bitsGo fuel pos = .ok (bitNums (slice (allBits v.bytes) pos v.end_)) := by
  intro fuel
  induction fuel with
  | zero => intro pos _ h; omega
  | succ fuel ih =>
    intro pos hle hf
    unfold View.bitsGo
    by_cases hp : pos < v.end_
    · rw [bitsNext_spec v hb hbound pos hp]
      simp only
      rw [ih _ (by omega) (by omega)]
      simp only
      rw [slice_split (allBits v.bytes) pos (pos + 1) v.end_ (by omega) (by omega)]
      have hl : pos < (allBits v.bytes).length := by rw [allBits_length]; omega
      rw [slice_one _ _ hl]
      simp [bitNums, beVal]
    · have : pos = v.end_ := by omega
      subst this
      have : v.bitsNext v.end_ = .ok none := by
        unfold View.bitsNext; rw [if_pos (by omega)]
      rw [this, slice_self]
      simp [bitNums]

theorem View.bitsIter_spec (v : View) (h : v.WF) : v.bitsIter = .ok (bitNums v.bits) := by
  unfold View.bitsIter View.bits
  exact bitsGo_spec v h.bytes h.bound _ _ h.le (by omega)


theorem mod_step (acc val n k rest M : Nat) :
    (((acc * 2 ^ n + val) % M) * 2 ^ k + rest) % M = (acc * 2 ^ (n + k) + (val * 2 ^ k + rest)) % M := by
  have h : ((acc * 2 ^ n + val) % M * 2 ^ k + rest) % M = ((acc * 2 ^ n + val) * 2 ^ k + rest) % M := by
    rw [Nat.add_mod, Nat.mul_mod, Nat.mod_mod, ← Nat.mul_mod, ← Nat.add_mod]
  rw [h, Nat.add_mul, Nat.mul_assoc, ← Nat.pow_add, Nat.add_assoc]

theorem acc_step (acc val n : Nat) (hv : val < 2 ^ n) (hn : n ≤ 128) :
    ((acc <<< n) % 2 ^ 128) ||| val = (acc * 2 ^ n + val) % 2 ^ 128 := by
  have hM : (2 : Nat) ^ 128 = 2 ^ n * 2 ^ (128 - n) := by rw [← Nat.pow_add]; congr 1; omega
  rw [Nat.shiftLeft_eq, Nat.mul_comm acc, hM, Nat.mul_mod_mul_left, ← Nat.two_pow_add_eq_or_of_lt hv]
  rw [Nat.mod_mul, Nat.mul_add_mod, Nat.mod_eq_of_lt hv, Nat.mul_add_div (Nat.two_pow_pos n),
    Nat.div_eq_of_lt hv, Nat.add_zero, Nat.add_comm]

theorem ubi_le (e L : Nat) (h : e ≤ 8 * L) : upperBoundIndex e ≤ L := by
  unfold upperBoundIndex; split <;> omega

theorem toUintBEGo_spec (bs : List Nat) (hb : ∀ b ∈ bs, b < 256) (end_ : Nat) (hbound : end_ ≤ 8 * bs.length) :
    ∀ r pos acc, pos < end_ → r = (bs.drop (pos / 8)).take (upperBoundIndex end_ - pos / 8) →
      View.toUintBEGo end_ r pos acc =
        .ok ((acc * 2 ^ (end_ - pos) + beVal (slice (allBits bs) pos end_)) % 2 ^ 128) := by
  intro r
  induction r with
  | nil =>
    intro pos acc hp hr
    have hl := congrArg List.length hr
    simp at hl
    unfold upperBoundIndex at hl
    split at hl <;> omega
  | cons b r' ih =>
    intro pos acc hp hr
    have hj : pos / 8 < bs.length := by omega
    have hk : upperBoundIndex end_ - pos / 8 = (upperBoundIndex end_ - (pos / 8 + 1)) + 1 := by
      unfold upperBoundIndex; split <;> omega
    rw [hk, List.drop_eq_getElem_cons hj, List.take_succ_cons] at hr
    injection hr with hb0 hr'
    have hg : bs[pos / 8]? = some b := by rw [List.getElem?_eq_getElem hj, hb0]
    unfold View.toUintBEGo
    rw [cutBits_spec bs hb pos end_ b (by omega) hg]
    simp only
    generalize hn : min (end_ - pos) (8 - pos % 8) = n
    have hl1 : (slice (allBits bs) pos (pos + n)).length = n := by
      rw [slice_length _ _ _ (by rw [allBits_length]; omega)]; omega
    have hv := beVal_lt (slice (allBits bs) pos (pos + n))
    rw [hl1] at hv
    rw [acc_step _ _ _ hv (by omega)]
    by_cases hp' : pos + n < end_
    · have hn8 : n = 8 - pos % 8 := by omega
      have hdiv : (pos + n) / 8 = pos / 8 + 1 := by omega
      rw [ih (pos + n) _ hp' (by rw [hdiv]; exact hr')]
      rw [mod_step, slice_split (allBits bs) pos (pos + n) end_ (by omega) (by omega), beVal_append]
      have hl2 : (slice (allBits bs) (pos + n) end_).length = end_ - (pos + n) := by
        rw [slice_length _ _ _ (by rw [allBits_length]; omega)]
      rw [hl2]
      have hsum : end_ - pos = n + (end_ - (pos + n)) := by omega
      rw [hsum]
    · have hn' : pos + n = end_ := by omega
      have : r' = [] := by
        rw [hr']
        have : upperBoundIndex end_ - (pos / 8 + 1) = 0 := by
          unfold upperBoundIndex; split <;> omega
        rw [this]; rfl
      subst this
      unfold View.toUintBEGo
      rw [hn']
      have : end_ - pos = n := by omega
      rw [this]

theorem bitMask_zero : bitMask 0 = 0 := by decide

theorem View.toUint_be_spec (v : View) (h : v.WF) : v.toUint .big = .ok (beVal v.bits % 2 ^ 128) := by
  have hubi := ubi_le v.end_ v.bytes.length h.bound
  have hle := h.le
  have hbound := h.bound
  unfold View.toUint View.bytesRange sliceBytes
  simp only
  have hr : v.start / 8 ≤ upperBoundIndex v.end_ := by unfold upperBoundIndex; split <;> omega
  rw [if_pos ⟨hr, hubi⟩]
  simp only
  by_cases hp : v.start < v.end_
  · rw [toUintBEGo_spec v.bytes h.bytes v.end_ h.bound _ v.start 0 hp rfl]
    simp [View.bits]
  · have he : v.start = v.end_ := by omega
    have hbits : v.bits = [] := by unfold View.bits; rw [he, slice_self]
    rw [hbits]
    have hlen : ((v.bytes.drop (v.start / 8)).take (upperBoundIndex v.end_ - v.start / 8)).length ≤ 1 := by
      rw [List.length_take]; unfold upperBoundIndex; split <;> omega
    generalize (v.bytes.drop (v.start / 8)).take (upperBoundIndex v.end_ - v.start / 8) = r at hlen
    match r, hlen with
    | [], _ => simp [View.toUintBEGo]
    | [b], _ =>
      unfold View.toUintBEGo cutBits
      rw [if_neg (by omega)]
      simp only
      have : min (v.end_ - v.start) (8 - v.start % 8) = 0 := by omega
      rw [this]
      unfold cutCore
      rw [bitMask_zero]
      simp [View.toUintBEGo]


theorem toUintLEGo_ignore : ∀ (items : List (Nat × Nat)) (shift acc : Nat), 128 ≤ shift →
    View.toUintLEGo items shift acc = acc := by
  intro items
  induction items with
  | nil => intros; rfl
  | cons it r ih =>
    intro shift acc h
    obtain ⟨val, n⟩ := it
    unfold View.toUintLEGo
    rw [if_neg (by omega)]
    exact ih _ _ (by omega)

theorem iter8_of_ne {l : List Bool} (h : l ≠ []) :
    Bits.iter8 l = (beVal (l.take 8), (l.take 8).length) :: Bits.iter8 (l.drop 8) := by
  simp [Bits.iter8, chunks8_of_ne h]

theorem toUintLEGo_spec : ∀ (n : Nat) (l : List Bool) (k acc : Nat), l.length = n → acc < 2 ^ (8 * k) → acc < 2 ^ 128 →
    View.toUintLEGo (Bits.iter8 l) (8 * k) acc = (acc + 2 ^ (8 * k) * leVal l) % 2 ^ 128 := by
  intro n
  induction n using Nat.strongRecOn with
  | _ n ih =>
    intro l k acc hn hacc hacc'
    by_cases hk : 8 * k < 128
    · by_cases hl : l = []
      · subst hl
        simp [Bits.iter8, View.toUintLEGo, Nat.mod_eq_of_lt hacc']
      · rw [iter8_of_ne hl, leVal_of_ne hl]
        unfold View.toUintLEGo
        rw [if_pos hk]
        have hg := beVal_lt (l.take 8)
        have hgl : (l.take 8).length ≤ 8 := by simp; omega
        have hg' : beVal (l.take 8) < 256 :=
          Nat.lt_of_lt_of_le hg (Nat.pow_le_pow_right (by decide) hgl)
        generalize beVal (l.take 8) = g at *
        have hP : (2 : Nat) ^ (8 * (k + 1)) = 2 ^ (8 * k) * 256 := by rw [Nat.mul_add, Nat.pow_add]
        have hPM : (2 : Nat) ^ (8 * (k + 1)) ≤ 2 ^ 128 := Nat.pow_le_pow_right (by decide) (by omega)
        have hsh : g <<< (8 * k) < 2 ^ 128 := by
          rw [Nat.shiftLeft_eq]
          have := Nat.mul_lt_mul_of_lt_of_le hg' (Nat.le_refl (2 ^ (8 * k))) (Nat.two_pow_pos _)
          rw [hP] at hPM; omega
        rw [Nat.mod_eq_of_lt hsh, Nat.or_comm, ← Nat.shiftLeft_add_eq_or_of_lt hacc, Nat.shiftLeft_eq]
        have hacc2 : g * 2 ^ (8 * k) + acc < 2 ^ (8 * (k + 1)) := by
          rw [hP]
          have : g * 2 ^ (8 * k) ≤ 255 * 2 ^ (8 * k) := Nat.mul_le_mul_right _ (by omega)
          omega
        by_cases hl' : l.drop 8 = []
        · rw [hl', leVal_nil]
          simp [Bits.iter8, View.toUintLEGo]
          rw [Nat.mod_eq_of_lt (by rw [Nat.mul_comm]; omega)]
          rw [Nat.mul_comm]; omega
        · have h8 : (l.take 8).length = 8 := by
            have : 8 < l.length := by
              apply Classical.byContradiction; intro hc
              exact hl' (List.drop_eq_nil_of_le (by omega))
            simp; omega
          rw [h8]
          have hlen : (l.drop 8).length < n := by
            have : l.length ≠ 0 := by intro h0; exact hl (List.eq_nil_of_length_eq_zero h0)
            simp; omega
          have := ih _ hlen (l.drop 8) (k + 1) (g * 2 ^ (8 * k) + acc) rfl hacc2 (by omega)
          have h8k : 8 * k + 8 = 8 * (k + 1) := by omega
          rw [h8k, this, hP]
          congr 1
          rw [Nat.mul_add, Nat.mul_comm g, Nat.mul_assoc]
          omega
    · rw [toUintLEGo_ignore _ _ _ (by omega)]
      have : (2 : Nat) ^ (8 * k) = 2 ^ 128 * 2 ^ (8 * k - 128) := by
        have he : 8 * k = 128 + (8 * k - 128) := by omega
        conv => lhs; rw [he, Nat.pow_add]
      rw [this]
      generalize (2 : Nat) ^ 128 = M at *
      rw [Nat.mul_assoc, Nat.add_mul_mod_self_left, Nat.mod_eq_of_lt hacc']

theorem View.toUint_le_spec (v : View) (h : v.WF) : v.toUint .little = .ok (leVal v.bits % 2 ^ 128) := by
  have hubi := ubi_le v.end_ v.bytes.length h.bound
  have hle := h.le
  have hbound := h.bound
  unfold View.toUint View.bytesRange sliceBytes
  simp only
  have hr : v.start / 8 ≤ upperBoundIndex v.end_ := by unfold upperBoundIndex; split <;> omega
  rw [if_pos ⟨hr, hubi⟩]
  simp only
  rw [View.iter8_spec v h]
  simp only
  have := toUintLEGo_spec _ v.bits 0 0 rfl (by simp) (by decide)
  simp at this
  rw [this]


end Xeh.Bitstr
