/-
The mutating bit-string operations (bitstr.rs `append_bits_mut`, `append`, `insert`, `invert`): byte-level
tables, the one-byte update lemma, the `or`/`xor` loops, truncation and masking of the slack bits.
-/
import XehModel.Proofs.BitstrOps

namespace Xeh.Bitstr
open Xeh Xeh.Bits

/-! ### finite byte tables (kernel evaluation) -/

/-- `d | ((x << (7-k)) as u8)` sets bit `k` (MSB first) to `old || x` -/
theorem or_table : ∀ d : Fin 256, ∀ k : Fin 8, ∀ x : Bool,
    bitsOfNat 8 (d.val ||| ((x.toNat <<< (7 - k.val)) % 256)) =
      (bitsOfNat 8 d.val).set k.val ((bitsOfNat 8 d.val).getD k.val false || x) ∧
    (d.val ||| ((x.toNat <<< (7 - k.val)) % 256)) < 256 := by
  decide +kernel

/-- `d ^ (1 << (7-k))` flips bit `k` (MSB first) -/
theorem xor_table : ∀ d : Fin 256, ∀ k : Fin 8,
    bitsOfNat 8 (d.val ^^^ (1 <<< (7 - k.val))) =
      (bitsOfNat 8 d.val).set k.val (!(bitsOfNat 8 d.val).getD k.val false) ∧
    (d.val ^^^ (1 <<< (7 - k.val))) < 256 := by
  decide +kernel

/-- `d & !(0xff >> r)` keeps the first `r` bits and clears the rest -/
theorem mask_table : ∀ d : Fin 256, ∀ r : Fin 8,
    bitsOfNat 8 (d.val &&& (255 - (255 >>> r.val))) =
      (bitsOfNat 8 d.val).take r.val ++ List.replicate (8 - r.val) false ∧
    (d.val &&& (255 - (255 >>> r.val))) < 256 := by
  decide +kernel

@[simp] theorem bitsOfNat_length (n v : Nat) : (bitsOfNat n v).length = n := by
  induction n with
  | zero => rfl
  | succ n ih => simp [bitsOfNat, ih]

theorem ofBytes_append (a b : List Nat) : ofBytes (a ++ b) = ofBytes a ++ ofBytes b := by
  simp [ofBytes]

theorem ofBytes_replicate_zero (n : Nat) : ofBytes (List.replicate n 0) = List.replicate (8 * n) false := by
  induction n with
  | zero => rfl
  | succ n ih =>
    rw [List.replicate_succ, ofBytes_cons, ih]
    have : bitsOfNat 8 0 = List.replicate 8 false := by decide
    rw [this, List.replicate_append_replicate]; congr 1; omega

/-- split a byte list around index `i` -/
theorem split_at_idx (data : List Nat) (i : Nat) (hi : i < data.length) :
    data = data.take i ++ data[i] :: data.drop (i + 1) := by
  rw [← List.drop_eq_getElem_cons hi, List.take_append_drop]

theorem allBits_split (data : List Nat) (i : Nat) (hi : i < data.length) :
    allBits data = ofBytes (data.take i) ++ (bitsOfNat 8 data[i] ++ ofBytes (data.drop (i + 1))) := by
  unfold allBits
  conv => lhs; rw [split_at_idx data i hi]
  rw [ofBytes_append, ofBytes_cons]

theorem allBits_set_split (data : List Nat) (i d' : Nat) (hi : i < data.length) :
    allBits (data.set i d') = ofBytes (data.take i) ++ (bitsOfNat 8 d' ++ ofBytes (data.drop (i + 1))) := by
  unfold allBits
  have : data.set i d' = data.take i ++ d' :: data.drop (i + 1) := by
    rw [List.set_eq_take_append_cons_drop, if_pos hi]
  rw [this, ofBytes_append, ofBytes_cons]

/-- bit `p` of a buffer is bit `p % 8` of byte `p / 8` -/
theorem allBits_getD (data : List Nat) (p : Nat) (hp : p / 8 < data.length) :
    (allBits data).getD p false = (bitsOfNat 8 data[p / 8]).getD (p % 8) false := by
  rw [allBits_split data (p / 8) hp]
  have hl : (ofBytes (data.take (p / 8))).length = 8 * (p / 8) := by
    rw [ofBytes_length, List.length_take, Nat.min_eq_left (Nat.le_of_lt hp)]
  simp only [List.getD_eq_getElem?_getD]
  rw [List.getElem?_append_right (by rw [hl]; omega), hl]
  have : p - 8 * (p / 8) = p % 8 := by omega
  rw [this, List.getElem?_append_left (by simp; omega)]

/-- the one-byte update: replacing byte `p / 8` by a byte whose bits differ only at `p % 8` changes exactly bit `p` -/
theorem allBits_set_bit (data : List Nat) (p d' : Nat) (b : Bool) (hp : p / 8 < data.length)
    (hd : bitsOfNat 8 d' = (bitsOfNat 8 data[p / 8]).set (p % 8) b) :
    allBits (data.set (p / 8) d') = (allBits data).set p b := by
  rw [allBits_set_split data (p / 8) d' hp, allBits_split data (p / 8) hp, hd]
  have hl : (ofBytes (data.take (p / 8))).length = 8 * (p / 8) := by
    rw [ofBytes_length, List.length_take, Nat.min_eq_left (Nat.le_of_lt hp)]
  rw [List.set_append_right _ _ (by rw [hl]; omega), hl]
  have : p - 8 * (p / 8) = p % 8 := by omega
  rw [this, List.set_append_left _ _ (by simp; omega)]

/-! ### the `or` loop of `append_bits_mut` -/

theorem mem_set_lt (data : List Nat) (i d : Nat) (hb : ∀ b ∈ data, b < 256) (hd : d < 256) :
    ∀ b ∈ data.set i d, b < 256 := by
  intro b hb'
  rcases List.mem_or_eq_of_mem_set hb' with h | h
  · exact hb b h
  · exact h ▸ hd

theorem orBits_spec : ∀ (t : List Bool) (data : List Nat) (pos : Nat) (pre : List Bool) (k : Nat),
    (∀ b ∈ data, b < 256) → allBits data = pre ++ List.replicate k false → pre.length = pos → t.length ≤ k →
    ∃ data', orBits data pos (bitNums t) = .ok (data', pos + t.length) ∧
      allBits data' = pre ++ t ++ List.replicate (k - t.length) false ∧ (∀ b ∈ data', b < 256) ∧
      data'.length = data.length := by
  intro t
  induction t with
  | nil =>
    intro data pos pre k hb hA hp hk
    exact ⟨data, by simp [bitNums, orBits], by simpa using hA, hb, rfl⟩
  | cons x r ih =>
    intro data pos pre k hb hA hp hk
    simp only [List.length_cons] at hk
    have hlen : 8 * data.length = pos + k := by
      have := congrArg List.length hA
      rw [allBits_length] at this; simpa [hp] using this
    have hi : pos / 8 < data.length := by omega
    have hd : data[pos / 8] < 256 := hb _ (List.getElem_mem hi)
    have hold : (allBits data).getD pos false = false := by
      rw [hA, List.getD_eq_getElem?_getD, List.getElem?_append_right (by omega), hp]
      rw [Nat.sub_self, List.getElem?_replicate]; split <;> rfl
    have htab := or_table ⟨data[pos / 8], hd⟩ ⟨pos % 8, by omega⟩ x
    simp only at htab
    rw [← allBits_getD data pos hi, hold, Bool.false_or] at htab
    have hset := allBits_set_bit data pos _ x hi htab.1
    have hb1 := mem_set_lt data (pos / 8) _ hb htab.2
    have hA1 : allBits (data.set (pos / 8) (data[pos / 8] ||| ((x.toNat <<< (7 - pos % 8)) % 256))) =
        (pre ++ [x]) ++ List.replicate (k - 1) false := by
      rw [hset, hA, List.set_append_right _ _ (by omega), hp, Nat.sub_self]
      have : k = (k - 1) + 1 := by omega
      conv => lhs; rw [this, List.replicate_succ, List.set_cons_zero]
      simp
    obtain ⟨data', h1, h2, h3, h4⟩ := ih _ (pos + 1) (pre ++ [x]) (k - 1) hb1 hA1 (by simp [hp]) (by omega)
    refine ⟨data', ?_, ?_, h3, by rw [h4, List.length_set]⟩
    · simp only [bitNums, List.map_cons, orBits]
      rw [List.getElem?_eq_getElem hi]
      simp only
      have : pos + (r.length + 1) = pos + 1 + r.length := by omega
      rw [List.length_cons, this]
      exact h1
    · rw [h2]
      have : k - 1 - r.length = k - (x :: r).length := by simp; omega
      rw [this]; simp

/-! ### the `xor` loop of `invert` -/

theorem xorBits_spec : ∀ (n : Nat) (data : List Nat) (pos : Nat), (∀ b ∈ data, b < 256) → pos + n ≤ 8 * data.length →
    ∃ data', xorBits data pos n = .ok data' ∧ (∀ b ∈ data', b < 256) ∧ data'.length = data.length ∧
      ∀ i, (allBits data')[i]? =
        if pos ≤ i ∧ i < pos + n then (allBits data)[i]?.map (!·) else (allBits data)[i]? := by
  intro n
  induction n with
  | zero =>
    intro data pos hb _
    refine ⟨data, rfl, hb, rfl, fun i => ?_⟩
    rw [if_neg (by omega)]
  | succ n ih =>
    intro data pos hb hle
    have hi : pos / 8 < data.length := by omega
    have hd : data[pos / 8] < 256 := hb _ (List.getElem_mem hi)
    have htab := xor_table ⟨data[pos / 8], hd⟩ ⟨pos % 8, by omega⟩
    simp only at htab
    rw [← allBits_getD data pos hi] at htab
    have hset := allBits_set_bit data pos _ _ hi htab.1
    have hb1 := mem_set_lt data (pos / 8) _ hb htab.2
    obtain ⟨data', h1, h2, h3, h4⟩ := ih _ (pos + 1) hb1 (by rw [List.length_set]; omega)
    refine ⟨data', ?_, h2, by rw [h3, List.length_set], fun i => ?_⟩
    · simp only [xorBits]
      rw [List.getElem?_eq_getElem hi]
      exact h1
    · rw [h4 i, hset]
      have hpl : pos < (allBits data).length := by rw [allBits_length]; omega
      by_cases hip : i = pos
      · subst hip
        rw [if_neg (by omega), if_pos (by omega), List.getElem?_set_self hpl,
          List.getD_eq_getElem?_getD, List.getElem?_eq_getElem hpl]
        rfl
      · rw [List.getElem?_set_ne (Ne.symm hip)]
        by_cases hin : pos + 1 ≤ i ∧ i < pos + 1 + n
        · rw [if_pos hin, if_pos (by omega)]
        · rw [if_neg hin, if_neg (by omega)]

/-- the bits of the inverted range, the rest untouched -/
theorem xorBits_slice (data data' : List Nat) (a b : Nat)
    (h : ∀ i, (allBits data')[i]? =
        if a ≤ i ∧ i < a + (b - a) then (allBits data)[i]?.map (!·) else (allBits data)[i]?) :
    slice (allBits data') a b = Bits.invert (slice (allBits data) a b) := by
  apply List.ext_getElem?
  intro i
  unfold slice Bits.invert
  rw [List.getElem?_map, List.getElem?_take, List.getElem?_take]
  by_cases hi : i < b - a
  · rw [if_pos hi, if_pos hi, List.getElem?_drop, List.getElem?_drop, h (a + i), if_pos (by omega)]
  · rw [if_neg hi, if_neg hi]; rfl

/-! ### truncation and masking of the slack bits -/

theorem ubi_mul (e : Nat) : e ≤ 8 * upperBoundIndex e ∧ 8 * upperBoundIndex e < e + 8 := by
  unfold upperBoundIndex; split <;> omega

theorem ofBytes_take_bits (data : List Nat) (q r : Nat) (hq : q < data.length) (hr : r ≤ 8) :
    (ofBytes data).take (8 * q + r) = ofBytes (data.take q) ++ (bitsOfNat 8 data[q]).take r := by
  have := allBits_split data q hq
  unfold allBits at this
  rw [this]
  have hl : (ofBytes (data.take q)).length = 8 * q := by
    rw [ofBytes_length, List.length_take, Nat.min_eq_left (Nat.le_of_lt hq)]
  rw [List.take_append, hl, List.take_of_length_le (by rw [hl]; omega)]
  have : 8 * q + r - 8 * q = r := by omega
  rw [this, List.take_append_of_le_length (by simp; omega)]

theorem truncMask_spec (data0 : List Nat) (e : Nat) (hb : ∀ b ∈ data0, b < 256) (he : e ≤ 8 * data0.length) :
    ∃ data2, truncMask data0 e = .ok data2 ∧ (∀ b ∈ data2, b < 256) ∧ data2.length = upperBoundIndex e ∧
      allBits data2 = (allBits data0).take e ++ List.replicate (8 * upperBoundIndex e - e) false := by
  unfold truncMask
  have hubi := ubi_le e data0.length he
  by_cases hr : e % 8 = 0
  · have hu : upperBoundIndex e = e / 8 := by unfold upperBoundIndex; split <;> omega
    simp only [hr, ne_eq, not_true_eq_false, if_false]
    refine ⟨_, rfl, fun b hb' => hb b (List.mem_of_mem_take hb'), ?_, ?_⟩
    · rw [List.length_take, Nat.min_eq_left hubi]
    · have h8 : 8 * (e / 8) = e := by omega
      rw [hu, h8, Nat.sub_self]
      unfold allBits
      rw [← ofBytes_take, h8]; simp
  · have hu : upperBoundIndex e = e / 8 + 1 := by unfold upperBoundIndex; split <;> omega
    have hq : e / 8 < data0.length := by omega
    simp only [ne_eq, hr, not_false_eq_true, if_true]
    have hq1 : e / 8 < (data0.take (upperBoundIndex e)).length := by
      rw [List.length_take, Nat.min_eq_left hubi, hu]; omega
    rw [List.getElem?_eq_getElem hq1]
    simp only
    have hget : (data0.take (upperBoundIndex e))[e / 8] = data0[e / 8] := by
      rw [List.getElem_take]
    have hd : data0[e / 8] < 256 := hb _ (List.getElem_mem hq)
    have htab := mask_table ⟨data0[e / 8], hd⟩ ⟨e % 8, by omega⟩
    simp only at htab
    rw [hget]
    refine ⟨_, rfl, ?_, ?_, ?_⟩
    · exact mem_set_lt _ _ _ (fun b hb' => hb b (List.mem_of_mem_take hb')) htab.2
    · rw [List.length_set, List.length_take, Nat.min_eq_left hubi]
    · rw [allBits_set_split _ _ _ hq1, htab.1, hu]
      have ht : (data0.take (e / 8 + 1)).take (e / 8) = data0.take (e / 8) := by
        rw [List.take_take, Nat.min_eq_left (by omega)]
      have hdr : (data0.take (e / 8 + 1)).drop (e / 8 + 1) = [] := by
        rw [List.drop_eq_nil_iff, List.length_take]; omega
      rw [ht, hdr]
      have he' : 8 * (e / 8) + e % 8 = e := by omega
      have hT := ofBytes_take_bits data0 (e / 8) (e % 8) hq (by omega)
      rw [he'] at hT
      unfold allBits
      rw [hT]
      have : 8 * (e / 8 + 1) - e = 8 - e % 8 := by omega
      rw [this]
      simp [ofBytes]

/-! ### `append_bits_mut` at byte level -/

theorem resize_grow (data : List Nat) (n : Nat) (h : data.length ≤ n) :
    resize data n = data ++ List.replicate (n - data.length) 0 := by
  unfold resize
  split
  · have : n = data.length := by omega
    subst this; simp
  · rfl

theorem ubi_mono (a b : Nat) (h : a ≤ b) : upperBoundIndex a ≤ upperBoundIndex b := by
  unfold upperBoundIndex; split <;> split <;> omega

theorem appendCore_spec (data0 : List Nat) (start e : Nat) (tv : View) (hb : ∀ b ∈ data0, b < 256)
    (hse : start ≤ e) (he : e ≤ 8 * data0.length) (wt : tv.WF) :
    ∃ data', appendCore data0 start e tv = .ok (data', e + tv.len) ∧ (∀ b ∈ data', b < 256) ∧
      e + tv.len ≤ 8 * data'.length ∧
      allBits data' = (allBits data0).take e ++ tv.bits ++
        List.replicate (8 * data'.length - (e + tv.len)) false := by
  obtain ⟨data2, hm, hb2, hl2, hA2⟩ := truncMask_spec data0 e hb he
  have htl : tv.bits.length = tv.len := by rw [bits_len_mod tv wt]; rfl
  unfold appendCore
  rw [hm]
  simp only
  by_cases hf : ((⟨data2, start, e⟩ : View).isU8Slice && tv.isU8Slice) = true
  · rw [if_pos hf]
    simp only [View.isU8Slice, View.isBytestr, Bool.and_eq_true, beq_iff_eq] at hf
    obtain ⟨bs, hs1, hs2, hs3⟩ := View.slice_spec tv wt hf.2.1 hf.2.2
    rw [hs1]
    simp only
    have he8 : e % 8 = 0 := by omega
    have hu : 8 * upperBoundIndex e = e := by unfold upperBoundIndex; split <;> omega
    have hbl : 8 * bs.length = tv.len := by rw [← htl, hs2, ofBytes_length]
    have hlen : 8 * (data2 ++ bs).length = e + tv.len := by
      rw [List.length_append, hl2]; omega
    refine ⟨_, rfl, ?_, by omega, ?_⟩
    · intro b hb'
      rcases List.mem_append.mp hb' with h | h
      · exact hb2 b h
      · exact hs3 b h
    · rw [hlen, Nat.sub_self]
      unfold allBits at hA2 ⊢
      rw [ofBytes_append, hA2, hu, Nat.sub_self, hs2]
      simp
  · rw [if_neg hf]
    rw [View.bitsIter_spec tv wt]
    simp only
    have hmono : data2.length ≤ upperBoundIndex (e + tv.len) := by
      rw [hl2]; exact ubi_mono _ _ (by omega)
    have hA3 : allBits (resize data2 (upperBoundIndex (e + tv.len))) =
        (allBits data0).take e ++ List.replicate (8 * upperBoundIndex (e + tv.len) - e) false := by
      rw [resize_grow _ _ hmono]
      unfold allBits at hA2 ⊢
      rw [ofBytes_append, hA2, ofBytes_replicate_zero, List.append_assoc, List.replicate_append_replicate]
      have := ubi_mul e
      congr 2; rw [hl2]; omega
    have hb3 : ∀ b ∈ resize data2 (upperBoundIndex (e + tv.len)), b < 256 := by
      rw [resize_grow _ _ hmono]
      intro b hb'
      rcases List.mem_append.mp hb' with h | h
      · exact hb2 b h
      · rw [List.mem_replicate] at h; omega
    have hpre : ((allBits data0).take e).length = e := by
      rw [List.length_take, allBits_length]; omega
    have hum := ubi_mul (e + tv.len)
    obtain ⟨data4, h1, h2, h3, h4⟩ := orBits_spec tv.bits _ e _ _ hb3 hA3 hpre (by rw [htl]; omega)
    rw [h1, htl]
    simp only
    have hl4 : data4.length = upperBoundIndex (e + tv.len) := by
      rw [h4, resize_grow _ _ hmono, List.length_append, List.length_replicate]; omega
    refine ⟨data4, rfl, h3, by rw [hl4]; omega, ?_⟩
    rw [h2, htl, hl4]
    congr 1; congr 1; omega

/-! ### heap level: a uniquely owned receiver is updated in place, nothing else is touched -/

theorem dataMut_unique (h : Heap) (s : Handle) (hrc : (h.buf s.buf).rc = 1) :
    dataMut h s = (h.set s.buf { h.buf s.buf with borrowed := false }, s) := by
  unfold dataMut
  simp [hrc]

theorem slice_app3 (P T R : List Bool) (a : Nat) (ha : a ≤ P.length) :
    slice (P ++ T ++ R) a (P.length + T.length) = P.drop a ++ T := by
  unfold slice
  rw [List.append_assoc, List.drop_append_of_le_length ha, ← List.append_assoc]
  exact List.take_left' (by simp; omega)

theorem drop_take_slice (l : List Bool) (a e : Nat) : (l.take e).drop a = slice l a e := by
  unfold slice; rw [List.drop_take]

theorem appendBitsMut_unique (h : Heap) (s t : Handle) (ws : WF h s) (hrc : (h.buf s.buf).rc = 1)
    (wt : WF h t) (hne : t.buf ≠ s.buf) :
    ∃ h' r, appendBitsMut h s t = .ok (h', r) ∧ r.buf = s.buf ∧ r.start = s.start ∧
      r.end_ = s.end_ + (t.end_ - t.start) ∧ WF h' r ∧
      bits h' r = bits h s ++ bits h t ∧ (h'.buf s.buf).rc = 1 ∧ h'.next = h.next ∧
      ∀ x, x ≠ s.buf → h'.buf x = h.buf x := by
  unfold appendBitsMut
  rw [dataMut_unique h s hrc]
  simp only
  have hv : (h.set s.buf { h.buf s.buf with borrowed := false }).view t = h.view t := by
    simp [Heap.view, Heap.set, hne]
  have hbytes : ((h.set s.buf { h.buf s.buf with borrowed := false }).buf s.buf).bytes = (h.buf s.buf).bytes := by
    simp [Heap.set]
  rw [hv, hbytes]
  have wsle : s.start ≤ s.end_ := ws.view.le
  have wsbd : s.end_ ≤ 8 * (h.buf s.buf).bytes.length := ws.view.bound
  have wsby : ∀ b ∈ (h.buf s.buf).bytes, b < 256 := ws.view.bytes
  obtain ⟨data', hc, hb', hle, hA⟩ := appendCore_spec (h.buf s.buf).bytes s.start s.end_ (h.view t)
    wsby wsle wsbd wt.view
  rw [hc]
  simp only
  have hlen : (h.view t).len = t.end_ - t.start := rfl
  refine ⟨_, _, rfl, rfl, rfl, by rw [hlen], ?_, ?_, ?_, rfl, ?_⟩
  · refine ⟨⟨?_, ?_, ?_⟩, ?_, ?_⟩
    · simp [Heap.view]; omega
    · simpa [Heap.view, setBytes, Heap.set] using hle
    · simpa [Heap.view, setBytes, Heap.set] using hb'
    · exact ws.alloc
    · simp [setBytes, Heap.set, hrc]
  · have h1 : bits (setBytes (h.set s.buf { h.buf s.buf with borrowed := false }) s data')
        { s with end_ := s.end_ + (h.view t).len } = slice (allBits data') s.start (s.end_ + (h.view t).len) := by
      simp [bits, Heap.view, View.bits, setBytes, Heap.set]
    rw [h1, hA]
    have hpl : ((allBits (h.buf s.buf).bytes).take s.end_).length = s.end_ := by
      rw [List.length_take, allBits_length]; omega
    have htl : (h.view t).bits.length = (h.view t).len := by rw [bits_len_mod _ wt.view]; rfl
    have := slice_app3 ((allBits (h.buf s.buf).bytes).take s.end_) (h.view t).bits
      (List.replicate (8 * data'.length - (s.end_ + (h.view t).len)) false) s.start (by rw [hpl]; exact wsle)
    rw [hpl, htl] at this
    rw [this, drop_take_slice]
    rfl
  · simp [setBytes, Heap.set, hrc]
  · intro x hx
    simp [setBytes, Heap.set, hx]

/-- `detach`, with everything the mutating operations need to know about its result: it is uniquely owned and
    either the receiver itself (heap unchanged) or a fresh buffer (receiver's count decremented, nothing else touched) -/
theorem detach_strong (h : Heap) (s : Handle) (wf : WF h s) :
    ∃ h' s', detach h s = .ok (h', s') ∧ WF h' s' ∧ bits h' s' = bits h s ∧ (h'.buf s'.buf).rc = 1 ∧
      ((h' = h ∧ s' = s) ∨
       (s'.buf = h.next ∧ h'.next = h.next + 1 ∧ ∀ x, x ≠ h.next → h'.buf x = (h.decRc s.buf).buf x)) := by
  obtain ⟨h', s', hd, hw, hbits, _⟩ := detach_spec h s wf
  refine ⟨h', s', hd, hw, hbits, ?_⟩
  unfold detach at hd
  by_cases hrc : ((h.buf s.buf).rc == 1 && s.start == 0) = true
  · rw [if_pos hrc] at hd
    simp only [Outcome.ok.injEq, Prod.mk.injEq] at hd
    obtain ⟨rfl, rfl⟩ := hd
    simp only [Bool.and_eq_true, beq_iff_eq] at hrc
    exact ⟨hrc.1, Or.inl ⟨rfl, rfl⟩⟩
  · rw [if_neg hrc] at hd
    have hfresh : ∀ bytes : List Nat,
        ((drop (h.alloc bytes false).1 s).buf h.next).rc = 1 ∧
        (drop (h.alloc bytes false).1 s).next = h.next + 1 ∧
        ∀ x, x ≠ h.next → (drop (h.alloc bytes false).1 s).buf x = (h.decRc s.buf).buf x := by
      intro bytes
      have hne : h.next ≠ s.buf := Nat.ne_of_gt wf.alloc
      refine ⟨?_, ?_, ?_⟩
      · simp [drop, Heap.decRc, Heap.set, Heap.alloc, hne]
      · simp [drop, Heap.decRc, Heap.set, Heap.alloc]
      · intro x hx
        simp only [drop, Heap.decRc, Heap.set, Heap.alloc]
        by_cases hxs : x = s.buf
        · subst hxs; simp [Ne.symm hne]
        · simp [hxs, hx]
    by_cases hlen : (s.end_ - s.start == 0) = true
    · rw [if_pos hlen] at hd
      simp only [new, Outcome.ok.injEq, Prod.mk.injEq] at hd
      obtain ⟨rfl, rfl⟩ := hd
      obtain ⟨f1, f2, f3⟩ := hfresh []
      exact ⟨f1, Or.inr ⟨rfl, f2, f3⟩⟩
    · rw [if_neg hlen, View.iter8_spec _ wf.view] at hd
      simp only [Outcome.ok.injEq, Prod.mk.injEq] at hd
      obtain ⟨rfl, rfl⟩ := hd
      obtain ⟨f1, f2, f3⟩ := hfresh _
      exact ⟨f1, Or.inr ⟨rfl, f2, f3⟩⟩

/-! ### frames: what an operation that consumes a handle into buffer `b` may do to the rest of the heap -/

/-- every other buffer is untouched; the consumed handle's buffer, when someone else also holds it
    (count ≥ 2), keeps its bytes and loses exactly one count -/
structure Frame (h h' : Heap) (b : Nat) : Prop where
  next : h.next ≤ h'.next
  other : ∀ x, x < h.next → x ≠ b → h'.buf x = h.buf x
  shared : 2 ≤ (h.buf b).rc → (h'.buf b).bytes = (h.buf b).bytes ∧ (h'.buf b).rc = (h.buf b).rc - 1

theorem WF_transfer (h h' : Heap) (u : Handle) (wu : WF h u)
    (hb : (h'.buf u.buf).bytes = (h.buf u.buf).bytes) (hrc : 1 ≤ (h'.buf u.buf).rc) (hn : h.next ≤ h'.next) :
    WF h' u ∧ bits h' u = bits h u := by
  refine ⟨⟨⟨wu.view.le, ?_, ?_⟩, Nat.lt_of_lt_of_le wu.alloc hn, hrc⟩, ?_⟩
  · have := wu.view.bound; simpa [Heap.view, hb] using this
  · have := wu.view.bytes; simpa [Heap.view, hb] using this
  · simp [bits, Heap.view, hb]

/-- isolation: a handle other than the consumed one denotes the same bits afterwards and stays well formed -/
theorem Frame.isolation {h h' : Heap} {b : Nat} (f : Frame h h' b) (u : Handle) (wu : WF h u)
    (hu : u.buf = b → 2 ≤ (h.buf b).rc) : WF h' u ∧ bits h' u = bits h u := by
  by_cases hub : u.buf = b
  · have h2 := hu hub
    obtain ⟨e1, e2⟩ := f.shared h2
    exact WF_transfer h h' u wu (by rw [hub]; exact e1) (by rw [hub, e2]; omega) f.next
  · have e := f.other u.buf wu.alloc hub
    exact WF_transfer h h' u wu (by rw [e]) (by rw [e]; exact wu.live) f.next

theorem decRc_buf_ne (h : Heap) (b x : Nat) (hx : x ≠ b) : (h.decRc b).buf x = h.buf x := by
  simp [Heap.decRc, Heap.set, hx]
theorem incRc_buf_ne (h : Heap) (b x : Nat) (hx : x ≠ b) : (h.incRc b).buf x = h.buf x := by
  simp [Heap.incRc, Heap.set, hx]
theorem decRc_rc_self (h : Heap) (b : Nat) : ((h.decRc b).buf b).rc = (h.buf b).rc - 1 := by
  simp [Heap.decRc, Heap.set]
theorem incRc_rc_self (h : Heap) (b : Nat) : ((h.incRc b).buf b).rc = (h.buf b).rc + 1 := by
  simp [Heap.incRc, Heap.set]

/-- the frame of `detach` -/
theorem detach_frame (h : Heap) (s : Handle) (wf : WF h s) :
    ∃ h' s', detach h s = .ok (h', s') ∧ WF h' s' ∧ bits h' s' = bits h s ∧ (h'.buf s'.buf).rc = 1 ∧
      (s'.buf = s.buf ∨ s'.buf = h.next) ∧ h'.next ≤ h.next + 1 ∧
      (s'.buf = s.buf → h' = h ∧ s' = s) ∧
      (s'.buf = h.next → ∀ x, x ≠ h.next → h'.buf x = (h.decRc s.buf).buf x) ∧ h.next ≤ h'.next := by
  obtain ⟨h', s', hd, hw, hb, hrc, hcase⟩ := detach_strong h s wf
  refine ⟨h', s', hd, hw, hb, hrc, ?_⟩
  have hne : h.next ≠ s.buf := Nat.ne_of_gt wf.alloc
  rcases hcase with ⟨rfl, rfl⟩ | ⟨e1, e2, e3⟩
  · exact ⟨Or.inl rfl, Nat.le_succ _, fun _ => ⟨rfl, rfl⟩, fun e => absurd e.symm hne, Nat.le_refl _⟩
  · exact ⟨Or.inr e1, by omega, fun e => absurd (e1.symm.trans e) hne, fun _ => e3, by omega⟩

theorem append_spec (h : Heap) (s t : Handle) (ws : WF h s) (wt : WF h t)
    (ht : t.buf = s.buf → 2 ≤ (h.buf s.buf).rc) :
    ∃ h' r, append h s t = .ok (h', r) ∧ WF h' r ∧ bits h' r = bits h s ++ bits h t ∧
      (h'.buf r.buf).rc = 1 ∧ Frame h h' s.buf := by
  obtain ⟨h1, s1, hd, hw1, hb1, hrc1, hcase⟩ := detach_strong h s ws
  unfold append
  rw [hd]
  simp only
  have hne : h.next ≠ s.buf := Nat.ne_of_gt ws.alloc
  rcases hcase with ⟨rfl, rfl⟩ | ⟨e1, e2, e3⟩
  · have hts : t.buf ≠ s1.buf := fun e => by have := ht e; omega
    obtain ⟨h', r, ha, hrb, _, _, hwr, hbr, hrc', hnx, hoth⟩ := appendBitsMut_unique h1 s1 t hw1 hrc1 wt hts
    refine ⟨h', r, ha, hwr, hbr, by rw [hrb]; exact hrc', ⟨by omega, fun x _ hx => hoth x hx, fun h2 => by omega⟩⟩
  · have hts : t.buf ≠ s1.buf := by rw [e1]; exact Nat.ne_of_lt wt.alloc
    have hrt : 1 ≤ ((h.decRc s.buf).buf t.buf).rc := by
      by_cases hx : t.buf = s.buf
      · rw [hx, decRc_rc_self]; have := ht hx; omega
      · rw [decRc_buf_ne _ _ _ hx]; exact wt.live
    have hbt : h1.buf t.buf = (h.decRc s.buf).buf t.buf := e3 _ (Nat.ne_of_lt wt.alloc)
    obtain ⟨wt1, bt1⟩ := WF_transfer h h1 t wt (by rw [hbt]; simp) (by rw [hbt]; exact hrt) (by omega)
    obtain ⟨h', r, ha, hrb, _, _, hwr, hbr, hrc', hnx, hoth⟩ := appendBitsMut_unique h1 s1 t hw1 hrc1 wt1 hts
    refine ⟨h', r, ha, hwr, by rw [hbr, hb1, bt1], by rw [hrb]; exact hrc', ⟨by omega, ?_, ?_⟩⟩
    · intro x hx hxb
      have hx1 : x ≠ s1.buf := by rw [e1]; omega
      rw [hoth x hx1, e3 x (by omega), decRc_buf_ne _ _ _ hxb]
    · intro _
      have hx1 : s.buf ≠ s1.buf := by rw [e1]; exact Ne.symm hne
      rw [hoth _ hx1, e3 _ (Ne.symm hne)]
      exact ⟨by simp, decRc_rc_self _ _⟩

theorem invert_spec (h : Heap) (s : Handle) (ws : WF h s) :
    ∃ h' r, invert h s = .ok (h', r) ∧ WF h' r ∧ bits h' r = Bits.invert (bits h s) ∧
      (h'.buf r.buf).rc = 1 ∧ Frame h h' s.buf := by
  obtain ⟨h1, s1, hd, hw1, hb1, hrc1, hcase⟩ := detach_strong h s ws
  unfold invert
  rw [hd]
  simp only
  rw [dataMut_unique h1 s1 hrc1]
  simp only
  have hbytes : ((h1.set s1.buf { h1.buf s1.buf with borrowed := false }).buf s1.buf).bytes = (h1.buf s1.buf).bytes := by
    simp [Heap.set]
  rw [hbytes]
  have wsle : s1.start ≤ s1.end_ := hw1.view.le
  have wsbd : s1.end_ ≤ 8 * (h1.buf s1.buf).bytes.length := hw1.view.bound
  have wsby : ∀ b ∈ (h1.buf s1.buf).bytes, b < 256 := hw1.view.bytes
  obtain ⟨data', hx, hb', hl', hpt⟩ := xorBits_spec (s1.end_ - s1.start) (h1.buf s1.buf).bytes s1.start wsby (by omega)
  rw [hx]
  simp only
  have hne : h.next ≠ s.buf := Nat.ne_of_gt ws.alloc
  have hwr : WF (setBytes (h1.set s1.buf { h1.buf s1.buf with borrowed := false }) s1 data') s1 := by
    refine ⟨⟨wsle, ?_, ?_⟩, hw1.alloc, ?_⟩
    · simpa [Heap.view, setBytes, Heap.set, hl'] using wsbd
    · simpa [Heap.view, setBytes, Heap.set] using hb'
    · simp [setBytes, Heap.set, hrc1]
  have hbits : bits (setBytes (h1.set s1.buf { h1.buf s1.buf with borrowed := false }) s1 data') s1 =
      Bits.invert (bits h1 s1) := by
    have : bits (setBytes (h1.set s1.buf { h1.buf s1.buf with borrowed := false }) s1 data') s1 =
        slice (allBits data') s1.start s1.end_ := by
      simp [bits, Heap.view, View.bits, setBytes, Heap.set]
    rw [this, bits_eq]
    exact xorBits_slice _ _ _ _ hpt
  have hrc' : ((setBytes (h1.set s1.buf { h1.buf s1.buf with borrowed := false }) s1 data').buf s1.buf).rc = 1 := by
    simp [setBytes, Heap.set, hrc1]
  have hoth : ∀ x, x ≠ s1.buf →
      (setBytes (h1.set s1.buf { h1.buf s1.buf with borrowed := false }) s1 data').buf x = h1.buf x := by
    intro x hx; simp [setBytes, Heap.set, hx]
  refine ⟨_, _, rfl, hwr, by rw [hbits, hb1], hrc', ?_⟩
  rcases hcase with ⟨rfl, rfl⟩ | ⟨e1, e2, e3⟩
  · exact ⟨Nat.le_refl _, fun x _ hx => hoth x hx, fun h2 => by omega⟩
  · refine ⟨?_, ?_, ?_⟩
    · show h.next ≤ h1.next; omega
    · intro x hx hxb
      have hx1 : x ≠ s1.buf := by rw [e1]; omega
      rw [hoth x hx1, e3 x (by omega), decRc_buf_ne _ _ _ hxb]
    · intro _
      have hx1 : s.buf ≠ s1.buf := by rw [e1]; exact Ne.symm hne
      rw [hoth _ hx1, e3 _ (Ne.symm hne)]
      exact ⟨by simp, decRc_rc_self _ _⟩

theorem insert_invalid (h : Heap) (self t : Handle) (k : Nat)
    (hk : ¬(self.start + k ≤ self.end_ ∧ self.start + k ≤ usizeMax)) :
    insert h self k t = .ok (drop h self, none) := by
  unfold insert splitAt checkedAdd
  by_cases h1 : self.start + k ≤ usizeMax
  · rw [if_pos h1]
    simp only
    rw [if_pos (by omega)]
  · rw [if_neg h1]

theorem insert_spec (h : Heap) (self t : Handle) (k : Nat) (ws : WF h self) (wt : WF h t)
    (hk : self.start + k ≤ self.end_) (hu : self.start + k ≤ usizeMax) :
    ∃ h' r, insert h self k t = .ok (h', some r) ∧ WF h' r ∧
      bits h' r = (bits h self).take k ++ bits h t ++ (bits h self).drop k ∧
      (h'.buf r.buf).rc = 1 ∧ Frame h h' self.buf := by
  unfold insert splitAt checkedAdd
  rw [if_pos (by omega)]
  simp only
  rw [if_neg (by omega)]
  simp only
  generalize hh1 : (h.incRc self.buf).incRc self.buf = h1
  have hn1 : h1.next = h.next := by rw [← hh1]; rfl
  have hrc1 : (h1.buf self.buf).rc = (h.buf self.buf).rc + 2 := by
    rw [← hh1, incRc_rc_self, incRc_rc_self]
  have hby1 : ∀ x, (h1.buf x).bytes = (h.buf x).bytes := by intro x; rw [← hh1]; simp
  have hot1 : ∀ x, x ≠ self.buf → h1.buf x = h.buf x := by
    intro x hx; rw [← hh1, incRc_buf_ne _ _ _ hx, incRc_buf_ne _ _ _ hx]
  have hlive := ws.live
  have hne : h.next ≠ self.buf := Nat.ne_of_gt ws.alloc
  -- the two halves
  have wl0 : WF h { self with end_ := self.start + k } :=
    WF_sub h self ws self.start (self.start + k) (by omega) hk
  have wr0 : WF h { self with start := self.start + k } :=
    WF_sub h self ws (self.start + k) self.end_ hk (Nat.le_refl _)
  have wl1 : WF h1 { self with end_ := self.start + k } := by
    rw [← hh1]; exact WF_incRc _ _ _ (WF_incRc _ _ _ wl0)
  have bl1 : bits h1 { self with end_ := self.start + k } = (bits h self).take k := by
    rw [← hh1, bits_incRc, bits_incRc, bits_eq, bits_eq, slice_take _ _ _ _ hk]
  have br0 : bits h { self with start := self.start + k } = (bits h self).drop k := by
    rw [bits_eq, bits_eq, slice_drop]
  -- detach of the left half: the buffer is shared (count ≥ 3), so a fresh one is made
  obtain ⟨h2, l2, hd, wl2, bl2, rcl2, hcase⟩ := detach_strong h1 _ wl1
  rw [hd]
  simp only
  rcases hcase with ⟨rfl, rfl⟩ | ⟨e1, e2, e3⟩
  · exfalso
    have : (h2.buf self.buf).rc = 1 := rcl2
    omega
  have e3' : ∀ x, x ≠ h.next → h2.buf x = (h1.decRc self.buf).buf x := by
    intro x hx; exact e3 x (by rw [hn1]; exact hx)
  rw [hn1] at e1 e2
  have hb2 : (h2.buf self.buf).bytes = (h.buf self.buf).bytes := by
    rw [e3' _ (Ne.symm hne)]; simp [hby1]
  have hrc2 : (h2.buf self.buf).rc = (h.buf self.buf).rc + 1 := by
    rw [e3' _ (Ne.symm hne), decRc_rc_self, hrc1]; omega
  have hot2 : ∀ x, x < h.next → x ≠ self.buf → h2.buf x = h.buf x := by
    intro x hx hxb
    rw [e3' x (by omega), decRc_buf_ne _ _ _ hxb, hot1 x hxb]
  have tr2 : ∀ u : Handle, WF h u → WF h2 u ∧ bits h2 u = bits h u := by
    intro u wu
    by_cases hub : u.buf = self.buf
    · exact WF_transfer h h2 u wu (by rw [hub]; exact hb2) (by rw [hub, hrc2]; omega) (by omega)
    · have e := hot2 u.buf wu.alloc hub
      exact WF_transfer h h2 u wu (by rw [e]) (by rw [e]; exact wu.live) (by omega)
  -- first append: the inserted value
  obtain ⟨wt2, bt2⟩ := tr2 t wt
  have htl : t.buf ≠ l2.buf := by rw [e1]; exact Nat.ne_of_lt wt.alloc
  obtain ⟨h3, l3, ha3, lb3, _, _, wl3, bl3, rc3, nx3, ot3⟩ := appendBitsMut_unique h2 l2 t wl2 rcl2 wt2 htl
  rw [ha3]
  simp only
  -- second append: the right half
  obtain ⟨wr2, br2⟩ := tr2 _ wr0
  have hsl : self.buf ≠ l2.buf := by rw [e1]; exact Ne.symm hne
  have wr3 : WF h3 { self with start := self.start + k } ∧
      bits h3 { self with start := self.start + k } = bits h2 { self with start := self.start + k } :=
    WF_transfer h2 h3 _ wr2 (by rw [ot3 _ hsl]) (by rw [ot3 _ hsl]; exact wr2.live) (by omega)
  have rc3' : (h3.buf l3.buf).rc = 1 := by rw [lb3]; exact rc3
  have hrl : ({ self with start := self.start + k } : Handle).buf ≠ l3.buf := by rw [lb3]; exact hsl
  obtain ⟨h4, l4, ha4, lb4, _, _, wl4, bl4, rc4, nx4, ot4⟩ :=
    appendBitsMut_unique h3 l3 _ wl3 rc3' wr3.1 hrl
  rw [ha4]
  simp only
  have hl4 : l4.buf = h.next := by rw [lb4, lb3, e1]
  have hl4s : l4.buf ≠ self.buf := by rw [hl4]; exact hne
  have hsl3 : self.buf ≠ l3.buf := by rw [lb3]; exact hsl
  refine ⟨_, _, rfl, ?_, ?_, ?_, ?_⟩
  · unfold drop
    exact WF_decRc_other _ _ _ (WF_decRc_other _ _ _ wl4 hl4s) hl4s
  · unfold drop
    rw [bits_decRc, bits_decRc, bl4, bl3, wr3.2, br2, br0, bl2, bl1, bt2]
  · unfold drop
    rw [decRc_buf_ne _ _ _ hl4s, decRc_buf_ne _ _ _ hl4s, lb4]; exact rc4
  · unfold drop
    refine ⟨?_, ?_, ?_⟩
    · show h.next ≤ h4.next; omega
    · intro x hx hxb
      have hx3 : x ≠ l3.buf := by rw [lb3, e1]; omega
      have hx2 : x ≠ l2.buf := by rw [e1]; omega
      show ((h4.decRc self.buf).decRc self.buf).buf x = h.buf x
      rw [decRc_buf_ne _ _ _ hxb, decRc_buf_ne _ _ _ hxb, ot4 x hx3, ot3 x hx2, hot2 x hx hxb]
    · intro _
      show (((h4.decRc self.buf).decRc self.buf).buf self.buf).bytes = _ ∧
        (((h4.decRc self.buf).decRc self.buf).buf self.buf).rc = _
      refine ⟨?_, ?_⟩
      · rw [decRc_bytes, decRc_bytes, ot4 _ hsl3, ot3 _ hsl, hb2]
      · rw [decRc_rc_self, decRc_rc_self, ot4 _ hsl3, ot3 _ hsl, hrc2]; omega

end Xeh.Bitstr
