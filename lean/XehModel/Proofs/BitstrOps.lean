/-
Helper lemmas for the C04 refinement theorems of the value-producing operations: left-aligned
packing (`detach`), byte export, hex export, equality.
-/
import XehModel.Proofs.BitstrCodec

namespace Xeh.Bitstr
open Xeh Xeh.Bits

theorem bitsOfNat_beVal (g : List Bool) : bitsOfNat g.length (beVal g) = g := by
  induction g with
  | nil => rfl
  | cons b r ih =>
    rw [List.length_cons, bitsOfNat, beVal_cons]
    have hlt := beVal_lt r
    have hp := Nat.two_pow_pos r.length
    congr 1
    · rw [Nat.mul_comm, Nat.mul_add_div hp, Nat.div_eq_of_lt hlt]
      cases b <;> simp
    · rw [← bitsOfNat_mod, Nat.mul_comm, Nat.mul_add_mod, Nat.mod_eq_of_lt hlt, ih]

def packGroup (it : Nat × Nat) : Nat := (it.1 <<< (8 - it.2)) % 256

/-- left-aligned packing of the groups (what `detach` writes) denotes the same bits -/
theorem pack_roundtrip : ∀ (n : Nat) (l : List Bool), l.length = n →
    slice (ofBytes ((Bits.iter8 l).map packGroup)) 0 l.length = l := by
  intro n
  induction n using Nat.strongRecOn with
  | _ n ih =>
    intro l hn
    by_cases hl : l = []
    · subst hl; simp [Bits.iter8, ofBytes, slice]
    · rw [iter8_of_ne hl, List.map_cons, ofBytes_cons]
      have hg8 : (l.take 8).length ≤ 8 := by simp; omega
      have hgv : beVal (l.take 8) < 256 :=
        Nat.lt_of_lt_of_le (beVal_lt _) (Nat.pow_le_pow_right (by decide) hg8)
      have ht := group_table ⟨(l.take 8).length, by omega⟩ ⟨beVal (l.take 8), hgv⟩
      simp only at ht
      rw [bitsOfNat_beVal] at ht
      by_cases h8 : 8 ≤ l.length
      · have hlen : (l.take 8).length = 8 := by simp; omega
        rw [slice_zero_append _ _ _ (by simp; omega), bitsOfNat_length]
        have hd : (l.drop 8).length = l.length - 8 := by simp
        have := ih _ (by omega) (l.drop 8) hd
        rw [hd] at this
        rw [this]
        unfold packGroup
        simp only
        rw [hlen] at ht ⊢
        rw [List.take_of_length_le (by simp)] at ht
        rw [ht, List.take_append_drop]
      · have hlen : (l.take 8) = l := List.take_of_length_le (by omega)
        have hd : l.drop 8 = [] := List.drop_eq_nil_of_le (by omega)
        rw [hd]
        simp only [Bits.iter8, chunks8_nil, List.map_nil, ofBytes, List.flatMap_nil, List.append_nil]
        unfold packGroup
        simp only [slice, List.drop_zero, Nat.sub_zero]
        rw [hlen] at ht ⊢
        exact ht

theorem chunks8_length (l : List Bool) : l.length ≤ 8 * (chunks8 l).length := by
  induction hn : l.length using Nat.strongRecOn generalizing l with
  | _ n ih =>
    by_cases hl : l = []
    · subst hl; simp at hn; omega
    · rw [chunks8_of_ne hl, List.length_cons]
      by_cases h8 : 8 ≤ l.length
      · have hd : (l.drop 8).length = l.length - 8 := by simp
        have := ih _ (by omega) (l.drop 8) rfl
        omega
      · omega

/-- the denoted bits determine, and are determined by, the `iter8` groups -/
theorem iter8_inj (l₁ l₂ : List Bool) (hl : l₁.length = l₂.length) (h : Bits.iter8 l₁ = Bits.iter8 l₂) : l₁ = l₂ := by
  rw [← pack_roundtrip _ l₁ rfl, ← pack_roundtrip _ l₂ rfl, h, hl]


theorem ofBytes_take (bs : List Nat) (m : Nat) : (ofBytes bs).take (8 * m) = ofBytes (bs.take m) := by
  induction bs generalizing m with
  | nil => simp [ofBytes]
  | cons b r ih =>
    cases m with
    | zero => simp [ofBytes]
    | succ m =>
      rw [List.take_succ_cons, ofBytes_cons, ofBytes_cons, List.take_append, bitsOfNat_length,
        List.take_of_length_le (by simp; omega)]
      have : 8 * (m + 1) - 8 = 8 * m := by omega
      rw [this, ih]

theorem aligned_bits (bs : List Nat) (i j : Nat) :
    slice (ofBytes bs) (8 * i) (8 * j) = ofBytes ((bs.drop i).take (j - i)) := by
  unfold slice
  have : 8 * j - 8 * i = 8 * (j - i) := by omega
  rw [this, ofBytes_drop, ofBytes_take]

theorem toBytesPad_ofBytes (bs : List Nat) (hb : ∀ b ∈ bs, b < 256) : toBytesPad (ofBytes bs) = bs := by
  have h := iter8_ofBytes bs hb
  have h2 : toBytesPad (ofBytes bs) = (Bits.iter8 (ofBytes bs)).map Prod.fst := by
    simp [toBytesPad, Bits.iter8, List.map_map]
  rw [h2, h, List.map_map]
  have : (Prod.fst ∘ fun b : Nat => (b, 8)) = id := rfl
  rw [this, List.map_id]

/-- `slice()` on a byte-aligned, byte-multiple value: the backing bytes, which spell exactly the bits -/
theorem View.slice_spec (v : View) (h : v.WF) (ha : v.start % 8 = 0) (hl : (v.end_ - v.start) % 8 = 0) :
    ∃ bs, v.slice = .ok (some bs) ∧ v.bits = ofBytes bs ∧ (∀ b ∈ bs, b < 256) := by
  have hubi := ubi_le v.end_ v.bytes.length h.bound
  have hle := h.le
  have he : upperBoundIndex v.end_ = v.end_ / 8 := by unfold upperBoundIndex; split <;> omega
  refine ⟨(v.bytes.drop (v.start / 8)).take (v.end_ / 8 - v.start / 8), ?_, ?_, ?_⟩
  · unfold View.slice View.isBytestr View.bytesRange sliceBytes
    simp only [ha, hl, beq_self_eq_true, Bool.and_self, if_true]
    rw [if_pos ⟨by rw [he]; omega, hubi⟩, he]
  · unfold View.bits allBits
    have h1 : v.start = 8 * (v.start / 8) := by omega
    have h2 : v.end_ = 8 * (v.end_ / 8) := by omega
    conv => lhs; rw [h1, h2]
    exact aligned_bits _ _ _
  · intro b hb
    exact h.bytes b (List.mem_of_mem_drop (List.mem_of_mem_take hb))

theorem View.slice_none (v : View) (hn : ¬(v.start % 8 = 0 ∧ (v.end_ - v.start) % 8 = 0)) :
    v.slice = .ok none := by
  unfold View.slice View.isBytestr
  have : (v.start % 8 == 0 && (v.end_ - v.start) % 8 == 0) = false := by
    simp only [Bool.and_eq_false_iff, beq_eq_false_iff_ne]
    by_cases h1 : v.start % 8 = 0
    · right; exact fun h2 => hn ⟨h1, h2⟩
    · left; exact h1
  rw [this]; rfl

theorem View.toBytesWithPadding_spec (v : View) (h : v.WF) :
    v.toBytesWithPadding = .ok (toBytesPad v.bits) := by
  unfold View.toBytesWithPadding
  rw [View.iter8_spec v h]
  simp [toBytesPad, Bits.iter8, List.map_map]

theorem View.toHexString_spec (v : View) (h : v.WF) : v.toHexString = .ok (toHex v.bits) := by
  unfold View.toHexString
  rw [View.iter8_spec v h]
  have h15 : ∀ val : Nat, val &&& 15 = val % 16 := fun val => Nat.and_two_pow_sub_one_eq_mod val 4
  have h4 : ∀ val : Nat, val >>> 4 = val / 16 := fun val => Nat.shiftRight_eq_div_pow val 4
  simp only [toHex, h15, h4]

theorem bits_len_mod (v : View) (h : v.WF) : v.bits.length = v.end_ - v.start := by
  unfold View.bits
  rw [slice_length _ _ _ (by rw [allBits_length]; exact h.bound)]

theorem View.toBytes_spec (v : View) (h : v.WF) : v.toBytes = .ok (Bits.toBytes v.bits) := by
  unfold View.toBytes Bits.toBytes View.isBytestr
  rw [bits_len_mod v h]
  by_cases hl : (v.end_ - v.start) % 8 = 0
  · simp only [hl, beq_self_eq_true, if_true]
    by_cases ha : v.start % 8 = 0
    · simp only [ha, beq_self_eq_true, if_true]
      obtain ⟨bs, h1, h2, h3⟩ := View.slice_spec v h ha hl
      rw [h1, h2, toBytesPad_ofBytes bs h3]
    · have : (v.start % 8 == 0) = false := by simp [ha]
      simp only [this, Bool.false_eq_true, if_false]
      rw [View.toBytesWithPadding_spec v h]
  · have : ((v.end_ - v.start) % 8 == 0) = false := by simp [hl]
    simp only [this, Bool.false_eq_true, if_false]

theorem View.bytestr_spec (v : View) (h : v.WF) : v.bytestr = .ok (Bits.toBytes v.bits) := by
  unfold View.bytestr Bits.toBytes
  rw [bits_len_mod v h]
  by_cases hc : v.start % 8 = 0 ∧ (v.end_ - v.start) % 8 = 0
  · obtain ⟨bs, h1, h2, h3⟩ := View.slice_spec v h hc.1 hc.2
    rw [h1, h2, toBytesPad_ofBytes bs h3]
    simp [hc.2]
  · rw [View.slice_none v hc]
    simp only [View.isBytestr]
    by_cases hl : (v.end_ - v.start) % 8 = 0
    · simp only [hl, beq_self_eq_true, if_true]
      rw [View.toBytesWithPadding_spec v h]
    · have : ((v.end_ - v.start) % 8 == 0) = false := by simp [hl]
      simp only [this, Bool.false_eq_true, if_false]

theorem ofBytes_inj (a b : List Nat) (ha : ∀ x ∈ a, x < 256) (hb : ∀ x ∈ b, x < 256)
    (h : ofBytes a = ofBytes b) : a = b := by
  rw [← toBytesPad_ofBytes a ha, ← toBytesPad_ofBytes b hb, h]

/-- `eq_with` decides equality of the denoted bit sequences (both the byte-slice fast path and the
    `iter8` path) -/
theorem View.eqWith_spec (a b : View) (ha : a.WF) (hb : b.WF) :
    a.eqWith b = .ok (decide (a.bits = b.bits)) := by
  unfold View.eqWith
  have hla := bits_len_mod a ha
  have hlb := bits_len_mod b hb
  by_cases hlen : a.len ≠ b.len
  · rw [if_pos hlen]
    have : a.bits ≠ b.bits := by
      intro he; apply hlen; unfold View.len; rw [← hla, ← hlb, he]
    simp [this]
  · rw [if_neg hlen]
    have hlen' : a.end_ - a.start = b.end_ - b.start := by
      simp [View.len] at hlen; exact hlen
    by_cases hf : (a.isU8Slice && b.isU8Slice) = true
    · rw [if_pos hf]
      simp only [View.isU8Slice, View.isBytestr, Bool.and_eq_true, beq_iff_eq] at hf
      obtain ⟨x, hx1, hx2, hx3⟩ := View.slice_spec a ha hf.1.1 hf.1.2
      obtain ⟨y, hy1, hy2, hy3⟩ := View.slice_spec b hb hf.2.1 hf.2.2
      rw [hx1, hy1, hx2, hy2]
      simp only
      congr 1
      by_cases hxy : x = y
      · subst hxy; simp
      · have : ofBytes x ≠ ofBytes y := fun he => hxy (ofBytes_inj x y hx3 hy3 he)
        simp [hxy, this]
    · rw [if_neg hf, View.iter8_spec a ha, View.iter8_spec b hb]
      simp only
      congr 1
      by_cases hxy : a.bits = b.bits
      · rw [hxy]; simp
      · have : Bits.iter8 a.bits ≠ Bits.iter8 b.bits :=
          fun he => hxy (iter8_inj _ _ (by rw [hla, hlb, hlen']) he)
        simp [hxy, this]


theorem WF_decRc_other (h : Heap) (b : Nat) (t : Handle) (wf : WF h t) (hne : t.buf ≠ b) : WF (h.decRc b) t := by
  refine ⟨⟨wf.view.le, ?_, ?_⟩, wf.alloc, ?_⟩
  · simpa [Heap.view] using wf.view.bound
  · simpa [Heap.view] using wf.view.bytes
  · have : (h.decRc b).buf t.buf = h.buf t.buf := by
      unfold Heap.decRc Heap.set; simp [hne]
    rw [this]; exact wf.live

theorem detach_spec (h : Heap) (s : Handle) (wf : WF h s) :
    ∃ h' s', detach h s = .ok (h', s') ∧ WF h' s' ∧ bits h' s' = bits h s ∧
      (∀ t : Handle, t.buf < h.next → bits h' t = bits h t) := by
  unfold detach
  by_cases hrc : ((h.buf s.buf).rc == 1 && s.start == 0) = true
  · rw [if_pos hrc]; exact ⟨h, s, rfl, wf, rfl, fun _ _ => rfl⟩
  · rw [if_neg hrc]
    have hfresh : ∀ (bytes : List Nat) (t : Handle), t.buf < h.next →
        bits (drop (h.alloc bytes false).1 s) t = bits h t := by
      intro bytes t ht
      unfold drop
      rw [bits_decRc]
      unfold bits Heap.view Heap.alloc
      simp [Nat.ne_of_lt ht]
    have hne : (h.alloc ([] : List Nat) false).2 ≠ s.buf := by
      simp [Heap.alloc]; exact Nat.ne_of_gt wf.alloc
    by_cases hlen : (s.end_ - s.start == 0) = true
    · rw [if_pos hlen]
      simp only [beq_iff_eq] at hlen
      refine ⟨_, _, rfl, ?_, ?_, fun t ht => hfresh [] t ht⟩
      · unfold drop
        exact WF_decRc_other _ _ _ (alloc_WF h [] false 0 0 (Nat.le_refl _) (by simp) (by simp)) hne
      · unfold drop
        rw [bits_decRc]
        have h1 : bits (h.alloc [] false).1 ⟨0, 0, (h.alloc [] false).2⟩ = [] := by
          unfold bits; rw [alloc_view]; simp [View.bits, slice]
        have hse : s.start = s.end_ := by have := wf.view.le; simp [Heap.view] at this; omega
        have h2 : bits h s = [] := by rw [bits_eq, hse, slice_self]
        rw [h2]; exact h1
    · rw [if_neg hlen]
      rw [View.iter8_spec _ wf.view]
      simp only
      have hfun : (fun (x : Nat × Nat) => match x with | (val, n) => (val <<< (8 - n)) % 256) = packGroup := by
        funext ⟨val, n⟩; rfl
      rw [hfun]
      have hbl := bits_length h s wf
      have hb : (h.view s).bits = bits h s := rfl
      rw [hb]
      generalize htmp : (Bits.iter8 (bits h s)).map packGroup = tmp
      have hlt : ∀ x ∈ tmp, x < 256 := by
        intro x hx; rw [← htmp] at hx
        simp only [List.mem_map] at hx
        obtain ⟨it, _, rfl⟩ := hx
        exact Nat.mod_lt _ (by decide)
      have hcap : s.end_ - s.start ≤ 8 * tmp.length := by
        rw [← htmp, List.length_map, Bits.iter8, List.length_map, ← hbl]
        exact chunks8_length _
      have hne' : (h.alloc tmp false).2 ≠ s.buf := by
        simp [Heap.alloc]; exact Nat.ne_of_gt wf.alloc
      refine ⟨_, _, rfl, ?_, ?_, fun t ht => hfresh tmp t ht⟩
      · unfold drop
        exact WF_decRc_other _ _ _ (alloc_WF h tmp false 0 _ (Nat.zero_le _) hcap hlt) hne'
      · unfold drop
        rw [bits_decRc]
        unfold bits
        rw [alloc_view]
        unfold View.bits allBits
        simp only
        rw [← htmp, ← hbl]
        exact pack_roundtrip _ _ rfl


end Xeh.Bitstr
