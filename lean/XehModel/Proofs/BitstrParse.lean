/-
`from_hex_str` and `BitvecBuilder::from_bin_str` (bitstr.rs 44–121) against the list-level parsers
`Bits.parseHex` / `Bits.parseBin`: same bits, same length, same error position.
-/
import XehModel.Proofs.BitstrMut

namespace Xeh.Bitstr
open Xeh Xeh.Bits

/-- a buffer under construction: exactly as many bytes as the bits need, slack bits zero -/
structure Packed (buf : List Nat) (acc : List Bool) : Prop where
  bytes : ∀ b ∈ buf, b < 256
  len : buf.length = upperBoundIndex acc.length
  bits : allBits buf = acc ++ List.replicate (8 * buf.length - acc.length) false

theorem packed_nil : Packed [] [] := ⟨by simp, by decide, by simp [allBits, ofBytes]⟩

/-! ### finite tables -/

theorem hex_push_table : ∀ v : Fin 16,
    bitsOfNat 8 ((v.val <<< 4) % 256) = bitsOfNat 4 v.val ++ List.replicate 4 false ∧ (v.val <<< 4) % 256 < 256 := by
  decide +kernel

theorem hex_or_table : ∀ d : Fin 256, ∀ v : Fin 16, (bitsOfNat 8 d.val).drop 4 = List.replicate 4 false →
    bitsOfNat 8 (d.val ||| v.val) = (bitsOfNat 8 d.val).take 4 ++ bitsOfNat 4 v.val ∧ (d.val ||| v.val) < 256 := by
  decide +kernel

theorem bin_push_table : ∀ x : Bool,
    bitsOfNat 8 ((x.toNat <<< 7) % 256) = x :: List.replicate 7 false ∧ (x.toNat <<< 7) % 256 < 256 := by
  decide

theorem char_le_iff (a b : Char) : a ≤ b ↔ a.toNat ≤ b.toNat := by
  show a.val ≤ b.val ↔ _
  rw [UInt32.le_iff_toNat_le]; rfl

theorem hexVal_lt (c : Char) (d : Nat) (h : hexVal c = some d) : d < 16 := by
  unfold hexVal at h
  simp only [char_le_iff] at h
  have e0 : '0'.toNat = 48 := rfl
  have e9 : '9'.toNat = 57 := rfl
  have ea : 'a'.toNat = 97 := rfl
  have ef : 'f'.toNat = 102 := rfl
  have eA : 'A'.toNat = 65 := rfl
  have eF : 'F'.toNat = 70 := rfl
  rw [e0, e9, ea, ef, eA, eF] at h
  split at h
  · cases h; omega
  · split at h
    · cases h; omega
    · split at h
      · cases h; omega
      · cases h

/-! ### one hex digit -/

theorem split_eq (acc P B : List Bool) (h : acc ++ List.replicate 4 false = P ++ B)
    (hP : P.length + 4 = acc.length) :
    acc = P ++ B.take 4 ∧ B.drop 4 = List.replicate 4 false := by
  constructor
  · have := congrArg (List.take acc.length) h
    rw [List.take_left' rfl] at this
    rw [this, List.take_append, List.take_of_length_le (l := P) (by omega)]
    congr 2; omega
  · have := congrArg (List.drop acc.length) h
    rw [List.drop_left' rfl] at this
    rw [this, List.drop_append, List.drop_of_length_le (l := P) (by omega)]
    simp only [List.nil_append]
    congr 1; omega

theorem packed_push (buf : List Nat) (acc : List Bool) (p : Packed buf acc) (h8 : acc.length % 8 = 0)
    (byte : Nat) (new : List Bool) (hn : 1 ≤ new.length) (hn8 : new.length ≤ 8)
    (hb : bitsOfNat 8 byte = new ++ List.replicate (8 - new.length) false) (hlt : byte < 256) :
    Packed (buf ++ [byte]) (acc ++ new) := by
  have hl : 8 * buf.length = acc.length := by
    rw [p.len]; unfold upperBoundIndex; split <;> omega
  refine ⟨?_, ?_, ?_⟩
  · intro b hb'
    rcases List.mem_append.mp hb' with h | h
    · exact p.bytes b h
    · simp at h; omega
  · rw [List.length_append, List.length_append, p.len]
    unfold upperBoundIndex
    simp only [List.length_cons, List.length_nil]
    split <;> split <;> omega
  · have pb := p.bits
    unfold allBits at pb ⊢
    rw [hl, Nat.sub_self] at pb
    simp only [List.replicate_zero, List.append_nil] at pb
    rw [ofBytes_append, pb]
    have : ofBytes [byte] = bitsOfNat 8 byte := by simp [ofBytes]
    rw [this, hb, List.length_append, List.length_append]
    simp only [List.length_cons, List.length_nil, List.append_assoc]
    congr 2; congr 1; omega

theorem hex_step (buf : List Nat) (acc : List Bool) (p : Packed buf acc) (h4 : acc.length % 4 = 0)
    (val : Nat) (hv : val < 16) :
    Packed (if buf.length == acc.length / 8 then buf ++ [(val <<< 4) % 256]
            else buf.set (acc.length / 8) ((buf.getD (acc.length / 8) 0) ||| val))
      (acc ++ bitsOfNat 4 val) := by
  by_cases h8 : acc.length % 8 = 0
  · have hl : buf.length = acc.length / 8 := by
      rw [p.len]; unfold upperBoundIndex; split <;> omega
    rw [if_pos (by simp [hl])]
    have t := hex_push_table ⟨val, hv⟩
    exact packed_push buf acc p h8 _ (bitsOfNat 4 val) (by simp) (by simp) (by simpa using t.1) t.2
  · have hl : buf.length = acc.length / 8 + 1 := by
      rw [p.len]; unfold upperBoundIndex; split <;> omega
    have hne : (buf.length == acc.length / 8) = false := by simp [hl]
    rw [hne]
    simp only [Bool.false_eq_true, if_false]
    have hi : acc.length / 8 < buf.length := by omega
    have hget : buf.getD (acc.length / 8) 0 = buf[acc.length / 8] := by
      rw [List.getD_eq_getElem?_getD, List.getElem?_eq_getElem hi]; rfl
    rw [hget]
    have hd : buf[acc.length / 8] < 256 := p.bytes _ (List.getElem_mem hi)
    have hsp := allBits_split buf (acc.length / 8) hi
    have hdr : buf.drop (acc.length / 8 + 1) = [] := by rw [List.drop_eq_nil_iff]; omega
    rw [hdr] at hsp
    have hnil : ofBytes [] = [] := rfl
    rw [hnil, List.append_nil, p.bits] at hsp
    have hk : 8 * buf.length - acc.length = 4 := by omega
    rw [hk] at hsp
    have hl1 : (ofBytes (buf.take (acc.length / 8))).length = 8 * (acc.length / 8) := by
      rw [ofBytes_length, List.length_take, Nat.min_eq_left (Nat.le_of_lt hi)]
    obtain ⟨hacc, hlow⟩ := split_eq acc _ _ hsp (by rw [hl1]; omega)
    have t := hex_or_table ⟨buf[acc.length / 8], hd⟩ ⟨val, hv⟩ hlow
    simp only at t
    refine ⟨mem_set_lt _ _ _ p.bytes t.2, ?_, ?_⟩
    · rw [List.length_set, List.length_append, bitsOfNat_length, hl]
      unfold upperBoundIndex; split <;> omega
    · rw [allBits_set_split buf _ _ hi, hdr, hnil, List.append_nil, t.1, List.length_set,
        List.length_append, bitsOfNat_length]
      have : 8 * buf.length - (acc.length + 4) = 0 := by omega
      rw [this, List.replicate_zero, List.append_nil, ← List.append_assoc, ← hacc]

/-! ### one binary digit -/

theorem bin_step (data : List Nat) (acc : List Bool) (p : Packed data acc) (x : Bool) :
    ∃ data', builderAppendBit data acc.length x.toNat = (data', acc.length + 1) ∧ Packed data' (acc ++ [x]) := by
  unfold builderAppendBit
  by_cases h8 : acc.length % 8 = 0
  · have hl : data.length = acc.length / 8 := by
      rw [p.len]; unfold upperBoundIndex; split <;> omega
    simp only [hl, beq_self_eq_true, if_true]
    have t := bin_push_table x
    exact ⟨_, rfl, packed_push data acc p h8 _ [x] (by simp) (by simp) (by simpa using t.1) t.2⟩
  · have hl : data.length = acc.length / 8 + 1 := by
      rw [p.len]; unfold upperBoundIndex; split <;> omega
    have hne : (data.length == acc.length / 8) = false := by simp [hl]
    simp only [hne, Bool.false_eq_true, if_false]
    have hi : acc.length / 8 < data.length := by omega
    have hget : data.getD (acc.length / 8) 0 = data[acc.length / 8] := by
      rw [List.getD_eq_getElem?_getD, List.getElem?_eq_getElem hi]; rfl
    rw [hget]
    obtain ⟨data', h1, h2, h3, h4⟩ := orBits_spec [x] data acc.length acc _ p.bytes p.bits rfl
      (by simp; omega)
    simp only [bitNums, List.map_cons, List.map_nil, orBits, List.getElem?_eq_getElem hi,
      Outcome.ok.injEq, Prod.mk.injEq] at h1
    refine ⟨_, rfl, ?_⟩
    rw [h1.1]
    refine ⟨h3, ?_, ?_⟩
    · rw [h4, List.length_append, hl]
      simp only [List.length_cons, List.length_nil]
      unfold upperBoundIndex; split <;> omega
    · rw [h2, h4, List.length_append]
      simp only [List.length_cons, List.length_nil]
      congr 2

/-! ### the loops -/

theorem fromHexBytes_spec : ∀ (cs : List Char) (pos : Nat) (buf : List Nat) (acc : List Bool),
    Packed buf acc → acc.length % 4 = 0 →
    match fromHexBytes cs pos acc.length buf, parseHex.go cs pos with
    | .ok (buf', n'), .ok l => Packed buf' (acc ++ l) ∧ n' = (acc ++ l).length
    | .error p, .error q => p = q
    | _, _ => False := by
  intro cs
  induction cs with
  | nil =>
    intro pos buf acc p _
    simp only [fromHexBytes, parseHex.go, List.append_nil]
    exact ⟨p, trivial⟩
  | cons c r ih =>
    intro pos buf acc p h4
    simp only [fromHexBytes, parseHex.go]
    by_cases hws : isAsciiWs c = true
    · rw [if_pos hws, if_pos hws]
      exact ih (pos + 1) buf acc p h4
    · rw [if_neg hws, if_neg hws]
      cases hv : hexVal c with
      | none => simp
      | some val =>
        simp only
        have hlt := hexVal_lt c val hv
        have step := hex_step buf acc p h4 val hlt
        have hlen : acc.length + 4 = (acc ++ bitsOfNat 4 val).length := by simp
        have := ih (pos + 1) _ (acc ++ bitsOfNat 4 val) step (by rw [← hlen]; omega)
        rw [← hlen] at this
        revert this
        cases fromHexBytes r (pos + 1) (acc.length + 4) _ with
        | error e =>
          cases parseHex.go r (pos + 1) with
          | error q => simp
          | ok l => simp
        | ok res =>
          obtain ⟨b', n'⟩ := res
          cases parseHex.go r (pos + 1) with
          | error q => simp
          | ok l => simp [List.append_assoc]

theorem fromBinBytes_spec : ∀ (cs : List Char) (pos : Nat) (data : List Nat) (acc : List Bool),
    Packed data acc →
    match fromBinBytes cs pos data acc.length, parseBin.go cs pos with
    | .ok (buf', n'), .ok l => Packed buf' (acc ++ l) ∧ n' = (acc ++ l).length
    | .error p, .error q => p = q
    | _, _ => False := by
  intro cs
  induction cs with
  | nil =>
    intro pos data acc p
    simp only [fromBinBytes, parseBin.go, List.append_nil]
    exact ⟨p, trivial⟩
  | cons c r ih =>
    intro pos data acc p
    simp only [fromBinBytes, parseBin.go]
    by_cases hws : isAsciiWs c = true
    · rw [if_pos hws, if_pos hws]
      exact ih (pos + 1) data acc p
    · rw [if_neg hws, if_neg hws]
      have key : ∀ x : Bool, (c == '1') = x →
          match fromBinBytes r (pos + 1) (builderAppendBit data acc.length x.toNat).1
              (builderAppendBit data acc.length x.toNat).2,
            (match parseBin.go r (pos + 1) with
              | .ok bits => Except.ok ((c == '1') :: bits)
              | .error e => .error e) with
          | .ok (buf', n'), .ok l => Packed buf' (acc ++ l) ∧ n' = (acc ++ l).length
          | .error p, .error q => p = q
          | _, _ => False := by
        intro x hx
        obtain ⟨data', e1, p1⟩ := bin_step data acc p x
        rw [e1]
        simp only
        have hlen : acc.length + 1 = (acc ++ [x]).length := by simp
        have := ih (pos + 1) data' (acc ++ [x]) p1
        rw [← hlen] at this
        revert this
        cases fromBinBytes r (pos + 1) data' (acc.length + 1) with
        | error e =>
          cases parseBin.go r (pos + 1) with
          | error q => simp
          | ok l => simp
        | ok res =>
          obtain ⟨b', n'⟩ := res
          cases parseBin.go r (pos + 1) with
          | error q => simp
          | ok l => simp [List.append_assoc, hx]
      by_cases h0 : (c == '0') = true
      · have hc : c = '0' := by simpa using h0
        have h1 : (c == '1') = false := by subst hc; decide
        rw [if_pos h0]
        have : (c == '0' || c == '1') = true := by simp [h0]
        rw [if_pos this]
        exact key false h1
      · rw [if_neg h0]
        by_cases h1 : (c == '1') = true
        · rw [if_pos h1]
          have : (c == '0' || c == '1') = true := by simp [h1]
          rw [if_pos this]
          exact key true h1
        · rw [if_neg h1]
          have : ¬((c == '0' || c == '1') = true) := by simp [h0, h1]
          rw [if_neg this]

end Xeh.Bitstr
