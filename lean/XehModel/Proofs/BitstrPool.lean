/-
The pool machine of Model/BitstrPool.lean refines the machine on plain values, over every history.

Invariant (`PoolInv`): every live slot holds a well-formed handle that denotes — start and bits — what the abstract
pool says, empty slots are empty on both sides, and **the reference count of every buffer is at least the number of
live handles into it**. The last part is what makes sharing safe: an operation that writes in place does so only when
the count is 1, i.e. when no other live handle points into the buffer; when the count is larger the receiver is
copied first and the buffer keeps its bytes (`Frame`, Proofs/BitstrMut.lean).
-/
import XehModel.Model.BitstrPool
import XehModel.Proofs.BitstrMut

namespace Xeh.Bitstr
open Xeh Xeh.Bits

/-! ### counting live handles per buffer -/

def cnt : List (Option Handle) → Nat → Nat
  | [], _ => 0
  | some s :: r, b => (if s.buf = b then 1 else 0) + cnt r b
  | none :: r, b => cnt r b

theorem cnt_append (l m : List (Option Handle)) (b : Nat) : cnt (l ++ m) b = cnt l b + cnt m b := by
  induction l with
  | nil => simp [cnt]
  | cons x r ih => cases x <;> simp [cnt, ih]; omega

theorem cnt_single (s : Handle) (b : Nat) : cnt [some s] b = if s.buf = b then 1 else 0 := by simp [cnt]

def hit (o : Option Handle) (b : Nat) : Nat := match o with | some s => if s.buf = b then 1 else 0 | none => 0

/-- replacing slot `i` -/
theorem cnt_set (l : List (Option Handle)) (i : Nat) (o o' : Option Handle) (b : Nat) (hi : l[i]? = some o) :
    cnt (l.set i o') b + hit o b = cnt l b + hit o' b := by
  induction l generalizing i with
  | nil => simp at hi
  | cons x r ih =>
    cases i with
    | zero =>
      simp only [List.getElem?_cons_zero, Option.some.injEq] at hi
      subst hi
      cases x <;> cases o' <;> simp [cnt, hit, List.set] <;> omega
    | succ i =>
      simp only [List.getElem?_cons_succ] at hi
      have := ih i hi
      cases x <;> simp [cnt, List.set] <;> omega

theorem cnt_pos (l : List (Option Handle)) (i : Nat) (s : Handle) (hi : l[i]? = some (some s)) : 1 ≤ cnt l s.buf := by
  induction l generalizing i with
  | nil => simp at hi
  | cons x r ih =>
    cases i with
    | zero => simp only [List.getElem?_cons_zero, Option.some.injEq] at hi; subst hi; simp [cnt]
    | succ i =>
      simp only [List.getElem?_cons_succ] at hi
      have := ih i hi
      cases x <;> simp [cnt] <;> omega

/-- two different live slots into one buffer: the count is at least two -/
theorem cnt_two (l : List (Option Handle)) (i j : Nat) (s t : Handle) (hij : i ≠ j)
    (hi : l[i]? = some (some s)) (hj : l[j]? = some (some t)) (hb : t.buf = s.buf) : 2 ≤ cnt l s.buf := by
  induction l generalizing i j with
  | nil => simp at hi
  | cons x r ih =>
    cases i with
    | zero =>
      cases j with
      | zero => exact absurd rfl hij
      | succ j =>
        simp only [List.getElem?_cons_zero, Option.some.injEq] at hi
        simp only [List.getElem?_cons_succ] at hj
        subst hi
        have := cnt_pos r j t hj
        simp [cnt]; rw [← hb]; omega
    | succ i =>
      cases j with
      | zero =>
        simp only [List.getElem?_cons_zero, Option.some.injEq] at hj
        simp only [List.getElem?_cons_succ] at hi
        subst hj
        have := cnt_pos r i s hi
        simp [cnt, hb]; omega
      | succ j =>
        simp only [List.getElem?_cons_succ] at hi hj
        have := ih i j (fun e => hij (by rw [e])) hi hj
        cases x <;> simp [cnt] <;> omega

/-- no live handle points into a buffer that is not allocated yet -/
theorem cnt_fresh (l : List (Option Handle)) (b : Nat) (h : ∀ (i : Nat) (s : Handle), l[i]? = some (some s) → s.buf < b) : cnt l b = 0 := by
  induction l with
  | nil => rfl
  | cons x r ih =>
    have hr : ∀ (i : Nat) (s : Handle), r[i]? = some (some s) → s.buf < b := fun i s hi => h (i + 1) s (by simp [hi])
    cases x with
    | none => simp [cnt, ih hr]
    | some s =>
      have := h 0 s (by simp)
      simp [cnt, ih hr]; omega

/-! ### the invariant -/

structure PoolInv (p : Pool) (a : List (Option AVal)) : Prop where
  len : p.slots.length = a.length
  live : ∀ (i : Nat) (s : Handle), p.slots[i]? = some (some s) → WF p.heap s ∧ a[i]? = some (some (s.start, bits p.heap s))
  dead : ∀ (i : Nat), p.slots[i]? = some none → a[i]? = some none
  count : ∀ b, cnt p.slots b ≤ (p.heap.buf b).rc

theorem PoolInv.empty : PoolInv {} [] :=
  ⟨rfl, fun i s h => by simp at h, fun i h => by simp at h, fun b => Nat.zero_le _⟩

theorem Pool.get_some {p : Pool} {i : Nat} {s : Handle} (h : p.get i = some s) : p.slots[i]? = some (some s) := by
  unfold Pool.get at h
  cases hx : p.slots[i]? with
  | none => simp [hx] at h
  | some o => cases o <;> simp_all

theorem APool.get_of {a : List (Option AVal)} {i : Nat} {v : AVal} (h : a[i]? = some (some v)) : APool.get a i = some v := by
  simp [APool.get, h]

theorem PoolInv.bound {p : Pool} {a : List (Option AVal)} (inv : PoolInv p a) {i : Nat} {s : Handle} (h : p.slots[i]? = some (some s)) :
    i < p.slots.length := by
  have := List.getElem?_eq_some_iff.mp h
  exact this.1

/-- the end of a well-formed handle is its start plus the number of bits it denotes -/
theorem end_eq (h : Heap) (s : Handle) (wf : WF h s) : s.end_ = s.start + (bits h s).length := by
  rw [bits_length h s wf]; have : s.start ≤ s.end_ := wf.view.le; omega

/-! ### building blocks: a new value is appended, a slot is replaced -/

theorem inv_push {h : Heap} {slots : List (Option Handle)} {a : List (Option AVal)} (inv : PoolInv ⟨h, slots⟩ a)
    (h' : Heap) (r : Handle) (v : AVal)
    (hkeep : ∀ (i : Nat) (s : Handle), slots[i]? = some (some s) → WF h' s ∧ bits h' s = bits h s)
    (hr : WF h' r) (hv : v = (r.start, bits h' r))
    (hcount : ∀ b, cnt slots b + (if r.buf = b then 1 else 0) ≤ (h'.buf b).rc) :
    PoolInv ⟨h', slots ++ [some r]⟩ (a ++ [some v]) := by
  have hlen : slots.length = a.length := inv.len
  refine ⟨by simp [hlen], ?_, ?_, ?_⟩
  · intro i s hi
    by_cases hlt : i < slots.length
    · have hi' : slots[i]? = some (some s) := by simpa [List.getElem?_append_left hlt] using hi
      obtain ⟨w, e⟩ := inv.live i s hi'
      obtain ⟨w', b'⟩ := hkeep i s hi'
      refine ⟨w', ?_⟩
      show (a ++ [some v])[i]? = _
      rw [List.getElem?_append_left (by omega), e, b']
    · have hge : slots.length ≤ i := by omega
      rw [List.getElem?_append_right hge] at hi
      have hi0 : i - slots.length = 0 := by
        cases hk : i - slots.length with
        | zero => rfl
        | succ k => simp [hk] at hi
      simp only [hi0, List.getElem?_cons_zero, Option.some.injEq] at hi
      subst hi
      refine ⟨hr, ?_⟩
      show (a ++ [some v])[i]? = _
      rw [List.getElem?_append_right (by omega)]
      have : i - a.length = 0 := by omega
      simp [this, hv]
  · intro i hi
    by_cases hlt : i < slots.length
    · have hi' : slots[i]? = some none := by simpa [List.getElem?_append_left hlt] using hi
      show (a ++ [some v])[i]? = _
      rw [List.getElem?_append_left (by omega)]
      exact inv.dead i hi'
    · have hge : slots.length ≤ i := by omega
      rw [List.getElem?_append_right hge] at hi
      cases hk : i - slots.length with
      | zero => simp [hk] at hi
      | succ k => simp [hk] at hi
  · intro b
    show cnt (slots ++ [some r]) b ≤ _
    rw [cnt_append, cnt_single]
    exact hcount b

theorem inv_put {h : Heap} {slots : List (Option Handle)} {a : List (Option AVal)} (inv : PoolInv ⟨h, slots⟩ a)
    (h' : Heap) (i : Nat) (o' : Option Handle) (av : Option AVal) (hi : i < slots.length)
    (hkeep : ∀ (j : Nat) (s : Handle), j ≠ i → slots[j]? = some (some s) → WF h' s ∧ bits h' s = bits h s)
    (hnew : match o' with | some r => WF h' r ∧ av = some (r.start, bits h' r) | none => av = none)
    (hcount : ∀ b, cnt (slots.set i o') b ≤ (h'.buf b).rc) :
    PoolInv ⟨h', slots.set i o'⟩ (a.set i av) := by
  have hlen : slots.length = a.length := inv.len
  refine ⟨by simp [hlen], ?_, ?_, hcount⟩
  · intro j s hj
    have hj : (slots.set i o')[j]? = some (some s) := hj
    by_cases hji : j = i
    · subst hji
      rw [List.getElem?_set_self hi] at hj
      simp only [Option.some.injEq] at hj
      subst hj
      simp only at hnew
      refine ⟨hnew.1, ?_⟩
      show (a.set j av)[j]? = _
      rw [List.getElem?_set_self (by omega), hnew.2]
    · rw [List.getElem?_set_ne (Ne.symm hji)] at hj
      obtain ⟨w, e⟩ := inv.live j s hj
      obtain ⟨w', b'⟩ := hkeep j s hji hj
      refine ⟨w', ?_⟩
      show (a.set i av)[j]? = _
      rw [List.getElem?_set_ne (Ne.symm hji), e, b']
  · intro j hj
    by_cases hji : j = i
    · subst hji
      rw [List.getElem?_set_self hi] at hj
      simp only [Option.some.injEq] at hj
      subst hj
      simp only at hnew
      show (a.set j av)[j]? = _
      rw [List.getElem?_set_self (by omega), hnew]
    · rw [List.getElem?_set_ne (Ne.symm hji)] at hj
      show (a.set i av)[j]? = _
      rw [List.getElem?_set_ne (Ne.symm hji)]
      exact inv.dead j hj

/-! ### old handles under the heap changes the operations make -/

theorem keep_incRc (h : Heap) (b : Nat) (s : Handle) (w : WF h s) : WF (h.incRc b) s ∧ bits (h.incRc b) s = bits h s :=
  ⟨WF_incRc h b s w, bits_incRc h b s⟩

theorem keep_alloc (h : Heap) (bytes : List Nat) (bw : Bool) (s : Handle) (w : WF h s) :
    WF (h.alloc bytes bw).1 s ∧ bits (h.alloc bytes bw).1 s = bits h s := by
  have hne : s.buf ≠ h.next := Nat.ne_of_lt w.alloc
  have hb : (h.alloc bytes bw).1.buf s.buf = h.buf s.buf := by simp [Heap.alloc, hne]
  exact WF_transfer h _ s w (by rw [hb]) (by rw [hb]; exact w.live) (by simp [Heap.alloc])

theorem keep_decRc (h : Heap) (b : Nat) (s : Handle) (w : WF h s) (hs : s.buf = b → 2 ≤ (h.buf b).rc) :
    WF (h.decRc b) s ∧ bits (h.decRc b) s = bits h s := by
  refine WF_transfer h _ s w (by simp) ?_ (by simp)
  by_cases hb : s.buf = b
  · rw [hb, decRc_rc_self]; have := hs hb; omega
  · rw [decRc_buf_ne _ _ _ hb]; exact w.live

/-! ### where the result of a consuming operation lies -/

theorem detach_zero (h h' : Heap) (s s' : Handle) (e : detach h s = .ok (h', s')) : s'.start = 0 := by
  unfold detach at e
  split at e
  · rename_i hc
    simp only [Bool.and_eq_true, beq_iff_eq] at hc
    cases e; exact hc.2
  · split at e
    · cases e; rfl
    · split at e
      · cases e; rfl
      · cases e
      · cases e

theorem appendBitsMut_loc (h h' : Heap) (s t r : Handle) (hrc : (h.buf s.buf).rc = 1)
    (e : appendBitsMut h s t = .ok (h', r)) : r.buf = s.buf ∧ r.start = s.start ∧ (h'.buf r.buf).rc = 1 := by
  unfold appendBitsMut at e
  rw [dataMut_unique h s hrc] at e
  simp only at e
  split at e
  · cases e
  · cases e
  · cases e; exact ⟨rfl, rfl, by simp [setBytes, Heap.set, hrc]⟩

/-- what a consuming operation (`detach`, `invert`, `append`, `insert`) leaves: the result is well formed and uniquely
    owned; it lies in the receiver's buffer only if the receiver was its sole owner, otherwise in a fresh buffer; the
    rest of the heap is framed -/
structure Consumed (h h' : Heap) (s r : Handle) : Prop where
  wf : WF h' r
  rc1 : (h'.buf r.buf).rc = 1
  frame : Frame h h' s.buf
  loc : (r.buf = s.buf ∧ (h.buf s.buf).rc = 1) ∨ r.buf = h.next
  zero : r.start = 0

theorem detach_consumed (h : Heap) (s : Handle) (ws : WF h s) :
    ∃ h' r, detach h s = .ok (h', r) ∧ bits h' r = bits h s ∧ Consumed h h' s r := by
  obtain ⟨h', r, hd, hw, hb, hrc, hcase⟩ := detach_strong h s ws
  have hz := detach_zero h h' s r hd
  have hne : h.next ≠ s.buf := Nat.ne_of_gt ws.alloc
  refine ⟨h', r, hd, hb, hw, hrc, ?_, ?_, hz⟩
  · rcases hcase with ⟨rfl, rfl⟩ | ⟨e1, e2, e3⟩
    · exact ⟨Nat.le_refl _, fun _ _ _ => rfl, fun h2 => by omega⟩
    · refine ⟨by omega, ?_, ?_⟩
      · intro x hx hxb
        rw [e3 x (by omega), decRc_buf_ne _ _ _ hxb]
      · intro _
        rw [e3 _ (Ne.symm hne)]
        exact ⟨by simp, decRc_rc_self _ _⟩
  · rcases hcase with ⟨rfl, rfl⟩ | ⟨e1, _, _⟩
    · exact Or.inl ⟨rfl, hrc⟩
    · exact Or.inr e1

theorem append_consumed (h : Heap) (s t : Handle) (ws : WF h s) (wt : WF h t)
    (ht : t.buf = s.buf → 2 ≤ (h.buf s.buf).rc) :
    ∃ h' r, append h s t = .ok (h', r) ∧ bits h' r = bits h s ++ bits h t ∧ Consumed h h' s r := by
  obtain ⟨h', r, ha, hw, hb, hrc, hf⟩ := append_spec h s t ws wt ht
  refine ⟨h', r, ha, hb, hw, hrc, hf, ?_, ?_⟩
  all_goals
    obtain ⟨h1, s1, hd, hw1, _, hrc1, hcase⟩ := detach_strong h s ws
    have hz := detach_zero h h1 s s1 hd
    unfold append at ha
    rw [hd] at ha
    simp only at ha
    obtain ⟨e1, e2, _⟩ := appendBitsMut_loc h1 h' s1 t r hrc1 ha
  · rcases hcase with ⟨rfl, rfl⟩ | ⟨c1, _, _⟩
    · exact Or.inl ⟨e1, hrc1⟩
    · exact Or.inr (e1.trans c1)
  · rw [e2]; exact hz

theorem invert_consumed (h : Heap) (s : Handle) (ws : WF h s) :
    ∃ h' r, invert h s = .ok (h', r) ∧ bits h' r = Bits.invert (bits h s) ∧ Consumed h h' s r := by
  obtain ⟨h', r, ha, hw, hb, hrc, hf⟩ := invert_spec h s ws
  refine ⟨h', r, ha, hb, hw, hrc, hf, ?_, ?_⟩
  all_goals
    obtain ⟨h1, s1, hd, hw1, _, hrc1, hcase⟩ := detach_strong h s ws
    have hz := detach_zero h h1 s s1 hd
    unfold invert at ha
    rw [hd] at ha
    simp only at ha
    rw [dataMut_unique h1 s1 hrc1] at ha
    simp only at ha
    have hr : r = s1 := by
      split at ha
      · cases ha; rfl
      · cases ha
      · cases ha
  · rcases hcase with ⟨rfl, rfl⟩ | ⟨c1, _, _⟩
    · exact Or.inl ⟨by rw [hr], hrc1⟩
    · exact Or.inr (by rw [hr]; exact c1)
  · rw [hr]; exact hz

theorem insert_consumed (h : Heap) (self t : Handle) (k : Nat) (ws : WF h self) (wt : WF h t)
    (hk : self.start + k ≤ self.end_) (hu : self.start + k ≤ usizeMax) :
    ∃ h' r, insert h self k t = .ok (h', some r) ∧
      bits h' r = (bits h self).take k ++ bits h t ++ (bits h self).drop k ∧ Consumed h h' self r := by
  obtain ⟨h', r, ha, hw, hb, hrc, hf⟩ := insert_spec h self t k ws wt hk hu
  have key : r.buf = h.next ∧ r.start = 0 := by
    unfold insert splitAt checkedAdd at ha
    rw [if_pos (by omega)] at ha
    simp only at ha
    rw [if_neg (by omega)] at ha
    simp only at ha
    have wl1 : WF ((h.incRc self.buf).incRc self.buf) { self with end_ := self.start + k } :=
      WF_incRc _ _ _ (WF_incRc _ _ _ (WF_sub h self ws self.start (self.start + k) (by omega) hk))
    obtain ⟨h2, l2, hd, _, _, rcl2, hcase⟩ := detach_strong _ _ wl1
    have hz := detach_zero _ _ _ _ hd
    rw [hd] at ha
    simp only at ha
    have hl2 : l2.buf = h.next := by
      rcases hcase with ⟨rfl, rfl⟩ | ⟨e1, _, _⟩
      · exfalso
        have h3 : (((h.incRc self.buf).incRc self.buf).buf self.buf).rc = (h.buf self.buf).rc + 2 := by
          rw [incRc_rc_self, incRc_rc_self]
        have : (((h.incRc self.buf).incRc self.buf).buf self.buf).rc = 1 := rcl2
        omega
      · exact e1
    split at ha
    · cases ha
    · cases ha
    · rename_i h3 l3 ha3
      obtain ⟨b3, s3, rc3⟩ := appendBitsMut_loc h2 h3 l2 t l3 rcl2 ha3
      split at ha
      · cases ha
      · cases ha
      · rename_i h4 l4 ha4
        obtain ⟨b4, s4, _⟩ := appendBitsMut_loc h3 h4 l3 _ l4 rc3 ha4
        simp only [Outcome.ok.injEq, Prod.mk.injEq, Option.some.injEq] at ha
        obtain ⟨_, rfl⟩ := ha
        exact ⟨by rw [b4, b3, hl2], by rw [s4, s3, hz]⟩
  exact ⟨h', r, ha, hb, hw, hrc, hf, Or.inr key.1, key.2⟩

/-! ### the two ways a slot changes: its value is consumed into a result, or it is dropped -/

theorem live_alloc {h : Heap} {slots : List (Option Handle)} {a : List (Option AVal)} (inv : PoolInv ⟨h, slots⟩ a)
    (x : Nat) (hx : h.next ≤ x) : cnt slots x = 0 :=
  cnt_fresh slots x (fun j u hj => Nat.lt_of_lt_of_le (inv.live j u hj).1.alloc hx)

theorem inv_consume {h : Heap} {slots : List (Option Handle)} {a : List (Option AVal)} (inv : PoolInv ⟨h, slots⟩ a)
    (i : Nat) (s r : Handle) (h' : Heap) (hi : slots[i]? = some (some s)) (c : Consumed h h' s r)
    (l : List Bool) (hb : bits h' r = l) :
    PoolInv ⟨h', slots.set i (some r)⟩ (a.set i (some (0, l))) := by
  have hlt : i < slots.length := (List.getElem?_eq_some_iff.mp hi).1
  have hsb : s.buf < h.next := (inv.live i s hi).1.alloc
  have hpos : 1 ≤ cnt slots s.buf := cnt_pos slots i s hi
  have hcs : cnt slots s.buf ≤ (h.buf s.buf).rc := inv.count s.buf
  refine inv_put inv h' i (some r) (some (0, l)) hlt ?_ ?_ ?_
  · intro j u hji hj
    refine c.frame.isolation u (inv.live j u hj).1 (fun hub => ?_)
    have := cnt_two slots i j s u (Ne.symm hji) hi hj hub
    omega
  · exact ⟨c.wf, by rw [c.zero, hb]⟩
  · intro b
    have hset := cnt_set slots i (some s) (some r) b hi
    simp only [hit] at hset
    have hc : cnt slots b ≤ (h.buf b).rc := inv.count b
    rcases c.loc with ⟨hrb, hrc⟩ | hrb
    · rw [hrb] at hset
      have he : cnt (slots.set i (some r)) b = cnt slots b := by omega
      rw [he]
      by_cases hbs : b = s.buf
      · subst hbs
        have h1 := c.rc1
        rw [hrb] at h1
        rw [h1]; omega
      · by_cases hbl : b < h.next
        · rw [c.frame.other b hbl hbs]; exact hc
        · rw [live_alloc inv b (by omega)]; exact Nat.zero_le _
    · have hne : s.buf ≠ h.next := Nat.ne_of_lt hsb
      by_cases hbn : b = h.next
      · subst hbn
        have h0 := live_alloc inv h.next (Nat.le_refl _)
        have h1 := c.rc1
        rw [hrb] at h1
        rw [hrb] at hset
        simp only [hne, if_false, if_true] at hset
        rw [h1]; omega
      · have hrn : ¬ (r.buf = b) := by rw [hrb]; exact fun e => hbn e.symm
        simp only [hrn, if_false] at hset
        by_cases hbs : b = s.buf
        · subst hbs
          simp only [if_true] at hset
          by_cases h2 : 2 ≤ (h.buf s.buf).rc
          · rw [(c.frame.shared h2).2]; omega
          · omega
        · have hsn : ¬ (s.buf = b) := fun e => hbs e.symm
          simp only [hsn, if_false] at hset
          have he : cnt (slots.set i (some r)) b = cnt slots b := by omega
          rw [he]
          by_cases hbl : b < h.next
          · rw [c.frame.other b hbl hbs]; exact hc
          · rw [live_alloc inv b (by omega)]; exact Nat.zero_le _

theorem inv_dropped {h : Heap} {slots : List (Option Handle)} {a : List (Option AVal)} (inv : PoolInv ⟨h, slots⟩ a)
    (i : Nat) (s : Handle) (hi : slots[i]? = some (some s)) :
    PoolInv ⟨drop h s, slots.set i none⟩ (a.set i none) := by
  have hlt : i < slots.length := (List.getElem?_eq_some_iff.mp hi).1
  have hcs : cnt slots s.buf ≤ (h.buf s.buf).rc := inv.count s.buf
  refine inv_put inv (drop h s) i none none hlt ?_ rfl ?_
  · intro j u hji hj
    refine keep_decRc h s.buf u (inv.live j u hj).1 (fun hub => ?_)
    have := cnt_two slots i j s u (Ne.symm hji) hi hj hub
    omega
  · intro b
    have hset := cnt_set slots i (some s) none b hi
    simp only [hit] at hset
    have hc : cnt slots b ≤ (h.buf b).rc := inv.count b
    show _ ≤ ((h.decRc s.buf).buf b).rc
    by_cases hbs : b = s.buf
    · subst hbs
      simp only [if_true] at hset
      rw [decRc_rc_self]; omega
    · have hsn : ¬ (s.buf = b) := fun e => hbs e.symm
      simp only [hsn, if_false] at hset
      rw [decRc_buf_ne _ _ _ hbs]; omega

/-! ### a new value that shares a buffer; a new value in a buffer of its own -/

theorem inv_share {h : Heap} {slots : List (Option Handle)} {a : List (Option AVal)} (inv : PoolInv ⟨h, slots⟩ a)
    (b0 : Nat) (n : Nat) (h' : Heap) (r : Handle) (v : AVal)
    (hkeep : ∀ (i : Nat) (s : Handle), slots[i]? = some (some s) → WF h' s ∧ bits h' s = bits h s)
    (hr : WF h' r) (hv : v = (r.start, bits h' r)) (hrb : r.buf = b0)
    (hrc : (h'.buf b0).rc = (h.buf b0).rc + n) (hn : 1 ≤ n) (hoth : ∀ x, x ≠ b0 → h'.buf x = h.buf x) :
    PoolInv ⟨h', slots ++ [some r]⟩ (a ++ [some v]) ∧ ∀ b, cnt (slots ++ [some r]) b + (if b = b0 then n - 1 else 0) ≤ (h'.buf b).rc := by
  have hc : ∀ b, cnt slots b ≤ (h.buf b).rc := inv.count
  have key : ∀ b, cnt (slots ++ [some r]) b + (if b = b0 then n - 1 else 0) ≤ (h'.buf b).rc := by
    intro b
    rw [cnt_append, cnt_single, hrb]
    by_cases hb : b = b0
    · subst hb; simp only [if_true]; rw [hrc]; have := hc b; omega
    · have : ¬ (b0 = b) := fun e => hb e.symm
      simp only [this, hb, if_false]; rw [hoth b hb]; exact hc b
  refine ⟨inv_push inv h' r v hkeep hr hv (fun b => ?_), key⟩
  have := key b
  rw [cnt_append, cnt_single] at this
  omega

theorem slice_all (l : List Bool) : Bits.slice l 0 l.length = l := by simp [Bits.slice]

theorem inv_fresh {h : Heap} {slots : List (Option Handle)} {a : List (Option AVal)} (inv : PoolInv ⟨h, slots⟩ a)
    (bytes : List Nat) (bw : Bool) (hlt : ∀ x ∈ bytes, x < 256) :
    PoolInv ⟨(h.alloc bytes bw).1, slots ++ [some ⟨0, bytes.length * 8, (h.alloc bytes bw).2⟩]⟩ (a ++ [some (0, allBits bytes)]) := by
  refine inv_push inv _ _ _ (fun i s hi => keep_alloc h bytes bw s (inv.live i s hi).1)
    (alloc_WF h bytes bw 0 (bytes.length * 8) (Nat.zero_le _) (by omega) hlt) ?_ ?_
  · show (0, allBits bytes) = (0, bits _ _)
    unfold bits
    rw [alloc_view]
    have : bytes.length * 8 = (allBits bytes).length := by rw [allBits_length]; omega
    simp only [View.bits]
    rw [this, slice_all]
  · intro b
    have hc : cnt slots b ≤ (h.buf b).rc := inv.count b
    by_cases hb : b = h.next
    · subst hb
      have h0 := live_alloc inv h.next (Nat.le_refl _)
      simp [Heap.alloc, h0]
    · have : ¬ (h.next = b) := fun e => hb e.symm
      simp [Heap.alloc, hb, this]; exact hc

end Xeh.Bitstr
