/-
Every step of the pool machine is the step of the machine on plain values (Model/BitstrPool.lean), and so is every history.
-/
import XehModel.Proofs.BitstrPool

namespace Xeh.Bitstr
open Xeh Xeh.Bits

theorem all_lt (bytes : List Nat) (h : bytes.all (· < 256) = true) : ∀ x ∈ bytes, x < 256 := by
  intro x hx
  have := List.all_eq_true.mp h x hx
  simpa using this

/-- the abstract pool holds, at a live slot, where the handle starts and what it denotes -/
theorem aget {h : Heap} {slots : List (Option Handle)} {a : List (Option AVal)} (inv : PoolInv ⟨h, slots⟩ a)
    {i : Nat} {s : Handle} (hi : slots[i]? = some (some s)) : APool.get a i = some (s.start, bits h s) :=
  APool.get_of (inv.live i s hi).2

theorem step_refines (p : Pool) (a : List (Option AVal)) (inv : PoolInv p a) (op : PoolOp) (p' : Pool)
    (hs : p.step op = some p') : PoolInv p' (APool.step a op) := by
  obtain ⟨h, slots⟩ := p
  cases op with
  | newVec bytes =>
    simp only [Pool.step] at hs
    split at hs
    · rename_i hb
      simp only [fromVec, Pool.push, Option.some.injEq] at hs
      subst hs
      exact inv_fresh inv bytes false (all_lt bytes hb)
    · cases hs
  | newStatic bytes =>
    simp only [Pool.step] at hs
    split at hs
    · rename_i hb
      simp only [fromStatic, Pool.push, Option.some.injEq] at hs
      subst hs
      exact inv_fresh inv bytes true (all_lt bytes hb)
    · cases hs
  | empty =>
    simp only [Pool.step, Bitstr.new, Pool.push, Option.some.injEq] at hs
    subst hs
    have := inv_fresh inv [] false (by simp)
    simpa [APool.step, allBits, ofBytes] using this
  | clone i =>
    simp only [Pool.step] at hs
    cases hg : Pool.get ⟨h, slots⟩ i with
    | none => simp [hg] at hs
    | some s =>
      have hi : slots[i]? = some (some s) := Pool.get_some hg
      have ws := (inv.live i s hi).1
      simp only [hg, Option.map_some, Bitstr.clone, Pool.push, Option.some.injEq] at hs
      subst hs
      simp only [APool.step, aget inv hi]
      exact (inv_share inv s.buf 1 (h.incRc s.buf) s _ (fun j u hj => keep_incRc h s.buf u (inv.live j u hj).1)
        (WF_incRc h s.buf s ws) (by rw [bits_incRc]) rfl (incRc_rc_self h s.buf) (Nat.le_refl _)
        (fun x hx => incRc_buf_ne h s.buf x hx)).1
  | drop i =>
    simp only [Pool.step] at hs
    cases hg : Pool.get ⟨h, slots⟩ i with
    | none => simp [hg] at hs
    | some s =>
      have hi : slots[i]? = some (some s) := Pool.get_some hg
      simp only [hg, Option.map_some, Pool.put, Option.some.injEq] at hs
      subst hs
      simp only [APool.step, aget inv hi]
      exact inv_dropped inv i s hi
  | peek i n =>
    simp only [Pool.step] at hs
    cases hg : Pool.get ⟨h, slots⟩ i with
    | none => simp [hg] at hs
    | some s =>
      have hi : slots[i]? = some (some s) := Pool.get_some hg
      have ws := (inv.live i s hi).1
      have he := end_eq h s ws
      simp only [hg, Option.map_some, Option.some.injEq] at hs
      simp only [APool.step, aget inv hi]
      unfold peek checkedAdd at hs
      by_cases hv : s.start + n ≤ usizeMax ∧ n ≤ (bits h s).length
      · rw [if_pos hv]
        rw [if_pos hv.1] at hs
        simp only at hs
        rw [if_pos ⟨by omega, by omega⟩] at hs
        simp only [Pool.push] at hs
        subst hs
        have hn : s.start + n ≤ s.end_ := by omega
        exact (inv_share inv s.buf 1 (h.incRc s.buf) _ _ (fun j u hj => keep_incRc h s.buf u (inv.live j u hj).1)
          (WF_incRc _ _ _ (WF_sub h s ws s.start (s.start + n) (by omega) hn))
          (by refine Prod.ext rfl ?_; show _ = bits _ _; rw [bits_incRc, bits_eq, bits_eq, slice_take _ _ _ _ hn]) rfl (incRc_rc_self h s.buf) (Nat.le_refl _)
          (fun x hx => incRc_buf_ne h s.buf x hx)).1
      · rw [if_neg hv]
        by_cases h1 : s.start + n ≤ usizeMax
        · rw [if_pos h1] at hs
          simp only at hs
          rw [if_neg (by omega)] at hs
          subst hs; exact inv
        · rw [if_neg h1] at hs
          subst hs; exact inv
  | seek i pos =>
    simp only [Pool.step] at hs
    cases hg : Pool.get ⟨h, slots⟩ i with
    | none => simp [hg] at hs
    | some s =>
      have hi : slots[i]? = some (some s) := Pool.get_some hg
      have ws := (inv.live i s hi).1
      have he := end_eq h s ws
      simp only [hg, Option.map_some, Option.some.injEq] at hs
      simp only [APool.step, aget inv hi]
      unfold seek at hs
      by_cases hv : s.start ≤ pos ∧ pos ≤ s.end_
      · rw [if_pos (by omega)]
        rw [if_pos hv] at hs
        simp only [Pool.push] at hs
        subst hs
        exact (inv_share inv s.buf 1 (h.incRc s.buf) _ _ (fun j u hj => keep_incRc h s.buf u (inv.live j u hj).1)
          (WF_incRc _ _ _ (WF_sub h s ws pos s.end_ hv.2 (Nat.le_refl _)))
          (by refine Prod.ext rfl ?_; show _ = bits _ _; rw [bits_incRc, bits_eq, bits_eq, slice_drop]; show slice _ (s.start + (pos - s.start)) s.end_ = slice _ pos s.end_; congr 1; omega) rfl (incRc_rc_self h s.buf) (Nat.le_refl _)
          (fun x hx => incRc_buf_ne h s.buf x hx)).1
      · rw [if_neg (by omega)]
        rw [if_neg hv] at hs
        subst hs; exact inv
  | substr i x y =>
    simp only [Pool.step] at hs
    cases hg : Pool.get ⟨h, slots⟩ i with
    | none => simp [hg] at hs
    | some s =>
      have hi : slots[i]? = some (some s) := Pool.get_some hg
      have ws := (inv.live i s hi).1
      have he := end_eq h s ws
      simp only [hg, Option.map_some, Option.some.injEq] at hs
      simp only [APool.step, aget inv hi]
      unfold substr at hs
      by_cases hv : x ≤ y ∧ s.start ≤ x ∧ y ≤ s.end_
      · rw [if_pos (by omega)]
        rw [if_pos hv] at hs
        simp only [Pool.push] at hs
        subst hs
        exact (inv_share inv s.buf 1 (h.incRc s.buf) _ _ (fun j u hj => keep_incRc h s.buf u (inv.live j u hj).1)
          (WF_incRc _ _ _ (WF_sub h s ws x y hv.1 hv.2.2))
          (by refine Prod.ext rfl ?_; show _ = bits _ _; rw [bits_incRc, bits_eq, bits_eq, slice_slice _ _ _ _ _ (by omega)]; show slice _ (s.start + (x - s.start)) (s.start + (y - s.start)) = slice _ x y; congr 1 <;> omega) rfl
          (incRc_rc_self h s.buf) (Nat.le_refl _) (fun x hx => incRc_buf_ne h s.buf x hx)).1
      · rw [if_neg (by omega)]
        rw [if_neg hv] at hs
        subst hs; exact inv
  | read i n =>
    simp only [Pool.step] at hs
    cases hg : Pool.get ⟨h, slots⟩ i with
    | none => simp [hg] at hs
    | some s =>
      have hi : slots[i]? = some (some s) := Pool.get_some hg
      have hlt : i < slots.length := (List.getElem?_eq_some_iff.mp hi).1
      have ws := (inv.live i s hi).1
      have he := end_eq h s ws
      simp only [hg, Option.map_some, Option.some.injEq] at hs
      simp only [APool.step, aget inv hi]
      unfold Bitstr.read checkedAdd at hs
      by_cases hv : s.start + n ≤ usizeMax ∧ n ≤ (bits h s).length
      · rw [if_pos hv]
        rw [if_pos hv.1] at hs
        simp only at hs
        rw [if_neg (by omega)] at hs
        simp only [Pool.push, Pool.put] at hs
        subst hs
        have hn : s.start + n ≤ s.end_ := by omega
        have hc : ∀ b, cnt slots b ≤ (h.buf b).rc := inv.count
        have hset : ∀ b, cnt (slots.set i (some { s with start := s.start + n })) b = cnt slots b := by
          intro b
          have := cnt_set slots i (some s) (some { s with start := s.start + n }) b hi
          simp only [hit] at this
          omega
        have inv1 : PoolInv ⟨h.incRc s.buf, slots.set i (some { s with start := s.start + n })⟩
            (a.set i (some (s.start + n, (bits h s).drop n))) := by
          refine inv_put inv (h.incRc s.buf) i _ _ hlt (fun j u _ hj => keep_incRc h s.buf u (inv.live j u hj).1) ?_ ?_
          · exact ⟨WF_incRc _ _ _ (WF_sub h s ws (s.start + n) s.end_ hn (Nat.le_refl _)),
              by rw [bits_incRc, bits_eq, bits_eq, slice_drop]⟩
          · intro b
            rw [hset b]
            exact Nat.le_trans (hc b) (incRc_rc_ge h s.buf b)
        refine inv_push inv1 (h.incRc s.buf) { s with end_ := s.start + n } _
          (fun j u hj => ⟨(inv1.live j u hj).1, rfl⟩)
          (WF_incRc _ _ _ (WF_sub h s ws s.start (s.start + n) (by omega) hn))
          (by refine Prod.ext rfl ?_; show _ = bits _ _; rw [bits_incRc, bits_eq, bits_eq, slice_take _ _ _ _ hn]) ?_
        intro b
        rw [hset b]
        show cnt slots b + (if s.buf = b then 1 else 0) ≤ _
        by_cases hb : s.buf = b
        · subst hb; simp only [if_true]; rw [incRc_rc_self]; have := hc s.buf; omega
        · simp only [hb, if_false]; rw [incRc_buf_ne _ _ _ (fun e => hb e.symm)]; exact hc b
      · rw [if_neg hv]
        by_cases h1 : s.start + n ≤ usizeMax
        · rw [if_pos h1] at hs
          simp only at hs
          rw [if_pos (by omega)] at hs
          subst hs; exact inv
        · rw [if_neg h1] at hs
          subst hs; exact inv
  | split i k =>
    simp only [Pool.step] at hs
    cases hg : Pool.get ⟨h, slots⟩ i with
    | none => simp [hg] at hs
    | some s =>
      have hi : slots[i]? = some (some s) := Pool.get_some hg
      have ws := (inv.live i s hi).1
      have he := end_eq h s ws
      simp only [hg, Option.map_some, Option.some.injEq] at hs
      simp only [APool.step, aget inv hi]
      unfold splitAt checkedAdd at hs
      by_cases hv : s.start + k ≤ usizeMax ∧ k ≤ (bits h s).length
      · rw [if_pos hv]
        rw [if_pos hv.1] at hs
        simp only at hs
        rw [if_neg (by omega)] at hs
        simp only [Pool.push] at hs
        subst hs
        have hk : s.start + k ≤ s.end_ := by omega
        have hkeep2 : ∀ (j : Nat) (u : Handle), slots[j]? = some (some u) →
            WF ((h.incRc s.buf).incRc s.buf) u ∧ bits ((h.incRc s.buf).incRc s.buf) u = bits h u := by
          intro j u hj
          obtain ⟨w1, b1⟩ := keep_incRc h s.buf u (inv.live j u hj).1
          obtain ⟨w2, b2⟩ := keep_incRc (h.incRc s.buf) s.buf u w1
          exact ⟨w2, b2.trans b1⟩
        obtain ⟨inv1, key⟩ := inv_share inv s.buf 2 ((h.incRc s.buf).incRc s.buf) { s with end_ := s.start + k }
          (s.start, (bits h s).take k) hkeep2
          (WF_incRc _ _ _ (WF_incRc _ _ _ (WF_sub h s ws s.start (s.start + k) (by omega) hk)))
          (by refine Prod.ext rfl ?_; show _ = bits _ _; rw [bits_incRc, bits_incRc, bits_eq, bits_eq, slice_take _ _ _ _ hk])
          rfl (by rw [incRc_rc_self, incRc_rc_self]) (by omega)
          (fun x hx => by rw [incRc_buf_ne _ _ _ hx, incRc_buf_ne _ _ _ hx])
        have : a ++ [some (s.start, (bits h s).take k), some (s.start + k, (bits h s).drop k)] =
            (a ++ [some (s.start, (bits h s).take k)]) ++ [some (s.start + k, (bits h s).drop k)] := by simp
        rw [this]
        refine inv_push inv1 _ { s with start := s.start + k } _ (fun j u hj => ⟨(inv1.live j u hj).1, rfl⟩)
          (WF_incRc _ _ _ (WF_incRc _ _ _ (WF_sub h s ws (s.start + k) s.end_ hk (Nat.le_refl _))))
          (by refine Prod.ext rfl ?_; show _ = bits _ _; rw [bits_incRc, bits_incRc, bits_eq, bits_eq, slice_drop]) ?_
        intro b
        have := key b
        show _ + (if s.buf = b then 1 else 0) ≤ _
        by_cases hb : b = s.buf
        · subst hb; simp only [if_true] at this ⊢; omega
        · have hb' : ¬ (s.buf = b) := fun e => hb e.symm
          simp only [hb, hb', if_false] at this ⊢; omega
      · rw [if_neg hv]
        by_cases h1 : s.start + k ≤ usizeMax
        · rw [if_pos h1] at hs
          simp only at hs
          rw [if_pos (by omega)] at hs
          subst hs; exact inv
        · rw [if_neg h1] at hs
          subst hs; exact inv
  | detach i =>
    simp only [Pool.step] at hs
    cases hg : Pool.get ⟨h, slots⟩ i with
    | none => simp [hg] at hs
    | some s =>
      have hi : slots[i]? = some (some s) := Pool.get_some hg
      obtain ⟨h', r, hd, hb, c⟩ := detach_consumed h s (inv.live i s hi).1
      simp only [hg, Option.bind_some, hd, Pool.put, Option.some.injEq] at hs
      subst hs
      simp only [APool.step, aget inv hi]
      exact inv_consume inv i s r h' hi c _ hb
  | invert i =>
    simp only [Pool.step] at hs
    cases hg : Pool.get ⟨h, slots⟩ i with
    | none => simp [hg] at hs
    | some s =>
      have hi : slots[i]? = some (some s) := Pool.get_some hg
      obtain ⟨h', r, hd, hb, c⟩ := invert_consumed h s (inv.live i s hi).1
      simp only [hg, Option.bind_some, hd, Pool.put, Option.some.injEq] at hs
      subst hs
      simp only [APool.step, aget inv hi]
      exact inv_consume inv i s r h' hi c _ hb
  | append i j =>
    simp only [Pool.step] at hs
    split at hs
    · cases hs
    · rename_i hij
      cases hg : Pool.get ⟨h, slots⟩ i with
      | none => simp [hg] at hs
      | some s =>
        cases hgj : Pool.get ⟨h, slots⟩ j with
        | none => simp [hg, hgj] at hs
        | some t =>
          have hi : slots[i]? = some (some s) := Pool.get_some hg
          have hj : slots[j]? = some (some t) := Pool.get_some hgj
          have hts : t.buf = s.buf → 2 ≤ (h.buf s.buf).rc := fun e => by
            have := cnt_two slots i j s t hij hi hj e
            have hc : cnt slots s.buf ≤ (h.buf s.buf).rc := inv.count s.buf
            omega
          obtain ⟨h', r, hd, hb, c⟩ := append_consumed h s t (inv.live i s hi).1 (inv.live j t hj).1 hts
          simp only [hg, hgj, Option.bind_some, hd, Pool.put, Option.some.injEq] at hs
          subst hs
          simp only [APool.step, aget inv hi, aget inv hj]
          exact inv_consume inv i s r h' hi c _ hb
  | insert i k j =>
    simp only [Pool.step] at hs
    split at hs
    · cases hs
    · rename_i hij
      cases hg : Pool.get ⟨h, slots⟩ i with
      | none => simp [hg] at hs
      | some s =>
        cases hgj : Pool.get ⟨h, slots⟩ j with
        | none => simp [hg, hgj] at hs
        | some t =>
          have hi : slots[i]? = some (some s) := Pool.get_some hg
          have hj : slots[j]? = some (some t) := Pool.get_some hgj
          have ws := (inv.live i s hi).1
          have he := end_eq h s ws
          simp only [hg, hgj, Option.bind_some] at hs
          simp only [APool.step, aget inv hi, aget inv hj]
          by_cases hv : s.start + k ≤ s.end_ ∧ s.start + k ≤ usizeMax
          · obtain ⟨h', r, hd, hb, c⟩ := insert_consumed h s t k ws (inv.live j t hj).1 hv.1 hv.2
            simp only [hd, Pool.put, Option.some.injEq] at hs
            subst hs
            rw [if_pos ⟨by omega, hv.2⟩]
            exact inv_consume inv i s r h' hi c _ hb
          · rw [insert_invalid h s t k hv] at hs
            simp only [Pool.put, Option.some.injEq] at hs
            subst hs
            rw [if_neg (by omega)]
            exact inv_dropped inv i s hi

/-- every history -/
theorem run_refines (ops : List PoolOp) : ∀ (p : Pool) (a : List (Option AVal)), PoolInv p a →
    ∀ p', p.run ops = some p' → PoolInv p' (APool.run ops a) := by
  induction ops with
  | nil => intro p a inv p' h; simp only [Pool.run, Option.some.injEq] at h; subst h; exact inv
  | cons op ops ih =>
    intro p a inv p' h
    simp only [Pool.run] at h
    cases hs : p.step op with
    | none => simp [hs] at h
    | some p1 =>
      simp only [hs, Option.bind_some] at h
      exact ih p1 _ (step_refines p a inv op p1 hs) p' h

/-! ### the machine never gets stuck on an operation the API can express -/

/-- the operations a Rust program can write: live operands, `append` / `insert` of two different values (the receiver is
    moved), bytes that are bytes -/
def PoolOp.Valid (slots : List (Option Handle)) : PoolOp → Prop
  | .newVec bytes => bytes.all (· < 256) = true
  | .newStatic bytes => bytes.all (· < 256) = true
  | .empty => True
  | .clone i | .drop i | .read i _ | .peek i _ | .seek i _ | .substr i _ _ | .split i _ | .detach i | .invert i =>
    ∃ s, slots[i]? = some (some s)
  | .append i j | .insert i _ j => i ≠ j ∧ (∃ s, slots[i]? = some (some s)) ∧ (∃ t, slots[j]? = some (some t))

theorem get_of_slot {h : Heap} {slots : List (Option Handle)} {i : Nat} {s : Handle} (hi : slots[i]? = some (some s)) :
    Pool.get ⟨h, slots⟩ i = some s := by simp [Pool.get, hi]

/-- no panic, over every well-formed pool: `detach`, `invert`, `append` and `insert` always return a value -/
theorem step_total (p : Pool) (a : List (Option AVal)) (inv : PoolInv p a) (op : PoolOp) (hv : op.Valid p.slots) :
    ∃ p', p.step op = some p' := by
  obtain ⟨h, slots⟩ := p
  cases op with
  | newVec bytes => simp only [PoolOp.Valid] at hv; simp [Pool.step, hv]
  | newStatic bytes => simp only [PoolOp.Valid] at hv; simp [Pool.step, hv]
  | empty => simp [Pool.step]
  | clone i => obtain ⟨s, hi⟩ := hv; simp [Pool.step, get_of_slot hi]
  | drop i => obtain ⟨s, hi⟩ := hv; simp [Pool.step, get_of_slot hi]
  | read i n => obtain ⟨s, hi⟩ := hv; simp [Pool.step, get_of_slot hi]
  | peek i n => obtain ⟨s, hi⟩ := hv; simp [Pool.step, get_of_slot hi]
  | seek i pos => obtain ⟨s, hi⟩ := hv; simp [Pool.step, get_of_slot hi]
  | substr i x y => obtain ⟨s, hi⟩ := hv; simp [Pool.step, get_of_slot hi]
  | split i k => obtain ⟨s, hi⟩ := hv; simp [Pool.step, get_of_slot hi]
  | detach i =>
    obtain ⟨s, hi⟩ := hv
    obtain ⟨h', r, hd, _, _⟩ := detach_consumed h s (inv.live i s hi).1
    exact ⟨Pool.put ⟨h, slots⟩ h' i (some r), by simp only [Pool.step, get_of_slot hi, Option.bind_some, hd]⟩
  | invert i =>
    obtain ⟨s, hi⟩ := hv
    obtain ⟨h', r, hd, _, _⟩ := invert_consumed h s (inv.live i s hi).1
    exact ⟨Pool.put ⟨h, slots⟩ h' i (some r), by simp only [Pool.step, get_of_slot hi, Option.bind_some, hd]⟩
  | append i j =>
    obtain ⟨hij, ⟨s, hi⟩, ⟨t, hj⟩⟩ := hv
    have hts : t.buf = s.buf → 2 ≤ (h.buf s.buf).rc := fun e => by
      have := cnt_two slots i j s t hij hi hj e
      have hc : cnt slots s.buf ≤ (h.buf s.buf).rc := inv.count s.buf
      omega
    obtain ⟨h', r, hd, _, _⟩ := append_consumed h s t (inv.live i s hi).1 (inv.live j t hj).1 hts
    exact ⟨Pool.put ⟨h, slots⟩ h' i (some r), by simp only [Pool.step, if_neg hij, get_of_slot hi, get_of_slot hj, Option.bind_some, hd]⟩
  | insert i k j =>
    obtain ⟨hij, ⟨s, hi⟩, ⟨t, hj⟩⟩ := hv
    by_cases hk : s.start + k ≤ s.end_ ∧ s.start + k ≤ usizeMax
    · obtain ⟨h', r, hd, _, _⟩ := insert_consumed h s t k (inv.live i s hi).1 (inv.live j t hj).1 hk.1 hk.2
      exact ⟨Pool.put ⟨h, slots⟩ h' i (some r), by simp only [Pool.step, if_neg hij, get_of_slot hi, get_of_slot hj, Option.bind_some, hd]⟩
    · exact ⟨Pool.put ⟨h, slots⟩ (drop h s) i none, by simp only [Pool.step, if_neg hij, get_of_slot hi, get_of_slot hj, Option.bind_some, insert_invalid h s t k hk]⟩

end Xeh.Bitstr
