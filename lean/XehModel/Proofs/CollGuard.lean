/-
Helper for C12: the decidable guard `keysComparable` (all keys of one comparable class) and its
elimination into a predicate on which `Cell.cmp` is lawful.
-/
import XehModel.Proofs.CollMap

namespace Xeh

/-- all cells are ints, or all are strings (tags allowed).
    (non-NaN reals are comparable as well in the implementation; the lawfulness proof for them is not
    done, so they are outside the proved guard) -/
def keysComparable (ks : List Cell) : Bool :=
  (ks.all fun c => c.keyClass == some .int) || (ks.all fun c => c.keyClass == some .str)

theorem keyClass_int {c : Cell} (h : c.keyClass = some .int) : IsIntCell c := by
  unfold Cell.keyClass at h
  cases hv : c.value <;> rw [hv] at h <;> simp at h
  exact ⟨_, hv⟩

theorem keyClass_str {c : Cell} (h : c.keyClass = some .str) : IsStrCell c := by
  unfold Cell.keyClass at h
  cases hv : c.value <;> rw [hv] at h <;> simp at h
  exact ⟨_, hv⟩

/-- the guard gives a set of cells containing every key on which `cmp` is lawful -/
theorem keysComparable_elim {ks : List Cell} (h : keysComparable ks = true) :
    ∃ P : Cell → Prop, CmpLawfulOn P ∧ ∀ c ∈ ks, P c := by
  unfold keysComparable at h
  rcases Bool.or_eq_true _ _ |>.mp h with h | h
  · refine ⟨IsIntCell, cmp_lawful_int, fun c hc => keyClass_int ?_⟩
    have := List.all_eq_true.mp h c hc
    simpa using this
  · refine ⟨IsStrCell, cmp_lawful_str, fun c hc => keyClass_str ?_⟩
    have := List.all_eq_true.mp h c hc
    simpa using this

/-- guard for a map and the probe keys of an operation -/
def KeysComparable (m : PairList) (probes : List Cell) : Prop :=
  keysComparable (m.toList.map (·.1) ++ probes) = true

instance (m : PairList) (probes : List Cell) : Decidable (KeysComparable m probes) := by
  unfold KeysComparable; infer_instance

theorem KeysComparable.elim {m : PairList} {probes : List Cell} (h : KeysComparable m probes) :
    ∃ P : Cell → Prop, CmpLawfulOn P ∧ KeysIn P m.toList ∧ ∀ c ∈ probes, P c := by
  obtain ⟨P, L, hP⟩ := keysComparable_elim h
  refine ⟨P, L, ?_, fun c hc => hP c (List.mem_append_right _ hc)⟩
  intro p hp
  exact hP p.1 (List.mem_append_left _ (List.mem_map_of_mem hp))

end Xeh
