/-
Helper lemmas for C12: the sorted-association-list map under a comparator that is lawful on the keys
in play (`CmpLawfulOn P`).
-/
import XehModel.Proofs.CollOrder

namespace Xeh

def KeysIn (P : Cell → Prop) (l : Entries) : Prop := ∀ p ∈ l, P p.1
def SortedKeys (l : Entries) : Prop := l.Pairwise fun p q => Cell.cmp p.1 q.1 = .lt

/-- association-list reading of a list of entries: first entry whose key is `equal?` to the probe -/
def alGet (k : Cell) (l : Entries) : Option Cell := (l.find? fun p => Cell.beq k p.1).map (·.2)

theorem KeysIn.tail {P} {p : Cell × Cell} {t : Entries} (h : KeysIn P (p :: t)) : KeysIn P t :=
  fun q hq => h q (List.mem_cons_of_mem _ hq)
theorem KeysIn.head {P} {p : Cell × Cell} {t : Entries} (h : KeysIn P (p :: t)) : P p.1 :=
  h p (List.mem_cons_self)

theorem ord_cases (o : Ordering) : o = .lt ∨ o = .eq ∨ o = .gt := by cases o <;> simp

theorem length_insertL {k : Cell} (v : Cell) :
    ∀ l : Entries, (insertL k v l).length = if (lookupL k l).isSome then l.length else l.length + 1
  | [] => by simp [insertL, lookupL]
  | (h, hv) :: t => by
    have ih := length_insertL (k := k) v t
    simp only [insertL, lookupL]
    rcases ord_cases (Cell.cmp k h) with hc | hc | hc <;> simp only [hc] <;> simp_all
    split <;> simp

theorem mem_insertL {k v : Cell} : ∀ (l : Entries) (p : Cell × Cell), p ∈ insertL k v l → p = (k, v) ∨ p ∈ l
  | [], p, hp => by simp [insertL] at hp; exact Or.inl hp
  | (h, hv) :: t, p, hp => by
    simp only [insertL] at hp
    cases hc : Cell.cmp k h <;> rw [hc] at hp <;> simp only [] at hp
    · rcases List.mem_cons.mp hp with rfl | hp
      · exact Or.inl rfl
      · exact Or.inr hp
    · rcases List.mem_cons.mp hp with rfl | hp
      · exact Or.inl rfl
      · exact Or.inr (List.mem_cons_of_mem _ hp)
    · rcases List.mem_cons.mp hp with rfl | hp
      · exact Or.inr List.mem_cons_self
      · rcases mem_insertL t p hp with h1 | h1
        · exact Or.inl h1
        · exact Or.inr (List.mem_cons_of_mem _ h1)

theorem mem_eraseL {k : Cell} : ∀ (l : Entries) (p : Cell × Cell), p ∈ eraseL k l → p ∈ l
  | [], p, hp => by simp [eraseL] at hp
  | (h, hv) :: t, p, hp => by
    simp only [eraseL] at hp
    cases hc : Cell.cmp k h <;> rw [hc] at hp <;> simp only [] at hp
    · exact hp
    · exact List.mem_cons_of_mem _ hp
    · rcases List.mem_cons.mp hp with rfl | hp
      · exact List.mem_cons_self
      · exact List.mem_cons_of_mem _ (mem_eraseL t p hp)

theorem keysIn_eraseL {P : Cell → Prop} {k : Cell} (l : Entries) (h : KeysIn P l) : KeysIn P (eraseL k l) :=
  fun p hp => h p (mem_eraseL l p hp)

theorem sorted_eraseL {k : Cell} : ∀ l : Entries, SortedKeys l → SortedKeys (eraseL k l)
  | [], _ => by simp [eraseL, SortedKeys]
  | (h, hv) :: t, hs => by
    have hs' := List.pairwise_cons.mp hs
    simp only [eraseL]
    cases hc : Cell.cmp k h <;> simp only []
    · exact hs
    · exact hs'.2
    · refine List.pairwise_cons.mpr ⟨fun q hq => hs'.1 q (mem_eraseL t q hq), sorted_eraseL t hs'.2⟩

theorem length_eraseL {k : Cell} :
    ∀ l : Entries, (eraseL k l).length = if (lookupL k l).isSome then l.length - 1 else l.length
  | [] => by simp [eraseL, lookupL]
  | (h, hv) :: t => by
    have ih := length_eraseL (k := k) t
    have hpos : (lookupL k t).isSome → t.length ≠ 0 := by
      intro hs h0; have := List.eq_nil_of_length_eq_zero h0; subst this; simp [lookupL] at hs
    simp only [eraseL, lookupL]
    rcases ord_cases (Cell.cmp k h) with hc | hc | hc <;> simp only [hc] <;> simp_all
    split <;> simp_all
    have : t.length ≠ 0 := fun h0 => hpos (List.eq_nil_of_length_eq_zero h0)
    omega

theorem mem_of_lookupL {k v : Cell} :
    ∀ l : Entries, lookupL k l = some v → ∃ k', (k', v) ∈ l ∧ Cell.cmp k k' = .eq
  | [], h => by simp [lookupL] at h
  | (h, hv) :: t, hl => by
    simp only [lookupL] at hl
    cases hc : Cell.cmp k h <;> rw [hc] at hl <;> simp only [] at hl
    · cases hl
    · cases hl; exact ⟨h, List.mem_cons_self, hc⟩
    · obtain ⟨k', hm, he⟩ := mem_of_lookupL t hl
      exact ⟨k', List.mem_cons_of_mem _ hm, he⟩

section
variable {P : Cell → Prop} (L : CmpLawfulOn P)
include L
set_option linter.unusedSectionVars false



theorem lookupL_insertL_same {k : Cell} (v : Cell) (hk : P k) :
    ∀ l : Entries, lookupL k (insertL k v l) = some v
  | [] => by simp [insertL, lookupL, L.refl hk]
  | (h, hv) :: t => by
    simp only [insertL]
    cases hc : Cell.cmp k h <;> simp only [lookupL, L.refl hk, hc]
    exact lookupL_insertL_same v hk t

theorem lookupL_insertL_other {k k' : Cell} (v : Cell) (hk : P k) (hk' : P k')
    (hne : Cell.cmp k' k ≠ .eq) :
    ∀ l : Entries, KeysIn P l → lookupL k' (insertL k v l) = lookupL k' l
  | [], _ => by
    simp only [insertL, lookupL]
    cases hc : Cell.cmp k' k <;> simp_all
  | (h, hv) :: t, hin => by
    have hh : P h := hin.head
    simp only [insertL]
    cases hc : Cell.cmp k h
    · -- k < h
      simp only [lookupL]
      cases hc' : Cell.cmp k' k
      · simp [L.lt_trans hk' hk hh hc' hc]
      · exact absurd hc' hne
      · rfl
    · -- k ≅ h
      simp only [lookupL]
      rw [← L.cmp_congr_right hk hh hk' hc]
      cases hc' : Cell.cmp k' k <;> simp_all
    · simp only [lookupL]
      cases hc' : Cell.cmp k' h <;> simp only []
      exact lookupL_insertL_other v hk hk' hne t hin.tail

theorem insertL_idem {k : Cell} (v : Cell) (hk : P k) :
    ∀ l : Entries, insertL k v (insertL k v l) = insertL k v l
  | [] => by simp [insertL, L.refl hk]
  | (h, hv) :: t => by
    simp only [insertL]
    cases hc : Cell.cmp k h <;> simp only [insertL, L.refl hk, hc]
    rw [insertL_idem v hk t]

theorem keysIn_insertL {k : Cell} (v : Cell) (hk : P k) :
    ∀ l : Entries, KeysIn P l → KeysIn P (insertL k v l)
  | [], _ => by intro p hp; simp [insertL] at hp; subst hp; exact hk
  | (h, hv) :: t, hin => by
    simp only [insertL]
    cases hc : Cell.cmp k h <;> simp only []
    · intro p hp
      rcases List.mem_cons.mp hp with rfl | hp
      · exact hk
      · exact hin p hp
    · intro p hp
      rcases List.mem_cons.mp hp with rfl | hp
      · exact hk
      · exact hin p (List.mem_cons_of_mem _ hp)
    · intro p hp
      rcases List.mem_cons.mp hp with rfl | hp
      · exact hin.head
      · exact keysIn_insertL v hk t hin.tail p hp

theorem sorted_insertL {k : Cell} (v : Cell) (hk : P k) :
    ∀ l : Entries, KeysIn P l → SortedKeys l → SortedKeys (insertL k v l)
  | [], _, _ => by simp [insertL, SortedKeys]
  | (h, hv) :: t, hin, hs => by
    have hh : P h := hin.head
    have hs' := List.pairwise_cons.mp hs
    simp only [insertL]
    cases hc : Cell.cmp k h <;> simp only []
    · refine List.pairwise_cons.mpr ⟨?_, hs⟩
      intro q hq
      rcases List.mem_cons.mp hq with rfl | hq
      · exact hc
      · exact L.lt_trans hk hh (hin q (List.mem_cons_of_mem _ hq)) hc (hs'.1 q hq)
    · refine List.pairwise_cons.mpr ⟨?_, hs'.2⟩
      intro q hq
      exact L.lt_of_eq_of_lt hk hh (hin q (List.mem_cons_of_mem _ hq)) hc (hs'.1 q hq)
    · refine List.pairwise_cons.mpr ⟨?_, sorted_insertL v hk t hin.tail hs'.2⟩
      intro q hq
      rcases mem_insertL t q hq with rfl | hq
      · exact L.lt_of_gt hk hh hc
      · exact hs'.1 q hq

/-- a probe smaller than the head of a sorted list finds nothing -/
theorem lookupL_none_of_lt {k : Cell} (hk : P k) :
    ∀ l : Entries, KeysIn P l → (∀ q ∈ l, Cell.cmp k q.1 = .lt) → lookupL k l = none
  | [], _, _ => rfl
  | (h, hv) :: t, _, hlt => by simp [lookupL, hlt (h, hv) List.mem_cons_self]

theorem lookupL_eraseL_same {k : Cell} (hk : P k) :
    ∀ l : Entries, KeysIn P l → SortedKeys l → lookupL k (eraseL k l) = none
  | [], _, _ => rfl
  | (h, hv) :: t, hin, hs => by
    have hh : P h := hin.head
    have hs' := List.pairwise_cons.mp hs
    simp only [eraseL]
    cases hc : Cell.cmp k h <;> simp only []
    · simp [lookupL, hc]
    · exact lookupL_none_of_lt L hk t hin.tail fun q hq =>
        L.lt_of_eq_of_lt hk hh (hin q (List.mem_cons_of_mem _ hq)) hc (hs'.1 q hq)
    · simp only [lookupL, hc]
      exact lookupL_eraseL_same hk t hin.tail hs'.2

theorem lookupL_eraseL_other {k k' : Cell} (hk : P k) (hk' : P k') (hne : Cell.cmp k' k ≠ .eq) :
    ∀ l : Entries, KeysIn P l → SortedKeys l → lookupL k' (eraseL k l) = lookupL k' l
  | [], _, _ => rfl
  | (h, hv) :: t, hin, hs => by
    have hh : P h := hin.head
    have hs' := List.pairwise_cons.mp hs
    simp only [eraseL]
    cases hc : Cell.cmp k h <;> simp only []
    · -- k ≅ h: the removed entry is not the one `k'` looks for
      simp only [lookupL]
      rw [← L.cmp_congr_right hk hh hk' hc]
      cases hc' : Cell.cmp k' k
      · simp only []
        exact lookupL_none_of_lt L hk' t hin.tail fun q hq =>
          L.lt_trans hk' hh (hin q (List.mem_cons_of_mem _ hq))
            (by rw [← L.cmp_congr_right hk hh hk' hc]; exact hc') (hs'.1 q hq)
      · exact absurd hc' hne
      · rfl
    · simp only [lookupL]
      cases hc' : Cell.cmp k' h <;> simp only []
      exact lookupL_eraseL_other hk hk' hne t hin.tail hs'.2

/-- probes that are `Equal` read the same entry -/
theorem lookupL_congr {k k' : Cell} (hk : P k) (hk' : P k') (he : Cell.cmp k k' = .eq) :
    ∀ l : Entries, KeysIn P l → lookupL k l = lookupL k' l
  | [], _ => rfl
  | (h, hv) :: t, hin => by
    simp only [lookupL, L.cmp_congr_left hk hk' hin.head he]
    cases Cell.cmp k' h <;> simp only []
    exact lookupL_congr hk hk' he t hin.tail

/-- on a sorted map, `lookupL` is the association-list lookup under `equal?` -/
theorem lookupL_eq_alGet {k : Cell} (hk : P k) :
    ∀ l : Entries, KeysIn P l → SortedKeys l → lookupL k l = alGet k l
  | [], _, _ => rfl
  | (h, hv) :: t, hin, hs => by
    have hh : P h := hin.head
    have hs' := List.pairwise_cons.mp hs
    have hb := L.eq_iff_beq k h hk hh
    simp only [lookupL, alGet, List.find?_cons]
    cases hc : Cell.cmp k h
    · have : Cell.beq k h = false := by
        cases hbb : Cell.beq k h
        · rfl
        · rw [hb.mpr hbb] at hc; cases hc
      simp only [this]
      have hnone := lookupL_none_of_lt L hk t hin.tail fun q hq =>
        L.lt_trans hk hh (hin q (List.mem_cons_of_mem _ hq)) hc (hs'.1 q hq)
      rw [← hnone]
      exact lookupL_eq_alGet hk t hin.tail hs'.2
    · simp [hb.mp hc]
    · have : Cell.beq k h = false := by
        cases hbb : Cell.beq k h
        · rfl
        · rw [hb.mpr hbb] at hc; cases hc
      simp only [this]
      exact lookupL_eq_alGet hk t hin.tail hs'.2

/-- every stored entry is found under its own key -/
theorem lookupL_of_mem {k v : Cell} :
    ∀ l : Entries, KeysIn P l → SortedKeys l → (k, v) ∈ l → lookupL k l = some v
  | [], _, _, hm => by simp at hm
  | (h, hv) :: t, hin, hs, hm => by
    have hs' := List.pairwise_cons.mp hs
    rcases List.mem_cons.mp hm with heq | hm
    · cases heq; simp [lookupL, L.refl hin.head]
    · have hlt := hs'.1 (k, v) hm
      have hk : P k := hin (k, v) (List.mem_cons_of_mem _ hm)
      simp only [lookupL, L.gt_of_lt hin.head hk hlt]
      exact lookupL_of_mem t hin.tail hs'.2 hm

end

end Xeh
