/-
Helper lemmas for C12: what it means for `Cell.cmp` to be a lawful order on a set of cells, and the
proof that it is one on int cells and on string cells (tags ignored).
-/
import XehModel.Model.Collections
import XehModel.Model.Tags

namespace Xeh

/-- `Cell.cmp` restricted to the cells satisfying `P` is a lawful total preorder whose equivalence is
    the language's equality: what rpds and `slice::sort` require of `Ord`. -/
structure CmpLawfulOn (P : Cell → Prop) : Prop where
  /-- `a.cmp(b) == b.cmp(a).reverse()` -/
  oriented : ∀ a b, P a → P b → Cell.cmp a b = (Cell.cmp b a).swap
  /-- `a <= b && b <= c ⇒ a <= c` -/
  le_trans : ∀ a b c, P a → P b → P c → Cell.cmp a b ≠ .gt → Cell.cmp b c ≠ .gt → Cell.cmp a c ≠ .gt
  /-- `Equal` exactly on `equal?` values -/
  eq_iff_beq : ∀ a b, P a → P b → (Cell.cmp a b = .eq ↔ Cell.beq a b = true)

namespace CmpLawfulOn
variable {P : Cell → Prop} (L : CmpLawfulOn P)
include L

theorem refl {a} (ha : P a) : Cell.cmp a a = .eq := by
  have h := L.oriented a a ha ha
  cases hc : Cell.cmp a a <;> rw [hc] at h <;> simp_all [Ordering.swap]

theorem gt_of_lt {a b} (ha : P a) (hb : P b) (h : Cell.cmp a b = .lt) : Cell.cmp b a = .gt := by
  have := L.oriented b a hb ha; rw [h] at this; simpa [Ordering.swap] using this

theorem lt_of_gt {a b} (ha : P a) (hb : P b) (h : Cell.cmp a b = .gt) : Cell.cmp b a = .lt := by
  have := L.oriented b a hb ha; rw [h] at this; simpa [Ordering.swap] using this

theorem eq_symm {a b} (ha : P a) (hb : P b) (h : Cell.cmp a b = .eq) : Cell.cmp b a = .eq := by
  have := L.oriented b a hb ha; rw [h] at this; simpa [Ordering.swap] using this

theorem lt_trans {a b c} (ha : P a) (hb : P b) (hc : P c)
    (h1 : Cell.cmp a b = .lt) (h2 : Cell.cmp b c = .lt) : Cell.cmp a c = .lt := by
  have hle := L.le_trans a b c ha hb hc (by simp [h1]) (by simp [h2])
  cases hac : Cell.cmp a c
  · rfl
  · -- a = c, then c ≤ a ≤ b gives c ≤ b, but b < c
    exfalso
    have hca := L.eq_symm ha hc hac
    have := L.le_trans c a b hc ha hb (by simp [hca]) (by simp [h1])
    exact this (L.gt_of_lt hb hc h2)
  · exact absurd hac hle

theorem lt_of_lt_of_eq {a b c} (ha : P a) (hb : P b) (hc : P c)
    (h1 : Cell.cmp a b = .lt) (h2 : Cell.cmp b c = .eq) : Cell.cmp a c = .lt := by
  have hle := L.le_trans a b c ha hb hc (by simp [h1]) (by simp [h2])
  cases hac : Cell.cmp a c
  · rfl
  · exfalso
    -- b ≤ c ≤ a hence b ≤ a, but a < b
    have hca := L.eq_symm ha hc hac
    have := L.le_trans b c a hb hc ha (by simp [h2]) (by simp [hca])
    exact this (L.gt_of_lt ha hb h1)
  · exact absurd hac hle

theorem lt_of_eq_of_lt {a b c} (ha : P a) (hb : P b) (hc : P c)
    (h1 : Cell.cmp a b = .eq) (h2 : Cell.cmp b c = .lt) : Cell.cmp a c = .lt := by
  have hle := L.le_trans a b c ha hb hc (by simp [h1]) (by simp [h2])
  cases hac : Cell.cmp a c
  · rfl
  · exfalso
    -- c ≤ a ≤ b hence c ≤ b, but b < c
    have hca := L.eq_symm ha hc hac
    have := L.le_trans c a b hc ha hb (by simp [hca]) (by simp [h1])
    exact this (L.gt_of_lt hb hc h2)
  · exact absurd hac hle

theorem eq_trans {a b c} (ha : P a) (hb : P b) (hc : P c)
    (h1 : Cell.cmp a b = .eq) (h2 : Cell.cmp b c = .eq) : Cell.cmp a c = .eq := by
  have hle := L.le_trans a b c ha hb hc (by simp [h1]) (by simp [h2])
  have hge := L.le_trans c b a hc hb ha (by simp [L.eq_symm hb hc h2]) (by simp [L.eq_symm ha hb h1])
  cases hac : Cell.cmp a c
  · exact absurd (L.gt_of_lt ha hc hac) hge
  · rfl
  · exact absurd hac hle

theorem gt_trans {a b c} (ha : P a) (hb : P b) (hc : P c)
    (h1 : Cell.cmp a b = .gt) (h2 : Cell.cmp b c = .gt) : Cell.cmp a c = .gt :=
  L.gt_of_lt hc ha (L.lt_trans hc hb ha (L.lt_of_gt hb hc h2) (L.lt_of_gt ha hb h1))

/-- probing with an `Equal` key behaves like probing with the key itself -/
theorem cmp_congr_left {a b c} (ha : P a) (hb : P b) (hc : P c)
    (h : Cell.cmp a b = .eq) : Cell.cmp a c = Cell.cmp b c := by
  cases hbc : Cell.cmp b c
  · exact L.lt_of_eq_of_lt ha hb hc h hbc
  · exact L.eq_trans ha hb hc h hbc
  · exact L.gt_of_lt hc ha (L.lt_of_lt_of_eq hc hb ha (L.lt_of_gt hb hc hbc) (L.eq_symm ha hb h))

theorem cmp_congr_right {a b c} (ha : P a) (hb : P b) (hc : P c)
    (h : Cell.cmp a b = .eq) : Cell.cmp c a = Cell.cmp c b := by
  rw [L.oriented c a hc ha, L.oriented c b hc hb, L.cmp_congr_left ha hb hc h]

end CmpLawfulOn

/-! ### the comparable classes -/

def IsIntCell (c : Cell) : Prop := ∃ i, c.value = .int i
def IsStrCell (c : Cell) : Prop := ∃ s, c.value = .str s

theorem cmp_int {a b : Cell} {x y : Int} (ha : a.value = .int x) (hb : b.value = .int y) :
    Cell.cmp a b = compare x y := by
  simp [Cell.cmp, Cell.partialCmp, ha, hb]

theorem cmp_str {a b : Cell} {x y : List Char} (ha : a.value = .str x) (hb : b.value = .str y) :
    Cell.cmp a b = strCmp x y := by
  simp [Cell.cmp, Cell.partialCmp, ha, hb]

/-- `beq` looks through one tag level on each side, like `value()` -/
theorem beq_eq_beqVV_value (a b : Cell) (ha : a.value.tags = none) (hb : b.value.tags = none) :
    Cell.beq a b = Cell.beqVV a.value b.value := by
  cases a <;> cases b <;> simp_all [Cell.beq, Cell.beqV, Cell.value, Cell.tags]
  all_goals (rename_i v _ ; cases v <;> simp_all [Cell.beq, Cell.beqV, Cell.value, Cell.tags])

end Xeh

namespace Xeh

theorem beq_int {a b : Cell} {x y : Int} (ha : a.value = .int x) (hb : b.value = .int y) :
    Cell.beq a b = (x == y) := by
  cases a <;> cases b <;> simp_all [Cell.value, Cell.beq, Cell.beqV, Cell.beqVV]

theorem beq_str {a b : Cell} {x y : List Char} (ha : a.value = .str x) (hb : b.value = .str y) :
    Cell.beq a b = (x == y) := by
  cases a <;> cases b <;> simp_all [Cell.value, Cell.beq, Cell.beqV, Cell.beqVV]

theorem strCmp_swap : ∀ x y : List Char, strCmp x y = (strCmp y x).swap
  | [], [] => rfl
  | [], _ :: _ => rfl
  | _ :: _, [] => rfl
  | a :: as, b :: bs => by
    simp only [strCmp]
    by_cases h1 : a.toNat < b.toNat
    · have : ¬ b.toNat < a.toNat := by omega
      simp [h1, this, Ordering.swap]
    · by_cases h2 : b.toNat < a.toNat
      · simp [h1, h2, Ordering.swap]
      · simp [h1, h2, strCmp_swap as bs]

theorem strCmp_eq_iff : ∀ x y : List Char, strCmp x y = .eq ↔ x = y
  | [], [] => by simp [strCmp]
  | [], _ :: _ => by simp [strCmp]
  | _ :: _, [] => by simp [strCmp]
  | a :: as, b :: bs => by
    simp only [strCmp]
    by_cases h1 : a.toNat < b.toNat
    · have : a ≠ b := by rintro rfl; omega
      simp [h1, this]
    · by_cases h2 : b.toNat < a.toNat
      · have : a ≠ b := by rintro rfl; omega
        simp [h1, h2, this]
      · have hab : a = b := Char.ext (by
          have : a.toNat = b.toNat := by omega
          exact UInt32.toNat_inj.mp this)
        simp [h1, h2, hab, strCmp_eq_iff as bs]

theorem strCmp_le_trans : ∀ x y z : List Char, strCmp x y ≠ .gt → strCmp y z ≠ .gt → strCmp x z ≠ .gt
  | [], _, [] => by simp [strCmp]
  | [], _, _ :: _ => by simp [strCmp]
  | _ :: _, [], _ => by simp [strCmp]
  | _ :: _, _ :: _, [] => by simp [strCmp]
  | a :: as, b :: bs, c :: cs => by
    simp only [strCmp]
    intro h1 h2
    by_cases hab : a.toNat < b.toNat
    · by_cases hbc : b.toNat < c.toNat
      · have : a.toNat < c.toNat := by omega
        simp [this]
      · by_cases hcb : c.toNat < b.toNat
        · simp [hbc, hcb] at h2
        · have : a.toNat < c.toNat := by omega
          simp [this]
    · by_cases hba : b.toNat < a.toNat
      · simp [hab, hba] at h1
      · simp only [hab, hba, if_false] at h1
        by_cases hbc : b.toNat < c.toNat
        · have : a.toNat < c.toNat := by omega
          simp [this]
        · by_cases hcb : c.toNat < b.toNat
          · simp [hbc, hcb] at h2
          · simp only [hbc, hcb, if_false] at h2
            have e1 : ¬ a.toNat < c.toNat := by omega
            have e2 : ¬ c.toNat < a.toNat := by omega
            simp only [e1, e2, if_false]
            exact strCmp_le_trans as bs cs h1 h2

theorem compare_int_swap (x y : Int) : compare x y = (compare y x).swap := by
  rcases Int.lt_trichotomy x y with h | h | h
  · rw [Int.compare_eq_lt.mpr h, Int.compare_eq_gt.mpr h]; rfl
  · subst h; simp
  · rw [Int.compare_eq_gt.mpr h, Int.compare_eq_lt.mpr h]; rfl

theorem compare_int_ne_gt (x y : Int) : compare x y ≠ .gt ↔ x ≤ y := by
  rw [Ne, Int.compare_eq_gt]; omega

/-- the contract holds on int cells (tagged or not) … -/
theorem cmp_lawful_int : CmpLawfulOn IsIntCell where
  oriented := by
    rintro a b ⟨x, ha⟩ ⟨y, hb⟩
    rw [cmp_int ha hb, cmp_int hb ha, compare_int_swap]
  le_trans := by
    rintro a b c ⟨x, ha⟩ ⟨y, hb⟩ ⟨z, hc⟩
    rw [cmp_int ha hb, cmp_int hb hc, cmp_int ha hc, compare_int_ne_gt, compare_int_ne_gt, compare_int_ne_gt]
    omega
  eq_iff_beq := by
    rintro a b ⟨x, ha⟩ ⟨y, hb⟩
    rw [cmp_int ha hb, beq_int ha hb, Int.compare_eq_eq]; simp

/-- … and on string cells -/
theorem cmp_lawful_str : CmpLawfulOn IsStrCell where
  oriented := by
    rintro a b ⟨x, ha⟩ ⟨y, hb⟩
    rw [cmp_str ha hb, cmp_str hb ha, strCmp_swap]
  le_trans := by
    rintro a b c ⟨x, ha⟩ ⟨y, hb⟩ ⟨z, hc⟩
    rw [cmp_str ha hb, cmp_str hb hc, cmp_str ha hc]
    exact strCmp_le_trans x y z
  eq_iff_beq := by
    rintro a b ⟨x, ha⟩ ⟨y, hb⟩
    rw [cmp_str ha hb, beq_str ha hb, strCmp_eq_iff]; simp

end Xeh
