/-
Helper lemmas and specification functions for the sequence part of C12 (vectors, strings, stack
builders). Specification side: Python-style index normalisation.
-/
import XehModel.Proofs.Tactics
import XehModel.Model.Collections

namespace Xeh

/-! ### specification: Python indexing -/

/-- element index meant by a possibly negative index: `l[i]` -/
def pyIndex (len : Nat) (i : Int) : Option Nat :=
  if 0 ≤ i ∧ i < len then some i.toNat
  else if i < 0 ∧ -(len : Int) ≤ i then some (len + i).toNat
  else none

/-- slice bound meant by any integer: clamped into `0..len` -/
def pyNorm (len : Nat) (i : Int) : Nat :=
  if i < 0 then (max ((len : Int) + i) 0).toNat else (min i len).toNat

/-- `l[a:b]` -/
def pySlice (l : List α) (a b : Int) : List α :=
  (l.drop (pyNorm l.length a)).take (pyNorm l.length b - pyNorm l.length a)

theorem pyIndex_lt {len : Nat} {i : Int} {a : Nat} (h : pyIndex len i = some a) : a < len := by
  unfold pyIndex at h
  split at h
  · cases h; omega
  · split at h
    · cases h; omega
    · cases h

theorem pyNorm_le (len : Nat) (i : Int) : pyNorm len i ≤ len := by
  unfold pyNorm; split <;> omega

theorem pySlice_getElem? (l : List α) (a b : Int) (j : Nat) :
    (pySlice l a b)[j]? =
      if pyNorm l.length a + j < pyNorm l.length b then l[pyNorm l.length a + j]? else none := by
  unfold pySlice
  rw [List.getElem?_take]
  split
  · rename_i hj
    rw [List.getElem?_drop, if_pos (by omega)]
  · rename_i hj
    rw [if_neg (by omega)]

theorem pySlice_length (l : List α) (a b : Int) :
    (pySlice l a b).length = pyNorm l.length b - pyNorm l.length a := by
  unfold pySlice
  have := pyNorm_le l.length a; have := pyNorm_le l.length b
  rw [List.length_take, List.length_drop]; omega

/-! ### the implementation's index functions meet the specification for every integer -/

theorem relativeIndex_eq_pyIndex (len : Nat) (i : Int) : relativeIndex len i = pyIndex len i := by
  unfold relativeIndex pyIndex
  by_cases h0 : i < 0
  · simp only [h0, if_true]
    by_cases h1 : i.natAbs > len
    · have : ¬ (-(len : Int) ≤ i) := by omega
      have h2 : ¬ (0 ≤ i ∧ i < len) := by omega
      simp [h1, this, h2]
    · have : -(len : Int) ≤ i := by omega
      have h2 : ¬ (0 ≤ i ∧ i < len) := by omega
      simp only [h1, this, h2, if_false, if_true, and_self, true_and]
      congr 1; omega
  · simp only [h0, if_false, false_and]
    by_cases h1 : i.toNat < len
    · have : 0 ≤ i ∧ i < len := by omega
      simp [h1, this]
    · have : ¬ (0 ≤ i ∧ i < len) := by omega
      simp [h1, this]

/-- clamping to the isize range does not change where a slice bound lands, because a vector is never
    longer than `isize::MAX` -/
theorem slicingIndex_clamp (len : Nat) (i : Int) (hlen : (len : Int) ≤ isizeMax) :
    slicingIndex (clampIsize i) len = pyNorm len i := by
  unfold slicingIndex clampIsize pyNorm isizeMin isizeMax at *
  by_cases h0 : i < 0
  · have hc : min (max i (-(2:Int)^63)) (2^63 - 1) < 0 := by omega
    simp only [hc, h0, if_true]
    omega
  · have hc : ¬ min (max i (-(2:Int)^63)) (2^63 - 1) < 0 := by omega
    simp only [hc, h0, if_false]
    omega

theorem sliceList_eq_pySlice (l : List α) (a b : Int) (hlen : (l.length : Int) ≤ isizeMax) :
    sliceList l (clampIsize a) (clampIsize b) = pySlice l a b := by
  unfold sliceList pySlice
  simp only [slicingIndex_clamp _ _ hlen]
  congr 1
  omega

/-! ### stack builders -/

namespace Prog

theorem runStack_pushAll (l : List Cell) (k : Prog) (h : Nat) (s : List Cell) :
    runStack (pushAll l k) h s = runStack k h (l.reverse ++ s) := by
  induction l generalizing s with
  | nil => rfl
  | cons c cs ih => simp [pushAll, runStack, ih]

theorem runStack_popN (xs : List Cell) (k : Prog) (h : Nat) (s : List Cell) (hh : h ≤ s.length) :
    runStack (popN xs.length k) h (xs ++ s) = runStack k h s := by
  induction xs with
  | nil => rfl
  | cons c cs ih =>
    simp only [List.length_cons, popN, List.cons_append]
    rw [runStack_pop_cons _ _ _ _ (by simp; omega)]
    exact ih

end Prog

/-! ### join on strings -/

theorem flatten_intersperse_nil : ∀ ss : List (List α), (List.intersperse [] ss).flatten = ss.flatten
  | [] => rfl
  | [a] => rfl
  | a :: b :: t => by
    have ih := flatten_intersperse_nil (b :: t)
    simp only [List.intersperse, List.flatten_cons, List.nil_append] at ih ⊢
    rw [ih]


def strCells (ss : List (List Char)) : CellList := CellList.ofList (ss.map Cell.str)

theorem joinCells_cons_cons (sep : List Char) (x y : Cell) (t : CellList) (a b : List Char)
    (h1 : joinPiece sep x = some a) (h2 : joinCells sep (.cons y t) = some b) :
    joinCells sep (.cons x (.cons y t)) = some (a ++ sep ++ b) := by
  conv => lhs; unfold joinCells
  simp only [h1, h2]

theorem joinCells_strs (sep : List Char) : ∀ ss : List (List Char),
    joinCells sep (strCells ss) = some (sep.intercalate ss)
  | [] => by simp [strCells, CellList.ofList, joinCells, List.intercalate]
  | [a] => by simp [strCells, CellList.ofList, joinCells, joinPiece, List.intercalate]
  | a :: b :: t => by
    have ih := joinCells_strs sep (b :: t)
    simp only [strCells, List.map_cons, CellList.ofList] at ih ⊢
    rw [joinCells_cons_cons sep _ _ _ a _ (by simp [joinPiece]) ih]
    simp [List.intercalate, List.intersperse]

end Xeh
