/- Helper lemmas for C12 `sort`: the stable insertion sort is a permutation, and ascending when `cmp` is lawful. -/
import XehModel.Proofs.CollOrder

namespace Xeh

/-- ascending: no element is greater than a later one -/
def Ascending (l : List Cell) : Prop := l.Pairwise fun a b => Cell.cmp a b ≠ .gt

theorem insertSorted_perm (x : Cell) : ∀ l : List Cell, (insertSorted x l).Perm (x :: l)
  | [] => List.Perm.refl _
  | y :: t => by
    simp only [insertSorted]
    split
    · exact ((insertSorted_perm x t).cons y).trans (List.Perm.swap x y t)
    · exact List.Perm.refl _

theorem sortL_perm : ∀ l : List Cell, (sortL l).Perm l
  | [] => List.Perm.refl _
  | x :: t => (insertSorted_perm x (sortL t)).trans ((sortL_perm t).cons x)

theorem insertSorted_ascending {P : Cell → Prop} (L : CmpLawfulOn P) (x : Cell) (hx : P x) :
    ∀ l : List Cell, (∀ y ∈ l, P y) → Ascending l → Ascending (insertSorted x l)
  | [], _, _ => by simp [insertSorted, Ascending]
  | y :: t, hall, hs => by
    have hy : P y := hall y List.mem_cons_self
    have hs' := List.pairwise_cons.mp hs
    simp only [insertSorted]
    split
    · rename_i hgt
      have hgt : Cell.cmp x y = .gt := by simpa using hgt
      refine List.pairwise_cons.mpr ⟨?_, insertSorted_ascending L x hx t (fun z hz => hall z (List.mem_cons_of_mem _ hz)) hs'.2⟩
      intro z hz
      rcases List.mem_cons.mp ((insertSorted_perm x t).mem_iff.mp hz) with rfl | hz
      · rw [L.lt_of_gt hx hy hgt]; simp
      · exact hs'.1 z hz
    · rename_i hle
      have hle : Cell.cmp x y ≠ .gt := by simpa using hle
      refine List.pairwise_cons.mpr ⟨?_, hs⟩
      intro z hz
      rcases List.mem_cons.mp hz with rfl | hz
      · exact hle
      · exact L.le_trans x y z hx hy (hall z (List.mem_cons_of_mem _ hz)) hle (hs'.1 z hz)

theorem sortL_ascending {P : Cell → Prop} (L : CmpLawfulOn P) :
    ∀ l : List Cell, (∀ y ∈ l, P y) → Ascending (sortL l)
  | [], _ => by simp [sortL, Ascending]
  | x :: t, hall => by
    simp only [sortL]
    refine insertSorted_ascending L x (hall x List.mem_cons_self) _ ?_ (sortL_ascending L t fun z hz => hall z (List.mem_cons_of_mem _ hz))
    intro z hz
    exact hall z (List.mem_cons_of_mem _ ((sortL_perm t).mem_iff.mp hz))

end Xeh
