/-
C17 helper: the debug map stays parallel to the code through every compiler step
(`code_emit` pushes to both, backpatching rewrites code in place, nothing else touches either).
-/
import XehModel.Model.Compile

set_option linter.unusedSimpArgs false

namespace Xeh.Compile
open CState

/-- debug map and code have the same length -/
def Aligned (s : CState) : Prop := s.dmap.length = s.code.length

theorem bpj (s s' : CState) (i : Nat) (r : Int) (e : s.backpatchJump i r = some s') :
    s'.dmap.length = s.dmap.length ∧ s'.code.length = s.code.length := by
  unfold backpatchJump at e
  split at e <;> first | (cases e; simp) | cases e

theorem popf (s s' : CState) (f : Flow) (e : s.popFlow = some (f, s')) :
    s'.dmap = s.dmap ∧ s'.code = s.code := by
  unfold popFlow at e
  split at e
  · cases e; exact ⟨rfl, rfl⟩
  · cases e

theorem bpj_aligned {s s' : CState} {i : Nat} {r : Int} (h : Aligned s) (e : s.backpatchJump i r = some s') :
    Aligned s' := by
  have := bpj s s' i r e; simp [Aligned] at *; omega

theorem popf_aligned {s s' : CState} {f : Flow} (h : Aligned s) (e : s.popFlow = some (f, s')) : Aligned s' := by
  have := popf s s' f e; simp [Aligned] at *; rw [this.1, this.2]; exact h

theorem emit_aligned {s : CState} (op : Op) (h : Aligned s) : Aligned (s.emit op) := by
  simp [Aligned, emit] at *; exact h

theorem flows_aligned {s : CState} (fl : List Flow) (h : Aligned s) : Aligned { s with flows := fl } := h
theorem pushFlow_aligned {s : CState} (f : Flow) (h : Aligned s) : Aligned (s.pushFlow f) := h
theorem backpatch_aligned {s : CState} (i : Nat) (op : Op) (h : Aligned s) : Aligned (s.backpatch i op) := by
  simp [Aligned, backpatch] at *; exact h
theorem emitNative_aligned {s : CState} (n : String) (h : Aligned s) : Aligned (emitNative s n) := emit_aligned _ h

theorem endcaseLoop_aligned (fuel : Nat) : ∀ (s s' : CState) (o : Nat), Aligned s →
    endcaseLoop fuel s o = .ok s' → Aligned s' := by
  induction fuel with
  | zero => intro s s' o _ e; simp [endcaseLoop] at e
  | succ n ih =>
    intro s s' o h e
    simp only [endcaseLoop] at e
    split at e
    · split at e
      · rename_i s1 hb
        exact ih s1 s' o (bpj_aligned (flows_aligned _ h) hb) e
      · cases e
    · cases e; exact flows_aligned _ h
    · cases e

theorem repeatLoop_aligned (fuel : Nat) : ∀ (s s' : CState), Aligned s → repeatLoop fuel s = .ok s' → Aligned s' := by
  induction fuel with
  | zero => intro s s' _ e; simp [repeatLoop] at e
  | succ n ih =>
    intro s s' h e
    simp only [repeatLoop] at e
    split at e
    · rename_i org s1 hp
      split at e
      · rename_i s2 hb
        exact ih s2 s' (bpj_aligned (popf_aligned h hp) hb) e
      · cases e
    · rename_i b s1 hp
      cases e; exact emit_aligned _ (popf_aligned h hp)
    · rename_i c s1 hp
      split at e
      · rename_i b s2 hp2
        split at e
        · rename_i s3 hb
          cases e; exact emit_aligned _ (bpj_aligned (popf_aligned (popf_aligned h hp) hp2) hb)
        · cases e
      · cases e
      · cases e
    · cases e
    · cases e

theorem loopLoop_aligned (fuel : Nat) : ∀ (s s' : CState) (a b : Nat), Aligned s →
    loopLoop fuel s a b = .ok s' → Aligned s' := by
  induction fuel with
  | zero => intro s s' a b _ e; simp [loopLoop] at e
  | succ n ih =>
    intro s s' a b h e
    simp only [loopLoop] at e
    split at e
    · rename_i org s1 hp
      exact ih _ s' a b (backpatch_aligned _ _ (popf_aligned h hp)) e
    · rename_i fo bo s1 hp
      cases e; exact backpatch_aligned _ _ (backpatch_aligned _ _ (popf_aligned h hp))
    · cases e
    · cases e

end Xeh.Compile

namespace Xeh.Compile
open CState

/-- peel one constructor off an `Aligned` goal -/
macro "al_step" : tactic => `(tactic|
  first
  | assumption
  | (refine bpj_aligned ?_ (by assumption))
  | (refine popf_aligned ?_ (by assumption))
  | apply emit_aligned
  | apply emitNative_aligned
  | apply pushFlow_aligned
  | apply backpatch_aligned
  | apply flows_aligned)

macro "al_solve" : tactic => `(tactic| (repeat al_step))

theorem immediate_aligned (s s' : CState) (w : String) (h : Aligned s) (e : immediate s w = .ok s') : Aligned s' := by
  unfold immediate at e
  split at e
  all_goals (try dsimp only at e)
  all_goals (repeat' (split at e))
  all_goals (first | (cases e; done) | skip)
  all_goals (try (first
    | exact endcaseLoop_aligned _ _ _ _ h e
    | exact repeatLoop_aligned _ _ _ h e
    | exact loopLoop_aligned _ _ _ _ _ (emit_aligned _ h) e))
  all_goals (try (cases e; al_solve; done))

theorem buildLocal_aligned (s s' : CState) (n : String) (h : Aligned s) (e : buildLocal s n = .ok s') : Aligned s' := by
  unfold buildLocal at e
  split at e
  · cases e; al_solve
  · cases e

theorem buildGlobal_aligned (s s' : CState) (n : String) (h : Aligned s) (e : buildGlobal s n = .ok s') : Aligned s' := by
  unfold buildGlobal at e
  repeat' (split at e)
  all_goals (first | (cases e; done) | skip)
  all_goals (cases e; apply emit_aligned; exact h)

theorem withName_aligned (s s' : CState) (w n : String) (h : Aligned s) (e : withName s w n = .ok s') : Aligned s' := by
  unfold withName at e
  split at e
  · cases e
    have := emit_aligned (.jump 0) h
    simp [Aligned, pushFlow, emit] at *; omega
  · exact buildLocal_aligned _ _ _ h e
  · exact buildGlobal_aligned _ _ _ h e
  · split at e
    · cases e
    · cases e; exact emit_aligned _ h
    · cases e
  · cases e; exact emit_aligned _ h
  · cases e

theorem late_aligned (s s' : CState) (n : String) (t : Nat) (h : Aligned s) (e : late s n t = .ok s') : Aligned s' := by
  unfold late at e
  dsimp only at e
  split at e
  · rename_i s1 hb
    cases e
    have := bpj _ _ _ _ hb
    simp [Aligned, emit] at *; omega
  · cases e

theorem buildWord_aligned (s s' : CState) (w : String) (h : Aligned s) (e : buildWord s w = .ok s') : Aligned s' := by
  unfold buildWord at e
  split at e
  · cases e
  · cases e; exact emit_aligned _ h
  · cases e; exact emit_aligned _ h
  · cases e
  · exact immediate_aligned _ _ _ h e
  · cases e; exact emit_aligned _ h
  · cases e; exact emit_aligned _ h

end Xeh.Compile

namespace Xeh.Compile
open CState

theorem lastTok_aligned {s : CState} (t : Nat) (h : Aligned s) : Aligned { s with lastTok := t } := h

theorem compileToks_aligned (toks : List Tok) : ∀ (idx : Nat) (s s' : CState), Aligned s →
    compileToks toks idx s = .ok s' → Aligned s' := by
  -- strong induction on the number of tokens left (a name-taking word consumes two)
  induction hn : toks.length using Nat.strongRecOn generalizing toks with
  | _ n ih =>
    intro idx s s' h e
    match toks, hn with
    | [], _ =>
      simp only [compileToks] at e
      split at e
      · cases e; exact h
      · cases e
    | .lit c :: rest, hn =>
      simp only [compileToks] at e
      exact ih rest.length (by simp at hn; omega) rest rfl _ _ _ (emit_aligned _ (lastTok_aligned _ h)) e
    | .word w :: rest, hn =>
      simp only [compileToks] at e
      have hs : Aligned { s with lastTok := idx } := lastTok_aligned _ h
      split at e
      · exact ih rest.length (by simp at hn; omega) rest rfl _ _ _ (emit_aligned _ hs) e
      · split at e
        · split at e
          · split at e
            · rename_i name rest'
              split at e
              · rename_i s1 hr
                have h1 : Aligned s1 := by
                  split at hr
                  · exact late_aligned _ _ _ _ hs hr
                  · exact withName_aligned _ _ _ _ (lastTok_aligned _ hs) hr
                exact ih rest'.length (by simp at hn; omega) rest' rfl _ _ _ h1 e
              · cases e
              · cases e
            · split at e <;> cases e
          · split at e
            · rename_i s1 hr
              exact ih rest.length (by simp at hn; omega) rest rfl _ _ _ (immediate_aligned _ _ _ hs hr) e
            · cases e
            · cases e
        · split at e
          · rename_i s1 hr
            exact ih rest.length (by simp at hn; omega) rest rfl _ _ _ (buildWord_aligned _ _ _ hs hr) e
          · cases e
          · cases e

end Xeh.Compile
