/-
C17, build-time failures: which token a compiling word blames.  Every helper of the flow-stack compiler (`immediate`,
`withName`, `late`, `buildWord`, the loops that close `endcase` / `repeat` / `loop`) leaves the current-token marker
`lastTok` alone, and every error it raises is raised through `cerr` on a state that still carries that marker: the
token blamed for a failing compile step is the token being compiled.
(Generated from the case analysis of Proofs/CompileHeap.lean: same splits, a different invariant.)
-/
import XehModel.Model.Compile

namespace Xeh.Compile.Blame
open Xeh Xeh.Compile Xeh.Compile.CState

/-- the current-token marker is untouched -/
def Same4 (s s' : CState) : Prop := s'.lastTok = s.lastTok

abbrev HL := Same4

/-- a helper started in `s`: on success the marker is as before; an error blames the marker's token and the state it
    hands back still carries the marker -/
def HR (s : CState) : CRes CState → Prop
  | .ok s' => Same4 s s'
  | .err e s' => Same4 s s' ∧ e.tok = s.lastTok
  | .unsupported _ => True

theorem Same4.rfl' {s : CState} : Same4 s s := rfl
theorem Same4.trans {a b c : CState} (h1 : Same4 a b) (h2 : Same4 b c) : Same4 a c := by
  unfold Same4 at *; rw [h2, h1]
theorem HL.refl (s : CState) : HL s s := rfl
theorem hl_same4 {s s' : CState} (h : Same4 s s') : HL s s' := h

theorem hr_mono {a b : CState} (hab : HL a b) {r : CRes CState} (h : HR b r) : HR a r := by
  cases r with
  | ok c => exact hab.trans h
  | err e c => exact ⟨hab.trans h.1, h.2.trans hab⟩
  | unsupported u => trivial

theorem bpj_same {s s' : CState} {i : Nat} {r : Int} (e : s.backpatchJump i r = some s') : Same4 s s' := by
  unfold backpatchJump at e
  split at e <;> first | (cases e; rfl) | cases e

theorem popf_same {s s' : CState} {f : Flow} (e : s.popFlow = some (f, s')) : Same4 s s' := by
  unfold popFlow at e
  split at e <;> first | (cases e; rfl) | cases e

/-- record updates that leave the marker alone -/
theorem same4_of {s s' : CState} (h1 : s'.lastTok = s.lastTok := by rfl) : Same4 s s' := h1

/-- close a branch: on the ok side the state relation, on the error side also "the error was raised through `cerr`
    on a state that still carries the marker" -/
local macro "bl_close " t:term : tactic => `(tactic| first
  | exact $t
  | exact ⟨$t, Eq.trans rfl $t⟩
  | exact ⟨$t, $t⟩)
local macro "bl_refl" : tactic => `(tactic| first | exact rfl | exact ⟨rfl, rfl⟩)

theorem endcaseLoop_hr (fuel : Nat) : ∀ (s : CState) (o : Nat), HR s (endcaseLoop fuel s o) := by
  induction fuel with
  | zero => intro s o; simp [endcaseLoop, HR]
  | succ n ih =>
    intro s o
    simp only [endcaseLoop]
    split
    · split
      · rename_i s' hb
        exact hr_mono (hl_same4 (Same4.trans same4_of (bpj_same hb))) (ih s' o)
      · trivial
    · bl_close same4_of
    · bl_refl

theorem repeatLoop_hr (fuel : Nat) : ∀ (s : CState), HR s (repeatLoop fuel s) := by
  induction fuel with
  | zero => intro s; simp [repeatLoop, HR]
  | succ n ih =>
    intro s
    simp only [repeatLoop]
    split
    · rename_i org s1 hp
      have a1 := popf_same hp
      split
      · rename_i s2 hb
        exact hr_mono (hl_same4 (a1.trans (bpj_same hb))) (ih s2)
      · trivial
    · rename_i b s1 hp
      bl_close ((popf_same hp).trans same4_of)
    · rename_i c s1 hp
      have a1 := popf_same hp
      split
      · rename_i b s2 hp2
        have a2 := popf_same hp2
        split
        · rename_i s3 hb
          bl_close ((a1.trans (a2.trans (bpj_same hb))).trans same4_of)
        · trivial
      · rename_i s2 hp2
        bl_close (a1.trans (popf_same hp2))
      · bl_close a1
    · bl_close (popf_same (by assumption))
    · bl_refl

theorem loopLoop_hr (fuel : Nat) : ∀ (s : CState) (a b : Nat), HR s (loopLoop fuel s a b) := by
  induction fuel with
  | zero => intro s a b; simp [loopLoop, HR]
  | succ n ih =>
    intro s a b
    simp only [loopLoop]
    split
    · rename_i org s1 hp
      exact hr_mono (hl_same4 ((popf_same hp).trans same4_of) : HL s (s1.backpatch org _)) (ih _ a b)
    · rename_i f bo s1 hp
      bl_close ((popf_same hp).trans same4_of)
    · bl_close (popf_same (by assumption))
    · bl_refl

/-- close an arm of a compiling word: the result was obtained by emitting, pushing / popping flows and backpatching -/
local macro "hr_close" : tactic => `(tactic| first
  | bl_close same4_of
  | trivial
  | (have h1 := popf_same ‹CState.popFlow _ = some _›
     have h2 := bpj_same ‹CState.backpatchJump _ _ _ = some _›
     bl_close ((h1.trans same4_of).trans h2))
  | (have h1 := bpj_same ‹CState.backpatchJump _ _ _ = some _›; bl_close (Same4.trans same4_of h1))
  | (have h1 := bpj_same ‹CState.backpatchJump _ _ _ = some _›; bl_close ((Same4.trans same4_of h1).trans same4_of))
  | (have h1 := popf_same ‹CState.popFlow _ = some _›; bl_close (h1.trans same4_of)))
theorem immediate_hr (s : CState) (w : String) : HR s (immediate s w) := by
  unfold immediate
  split
  case h_7 => exact endcaseLoop_hr _ _ _
  case h_11 => exact repeatLoop_hr _ _
  case h_22 => exact hr_mono (hl_same4 same4_of : HL s (s.emit (.loopOp 0))) (loopLoop_hr _ _ _ _)
  all_goals ((try dsimp only) <;> (repeat' split) <;> (try dsimp only) <;> (repeat' split) <;> hr_close)

theorem buildLocal_hr (s : CState) (n : String) : HR s (buildLocal s n) := by
  unfold buildLocal
  split <;> hr_close

theorem buildGlobal_hr (s : CState) (n : String) : HR s (buildGlobal s n) := by
  unfold buildGlobal
  split
  · split
    · bl_refl
    · split
      · split
        · bl_refl
        · bl_close (same4_of : Same4 s _)
      · bl_close (same4_of : Same4 s _)
  · bl_refl

theorem withName_hr (s : CState) (w n : String) : HR s (withName s w n) := by
  unfold withName
  split
  · bl_close same4_of
  · exact buildLocal_hr s n
  · exact buildGlobal_hr s n
  · split <;> hr_close
  · bl_close same4_of
  · trivial

/-- `late` never fails (it can only be outside the model) -/
theorem late_no_err (s : CState) (n : String) (t : Nat) (e : CErr) (sp : CState) : late s n t ≠ .err e sp := by
  unfold late
  simp only
  split <;> simp

theorem buildWord_hr (s : CState) (w : String) : HR s (buildWord s w) := by
  unfold buildWord
  split
  · bl_refl
  · bl_close same4_of
  · bl_close same4_of
  · trivial
  · exact immediate_hr s _
  · bl_close same4_of
  · bl_close same4_of
/-! ### the token list level -/

/-- the blamed token is the end of the input or a *word* token of this source (`idx` = index of its first token) -/
def Blames (toks : List Tok) (idx : Nat) (e : CErr) : Prop :=
  e.tok = idx + toks.length ∨ (idx ≤ e.tok ∧ ∃ w, toks[e.tok - idx]? = some (.word w))

theorem Blames.cons {t : Tok} {toks : List Tok} {idx : Nat} {e : CErr} (h : Blames toks (idx + 1) e) :
    Blames (t :: toks) idx e := by
  rcases h with h | ⟨h1, w, h2⟩
  · left; simp only [List.length_cons]; omega
  · right
    refine ⟨by omega, w, ?_⟩
    have : e.tok - idx = (e.tok - (idx + 1)) + 1 := by omega
    rw [this, List.getElem?_cons_succ]; exact h2

theorem Blames.cons2 {t u : Tok} {toks : List Tok} {idx : Nat} {e : CErr} (h : Blames toks (idx + 2) e) :
    Blames (t :: u :: toks) idx e :=
  Blames.cons (Blames.cons h)

theorem blames_head {w : String} {rest : List Tok} {idx : Nat} {e : CErr} (h : e.tok = idx) :
    Blames (.word w :: rest) idx e :=
  .inr ⟨by omega, w, by rw [h]; simp⟩

theorem blames_second {t : Tok} {name : String} {rest : List Tok} {idx : Nat} {e : CErr} (h : e.tok = idx + 1) :
    Blames (t :: .word name :: rest) idx e :=
  .inr ⟨by omega, name, by rw [h]; simp⟩

/-- **whatever fails while a source is compiled blames a word of that source, or its end** — never a literal, never a
    token of another source, never a position outside the text; and more precisely the word being compiled when the
    failure happened (the name behind `:` `var` `local` `!` `defined` when the failure is about that name) -/
theorem compileToks_blames (toks : List Tok) (idx : Nat) (s : CState) (e : CErr) (sp : CState)
    (h : compileToks toks idx s = .err e sp) : Blames toks idx e := by
  fun_induction compileToks toks idx s
  case case1 => cases h
  case case2 =>
    simp only [cerr, CRes.err.injEq] at h
    left; rw [← h.1]; simp
  case case3 ih => exact (ih h).cons
  case case4 ih => exact (ih h).cons
  case case5 ih => exact (ih h).cons2
  case case6 =>
    rename_i w idx s0 s1 _ n _ _ name rest' r e' sp' hr
    simp only [CRes.err.injEq] at h
    obtain ⟨rfl, rfl⟩ := h
    by_cases hl : (n == "late") = true
    · have : r = late s1 name (idx + 1) := by simp only [r, hl, if_true]
      rw [this] at hr
      exact absurd hr (late_no_err _ _ _ _ _)
    · have : r = withName { s1 with lastTok := idx + 1 } n name := by simp only [r, hl]; rfl
      rw [this] at hr
      have := withName_hr { s1 with lastTok := idx + 1 } n name
      rw [hr] at this
      exact blames_second this.2
  case case7 => cases h
  case case8 =>
    simp only [cerr, CRes.err.injEq] at h
    exact blames_head (by rw [← h.1])
  case case9 =>
    simp only [cerr, CRes.err.injEq] at h
    exact blames_head (by rw [← h.1])
  case case10 ih => exact (ih h).cons
  case case11 =>
    rename_i s0 s1 _ n _ _ e' sp' hr
    simp only [CRes.err.injEq] at h
    obtain ⟨rfl, rfl⟩ := h
    have := immediate_hr s1 n
    rw [hr] at this
    exact blames_head this.2
  case case12 => cases h
  case case13 ih => exact (ih h).cons
  case case14 =>
    rename_i w _ _ s0 s1 _ e' sp' hr _
    simp only [CRes.err.injEq] at h
    obtain ⟨rfl, rfl⟩ := h
    have := buildWord_hr s1 w
    rw [hr] at this
    exact blames_head this.2
  case case15 => cases h

/-- an unknown word is blamed on itself, the moment the compiler reaches it (any state, any position `idx`) -/
theorem unknown_word_blames_itself (w : String) (rest : List Tok) (idx : Nat) (s : CState)
    (hloc : ((CState.topFun s.flows).bind fun ff => CState.rposition w ff.locals) = none)
    (hdict : s.dict.lookup w = none) :
    compileToks (.word w :: rest) idx s = .err ⟨.unknownWord w.toList, idx⟩ { s with lastTok := idx } := by
  rw [compileToks]
  simp only [hloc, hdict, buildWord, cerr]

/-- a structure still open when the text ends is blamed on the end of the text (`idx` = the number of tokens before it) -/
theorem open_structure_blames_the_end (idx : Nat) (s : CState) (f : Flow) (fs : List Flow) (hf : s.flows = f :: fs) :
    compileToks [] idx s = .err ⟨flowError f, idx⟩ { s with lastTok := idx } := by
  rw [compileToks]
  simp only [hf, cerr]

end Xeh.Compile.Blame
