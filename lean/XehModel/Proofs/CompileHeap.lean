/-
C14, heap limit at compile time: of all compiling words only `var` allocates, and it refuses beyond the limit; every
other word leaves the number of cells and the limit alone.
-/
import XehModel.Model.Compile

namespace Xeh.Compile
open Xeh Xeh.Compile.CState

/-- the limit is untouched and the number of cells stays within `max H (before)` -/
def HL (s s' : CState) : Prop :=
  s'.heapLimit = s.heapLimit ∧ s.heapLen ≤ s'.heapLen ∧ (∀ H, s.heapLimit = some H → s'.heapLen ≤ max H s.heapLen) ∧
  s'.hiddenFlows = s.hiddenFlows ∧ s'.inMeta = s.inMeta

def HR (s : CState) : CRes CState → Prop
  | .ok s' => HL s s'
  | .err _ s' => HL s s'
  | .unsupported _ => True

theorem HL.refl (s : CState) : HL s s := ⟨rfl, Nat.le_refl _, fun H _ => by omega, rfl, rfl⟩

theorem HL.trans {a b c : CState} (h1 : HL a b) (h2 : HL b c) : HL a c :=
  ⟨h2.1.trans h1.1, Nat.le_trans h1.2.1 h2.2.1, fun H hH => by
    have x := h1.2.2.1 H hH
    have y := h2.2.2.1 H (by rw [h1.1]; exact hH)
    omega, h2.2.2.2.1.trans h1.2.2.2.1, h2.2.2.2.2.trans h1.2.2.2.2⟩

/-- the four fields no compiling word but `var` touches -/
def Same4 (s s' : CState) : Prop :=
  s'.heapLimit = s.heapLimit ∧ s'.heapLen = s.heapLen ∧ s'.hiddenFlows = s.hiddenFlows ∧ s'.inMeta = s.inMeta

theorem Same4.rfl' {s : CState} : Same4 s s := ⟨rfl, rfl, rfl, rfl⟩
theorem Same4.trans {a b c : CState} (h1 : Same4 a b) (h2 : Same4 b c) : Same4 a c :=
  ⟨h2.1.trans h1.1, h2.2.1.trans h1.2.1, h2.2.2.1.trans h1.2.2.1, h2.2.2.2.trans h1.2.2.2⟩

/-- a state that differs from `s` in none of the four fields -/
theorem hl_same4 {s s' : CState} (h : Same4 s s') : HL s s' :=
  ⟨h.1, by have := h.2.1; omega, fun H _ => by have := h.2.1; omega, h.2.2.1, h.2.2.2⟩

theorem hl_same {s s' : CState} (h1 : s'.heapLimit = s.heapLimit) (h2 : s'.heapLen = s.heapLen)
    (h3 : s'.hiddenFlows = s.hiddenFlows) (h4 : s'.inMeta = s.inMeta) : HL s s' := hl_same4 ⟨h1, h2, h3, h4⟩

theorem hr_mono {a b : CState} (hab : HL a b) {r : CRes CState} (h : HR b r) : HR a r := by
  cases r with
  | ok c => exact hab.trans h
  | err e c => exact hab.trans h
  | unsupported u => trivial

theorem bpj_same {s s' : CState} {i : Nat} {r : Int} (e : s.backpatchJump i r = some s') : Same4 s s' := by
  unfold backpatchJump at e
  split at e <;> first | (cases e; exact ⟨rfl, rfl, rfl, rfl⟩) | cases e

theorem popf_same {s s' : CState} {f : Flow} (e : s.popFlow = some (f, s')) : Same4 s s' := by
  unfold popFlow at e
  split at e <;> first | (cases e; exact ⟨rfl, rfl, rfl, rfl⟩) | cases e

/-- record updates that leave the four fields alone -/
theorem same4_of {s s' : CState} (h1 : s'.heapLimit = s.heapLimit := by rfl) (h2 : s'.heapLen = s.heapLen := by rfl)
    (h3 : s'.hiddenFlows = s.hiddenFlows := by rfl) (h4 : s'.inMeta = s.inMeta := by rfl) : Same4 s s' := ⟨h1, h2, h3, h4⟩

theorem endcaseLoop_hr (fuel : Nat) : ∀ (s : CState) (o : Nat), HR s (endcaseLoop fuel s o) := by
  induction fuel with
  | zero => intro s o; simp [endcaseLoop, HR]
  | succ n ih =>
    intro s o
    simp only [endcaseLoop]
    split
    · split
      · rename_i s' hb
        exact hr_mono (hl_same4 (Same4.trans same4_of (bpj_same hb))) (ih s' o)
      · trivial
    · exact hl_same4 same4_of
    · exact HL.refl _

theorem repeatLoop_hr (fuel : Nat) : ∀ (s : CState), HR s (repeatLoop fuel s) := by
  induction fuel with
  | zero => intro s; simp [repeatLoop, HR]
  | succ n ih =>
    intro s
    simp only [repeatLoop]
    split
    · rename_i org s1 hp
      have a1 := popf_same hp
      split
      · rename_i s2 hb
        exact hr_mono (hl_same4 (a1.trans (bpj_same hb))) (ih s2)
      · trivial
    · rename_i b s1 hp
      exact hl_same4 ((popf_same hp).trans same4_of)
    · rename_i c s1 hp
      have a1 := popf_same hp
      split
      · rename_i b s2 hp2
        have a2 := popf_same hp2
        split
        · rename_i s3 hb
          exact hl_same4 ((a1.trans (a2.trans (bpj_same hb))).trans same4_of)
        · trivial
      · rename_i s2 hp2
        exact hl_same4 (a1.trans (popf_same hp2))
      · exact hl_same4 a1
    · exact hl_same4 (popf_same (by assumption))
    · exact HL.refl _

theorem loopLoop_hr (fuel : Nat) : ∀ (s : CState) (a b : Nat), HR s (loopLoop fuel s a b) := by
  induction fuel with
  | zero => intro s a b; simp [loopLoop, HR]
  | succ n ih =>
    intro s a b
    simp only [loopLoop]
    split
    · rename_i org s1 hp
      exact hr_mono (hl_same4 ((popf_same hp).trans same4_of) : HL s (s1.backpatch org _)) (ih _ a b)
    · rename_i f bo s1 hp
      exact hl_same4 ((popf_same hp).trans same4_of)
    · exact hl_same4 (popf_same (by assumption))
    · exact HL.refl _

/-- close an arm of a compiling word: the result was obtained by emitting, pushing / popping flows and backpatching -/
local macro "hr_close" : tactic => `(tactic| first
  | exact hl_same4 same4_of
  | trivial
  | (have h1 := popf_same ‹CState.popFlow _ = some _›
     have h2 := bpj_same ‹CState.backpatchJump _ _ _ = some _›
     exact hl_same4 ((h1.trans same4_of).trans h2))
  | (have h1 := bpj_same ‹CState.backpatchJump _ _ _ = some _›; exact hl_same4 (Same4.trans same4_of h1))
  | (have h1 := bpj_same ‹CState.backpatchJump _ _ _ = some _›; exact hl_same4 ((Same4.trans same4_of h1).trans same4_of))
  | (have h1 := popf_same ‹CState.popFlow _ = some _›; exact hl_same4 (h1.trans same4_of)))

theorem immediate_hr (s : CState) (w : String) : HR s (immediate s w) := by
  unfold immediate
  split
  case h_7 => exact endcaseLoop_hr _ _ _
  case h_11 => exact repeatLoop_hr _ _
  case h_22 => exact hr_mono (hl_same4 same4_of : HL s (s.emit (.loopOp 0))) (loopLoop_hr _ _ _ _)
  all_goals ((try dsimp only) <;> (repeat' split) <;> (try dsimp only) <;> (repeat' split) <;> hr_close)

theorem buildLocal_hr (s : CState) (n : String) : HR s (buildLocal s n) := by
  unfold buildLocal
  split <;> hr_close

theorem buildGlobal_hr (s : CState) (n : String) : HR s (buildGlobal s n) := by
  unfold buildGlobal
  split
  · split
    · exact HL.refl _
    · split
      · rename_i lim hl
        split
        · exact HL.refl _
        · rename_i hlt
          refine ⟨rfl, by show s.heapLen ≤ s.heapLen + 1; omega, fun H hH => ?_, rfl, rfl⟩
          rw [hl] at hH; cases hH
          show s.heapLen + 1 ≤ _
          omega
      · rename_i hl
        exact ⟨rfl, by show s.heapLen ≤ s.heapLen + 1; omega, (fun H hH => by rw [hl] at hH; cases hH), rfl, rfl⟩
  · exact HL.refl _

theorem withName_hr (s : CState) (w n : String) : HR s (withName s w n) := by
  unfold withName
  split
  · exact hl_same4 same4_of
  · exact buildLocal_hr s n
  · exact buildGlobal_hr s n
  · split <;> hr_close
  · exact hl_same4 same4_of
  · trivial

theorem late_hr (s : CState) (n : String) (t : Nat) : HR s (late s n t) := by
  unfold late
  simp only
  split
  · have h1 := bpj_same ‹CState.backpatchJump _ _ _ = some _›
    exact hl_same4 ((Same4.trans same4_of h1).trans same4_of)
  · trivial

theorem buildWord_hr (s : CState) (w : String) : HR s (buildWord s w) := by
  unfold buildWord
  split
  · exact HL.refl _
  · exact hl_same4 same4_of
  · exact hl_same4 same4_of
  · trivial
  · exact immediate_hr s _
  · exact hl_same4 same4_of
  · exact hl_same4 same4_of

end Xeh.Compile
