/-
C17 helper: every opcode is attributed to the token that was being compiled when it was emitted
(`code_emit` records `last_token`; backpatching never rewrites the debug map).
-/
import XehModel.Proofs.CompileAlign

set_option linter.unusedSimpArgs false

namespace Xeh.Compile
open CState

/-- `s'` extends the debug map of `s` by entries that all name `s.lastTok` -/
def DExt (s s' : CState) : Prop :=
  ∃ k, s'.dmap = s.dmap ++ List.replicate k s.lastTok ∧ s'.lastTok = s.lastTok

theorem DExt.refl (s : CState) : DExt s s := ⟨0, by simp, rfl⟩

theorem DExt.trans {a b c : CState} (h1 : DExt a b) (h2 : DExt b c) : DExt a c := by
  obtain ⟨k1, e1, l1⟩ := h1
  obtain ⟨k2, e2, l2⟩ := h2
  refine ⟨k1 + k2, ?_, by rw [l2, l1]⟩
  rw [e2, e1, l1, List.append_assoc, List.replicate_append_replicate]

theorem dext_emit (s : CState) (op : Op) : DExt s (s.emit op) := ⟨1, by simp [emit], rfl⟩
theorem dext_same {s s' : CState} (hd : s'.dmap = s.dmap) (hl : s'.lastTok = s.lastTok) : DExt s s' :=
  ⟨0, by simp [hd], hl⟩

theorem dext_bpj {s s' : CState} {i : Nat} {r : Int} (e : s.backpatchJump i r = some s') : DExt s s' := by
  unfold backpatchJump at e
  split at e <;> first | (cases e; exact dext_same rfl rfl) | cases e

theorem dext_popf {s s' : CState} {f : Flow} (e : s.popFlow = some (f, s')) : DExt s s' := by
  unfold popFlow at e
  split at e
  · cases e; exact dext_same rfl rfl
  · cases e

@[simp] theorem emit_lastTok (s : CState) (op : Op) : (s.emit op).lastTok = s.lastTok := rfl

theorem dext_pushFlow (s : CState) (f : Flow) : DExt s (s.pushFlow f) := dext_same rfl rfl
theorem dext_backpatch (s : CState) (i : Nat) (op : Op) : DExt s (s.backpatch i op) := dext_same rfl rfl
theorem dext_flows (s : CState) (fl : List Flow) : DExt s { s with flows := fl } := dext_same rfl rfl
theorem dext_emitNative (s : CState) (n : String) : DExt s (emitNative s n) := dext_emit _ _

attribute [local irreducible] CState.emit CState.pushFlow CState.backpatch emitNative CState.backpatchJump CState.popFlow

macro "dx_step" : tactic => `(tactic|
  first
  | exact DExt.refl _
  | (refine DExt.trans ?_ (dext_bpj (by assumption)))
  | (refine DExt.trans (dext_popf (by assumption)) ?_)
  | (refine DExt.trans ?_ (dext_emit _ _))
  | (refine DExt.trans ?_ (dext_emitNative _ _))
  | (refine DExt.trans ?_ (dext_pushFlow _ _))
  | (refine DExt.trans ?_ (dext_backpatch _ _ _))
  | exact dext_flows _ _)

macro "dx_solve" : tactic => `(tactic| (repeat dx_step))

theorem endcaseLoop_dext (fuel : Nat) : ∀ (s s' : CState) (o : Nat), endcaseLoop fuel s o = .ok s' → DExt s s' := by
  induction fuel with
  | zero => intro s s' o e; simp [endcaseLoop] at e
  | succ n ih =>
    intro s s' o e
    simp only [endcaseLoop] at e
    split at e
    · split at e
      · rename_i s1 hb
        exact (DExt.trans (dext_flows _ _) (dext_bpj hb)).trans (ih s1 s' o e)
      · cases e
    · cases e; exact dext_flows _ _
    · cases e

theorem repeatLoop_dext (fuel : Nat) : ∀ (s s' : CState), repeatLoop fuel s = .ok s' → DExt s s' := by
  induction fuel with
  | zero => intro s s' e; simp [repeatLoop] at e
  | succ n ih =>
    intro s s' e
    simp only [repeatLoop] at e
    split at e
    · rename_i org s1 hp
      split at e
      · rename_i s2 hb
        exact ((dext_popf hp).trans (dext_bpj hb)).trans (ih s2 s' e)
      · cases e
    · rename_i b s1 hp
      cases e; exact (dext_popf hp).trans (dext_emit _ _)
    · rename_i c s1 hp
      split at e
      · rename_i b s2 hp2
        split at e
        · rename_i s3 hb
          cases e; exact (((dext_popf hp).trans (dext_popf hp2)).trans (dext_bpj hb)).trans (dext_emit _ _)
        · cases e
      · cases e
      · cases e
    · cases e
    · cases e

theorem loopLoop_dext (fuel : Nat) : ∀ (s s' : CState) (a b : Nat), loopLoop fuel s a b = .ok s' → DExt s s' := by
  induction fuel with
  | zero => intro s s' a b e; simp [loopLoop] at e
  | succ n ih =>
    intro s s' a b e
    simp only [loopLoop] at e
    split at e
    · rename_i org s1 hp
      exact ((dext_popf hp).trans (dext_backpatch _ _ _)).trans (ih _ s' a b e)
    · rename_i fo bo s1 hp
      cases e
      exact ((dext_popf hp).trans (dext_backpatch _ _ _)).trans (dext_backpatch _ _ _)
    · cases e
    · cases e

theorem immediate_dext (s s' : CState) (w : String) (e : immediate s w = .ok s') : DExt s s' := by
  unfold immediate at e
  split at e
  all_goals (try dsimp only at e)
  all_goals (repeat' (split at e))
  all_goals (first | (cases e; done) | skip)
  all_goals (try (first
    | exact endcaseLoop_dext _ _ _ _ e
    | exact repeatLoop_dext _ _ _ e
    | exact (dext_emit _ _).trans (loopLoop_dext _ _ _ _ _ e)))
  all_goals (try (cases e; dx_solve; done))

end Xeh.Compile

namespace Xeh.Compile
open CState

attribute [local irreducible] CState.emit CState.pushFlow CState.backpatch emitNative CState.backpatchJump CState.popFlow

theorem buildLocal_dext (s s' : CState) (n : String) (e : buildLocal s n = .ok s') : DExt s s' := by
  unfold buildLocal at e
  split at e
  · cases e; exact (dext_flows _ _).trans (dext_emit _ _)
  · cases e

theorem buildGlobal_dext (s s' : CState) (n : String) (e : buildGlobal s n = .ok s') : DExt s s' := by
  unfold buildGlobal at e
  repeat' (split at e)
  all_goals (first | (cases e; done) | skip)
  all_goals (cases e; exact (dext_same (s' := { s with heapLen := _, dict := _ }) rfl rfl).trans (dext_emit _ _))

theorem withName_dext (s s' : CState) (w n : String) (e : withName s w n = .ok s') : DExt s s' := by
  unfold withName at e
  split at e
  · cases e
    exact ((dext_emit s (.jump 0)).trans (dext_same (s' := { (s.emit (.jump 0)) with dict := _ }) rfl rfl)).trans (dext_pushFlow _ _)
  · exact buildLocal_dext _ _ _ e
  · exact buildGlobal_dext _ _ _ e
  · split at e
    · cases e
    · cases e; exact dext_emit _ _
    · cases e
  · cases e; exact dext_emit _ _
  · cases e

theorem buildWord_dext (s s' : CState) (w : String) (e : buildWord s w = .ok s') : DExt s s' := by
  unfold buildWord at e
  split at e
  · cases e
  · cases e; exact dext_emit _ _
  · cases e; exact dext_emit _ _
  · cases e
  · exact immediate_dext _ _ _ e
  · cases e; exact dext_emit _ _
  · cases e; exact dext_emit _ _

/-- the debug-map entries added between `s` and `s'` all lie in `[lo, hi)` -/
def Seg (s s' : CState) (lo hi : Nat) : Prop :=
  ∃ l, s'.dmap = s.dmap ++ l ∧ ∀ t ∈ l, lo ≤ t ∧ t < hi

theorem Seg.refl (s : CState) (lo hi : Nat) : Seg s s lo hi := ⟨[], by simp, by simp⟩

theorem Seg.trans {a b c : CState} {lo hi : Nat} (h1 : Seg a b lo hi) (h2 : Seg b c lo hi) : Seg a c lo hi := by
  obtain ⟨l1, e1, b1⟩ := h1
  obtain ⟨l2, e2, b2⟩ := h2
  refine ⟨l1 ++ l2, by rw [e2, e1, List.append_assoc], fun t ht => ?_⟩
  rcases List.mem_append.mp ht with h | h
  · exact b1 t h
  · exact b2 t h

theorem Seg.mono {a b : CState} {lo hi lo' hi' : Nat} (h : Seg a b lo hi) (h1 : lo' ≤ lo) (h2 : hi ≤ hi') :
    Seg a b lo' hi' := by
  obtain ⟨l, e, bd⟩ := h
  exact ⟨l, e, fun t ht => ⟨Nat.le_trans h1 (bd t ht).1, Nat.lt_of_lt_of_le (bd t ht).2 h2⟩⟩

theorem DExt.seg {s s' : CState} (h : DExt s s') (lo hi : Nat) (h1 : lo ≤ s.lastTok) (h2 : s.lastTok < hi) :
    Seg s s' lo hi := by
  obtain ⟨k, e, _⟩ := h
  exact ⟨_, e, fun t ht => by rw [List.eq_of_mem_replicate ht]; exact ⟨h1, h2⟩⟩

theorem seg_lastTok (s : CState) (t lo hi : Nat) : Seg s { s with lastTok := t } lo hi := ⟨[], by simp, by simp⟩

theorem late_seg (s s' : CState) (n : String) (idx : Nat) (hl : s.lastTok = idx) (e : late s n (idx + 1) = .ok s') :
    Seg s s' idx (idx + 2) := by
  unfold late at e
  dsimp only at e
  split at e
  · rename_i s1 hb
    cases e
    have d1 : DExt s (s.emit (.jump 0)) := dext_emit _ _
    have g1 : Seg s (s.emit (.jump 0)) idx (idx + 2) := d1.seg _ _ (by omega) (by omega)
    have g2 := seg_lastTok (s.emit (.jump 0)) (idx + 1) idx (idx + 2)
    have d3 : DExt ({ (s.emit (.jump 0)) with lastTok := idx + 1 } : CState)
        ((({ (s.emit (.jump 0)) with lastTok := idx + 1 } : CState).emit (.resolve n)).emit .ret) :=
      (dext_emit _ _).trans (dext_emit _ _)
    have g3 := d3.seg idx (idx + 2) (by simp) (by simp)
    have g4 := (dext_bpj hb).seg idx (idx + 2) (by simp) (by simp)
    obtain ⟨l, hl4, hb4⟩ := ((g1.trans g2).trans g3).trans g4
    exact ⟨l, hl4, hb4⟩
  · cases e

end Xeh.Compile

namespace Xeh.Compile
open CState

attribute [local irreducible] CState.emit CState.pushFlow CState.backpatch emitNative CState.backpatchJump CState.popFlow

/-- every debug-map entry added while compiling `toks` (whose first token has index `idx`) names one
    of those tokens -/
theorem compileToks_origin (toks : List Tok) : ∀ (idx : Nat) (s s' : CState),
    compileToks toks idx s = .ok s' → Seg s s' idx (idx + toks.length) := by
  induction hn : toks.length using Nat.strongRecOn generalizing toks with
  | _ n ih =>
    intro idx s s' e
    match toks, hn with
    | [], _ =>
      simp only [compileToks] at e
      split at e
      · cases e; exact Seg.refl _ _ _
      · cases e
    | .lit c :: rest, hn =>
      subst hn
      simp only [compileToks] at e
      have g1 := seg_lastTok s idx idx (idx + (Tok.lit c :: rest).length)
      have g2 : Seg ({ s with lastTok := idx } : CState) (({ s with lastTok := idx } : CState).emit (loadValueOp c)) idx (idx + (Tok.lit c :: rest).length) :=
        (dext_emit _ _).seg _ _ (by simp) (by simp)
      have g3 := ih rest.length (by simp) rest rfl _ _ _ e
      exact (g1.trans g2).trans (g3.mono (by omega) (by simp; omega))
    | .word w :: rest, hn =>
      subst hn
      simp only [compileToks] at e
      have g1 := seg_lastTok s idx idx (idx + (Tok.word w :: rest).length)
      have hlen : (Tok.word w :: rest).length = rest.length + 1 := rfl
      split at e
      · rename_i li _
        have g2 : Seg ({ s with lastTok := idx } : CState) (({ s with lastTok := idx } : CState).emit (.loadLocal li)) idx (idx + (Tok.word w :: rest).length) :=
          (dext_emit _ _).seg _ _ (by simp) (by simp)
        have g3 := ih rest.length (by simp) rest rfl _ _ _ e
        exact (g1.trans g2).trans (g3.mono (by omega) (by rw [hlen]; omega))
      · split at e
        · split at e
          · split at e
            · rename_i name rest'
              split at e
              · rename_i s1 hr
                have g2 : Seg ({ s with lastTok := idx } : CState) s1 idx (idx + (Tok.word w :: Tok.word name :: rest').length) := by
                  split at hr
                  · exact (late_seg _ _ _ idx rfl hr).mono (Nat.le_refl _) (by simp)
                  · have g := seg_lastTok ({ s with lastTok := idx } : CState) (idx + 1) idx (idx + (Tok.word w :: Tok.word name :: rest').length)
                    exact g.trans ((withName_dext _ _ _ _ hr).seg _ _ (by simp) (by simp))
                have g3 := ih rest'.length (by simp only [List.length_cons]; omega) rest' rfl _ _ _ e
                exact (g1.trans g2).trans (g3.mono (by omega) (by simp only [List.length_cons]; omega))
              · cases e
              · cases e
            · split at e <;> cases e
          · split at e
            · rename_i s1 hr
              have g2 := (immediate_dext _ _ _ hr).seg idx (idx + (Tok.word w :: rest).length) (by simp) (by simp)
              have g3 := ih rest.length (by simp) rest rfl _ _ _ e
              exact (g1.trans g2).trans (g3.mono (by omega) (by rw [hlen]; omega))
            · cases e
            · cases e
        · split at e
          · rename_i s1 hr
            have g2 := (buildWord_dext _ _ _ hr).seg idx (idx + (Tok.word w :: rest).length) (by simp) (by simp)
            have g3 := ih rest.length (by simp) rest rfl _ _ _ e
            exact (g1.trans g2).trans (g3.mono (by omega) (by rw [hlen]; omega))
          · cases e
          · cases e

end Xeh.Compile
