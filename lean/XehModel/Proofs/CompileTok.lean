/-
The flow-stack compiler never reads the debug map or the last-token marker: it appends to the one and copies the other
into errors.  Two compiler states that differ only there get the same treatment from every compiling word.
-/
import XehModel.Model.Compile

namespace Xeh.Compile
open Xeh Xeh.Compile.CState

/-- the same compiler state up to debug map and last-token marker -/
def CD (c c' : CState) : Prop := ({ c with dmap := [], lastTok := 0 } : CState) = { c' with dmap := [], lastTok := 0 }

/-- related answers of a compiling word -/
def CRD : CRes CState → CRes CState → Prop
  | .ok c, .ok c' => CD c c'
  | .err e c, .err e' c' => e.err = e'.err ∧ CD c c'
  | .unsupported u, .unsupported u' => u = u'
  | _, _ => False

local macro "cd_intro" : tactic => `(tactic|
  (intro a b h
   cases a; cases b
   simp only [CD, CState.mk.injEq, true_and, and_true] at h
   obtain ⟨h1, h2, h3, h4, h5, h6, h7⟩ := h
   subst_vars))

theorem cd_emit (op : Op) : ∀ a b : CState, CD a b → CD (a.emit op) (b.emit op) := by
  cd_intro
  simp [CD, emit]

theorem cd_mk {code : List Op} {d d' : List Nat} {fl : List Flow} {dict : List (String × Entry)} {hl : Nat} {lim : Option Nat}
    {hid l l' : Nat} {im : Bool} : CD ⟨code, d, fl, dict, hl, lim, hid, l, im⟩ ⟨code, d', fl, dict, hl, lim, hid, l', im⟩ := by
  simp [CD]

/-- `backpatch_jump` on the code alone -/
def patchJ (code : List Op) (at_ : Nat) (rel : Int) : Option (List Op) :=
  match code[at_]? with
  | some (.jump _) => some (code.set at_ (.jump rel))
  | some (.jumpIf _) => some (code.set at_ (.jumpIf rel))
  | some (.jumpIfNot _) => some (code.set at_ (.jumpIfNot rel))
  | some (.caseOf _) => some (code.set at_ (.caseOf rel))
  | _ => none

theorem backpatchJump_code (s : CState) (at_ : Nat) (rel : Int) :
    s.backpatchJump at_ rel = (patchJ s.code at_ rel).map fun c => { s with code := c } := by
  unfold backpatchJump patchJ
  split <;> simp_all

/-- the shared part of two related states -/
theorem CD.fields {a b : CState} (h : CD a b) : a.code = b.code ∧ a.flows = b.flows ∧ a.dict = b.dict ∧ a.heapLen = b.heapLen ∧
    a.heapLimit = b.heapLimit ∧ a.hiddenFlows = b.hiddenFlows ∧ a.inMeta = b.inMeta := by
  cases a; cases b
  simpa [CD] using h

theorem cd_setFlows {a b : CState} (h : CD a b) (f : List Flow) : CD { a with flows := f } { b with flows := f } := by
  cases a; cases b
  simp only [CD, CState.mk.injEq, true_and, and_true] at h ⊢
  simp_all

theorem cd_setCode {a b : CState} (h : CD a b) (c : List Op) : CD { a with code := c } { b with code := c } := by
  cases a; cases b
  simp only [CD, CState.mk.injEq, true_and, and_true] at h ⊢
  simp_all

theorem cd_setDict {a b : CState} (h : CD a b) (d : List (String × Entry)) : CD { a with dict := d } { b with dict := d } := by
  cases a; cases b
  simp only [CD, CState.mk.injEq, true_and, and_true] at h ⊢
  simp_all

theorem cd_setTok {a b : CState} (h : CD a b) (i j : Nat) : CD { a with lastTok := i } { b with lastTok := j } := by
  cases a; cases b
  simp only [CD, CState.mk.injEq, true_and, and_true] at h ⊢
  simp_all

theorem cd_pushFlow {a b : CState} (h : CD a b) (f : Flow) : CD (a.pushFlow f) (b.pushFlow f) := by
  unfold pushFlow; rw [h.fields.2.1]; exact cd_setFlows h _

theorem cd_emit' {a b : CState} (h : CD a b) (op : Op) : CD (a.emit op) (b.emit op) := cd_emit op a b h

theorem cd_backpatch {a b : CState} (h : CD a b) (i : Nat) (op : Op) : CD (a.backpatch i op) (b.backpatch i op) := by
  unfold backpatch; rw [h.fields.1]; exact cd_setCode h _

/-- related optional states -/
def ORD : Option CState → Option CState → Prop
  | some x, some y => CD x y
  | none, none => True
  | _, _ => False

theorem cd_backpatchJump {a b : CState} (h : CD a b) (i : Nat) (rel : Int) : ORD (a.backpatchJump i rel) (b.backpatchJump i rel) := by
  rw [backpatchJump_code, backpatchJump_code, h.fields.1]
  cases patchJ b.code i rel with
  | none => trivial
  | some c => exact cd_setCode h c

theorem cd_cerr {a b : CState} (h : CD a b) (e : Xerr) : CRD (cerr a e : CRes CState) (cerr b e) := ⟨rfl, h⟩

/-- continue after a backpatch -/
theorem crd_bj {a b : CState} (h : CD a b) (i : Nat) (rel : Int) {k k' : CState → CRes CState}
    (hk : ∀ x y, CD x y → CRD (k x) (k' y)) :
    CRD (match (generalizing := false) a.backpatchJump i rel with
      | some s => k s
      | none => .unsupported "backpatch")
     (match (generalizing := false) b.backpatchJump i rel with
      | some s => k' s
      | none => .unsupported "backpatch") := by
  have := cd_backpatchJump h i rel
  revert this
  cases a.backpatchJump i rel <;> cases b.backpatchJump i rel <;> intro this <;> first | exact this.elim | skip
  · rfl
  · exact hk _ _ this

theorem cd_origin {a b : CState} (h : CD a b) : a.origin = b.origin := by unfold origin; rw [h.fields.1]

theorem cd_endcaseLoop (fuel : Nat) (endOrg : Nat) : ∀ a b : CState, CD a b → CRD (endcaseLoop fuel a endOrg) (endcaseLoop fuel b endOrg) := by
  induction fuel with
  | zero => intro a b h; simp [endcaseLoop, CRD]
  | succ n ih =>
    intro a b h
    simp only [endcaseLoop]
    rw [h.fields.2.1]
    split
    · exact crd_bj (cd_setFlows h _) _ _ (fun x y hxy => ih x y hxy)
    · exact cd_setFlows h _
    · exact cd_cerr h _

theorem cd_popFlow {a b : CState} (h : CD a b) :
    match a.popFlow, b.popFlow with
    | some (f, x), some (f', y) => f = f' ∧ CD x y
    | none, none => True
    | _, _ => False := by
  unfold popFlow
  rw [h.fields.2.1]
  cases b.flows with
  | nil => trivial
  | cons f rest => exact ⟨rfl, cd_setFlows h _⟩

/-- case analysis on the popped flow of two related states: afterwards either both stacks were empty, or the same flow
    `fa` was popped leaving related states `xa`, `xb` (`hxy`) -/
local macro "pop_cases " h:term " , " a:term " , " b:term " with " hp:ident fa:ident xa:ident xb:ident : tactic => `(tactic|
  (have $hp:ident := cd_popFlow $h
   revert $hp:ident
   generalize Compile.CState.popFlow $a = pa
   generalize Compile.CState.popFlow $b = pb
   intro $hp:ident
   rcases pa with _ | ⟨$fa:ident, $xa:ident⟩ <;> rcases pb with _ | ⟨fb, $xb:ident⟩ <;> first | exact ($hp).elim | skip))

theorem cd_repeatLoop (fuel : Nat) : ∀ a b : CState, CD a b → CRD (repeatLoop fuel a) (repeatLoop fuel b) := by
  induction fuel with
  | zero => intro a b h; simp [repeatLoop, CRD]
  | succ n ih =>
    intro a b h
    simp only [repeatLoop]
    pop_cases h, a, b with hp fa xa xb
    · exact cd_cerr h _
    · obtain ⟨rfl, hxy⟩ := hp
      cases fa with
      | breakF org =>
        simp only
        rw [cd_origin hxy]
        exact crd_bj hxy _ _ (fun x y h' => ih x y h')
      | beginF bo =>
        simp only
        rw [cd_origin hxy]
        exact cd_emit' hxy _
      | whileF c =>
        simp only
        pop_cases hxy, xa, xb with hp fa xa xb
        · exact cd_cerr hxy _
        · obtain ⟨rfl, hxy2⟩ := hp
          cases fa with
          | beginF bo =>
            simp only
            rw [cd_origin hxy2]
            refine crd_bj hxy2 _ _ (fun x y h' => ?_)
            rw [cd_origin h']
            exact cd_emit' h' _
          | _ => exact cd_cerr hxy2 _
      | _ => exact cd_cerr hxy _

theorem cd_loopLoop (fuel : Nat) (l st : Nat) : ∀ a b : CState, CD a b → CRD (loopLoop fuel a l st) (loopLoop fuel b l st) := by
  induction fuel with
  | zero => intro a b h; simp [loopLoop, CRD]
  | succ n ih =>
    intro a b h
    simp only [loopLoop]
    pop_cases h, a, b with hp fa xa xb
    · exact cd_cerr h _
    · obtain ⟨rfl, hxy⟩ := hp
      cases fa with
      | breakF org => exact ih _ _ (cd_backpatch hxy _ _)
      | doF f bo => exact cd_backpatch (cd_backpatch hxy _ _) _ _
      | _ => exact cd_cerr hxy _

/-- close a goal `CD (… a …) (… b …)` built from the state-transforming primitives -/
local macro "cd_ok " h:ident : tactic => `(tactic|
  (try simp only [emitNative, cd_origin $h, ($h).fields.2.1]
   repeat (first | exact $h | apply cd_emit' | apply cd_pushFlow | apply cd_setFlows | apply cd_backpatch | apply cd_setDict)))

theorem cd_immediate (w : String) : ∀ a b : CState, CD a b → CRD (immediate a w) (immediate b w) := by
  intro a b h
  have hfl := h.fields.2.1
  have horg := cd_origin h
  unfold immediate
  split
  · -- if
    show CD _ _; cd_ok h
  · -- else
    rw [hfl]
    split
    · rename_i ifOrg rest _
      have h1 := cd_setFlows h rest
      simp only
      generalize ({ a with flows := rest } : CState) = a1 at h1 ⊢
      generalize ({ b with flows := rest } : CState) = b1 at h1 ⊢
      rw [cd_origin h1]
      have h2 := cd_emit' (cd_pushFlow h1 (.elseF b1.origin)) (.jump 0)
      rw [cd_origin h2]
      exact crd_bj h2 _ _ (fun x y hxy => hxy)
    · exact cd_cerr (cd_setFlows h _) _
    · exact cd_cerr h _
  · -- then
    rw [hfl, horg]
    split
    · exact crd_bj (cd_setFlows h _) _ _ (fun x y hxy => hxy)
    · exact crd_bj (cd_setFlows h _) _ _ (fun x y hxy => hxy)
    · exact cd_cerr (cd_setFlows h _) _
    · exact cd_cerr h _
  · -- case
    show CD _ _; cd_ok h
  · -- of
    show CD _ _; cd_ok h
  · -- endof
    rw [hfl]
    split
    · rename_i ofOrg rest _
      have h1 := cd_setFlows h rest
      simp only
      generalize ({ a with flows := rest } : CState) = a1 at h1 ⊢
      generalize ({ b with flows := rest } : CState) = b1 at h1 ⊢
      rw [cd_origin h1]
      have h2 := cd_emit' h1 (.jump 0)
      rw [cd_origin h2]
      exact crd_bj h2 _ _ (fun x y hxy => cd_pushFlow hxy _)
    · exact cd_cerr (cd_setFlows h _) _
    · exact cd_cerr h _
  · -- endcase
    rw [hfl, horg]; exact cd_endcaseLoop _ _ a b h
  · -- begin
    show CD _ _; cd_ok h
  · -- until
    pop_cases h, a, b with hp fa xa xb
    · exact cd_cerr h _
    · obtain ⟨rfl, hxy⟩ := hp
      cases fa with
      | beginF bo => simp only; rw [cd_origin hxy]; exact cd_emit' hxy _
      | _ => exact cd_cerr hxy _
  · -- while
    show CD _ _; cd_ok h
  · -- repeat
    rw [hfl]; exact cd_repeatLoop _ a b h
  · -- break
    rw [hfl]
    split
    · show CD _ _; cd_ok h
    · exact cd_cerr h _
  · -- [
    show CD _ _; cd_ok h
  · -- ]
    pop_cases h, a, b with hp fa xa xb
    · exact cd_cerr h _
    · obtain ⟨rfl, hxy⟩ := hp
      cases fa with
      | vecF => simp only [emitNative]; exact cd_emit' hxy _
      | _ => exact cd_cerr hxy _
  · -- {
    show CD _ _; cd_ok h
  · -- }
    pop_cases h, a, b with hp fa xa xb
    · exact cd_cerr h _
    · obtain ⟨rfl, hxy⟩ := hp
      cases fa with
      | mapF => simp only [emitNative]; exact cd_emit' hxy _
      | _ => exact cd_cerr hxy _
  · -- ^{
    show CD _ _; cd_ok h
  · -- ^}
    pop_cases h, a, b with hp fa xa xb
    · exact cd_cerr h _
    · obtain ⟨rfl, hxy⟩ := hp
      cases fa with
      | tagsF => simp only [emitNative]; exact cd_emit' hxy _
      | _ => exact cd_cerr hxy _
  · -- ;
    pop_cases h, a, b with hp fa xa xb
    · exact cd_cerr h _
    · obtain ⟨rfl, hxy⟩ := hp
      cases fa with
      | funF ff =>
        simp only
        have h2 := cd_emit' hxy .ret
        rw [cd_origin h2]
        exact crd_bj h2 _ _ (fun x y h' => h')
      | _ => exact cd_cerr hxy _
  · -- nil
    show CD _ _; cd_ok h
  · -- do
    show CD _ _
    simp only [horg]
    have h2 := cd_emit' h (.doOp 0)
    rw [cd_origin h2]
    exact cd_pushFlow h2 _
  · -- loop
    simp only [horg]
    have h2 := cd_emit' h (.loopOp 0)
    rw [cd_origin h2, h2.fields.2.1]
    exact cd_loopLoop _ _ _ _ _ h2
  · -- foreach
    show CD _ _
    simp only [emitNative]
    have h2 := cd_emit' h (.native "<foreach-init>")
    rw [cd_origin h2]
    have h3 := cd_emit' h2 (.doOp 0)
    rw [cd_origin h3]
    exact cd_emit' (cd_pushFlow h3 _) _
  · show CD _ _; cd_ok h
  · show CD _ _; cd_ok h
  · show CD _ _; cd_ok h
  · show CD _ _; cd_ok h
  · show CD _ _; cd_ok h
  · show CD _ _; cd_ok h
  · show CD _ _; cd_ok h
  · rfl

theorem cd_buildLocal (name : String) : ∀ a b : CState, CD a b → CRD (buildLocal a name) (buildLocal b name) := by
  intro a b h
  unfold buildLocal
  rw [h.fields.2.1]
  split
  · exact cd_emit' (cd_setFlows h _) _
  · exact cd_cerr h _

theorem cd_heap {a b : CState} (h : CD a b) (n : Nat) (d : List (String × Entry)) :
    CD { a with heapLen := n, dict := d } { b with heapLen := n, dict := d } := by
  cases a; cases b
  simp only [CD, CState.mk.injEq, true_and, and_true] at h ⊢
  simp_all

theorem cd_buildGlobal (name : String) : ∀ a b : CState, CD a b → CRD (buildGlobal a name) (buildGlobal b name) := by
  cd_intro
  simp only [buildGlobal, cerr, emit]
  (repeat' split) <;> simp_all [CRD, CD]

theorem cd_withName (w name : String) : ∀ a b : CState, CD a b → CRD (withName a w name) (withName b w name) := by
  intro a b h
  unfold withName
  split
  · show CD _ _
    simp only [cd_origin h]
    have h2 := cd_emit' h (.jump 0)
    rw [cd_origin h2, h2.fields.2.2.1]
    exact cd_pushFlow (cd_setDict h2 _) _
  · exact cd_buildLocal name a b h
  · exact cd_buildGlobal name a b h
  · rw [h.fields.2.2.1]
    split
    · exact cd_cerr h _
    · exact cd_emit' h _
    · exact cd_cerr h _
  · rw [h.fields.2.2.1]; exact cd_emit' h _
  · rfl

/-- `late`: the name's token index may differ as well -/
theorem cd_late (name : String) (i j : Nat) : ∀ a b : CState, CD a b → CRD (late a name i) (late b name j) := by
  intro a b h
  unfold late
  simp only [cd_origin h]
  have h2 := cd_setTok (cd_emit' h (.jump 0)) i j
  have e2 : ({ (a.emit (.jump 0)) with lastTok := i } : CState).origin = ({ (b.emit (.jump 0)) with lastTok := j } : CState).origin := cd_origin h2
  have h3 := cd_emit' (cd_emit' h2 (.resolve name)) .ret
  rw [e2, cd_origin h3]
  refine crd_bj h3 _ _ (fun x y hxy => ?_)
  rw [hxy.fields.2.2.1]
  exact cd_setDict hxy _

theorem cd_buildWord (w : String) : ∀ a b : CState, CD a b → CRD (buildWord a w) (buildWord b w) := by
  intro a b h
  unfold buildWord
  rw [h.fields.2.2.1]
  split
  · exact cd_cerr h _
  · exact cd_emit' h _
  · exact cd_emit' h _
  · rfl
  · exact cd_immediate _ a b h
  · exact cd_emit' h _
  · exact cd_emit' h _

end Xeh.Compile
