/-
C10 helper: everything a build does to the compiler state is *above the marks* taken before it
started — code and debug map are only extended, backpatching only touches jumps emitted since the
mark (the origins recorded in pending flows never point below it), the dictionary only grows at the
new end, the heap only grows. Hence truncating to the marks (`build_unwind`) restores the state.
-/
import XehModel.Model.Compile

set_option linter.unusedSimpArgs false

namespace Xeh.Compile
open CState

/-- a pending flow never refers to code below `n` -/
def orgOk (n : Nat) : Flow → Prop
  | .ifF o | .elseF o | .whileF o | .breakF o | .caseOfF o | .caseEndOfF o => n ≤ o
  | .doF f _ => n ≤ f
  | .funF ff => n ≤ ff.start
  | _ => True

def Orgs (n : Nat) (fl : List Flow) : Prop := ∀ f ∈ fl, orgOk n f

/-- `s` extends `s0`: same code / debug map / dictionary / heap below the marks of `s0` -/
structure Pre (s0 s : CState) : Prop where
  code : s.code.take s0.code.length = s0.code
  dmap : s.dmap.take s0.dmap.length = s0.dmap
  dict : ∃ d, s.dict = d ++ s0.dict
  heap : s0.heapLen ≤ s.heapLen
  len : s0.code.length ≤ s.code.length
  dlen : s0.dmap.length ≤ s.dmap.length
  lim : s.heapLimit = s0.heapLimit ∧ s.hiddenFlows = s0.hiddenFlows

theorem Pre.refl (s : CState) : Pre s s :=
  ⟨by simp, by simp, ⟨[], by simp⟩, Nat.le_refl _, Nat.le_refl _, Nat.le_refl _, ⟨rfl, rfl⟩⟩

theorem pre_emit {s0 s : CState} (op : Op) (h : Pre s0 s) : Pre s0 (s.emit op) where
  code := by simp only [emit]; rw [List.take_append_of_le_length h.len]; exact h.code
  dmap := by simp only [emit]; rw [List.take_append_of_le_length h.dlen]; exact h.dmap
  dict := h.dict
  heap := h.heap
  len := by simp [emit]; have := h.len; omega
  dlen := by simp [emit]; have := h.dlen; omega
  lim := h.lim

theorem pre_same {s0 s s' : CState} (h : Pre s0 s) (hc : s'.code = s.code) (hd : s'.dmap = s.dmap)
    (hdi : s'.dict = s.dict) (hh : s'.heapLen = s.heapLen) (hl : s'.heapLimit = s.heapLimit)
    (hf : s'.hiddenFlows = s.hiddenFlows) : Pre s0 s' :=
  ⟨by rw [hc]; exact h.code, by rw [hd]; exact h.dmap, by rw [hdi]; exact h.dict, by rw [hh]; exact h.heap,
   by rw [hc]; exact h.len, by rw [hd]; exact h.dlen, by rw [hl, hf]; exact h.lim⟩

theorem pre_set {s0 s : CState} (i : Nat) (op : Op) (h : Pre s0 s) (hi : s0.code.length ≤ i) :
    Pre s0 { s with code := s.code.set i op } :=
  ⟨by show (s.code.set i op).take _ = _; rw [List.take_set_of_le hi]; exact h.code, h.dmap, h.dict, h.heap,
   by simp; exact h.len, h.dlen, h.lim⟩

theorem pre_backpatch {s0 s : CState} (i : Nat) (op : Op) (h : Pre s0 s) (hi : s0.code.length ≤ i) :
    Pre s0 (s.backpatch i op) := pre_set i op h hi

theorem pre_bpj {s0 s s' : CState} {i : Nat} {r : Int} (h : Pre s0 s) (hi : s0.code.length ≤ i)
    (e : s.backpatchJump i r = some s') : Pre s0 s' := by
  unfold backpatchJump at e
  split at e <;> first | (cases e; exact pre_set _ _ h hi) | cases e

theorem bpj_flows {s s' : CState} {i : Nat} {r : Int} (e : s.backpatchJump i r = some s') : s'.flows = s.flows := by
  unfold backpatchJump at e
  split at e <;> first | (cases e; rfl) | cases e

theorem pre_flows {s0 s : CState} (fl : List Flow) (h : Pre s0 s) : Pre s0 { s with flows := fl } :=
  pre_same h rfl rfl rfl rfl rfl rfl

theorem pre_pushFlow {s0 s : CState} (f : Flow) (h : Pre s0 s) : Pre s0 (s.pushFlow f) :=
  pre_same h rfl rfl rfl rfl rfl rfl

theorem popf_eq {s s' : CState} {f : Flow} (e : s.popFlow = some (f, s')) :
    s.flows = f :: s'.flows ∧ s' = { s with flows := s'.flows } := by
  unfold popFlow at e
  split at e
  · rename_i f0 rest hfl; cases e; exact ⟨hfl, rfl⟩
  · cases e

theorem pre_popf {s0 s s' : CState} {f : Flow} (h : Pre s0 s) (e : s.popFlow = some (f, s')) : Pre s0 s' := by
  have := (popf_eq e).2; rw [this]; exact pre_flows _ h

theorem orgs_popf {n : Nat} {s s' : CState} {f : Flow} (h : Orgs n s.flows) (e : s.popFlow = some (f, s')) :
    orgOk n f ∧ Orgs n s'.flows := by
  have := (popf_eq e).1
  rw [this] at h
  exact ⟨h f (by simp), fun g hg => h g (by simp [hg])⟩

theorem tfc_mem : ∀ (fl : List Flow) (f : Flow) (rest : List Flow), takeFirstCond fl = some (f, rest) →
    f ∈ fl ∧ ∀ g ∈ rest, g ∈ fl := by
  intro fl
  induction fl with
  | nil => intro f rest e; simp [takeFirstCond] at e
  | cons x xs ih =>
    intro f rest e
    cases x <;> simp only [takeFirstCond] at e
    case breakF o =>
      split at e
      · rename_i f' rest' he
        cases e
        obtain ⟨h1, h2⟩ := ih _ _ he
        exact ⟨by simp [h1], fun g hg => by
          rcases List.mem_cons.mp hg with h | h
          · simp [h]
          · simp [h2 g h]⟩
      · cases e
    all_goals first
      | (cases e; exact ⟨by simp, fun g hg => by simp [hg]⟩)
      | cases e

theorem orgs_tfc {n : Nat} {fl rest : List Flow} {f : Flow} (h : Orgs n fl) (e : takeFirstCond fl = some (f, rest)) :
    orgOk n f ∧ Orgs n rest := by
  obtain ⟨h1, h2⟩ := tfc_mem fl f rest e
  exact ⟨h f h1, fun g hg => h g (h2 g hg)⟩

theorem orgs_cons {n : Nat} {fl : List Flow} {f : Flow} (hf : orgOk n f) (h : Orgs n fl) : Orgs n (f :: fl) := by
  intro g hg
  rcases List.mem_cons.mp hg with h1 | h1
  · rw [h1]; exact hf
  · exact h g h1

/-- result of a compile step: `Pre` always; pending flows stay above the mark on success -/
def Good (s0 : CState) (r : CRes CState) : Prop :=
  match r with
  | .ok s' => Pre s0 s' ∧ Orgs s0.code.length s'.flows
  | .err _ sp => Pre s0 sp
  | .unsupported _ => True

theorem good_cerr {s0 s : CState} (e : Xerr) (h : Pre s0 s) : Good s0 (cerr s e) := h

theorem endcaseLoop_good (fuel : Nat) : ∀ (s0 s : CState) (o : Nat), Pre s0 s → Orgs s0.code.length s.flows →
    Good s0 (endcaseLoop fuel s o) := by
  induction fuel with
  | zero => intro s0 s o _ _; simp [endcaseLoop, Good]
  | succ n ih =>
    intro s0 s o hp ho
    simp only [endcaseLoop]
    split
    · rename_i org rest ht
      obtain ⟨h1, h2⟩ := orgs_tfc ho ht
      split
      · rename_i s1 hb
        have hp1 := pre_bpj (pre_flows rest hp) h1 hb
        exact ih s0 s1 o hp1 (by rw [bpj_flows hb]; exact h2)
      · simp [Good]
    · rename_i rest ht
      exact ⟨pre_flows _ hp, (orgs_tfc ho ht).2⟩
    · exact good_cerr _ hp

theorem repeatLoop_good (fuel : Nat) : ∀ (s0 s : CState), Pre s0 s → Orgs s0.code.length s.flows →
    Good s0 (repeatLoop fuel s) := by
  induction fuel with
  | zero => intro s0 s _ _; simp [repeatLoop, Good]
  | succ n ih =>
    intro s0 s hp ho
    simp only [repeatLoop]
    split
    · rename_i org s1 he
      obtain ⟨h1, h2⟩ := orgs_popf ho he
      split
      · rename_i s2 hb
        exact ih s0 s2 (pre_bpj (pre_popf hp he) h1 hb) (by rw [bpj_flows hb]; exact h2)
      · simp [Good]
    · rename_i b s1 he
      exact ⟨pre_emit _ (pre_popf hp he), (orgs_popf ho he).2⟩
    · rename_i c s1 he
      obtain ⟨h1, h2⟩ := orgs_popf ho he
      split
      · rename_i b s2 he2
        obtain ⟨h3, h4⟩ := orgs_popf h2 he2
        split
        · rename_i s3 hb
          exact ⟨pre_emit _ (pre_bpj (pre_popf (pre_popf hp he) he2) h1 hb), by
            show Orgs _ (s3.emit _).flows
            have : (s3.emit (Op.jump (fromTo s3.origin b))).flows = s3.flows := rfl
            rw [this, bpj_flows hb]; exact h4⟩
        · simp [Good]
      · exact good_cerr _ (pre_popf (pre_popf hp he) (by assumption))
      · exact good_cerr _ (pre_popf hp he)
    · exact good_cerr _ (pre_popf hp (by assumption))
    · exact good_cerr _ hp

theorem loopLoop_good (fuel : Nat) : ∀ (s0 s : CState) (a b : Nat), Pre s0 s → Orgs s0.code.length s.flows →
    s0.code.length ≤ a → Good s0 (loopLoop fuel s a b) := by
  induction fuel with
  | zero => intro s0 s a b _ _ _; simp [loopLoop, Good]
  | succ n ih =>
    intro s0 s a b hp ho ha
    simp only [loopLoop]
    split
    · rename_i org s1 he
      obtain ⟨h1, h2⟩ := orgs_popf ho he
      exact ih s0 _ a b (pre_backpatch _ _ (pre_popf hp he) h1) h2 ha
    · rename_i fo bo s1 he
      obtain ⟨h1, h2⟩ := orgs_popf ho he
      exact ⟨pre_backpatch _ _ (pre_backpatch _ _ (pre_popf hp he) h1) ha, h2⟩
    · exact good_cerr _ (pre_popf hp (by assumption))
    · exact good_cerr _ hp

end Xeh.Compile

namespace Xeh.Compile
open CState

theorem emit_flows (s : CState) (op : Op) : (s.emit op).flows = s.flows := rfl
theorem emitNative_flows (s : CState) (n : String) : (emitNative s n).flows = s.flows := rfl
theorem pushFlow_flows (s : CState) (f : Flow) : (s.pushFlow f).flows = f :: s.flows := rfl
theorem pre_emitNative {s0 s : CState} (n : String) (h : Pre s0 s) : Pre s0 (emitNative s n) := pre_emit _ h

/-- `Pre` goals: peel constructors -/
macro "pre_step" : tactic => `(tactic|
  first
  | assumption
  | (refine pre_bpj ?_ ?_ (by assumption))
  | (refine pre_popf ?_ (by assumption))
  | apply pre_emit
  | apply pre_emitNative
  | apply pre_pushFlow
  | (refine pre_backpatch _ _ ?_ ?_)
  | apply pre_flows)

/-- side conditions `mark ≤ origin` -/
macro "org_side" : tactic => `(tactic|
  first
  | assumption
  | omega
  | (simp only [origin, emit, emitNative, pushFlow, List.length_append, List.length_cons, List.length_nil] at *; omega))

/-- `Orgs` goals about flows that were only popped from -/
macro "orgs_tail" : tactic => `(tactic|
  first
  | assumption
  | exact (orgs_tfc (by assumption) (by assumption)).2
  | exact (orgs_popf (by assumption) (by assumption)).2)

macro "flows_norm" : tactic => `(tactic|
  simp only [emit_flows, emitNative_flows, pushFlow_flows])

theorem immediate_good (s0 s : CState) (w : String) (hp : Pre s0 s) (ho : Orgs s0.code.length s.flows) :
    Good s0 (immediate s w) := by
  have hl := hp.len
  unfold immediate
  split
  all_goals (try dsimp only)
  all_goals (repeat' split)
  all_goals (try (exact trivial))
  all_goals (try (exact endcaseLoop_good _ _ _ _ hp ho))
  all_goals (try (exact repeatLoop_good _ _ _ hp ho))
  -- errors: the state handed to `cerr` only had flows popped
  all_goals (try (apply good_cerr; (repeat pre_step); done))
  -- successes without a backpatch
  all_goals (try (refine ⟨by (repeat pre_step), ?_⟩; flows_norm; orgs_tail; done))
  all_goals (try (refine ⟨by (repeat pre_step), ?_⟩; flows_norm
                  refine orgs_cons ?_ (by orgs_tail); (simp only [orgOk] <;> org_side); done))
  all_goals (try (exact loopLoop_good _ _ _ _ _ (pre_emit _ hp) ho (by org_side)))
  -- successes ending in a backpatch
  all_goals (try (
    have hq := orgs_tfc ho (by assumption)
    simp only [orgOk] at hq
    refine ⟨by (repeat pre_step) <;> first | exact hq.1 | org_side, ?_⟩
    rw [bpj_flows (by assumption)]
    flows_norm
    first
      | exact hq.2
      | (refine orgs_cons ?_ hq.2; (simp only [orgOk] <;> org_side))
    done))
  all_goals (try (
    have hq := orgs_popf ho (by assumption)
    simp only [orgOk] at hq
    refine ⟨by (repeat pre_step) <;> first | exact hq.1 | org_side, ?_⟩
    rw [bpj_flows (by assumption)]
    flows_norm
    first
      | exact hq.2
      | (refine orgs_cons ?_ hq.2; (simp only [orgOk] <;> org_side))
    done))
  -- `endof`: backpatch the `of`, then push the pending `endof` jump
  · rename_i hb
    have hq := orgs_tfc ho (by assumption)
    simp only [orgOk] at hq
    refine ⟨pre_pushFlow _ (pre_bpj (pre_emit _ (pre_flows _ hp)) hq.1 hb), ?_⟩
    rw [pushFlow_flows, bpj_flows hb]
    refine orgs_cons ?_ hq.2
    simp only [orgOk, origin]
    exact hl

end Xeh.Compile

namespace Xeh.Compile
open CState

theorem pre_dict {s0 s : CState} (e : String × Entry) (h : Pre s0 s) : Pre s0 { s with dict := e :: s.dict } where
  code := h.code
  dmap := h.dmap
  dict := by obtain ⟨d, hd⟩ := h.dict; exact ⟨e :: d, by simp [hd]⟩
  heap := h.heap
  len := h.len
  dlen := h.dlen
  lim := h.lim

theorem pre_lastTok {s0 s : CState} (t : Nat) (h : Pre s0 s) : Pre s0 { s with lastTok := t } :=
  pre_same h rfl rfl rfl rfl rfl rfl

theorem topFun_mem : ∀ (fl : List Flow) (ff : FunFlow), topFun fl = some ff → Flow.funF ff ∈ fl := by
  intro fl
  induction fl with
  | nil => intro ff e; simp [topFun] at e
  | cons x xs ih =>
    intro ff e
    cases x <;> simp only [topFun] at e
    case funF g => cases e; simp
    all_goals exact List.mem_cons_of_mem _ (ih ff e)

theorem orgs_setTopFun (n : Nat) (ff ff' : FunFlow) (hs : ff'.start = ff.start) : ∀ (fl : List Flow),
    topFun fl = some ff → Orgs n fl → Orgs n (setTopFun ff' fl) := by
  intro fl
  induction fl with
  | nil => intro _ h; simpa [setTopFun] using h
  | cons x xs ih =>
    intro e h
    have hx := h x (by simp)
    have hxs : Orgs n xs := fun g hg => h g (by simp [hg])
    cases x <;> simp only [topFun] at e <;> simp only [setTopFun]
    case funF g =>
      cases e
      exact orgs_cons (by simp only [orgOk] at hx ⊢; rw [hs]; exact hx) hxs
    all_goals exact orgs_cons hx (ih e hxs)

theorem buildLocal_good (s0 s : CState) (n : String) (hp : Pre s0 s) (ho : Orgs s0.code.length s.flows) :
    Good s0 (buildLocal s n) := by
  unfold buildLocal
  split
  · rename_i ff hf
    exact ⟨pre_emit _ (pre_flows _ hp), by
      rw [emit_flows]
      exact orgs_setTopFun _ ff { ff with locals := ff.locals ++ [n] } rfl _ hf ho⟩
  · exact good_cerr _ hp

theorem buildGlobal_good (s0 s : CState) (n : String) (hp : Pre s0 s) (ho : Orgs s0.code.length s.flows) :
    Good s0 (buildGlobal s n) := by
  have key : Good s0 (.ok (({ s with heapLen := s.heapLen + 1, dict := (n, .var s.heapLen) :: s.dict } : CState).emit (.store s.heapLen))) := by
    refine ⟨pre_emit _ ?_, ho⟩
    have h1 := pre_dict (n, Entry.var s.heapLen) hp
    exact ⟨h1.code, h1.dmap, h1.dict, by have := hp.heap; simp; omega, h1.len, h1.dlen, h1.lim⟩
  unfold buildGlobal
  split
  · split
    · exact good_cerr _ hp
    · split
      · split
        · exact good_cerr _ hp
        · exact key
      · exact key
  · exact good_cerr _ hp

theorem withName_good (s0 s : CState) (w n : String) (hp : Pre s0 s) (ho : Orgs s0.code.length s.flows) :
    Good s0 (withName s w n) := by
  unfold withName
  split
  · refine ⟨pre_pushFlow _ (pre_dict _ (pre_emit _ hp)), ?_⟩
    rw [pushFlow_flows]
    exact orgs_cons (by simp only [orgOk, origin]; exact hp.len) ho
  · exact buildLocal_good _ _ _ hp ho
  · exact buildGlobal_good _ _ _ hp ho
  · split
    · exact good_cerr _ hp
    · exact ⟨pre_emit _ hp, ho⟩
    · exact good_cerr _ hp
  · exact ⟨pre_emit _ hp, ho⟩
  · trivial

theorem late_good (s0 s : CState) (n : String) (t : Nat) (hp : Pre s0 s) (ho : Orgs s0.code.length s.flows) :
    Good s0 (late s n t) := by
  unfold late
  dsimp only
  split
  · rename_i s1 hb
    have h1 : Pre s0 (((({ (s.emit (.jump 0)) with lastTok := t } : CState).emit (.resolve n)).emit .ret)) :=
      pre_emit _ (pre_emit _ (pre_lastTok _ (pre_emit _ hp)))
    have h2 := pre_bpj h1 (by simp only [origin]; exact hp.len) hb
    exact ⟨pre_dict _ h2, by show Orgs _ s1.flows; rw [bpj_flows hb]; exact ho⟩
  · trivial

theorem buildWord_good (s0 s : CState) (w : String) (hp : Pre s0 s) (ho : Orgs s0.code.length s.flows) :
    Good s0 (buildWord s w) := by
  unfold buildWord
  split
  · exact good_cerr _ hp
  · exact ⟨pre_emit _ hp, ho⟩
  · exact ⟨pre_emit _ hp, ho⟩
  · trivial
  · exact immediate_good _ _ _ hp ho
  · exact ⟨pre_emit _ hp, ho⟩
  · exact ⟨pre_emit _ hp, ho⟩

/-- the whole build: whatever happens, the state stays an extension of the state at the mark -/
theorem compileToks_good (toks : List Tok) : ∀ (idx : Nat) (s0 s : CState), Pre s0 s → Orgs s0.code.length s.flows →
    Good s0 (compileToks toks idx s) := by
  induction hn : toks.length using Nat.strongRecOn generalizing toks with
  | _ n ih =>
    intro idx s0 s hp ho
    match toks, hn with
    | [], _ =>
      simp only [compileToks]
      split
      · exact ⟨hp, ho⟩
      · exact good_cerr _ (pre_lastTok _ hp)
    | .lit c :: rest, hn =>
      subst hn
      simp only [compileToks]
      exact ih rest.length (by simp) rest rfl _ _ _ (pre_emit _ (pre_lastTok _ hp)) ho
    | .word w :: rest, hn =>
      subst hn
      simp only [compileToks]
      have hs := pre_lastTok idx hp
      split
      · exact ih rest.length (by simp) rest rfl _ _ _ (pre_emit _ hs) ho
      · split
        · rename_i nn hlk
          split
          · split
            · rename_i name rest'
              have hr : Good s0 (if (nn == "late") = true then late { s with lastTok := idx } name (idx + 1)
                  else withName { s with lastTok := idx + 1 } nn name) := by
                split
                · exact late_good _ _ _ _ hs ho
                · exact withName_good _ _ _ _ (pre_lastTok _ hp) ho
              revert hr
              generalize (if (nn == "late") = true then late { s with lastTok := idx } name (idx + 1)
                  else withName { s with lastTok := idx + 1 } nn name) = r
              intro hr
              cases r with
              | ok s1 => exact ih rest'.length (by simp only [List.length_cons]; omega) rest' rfl _ _ _ hr.1 hr.2
              | err e sp => exact hr
              | unsupported u => trivial
            · split <;> exact good_cerr _ hs
          · have hr := immediate_good s0 { s with lastTok := idx } nn hs ho
            revert hr
            generalize immediate { s with lastTok := idx } nn = r
            intro hr
            cases r with
            | ok s1 => exact ih rest.length (by simp) rest rfl _ _ _ hr.1 hr.2
            | err e sp => exact hr
            | unsupported u => trivial
        · have hr := buildWord_good s0 { s with lastTok := idx } w hs ho
          revert hr
          generalize buildWord { s with lastTok := idx } w = r
          intro hr
          cases r with
          | ok s1 => exact ih rest.length (by simp) rest rfl _ _ _ hr.1 hr.2
          | err e sp => exact hr
          | unsupported u => trivial

/-- `build_unwind` on the compiler's part of the state: truncate code and debug map to the marks, drop
    the dictionary entries added since, give back the heap cells, forget the pending flows -/
def unwindC (s0 s : CState) : CState :=
  { s with code := s.code.take s0.code.length, dmap := s.dmap.take s0.dmap.length,
           dict := s.dict.drop (s.dict.length - s0.dict.length), heapLen := s0.heapLen,
           flows := s0.flows, lastTok := s0.lastTok, inMeta := s0.inMeta }

theorem unwindC_restores {s0 s : CState} (h : Pre s0 s) : unwindC s0 s = s0 := by
  obtain ⟨d, hd⟩ := h.dict
  cases s0; cases s
  simp only [unwindC, CState.mk.injEq]
  have h1 := h.code; have h2 := h.dmap; have h3 := h.lim
  simp only at h1 h2 h3 hd
  refine ⟨h1, h2, trivial, ?_, trivial, h3.1, h3.2, trivial, trivial⟩
  subst hd
  simp

end Xeh.Compile
