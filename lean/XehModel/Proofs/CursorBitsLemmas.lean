/-
Helper lemmas for C07: the list-level number codecs of Model/CursorBits.lean are inverse to each
other (`toUint (fromInt v n) = v mod 2^n` in both byte orders for n ≤ 128).
-/
import XehModel.Model.CursorBits

set_option linter.unusedSimpArgs false
namespace Xeh.Cur

theorem beVal_go (bs : List Bool) (a : Nat) :
    bs.foldl (fun a b => 2 * a + b.toNat) a = a * 2 ^ bs.length + beVal bs := by
  induction bs generalizing a with
  | nil => simp [beVal]
  | cons b t ih =>
    simp only [List.foldl_cons, List.length_cons, beVal]
    rw [ih, ih (2 * 0 + b.toNat)]
    grind

theorem beVal_nil : beVal [] = 0 := rfl

theorem beVal_cons (b : Bool) (t : List Bool) : beVal (b :: t) = b.toNat * 2 ^ t.length + beVal t := by
  show List.foldl (fun a b => 2 * a + b.toNat) (2 * 0 + b.toNat) t = _
  rw [beVal_go]; simp

theorem beVal_append (a b : List Bool) : beVal (a ++ b) = beVal a * 2 ^ b.length + beVal b := by
  simp only [beVal, List.foldl_append]
  rw [beVal_go]; rfl

theorem beVal_lt (bs : List Bool) : beVal bs < 2 ^ bs.length := by
  induction bs with
  | nil => simp [beVal]
  | cons b t ih =>
    rw [beVal_cons]; simp only [List.length_cons, Nat.pow_succ]
    cases b <;> simp <;> omega

@[simp] theorem beBits_length (n x : Nat) : (beBits n x).length = n := by
  induction n with
  | zero => rfl
  | succ n ih => simp [beBits, ih]

theorem beVal_beBits (n x : Nat) : beVal (beBits n x) = x % 2 ^ n := by
  induction n with
  | zero => simp [beBits, beVal, Nat.mod_one]
  | succ n ih =>
    simp only [beBits, beVal_cons, beBits_length, ih, Nat.mod_pow_succ]
    have : x / 2 ^ n % 2 = 0 ∨ x / 2 ^ n % 2 = 1 := by omega
    rcases this with h | h <;> simp [h] <;> omega


/-! ### Int → Nat bridge: bits `[i, i+k)` of `v` are bits `[i, i+k)` of `v mod 2^N` -/

theorem shr_mod (v : Int) (i k N : Nat) (h : i + k ≤ N) :
    ((v >>> i) % 2 ^ k).toNat = ((v % 2 ^ N).toNat / 2 ^ i) % 2 ^ k := by
  have hN : (2 : Int) ^ N = 2 ^ i * (2 ^ k * 2 ^ (N - i - k)) := by
    rw [← Int.pow_add, ← Int.pow_add]; congr 1; omega
  have hpos : (0 : Int) < 2 ^ N := Int.pow_pos (by decide)
  have hu0 : 0 ≤ v % 2 ^ N := Int.emod_nonneg _ (Int.ne_of_gt hpos)
  obtain ⟨u, hu⟩ := Int.eq_ofNat_of_zero_le hu0
  have hv : (u : Int) + 2 ^ N * (v / 2 ^ N) = v := by
    rw [← hu]; exact Int.emod_add_mul_ediv v (2 ^ N)
  generalize v / 2 ^ N = q at hv
  have hi : (2 : Int) ^ i ≠ 0 := Int.ne_of_gt (Int.pow_pos (by decide))
  have h1 : v >>> i = (u : Int) / 2 ^ i + 2 ^ k * (2 ^ (N - i - k) * q) := by
    rw [Int.shiftRight_eq_div_pow, ← hv, hN]
    rw [show ((2 ^ i : Nat) : Int) = 2 ^ i by simp]
    rw [Int.mul_assoc, Int.add_mul_ediv_left _ _ hi, Int.mul_assoc]
  have h2 : (v >>> i) % 2 ^ k = ((u : Int) / 2 ^ i) % 2 ^ k := by
    rw [h1, Int.add_mul_emod_self_left]
  rw [h2, hu, Int.toNat_natCast]
  have : ((u : Int) / 2 ^ i) % 2 ^ k = ((u / 2 ^ i % 2 ^ k : Nat) : Int) := by
    simp
  rw [this, Int.toNat_natCast]

@[simp] theorem chunkBits_length (x : Int) (k : Nat) : (chunkBits x k).length = k := by simp [chunkBits]

theorem emod_toNat_lt (x : Int) (k : Nat) : (x % 2 ^ k).toNat < 2 ^ k := by
  have hpos : (0 : Int) < 2 ^ k := Int.pow_pos (by decide)
  have h1 := Int.emod_lt_of_pos x hpos
  have h0 := Int.emod_nonneg x (Int.ne_of_gt hpos)
  have : ((2 ^ k : Nat) : Int) = 2 ^ k := by simp
  omega

theorem beVal_chunkBits (x : Int) (k : Nat) : beVal (chunkBits x k) = (x % 2 ^ k).toNat := by
  simp only [chunkBits, beVal_beBits]
  exact Nat.mod_eq_of_lt (emod_toNat_lt x k)

theorem fromIntBEgo_zero (v : Int) (f : Nat) : fromIntBEgo v f 0 = [] := by
  cases f <;> simp [fromIntBEgo]

theorem fromIntBEgo_length (v : Int) : ∀ f i, i ≤ f → (fromIntBEgo v f i).length = i := by
  intro f
  induction f with
  | zero => intro i hi; simp [fromIntBEgo]; omega
  | succ f ih =>
    intro i hi
    simp only [fromIntBEgo]
    split
    · simp_all
    · simp only [List.length_append, chunkBits_length]
      rw [ih _ (by omega)]; omega

theorem mod0 (v : Int) : (v % 2 ^ 0).toNat = 0 := by simp [Int.emod_one]

theorem beVal_fromIntBEgo (v : Int) : ∀ f i, i ≤ f → i ≤ 128 →
    beVal (fromIntBEgo v f i) = (v % 2 ^ i).toNat := by
  intro f
  induction f with
  | zero => intro i hi _; have : i = 0 := by omega
            subst this; simp [fromIntBEgo, beVal_nil, mod0]
  | succ f ih =>
    intro i hi h128
    simp only [fromIntBEgo]
    split
    · rename_i h0; subst h0; simp [beVal_nil, mod0]
    · rename_i h0
      have hk : (i - min i 8) % 128 = i - min i 8 := Nat.mod_eq_of_lt (by omega)
      simp only [hk, beVal_append, beVal_chunkBits]
      rw [fromIntBEgo_length v f _ (by omega), ih _ (by omega) (by omega)]
      -- bits [i-k, i) and [0, i-k) of U = v mod 2^i
      have b1 := shr_mod v (i - min i 8) (min i 8) i (by omega)
      have b2 := shr_mod v 0 (i - min i 8) i (by omega)
      simp only [Int.shiftRight_zero, Nat.pow_zero, Nat.div_one] at b2
      rw [b1, b2]
      generalize hU : (v % 2 ^ i).toNat = U
      have hUlt : U < 2 ^ i := by rw [← hU]; exact emod_toNat_lt v i
      generalize hA : i - min i 8 = A
      generalize hB : min i 8 = B
      have hAB : i = A + B := by omega
      subst hAB
      rw [Nat.pow_add] at hUlt
      have hdiv : U / 2 ^ A < 2 ^ B := (Nat.div_lt_iff_lt_mul (Nat.two_pow_pos A)).mpr (by rw [Nat.mul_comm]; exact hUlt)
      rw [Nat.mod_eq_of_lt hdiv]
      exact Nat.div_add_mod' U (2 ^ A)


theorem leValF_fuel : ∀ (f g : Nat) (bs : List Bool), bs.length ≤ f → bs.length ≤ g →
    leValF f bs = leValF g bs := by
  intro f
  induction f with
  | zero =>
    intro g bs h _
    have : bs = [] := List.eq_nil_of_length_eq_zero (by omega)
    subst this
    cases g <;> simp [leValF]
  | succ f ih =>
    intro g bs hf hg
    cases g with
    | zero =>
      have : bs = [] := List.eq_nil_of_length_eq_zero (by omega)
      subst this; simp [leValF]
    | succ g =>
      simp only [leValF]
      split
      · rfl
      · rename_i hne
        have hpos : 0 < bs.length := by
          cases bs with
          | nil => simp at hne
          | cons _ _ => simp
        rw [ih g (bs.drop 8) (by simp; omega) (by simp; omega)]

theorem leVal_nil : leVal [] = 0 := rfl

theorem leVal_step (bs : List Bool) (h : bs ≠ []) :
    leVal bs = beVal (bs.take 8) + 256 * leVal (bs.drop 8) := by
  cases bs with
  | nil => exact absurd rfl h
  | cons b t =>
    show leValF (t.length + 1) (b :: t) = _
    simp only [leValF, List.isEmpty_cons, Bool.false_eq_true, if_false, leVal]
    rw [leValF_fuel t.length ((b :: t).drop 8).length _ (by simp) (Nat.le_refl _)]

theorem leVal_le8 (a : List Bool) (h : a.length ≤ 8) : leVal a = beVal a := by
  by_cases hn : a = []
  · subst hn; rfl
  · rw [leVal_step a hn, List.take_of_length_le h, List.drop_eq_nil_of_le h, leVal_nil]; simp

theorem leVal_append8 (a b : List Bool) (h : a.length = 8) : leVal (a ++ b) = beVal a + 256 * leVal b := by
  have hn : a ++ b ≠ [] := by
    intro hc; have := congrArg List.length hc; simp only [List.length_append, List.length_nil] at this; omega
  rw [leVal_step _ hn, List.take_left' h, List.drop_left' h]


theorem fromIntLEgo_done (v : Int) (n f i : Nat) (h : n ≤ i) : fromIntLEgo v n f i = [] := by
  cases f <;> simp [fromIntLEgo]; omega

theorem fromIntLEgo_length (v : Int) (n : Nat) : ∀ f i, n - i ≤ f → (fromIntLEgo v n f i).length = n - i := by
  intro f
  induction f with
  | zero => intro i hi; simp [fromIntLEgo]; omega
  | succ f ih =>
    intro i hi
    simp only [fromIntLEgo]
    split
    · simp only [List.length_append, chunkBits_length]
      rw [ih _ (by omega)]; omega
    · simp; omega

theorem leVal_fromIntLEgo (v : Int) (n : Nat) (hn : n ≤ 128) : ∀ f i, n - i ≤ f → i ≤ n →
    leVal (fromIntLEgo v n f i) = ((v >>> i) % 2 ^ (n - i)).toNat := by
  intro f
  induction f with
  | zero =>
    intro i hi hin
    have : n - i = 0 := by omega
    simp [fromIntLEgo, leVal_nil, this, Int.emod_one]
  | succ f ih =>
    intro i hi hin
    simp only [fromIntLEgo]
    split
    · rename_i hlt
      have hk : i % 128 = i := Nat.mod_eq_of_lt (by omega)
      rw [hk]
      by_cases hsmall : n - i ≤ 8
      · have hmin : min (n - i) 8 = n - i := by omega
        rw [hmin, fromIntLEgo_done v n f _ (by omega), List.append_nil,
          leVal_le8 _ (by simp; omega), beVal_chunkBits]
      · have hmin : min (n - i) 8 = 8 := by omega
        rw [hmin, leVal_append8 _ _ (by simp), beVal_chunkBits, ih (i + 8) (by omega) (by omega),
          Int.shiftRight_add]
        generalize v >>> i = x
        have hm : n - (i + 8) = (n - i) - 8 := by omega
        rw [hm]
        generalize hM : n - i = m at *
        have b1 := shr_mod x 0 8 m (by omega)
        have b2 := shr_mod x 8 (m - 8) m (by omega)
        simp only [Int.shiftRight_zero, Nat.pow_zero, Nat.div_one] at b1
        rw [b1, b2]
        generalize hU : (x % 2 ^ m).toNat = U
        have hUlt : U < 2 ^ m := by rw [← hU]; exact emod_toNat_lt x m
        have hpow : 2 ^ m = 2 ^ 8 * 2 ^ (m - 8) := by rw [← Nat.pow_add]; congr 1; omega
        have := @Nat.mod_mul (2 ^ 8) (2 ^ (m - 8)) U
        rw [← hpow, Nat.mod_eq_of_lt hUlt] at this
        simpa using this.symm
    · rename_i hge
      have : n - i = 0 := by omega
      simp [leVal_nil, this, Int.emod_one]


/-! ### the codecs are inverse to each other -/

@[simp] theorem fromInt_length (big : Bool) (v : Int) (n : Nat) : (fromInt big v n).length = n := by
  unfold fromInt fromIntBE fromIntLE
  split
  · exact fromIntBEgo_length v n n (Nat.le_refl _)
  · simpa using fromIntLEgo_length v n n 0 (by omega)

/-- `to_uint (from_int v n) = v mod 2^n`, both byte orders, every width up to 128, every integer -/
theorem toUint_fromInt (big : Bool) (v : Int) (n : Nat) (h : n ≤ 128) :
    toUint big (fromInt big v n) = (v % 2 ^ n).toNat := by
  unfold toUint fromInt fromIntBE fromIntLE
  split
  · exact beVal_fromIntBEgo v n n (Nat.le_refl _) h
  · simpa using leVal_fromIntLEgo v n h n 0 (by omega) (by omega)

theorem toInt_fromInt (big : Bool) (v : Int) (n : Nat) (h : n ≤ 128) :
    toInt big (fromInt big v n) = sext n (v % 2 ^ n).toNat := by
  unfold toInt
  rw [fromInt_length, toUint_fromInt big v n h]

/-! ### bytes -/

@[simp] theorem bytesToBits_nil : bytesToBits [] = [] := rfl

@[simp] theorem bytesToBits_cons (b : Nat) (l : List Nat) : bytesToBits (b :: l) = beBits 8 b ++ bytesToBits l := by
  simp [bytesToBits]

theorem bytesToBits_append (a b : List Nat) : bytesToBits (a ++ b) = bytesToBits a ++ bytesToBits b := by
  simp [bytesToBits]

@[simp] theorem bytesToBits_length (l : List Nat) : (bytesToBits l).length = 8 * l.length := by
  induction l with
  | nil => rfl
  | cons b l ih => simp [ih]; omega

end Xeh.Cur
