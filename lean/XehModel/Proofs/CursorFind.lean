/-
Helper for C06 `find_ok`: `findGo` returns the first byte index at which the pattern occurs.
-/
import XehModel.Proofs.CursorRead

set_option linter.unusedSimpArgs false
set_option linter.unusedVariables false

namespace Xeh.Cur
open Xeh

/-- `pat` occurs in `rest` at byte index `k` -/
def occursAt (pat rest : List Bool) (k : Nat) : Prop := pat.isPrefixOf (rest.drop (8 * k)) = true

instance (pat rest : List Bool) (k : Nat) : Decidable (occursAt pat rest k) := by
  unfold occursAt; infer_instance

theorem findGo_some (pat : List Bool) : ∀ (f : Nat) (rest : List Bool) (i j : Nat),
    findGo pat f rest i = some j →
    ∃ d, j = i + d ∧ d ≤ f ∧ occursAt pat rest d ∧ ∀ k, k < d → ¬ occursAt pat rest k := by
  intro f
  induction f with
  | zero =>
    intro rest i j h
    simp only [findGo] at h
    split at h
    · rename_i hp
      simp at h
      exact ⟨0, by omega, by omega, by simpa [occursAt] using hp, by intro k hk; omega⟩
    · simp at h
  | succ f ih =>
    intro rest i j h
    simp only [findGo] at h
    split at h
    · rename_i hp
      simp at h
      exact ⟨0, by omega, by omega, by simpa [occursAt] using hp, by intro k hk; omega⟩
    · rename_i hp
      obtain ⟨d, hj, hd, hocc, hmin⟩ := ih _ _ _ h
      refine ⟨d + 1, by omega, by omega, ?_, ?_⟩
      · simpa [occursAt, List.drop_drop, Nat.mul_add, Nat.add_comm] using hocc
      · intro k hk
        cases k with
        | zero => simpa [occursAt] using hp
        | succ k =>
          have := hmin k (by omega)
          simpa [occursAt, List.drop_drop, Nat.mul_add, Nat.add_comm] using this

theorem findGo_none (pat : List Bool) : ∀ (f : Nat) (rest : List Bool) (i : Nat),
    findGo pat f rest i = none → ∀ k, k ≤ f → ¬ occursAt pat rest k := by
  intro f
  induction f with
  | zero =>
    intro rest i h k hk
    simp only [findGo] at h
    split at h
    · simp at h
    · rename_i hp
      have : k = 0 := by omega
      subst this
      simpa [occursAt] using hp
  | succ f ih =>
    intro rest i h k hk
    simp only [findGo] at h
    split at h
    · simp at h
    · rename_i hp
      cases k with
      | zero => simpa [occursAt] using hp
      | succ k =>
        have := ih _ _ h k (by omega)
        simpa [occursAt, List.drop_drop, Nat.mul_add, Nat.add_comm] using this

/-- a successful `find`: nothing moves; the result is the absolute offset of the first byte
    position of the rest at which the pattern occurs, or nil when there is none -/
theorem find_ok_aux (s s' : CurState) (h : step s .find = (s', .ok ())) :
    ∃ c t pat, s.ds = c :: t ∧ c.toBitstr = .ok pat ∧ pat.length % 8 = 0 ∧
      (s.base + s.pos) % 8 = 0 ∧ (s.input.length - s.pos) % 8 = 0 ∧
      ((∃ d, s' = { s with ds := .int ((s.base + s.pos + d * 8 : Nat) : Int) :: t } ∧
          d ≤ (s.input.length - s.pos) / 8 ∧
          occursAt pat (s.input.drop s.pos) d ∧ ∀ k, k < d → ¬ occursAt pat (s.input.drop s.pos) k) ∨
       (s' = { s with ds := .nil :: t } ∧
          ∀ k, k ≤ (s.input.length - s.pos) / 8 → ¬ occursAt pat (s.input.drop s.pos) k)) := by
  simp only [step] at h
  obtain ⟨c, t, pat, hd, hp, h⟩ := popBitstr_ok h
  obtain ⟨r, hr, h⟩ := lift_ok h
  simp only [rest] at hr
  split at hr
  · simp at hr; subst hr
    split at h
    · simp at h
    · rename_i h1
      split at h
      · simp at h
      · rename_i h2
        simp only [List.length_drop] at h h2
        refine ⟨c, t, pat, hd, hp, by omega, by omega, by omega, ?_⟩
        simp only [findBytes, List.length_drop] at h
        split at h
        · rename_i i hi
          obtain ⟨d, hj, hdle, hocc, hmin⟩ := findGo_some pat _ _ _ _ hi
          left
          have h := (pushC_ok h).1
          refine ⟨d, ?_, hdle, hocc, hmin⟩
          rw [h]; simp [hj]
        · rename_i hi
          right
          have h := (pushC_ok h).1
          exact ⟨h, findGo_none pat _ _ _ hi⟩
  · simp at hr

end Xeh.Cur
