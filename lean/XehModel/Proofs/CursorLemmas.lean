/-
Helper lemmas for C06 (parsing cursor): definitions used by the property statements and the
case analyses over `step`.
-/
import XehModel.Model.Cursor

set_option linter.unusedSimpArgs false
set_option linter.unusedVariables false

namespace Xeh.Cur
open Xeh

/-- the cursor part of the state is unchanged -/
def Same (s s' : CurState) : Prop :=
  s'.input = s.input ∧ s'.base = s.base ∧ s'.pos = s.pos ∧ s'.stash = s.stash

/-- number of cells a word takes from the stack (at most) -/
def POp.arity : POp → Nat
  | .bits | .bytes | .uint | .int | .float | .magic | .seek | .find | .openBitstr _ => 1
  | .packInt _ _ | .packF _ _ | .toBitstr | .emit => 1
  | .packIntN | .packFN | .bitstrAppend => 2
  | _ => 0

/-- offset inside the input — for the open input and for every suspended one -/
def Inv (s : CurState) : Prop :=
  s.pos ≤ s.input.length ∧ ∀ f ∈ s.stash, f.pos ≤ f.bits.length

instance (s : CurState) : Decidable (Inv s) := by unfold Inv; infer_instance

/-- bits `[offset, offset+n)` of the open input -/
def slice (s : CurState) (n : Nat) : List Bool := (s.input.drop s.pos).take n

theorem suffix2 {α} (a b : α) (t : List α) : t <:+ a :: b :: t := ⟨[a, b], rfl⟩

/-! ### the reads in normal form: the move after a successful peek cannot fail -/

theorem peek_fit {s : CurState} {n : Nat} {bs} (h : peek s n = .ok bs) : s.pos + n ≤ s.input.length := by
  unfold peek at h
  split at h
  · simp at h
  · split at h
    · assumption
    · simp at h

theorem moveAbs_fit (s : CurState) (n : Nat) (h : s.pos + n ≤ s.input.length) :
    moveAbs s (s.base + s.pos + n) = ({ s with pos := s.pos + n }, .ok ()) := by
  unfold moveAbs moveThen
  rw [if_pos ⟨by omega, by omega⟩]
  congr 2
  omega

/-- `readWith`: once the bits are there and convert, the only thing that can still go wrong is the push -/
theorem readWith_eq (s : CurState) (n : Nat) (conv : List Bool → Outcome Cell) :
    readWith s n conv =
      lift s (peek s n) fun bs => lift s (conv bs) fun c =>
        if full s then (s, .err (limErr s)) else ({ s with pos := s.pos + n, ds := c :: s.ds }, .ok ()) := by
  unfold readWith
  cases hp : peek s n with
  | ok bs =>
    simp only [lift]
    cases conv bs with
    | ok c =>
      simp only [pushThen]
      split
      · rfl
      · exact moveAbs_fit { s with ds := c :: s.ds } n (peek_fit hp)
    | err e => rfl
    | panic p => rfl
  | err e => rfl
  | panic p => rfl

theorem scanNul_le : ∀ (f : Nat) (bs : List Bool), scanNul f bs ≤ bs.length
  | 0, _ => by simp [scanNul]
  | f+1, bs => by
    unfold scanNul
    split
    · omega
    · split
      · omega
      · have := scanNul_le f (bs.drop 8)
        simp only [List.length_drop] at this
        omega

/-- `nulbytestr` / `cstr` likewise -/
theorem nulRead_eq (s : CurState) (mk : List Bool → Cell) :
    nulRead s mk =
      lift s (rest s) fun r =>
        if r.length % 8 ≠ 0 then (s, .err .toBytestrError)
        else if full s then (s, .err (limErr s))
        else ({ s with pos := s.pos + scanNul r.length r, ds := mk (r.take (scanNul r.length r)) :: s.ds }, .ok ()) := by
  unfold nulRead
  cases hr : rest s with
  | ok r =>
    simp only [lift]
    split
    · rfl
    · simp only [pushThen]
      split
      · rfl
      · apply moveAbs_fit { s with ds := _ :: s.ds }
        have hr' : r = s.input.drop s.pos ∧ s.pos ≤ s.input.length := by
          unfold rest at hr
          split at hr
          · simp at hr; exact ⟨hr.symm, by assumption⟩
          · simp at hr
        have := scanNul_le r.length r
        rw [hr'.1] at this
        simp only [List.length_drop] at this
        rw [hr'.1]
        simp only [List.length_drop]
        show s.pos + _ ≤ _
        omega
  | err e => rfl
  | panic p => rfl

theorem rest_fit {s : CurState} {r : List Bool} (h : rest s = .ok r) : s.pos + scanNul r.length r ≤ s.input.length := by
  unfold rest at h
  split at h
  · simp at h
    subst h
    have := scanNul_le (s.input.drop s.pos).length (s.input.drop s.pos)
    simp only [List.length_drop] at this ⊢
    omega
  · simp at h

/-! ### failure leaves everything but the word's own arguments alone -/

theorem fail_atomic_aux (s : CurState) (op : POp) (s' : CurState) (r : Outcome Unit)
    (h : step s op = (s', r)) (hr : r ≠ .ok ()) :
    Same s s' ∧ s'.ds <:+ s.ds ∧ s.ds.length ≤ s'.ds.length + op.arity ∧ s'.bigEndian = s.bigEndian := by
  cases op <;>
  simp only [step, popUsize, popBitstr, popCell, lift, readWith_eq, nulRead_eq, moveAbs, moveThen, pushThen, pushC, packIntBo,
    packFloatBo] at h <;>
  (repeat' split at h) <;>
  simp_all [Same, POp.arity, suffix2] <;>
  (try (obtain ⟨rfl, rfl⟩ := h; simp_all [suffix2]))

/-! ### the invariant -/

theorem inv_step_aux (s : CurState) (op : POp) (s' : CurState) (r : Outcome Unit)
    (hi : Inv s) (h : step s op = (s', r)) : Inv s' := by
  obtain ⟨hp, hst⟩ := hi
  cases op <;>
  simp only [step, popUsize, popBitstr, popCell, lift, readWith_eq, nulRead_eq, moveAbs, moveThen, pushThen, pushC, packIntBo,
    packFloatBo] at h <;>
  (repeat' split at h) <;>
  simp_all [Inv] <;>
  (try (obtain ⟨rfl, rfl⟩ := h)) <;>
  (try simp_all) <;>
  (first | omega | exact peek_fit (by assumption) | exact rest_fit (by assumption) | skip)

/-! ### the byte order is a setting of the interpreter: only `big` and `little` change it -/

theorem byteorder_step (s : CurState) (op : POp) (h1 : op ≠ .big) (h2 : op ≠ .little) :
    (step s op).1.bigEndian = s.bigEndian := by
  cases op <;>
  simp only [step, popUsize, popBitstr, popCell, lift, readWith_eq, nulRead_eq, moveAbs, moveThen, pushThen, pushC, packIntBo,
    packFloatBo] <;>
  (repeat' split) <;>
  simp_all

/-! ### what a word may do to the stash: nothing, push one frame, pop one frame -/

theorem stash_step (s : CurState) (op : POp) :
    (step s op).1.stash = s.stash ∨
    (step s op).1.stash = ⟨s.input, s.base, s.pos⟩ :: s.stash ∨
    (∃ f, s.stash = f :: (step s op).1.stash ∧ (step s op).2 = .ok () ∧
      (step s op).1.input = f.bits ∧ (step s op).1.base = f.base ∧ (step s op).1.pos = f.pos) := by
  cases op <;>
  simp only [step, popUsize, popBitstr, popCell, lift, readWith_eq, nulRead_eq, moveAbs, moveThen, pushThen, pushC, packIntBo,
    packFloatBo] <;>
  (repeat' split) <;>
  simp_all

end Xeh.Cur

namespace Xeh.Cur
open Xeh

/-! ### successful reads -/

def POp.isRead : POp → Bool
  | .bits | .bytes | .readU _ _ | .readI _ _ | .readF _ _ | .uint | .int | .float
  | .magic | .nulbytestr | .cstr => true
  | _ => false

/-- the tagged number a numeric read word pushes -/
abbrev numCell (v : Cell) (len : Nat) (big : Bool) : Cell := .tagged v (numTags len big)

/-- `op`, run in state `s` (its arguments on the stack), asks for `n` bits and delivers `v` -/
def ReadSpec (s : CurState) (n : Nat) (v : Cell) : POp → Prop
  | .bits => ∃ c, s.ds.head? = some c ∧ c.toUsize = .ok n ∧ v = .bitstr (slice s n)
  | .bytes => ∃ c m, s.ds.head? = some c ∧ c.toUsize = .ok m ∧ n = m * 8 ∧ v = .bitstr (slice s n)
  | .readU k bo => n = k ∧ k ≤ 127 ∧
      v = numCell (.int (toUint (byteorder s bo) (slice s n))) n (byteorder s bo)
  | .readI k bo => n = k ∧ k ≤ 128 ∧
      v = numCell (.int (toInt (byteorder s bo) (slice s n))) n (byteorder s bo)
  | .readF k bo => n = k ∧
      ((k = 32 ∧ v = numCell (.real (f32to64 (UInt32.ofNat (toUint (byteorder s bo) (slice s n))))) n (byteorder s bo)) ∨
       (k = 64 ∧ v = numCell (.real (UInt64.ofNat (toUint (byteorder s bo) (slice s n)))) n (byteorder s bo)))
  | .uint => ∃ c, s.ds.head? = some c ∧ c.toUsize = .ok n ∧ n ≤ 127 ∧
      v = numCell (.int (toUint s.bigEndian (slice s n))) n s.bigEndian
  | .int => ∃ c, s.ds.head? = some c ∧ c.toUsize = .ok n ∧ n ≤ 128 ∧
      v = numCell (.int (toInt s.bigEndian (slice s n))) n s.bigEndian
  | .float => ∃ c, s.ds.head? = some c ∧ c.toUsize = .ok n ∧
      ((n = 32 ∧ v = numCell (.real (f32to64 (UInt32.ofNat (toUint s.bigEndian (slice s n))))) n s.bigEndian) ∨
       (n = 64 ∧ v = numCell (.real (UInt64.ofNat (toUint s.bigEndian (slice s n)))) n s.bigEndian))
  | .magic => ∃ c pat, s.ds.head? = some c ∧ c.toBitstr = .ok pat ∧ n = pat.length ∧ slice s n = pat ∧
      v = .bitstr pat
  | .nulbytestr => (s.input.length - s.pos) % 8 = 0 ∧
      n = scanNul (s.input.length - s.pos) (s.input.drop s.pos) ∧ v = .bitstr (slice s n)
  | .cstr => (s.input.length - s.pos) % 8 = 0 ∧
      n = scanNul (s.input.length - s.pos) (s.input.drop s.pos) ∧ v = .str (cstrChars (slice s n))
  | _ => False

theorem slice_length {s : CurState} {n : Nat} (h : s.pos + n ≤ s.input.length) : (slice s n).length = n := by
  simp [slice]; omega

theorem peek_ok {s : CurState} {n : Nat} {bs} (h : peek s n = .ok bs) :
    s.pos + n ≤ s.input.length ∧ bs = slice s n := by
  unfold peek at h
  split at h
  · simp at h
  · split at h
    · simp at h; exact ⟨by assumption, h.symm⟩
    · simp at h

@[simp] theorem slice_ds (s : CurState) (t : List Cell) (n : Nat) : slice { s with ds := t } n = slice s n := rfl
@[simp] theorem peek_ds (s : CurState) (t : List Cell) (n : Nat) : peek { s with ds := t } n = peek s n := rfl

theorem popCell_ok {s : CurState} {k s'} (h : popCell s k = (s', .ok ())) :
    ∃ c t, s.ds = c :: t ∧ k c { s with ds := t } = (s', .ok ()) := by
  unfold popCell at h
  split at h
  · simp at h
  · exact ⟨_, _, by assumption, h⟩

theorem lift_ok {α} {s : CurState} {o : Outcome α} {k s'} (h : lift s o k = (s', .ok ())) :
    ∃ a, o = .ok a ∧ k a = (s', .ok ()) := by
  unfold lift at h
  split at h
  · exact ⟨_, rfl, h⟩
  · simp at h
  · simp at h

theorem popUsize_ok {s : CurState} {k s'} (h : popUsize s k = (s', .ok ())) :
    ∃ c t n, s.ds = c :: t ∧ c.toUsize = .ok n ∧ k n { s with ds := t } = (s', .ok ()) := by
  obtain ⟨c, t, hd, h⟩ := popCell_ok h
  obtain ⟨n, hn, h⟩ := lift_ok h
  exact ⟨c, t, n, hd, hn, h⟩

theorem popBitstr_ok {s : CurState} {k s'} (h : popBitstr s k = (s', .ok ())) :
    ∃ c t b, s.ds = c :: t ∧ c.toBitstr = .ok b ∧ k b { s with ds := t } = (s', .ok ()) := by
  obtain ⟨c, t, hd, h⟩ := popCell_ok h
  obtain ⟨n, hn, h⟩ := lift_ok h
  exact ⟨c, t, n, hd, hn, h⟩

theorem pushC_ok {s : CurState} {c : Cell} {s'} (h : pushC s c = (s', .ok ())) :
    s' = { s with ds := c :: s.ds } ∧ full s = false := by
  unfold pushC at h
  split at h
  · simp at h
  · rename_i hf
    simp only [Prod.mk.injEq, and_true] at h
    exact ⟨h.symm, by simpa using hf⟩

theorem moveThen_ok {s : CurState} {abs k s'} (h : moveThen s abs k = (s', .ok ())) :
    s.base ≤ abs ∧ abs ≤ s.base + s.input.length ∧ k { s with pos := abs - s.base } = (s', .ok ()) := by
  unfold moveThen at h
  split at h
  · rename_i hc; exact ⟨hc.1, hc.2, h⟩
  · simp at h

theorem readWith_ok {s : CurState} {n conv s'} (h : readWith s n conv = (s', .ok ())) :
    s.pos + n ≤ s.input.length ∧ ∃ c, conv (slice s n) = .ok c ∧
      s' = { s with pos := s.pos + n, ds := c :: s.ds } := by
  rw [readWith_eq] at h
  obtain ⟨bs, hb, h⟩ := lift_ok h
  obtain ⟨hfit, rfl⟩ := peek_ok hb
  obtain ⟨c, hc, h⟩ := lift_ok h
  split at h
  · simp at h
  · simp only [Prod.mk.injEq, and_true] at h
    exact ⟨hfit, c, hc, h.symm⟩

/-- a read that succeeded found room on the stack -/
theorem readWith_ok_room {s : CurState} {n conv s'} (h : readWith s n conv = (s', .ok ())) : full s = false := by
  rw [readWith_eq] at h
  obtain ⟨bs, hb, h⟩ := lift_ok h
  obtain ⟨c, hc, h⟩ := lift_ok h
  split at h
  · simp at h
  · rename_i hf; simpa using hf

end Xeh.Cur
