/-
Helper lemmas for C06 (parsing cursor): definitions used by the property statements and the
case analyses over `step`.
-/
import XehModel.Model.Cursor

set_option linter.unusedSimpArgs false
set_option linter.unusedVariables false

namespace Xeh.Cur
open Xeh

/-- the cursor part of the state is unchanged -/
def Same (s s' : CurState) : Prop :=
  s'.input = s.input ∧ s'.base = s.base ∧ s'.pos = s.pos ∧ s'.stash = s.stash

/-- number of cells a word takes from the stack (at most) -/
def POp.arity : POp → Nat
  | .bits | .bytes | .uint | .int | .float | .magic | .seek | .find | .openBitstr _ => 1
  | .packInt _ _ | .packF _ _ | .toBitstr | .emit => 1
  | .packIntN | .packFN | .bitstrAppend => 2
  | _ => 0

/-- offset inside the input — for the open input and for every suspended one -/
def Inv (s : CurState) : Prop :=
  s.pos ≤ s.input.length ∧ ∀ f ∈ s.stash, f.pos ≤ f.bits.length

instance (s : CurState) : Decidable (Inv s) := by unfold Inv; infer_instance

/-- bits `[offset, offset+n)` of the open input -/
def slice (s : CurState) (n : Nat) : List Bool := (s.input.drop s.pos).take n

theorem suffix2 {α} (a b : α) (t : List α) : t <:+ a :: b :: t := ⟨[a, b], rfl⟩

/-! ### failure leaves everything but the word's own arguments alone -/

theorem fail_atomic_aux (s : CurState) (op : POp) (s' : CurState) (r : Outcome Unit)
    (h : step s op = (s', r)) (hr : r ≠ .ok ()) :
    Same s s' ∧ s'.ds <:+ s.ds ∧ s.ds.length ≤ s'.ds.length + op.arity ∧ s'.bigEndian = s.bigEndian := by
  cases op <;>
  simp only [step, popUsize, popBitstr, popCell, lift, readWith, nulRead, moveAbs, moveThen, pushC, packIntBo,
    packFloatBo] at h <;>
  (repeat' split at h) <;>
  simp_all [Same, POp.arity, suffix2] <;>
  (try (obtain ⟨rfl, rfl⟩ := h; simp_all [suffix2]))

/-! ### the invariant -/

theorem inv_step_aux (s : CurState) (op : POp) (s' : CurState) (r : Outcome Unit)
    (hi : Inv s) (h : step s op = (s', r)) : Inv s' := by
  obtain ⟨hp, hst⟩ := hi
  cases op <;>
  simp only [step, popUsize, popBitstr, popCell, lift, readWith, nulRead, moveAbs, moveThen, pushC, packIntBo,
    packFloatBo] at h <;>
  (repeat' split at h) <;>
  simp_all [Inv] <;>
  (try (obtain ⟨rfl, rfl⟩ := h)) <;>
  (try simp_all) <;>
  (try omega)

/-! ### what a word may do to the stash: nothing, push one frame, pop one frame -/

theorem stash_step (s : CurState) (op : POp) :
    (step s op).1.stash = s.stash ∨
    (step s op).1.stash = ⟨s.input, s.base, s.pos⟩ :: s.stash ∨
    (∃ f, s.stash = f :: (step s op).1.stash ∧ (step s op).2 = .ok () ∧
      (step s op).1.input = f.bits ∧ (step s op).1.base = f.base ∧ (step s op).1.pos = f.pos) := by
  cases op <;>
  simp only [step, popUsize, popBitstr, popCell, lift, readWith, nulRead, moveAbs, moveThen, pushC, packIntBo,
    packFloatBo] <;>
  (repeat' split) <;>
  simp_all

end Xeh.Cur

namespace Xeh.Cur
open Xeh

/-! ### successful reads -/

def POp.isRead : POp → Bool
  | .bits | .bytes | .readU _ _ | .readI _ _ | .readF _ _ | .uint | .int | .float
  | .magic | .nulbytestr | .cstr => true
  | _ => false

/-- the tagged number a numeric read word pushes -/
abbrev numCell (v : Cell) (len : Nat) (big : Bool) : Cell := .tagged v (numTags len big)

/-- `op`, run in state `s` (its arguments on the stack), asks for `n` bits and delivers `v` -/
def ReadSpec (s : CurState) (n : Nat) (v : Cell) : POp → Prop
  | .bits => ∃ c, s.ds.head? = some c ∧ c.toUsize = .ok n ∧ v = .bitstr (slice s n)
  | .bytes => ∃ c m, s.ds.head? = some c ∧ c.toUsize = .ok m ∧ n = m * 8 ∧ v = .bitstr (slice s n)
  | .readU k bo => n = k ∧ k ≤ 127 ∧
      v = numCell (.int (toUint (byteorder s bo) (slice s n))) n (byteorder s bo)
  | .readI k bo => n = k ∧ k ≤ 128 ∧
      v = numCell (.int (toInt (byteorder s bo) (slice s n))) n (byteorder s bo)
  | .readF k bo => n = k ∧
      ((k = 32 ∧ v = numCell (.real (f32to64 (UInt32.ofNat (toUint (byteorder s bo) (slice s n))))) n (byteorder s bo)) ∨
       (k = 64 ∧ v = numCell (.real (UInt64.ofNat (toUint (byteorder s bo) (slice s n)))) n (byteorder s bo)))
  | .uint => ∃ c, s.ds.head? = some c ∧ c.toUsize = .ok n ∧ n ≤ 127 ∧
      v = numCell (.int (toUint s.bigEndian (slice s n))) n s.bigEndian
  | .int => ∃ c, s.ds.head? = some c ∧ c.toUsize = .ok n ∧ n ≤ 128 ∧
      v = numCell (.int (toInt s.bigEndian (slice s n))) n s.bigEndian
  | .float => ∃ c, s.ds.head? = some c ∧ c.toUsize = .ok n ∧
      ((n = 32 ∧ v = numCell (.real (f32to64 (UInt32.ofNat (toUint s.bigEndian (slice s n))))) n s.bigEndian) ∨
       (n = 64 ∧ v = numCell (.real (UInt64.ofNat (toUint s.bigEndian (slice s n)))) n s.bigEndian))
  | .magic => ∃ c pat, s.ds.head? = some c ∧ c.toBitstr = .ok pat ∧ n = pat.length ∧ slice s n = pat ∧
      v = .bitstr pat
  | .nulbytestr => (s.input.length - s.pos) % 8 = 0 ∧
      n = scanNul (s.input.length - s.pos) (s.input.drop s.pos) ∧ v = .bitstr (slice s n)
  | .cstr => (s.input.length - s.pos) % 8 = 0 ∧
      n = scanNul (s.input.length - s.pos) (s.input.drop s.pos) ∧ v = .str (cstrChars (slice s n))
  | _ => False

theorem slice_length {s : CurState} {n : Nat} (h : s.pos + n ≤ s.input.length) : (slice s n).length = n := by
  simp [slice]; omega

theorem peek_ok {s : CurState} {n : Nat} {bs} (h : peek s n = .ok bs) :
    s.pos + n ≤ s.input.length ∧ bs = slice s n := by
  unfold peek at h
  split at h
  · simp at h
  · split at h
    · simp at h; exact ⟨by assumption, h.symm⟩
    · simp at h

@[simp] theorem slice_ds (s : CurState) (t : List Cell) (n : Nat) : slice { s with ds := t } n = slice s n := rfl
@[simp] theorem peek_ds (s : CurState) (t : List Cell) (n : Nat) : peek { s with ds := t } n = peek s n := rfl

theorem popCell_ok {s : CurState} {k s'} (h : popCell s k = (s', .ok ())) :
    ∃ c t, s.ds = c :: t ∧ k c { s with ds := t } = (s', .ok ()) := by
  unfold popCell at h
  split at h
  · simp at h
  · exact ⟨_, _, by assumption, h⟩

theorem lift_ok {α} {s : CurState} {o : Outcome α} {k s'} (h : lift s o k = (s', .ok ())) :
    ∃ a, o = .ok a ∧ k a = (s', .ok ()) := by
  unfold lift at h
  split at h
  · exact ⟨_, rfl, h⟩
  · simp at h
  · simp at h

theorem popUsize_ok {s : CurState} {k s'} (h : popUsize s k = (s', .ok ())) :
    ∃ c t n, s.ds = c :: t ∧ c.toUsize = .ok n ∧ k n { s with ds := t } = (s', .ok ()) := by
  obtain ⟨c, t, hd, h⟩ := popCell_ok h
  obtain ⟨n, hn, h⟩ := lift_ok h
  exact ⟨c, t, n, hd, hn, h⟩

theorem popBitstr_ok {s : CurState} {k s'} (h : popBitstr s k = (s', .ok ())) :
    ∃ c t b, s.ds = c :: t ∧ c.toBitstr = .ok b ∧ k b { s with ds := t } = (s', .ok ()) := by
  obtain ⟨c, t, hd, h⟩ := popCell_ok h
  obtain ⟨n, hn, h⟩ := lift_ok h
  exact ⟨c, t, n, hd, hn, h⟩

theorem moveThen_ok {s : CurState} {abs k s'} (h : moveThen s abs k = (s', .ok ())) :
    s.base ≤ abs ∧ abs ≤ s.base + s.input.length ∧ k { s with pos := abs - s.base } = (s', .ok ()) := by
  unfold moveThen at h
  split at h
  · rename_i hc; exact ⟨hc.1, hc.2, h⟩
  · simp at h

theorem readWith_ok {s : CurState} {n conv s'} (h : readWith s n conv = (s', .ok ())) :
    s.pos + n ≤ s.input.length ∧ ∃ c, conv (slice s n) = .ok c ∧
      s' = { s with pos := s.pos + n, ds := c :: s.ds } := by
  unfold readWith at h
  obtain ⟨bs, hb, h⟩ := lift_ok h
  obtain ⟨hfit, rfl⟩ := peek_ok hb
  obtain ⟨c, hc, h⟩ := lift_ok h
  obtain ⟨_, _, h⟩ := moveThen_ok h
  simp [pushC] at h
  refine ⟨hfit, c, hc, ?_⟩
  rw [← h]
  congr 1
  omega

end Xeh.Cur
