/-
Helper for C06 `open_close_lifo`: as long as a sequence of words never closes below a given depth,
the frames below that depth are still there, in order.
-/
import XehModel.Proofs.CursorLemmas

namespace Xeh.Cur
open Xeh

theorem runAll_cons (s : CurState) (op : POp) (ops : List POp) :
    runAll s (op :: ops) = runAll (step s op).1 ops := rfl

theorem runAll_append (s : CurState) (a b : List POp) : runAll s (a ++ b) = runAll (runAll s a) b := by
  induction a generalizing s with
  | nil => rfl
  | cons op a ih => simp [runAll_cons, ih]

/-- frames below a depth that is never undercut survive any sequence of words -/
theorem runAll_stash_suffix (B : List Frame) : ∀ (ops : List POp) (s : CurState),
    B <:+ s.stash →
    (∀ p, p <+: ops → B.length ≤ (runAll s p).stash.length) →
    B <:+ (runAll s ops).stash := by
  intro ops
  induction ops with
  | nil => intro s hB _; exact hB
  | cons op ops ih =>
    intro s hB hdepth
    rw [runAll_cons]
    have h1 : B.length ≤ (step s op).1.stash.length := by
      have := hdepth [op] (by simp)
      simpa [runAll] using this
    apply ih
    · rcases stash_step s op with h | h | ⟨f, hf, _⟩
      · rw [h]; exact hB
      · rw [h]; exact List.IsSuffix.trans hB (List.suffix_cons _ _)
      · rw [hf] at hB
        rcases List.suffix_cons_iff.mp hB with hEq | hS
        · exfalso
          rw [hEq] at h1
          simp at h1
          omega
        · exact hS
    · intro p hp
      have := hdepth (op :: p) (by simpa using hp)
      simpa [runAll_cons] using this

end Xeh.Cur
