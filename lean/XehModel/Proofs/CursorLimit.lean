/-
C14 at the level of the parsing / construction words (Model/Cursor.lean): the stack limit configured with
`set_stack_limit` is a hard bound for them as well, over any history.
-/
import XehModel.Proofs.CursorLemmas
import XehModel.Proofs.CursorLifo

set_option linter.unusedSimpArgs false
set_option linter.unusedVariables false

namespace Xeh.Cur
open Xeh

/-- any word but `set_stack_limit` itself: the limit stays, and the stack never grows beyond it (it may already be
    above it — a limit lowered below the current depth — and then it never grows at all) -/
theorem limit_step (s : CurState) (op : POp) (L : Nat) (h : s.stackLimit = some L) (hop : ∀ l, op ≠ .limit l) :
    (step s op).1.stackLimit = some L ∧ (step s op).1.ds.length ≤ max L s.ds.length := by
  cases op <;>
  simp only [step, popUsize, popBitstr, popCell, lift, readWith_eq, nulRead_eq, moveAbs, moveThen, pushThen, pushC, packIntBo,
    packFloatBo] <;>
  (repeat' split) <;>
  simp_all [full] <;>
  omega

/-- … hence over any history of words (failing ones included) -/
theorem limit_history (ops : List POp) (s : CurState) (L : Nat) (h : s.stackLimit = some L)
    (hops : ∀ op ∈ ops, ∀ l, op ≠ .limit l) :
    (runAll s ops).stackLimit = some L ∧ (runAll s ops).ds.length ≤ max L s.ds.length := by
  induction ops generalizing s with
  | nil => exact ⟨h, by show s.ds.length ≤ _; omega⟩
  | cons op ops ih =>
    rw [runAll_cons]
    have h1 := limit_step s op L h (hops op List.mem_cons_self)
    have h2 := ih (step s op).1 h1.1 (fun o ho => hops o (List.mem_cons_of_mem _ ho))
    exact ⟨h2.1, by have := h1.2; have := h2.2; omega⟩

end Xeh.Cur
