/-
Helper for C06 `read_ok`: a successful read word consumed exactly the bits it asked for, delivered
their decoding, and changed nothing else.
-/
import XehModel.Proofs.CursorLemmas
open Xeh Xeh.Cur
set_option linter.unusedSimpArgs false
namespace Xeh.Cur

theorem read_ok_aux (s : CurState) (op : POp) (s' : CurState) (hop : op.isRead = true)
    (h : step s op = (s', .ok ())) :
    ∃ n v, s.pos + n ≤ s.input.length ∧ ReadSpec s n v op ∧
      s' = { s with pos := s.pos + n, ds := v :: s.ds.drop op.arity } := by
  cases op <;> simp [POp.isRead] at hop <;> simp only [step] at h
  case bits =>
    obtain ⟨c, t, n, hd, hn, h⟩ := popUsize_ok h
    obtain ⟨hfit, v, hv, rfl⟩ := readWith_ok h
    simp at hv; subst hv
    exact ⟨n, _, hfit, ⟨c, by simp [hd], hn, rfl⟩, by simp [hd, POp.arity]⟩
  case bytes =>
    obtain ⟨c, t, m, hd, hn, h⟩ := popUsize_ok h
    split at h
    · simp at h
    · obtain ⟨hfit, v, hv, rfl⟩ := readWith_ok h
      simp at hv; subst hv
      exact ⟨m * 8, _, hfit, ⟨c, m, by simp [hd], hn, rfl, rfl⟩, by simp [hd, POp.arity]⟩
  case readU k bo =>
    obtain ⟨hfit, v, hv, rfl⟩ := readWith_ok h
    simp only [convUnsigned, slice_length hfit] at hv
    split at hv
    · simp at hv
    · simp at hv; subst hv
      exact ⟨k, _, hfit, ⟨rfl, by omega, rfl⟩, by simp [POp.arity]⟩
  case readI k bo =>
    obtain ⟨hfit, v, hv, rfl⟩ := readWith_ok h
    simp only [convSigned, slice_length hfit] at hv
    split at hv
    · simp at hv
    · simp at hv; subst hv
      exact ⟨k, _, hfit, ⟨rfl, by omega, rfl⟩, by simp [POp.arity]⟩
  case readF k bo =>
    obtain ⟨hfit, v, hv, rfl⟩ := readWith_ok h
    simp only [convFloat, slice_length hfit] at hv
    split at hv
    · simp at hv; subst hv
      exact ⟨k, _, hfit, ⟨rfl, .inl ⟨by assumption, rfl⟩⟩, by simp [POp.arity]⟩
    · split at hv
      · simp at hv; subst hv
        exact ⟨k, _, hfit, ⟨rfl, .inr ⟨by assumption, rfl⟩⟩, by simp [POp.arity]⟩
      · simp at hv
  case uint =>
    obtain ⟨c, t, n, hd, hn, h⟩ := popUsize_ok h
    obtain ⟨hfit, v, hv, rfl⟩ := readWith_ok h
    have hfit' : s.pos + n ≤ s.input.length := hfit
    simp only [convUnsigned, slice_ds, slice_length hfit'] at hv
    split at hv
    · simp at hv
    · simp at hv; subst hv
      exact ⟨n, _, hfit, ⟨c, by simp [hd], hn, by omega, rfl⟩, by simp [hd, POp.arity]⟩
  case int =>
    obtain ⟨c, t, n, hd, hn, h⟩ := popUsize_ok h
    obtain ⟨hfit, v, hv, rfl⟩ := readWith_ok h
    have hfit' : s.pos + n ≤ s.input.length := hfit
    simp only [convSigned, slice_ds, slice_length hfit'] at hv
    split at hv
    · simp at hv
    · simp at hv; subst hv
      exact ⟨n, _, hfit, ⟨c, by simp [hd], hn, by omega, rfl⟩, by simp [hd, POp.arity]⟩
  case float =>
    obtain ⟨c, t, n, hd, hn, h⟩ := popUsize_ok h
    obtain ⟨hfit, v, hv, rfl⟩ := readWith_ok h
    have hfit' : s.pos + n ≤ s.input.length := hfit
    simp only [convFloat, slice_ds, slice_length hfit'] at hv
    split at hv
    · simp at hv; subst hv
      exact ⟨n, _, hfit, ⟨c, by simp [hd], hn, .inl ⟨by assumption, rfl⟩⟩, by simp [hd, POp.arity]⟩
    · split at hv
      · simp at hv; subst hv
        exact ⟨n, _, hfit, ⟨c, by simp [hd], hn, .inr ⟨by assumption, rfl⟩⟩, by simp [hd, POp.arity]⟩
      · simp at hv
  case magic =>
    obtain ⟨c, t, pat, hd, hp, h⟩ := popBitstr_ok h
    obtain ⟨hfit, v, hv, rfl⟩ := readWith_ok h
    have hfit' : s.pos + pat.length ≤ s.input.length := hfit
    simp only [slice_ds] at hv
    by_cases heq : slice s pat.length = pat
    · simp only [heq, ne_eq, not_true_eq_false, if_false, Outcome.ok.injEq] at hv
      subst hv
      refine ⟨pat.length, .bitstr pat, hfit, ⟨c, pat, by simp [hd], hp, rfl, heq, rfl⟩, ?_⟩
      simp [hd, POp.arity]
    · simp [heq] at hv
  case nulbytestr =>
    rw [nulRead_eq] at h
    obtain ⟨r, hr, h⟩ := lift_ok h
    have hfit := rest_fit hr
    simp only [rest] at hr
    split at hr
    · simp at hr; subst hr
      simp only [List.length_drop] at h hfit
      split at h
      · simp at h
      · rename_i hm
        split at h
        · simp at h
        · simp at h hm
          refine ⟨scanNul (s.input.length - s.pos) (s.input.drop s.pos), _, hfit, ⟨hm, rfl, rfl⟩, ?_⟩
          rw [← h]; simp [POp.arity, slice]
    · simp at hr
  case cstr =>
    rw [nulRead_eq] at h
    obtain ⟨r, hr, h⟩ := lift_ok h
    have hfit := rest_fit hr
    simp only [rest] at hr
    split at hr
    · simp at hr; subst hr
      simp only [List.length_drop] at h hfit
      split at h
      · simp at h
      · rename_i hm
        split at h
        · simp at h
        · simp at h hm
          refine ⟨scanNul (s.input.length - s.pos) (s.input.drop s.pos), _, hfit, ⟨hm, rfl, rfl⟩, ?_⟩
          rw [← h]; simp [POp.arity, slice]
    · simp at hr

/-- a read word that succeeded found room for its result: after it had taken its arguments the stack was below
    the limit (so with the stack at the limit — counted without the word's own arguments — no read succeeds) -/
theorem read_room_aux (s : CurState) (op : POp) (s' : CurState) (hop : op.isRead = true)
    (h : step s op = (s', .ok ())) : full { s with ds := s.ds.drop op.arity } = false := by
  cases op <;> simp [POp.isRead] at hop <;> simp only [step] at h
  case bits =>
    obtain ⟨c, t, n, hd, hn, h⟩ := popUsize_ok h
    simpa [hd, POp.arity] using readWith_ok_room h
  case bytes =>
    obtain ⟨c, t, m, hd, hn, h⟩ := popUsize_ok h
    split at h
    · simp at h
    · simpa [hd, POp.arity] using readWith_ok_room h
  case readU k bo => simpa [POp.arity] using readWith_ok_room h
  case readI k bo => simpa [POp.arity] using readWith_ok_room h
  case readF k bo => simpa [POp.arity] using readWith_ok_room h
  case uint =>
    obtain ⟨c, t, n, hd, hn, h⟩ := popUsize_ok h
    simpa [hd, POp.arity] using readWith_ok_room h
  case int =>
    obtain ⟨c, t, n, hd, hn, h⟩ := popUsize_ok h
    simpa [hd, POp.arity] using readWith_ok_room h
  case float =>
    obtain ⟨c, t, n, hd, hn, h⟩ := popUsize_ok h
    simpa [hd, POp.arity] using readWith_ok_room h
  case magic =>
    obtain ⟨c, t, pat, hd, hp, h⟩ := popBitstr_ok h
    simpa [hd, POp.arity] using readWith_ok_room h
  case nulbytestr =>
    rw [nulRead_eq] at h
    obtain ⟨r, hr, h⟩ := lift_ok h
    split at h
    · simp at h
    · split at h
      · simp at h
      · rename_i hf; simpa [POp.arity] using hf
  case cstr =>
    rw [nulRead_eq] at h
    obtain ⟨r, hr, h⟩ := lift_ok h
    split at h
    · simp at h
    · split at h
      · simp at h
      · rename_i hf; simpa [POp.arity] using hf

end Xeh.Cur
