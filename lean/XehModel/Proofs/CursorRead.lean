/-
Helper for C06 `read_ok`: a successful read word consumed exactly the bits it asked for, delivered
their decoding, and changed nothing else.
-/
import XehModel.Proofs.CursorLemmas
open Xeh Xeh.Cur
set_option linter.unusedSimpArgs false
namespace Xeh.Cur

theorem read_ok_aux (s : CurState) (op : POp) (s' : CurState) (hop : op.isRead = true)
    (h : step s op = (s', .ok ())) :
    ∃ n v, s.pos + n ≤ s.input.length ∧ ReadSpec s n v op ∧
      s' = { s with pos := s.pos + n, ds := v :: s.ds.drop op.arity } := by
  cases op <;> simp [POp.isRead] at hop <;> simp only [step] at h
  case bits =>
    obtain ⟨c, t, n, hd, hn, h⟩ := popUsize_ok h
    obtain ⟨hfit, v, hv, rfl⟩ := readWith_ok h
    simp at hv; subst hv
    exact ⟨n, _, hfit, ⟨c, by simp [hd], hn, rfl⟩, by simp [hd, POp.arity]⟩
  case bytes =>
    obtain ⟨c, t, m, hd, hn, h⟩ := popUsize_ok h
    split at h
    · simp at h
    · obtain ⟨hfit, v, hv, rfl⟩ := readWith_ok h
      simp at hv; subst hv
      exact ⟨m * 8, _, hfit, ⟨c, m, by simp [hd], hn, rfl, rfl⟩, by simp [hd, POp.arity]⟩
  case readU k bo =>
    obtain ⟨hfit, v, hv, rfl⟩ := readWith_ok h
    simp only [convUnsigned, slice_length hfit] at hv
    split at hv
    · simp at hv
    · simp at hv; subst hv
      exact ⟨k, _, hfit, ⟨rfl, by omega, rfl⟩, by simp [POp.arity]⟩
  case readI k bo =>
    obtain ⟨hfit, v, hv, rfl⟩ := readWith_ok h
    simp only [convSigned, slice_length hfit] at hv
    split at hv
    · simp at hv
    · simp at hv; subst hv
      exact ⟨k, _, hfit, ⟨rfl, by omega, rfl⟩, by simp [POp.arity]⟩
  case readF k bo =>
    obtain ⟨hfit, v, hv, rfl⟩ := readWith_ok h
    simp only [convFloat, slice_length hfit] at hv
    split at hv
    · simp at hv; subst hv
      exact ⟨k, _, hfit, ⟨rfl, .inl ⟨by assumption, rfl⟩⟩, by simp [POp.arity]⟩
    · split at hv
      · simp at hv; subst hv
        exact ⟨k, _, hfit, ⟨rfl, .inr ⟨by assumption, rfl⟩⟩, by simp [POp.arity]⟩
      · simp at hv
  case uint =>
    obtain ⟨c, t, n, hd, hn, h⟩ := popUsize_ok h
    obtain ⟨hfit, v, hv, rfl⟩ := readWith_ok h
    have hfit' : s.pos + n ≤ s.input.length := hfit
    simp only [convUnsigned, slice_ds, slice_length hfit'] at hv
    split at hv
    · simp at hv
    · simp at hv; subst hv
      exact ⟨n, _, hfit, ⟨c, by simp [hd], hn, by omega, rfl⟩, by simp [hd, POp.arity]⟩
  case int =>
    obtain ⟨c, t, n, hd, hn, h⟩ := popUsize_ok h
    obtain ⟨hfit, v, hv, rfl⟩ := readWith_ok h
    have hfit' : s.pos + n ≤ s.input.length := hfit
    simp only [convSigned, slice_ds, slice_length hfit'] at hv
    split at hv
    · simp at hv
    · simp at hv; subst hv
      exact ⟨n, _, hfit, ⟨c, by simp [hd], hn, by omega, rfl⟩, by simp [hd, POp.arity]⟩
  case float =>
    obtain ⟨c, t, n, hd, hn, h⟩ := popUsize_ok h
    obtain ⟨hfit, v, hv, rfl⟩ := readWith_ok h
    have hfit' : s.pos + n ≤ s.input.length := hfit
    simp only [convFloat, slice_ds, slice_length hfit'] at hv
    split at hv
    · simp at hv; subst hv
      exact ⟨n, _, hfit, ⟨c, by simp [hd], hn, .inl ⟨by assumption, rfl⟩⟩, by simp [hd, POp.arity]⟩
    · split at hv
      · simp at hv; subst hv
        exact ⟨n, _, hfit, ⟨c, by simp [hd], hn, .inr ⟨by assumption, rfl⟩⟩, by simp [hd, POp.arity]⟩
      · simp at hv
  case magic =>
    obtain ⟨c, t, pat, hd, hp, h⟩ := popBitstr_ok h
    obtain ⟨bs, hb, h⟩ := lift_ok h
    obtain ⟨hfit, rfl⟩ := peek_ok hb
    split at h
    · simp at h
    · rename_i heq
      simp at heq
      obtain ⟨_, _, h⟩ := moveThen_ok h
      simp [pushC] at h
      refine ⟨pat.length, .bitstr pat, hfit, ⟨c, pat, by simp [hd], hp, rfl, heq, rfl⟩, ?_⟩
      rw [← h]; simp [hd, POp.arity, heq]; omega
  case nulbytestr =>
    simp only [nulRead] at h
    obtain ⟨r, hr, h⟩ := lift_ok h
    simp only [rest] at hr
    split at hr
    · simp at hr; subst hr
      simp only [List.length_drop] at h
      split at h
      · simp at h
      · rename_i hm
        obtain ⟨_, hle, h⟩ := moveThen_ok h
        simp [pushC] at h hm
        refine ⟨scanNul (s.input.length - s.pos) (s.input.drop s.pos), _, by omega, ⟨hm, rfl, rfl⟩, ?_⟩
        rw [← h]; simp [POp.arity, slice]; omega
    · simp at hr
  case cstr =>
    simp only [nulRead] at h
    obtain ⟨r, hr, h⟩ := lift_ok h
    simp only [rest] at hr
    split at hr
    · simp at hr; subst hr
      simp only [List.length_drop] at h
      split at h
      · simp at h
      · rename_i hm
        obtain ⟨_, hle, h⟩ := moveThen_ok h
        simp [pushC] at h hm
        refine ⟨scanNul (s.input.length - s.pos) (s.input.drop s.pos), _, by omega, ⟨hm, rfl, rfl⟩, ?_⟩
        rw [← h]; simp [POp.arity, slice]; omega
    · simp at hr

end Xeh.Cur
