/-
Helper lemmas for C07: evaluation of the pack / parse programs of a field.
-/
import XehModel.Model.CursorRecord
import XehModel.Proofs.CursorBitsLemmas
import XehModel.Proofs.CursorLemmas

set_option linter.unusedSimpArgs false
set_option linter.unusedVariables false
set_option linter.unusedSectionVars false

namespace Xeh.Cur
open Xeh

/-! ### running programs -/

theorem run_nil (s : CurState) : run s [] = (s, .ok ()) := rfl

theorem run_cons_ok {s s1 : CurState} {op : POp} {ops : List POp} (h : step s op = (s1, .ok ())) :
    run s (op :: ops) = run s1 ops := by
  simp [run, h]

theorem run_append_ok {s s1 : CurState} {a b : List POp} (h : run s a = (s1, .ok ())) :
    run s (a ++ b) = run s1 b := by
  induction a generalizing s with
  | nil => simp [run] at h; subst h; rfl
  | cons op a ih =>
    simp only [run, List.cons_append] at h ⊢
    split at h
    · rename_i s2 hs; exact ih h
    · rename_i r hne
      exfalso
      rcases hr : step s op with ⟨s2, o⟩
      rw [hr] at h
      cases o with
      | ok u => exact hne s2 (by rw [hr])
      | err e => simp at h
      | panic p => simp at h

/-! ### widths -/

theorem Field.bits_length (f : Field) : f.bits.length = f.width := by
  cases f <;> simp [Field.bits, Field.width]
  case flt w big form x => split <;> simp

theorem packAll_nil : packAll [] = [] := rfl

theorem packAll_cons (f : Field) (fs : List Field) : packAll (f :: fs) = f.bits ++ packAll fs := by
  simp [packAll]

theorem packAll_append (a b : List Field) : packAll (a ++ b) = packAll a ++ packAll b := by
  simp [packAll]

theorem packAll_length (fs : List Field) : (packAll fs).length = (fs.map Field.width).sum := by
  induction fs with
  | nil => rfl
  | cons f fs ih => simp [packAll_cons, Field.bits_length, ih]

/-! ### a read that must succeed -/

theorem toUsize_nat (w : Nat) (h : w ≤ usizeMaxN) : (Cell.int (w : Nat)).toUsize = .ok w := by
  unfold usizeMaxN at h
  have h1 : ¬ ((w : Int) < 0) := by omega
  have h2 : ¬ ((18446744073709551615 : Int) < (w : Int)) := by omega
  simp [Cell.toUsize, Cell.value, usizeMax, h1, h2]

theorem slice_of_drop {s : CurState} {B tail : List Bool} {n : Nat}
    (hpos : s.pos ≤ s.input.length) (hin : s.input.drop s.pos = B ++ tail) (hB : B.length = n) :
    s.pos + n ≤ s.input.length ∧ slice s n = B := by
  have hl := congrArg List.length hin
  simp only [List.length_drop, List.length_append] at hl
  refine ⟨by omega, ?_⟩
  unfold slice
  rw [hin, ← hB, List.take_left]

/-- no stack limit configured: there is always room (the round-trip theorems of C07 are about interpreters without a
    stack limit; what a limit does to a read is C06's `read_refused_moves_nothing`) -/
theorem full_none {s : CurState} (h : s.stackLimit = none) : full s = false := by
  simp [full, h]

theorem readWith_eval (s : CurState) (n : Nat) (conv : List Bool → Outcome Cell) (B tail : List Bool)
    (c : Cell) (hpos : s.pos ≤ s.input.length) (hin : s.input.drop s.pos = B ++ tail)
    (hB : B.length = n) (hbuf : s.base + s.input.length ≤ usizeMaxN) (hc : conv B = .ok c)
    (hlim : s.stackLimit = none := by assumption) :
    readWith s n conv = ({ s with pos := s.pos + n, ds := c :: s.ds }, .ok ()) := by
  obtain ⟨hfit, hsl⟩ := slice_of_drop hpos hin hB
  have h1 : ¬ (s.base + s.pos + n > usizeMaxN) := by omega
  unfold slice at hsl
  simp only [readWith_eq, peek, h1, hfit, if_true, if_false, lift, hsl, hc, full_none hlim, Bool.false_eq_true]

/-! ### evaluation of the single words used by the parse programs -/

theorem step_bo (s : CurState) (big : Bool) : step s (boOp big) = ({ s with bigEndian := big }, .ok ()) := by
  cases big <;> rfl

theorem step_push (s : CurState) (c : Cell) (hlim : s.stackLimit = none := by assumption) :
    step s (.push c) = ({ s with ds := c :: s.ds }, .ok ()) := by
  simp [step, pushC, full_none hlim]

section
variable (s : CurState) (t : List Cell) (B tail : List Bool)
  (hpos : s.pos ≤ s.input.length) (hin : s.input.drop s.pos = B ++ tail)
  (hbuf : s.base + s.input.length ≤ usizeMaxN)
include hpos hin hbuf

theorem usize_of_fit : B.length ≤ usizeMaxN := by
  have := (slice_of_drop hpos hin rfl).1; omega

theorem step_sized_eval (w : Nat) (hds : s.ds = .int (w : Nat) :: t) (hB : B.length = w)
    (conv : List Bool → Outcome Cell) (c : Cell) (hc : conv B = .ok c) (op : POp)
    (hop : step s op = popUsize s fun n s => readWith s n conv) (hlim : s.stackLimit = none := by assumption) :
    step s op = ({ s with pos := s.pos + w, ds := c :: t }, .ok ()) := by
  have hw : w ≤ usizeMaxN := by rw [← hB]; exact usize_of_fit s B tail hpos hin hbuf
  rw [hop]
  simp only [popUsize, popCell, hds, lift, toUsize_nat w hw]
  rw [readWith_eval { s with ds := t } w conv B tail c hpos hin hB hbuf hc]

theorem step_int_eval (w : Nat) (hds : s.ds = .int (w : Nat) :: t) (hB : B.length = w) (hw : w ≤ 128) (hlim : s.stackLimit = none := by assumption) :
    step s .int = ({ s with pos := s.pos + w, ds := numCell (.int (toInt s.bigEndian B)) w s.bigEndian :: t }, .ok ()) := by
  apply step_sized_eval s t B tail hpos hin hbuf w hds hB (convSigned s.bigEndian)
  · simp [convSigned, hB]; omega
  · rfl

theorem step_uint_eval (w : Nat) (hds : s.ds = .int (w : Nat) :: t) (hB : B.length = w) (hw : w ≤ 127) (hlim : s.stackLimit = none := by assumption) :
    step s .uint = ({ s with pos := s.pos + w, ds := numCell (.int (toUint s.bigEndian B)) w s.bigEndian :: t }, .ok ()) := by
  apply step_sized_eval s t B tail hpos hin hbuf w hds hB (convUnsigned s.bigEndian)
  · simp [convUnsigned, hB]; omega
  · rfl

theorem step_bits_eval (w : Nat) (hds : s.ds = .int (w : Nat) :: t) (hB : B.length = w) (hlim : s.stackLimit = none := by assumption) :
    step s .bits = ({ s with pos := s.pos + w, ds := .bitstr B :: t }, .ok ()) := by
  apply step_sized_eval s t B tail hpos hin hbuf w hds hB (fun bs => .ok (.bitstr bs))
  · rfl
  · rfl

theorem step_readI_eval (w : Nat) (bo : Option Bool) (hB : B.length = w) (hw : w ≤ 128) (hlim : s.stackLimit = none := by assumption) :
    step s (.readI w bo) = ({ s with pos := s.pos + w, ds := numCell (.int (toInt (byteorder s bo) B)) w (byteorder s bo) :: s.ds }, .ok ()) := by
  simp only [step]
  rw [readWith_eval s w _ B tail _ hpos hin hB hbuf]
  simp [convSigned, hB]; omega

theorem step_readU_eval (w : Nat) (bo : Option Bool) (hB : B.length = w) (hw : w ≤ 127) (hlim : s.stackLimit = none := by assumption) :
    step s (.readU w bo) = ({ s with pos := s.pos + w, ds := numCell (.int (toUint (byteorder s bo) B)) w (byteorder s bo) :: s.ds }, .ok ()) := by
  simp only [step]
  rw [readWith_eval s w _ B tail _ hpos hin hB hbuf]
  simp [convUnsigned, hB]; omega

end

/-! ### NUL-terminated byte strings -/

theorem beVal_byte (b : Nat) (h : b < 256) : beVal (beBits 8 b) = b := by
  rw [beVal_beBits]; exact Nat.mod_eq_of_lt h

theorem scanNul_bytes (tail : List Bool) : ∀ (l : List Nat), (∀ b ∈ l, 0 < b ∧ b < 256) →
    ∀ f, l.length + 1 ≤ f → scanNul f (bytesToBits (l ++ [0]) ++ tail) = 8 * (l.length + 1) := by
  intro l
  induction l with
  | nil =>
    intro _ f hf
    obtain ⟨f', rfl⟩ : ∃ f', f = f' + 1 := ⟨f - 1, by omega⟩
    simp only [List.nil_append, bytesToBits_cons, bytesToBits_nil, List.append_nil, scanNul]
    have ht : List.take 8 (beBits 8 0 ++ tail) = beBits 8 0 := List.take_left' (by simp)
    have hne : (beBits 8 0 ++ tail).isEmpty = false := by simp [beBits]
    simp [hne, ht, beVal_beBits]
  | cons b l ih =>
    intro hall f hf
    obtain ⟨f', rfl⟩ : ∃ f', f = f' + 1 := ⟨f - 1, by simp at hf; omega⟩
    have hb := hall b (by simp)
    simp only [List.cons_append, bytesToBits_cons, List.append_assoc, scanNul]
    have ht : List.take 8 (beBits 8 b ++ (bytesToBits (l ++ [0]) ++ tail)) = beBits 8 b := List.take_left' (by simp)
    have hd : List.drop 8 (beBits 8 b ++ (bytesToBits (l ++ [0]) ++ tail)) = bytesToBits (l ++ [0]) ++ tail :=
      List.drop_left' (by simp)
    have hne : (beBits 8 b ++ (bytesToBits (l ++ [0]) ++ tail)).isEmpty = false := by simp [beBits]
    have hbv : beVal (beBits 8 b) ≠ 0 := by rw [beVal_byte b hb.2]; omega
    simp only [hne, ht, hd, hbv, Bool.false_eq_true, if_false]
    rw [ih (fun x hx => hall x (by simp [hx])) f' (by simp at hf; omega)]
    simp; omega

theorem chunks8_bytes : ∀ (l : List Nat) (f : Nat), l.length ≤ f →
    chunks8 f (bytesToBits l) = l.map (beBits 8) := by
  intro l
  induction l with
  | nil => intro f _; cases f <;> simp [chunks8]
  | cons b l ih =>
    intro f hf
    obtain ⟨f', rfl⟩ : ∃ f', f = f' + 1 := ⟨f - 1, by simp at hf; omega⟩
    have ht : List.take 8 (beBits 8 b ++ bytesToBits l) = beBits 8 b := List.take_left' (by simp)
    have hd : List.drop 8 (beBits 8 b ++ bytesToBits l) = bytesToBits l := List.drop_left' (by simp)
    have hne : (beBits 8 b ++ bytesToBits l).isEmpty = false := by simp [beBits]
    simp only [bytesToBits_cons, chunks8, hne, ht, hd, Bool.false_eq_true, if_false, List.map_cons]
    rw [ih f' (by simp at hf; omega)]

theorem bytes8_bytes (l : List Nat) (h : ∀ b ∈ l, b < 256) : bytes8 (bytesToBits l) = l := by
  unfold bytes8
  rw [chunks8_bytes l _ (by simp; omega), List.map_map]
  conv => rhs; rw [← List.map_id l]
  apply List.map_congr_left
  intro b hb
  simp [beVal_byte b (h b hb)]

theorem takeWhile_nz (l : List Nat) (h : ∀ b ∈ l, 0 < b) : (l ++ [0]).takeWhile (· ≠ 0) = l := by
  induction l with
  | nil => simp
  | cons b l ih =>
    have hb := h b (by simp)
    simp only [List.cons_append]
    rw [List.takeWhile_cons_of_pos (by simp; omega), ih (fun x hx => h x (by simp [hx]))]

theorem cstrChars_bytes (l : List Nat) (h : ∀ b ∈ l, 0 < b ∧ b < 256) :
    cstrChars (bytesToBits (l ++ [0])) = l.map Char.ofNat := by
  unfold cstrChars
  rw [bytes8_bytes _ (by
    intro b hb
    simp at hb
    rcases hb with hb | hb
    · exact (h b hb).2
    · omega), takeWhile_nz l (fun b hb => (h b hb).1)]


def Field.isCstr : Field → Bool
  | .cstr _ => true
  | _ => false

section
variable (s : CurState) (t : List Cell) (B tail : List Bool)
  (hpos : s.pos ≤ s.input.length) (hin : s.input.drop s.pos = B ++ tail)
  (hbuf : s.base + s.input.length ≤ usizeMaxN)
include hpos hin hbuf

theorem step_float32_eval (hds : s.ds = .int ((32 : Nat) : Nat) :: t) (hB : B.length = 32) (hlim : s.stackLimit = none := by assumption) :
    step s .float = ({ s with pos := s.pos + 32, ds := numCell (.real (f32to64 (UInt32.ofNat (toUint s.bigEndian B)))) 32 s.bigEndian :: t }, .ok ()) := by
  have hw : 32 ≤ usizeMaxN := by decide
  simp only [step, popUsize, popCell, hds, lift, toUsize_nat 32 hw]
  rw [readWith_eval { s with ds := t } 32 _ B tail _ hpos hin hB hbuf]
  simp [convFloat, hB]

theorem step_float64_eval (hds : s.ds = .int ((64 : Nat) : Nat) :: t) (hB : B.length = 64) (hlim : s.stackLimit = none := by assumption) :
    step s .float = ({ s with pos := s.pos + 64, ds := numCell (.real (UInt64.ofNat (toUint s.bigEndian B))) 64 s.bigEndian :: t }, .ok ()) := by
  have hw : 64 ≤ usizeMaxN := by decide
  simp only [step, popUsize, popCell, hds, lift, toUsize_nat 64 hw]
  rw [readWith_eval { s with ds := t } 64 _ B tail _ hpos hin hB hbuf]
  simp [convFloat, hB]

theorem step_readF32_eval (bo : Option Bool) (hB : B.length = 32) (hlim : s.stackLimit = none := by assumption) :
    step s (.readF 32 bo) = ({ s with pos := s.pos + 32, ds := numCell (.real (f32to64 (UInt32.ofNat (toUint (byteorder s bo) B)))) 32 (byteorder s bo) :: s.ds }, .ok ()) := by
  simp only [step]
  rw [readWith_eval s 32 _ B tail _ hpos hin hB hbuf]
  simp [convFloat, hB]

theorem step_readF64_eval (bo : Option Bool) (hB : B.length = 64) (hlim : s.stackLimit = none := by assumption) :
    step s (.readF 64 bo) = ({ s with pos := s.pos + 64, ds := numCell (.real (UInt64.ofNat (toUint (byteorder s bo) B))) 64 (byteorder s bo) :: s.ds }, .ok ()) := by
  simp only [step]
  rw [readWith_eval s 64 _ B tail _ hpos hin hB hbuf]
  simp [convFloat, hB]

theorem step_bytes_eval (m : Nat) (hds : s.ds = .int (m : Nat) :: t) (hB : B.length = m * 8) (hlim : s.stackLimit = none := by assumption) :
    step s .bytes = ({ s with pos := s.pos + m * 8, ds := .bitstr B :: t }, .ok ()) := by
  have hw : m * 8 ≤ usizeMaxN := by rw [← hB]; exact usize_of_fit s B tail hpos hin hbuf
  have hm : m ≤ usizeMaxN := by omega
  simp only [step, popUsize, popCell, hds, lift, toUsize_nat m hm]
  have : ¬ (m * 8 > usizeMaxN) := by omega
  simp only [this, if_false]
  rw [readWith_eval { s with ds := t } (m * 8) _ B tail (.bitstr B) hpos hin hB hbuf rfl]

theorem step_cstr_eval (l : List Nat) (hl : ∀ b ∈ l, 0 < b ∧ b < 256) (hB : B = bytesToBits (l ++ [0]))
    (h8 : (B ++ tail).length % 8 = 0) (hlim : s.stackLimit = none := by assumption) :
    step s .cstr = ({ s with pos := s.pos + 8 * (l.length + 1), ds := .str (l.map Char.ofNat) :: s.ds }, .ok ()) := by
  have hBl : B.length = 8 * (l.length + 1) := by rw [hB]; simp
  obtain ⟨hfit, hsl⟩ := slice_of_drop hpos hin hBl
  have hscan : scanNul (B ++ tail).length (B ++ tail) = 8 * (l.length + 1) := by
    rw [hB]; apply scanNul_bytes tail l hl; simp; omega
  have h3 : s.base ≤ s.base + s.pos + 8 * (l.length + 1) ∧
      s.base + s.pos + 8 * (l.length + 1) ≤ s.base + s.input.length := by omega
  have htake : List.take (8 * (l.length + 1)) (B ++ tail) = B := by rw [← hBl]; exact List.take_left
  have h8' : ¬ ((B ++ tail).length % 8 ≠ 0) := by omega
  simp only [step, nulRead_eq, rest, hpos, if_true, lift, hin, h8', if_false, hscan, full_none hlim, Bool.false_eq_true,
    htake]
  rw [hB, cstrChars_bytes l hl]

end

/-! ### one field parsed back -/

theorem natCast_emod_toNat (v : Int) (w : Nat) : (((v % 2 ^ w).toNat : Nat) : Int) = v % 2 ^ w := by
  apply Int.toNat_of_nonneg
  exact Int.emod_nonneg _ (Int.ne_of_gt (Int.pow_pos (by decide)))

theorem max_emod (v : Int) (w : Nat) : max (v % 2 ^ w) 0 = v % 2 ^ w :=
  Int.max_eq_left (Int.emod_nonneg _ (Int.ne_of_gt (Int.pow_pos (by decide))))

theorem u32_roundtrip (u : UInt32) (big : Bool) :
    UInt32.ofNat (toUint big (fromInt big (u.toNat : Int) 32)) = u := by
  rw [toUint_fromInt big _ 32 (by omega)]
  have h : ((u.toNat : Nat) : Int) % 2 ^ 32 = (u.toNat : Int) := by
    have := UInt32.toNat_lt u
    apply Int.emod_eq_of_lt <;> omega
  rw [h, Int.toNat_natCast, UInt32.ofNat_toNat]

theorem u64_roundtrip (u : UInt64) (big : Bool) :
    UInt64.ofNat (toUint big (fromInt big (u.toNat : Int) 64)) = u := by
  rw [toUint_fromInt big _ 64 (by omega)]
  have h : ((u.toNat : Nat) : Int) % 2 ^ 64 = (u.toNat : Int) := by
    have := UInt64.toNat_lt u
    apply Int.emod_eq_of_lt <;> omega
  rw [h, Int.toNat_natCast, UInt64.ofNat_toNat]

theorem parse_field (f : Field) (s : CurState) (tail : List Bool)
    (hok : f.Ok) (hpos : s.pos ≤ s.input.length) (hin : s.input.drop s.pos = f.bits ++ tail)
    (hbuf : s.base + s.input.length ≤ usizeMaxN)
    (hcstr : f.isCstr = true → (f.bits ++ tail).length % 8 = 0) (hlim : s.stackLimit = none := by assumption) :
    ∃ be, run s f.parseProg =
      ({ s with pos := s.pos + f.width, ds := f.value :: s.ds, bigEndian := be }, .ok ()) := by
  cases f with
  | int w sg big form v =>
    simp only [Field.Ok] at hok
    obtain ⟨hw, hform⟩ := hok
    simp only [Field.bits] at hin
    have hB : (fromInt big v w).length = w := fromInt_length _ _ _
    cases form <;> cases sg <;> simp only [Field.parseProg, Field.width, Field.value, if_true, if_false,
      Bool.false_eq_true] at hw ⊢
    · -- generic unsigned
      refine ⟨big, ?_⟩
      rw [run_cons_ok (step_bo s big), run_cons_ok (step_push _ _)]
      refine (run_cons_ok (step_uint_eval _ s.ds _ tail ?_ ?_ ?_ w rfl hB hw)).trans ?_
      · exact hpos
      · exact hin
      · exact hbuf
      simp [run_nil, numCell, toUint_fromInt big v w (by omega), natCast_emod_toNat, max_emod]
    · refine ⟨big, ?_⟩
      rw [run_cons_ok (step_bo s big), run_cons_ok (step_push _ _)]
      refine (run_cons_ok (step_int_eval _ s.ds _ tail ?_ ?_ ?_ w rfl hB hw)).trans ?_
      · exact hpos
      · exact hin
      · exact hbuf
      simp [run_nil, numCell, toInt_fromInt big v w hw]
    · refine ⟨s.bigEndian, ?_⟩
      rw [run_cons_ok (step_readU_eval s _ tail hpos hin hbuf w (some big) hB hw), run_nil]
      simp [numCell, byteorder, toUint_fromInt big v w (by omega), natCast_emod_toNat, max_emod]
    · refine ⟨s.bigEndian, ?_⟩
      rw [run_cons_ok (step_readI_eval s _ tail hpos hin hbuf w (some big) hB hw), run_nil]
      simp [numCell, byteorder, toInt_fromInt big v w hw]
    · refine ⟨big, ?_⟩
      rw [run_cons_ok (step_bo s big)]
      refine (run_cons_ok (step_readU_eval _ _ tail ?_ ?_ ?_ w none hB hw)).trans ?_
      · exact hpos
      · exact hin
      · exact hbuf
      simp [run_nil, numCell, byteorder, toUint_fromInt big v w (by omega), natCast_emod_toNat, max_emod]
    · refine ⟨big, ?_⟩
      rw [run_cons_ok (step_bo s big)]
      refine (run_cons_ok (step_readI_eval _ _ tail ?_ ?_ ?_ w none hB hw)).trans ?_
      · exact hpos
      · exact hin
      · exact hbuf
      simp [run_nil, numCell, byteorder, toInt_fromInt big v w hw]
  | flt w big form x =>
    simp only [Field.Ok] at hok
    rcases hok with rfl | rfl
    · simp only [Field.bits, if_true] at hin
      have hB : (fromInt big ((f64to32 x).toNat : Int) 32).length = 32 := fromInt_length _ _ _
      cases form <;> simp only [Field.parseProg, Field.width, Field.value, if_true]
      · refine ⟨big, ?_⟩
        rw [run_cons_ok (step_bo s big), run_cons_ok (step_push _ _)]
        refine (run_cons_ok (step_float32_eval _ s.ds _ tail ?_ ?_ ?_ rfl hB)).trans ?_
        · exact hpos
        · exact hin
        · exact hbuf
        simp [run_nil, numCell, u32_roundtrip]
      · refine ⟨s.bigEndian, ?_⟩
        rw [run_cons_ok (step_readF32_eval s _ tail hpos hin hbuf (some big) hB), run_nil]
        simp [numCell, byteorder, u32_roundtrip]
      · refine ⟨big, ?_⟩
        rw [run_cons_ok (step_bo s big)]
        refine (run_cons_ok (step_readF32_eval _ _ tail ?_ ?_ ?_ none hB)).trans ?_
        · exact hpos
        · exact hin
        · exact hbuf
        simp [run_nil, numCell, byteorder, u32_roundtrip]
    · simp only [Field.bits, show ¬ (64 = 32) by decide, if_false] at hin
      have hB : (fromInt big (x.toNat : Int) 64).length = 64 := fromInt_length _ _ _
      cases form <;> simp only [Field.parseProg, Field.width, Field.value, show ¬ (64 = 32) by decide, if_false]
      · refine ⟨big, ?_⟩
        rw [run_cons_ok (step_bo s big), run_cons_ok (step_push _ _)]
        refine (run_cons_ok (step_float64_eval _ s.ds _ tail ?_ ?_ ?_ rfl hB)).trans ?_
        · exact hpos
        · exact hin
        · exact hbuf
        simp [run_nil, numCell, u64_roundtrip]
      · refine ⟨s.bigEndian, ?_⟩
        rw [run_cons_ok (step_readF64_eval s _ tail hpos hin hbuf (some big) hB), run_nil]
        simp [numCell, byteorder, u64_roundtrip]
      · refine ⟨big, ?_⟩
        rw [run_cons_ok (step_bo s big)]
        refine (run_cons_ok (step_readF64_eval _ _ tail ?_ ?_ ?_ none hB)).trans ?_
        · exact hpos
        · exact hin
        · exact hbuf
        simp [run_nil, numCell, byteorder, u64_roundtrip]
  | raw b =>
    simp only [Field.bits] at hin
    refine ⟨s.bigEndian, ?_⟩
    simp only [Field.parseProg, Field.width, Field.value]
    rw [run_cons_ok (step_push _ _)]
    refine (run_cons_ok (step_bits_eval _ s.ds b tail ?_ ?_ ?_ b.length rfl rfl)).trans ?_
    · exact hpos
    · exact hin
    · exact hbuf
    simp [run_nil]
  | str str =>
    simp only [Field.bits] at hin
    refine ⟨s.bigEndian, ?_⟩
    simp only [Field.parseProg, Field.width, Field.value]
    rw [run_cons_ok (step_push _ _)]
    refine (run_cons_ok (step_bytes_eval _ s.ds (bytesToBits (utf8Bytes str)) tail ?_ ?_ ?_ (utf8Bytes str).length rfl (by simp; omega))).trans ?_
    · exact hpos
    · exact hin
    · exact hbuf
    simp [run_nil]; omega
  | bytes l =>
    simp only [Field.bits] at hin
    refine ⟨s.bigEndian, ?_⟩
    simp only [Field.parseProg, Field.width, Field.value]
    rw [run_cons_ok (step_push _ _)]
    refine (run_cons_ok (step_bytes_eval _ s.ds (bytesToBits l) tail ?_ ?_ ?_ l.length rfl (by simp; omega))).trans ?_
    · exact hpos
    · exact hin
    · exact hbuf
    simp [run_nil]; omega
  | cstr l =>
    simp only [Field.bits] at hin hcstr
    simp only [Field.Ok] at hok
    refine ⟨s.bigEndian, ?_⟩
    simp only [Field.parseProg, Field.width, Field.value]
    rw [run_cons_ok (step_cstr_eval s _ tail hpos hin hbuf l hok rfl (hcstr rfl)), run_nil]


/-! ### a whole record parsed back -/

/-- domain of the round-trip claim for a whole record: every field in its domain, and a
    NUL-terminated field only where the rest of the record is a whole number of bytes
    (`cstr`/`nulbytestr` refuse to read otherwise) -/
def RecOk : List Field → Prop
  | [] => True
  | f :: fs => f.Ok ∧ (f.isCstr = true → (packAll (f :: fs)).length % 8 = 0) ∧ RecOk fs

theorem state_eta (s : CurState) (hlim : s.stackLimit = none := by assumption) :
    ({ s with pos := s.pos + 0, ds := [] ++ s.ds, bigEndian := s.bigEndian } : CurState) = s := by
  cases s; simp

theorem parse_all : ∀ (fs : List Field) (s : CurState), RecOk fs → s.pos ≤ s.input.length →
    s.input.drop s.pos = packAll fs → s.base + s.input.length ≤ usizeMaxN → s.stackLimit = none →
    ∃ be, run s (parseAll fs) =
      ({ s with pos := s.pos + (packAll fs).length, ds := (fs.map Field.value).reverse ++ s.ds,
                bigEndian := be }, .ok ()) := by
  intro fs
  induction fs with
  | nil =>
    intro s _ _ _ _ _
    exact ⟨s.bigEndian, by simp [parseAll, run_nil, packAll_nil, state_eta]⟩
  | cons f fs ih =>
    intro s hok hpos hin hbuf hlim
    obtain ⟨hf, hc, hrest⟩ := hok
    rw [packAll_cons] at hin
    obtain ⟨be1, h1⟩ := parse_field f s (packAll fs) hf hpos hin hbuf (by rw [← packAll_cons]; exact hc)
    have hfit := (slice_of_drop hpos hin (Field.bits_length f)).1
    have hdrop : List.drop (s.pos + f.width) s.input = packAll fs := by
      rw [← List.drop_drop, hin, ← Field.bits_length f, List.drop_left]
    obtain ⟨be2, h2⟩ := ih { s with pos := s.pos + f.width, ds := f.value :: s.ds, bigEndian := be1 }
      hrest hfit hdrop hbuf hlim
    refine ⟨be2, ?_⟩
    have : parseAll (f :: fs) = f.parseProg ++ parseAll fs := by simp [parseAll]
    rw [this, run_append_ok h1, h2]
    simp [packAll_cons, Field.bits_length]
    omega


/-! ### packing -/

theorem concatVec_ints : ∀ (l : List Nat), (∀ b ∈ l, b < 256) →
    concatVec (CellList.ofList (l.map fun b => Cell.int (b : Nat))) = .ok (bytesToBits l) := by
  intro l
  induction l with
  | nil => intro _; simp [CellList.ofList, concatVec]
  | cons b l ih =>
    intro h
    have hb := h b (by simp)
    have h2 : (0 : Int) ≤ (b : Int) ∧ (b : Int) ≤ 255 := by omega
    simp only [List.map_cons, CellList.ofList, concatVec, concatElem, byteCell, h2, and_self, if_true,
      ih (fun x hx => h x (by simp [hx])), Int.toNat_natCast, bytesToBits_cons]

theorem step_bo' (s : CurState) (big : Bool) : step s (boOp big) = ({ s with bigEndian := big }, .ok ()) :=
  step_bo s big

/-- the piece a field's pack words leave, and what `>bitstr` makes of it -/
theorem piece_spec (f : Field) (s : CurState) (hok : f.Ok) (hlim : s.stackLimit = none := by assumption) :
    ∃ be c, f.piece s = ({ s with bigEndian := be }, .ok c) ∧ concatElem c = .ok f.bits := by
  cases f with
  | int w sg big form v =>
    simp only [Field.Ok] at hok
    have hw : w ≤ usizeMaxN := by
      have : w ≤ 128 := by split at hok <;> omega
      unfold usizeMaxN; omega
    cases form
    · exact ⟨big, .bitstr (fromInt big v w), by
        cases big <;> simp [Field.piece, Field.packProg, run, boOp, step, pushC, full, hlim, popUsize, popCell, lift,
          toUsize_nat w hw, packIntBo, Cell.toXint, Cell.value], by simp [concatElem, Field.bits]⟩
    · exact ⟨s.bigEndian, .bitstr (fromInt big v w), by
        simp [Field.piece, Field.packProg, run, step, pushC, full, hlim, popCell, lift, packIntBo, Cell.toXint,
          Cell.value, byteorder], by simp [concatElem, Field.bits]⟩
    · exact ⟨big, .bitstr (fromInt big v w), by
        cases big <;> simp [Field.piece, Field.packProg, run, boOp, step, pushC, full, hlim, popCell, lift, packIntBo,
          Cell.toXint, Cell.value, byteorder], by simp [concatElem, Field.bits]⟩
  | flt w big form x =>
    simp only [Field.Ok] at hok
    have h32 : (Cell.int 32).toUsize = .ok 32 := by decide
    have h64 : (Cell.int 64).toUsize = .ok 64 := by decide
    rcases hok with rfl | rfl <;> cases form
    · exact ⟨big, .bitstr (fromInt big (f64to32 x).toNat 32), by
        cases big <;> simp [Field.piece, Field.packProg, run, boOp, step, pushC, full, hlim, popUsize, popCell, lift,
          h32, packFloatBo, Cell.toReal, Cell.value], by simp [concatElem, Field.bits]⟩
    · exact ⟨s.bigEndian, .bitstr (fromInt big (f64to32 x).toNat 32), by
        simp [Field.piece, Field.packProg, run, step, pushC, full, hlim, popCell, lift, packFloatBo, Cell.toReal,
          Cell.value, byteorder], by simp [concatElem, Field.bits]⟩
    · exact ⟨big, .bitstr (fromInt big (f64to32 x).toNat 32), by
        cases big <;> simp [Field.piece, Field.packProg, run, boOp, step, pushC, full, hlim, popCell, lift, packFloatBo,
          Cell.toReal, Cell.value, byteorder], by simp [concatElem, Field.bits]⟩
    · exact ⟨big, .bitstr (fromInt big x.toNat 64), by
        cases big <;> simp [Field.piece, Field.packProg, run, boOp, step, pushC, full, hlim, popUsize, popCell, lift,
          h64, packFloatBo, Cell.toReal, Cell.value], by simp [concatElem, Field.bits]⟩
    · exact ⟨s.bigEndian, .bitstr (fromInt big x.toNat 64), by
        simp [Field.piece, Field.packProg, run, step, pushC, full, hlim, popCell, lift, packFloatBo, Cell.toReal,
          Cell.value, byteorder], by simp [concatElem, Field.bits]⟩
    · exact ⟨big, .bitstr (fromInt big x.toNat 64), by
        cases big <;> simp [Field.piece, Field.packProg, run, boOp, step, pushC, full, hlim, popCell, lift, packFloatBo,
          Cell.toReal, Cell.value, byteorder], by simp [concatElem, Field.bits]⟩
  | raw b =>
    exact ⟨s.bigEndian, .bitstr b, by simp [Field.piece, Field.packProg, run, step, pushC, full, hlim],
      by simp [concatElem, Field.bits]⟩
  | str str =>
    exact ⟨s.bigEndian, .str str, by simp [Field.piece, Field.packProg, run, step, pushC, full, hlim],
      by simp [concatElem, Field.bits]⟩
  | bytes l =>
    simp only [Field.Ok] at hok
    exact ⟨s.bigEndian, intVec l, by simp [Field.piece, Field.packProg, run, step, pushC, full, hlim],
      by simp [intVec, concatElem, Field.bits, concatVec_ints l hok]⟩
  | cstr l =>
    simp only [Field.Ok] at hok
    have hall : ∀ b ∈ l ++ [0], b < 256 := by
      intro b hb
      simp at hb
      rcases hb with hb | hb
      · exact (hok b hb).2
      · omega
    exact ⟨s.bigEndian, intVec (l ++ [0]), by simp [Field.piece, Field.packProg, run, step, pushC, full, hlim],
      by simp only [intVec, concatElem, Field.bits, concatVec_ints _ hall]⟩

theorem pieces_spec : ∀ (fs : List Field) (s : CurState), (∀ f ∈ fs, f.Ok) → s.stackLimit = none →
    ∃ be cs, pieces s fs = ({ s with bigEndian := be }, .ok cs) ∧
      concatVec (CellList.ofList cs) = .ok (packAll fs) := by
  intro fs
  induction fs with
  | nil => intro s _ _; exact ⟨s.bigEndian, [], by simp [pieces], by simp [CellList.ofList, concatVec, packAll_nil]⟩
  | cons f fs ih =>
    intro s hok hlim
    obtain ⟨be1, c, hp, hc⟩ := piece_spec f s (hok f (by simp))
    obtain ⟨be2, cs, hps, hcs⟩ := ih { s with bigEndian := be1 } (fun x hx => hok x (by simp [hx])) hlim
    refine ⟨be2, c :: cs, ?_, ?_⟩
    · simp only [pieces, hp, hps]
    · simp only [CellList.ofList, concatVec, hc, hcs, packAll_cons]


/-! ### emit -/

theorem splitBy_flatten {α : Type} : ∀ (sizes : List Nat) (l : List α), (splitBy sizes l).flatten = l := by
  intro sizes
  induction sizes with
  | nil => intro l; simp [splitBy]
  | cons n ns ih => intro l; simp [splitBy, ih]

theorem toBitstr_vec_eval (s : CurState) (cs : List Cell) (bits : List Bool)
    (h : concatVec (CellList.ofList cs) = .ok bits) (hlim : s.stackLimit = none := by assumption) :
    run s [.push (.vec (CellList.ofList cs)), .toBitstr] = ({ s with ds := .bitstr bits :: s.ds }, .ok ()) := by
  simp [run, step, pushC, full, hlim, popCell, lift, bitstrConcat, Cell.value, h]

theorem emitGroups_spec : ∀ (gs : List (List Field)) (s : CurState) (o : List Bool),
    (∀ g ∈ gs, ∀ f ∈ g, f.Ok) → s.output = some o →
    s.outputLen + (packAll gs.flatten).length ≤ usizeMaxN → s.stackLimit = none →
    ∃ be, emitGroups s gs =
      ({ s with bigEndian := be, output := some (o ++ packAll gs.flatten), outputLen := s.outputLen + (packAll gs.flatten).length }, .ok ()) := by
  intro gs
  induction gs with
  | nil =>
    intro s o _ ho _ _
    refine ⟨s.bigEndian, ?_⟩
    cases s
    simp_all [emitGroups, packAll_nil]
  | cons g gs ih =>
    intro s o hok ho hlen hlim
    obtain ⟨be1, cs, hp, hc⟩ := pieces_spec g s (hok g (by simp)) hlim
    simp only [List.flatten_cons, packAll_append, List.length_append] at hlen ⊢
    have hnov : ¬ (s.outputLen + (packAll g).length > usizeMaxN) := by omega
    have hrun : run { s with bigEndian := be1 } [.push (.vec (CellList.ofList cs)), .toBitstr, .emit] =
        ({ s with bigEndian := be1, output := some (o ++ packAll g), outputLen := s.outputLen + (packAll g).length }, .ok ()) := by
      simp [run, step, pushC, full, hlim, popCell, popBitstr, lift, bitstrConcat, Cell.value, hc, Cell.toBitstr, hnov, ho]
    obtain ⟨be2, h2⟩ := ih { s with bigEndian := be1, output := some (o ++ packAll g), outputLen := s.outputLen + (packAll g).length } (o ++ packAll g)
      (fun g' hg' => hok g' (by simp [hg'])) rfl (by simp; omega) hlim
    refine ⟨be2, ?_⟩
    simp only [emitGroups, hp, hrun, h2]
    simp [List.append_assoc, Nat.add_assoc]


/-! ### `>bitstr` flattening -/

theorem ofList_append (a b : List Cell) :
    CellList.ofList (a ++ b) = match a with | [] => CellList.ofList b | x :: t => .cons x (CellList.ofList (t ++ b)) := by
  cases a <;> simp [CellList.ofList]

theorem concatVec_append : ∀ (a b : List Cell) (x y : List Bool),
    concatVec (CellList.ofList a) = .ok x → concatVec (CellList.ofList b) = .ok y →
    concatVec (CellList.ofList (a ++ b)) = .ok (x ++ y) := by
  intro a
  induction a with
  | nil => intro b x y ha hb; simp [CellList.ofList, concatVec] at ha; subst ha; simpa using hb
  | cons c a ih =>
    intro b x y ha hb
    simp only [List.cons_append, CellList.ofList, concatVec] at ha ⊢
    split at ha
    · rename_i e he
      split at ha
      · rename_i r hr
        simp at ha; subst ha
        rw [ih b r y hr hb]
        simp [List.append_assoc]
      · rename_i e2 hne
        cases hcv : concatVec (CellList.ofList a) with
        | ok r => exact absurd hcv (hne r)
        | err e => rw [hcv] at ha; simp at ha
        | panic p => rw [hcv] at ha; simp at ha
    · rename_i e hne
      cases hce : concatElem c with
      | ok r => exact absurd hce (hne r)
      | err e => rw [hce] at ha; simp at ha
      | panic p => rw [hce] at ha; simp at ha

end Xeh.Cur
