/- Helper lemmas for C18: base32 (RFC 4648 with padding, Crockford without) round trip. -/
import XehModel.Proofs.EncBase64

namespace Xeh.Enc
set_option linter.unusedSimpArgs false

/-- what the round trip needs from an (alphabet, inverse table) pair -/
structure B32Ok (alpha : List Nat) (tbl : List (Option Nat)) : Prop where
  val : ∀ d, d < 32 → b32Val tbl (alphaAt alpha d) = some d
  ne : ∀ d, d < 32 → alphaAt alpha d ≠ 61
  ascii : ∀ d, d < 32 → alphaAt alpha d < 128

theorem rfc_ok : B32Ok rfcAlphabet rfcInv := ⟨by decide, by decide, by decide⟩
theorem crock_ok : B32Ok crockAlphabet crockInv := ⟨by decide, by decide, by decide⟩
theorem rfc_pad : b32Val rfcInv 61 = some 0 := by decide

theorem vals_append (f : Nat → Option Nat) (l1 l2 v1 v2 : List Nat)
    (h1 : vals f l1 = some v1) (h2 : vals f l2 = some v2) : vals f (l1 ++ l2) = some (v1 ++ v2) := by
  induction l1 generalizing v1 with
  | nil => simp [vals] at h1; subst h1; simpa using h2
  | cons c cs ih =>
    simp only [vals] at h1
    split at h1
    · rename_i v vs hv hvs
      simp at h1; subst h1
      simp [vals, hv, ih vs hvs]
    · simp at h1

theorem vals_map (f : Nat → Option Nat) (g : Nat → Nat) (ds : List Nat)
    (h : ∀ d ∈ ds, f (g d) = some d) : vals f (ds.map g) = some ds := by
  induction ds with
  | nil => rfl
  | cons d ds ih =>
    simp [vals, h d (by simp), ih (fun x hx => h x (by simp [hx]))]

theorem vals_pad (tbl : List (Option Nat)) (hp : b32Val tbl 61 = some 0) (k : Nat) :
    vals (b32Val tbl) (List.replicate k 61) = some (zeros k) := by
  induction k with
  | zero => rfl
  | succ k ih => simp [List.replicate, vals, hp, ih, zeros]

/-- eight digits of a 40-bit chunk -/
theorem b32_digits (n : Nat) :
    ∃ d0 d1 d2 d3 d4 d5 d6 d7, toDigits 32 8 n = [d0, d1, d2, d3, d4, d5, d6, d7] ∧
      d0 < 32 ∧ d1 < 32 ∧ d2 < 32 ∧ d3 < 32 ∧ d4 < 32 ∧ d5 < 32 ∧ d6 < 32 ∧ d7 < 32 ∧
      (n < 32 ^ 8 → d7 + 32 * (d6 + 32 * (d5 + 32 * (d4 + 32 * (d3 + 32 * (d2 + 32 * (d1 + 32 * d0)))))) = n) := by
  have hlen := toDigits_length 32 8 n
  have hd := toDigits_lt 32 8 n (by omega)
  have hv := ofDigits_toDigits_mod 32 8 n
  obtain ⟨d0, d1, d2, d3, d4, d5, d6, d7, ht⟩ := list_len8 _ hlen
  rw [ht] at hd hv
  simp only [List.mem_cons, List.not_mem_nil, or_false, forall_eq_or_imp, forall_eq] at hd
  refine ⟨d0, d1, d2, d3, d4, d5, d6, d7, ht, hd.1, hd.2.1, hd.2.2.1, hd.2.2.2.1, hd.2.2.2.2.1,
    hd.2.2.2.2.2.1, hd.2.2.2.2.2.2.1, hd.2.2.2.2.2.2.2, ?_⟩
  intro hn
  rw [Nat.mod_eq_of_lt hn] at hv
  simpa [ofDigits, ofDigitsLE] using hv

/-- the digits that `encode` replaces by padding (or cuts off) are zero anyway -/
theorem b32_tail_digits (tail : List Nat) (hl : 1 ≤ tail.length ∧ tail.length ≤ 4) (h : ∀ x ∈ tail, x < 256) :
    (b32Chunk (tail ++ zeros (5 - tail.length))).take (8 - b32Extra tail.length)
      ++ zeros (b32Extra tail.length) = b32Chunk (tail ++ zeros (5 - tail.length)) := by
  rcases tail with _ | ⟨a, _ | ⟨b, _ | ⟨c, _ | ⟨d, _ | ⟨e, rest⟩⟩⟩⟩⟩
  · simp at hl
  · have ha : a < 256 := h a (by simp)
    obtain ⟨d0, d1, d2, d3, d4, d5, d6, d7, ht, h0, h1, h2, h3, h4, h5, h6, h7, hv⟩ :=
      b32_digits (ofDigits 256 [a, 0, 0, 0, 0])
    simp only [ofDigits, ofDigitsLE, List.reverse_cons, List.reverse_nil, List.nil_append,
      List.cons_append] at hv
    have hv := hv (by omega)
    simp only [List.length_cons, List.length_nil, zeros, List.replicate, List.cons_append,
      List.nil_append, b32Chunk, ht, b32Extra]
    have : d2 = 0 ∧ d3 = 0 ∧ d4 = 0 ∧ d5 = 0 ∧ d6 = 0 ∧ d7 = 0 := by omega
    obtain ⟨rfl, rfl, rfl, rfl, rfl, rfl⟩ := this
    rfl
  · have ha : a < 256 := h a (by simp)
    have hb : b < 256 := h b (by simp)
    obtain ⟨d0, d1, d2, d3, d4, d5, d6, d7, ht, h0, h1, h2, h3, h4, h5, h6, h7, hv⟩ :=
      b32_digits (ofDigits 256 [a, b, 0, 0, 0])
    simp only [ofDigits, ofDigitsLE, List.reverse_cons, List.reverse_nil, List.nil_append,
      List.cons_append] at hv
    have hv := hv (by omega)
    simp only [List.length_cons, List.length_nil, zeros, List.replicate, List.cons_append,
      List.nil_append, b32Chunk, ht, b32Extra]
    have : d4 = 0 ∧ d5 = 0 ∧ d6 = 0 ∧ d7 = 0 := by omega
    obtain ⟨rfl, rfl, rfl, rfl⟩ := this
    rfl
  · have ha : a < 256 := h a (by simp)
    have hb : b < 256 := h b (by simp)
    have hc : c < 256 := h c (by simp)
    obtain ⟨d0, d1, d2, d3, d4, d5, d6, d7, ht, h0, h1, h2, h3, h4, h5, h6, h7, hv⟩ :=
      b32_digits (ofDigits 256 [a, b, c, 0, 0])
    simp only [ofDigits, ofDigitsLE, List.reverse_cons, List.reverse_nil, List.nil_append,
      List.cons_append] at hv
    have hv := hv (by omega)
    simp only [List.length_cons, List.length_nil, zeros, List.replicate, List.cons_append,
      List.nil_append, b32Chunk, ht, b32Extra]
    have : d5 = 0 ∧ d6 = 0 ∧ d7 = 0 := by omega
    obtain ⟨rfl, rfl, rfl⟩ := this
    rfl
  · have ha : a < 256 := h a (by simp)
    have hb : b < 256 := h b (by simp)
    have hc : c < 256 := h c (by simp)
    have hd : d < 256 := h d (by simp)
    obtain ⟨d0, d1, d2, d3, d4, d5, d6, d7, ht, h0, h1, h2, h3, h4, h5, h6, h7, hv⟩ :=
      b32_digits (ofDigits 256 [a, b, c, d, 0])
    simp only [ofDigits, ofDigitsLE, List.reverse_cons, List.reverse_nil, List.nil_append,
      List.cons_append] at hv
    have hv := hv (by omega)
    simp only [List.length_cons, List.length_nil, zeros, List.replicate, List.cons_append,
      List.nil_append, b32Chunk, ht, b32Extra]
    have : d7 = 0 := by omega
    obtain rfl := this
    rfl
  · simp at hl

theorem b32Encode_five (alpha : List Nat) (pad : Bool) (a b c d e : Nat) (rest : List Nat) :
    b32Encode alpha pad (a :: b :: c :: d :: e :: rest) =
      (b32Chunk [a, b, c, d, e]).map (alphaAt alpha) ++ b32Encode alpha pad rest := by
  simp [b32Encode]

/-- a full chunk decodes to its five bytes -/
theorem b32_chunk_dec (alpha : List Nat) (tbl : List (Option Nat)) (ok : B32Ok alpha tbl)
    (a b c d e : Nat) (h : ∀ x ∈ [a, b, c, d, e], x < 256) :
    ∃ e0 e1 e2 e3 e4 e5 e6 e7 v,
      (b32Chunk [a, b, c, d, e]).map (alphaAt alpha) = [e0, e1, e2, e3, e4, e5, e6, e7] ∧
      vals (b32Val tbl) [e0, e1, e2, e3, e4, e5, e6, e7] = some v ∧
      toDigits 256 5 (ofDigits 32 v) = [a, b, c, d, e] := by
  have hre := regroup 256 32 5 8 [a, b, c, d, e] rfl h (by decide)
  obtain ⟨d0, d1, d2, d3, d4, d5, d6, d7, ht, h0, h1, h2, h3, h4, h5, h6, h7, -⟩ :=
    b32_digits (ofDigits 256 [a, b, c, d, e])
  refine ⟨_, _, _, _, _, _, _, _, [d0, d1, d2, d3, d4, d5, d6, d7], by rw [b32Chunk, ht]; rfl, ?_, ?_⟩
  · simp [vals, ok.val, h0, h1, h2, h3, h4, h5, h6, h7]
  · rw [← ht]; exact hre

theorem b32_tail_dec (alpha : List Nat) (tbl : List (Option Nat)) (ok : B32Ok alpha tbl) (pad : Bool)
    (hp : pad = true → b32Val tbl 61 = some 0)
    (tail : List Nat) (hl : 1 ≤ tail.length ∧ tail.length ≤ 4) (h : ∀ x ∈ tail, x < 256) :
    b32DecChunks tbl (b32Encode alpha pad tail) = some (tail ++ zeros (5 - tail.length)) := by
  have hz := b32_tail_digits tail hl h
  have hlt : ∀ x ∈ tail ++ zeros (5 - tail.length), x < 256 := by
    intro x hx
    simp [zeros] at hx
    rcases hx with hx | ⟨_, rfl⟩
    · exact h x hx
    · omega
  have hlen5 : (tail ++ zeros (5 - tail.length)).length = 5 := by simp [zeros]; omega
  have hre := regroup 256 32 5 8 _ hlen5 hlt (by decide)
  obtain ⟨d0, d1, d2, d3, d4, d5, d6, d7, ht, h0, h1, h2, h3, h4, h5, h6, h7, -⟩ :=
    b32_digits (ofDigits 256 (tail ++ zeros (5 - tail.length)))
  rw [b32Chunk, ht] at hz
  rw [ht] at hre
  rcases tail with _ | ⟨a, _ | ⟨b, _ | ⟨c, _ | ⟨d, _ | ⟨e, rest⟩⟩⟩⟩⟩
  · simp at hl
  · simp [zeros] at ht hre
    obtain ⟨rfl, rfl, rfl, rfl, rfl, rfl⟩ := by simpa [zeros, b32Extra] using hz
    cases pad
    · simp [b32Encode, b32Chunk, ht, b32Extra, zeros, b32DecChunks, vals, ok.val, h0, h1, hre]
    · have hp := hp rfl
      simp [b32Encode, b32Chunk, ht, b32Extra, zeros, b32DecChunks, vals, ok.val, h0, h1, hre, hp]
  · simp [zeros] at ht hre
    obtain ⟨rfl, rfl, rfl, rfl⟩ := by simpa [zeros, b32Extra] using hz
    cases pad
    · simp [b32Encode, b32Chunk, ht, b32Extra, zeros, b32DecChunks, vals, ok.val, h0, h1, h2, h3, h4, h5, h6, hre]
    · have hp := hp rfl
      simp [b32Encode, b32Chunk, ht, b32Extra, zeros, b32DecChunks, vals, ok.val, h0, h1, h2, h3, h4, h5, h6, hre, hp]
  · simp [zeros] at ht hre
    obtain ⟨rfl, rfl, rfl⟩ := by simpa [zeros, b32Extra] using hz
    cases pad
    · simp [b32Encode, b32Chunk, ht, b32Extra, zeros, b32DecChunks, vals, ok.val, h0, h1, h2, h3, h4, h5, h6, hre]
    · have hp := hp rfl
      simp [b32Encode, b32Chunk, ht, b32Extra, zeros, b32DecChunks, vals, ok.val, h0, h1, h2, h3, h4, h5, h6, hre, hp]
  · simp [zeros] at ht hre
    obtain rfl := by simpa [zeros, b32Extra] using hz
    cases pad
    · simp [b32Encode, b32Chunk, ht, b32Extra, zeros, b32DecChunks, vals, ok.val, h0, h1, h2, h3, h4, h5, h6, hre]
    · have hp := hp rfl
      simp [b32Encode, b32Chunk, ht, b32Extra, zeros, b32DecChunks, vals, ok.val, h0, h1, h2, h3, h4, h5, h6, hre, hp]
  · simp at hl

/-- number of zero bytes the chunk loop appends after the data -/
def padLen (n : Nat) : Nat := (5 - n % 5) % 5

theorem b32DecChunks_encode (alpha : List Nat) (tbl : List (Option Nat)) (ok : B32Ok alpha tbl) (pad : Bool)
    (hp : pad = true → b32Val tbl 61 = some 0) :
    (bs : List Nat) → (∀ x ∈ bs, x < 256) →
      b32DecChunks tbl (b32Encode alpha pad bs) = some (bs ++ zeros (padLen bs.length))
  | [], _ => by simp [b32Encode, b32DecChunks, zeros, padLen]
  | [a], h => by simpa [padLen] using b32_tail_dec alpha tbl ok pad hp [a] (by simp) h
  | [a, b], h => by simpa [padLen] using b32_tail_dec alpha tbl ok pad hp [a, b] (by simp) h
  | [a, b, c], h => by simpa [padLen] using b32_tail_dec alpha tbl ok pad hp [a, b, c] (by simp) h
  | [a, b, c, d], h => by simpa [padLen] using b32_tail_dec alpha tbl ok pad hp [a, b, c, d] (by simp) h
  | a :: b :: c :: d :: e :: rest, h => by
    have ih := b32DecChunks_encode alpha tbl ok pad hp rest (fun x hx => h x (by simp [hx]))
    obtain ⟨e0, e1, e2, e3, e4, e5, e6, e7, v, he, hv, hre⟩ :=
      b32_chunk_dec alpha tbl ok a b c d e (fun x hx => h x (by simp at hx ⊢; omega))
    rw [b32Encode_five, he]
    have : padLen (rest.length + 5) = padLen rest.length := by simp [padLen]
    simp [b32DecChunks, hv, ih, hre, this]

def b32PadCount (n : Nat) : Nat := if n % 5 = 0 then 0 else b32Extra (n % 5)

theorem b32Encode_split (alpha : List Nat) : (bs : List Nat) →
    b32Encode alpha true bs = b32Encode alpha false bs ++ List.replicate (b32PadCount bs.length) 61
  | [] => by simp [b32Encode, b32PadCount]
  | [a] => by simp [b32Encode, b32PadCount]
  | [a, b] => by simp [b32Encode, b32PadCount]
  | [a, b, c] => by simp [b32Encode, b32PadCount]
  | [a, b, c, d] => by simp [b32Encode, b32PadCount]
  | a :: b :: c :: d :: e :: rest => by
    have ih := b32Encode_split alpha rest
    have : b32PadCount (rest.length + 5) = b32PadCount rest.length := by simp [b32PadCount]
    simp [b32Encode_five, ih, this]

theorem b32Chunk_length (l : List Nat) : (b32Chunk l).length = 8 := by simp [b32Chunk, toDigits_length]

theorem b32Chunk_lt (l : List Nat) : ∀ d ∈ b32Chunk l, d < 32 := toDigits_lt 32 8 _ (by omega)

theorem b32Encode_letters (alpha : List Nat) (tbl : List (Option Nat)) (ok : B32Ok alpha tbl) :
    (bs : List Nat) → ∀ x ∈ b32Encode alpha false bs, x ≠ 61 ∧ x < 128
  | [] => by simp [b32Encode]
  | a :: b :: c :: d :: e :: rest => by
    have ih := b32Encode_letters alpha tbl ok rest
    intro x hx
    simp only [b32Encode_five, List.mem_append, List.mem_map] at hx
    rcases hx with ⟨d, hd, rfl⟩ | hx
    · exact ⟨ok.ne d (b32Chunk_lt _ d hd), ok.ascii d (b32Chunk_lt _ d hd)⟩
    · exact ih x hx
  | [a] | [a, b] | [a, b, c] | [a, b, c, d] => by
    intro x hx
    simp only [b32Encode, Bool.false_eq_true, if_false, List.mem_map] at hx
    obtain ⟨d, hd, rfl⟩ := hx
    have := b32Chunk_lt _ d (List.mem_of_mem_take hd)
    exact ⟨ok.ne d this, ok.ascii d this⟩

theorem b32Encode_length (alpha : List Nat) : (bs : List Nat) →
    (b32Encode alpha false bs).length * 5 / 8 = bs.length
  | [] => by simp [b32Encode]
  | [a] => by simp [b32Encode, b32Chunk_length, b32Extra]
  | [a, b] => by simp [b32Encode, b32Chunk_length, b32Extra]
  | [a, b, c] => by simp [b32Encode, b32Chunk_length, b32Extra]
  | [a, b, c, d] => by simp [b32Encode, b32Chunk_length, b32Extra]
  | a :: b :: c :: d :: e :: rest => by
    have ih := b32Encode_length alpha rest
    simp [b32Encode_five, b32Chunk_length]
    omega

theorem takeWhile_replicate_append (p : Nat → Bool) (x : Nat) (hx : p x = true) (e : Nat) (l : List Nat) :
    ((List.replicate e x ++ l).takeWhile p).length = e + (l.takeWhile p).length := by
  induction e with
  | zero => simp
  | succ e ih => simp [List.replicate, List.takeWhile_cons, hx, ih]; omega

theorem takeWhile_none (p : Nat → Bool) (l : List Nat) (h : ∀ x ∈ l, p x = false) : l.takeWhile p = [] := by
  cases l with
  | nil => rfl
  | cons a t => simp [List.takeWhile_cons, h a (by simp)]

theorem unpaddedLen_letters_pad (L : List Nat) (e : Nat) (hL : ∀ x ∈ L, x ≠ 61) (he : e ≤ 6) :
    unpaddedLen (L ++ List.replicate e 61) = L.length := by
  have h1 : (L.reverse.takeWhile (· == 61)) = [] :=
    takeWhile_none _ _ (fun x hx => by simpa using hL x (by simpa using hx))
  have h2 := takeWhile_replicate_append (· == 61) 61 (by simp) e L.reverse
  simp only [unpaddedLen, trailingPads, List.reverse_append, List.reverse_replicate, h2, h1,
    List.length_append, List.length_replicate, List.length_nil]
  omega

theorem b32PadCount_le (n : Nat) : b32PadCount n ≤ 6 := by
  unfold b32PadCount b32Extra
  split <;> omega

theorem b32_roundtrip_gen (alpha : List Nat) (tbl : List (Option Nat)) (ok : B32Ok alpha tbl) (pad : Bool)
    (hp : pad = true → b32Val tbl 61 = some 0) (bs : List Nat) (h : ∀ x ∈ bs, x < 256) :
    b32Decode tbl (b32Encode alpha pad bs) = some bs := by
  have hchunks := b32DecChunks_encode alpha tbl ok pad hp bs h
  have hletters := b32Encode_letters alpha tbl ok bs
  have hlen := b32Encode_length alpha bs
  have hshape : ∃ e, e ≤ 6 ∧ b32Encode alpha pad bs = b32Encode alpha false bs ++ List.replicate e 61 := by
    cases pad
    · exact ⟨0, by omega, by simp⟩
    · exact ⟨_, b32PadCount_le bs.length, b32Encode_split alpha bs⟩
  obtain ⟨e, he, hs⟩ := hshape
  have hu : unpaddedLen (b32Encode alpha pad bs) = (b32Encode alpha false bs).length := by
    rw [hs]; exact unpaddedLen_letters_pad _ e (fun x hx => (hletters x hx).1) he
  have hascii : (b32Encode alpha pad bs).any (· ≥ 128) = false := by
    rw [hs]
    simp only [List.any_eq_false, List.mem_append, List.mem_replicate]
    intro x hx
    rcases hx with hx | ⟨_, rfl⟩
    · have := (hletters x hx).2; simp; omega
    · simp
  unfold b32Decode
  simp [hascii, hchunks, hu, hlen]

theorem base32_roundtrip_fn (bs : List Nat) (h : ∀ x ∈ bs, x < 256) :
    b32Decode rfcInv (b32Encode rfcAlphabet true bs) = some bs :=
  b32_roundtrip_gen _ _ rfc_ok true (fun _ => rfc_pad) bs h

theorem base32hex_roundtrip_fn (bs : List Nat) (h : ∀ x ∈ bs, x < 256) :
    b32Decode crockInv (b32Encode crockAlphabet false bs) = some bs :=
  b32_roundtrip_gen _ _ crock_ok false (by simp) bs h

end Xeh.Enc
