/- Helper lemmas for C18: base64 round trip. -/
import XehModel.Proofs.EncDigits

namespace Xeh.Enc

theorem b64_alpha : ∀ d, d < 64 → b64Val (alphaAt b64Alphabet d) = some d ∧ alphaAt b64Alphabet d ≠ 61 := by
  decide

theorem list_len2 {α} (l : List α) (h : l.length = 2) : ∃ a b, l = [a, b] := by
  match l, h with
  | [a, b], _ => exact ⟨a, b, rfl⟩

theorem list_len3 {α} (l : List α) (h : l.length = 3) : ∃ a b c, l = [a, b, c] := by
  match l, h with
  | [a, b, c], _ => exact ⟨a, b, c, rfl⟩

theorem list_len4 {α} (l : List α) (h : l.length = 4) : ∃ a b c d, l = [a, b, c, d] := by
  match l, h with
  | [a, b, c, d], _ => exact ⟨a, b, c, d, rfl⟩

theorem list_len5 {α} (l : List α) (h : l.length = 5) : ∃ a b c d e, l = [a, b, c, d, e] := by
  match l, h with
  | [a, b, c, d, e], _ => exact ⟨a, b, c, d, e, rfl⟩

theorem list_len8 {α} (l : List α) (h : l.length = 8) :
    ∃ a b c d e f g i, l = [a, b, c, d, e, f, g, i] := by
  match l, h with
  | [a, b, c, d, e, f, g, i], _ => exact ⟨a, b, c, d, e, f, g, i, rfl⟩

theorem b64Encode_eq_nil (bs : List Nat) : b64Encode bs = [] ↔ bs = [] := by
  fun_cases b64Encode bs
  · rename_i a b c rest
    obtain ⟨d0, d1, d2, d3, hd⟩ := list_len4 _ (toDigits_length 64 4 (ofDigits 256 [a, b, c]))
    simp [hd]
  · simp
  · rename_i a
    simp
  · simp

/-- a full quad decodes to its three bytes -/
theorem b64_quad (a b c : Nat) (ha : a < 256) (hb : b < 256) (hc : c < 256) :
    ∃ e0 e1 e2 e3 v,
      (toDigits 64 4 (ofDigits 256 [a, b, c])).map (alphaAt b64Alphabet) = [e0, e1, e2, e3] ∧
      vals b64Val [e0, e1, e2, e3] = some v ∧ toDigits 256 3 (ofDigits 64 v) = [a, b, c] ∧
      b64Final e0 e1 e2 e3 = some [a, b, c] := by
  have hlt : ∀ x ∈ [a, b, c], x < 256 := by simp; omega
  have hlen := toDigits_length 64 4 (ofDigits 256 [a, b, c])
  have hd64 := toDigits_lt 64 4 (ofDigits 256 [a, b, c]) (by omega)
  have hre := regroup 256 64 3 4 [a, b, c] rfl hlt (by decide)
  obtain ⟨d0, d1, d2, d3, hd⟩ := list_len4 _ hlen
  rw [hd] at hre hd64
  simp only [List.mem_cons, List.not_mem_nil, or_false, forall_eq_or_imp, forall_eq] at hd64
  obtain ⟨h0, h1, h2, h3⟩ := hd64
  obtain ⟨v0, p0⟩ := b64_alpha d0 h0
  obtain ⟨v1, p1⟩ := b64_alpha d1 h1
  obtain ⟨v2, p2⟩ := b64_alpha d2 h2
  obtain ⟨v3, p3⟩ := b64_alpha d3 h3
  refine ⟨_, _, _, _, [d0, d1, d2, d3], by rw [hd]; rfl, ?_, hre, ?_⟩
  · simp [vals, v0, v1, v2, v3]
  · simp [b64Final, v0, v1, v2, v3, p2, p3, hre]

theorem b64_roundtrip_fn (bs : List Nat) (h : ∀ x ∈ bs, x < 256) : b64Decode (b64Encode bs) = some bs := by
  unfold b64Decode
  fun_induction b64Encode bs with
  | case1 a b c rest ih =>
    have ha : a < 256 := h a (by simp)
    have hb : b < 256 := h b (by simp)
    have hc : c < 256 := h c (by simp)
    have hr : ∀ x ∈ rest, x < 256 := fun x hx => h x (by simp [hx])
    obtain ⟨e0, e1, e2, e3, v, he, hv, hre, hfin⟩ := b64_quad a b c ha hb hc
    rw [he]
    simp only [List.cons_append, List.nil_append, b64DecQuads]
    by_cases hrest : rest = []
    · subst hrest
      simp [b64Encode, hfin]
    · have : ¬ b64Encode rest = [] := by rw [b64Encode_eq_nil]; exact hrest
      simp [this, hv, ih hr, hre]
  | case2 => simp [b64DecQuads]
  | case3 a =>
    have ha : a < 256 := h a (by simp)
    have hlen := toDigits_length 64 2 (a * 16)
    have hd64 := toDigits_lt 64 2 (a * 16) (by omega)
    have hv := ofDigits_toDigits_mod 64 2 (a * 16)
    obtain ⟨d0, d1, hd⟩ := list_len2 _ hlen
    rw [hd] at hd64 hv ⊢
    simp only [List.mem_cons, List.not_mem_nil, or_false, forall_eq_or_imp, forall_eq] at hd64
    obtain ⟨h0, h1⟩ := hd64
    obtain ⟨v0, _⟩ := b64_alpha d0 h0
    obtain ⟨v1, _⟩ := b64_alpha d1 h1
    have hv' : d0 * 64 + d1 = a * 16 := by
      simp [ofDigits, ofDigitsLE] at hv; omega
    simp [b64DecQuads, b64Final, v0, v1, hv']
  | case4 a b =>
    have ha : a < 256 := h a (by simp)
    have hb : b < 256 := h b (by simp)
    have hlen := toDigits_length 64 3 (ofDigits 256 [a, b] * 4)
    have hd64 := toDigits_lt 64 3 (ofDigits 256 [a, b] * 4) (by omega)
    have hv := ofDigits_toDigits_mod 64 3 (ofDigits 256 [a, b] * 4)
    have hlt : ofDigits 256 [a, b] < 256 ^ 2 := ofDigits_lt 256 [a, b] (by simp; omega)
    obtain ⟨d0, d1, d2, hd⟩ := list_len3 _ hlen
    rw [hd] at hd64 hv ⊢
    simp only [List.mem_cons, List.not_mem_nil, or_false, forall_eq_or_imp, forall_eq] at hd64
    obtain ⟨h0, h1, h2⟩ := hd64
    obtain ⟨v0, _⟩ := b64_alpha d0 h0
    obtain ⟨v1, _⟩ := b64_alpha d1 h1
    obtain ⟨v2, p2⟩ := b64_alpha d2 h2
    have hv' : ofDigits 64 [d0, d1, d2] = ofDigits 256 [a, b] * 4 := by
      rw [hv]; apply Nat.mod_eq_of_lt; omega
    have hback := toDigits_ofDigits 256 [a, b] (by simp; omega)
    simp only [List.length_cons, List.length_nil] at hback
    simp [b64DecQuads, b64Final, v0, v1, v2, p2, hv', hback]

end Xeh.Enc
