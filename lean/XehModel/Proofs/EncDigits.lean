/- Helper lemmas for C18: radix regrouping (`toDigits` / `ofDigits`). -/
import XehModel.Model.Enc

namespace Xeh.Enc

theorem toDigitsLE_length (b k n : Nat) : (toDigitsLE b k n).length = k := by
  induction k generalizing n with
  | zero => rfl
  | succ k ih => simp [toDigitsLE, ih]

theorem toDigitsLE_lt (b k n : Nat) (hb : 0 < b) : ∀ d ∈ toDigitsLE b k n, d < b := by
  induction k generalizing n with
  | zero => simp [toDigitsLE]
  | succ k ih =>
    intro d hd
    simp only [toDigitsLE, List.mem_cons] at hd
    rcases hd with rfl | hd
    · exact Nat.mod_lt _ hb
    · exact ih _ d hd

theorem ofDigitsLE_toDigitsLE (b k n : Nat) : ofDigitsLE b (toDigitsLE b k n) = n % b ^ k := by
  induction k generalizing n with
  | zero => simp [toDigitsLE, ofDigitsLE, Nat.mod_one]
  | succ k ih =>
    simp only [toDigitsLE, ofDigitsLE, ih]
    rw [Nat.pow_succ, Nat.mul_comm (b ^ k) b, Nat.mod_mul]

theorem toDigitsLE_ofDigitsLE (b : Nat) (ds : List Nat) (h : ∀ d ∈ ds, d < b) :
    toDigitsLE b ds.length (ofDigitsLE b ds) = ds := by
  induction ds with
  | nil => rfl
  | cons d ds ih =>
    have hd : d < b := h d (by simp)
    have hb : 0 < b := by omega
    simp only [List.length_cons, toDigitsLE, ofDigitsLE]
    rw [Nat.add_mul_mod_self_left, Nat.mod_eq_of_lt hd, Nat.add_mul_div_left _ _ hb,
      Nat.div_eq_of_lt hd, Nat.zero_add, ih (fun x hx => h x (by simp [hx]))]

theorem ofDigitsLE_lt (b : Nat) (ds : List Nat) (h : ∀ d ∈ ds, d < b) :
    ofDigitsLE b ds < b ^ ds.length := by
  induction ds with
  | nil => simp [ofDigitsLE]
  | cons d ds ih =>
    have hd : d < b := h d (by simp)
    have := ih (fun x hx => h x (by simp [hx]))
    simp only [ofDigitsLE, List.length_cons, Nat.pow_succ]
    calc d + b * ofDigitsLE b ds < b + b * ofDigitsLE b ds := by omega
      _ = b * (ofDigitsLE b ds + 1) := by rw [Nat.mul_add, Nat.mul_one, Nat.add_comm]
      _ ≤ b * b ^ ds.length := Nat.mul_le_mul_left _ this
      _ = b ^ ds.length * b := Nat.mul_comm _ _

theorem toDigits_length (b k n : Nat) : (toDigits b k n).length = k := by
  simp [toDigits, toDigitsLE_length]

theorem toDigits_lt (b k n : Nat) (hb : 0 < b) : ∀ d ∈ toDigits b k n, d < b := by
  intro d hd
  exact toDigitsLE_lt b k n hb d (by simpa [toDigits] using hd)

theorem ofDigits_toDigits_mod (b k n : Nat) : ofDigits b (toDigits b k n) = n % b ^ k := by
  simp [ofDigits, toDigits, ofDigitsLE_toDigitsLE]

theorem toDigits_ofDigits (b : Nat) (ds : List Nat) (h : ∀ d ∈ ds, d < b) :
    toDigits b ds.length (ofDigits b ds) = ds := by
  have := toDigitsLE_ofDigitsLE b ds.reverse (by simpa using h)
  simp only [List.length_reverse] at this
  simp [toDigits, ofDigits, this]

theorem ofDigits_lt (b : Nat) (ds : List Nat) (h : ∀ d ∈ ds, d < b) :
    ofDigits b ds < b ^ ds.length := by
  have := ofDigitsLE_lt b ds.reverse (by simpa using h)
  simpa [ofDigits] using this

/-- regrouping a chunk: `j` digits in base `b` → `k` digits in base `c` → back, when `b^j ≤ c^k` -/
theorem regroup (b c j k : Nat) (ds : List Nat) (hl : ds.length = j) (h : ∀ d ∈ ds, d < b)
    (hle : b ^ j ≤ c ^ k) :
    toDigits b j (ofDigits c (toDigits c k (ofDigits b ds))) = ds := by
  have h1 : ofDigits b ds < c ^ k := by
    have := ofDigits_lt b ds h
    rw [hl] at this; omega
  rw [ofDigits_toDigits_mod, Nat.mod_eq_of_lt h1, ← hl, toDigits_ofDigits b ds h]

end Xeh.Enc
