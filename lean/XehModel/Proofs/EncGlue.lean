/- Helper lemmas for C18: strings ↔ bytes ↔ bits, ASCII output of the encoders, the word-level glue. -/
import XehModel.Proofs.EncBase32
import XehModel.Proofs.EncZ85
import XehModel.Proofs.ProgLemmas

namespace Xeh.Enc
open Xeh Prog
set_option linter.unusedSimpArgs false

/-! ### bytes ↔ bits -/

theorem bitsNat_byteBits : ∀ n, n < 256 → bitsNat (byteBits n) 0 = n := by decide +kernel

theorem byteBits_bitsNat : ∀ b0 b1 b2 b3 b4 b5 b6 b7 : Bool,
    byteBits (bitsNat [b0, b1, b2, b3, b4, b5, b6, b7] 0) = [b0, b1, b2, b3, b4, b5, b6, b7] := by decide

theorem bitsNat8_lt : ∀ b0 b1 b2 b3 b4 b5 b6 b7 : Bool,
    bitsNat [b0, b1, b2, b3, b4, b5, b6, b7] 0 < 256 := by decide

theorem bitsToBytes_bytesToBits (l : List Nat) (h : ∀ x ∈ l, x < 256) : bitsToBytes (bytesToBits l) = l := by
  induction l with
  | nil => simp [bytesToBits, bitsToBytes]
  | cons a t ih =>
    have ha := bitsNat_byteBits a (h a (by simp))
    have := ih (fun x hx => h x (by simp [hx]))
    simp only [bytesToBits, List.flatMap_cons] at this ⊢
    rw [show byteBits a = [a / 128 % 2 == 1, a / 64 % 2 == 1, a / 32 % 2 == 1, a / 16 % 2 == 1,
      a / 8 % 2 == 1, a / 4 % 2 == 1, a / 2 % 2 == 1, a % 2 == 1] from rfl] at ha ⊢
    simp only [List.cons_append, List.nil_append, bitsToBytes, ha, this]

theorem bytesToBits_length (l : List Nat) : (bytesToBits l).length = 8 * l.length := by
  induction l with
  | nil => rfl
  | cons a t ih =>
    simp only [bytesToBits, List.flatMap_cons, List.length_append] at ih ⊢
    rw [ih]; simp [byteBits]; omega

theorem bytestr_bytesToBits (l : List Nat) (h : ∀ x ∈ l, x < 256) : bytestr (bytesToBits l) = some l := by
  simp [bytestr, bytesToBits_length, bitsToBytes_bytesToBits l h]

/-- a whole number of bytes: regrouping the bits loses nothing -/
theorem bytesToBits_bitsToBytes : (bits : List Bool) → bits.length % 8 = 0 →
    bytesToBits (bitsToBytes bits) = bits ∧ ∀ x ∈ bitsToBytes bits, x < 256
  | [], _ => by simp [bitsToBytes, bytesToBits]
  | b0 :: b1 :: b2 :: b3 :: b4 :: b5 :: b6 :: b7 :: rest, h => by
    have ih := bytesToBits_bitsToBytes rest (by simp at h; omega)
    have e := byteBits_bitsNat b0 b1 b2 b3 b4 b5 b6 b7
    have l := bitsNat8_lt b0 b1 b2 b3 b4 b5 b6 b7
    simp only [bitsToBytes, bytesToBits, List.flatMap_cons, e] at ih ⊢
    refine ⟨by simp [ih.1], ?_⟩
    intro x hx
    simp only [List.mem_cons] at hx
    rcases hx with rfl | hx
    · exact l
    · exact ih.2 x hx
  | [_], h | [_, _], h | [_, _, _], h | [_, _, _, _], h | [_, _, _, _, _], h
  | [_, _, _, _, _, _], h | [_, _, _, _, _, _, _], h => by simp at h

theorem bytestr_some (bits : List Bool) (l : List Nat) (h : bytestr bits = some l) :
    bytesToBits l = bits ∧ ∀ x ∈ l, x < 256 := by
  unfold bytestr at h
  split at h
  · rename_i hm
    simp at h; subst h
    exact bytesToBits_bitsToBytes bits hm
  · simp at h

/-! ### text: the encoders write ASCII, so the string's UTF-8 bytes are the letters themselves -/

theorem utf8Char_ascii : ∀ n, n < 128 → utf8Char (Char.ofNat n) = [n] := by decide

theorem utf8Bytes_asciiStr (l : List Nat) (h : ∀ x ∈ l, x < 128) : utf8Bytes (asciiStr l) = l := by
  induction l with
  | nil => rfl
  | cons a t ih =>
    have := ih (fun x hx => h x (by simp [hx]))
    simp only [utf8Bytes, asciiStr, List.map_cons, List.flatMap_cons] at this ⊢
    rw [utf8Char_ascii a (h a (by simp)), this]; rfl

theorem b64_alpha_ascii : ∀ d, d < 64 → alphaAt b64Alphabet d < 128 := by decide
theorem z85_alpha_ascii : ∀ d, d < 85 → alphaAt z85Letters d < 128 := by decide

theorem map_alpha_lt (alpha : List Nat) (b : Nat) (ha : ∀ d, d < b → alphaAt alpha d < 128) (hb : 0 < b)
    (k n : Nat) : ∀ x ∈ (toDigits b k n).map (alphaAt alpha), x < 128 := by
  intro x hx
  simp only [List.mem_map] at hx
  obtain ⟨d, hd, rfl⟩ := hx
  exact ha d (toDigits_lt b k n hb d hd)

theorem b64Encode_ascii : (bs : List Nat) → ∀ x ∈ b64Encode bs, x < 128
  | [] => by simp [b64Encode]
  | [a] => by
    intro x hx
    simp only [b64Encode, List.mem_append] at hx
    rcases hx with hx | hx
    · exact map_alpha_lt _ 64 b64_alpha_ascii (by omega) _ _ x hx
    · simp at hx; omega
  | [a, b] => by
    intro x hx
    simp only [b64Encode, List.mem_append] at hx
    rcases hx with hx | hx
    · exact map_alpha_lt _ 64 b64_alpha_ascii (by omega) _ _ x hx
    · simp at hx; omega
  | a :: b :: c :: rest => by
    have ih := b64Encode_ascii rest
    intro x hx
    simp only [b64Encode, List.mem_append] at hx
    rcases hx with hx | hx
    · exact map_alpha_lt _ 64 b64_alpha_ascii (by omega) _ _ x hx
    · exact ih x hx

theorem z85Chunk_ascii (l : List Nat) : ∀ x ∈ z85Chunk l, x < 128 :=
  map_alpha_lt _ 85 z85_alpha_ascii (by omega) _ _

theorem z85Encode_ascii : (bs : List Nat) → ∀ x ∈ z85Encode bs, x < 128
  | [] => by simp [z85Encode]
  | [a] => by
    intro x hx
    simp only [z85Encode_one, List.mem_append] at hx
    rcases hx with hx | hx
    · simp at hx; omega
    · exact z85Chunk_ascii _ x (List.mem_of_mem_drop hx)
  | [a, b] => by
    intro x hx
    simp only [z85Encode_two, List.mem_append] at hx
    rcases hx with hx | hx
    · simp at hx; omega
    · exact z85Chunk_ascii _ x (List.mem_of_mem_drop hx)
  | [a, b, c] => by
    intro x hx
    simp only [z85Encode_three, List.mem_append] at hx
    rcases hx with hx | hx
    · simp at hx; omega
    · exact z85Chunk_ascii _ x (List.mem_of_mem_drop hx)
  | a :: b :: c :: d :: rest => by
    have ih := z85Encode_ascii rest
    intro x hx
    simp only [z85Encode_four, List.mem_append] at hx
    rcases hx with hx | hx
    · exact z85Chunk_ascii _ x hx
    · exact ih x hx

theorem b32Encode_ascii (alpha : List Nat) (tbl : List (Option Nat)) (ok : B32Ok alpha tbl) (pad : Bool)
    (bs : List Nat) : ∀ x ∈ b32Encode alpha pad bs, x < 128 := by
  have hl := b32Encode_letters alpha tbl ok bs
  cases pad
  · exact fun x hx => (hl x hx).2
  · rw [b32Encode_split]
    intro x hx
    simp only [List.mem_append, List.mem_replicate] at hx
    rcases hx with hx | ⟨_, rfl⟩
    · exact (hl x hx).2
    · omega

/-! ### an encoder/decoder pair that round-trips on bytes and writes ASCII -/

structure Pair (enc : List Nat → List Nat) (dec : List Nat → Dec) : Prop where
  rt : ∀ bs, (∀ x ∈ bs, x < 256) → dec (enc bs) = .bytes bs
  ascii : ∀ bs, ∀ x ∈ enc bs, x < 128

theorem pair_base32 : Pair base32Enc base32Dec :=
  ⟨fun bs h => by simp [base32Enc, base32Dec, base32_roundtrip_fn bs h, Dec.ofOption],
   fun bs => b32Encode_ascii _ _ rfc_ok true bs⟩

theorem pair_base32hex : Pair base32hexEnc base32hexDec :=
  ⟨fun bs h => by simp [base32hexEnc, base32hexDec, base32hex_roundtrip_fn bs h, Dec.ofOption],
   fun bs => b32Encode_ascii _ _ crock_ok false bs⟩

theorem pair_base64 : Pair b64Encode base64Dec :=
  ⟨fun bs h => by simp [base64Dec, b64_roundtrip_fn bs h, Dec.ofOption], b64Encode_ascii⟩

theorem pair_zero85 : Pair z85Encode z85Guarded :=
  ⟨z85_guarded_roundtrip_fn, z85Encode_ascii⟩

/-! ### running the words -/

theorem run_encodeWord (enc : List Nat → List Nat) (c : Cell) (s : List Cell) (h : Nat) (hh : h ≤ s.length) :
    runStack (encodeWord enc) h (c :: s) =
      match bitstrConcat c with
      | .ok bits =>
        match bytestr bits with
        | some bytes => .ok (.str (asciiStr (enc bytes)) :: s)
        | none => .err .toBytestrError
      | .err e => .err e
      | .panic p => .panic p := by
  unfold encodeWord
  rw [runStack_pop_cons _ _ _ _ hh]
  cases hc : bitstrConcat c with
  | ok bits =>
    simp only [ofOutcome]
    cases hb : bytestr bits <;> simp [runStack]
  | err e => simp [ofOutcome, runStack]
  | panic p => simp [ofOutcome, runStack]

theorem run_intoBitstr (c : Cell) (s : List Cell) (h : Nat) (hh : h ≤ s.length) :
    runStack wordIntoBitstr h (c :: s) =
      match bitstrConcat c with
      | .ok bits => .ok (.bitstr bits :: s)
      | .err e => .err e
      | .panic p => .panic p := by
  unfold wordIntoBitstr
  rw [runStack_pop_cons _ _ _ _ hh]
  cases hc : bitstrConcat c <;> simp [ofOutcome, runStack]

theorem run_decodeWord_str (dec : List Nat → Dec) (c : Cell) (t : List Char) (hc : c.toStr = .ok t)
    (s : List Cell) (h : Nat) (hh : h ≤ s.length) :
    runStack (decodeWord dec) h (c :: s) =
      match dec (utf8Bytes t) with
      | .bytes l => .ok (.bitstr (bytesToBits l) :: s)
      | .invalid => .ok (.nil :: s)
      | .panic p => .panic p := by
  unfold decodeWord
  have hn : (c :: s).length - h ≠ 0 := by simp; omega
  simp only [runStack, hn, if_false]
  rw [if_pos (by simp; omega), hc]
  cases hd : dec (utf8Bytes t) <;> simp [runStack, hd]

end Xeh.Enc
