/- Helper lemmas for C18: a byte outside alphabet ∪ padding makes every decoder answer `invalid`;
   `bitstr_concat` never panics. -/
import XehModel.Proofs.EncGlue

namespace Xeh.Enc
open Xeh Prog
set_option linter.unusedSimpArgs false

theorem vals_some (f : Nat → Option Nat) (l v : List Nat) (h : vals f l = some v) :
    ∀ c ∈ l, (f c).isSome = true := by
  induction l generalizing v with
  | nil => simp
  | cons a t ih =>
    simp only [vals] at h
    split at h
    · rename_i x xs hx hxs
      intro c hc
      simp only [List.mem_cons] at hc
      rcases hc with rfl | hc
      · simp [hx]
      · exact ih xs hxs c hc
    · simp at h

theorem b32DecChunks_some (tbl : List (Option Nat)) (data r : List Nat)
    (h : b32DecChunks tbl data = some r) : ∀ c ∈ data, (b32Val tbl c).isSome = true := by
  fun_induction b32DecChunks tbl data generalizing r with
  | case1 c0 c1 c2 c3 c4 c5 c6 c7 rest v r' hv hr ih =>
    intro c hc
    have h8 := vals_some _ _ _ hr
    simp only [List.mem_cons] at hc h8
    rcases hc with hc | hc | hc | hc | hc | hc | hc | hc | hc
    all_goals first | exact ih r' hv c hc | (apply h8; simp [hc])
  | case2 c0 c1 c2 c3 c4 c5 c6 c7 rest hn => simp at h
  | case3 => simp
  | case4 part h1 h2 v hv => exact vals_some _ _ _ hv
  | case5 part h1 h2 hv => simp at h

/-- base32 / base32hex: a byte the table rejects anywhere in the text ⇒ no value -/
theorem b32Decode_invalid (tbl : List (Option Nat)) (data : List Nat)
    (h : ∃ c ∈ data, b32Val tbl c = none) : b32Decode tbl data = none := by
  obtain ⟨c, hc, hv⟩ := h
  unfold b32Decode
  split
  · rfl
  · cases hd : b32DecChunks tbl data with
    | none => rfl
    | some r =>
      have := b32DecChunks_some tbl data r hd c hc
      simp [hv] at this

theorem b64Final_some (c0 c1 c2 c3 : Nat) (r : List Nat) (h : b64Final c0 c1 c2 c3 = some r) :
    ∀ c ∈ [c0, c1, c2, c3], (b64Val c).isSome = true ∨ c = 61 := by
  unfold b64Final at h
  cases h0 : b64Val c0 <;> cases h1 : b64Val c1 <;> simp [h0, h1] at h
  intro c hc
  simp only [List.mem_cons, List.not_mem_nil, or_false] at hc
  by_cases e2 : c2 = 61
  · by_cases e3 : c3 = 61
    · rcases hc with rfl | rfl | rfl | rfl <;> simp [h0, h1, e2, e3]
    · simp [e2, e3] at h
  · cases h2 : b64Val c2 with
    | none => simp [e2, h2] at h
    | some v2 =>
      by_cases e3 : c3 = 61
      · rcases hc with rfl | rfl | rfl | rfl <;> simp [h0, h1, h2, e3]
      · cases h3 : b64Val c3 with
        | none => simp [e2, h2, e3, h3] at h
        | some v3 => rcases hc with rfl | rfl | rfl | rfl <;> simp [h0, h1, h2, h3]

theorem b64DecQuads_some (data r : List Nat) (h : b64DecQuads data = some r) :
    ∀ c ∈ data, (b64Val c).isSome = true ∨ c = 61 := by
  fun_induction b64DecQuads data generalizing r with
  | case1 c0 c1 c2 c3 rest he =>
    simp at he; subst he
    exact b64Final_some c0 c1 c2 c3 r h
  | case2 c0 c1 c2 c3 rest he v r' hv hr ih =>
    intro c hc
    have h4 := vals_some _ _ _ hr
    simp only [List.mem_cons] at hc h4
    rcases hc with hc | hc | hc | hc | hc
    all_goals first | exact ih r' hv c hc | (left; apply h4; simp [hc])
  | case3 c0 c1 c2 c3 rest he hn => simp at h
  | case4 => simp
  | case5 => simp at h

/-- base64: a byte that is neither a letter of the alphabet nor `'='` ⇒ no value -/
theorem b64Decode_invalid (data : List Nat) (h : ∃ c ∈ data, b64Val c = none ∧ c ≠ 61) :
    b64Decode data = none := by
  obtain ⟨c, hc, hv, hne⟩ := h
  cases hd : b64Decode data with
  | none => rfl
  | some r =>
    have := b64DecQuads_some data r hd c hc
    simp [hv, hne] at this

theorem z85DecChunk_some (l r : List Nat) (h : z85DecChunk l = some r) :
    ∀ c ∈ l, (z85Val c).isSome = true := by
  unfold z85DecChunk at h
  cases hv : vals z85Val l with
  | none => simp [hv] at h
  | some v => exact vals_some _ _ _ hv

theorem z85_hash_valid : (z85Val 35).isSome = true := by decide

theorem drop_takeWhile_length (p : Nat → Bool) (l : List Nat) :
    l.drop (l.takeWhile p).length = l.dropWhile p := by
  induction l with
  | nil => rfl
  | cons a t ih =>
    cases hp : p a <;> simp [List.takeWhile_cons, List.dropWhile_cons, hp, ih]

theorem mem_takeWhile_p (p : Nat → Bool) (l : List Nat) (x : Nat) (h : x ∈ l.takeWhile p) : p x = true := by
  induction l with
  | nil => simp at h
  | cons a t ih =>
    cases hp : p a
    · simp [List.takeWhile_cons, hp] at h
    · simp only [List.takeWhile_cons, hp, if_true, List.mem_cons] at h
      rcases h with rfl | h
      · exact hp
      · exact ih h

theorem z85DecTail_bytes (c0 c1 c2 c3 c4 : Nat) (r : List Nat)
    (h : z85DecTail [c0, c1, c2, c3, c4] = .bytes r) :
    ∀ c ∈ [c0, c1, c2, c3, c4], (z85Val c).isSome = true := by
  unfold z85DecTail at h
  generalize hdiff : ([c0, c1, c2, c3, c4].takeWhile (· == 35)).length = diff at h
  cases hc : z85DecChunk ([c0, c1, c2, c3, c4].drop diff) with
  | none => simp [hc] at h
  | some bin =>
    have hrest := z85DecChunk_some _ _ hc
    intro c hmem
    -- every byte is either in the run of leading `#` or in the decoded remainder
    have hsplit := List.takeWhile_append_dropWhile (p := (· == 35)) (l := [c0, c1, c2, c3, c4])
    have hdrop : [c0, c1, c2, c3, c4].drop diff = [c0, c1, c2, c3, c4].dropWhile (· == 35) := by
      rw [← hdiff]; exact drop_takeWhile_length _ _
    rw [← hsplit, List.mem_append] at hmem
    rcases hmem with hm | hm
    · have := mem_takeWhile_p _ _ _ hm
      simp at this; subst this; exact z85_hash_valid
    · exact hrest c (by rw [hdrop]; exact hm)

theorem z85DecChunks_bytes (data r : List Nat) (h : z85DecChunks data = .bytes r) :
    ∀ c ∈ data, (z85Val c).isSome = true := by
  fun_induction z85DecChunks data generalizing r with
  | case1 c0 c1 c2 c3 c4 rest hc =>
    obtain ⟨hr, -⟩ := hc
    simp at hr; subst hr
    exact z85DecTail_bytes c0 c1 c2 c3 c4 r h
  | case2 c0 c1 c2 c3 c4 rest hc hn => simp at h
  | case3 c0 c1 c2 c3 c4 rest hc bin hb r' hr ih =>
    intro c hmem
    have h5 := z85DecChunk_some _ _ hb
    simp only [List.mem_cons] at hmem h5
    rcases hmem with hm | hm | hm | hm | hm | hm
    all_goals first | exact ih r' hr c hm | (apply h5; simp [hm])
  | case4 c0 c1 c2 c3 c4 rest hc bin hb hd ih =>
    exfalso
    cases hx : z85DecChunks rest with
    | bytes r' => exact hd r' hx
    | invalid => simp [hx] at h
    | panic s => simp [hx] at h
  | case5 => simp
  | case6 => simp at h

/-- zero85 (with xeh's guard): a byte outside the 85 letters ⇒ `invalid` — in particular no panic -/
theorem z85Guarded_invalid (data : List Nat) (h : ∃ c ∈ data, z85Val c = none) :
    z85Guarded data = .invalid := by
  obtain ⟨c, hc, hv⟩ := h
  cases hg : z85Guarded data with
  | invalid => rfl
  | panic s => exact absurd hg (z85Guarded_no_panic data s)
  | bytes r =>
    exfalso
    unfold z85Guarded at hg
    split at hg
    · simp at hg
    · unfold z85Decode at hg
      split at hg
      · simp at hg
      · have := z85DecChunks_bytes data r hg c hc
        simp [hv] at this

/-! ### `bitstr_concat` returns a value or an error value, never a panic -/

theorem concatLeaf_no_panic (v : Cell) (p : String) : concatLeaf v ≠ .panic p := by
  unfold concatLeaf
  split <;> try simp
  split <;> simp

mutual
theorem concatList_no_panic : (l : CellList) → (p : String) → concatList l ≠ .panic p
  | .nil, p => by simp [concatList]
  | .cons x t, p => by
    have h1 := concatElem_no_panic x
    have h2 := concatList_no_panic t
    unfold concatList
    cases hx : concatElem x with
    | ok a =>
      cases ht : concatList t with
      | ok b => simp
      | err e => simp
      | panic q => exact absurd ht (h2 q)
    | err e => simp
    | panic q => exact absurd hx (h1 q)
theorem concatElem_no_panic : (c : Cell) → (p : String) → concatElem c ≠ .panic p
  | .vec xs, p => by unfold concatElem; exact concatList_no_panic xs p
  | .tagged (.vec xs) _, p => by unfold concatElem; exact concatList_no_panic xs p
  | .tagged .nil _, p | .tagged (.flag _) _, p | .tagged (.int _) _, p | .tagged (.real _) _, p
  | .tagged (.str _) _, p | .tagged (.map _) _, p | .tagged (.fn _ _) _, p | .tagged (.bitstr _) _, p
  | .tagged (.any _) _, p | .tagged (.tagged _ _) _, p => by
    unfold concatElem; exact concatLeaf_no_panic _ p
  | .nil, p | .flag _, p | .int _, p | .real _, p | .str _, p | .map _, p | .fn _ _, p
  | .bitstr _, p | .any _, p => by
    unfold concatElem; exact concatLeaf_no_panic _ p
end

theorem bitstrConcat_no_panic (c : Cell) (p : String) : bitstrConcat c ≠ .panic p := by
  unfold bitstrConcat
  split
  · simp
  · exact concatList_no_panic _ p
  · simp
  · simp

end Xeh.Enc
