/- Helper lemmas for C18: the word-level statements for a generic encoder/decoder pair. -/
import XehModel.Proofs.EncInvalid

namespace Xeh.Enc
open Xeh Prog
set_option linter.unusedSimpArgs false

theorem str_toStr (t : List Char) : (Cell.str t).toStr = .ok t := by simp [Cell.toStr, Cell.value]

/-- encode then decode gives back exactly the bits `>bitstr` produces -/
theorem words_roundtrip {enc : List Nat → List Nat} {dec : List Nat → Dec} (P : Pair enc dec)
    (c : Cell) (bits : List Bool) (hc : bitstrConcat c = .ok bits) (hm : bits.length % 8 = 0)
    (s : List Cell) (h : Nat) (hh : h ≤ s.length) :
    ∃ t, runStack (encodeWord enc) h (c :: s) = .ok (.str t :: s) ∧
         runStack (decodeWord dec) h (.str t :: s) = .ok (.bitstr bits :: s) := by
  obtain ⟨hb, hlt⟩ := bytesToBits_bitsToBytes bits hm
  refine ⟨asciiStr (enc (bitsToBytes bits)), ?_, ?_⟩
  · rw [run_encodeWord enc c s h hh, hc]
    simp [bytestr, hm]
  · rw [run_decodeWord_str dec _ _ (str_toStr _) s h hh, utf8Bytes_asciiStr _ (P.ascii _),
      P.rt _ hlt]
    simp [hb]

theorem decode_total (dec : List Nat → Dec) (hnp : ∀ d p, dec d ≠ .panic p)
    (c : Cell) (t : List Char) (hc : c.toStr = .ok t) (s : List Cell) (h : Nat) (hh : h ≤ s.length) :
    runStack (decodeWord dec) h (c :: s) = .ok (.nil :: s) ∨
    ∃ l, dec (utf8Bytes t) = .bytes l ∧ runStack (decodeWord dec) h (c :: s) = .ok (.bitstr (bytesToBits l) :: s) := by
  rw [run_decodeWord_str dec c t hc s h hh]
  cases hd : dec (utf8Bytes t) with
  | bytes l => right; exact ⟨l, rfl, rfl⟩
  | invalid => left; rfl
  | panic p => exact absurd hd (hnp _ p)

theorem decode_invalid_nil (dec : List Nat → Dec) (c : Cell) (t : List Char) (hc : c.toStr = .ok t)
    (hinv : dec (utf8Bytes t) = .invalid) (s : List Cell) (h : Nat) (hh : h ≤ s.length) :
    runStack (decodeWord dec) h (c :: s) = .ok (.nil :: s) := by
  rw [run_decodeWord_str dec c t hc s h hh, hinv]

/-- the glue swallows the type error of a non-string argument … -/
theorem decode_nonstring_nil (dec : List Nat → Dec) (c : Cell) (e : Xerr) (hc : c.toStr = .err e)
    (s : List Cell) (h : Nat) (hh : h ≤ s.length) :
    runStack (decodeWord dec) h (c :: s) = .ok (.nil :: s) := by
  unfold decodeWord
  have hn : (c :: s).length - h ≠ 0 := by simp; omega
  simp only [runStack, hn, if_false]
  rw [if_pos (by simp; omega), hc]
  simp [runStack]

/-- … and the stack underflow of an empty (visible) stack -/
theorem decode_empty_nil (dec : List Nat → Dec) (s : List Cell) :
    runStack (decodeWord dec) s.length s = .ok (.nil :: s) := by
  unfold decodeWord
  simp [runStack]

theorem encode_accepts (enc : List Nat → List Nat) (c : Cell) (s : List Cell) (h : Nat) (hh : h ≤ s.length) :
    (∀ e, runStack wordIntoBitstr h (c :: s) = .err e → runStack (encodeWord enc) h (c :: s) = .err e) ∧
    (∀ bits, runStack wordIntoBitstr h (c :: s) = .ok (.bitstr bits :: s) →
      (bits.length % 8 = 0 → runStack (encodeWord enc) h (c :: s) = .ok (.str (asciiStr (enc (bitsToBytes bits))) :: s)) ∧
      (bits.length % 8 ≠ 0 → runStack (encodeWord enc) h (c :: s) = .err .toBytestrError)) ∧
    (∀ p, runStack wordIntoBitstr h (c :: s) ≠ .panic p ∧ runStack (encodeWord enc) h (c :: s) ≠ .panic p) := by
  rw [run_intoBitstr c s h hh, run_encodeWord enc c s h hh]
  cases hc : bitstrConcat c with
  | ok bits =>
    refine ⟨by simp, ?_, ?_⟩
    · intro b hb
      simp at hb; subst hb
      constructor
      · intro hm; simp [bytestr, hm]
      · intro hm; simp [bytestr, hm]
    · intro p
      refine ⟨by simp, ?_⟩
      cases hb : bytestr bits <;> simp [hb]
  | err e => simp
  | panic p => exact absurd hc (bitstrConcat_no_panic c p)

/-- the only failures of an encoder: those of `>bitstr`, or a bit length that is not a multiple of 8 -/
theorem encode_fails_iff (enc : List Nat → List Nat) (c : Cell) (s : List Cell) (h : Nat) (hh : h ≤ s.length) (e : Xerr) :
    runStack (encodeWord enc) h (c :: s) = .err e ↔
      (runStack wordIntoBitstr h (c :: s) = .err e ∨
       ∃ bits, runStack wordIntoBitstr h (c :: s) = .ok (.bitstr bits :: s) ∧ bits.length % 8 ≠ 0 ∧ e = .toBytestrError) := by
  rw [run_intoBitstr c s h hh, run_encodeWord enc c s h hh]
  cases hc : bitstrConcat c with
  | ok bits =>
    by_cases hm : bits.length % 8 = 0
    · simp [bytestr, hm]
    · simp [bytestr, hm]
      constructor
      · intro he; exact he.symm
      · intro he; exact he.symm
  | err e' => simp
  | panic p => exact absurd hc (bitstrConcat_no_panic c p)

end Xeh.Enc
