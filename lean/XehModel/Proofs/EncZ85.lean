/- Helper lemmas for C18: Z85 round trip (full chunks and the `#` tail scheme). -/
import XehModel.Proofs.EncBase64

namespace Xeh.Enc
set_option linter.unusedSimpArgs false

theorem z85_alpha : ∀ d, d < 85 →
    z85Val (alphaAt z85Letters d) = some d ∧ (alphaAt z85Letters d = 0x23 → d = 84) := by
  decide

/-- the five letters of a number below `2^32` -/
theorem z85_letters (n : Nat) :
    ∃ t0 t1 t2 t3 t4, toDigits 85 5 n = [t0, t1, t2, t3, t4] ∧
      t0 < 85 ∧ t1 < 85 ∧ t2 < 85 ∧ t3 < 85 ∧ t4 < 85 ∧
      (n < 85 ^ 5 → t4 + 85 * (t3 + 85 * (t2 + 85 * (t1 + 85 * t0))) = n) := by
  have hlen := toDigits_length 85 5 n
  have hd := toDigits_lt 85 5 n (by omega)
  have hv := ofDigits_toDigits_mod 85 5 n
  obtain ⟨t0, t1, t2, t3, t4, ht⟩ := list_len5 _ hlen
  rw [ht] at hd hv
  simp only [List.mem_cons, List.not_mem_nil, or_false, forall_eq_or_imp, forall_eq] at hd
  refine ⟨t0, t1, t2, t3, t4, ht, hd.1, hd.2.1, hd.2.2.1, hd.2.2.2.1, hd.2.2.2.2, ?_⟩
  intro hn
  rw [Nat.mod_eq_of_lt hn] at hv
  simpa [ofDigits, ofDigitsLE] using hv

theorem z85Chunk_dec (a b c d : Nat) (ha : a < 256) (hb : b < 256) (hc : c < 256) (hd : d < 256) :
    ∃ e0 e1 e2 e3 e4, z85Chunk [a, b, c, d] = [e0, e1, e2, e3, e4] ∧ e0 ≠ 0x23 ∧
      z85DecChunk [e0, e1, e2, e3, e4] = some [a, b, c, d] := by
  have hlt : ∀ x ∈ [a, b, c, d], x < 256 := by simp; omega
  have hN := ofDigits_lt 256 [a, b, c, d] hlt
  simp only [List.length_cons, List.length_nil] at hN
  obtain ⟨t0, t1, t2, t3, t4, ht, h0, h1, h2, h3, h4, hv⟩ := z85_letters (ofDigits 256 [a, b, c, d])
  have hv := hv (by omega)
  obtain ⟨v0, p0⟩ := z85_alpha t0 h0
  obtain ⟨v1, _⟩ := z85_alpha t1 h1
  obtain ⟨v2, _⟩ := z85_alpha t2 h2
  obtain ⟨v3, _⟩ := z85_alpha t3 h3
  obtain ⟨v4, _⟩ := z85_alpha t4 h4
  have hback := toDigits_ofDigits 256 [a, b, c, d] hlt
  simp only [List.length_cons, List.length_nil] at hback
  refine ⟨alphaAt z85Letters t0, alphaAt z85Letters t1, alphaAt z85Letters t2, alphaAt z85Letters t3,
    alphaAt z85Letters t4, by simp [z85Chunk, ht], ?_, ?_⟩
  · intro h; have := p0 h; omega
  · simp only [ofDigits, ofDigitsLE, List.reverse_cons, List.reverse_nil, List.nil_append,
      List.cons_append] at hN hv hback
    simp only [z85DecChunk, vals, v0, v1, v2, v3, v4, ofDigits, ofDigitsLE, List.reverse_cons,
      List.reverse_nil, List.nil_append, List.cons_append]
    rw [if_neg (by omega)]
    rw [show t4 + 85 * (t3 + 85 * (t2 + 85 * (t1 + 85 * (t0 + 85 * 0)))) =
      d + 256 * (c + 256 * (b + 256 * (a + 256 * 0))) by omega]
    exact congrArg some hback

theorem z85Encode_one (a : Nat) :
    z85Encode [a] = [0x23, 0x23, 0x23] ++ (z85Chunk [0, 0, 0, a]).drop 3 := by
  simp [z85Encode, zeros, List.replicate]

theorem z85Encode_two (a b : Nat) :
    z85Encode [a, b] = [0x23, 0x23] ++ (z85Chunk [0, 0, a, b]).drop 2 := by
  simp [z85Encode, zeros, List.replicate]

theorem z85Encode_three (a b c : Nat) :
    z85Encode [a, b, c] = [0x23] ++ (z85Chunk [0, a, b, c]).drop 1 := by
  simp [z85Encode, zeros, List.replicate]

theorem z85Encode_four (a b c d : Nat) (rest : List Nat) :
    z85Encode (a :: b :: c :: d :: rest) = z85Chunk [a, b, c, d] ++ z85Encode rest := by
  simp [z85Encode]

theorem z85Chunk_length (l : List Nat) : (z85Chunk l).length = 5 := by
  simp [z85Chunk, toDigits_length]

theorem z85Encode_length : (bs : List Nat) → (z85Encode bs).length % 5 = 0
  | [] => rfl
  | [a] => by simp [z85Encode_one, z85Chunk_length]
  | [a, b] => by simp [z85Encode_two, z85Chunk_length]
  | [a, b, c] => by simp [z85Encode_three, z85Chunk_length]
  | a :: b :: c :: d :: rest => by
    have := z85Encode_length rest
    simp [z85Encode_four, z85Chunk_length]; omega

theorem z85Encode_eq_nil : (bs : List Nat) → (z85Encode bs = [] ↔ bs = [])
  | [] => by simp [z85Encode]
  | [a] => by simp [z85Encode_one]
  | [a, b] => by simp [z85Encode_two]
  | [a, b, c] => by simp [z85Encode_three]
  | a :: b :: c :: d :: rest => by
    have : (z85Chunk [a, b, c, d]) ≠ [] := by
      intro h; have := z85Chunk_length [a, b, c, d]; simp [h] at this
    simp [z85Encode_four, this]

theorem z85_tail3 (a b c : Nat) (ha : a < 256) (hb : b < 256) (hc : c < 256) :
    z85DecTail ([0x23] ++ (z85Chunk [0, a, b, c]).drop 1) = .bytes [a, b, c] := by
  have hlt : ∀ x ∈ [0, a, b, c], x < 256 := by simp; omega
  have hN := ofDigits_lt 256 [0, a, b, c] hlt
  obtain ⟨t0, t1, t2, t3, t4, ht, h0, h1, h2, h3, h4, hv⟩ := z85_letters (ofDigits 256 [0, a, b, c])
  have hback := toDigits_ofDigits 256 [0, a, b, c] hlt
  simp only [ofDigits, ofDigitsLE, List.reverse_cons, List.reverse_nil, List.nil_append,
    List.cons_append, List.length_cons, List.length_nil] at hN hv hback
  have hv := hv (by omega)
  obtain ⟨_, p0⟩ := z85_alpha t0 h0
  obtain ⟨v1, p1⟩ := z85_alpha t1 h1
  obtain ⟨v2, _⟩ := z85_alpha t2 h2
  obtain ⟨v3, _⟩ := z85_alpha t3 h3
  obtain ⟨v4, _⟩ := z85_alpha t4 h4
  have n1 : (alphaAt z85Letters t1 == 35) = false := by
    simp; intro h; have := p1 h; omega
  rw [z85Chunk, ht]
  simp only [List.map_cons, List.map_nil, List.drop_succ_cons, List.drop_zero, List.cons_append, List.nil_append]
  simp only [z85DecTail, List.takeWhile_cons, n1]
  simp [z85DecChunk, vals, v1, v2, v3, v4, ofDigits, ofDigitsLE]
  have e : t4 + 85 * (t3 + 85 * (t2 + 85 * t1)) = c + 256 * (b + 256 * (a + 256 * (0 + 256 * 0))) := by omega
  rw [e, if_neg (by omega)]
  simp only [Nat.zero_add] at hback
  simp only [hback]
  simp [ofDigitsLE]
  omega

theorem z85_tail2 (a b : Nat) (ha : a < 256) (hb : b < 256) :
    z85DecTail ([0x23, 0x23] ++ (z85Chunk [0, 0, a, b]).drop 2) = .bytes [a, b] := by
  have hlt : ∀ x ∈ [0, 0, a, b], x < 256 := by simp; omega
  have hN := ofDigits_lt 256 [0, 0, a, b] hlt
  obtain ⟨t0, t1, t2, t3, t4, ht, h0, h1, h2, h3, h4, hv⟩ := z85_letters (ofDigits 256 [0, 0, a, b])
  have hback := toDigits_ofDigits 256 [0, 0, a, b] hlt
  simp only [ofDigits, ofDigitsLE, List.reverse_cons, List.reverse_nil, List.nil_append,
    List.cons_append, List.length_cons, List.length_nil] at hN hv hback
  have hv := hv (by omega)
  obtain ⟨v2, p2⟩ := z85_alpha t2 h2
  obtain ⟨v3, _⟩ := z85_alpha t3 h3
  obtain ⟨v4, _⟩ := z85_alpha t4 h4
  have n2 : (alphaAt z85Letters t2 == 35) = false := by
    simp; intro h; have := p2 h; omega
  rw [z85Chunk, ht]
  simp only [List.map_cons, List.map_nil, List.drop_succ_cons, List.drop_zero, List.cons_append, List.nil_append]
  simp only [z85DecTail, List.takeWhile_cons, n2]
  simp [z85DecChunk, vals, v2, v3, v4, ofDigits, ofDigitsLE]
  have e : t4 + 85 * (t3 + 85 * t2) = b + 256 * (a + 256 * (0 + 256 * (0 + 256 * 0))) := by omega
  rw [e, if_neg (by omega)]
  simp only [Nat.zero_add] at hback
  simp only [hback]
  simp [ofDigitsLE]
  omega

theorem z85_tail1 (a : Nat) (ha : a < 256) :
    z85DecTail ([0x23, 0x23, 0x23] ++ (z85Chunk [0, 0, 0, a]).drop 3) = .bytes [a] := by
  have hlt : ∀ x ∈ [0, 0, 0, a], x < 256 := by simp; omega
  have hN := ofDigits_lt 256 [0, 0, 0, a] hlt
  obtain ⟨t0, t1, t2, t3, t4, ht, h0, h1, h2, h3, h4, hv⟩ := z85_letters (ofDigits 256 [0, 0, 0, a])
  have hback := toDigits_ofDigits 256 [0, 0, 0, a] hlt
  simp only [ofDigits, ofDigitsLE, List.reverse_cons, List.reverse_nil, List.nil_append,
    List.cons_append, List.length_cons, List.length_nil] at hN hv hback
  have hv := hv (by omega)
  obtain ⟨v3, p3⟩ := z85_alpha t3 h3
  obtain ⟨v4, _⟩ := z85_alpha t4 h4
  have n3 : (alphaAt z85Letters t3 == 35) = false := by
    simp; intro h; have := p3 h; omega
  rw [z85Chunk, ht]
  simp only [List.map_cons, List.map_nil, List.drop_succ_cons, List.drop_zero, List.cons_append, List.nil_append]
  simp only [z85DecTail, List.takeWhile_cons, n3]
  simp [z85DecChunk, vals, v3, v4, ofDigits, ofDigitsLE]
  have e : t4 + 85 * t3 = a + 256 * (0 + 256 * (0 + 256 * (0 + 256 * 0))) := by omega
  rw [e, if_neg (by omega)]
  simp only [Nat.zero_add] at hback
  simp only [hback]
  simp [ofDigitsLE]
  omega

theorem z85DecChunks_encode : (bs : List Nat) → (∀ x ∈ bs, x < 256) →
    z85DecChunks (z85Encode bs) = .bytes bs
  | [], _ => by simp [z85Encode, z85DecChunks]
  | [a], h => by
    have := z85_tail1 a (h a (by simp))
    rw [z85Encode_one]
    obtain ⟨e0, e1, e2, e3, e4, he⟩ := list_len5 _ (z85Chunk_length [0, 0, 0, a])
    rw [he] at this ⊢
    simpa [z85DecChunks] using this
  | [a, b], h => by
    have := z85_tail2 a b (h a (by simp)) (h b (by simp))
    rw [z85Encode_two]
    obtain ⟨e0, e1, e2, e3, e4, he⟩ := list_len5 _ (z85Chunk_length [0, 0, a, b])
    rw [he] at this ⊢
    simpa [z85DecChunks] using this
  | [a, b, c], h => by
    have := z85_tail3 a b c (h a (by simp)) (h b (by simp)) (h c (by simp))
    rw [z85Encode_three]
    obtain ⟨e0, e1, e2, e3, e4, he⟩ := list_len5 _ (z85Chunk_length [0, a, b, c])
    rw [he] at this ⊢
    simpa [z85DecChunks] using this
  | a :: b :: c :: d :: rest, h => by
    have ih := z85DecChunks_encode rest (fun x hx => h x (by simp [hx]))
    obtain ⟨e0, e1, e2, e3, e4, he, hne, hdec⟩ :=
      z85Chunk_dec a b c d (h a (by simp)) (h b (by simp)) (h c (by simp)) (h d (by simp))
    rw [z85Encode_four, he]
    simp [z85DecChunks, hne, hdec, ih]

theorem z85_roundtrip_fn (bs : List Nat) (h : ∀ x ∈ bs, x < 256) :
    z85Decode (z85Encode bs) = .bytes bs := by
  simp [z85Decode, z85Encode_length, z85DecChunks_encode bs h]

theorem z85DecTail_panic (c0 c1 c2 c3 c4 : Nat) (s : String)
    (h : z85DecTail [c0, c1, c2, c3, c4] = .panic s) :
    c0 = 35 ∧ c1 = 35 ∧ c2 = 35 ∧ c3 = 35 ∧ c4 = 35 := by
  unfold z85DecTail at h
  by_cases h0 : c0 = 35 <;> by_cases h1 : c1 = 35 <;> by_cases h2 : c2 = 35 <;>
    by_cases h3 : c3 = 35 <;> by_cases h4 : c4 = 35 <;>
    simp [List.takeWhile_cons, h0, h1, h2, h3, h4] at h ⊢ <;>
    (split at h <;> first | contradiction | (split at h <;> first | contradiction | (split at h <;> contradiction)))

theorem z85DecTail_hashes : z85DecTail [35, 35, 35, 35, 35] = .panic "z85 decode_tail: diff = 5" := by
  decide

theorem z85DecChunks_panic (data : List Nat) (s : String) (h : z85DecChunks data = .panic s) :
    data.length % 5 = 0 ∧ data.reverse.take 5 = [35, 35, 35, 35, 35] := by
  fun_induction z85DecChunks data with
  | case1 c0 c1 c2 c3 c4 rest hc =>
    obtain ⟨hr, h0⟩ := hc
    have := z85DecTail_panic c0 c1 c2 c3 c4 s h
    simp at hr
    simp [hr, this]
  | case2 c0 c1 c2 c3 c4 rest hc hn => simp at h
  | case3 c0 c1 c2 c3 c4 rest hc bin hb r hr ih => simp [hr] at h
  | case4 c0 c1 c2 c3 c4 rest hc bin hb hd ih =>
    obtain ⟨hl, ht⟩ := ih h
    have hlen : 5 ≤ rest.reverse.length := by
      have := congrArg List.length ht
      simp at this; simp; omega
    refine ⟨by simp; omega, ?_⟩
    have e : (c0 :: c1 :: c2 :: c3 :: c4 :: rest).reverse = rest.reverse ++ [c4, c3, c2, c1, c0] := by simp
    rw [e, List.take_append_of_le_length hlen, ht]
  | case5 => simp at h
  | case6 => simp at h

/-- the guard of `zero85_decode_res` catches every text on which the crate panics … -/
theorem z85Guarded_no_panic (data : List Nat) (s : String) : z85Guarded data ≠ .panic s := by
  unfold z85Guarded
  split
  · simp
  · rename_i hg
    intro h
    unfold z85Decode at h
    split at h
    · simp at h
    · exact hg (z85DecChunks_panic data s h)

/-- … and nothing that the crate decodes -/
theorem z85DecChunks_hashes (data : List Nat) (hl : data.length % 5 = 0)
    (ht : data.reverse.take 5 = [35, 35, 35, 35, 35]) (l : List Nat) : z85DecChunks data ≠ .bytes l := by
  fun_induction z85DecChunks data generalizing l with
  | case1 c0 c1 c2 c3 c4 rest hc =>
    obtain ⟨hr, h0⟩ := hc
    simp at hr
    subst hr
    simp at ht
    obtain ⟨h4, h3, h2, h1, h0⟩ := ht
    subst h0 h1 h2 h3 h4
    simp [z85DecTail_hashes]
  | case2 c0 c1 c2 c3 c4 rest hc hn => simp
  | case3 c0 c1 c2 c3 c4 rest hc bin hb r hr ih =>
    exfalso
    have hne : rest ≠ [] := by
      intro e; subst e
      simp at ht
      obtain ⟨h4, h3, h2, h1, h0⟩ := ht
      exact hc ⟨rfl, h0⟩
    have hl' : rest.length % 5 = 0 := by simp at hl; omega
    have hlen : 5 ≤ rest.reverse.length := by
      have : rest.length ≠ 0 := by simpa using hne
      simp; omega
    have e : (c0 :: c1 :: c2 :: c3 :: c4 :: rest).reverse = rest.reverse ++ [c4, c3, c2, c1, c0] := by simp
    rw [e, List.take_append_of_le_length hlen] at ht
    exact ih hl' ht r hr
  | case4 c0 c1 c2 c3 c4 rest hc bin hb hd ih =>
    cases hx : z85DecChunks rest with
    | bytes r => exact absurd hx (hd r)
    | invalid => simp
    | panic s => simp
  | case5 => simp at ht
  | case6 data h1 h2 =>
    exfalso
    rcases data with _ | ⟨a, _ | ⟨b, _ | ⟨c, _ | ⟨d, _ | ⟨e, rest⟩⟩⟩⟩⟩
    · exact h2 rfl
    · simp at hl
    · simp at hl
    · simp at hl
    · simp at hl
    · exact h1 a b c d e rest rfl

theorem z85Guarded_of_bytes (data l : List Nat) (h : z85Decode data = .bytes l) :
    z85Guarded data = .bytes l := by
  unfold z85Guarded
  split
  · rename_i hg
    unfold z85Decode at h
    rw [if_neg (by omega)] at h
    exact absurd h (z85DecChunks_hashes data hg.1 hg.2 l)
  · exact h

theorem z85_guarded_roundtrip_fn (bs : List Nat) (h : ∀ x ∈ bs, x < 256) :
    z85Guarded (z85Encode bs) = .bytes bs :=
  z85Guarded_of_bytes _ _ (z85_roundtrip_fn bs h)

end Xeh.Enc
