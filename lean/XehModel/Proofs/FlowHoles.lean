/-
C01, link 2, general case — part 1: pending jumps and holed code.

While a block is being compiled, every `break` that no loop inside the block encloses and every `endof` of an arm
that no `case` inside the block encloses has emitted a `jump 0` and left an entry on the flow stack.  `brkOf` / `armOf`
list the positions of those jumps, `Holed` says what the code means: whatever targets the pending jumps are finally
given — expressed as a context `(bk, ce)` of the compositional compiler — filling them in yields `compileS stmt bk ce`.
-/
import XehModel.Proofs.FlowSim

namespace Xeh.Structured
open Xeh Xeh.Mach Xeh.Compile Xeh.Compile.CState

/-- positions of the pending `break` jumps of a statement compiled at `pc`, newest first -/
def brkOf : Stmt → Nat → List Nat
  | .seq a b, pc => brkOf b (pc + size a) ++ brkOf a pc
  | .ifThen _ a, pc => brkOf a (pc + 1)
  | .ifElse _ _ a b, pc => brkOf b (pc + 1 + size a + 1) ++ brkOf a (pc + 1)
  | .brk _, pc => [pc]
  | .caseS a, pc => brkOf a pc
  | .arm _ _ body, pc => brkOf body (pc + 1)
  | _, _ => []

/-- positions of the pending `endof` jumps -/
def armOf : Stmt → Nat → List Nat
  | .seq a b, pc => armOf b (pc + size a) ++ armOf a pc
  | .ifThen _ a, pc => armOf a (pc + 1)
  | .ifElse _ _ a b, pc => armOf b (pc + 1 + size a + 1) ++ armOf a (pc + 1)
  | .arm _ _ body, pc => (pc + 1 + size body) :: armOf body (pc + 1)
  | _, _ => []

/-- the opcode a pending `break` at `p` is finally replaced by, in a fragment that ends at `e` -/
def brkOp (bk : BK) (e : Nat) (p : Nat) : Op :=
  match bk with
  | .jump k => .jump (((e + k : Nat) : Int) - (p : Int))
  | .loop k => .breakOp (((e + k : Nat) : Int) - (p : Int))
  | .none => .nop

/-- the same for a pending `endof` at `q` -/
def armOp (ce : Option Nat) (e : Nat) (q : Nat) : Op := .jump (((e + ce.getD 0 : Nat) : Int) - (q : Int))

/-- fill the holes of the fragment `X`, which starts at `pc` -/
def fill (X : List Op) (pc : Nat) (B A : List Nat) (fb fa : Nat → Op) : List Op :=
  X.mapIdx fun i o => if pc + i ∈ B then fb (pc + i) else if pc + i ∈ A then fa (pc + i) else o

theorem fill_length (X : List Op) (pc : Nat) (B A : List Nat) (fb fa : Nat → Op) : (fill X pc B A fb fa).length = X.length := by
  simp [fill]

theorem getElem?_fill (X : List Op) (pc : Nat) (B A : List Nat) (fb fa : Nat → Op) (i : Nat) :
    (fill X pc B A fb fa)[i]? = X[i]?.map fun o =>
      if pc + i ∈ B then fb (pc + i) else if pc + i ∈ A then fa (pc + i) else o := by
  simp [fill, List.getElem?_mapIdx]

theorem fill_nil (X : List Op) (pc : Nat) (fb fa : Nat → Op) : fill X pc [] [] fb fa = X := by
  apply List.ext_getElem?; intro i; simp [getElem?_fill]

/-- all positions of a list lie in `[lo, hi)` -/
def InR (l : List Nat) (lo hi : Nat) : Prop := ∀ p ∈ l, lo ≤ p ∧ p < hi

theorem InR.mono {l : List Nat} {lo hi lo' hi' : Nat} (h : InR l lo hi) (h1 : lo' ≤ lo) (h2 : hi ≤ hi') : InR l lo' hi' :=
  fun p hp => ⟨Nat.le_trans h1 (h p hp).1, Nat.lt_of_lt_of_le (h p hp).2 h2⟩

theorem InR.append {a b : List Nat} {lo hi : Nat} (ha : InR a lo hi) (hb : InR b lo hi) : InR (a ++ b) lo hi := by
  intro p hp; rcases List.mem_append.mp hp with h | h; exact ha p h; exact hb p h

theorem brkOf_range : ∀ (st : Stmt) (pc : Nat), InR (brkOf st pc) pc (pc + size st) := by
  intro st
  induction st with
  | seq a b iha ihb =>
    intro pc; simp only [brkOf, size]
    exact ((ihb _).mono (by omega) (by omega)).append ((iha _).mono (by omega) (by omega))
  | ifThen t a ih => intro pc; simp only [brkOf, size]; exact (ih _).mono (by omega) (by omega)
  | ifElse t te a b iha ihb =>
    intro pc; simp only [brkOf, size]
    exact ((ihb _).mono (by omega) (by omega)).append ((iha _).mono (by omega) (by omega))
  | brk t => intro pc p hp; simp [brkOf] at hp; subst hp; simp [size]
  | caseS a ih => intro pc; simp only [brkOf, size]; exact ih _
  | arm tOf tEndof body ih => intro pc; simp only [brkOf, size]; exact (ih _).mono (by omega) (by omega)
  | _ => intro pc p hp; simp [brkOf] at hp

theorem armOf_range : ∀ (st : Stmt) (pc : Nat), InR (armOf st pc) pc (pc + size st) := by
  intro st
  induction st with
  | seq a b iha ihb =>
    intro pc; simp only [armOf, size]
    exact ((ihb _).mono (by omega) (by omega)).append ((iha _).mono (by omega) (by omega))
  | ifThen t a ih => intro pc; simp only [armOf, size]; exact (ih _).mono (by omega) (by omega)
  | ifElse t te a b iha ihb =>
    intro pc; simp only [armOf, size]
    exact ((ihb _).mono (by omega) (by omega)).append ((iha _).mono (by omega) (by omega))
  | arm tOf tEndof body ih =>
    intro pc p hp
    simp only [armOf, List.mem_cons] at hp
    rcases hp with rfl | h
    · simp [size]; omega
    · have := ih _ p h; simp [size]; omega
  | _ => intro pc p hp; simp [armOf] at hp

/-- what the holed code `X` (debug map `D`) of a statement compiled at `pc` means -/
structure Holed (st : Stmt) (pc : Nat) (X : List Op) (D : List Nat) : Prop where
  /-- (`ce = none` is the context outside a `case` spine: there the statement must not have pending `endof`s) -/
  code : ∀ bk ce, (ce = none → armOf st pc = []) →
    fill X pc (brkOf st pc) (armOf st pc) (brkOp bk (pc + size st)) (armOp ce (pc + size st)) = (compileS st bk ce).map (·.1)
  dmap : ∀ bk ce, D = (compileS st bk ce).map (·.2)
  /-- the pending jumps are jumps (what `backpatch_jump` insists on) -/
  holes : ∀ p, p ∈ brkOf st pc ∨ p ∈ armOf st pc → X[p - pc]? = some (.jump 0)

theorem Holed.len {st : Stmt} {pc : Nat} {X : List Op} {D : List Nat} (h : Holed st pc X D) : X.length = size st := by
  have := congrArg List.length (h.code .none (some 0) (fun h => by cases h))
  simpa [fill_length, compileS_len] using this

theorem Holed.dlen {st : Stmt} {pc : Nat} {X : List Op} {D : List Nat} (h : Holed st pc X D) : D.length = size st := by
  have := congrArg List.length (h.dmap .none none)
  simpa [compileS_len] using this

/-! ### filling is local -/

theorem fill_append (X Y : List Op) (pc : Nat) (B A : List Nat) (fb fa : Nat → Op) :
    fill (X ++ Y) pc B A fb fa = fill X pc B A fb fa ++ fill Y (pc + X.length) B A fb fa := by
  simp only [fill, List.mapIdx_append]
  congr 1
  apply List.ext_getElem?; intro i
  simp [List.getElem?_mapIdx, Nat.add_assoc, Nat.add_comm X.length i]

theorem fill_cons (o : Op) (Y : List Op) (pc : Nat) (B A : List Nat) (fb fa : Nat → Op) :
    fill (o :: Y) pc B A fb fa =
      (if pc ∈ B then fb pc else if pc ∈ A then fa pc else o) :: fill Y (pc + 1) B A fb fa := by
  have := fill_append [o] Y pc B A fb fa
  simpa [fill] using this

theorem fill_congr (X : List Op) (pc : Nat) (B A B' A' : List Nat) (fb fa fb' fa' : Nat → Op)
    (h : ∀ i o, X[i]? = some o →
      (if pc + i ∈ B then fb (pc + i) else if pc + i ∈ A then fa (pc + i) else o) =
      (if pc + i ∈ B' then fb' (pc + i) else if pc + i ∈ A' then fa' (pc + i) else o)) :
    fill X pc B A fb fa = fill X pc B' A' fb' fa' := by
  apply List.ext_getElem?; intro i
  rw [getElem?_fill, getElem?_fill]
  cases hx : X[i]? with
  | none => rfl
  | some o => simp only [Option.map_some]; rw [h i o hx]

/-- positions outside `[pc, pc + |X|)` do not matter -/
theorem fill_restrict (X : List Op) (pc : Nat) (B A B0 A0 : List Nat) (fb fa : Nat → Op)
    (hB : ∀ p ∈ B0, p < pc ∨ pc + X.length ≤ p) (hA : ∀ p ∈ A0, p < pc ∨ pc + X.length ≤ p) :
    fill X pc (B0 ++ B) (A0 ++ A) fb fa = fill X pc B A fb fa ∧ fill X pc (B ++ B0) (A ++ A0) fb fa = fill X pc B A fb fa := by
  have hlt : ∀ i o, X[i]? = some o → i < X.length := fun i o h => by
    have := (List.getElem?_eq_some_iff.mp h).1; exact this
  constructor <;>
  · apply fill_congr; intro i o hi
    have hi' := hlt i o hi
    have nB : pc + i ∉ B0 := fun h => by have := hB _ h; omega
    have nA : pc + i ∉ A0 := fun h => by have := hA _ h; omega
    simp [List.mem_append, nB, nA]

theorem brkOp_shift (bk : BK) (n e p : Nat) : brkOp (bk.shift n) e p = brkOp bk (e + n) p := by
  cases bk <;> simp [BK.shift, brkOp] <;> omega

theorem armOp_shift (ce : Option Nat) (n e q : Nat) (h : ce.isSome = true) : armOp (ce.map (· + n)) e q = armOp ce (e + n) q := by
  cases ce with
  | none => simp at h
  | some c => simp [armOp]; omega

/-! ### the compositional lemmas -/

theorem holed_closed (st : Stmt) (pc : Nat) (X : List Op) (D : List Nat) (hb : brkOf st pc = []) (ha : armOf st pc = [])
    (hx : ∀ bk ce, (compileS st bk ce).map (·.1) = X) (hd : ∀ bk ce, (compileS st bk ce).map (·.2) = D) : Holed st pc X D :=
  ⟨fun bk ce _ => by rw [hb, ha, fill_nil, hx], fun bk ce => (hd bk ce).symm, fun p hp => by rw [hb, ha] at hp; simp at hp⟩

theorem holed_op (t : Nat) (o : Op) (pc : Nat) : Holed (.op t o) pc [o] [t] :=
  holed_closed _ _ _ _ rfl rfl (fun _ _ => rfl) (fun _ _ => rfl)

theorem holed_call (t addr ret pc : Nat) : Holed (.call t addr ret) pc [.call addr] [t] :=
  holed_closed _ _ _ _ rfl rfl (fun _ _ => rfl) (fun _ _ => rfl)

theorem holed_skip (pc : Nat) : Holed .skip pc [] [] :=
  holed_closed _ _ _ _ rfl rfl (fun _ _ => rfl) (fun _ _ => rfl)

theorem holed_brk (t pc : Nat) : Holed (.brk t) pc [.jump 0] [t] := by
  refine ⟨fun bk ce _ => ?_, fun bk ce => by cases bk <;> rfl, fun p hp => ?_⟩
  · simp only [brkOf, armOf, fill_cons, List.mem_singleton, if_true, size]
    cases bk <;> simp [fill, brkOp, compileS] <;> omega
  · simp [brkOf, armOf] at hp; subst hp; simp

theorem armOp_map (ce : Option Nat) (n e q : Nat) : armOp (ce.map (· + n)) e q = armOp ce (e + n) q ∨ ce = none := by
  cases ce with
  | none => right; rfl
  | some c => left; simp [armOp]; omega

theorem holed_seq {a b : Stmt} {pc : Nat} {Xa Xb : List Op} {Da Db : List Nat}
    (ha : Holed a pc Xa Da) (hb : Holed b (pc + size a) Xb Db) : Holed (.seq a b) pc (Xa ++ Xb) (Da ++ Db) := by
  have la := ha.len
  have lb := hb.len
  have rBa := brkOf_range a pc
  have rAa := armOf_range a pc
  have rBb := brkOf_range b (pc + size a)
  have rAb := armOf_range b (pc + size a)
  refine ⟨fun bk ce hce => ?_, fun bk ce => ?_, fun p hp => ?_⟩
  · have hca : ce = none → armOf a pc = [] := fun h => by
      have := hce h; simp only [armOf, List.append_eq_nil_iff] at this; exact this.2
    have hcb : ce = none → armOf b (pc + size a) = [] := fun h => by
      have := hce h; simp only [armOf, List.append_eq_nil_iff] at this; exact this.1
    simp only [brkOf, armOf, compileS, List.map_append, size]
    rw [fill_append, la]
    congr 1
    · rw [← ha.code (bk.shift (size b)) (ce.map (· + size b)) (fun h => hca (by cases ce <;> simp_all))]
      rw [(fill_restrict Xa pc (brkOf a pc) (armOf a pc) (brkOf b (pc + size a)) (armOf b (pc + size a)) _ _
        (fun p hp => by have := rBb p hp; omega) (fun p hp => by have := rAb p hp; omega)).1]
      apply fill_congr; intro i o _
      rw [brkOp_shift, Nat.add_assoc]
      by_cases hB : pc + i ∈ brkOf a pc
      · simp [hB]
      · simp only [hB, if_false]
        by_cases hA : pc + i ∈ armOf a pc
        · simp only [hA, if_true]
          cases ce with
          | none => rw [hca rfl] at hA; simp at hA
          | some c => simp [armOp]; omega
        · simp [hA]
    · rw [← hb.code bk ce hcb, Nat.add_assoc]
      exact (fill_restrict Xb (pc + size a) (brkOf b (pc + size a)) (armOf b (pc + size a)) (brkOf a pc) (armOf a pc) _ _
        (fun p hp => by have := rBa p hp; omega) (fun p hp => by have := rAa p hp; omega)).2
  · simp only [compileS, List.map_append]
    rw [← ha.dmap, ← hb.dmap]
  · simp only [brkOf, armOf, List.mem_append] at hp
    rcases hp with (h | h) | (h | h)
    · have r := rBb p h
      have := hb.holes p (Or.inl h)
      rw [List.getElem?_append_right (by omega)]
      rw [la]; rw [show p - pc - size a = p - (pc + size a) by omega]; exact this
    · have r := rBa p h
      rw [List.getElem?_append_left (by omega)]; exact ha.holes p (Or.inl h)
    · have r := rAb p h
      have := hb.holes p (Or.inr h)
      rw [List.getElem?_append_right (by omega)]
      rw [la]; rw [show p - pc - size a = p - (pc + size a) by omega]; exact this
    · have r := rAa p h
      rw [List.getElem?_append_left (by omega)]; exact ha.holes p (Or.inr h)

/-- prefixing one opcode that is not a hole -/
theorem fill_cons_out (o : Op) (Y : List Op) (pc : Nat) (B A : List Nat) (fb fa : Nat → Op)
    (hB : InR B (pc + 1) (pc + 1 + Y.length)) (hA : InR A (pc + 1) (pc + 1 + Y.length)) :
    fill (o :: Y) pc B A fb fa = o :: fill Y (pc + 1) B A fb fa := by
  rw [fill_cons]
  have nB : pc ∉ B := fun h => by have := hB _ h; omega
  have nA : pc ∉ A := fun h => by have := hA _ h; omega
  simp [nB, nA]

/-- appending opcodes that are not holes -/
theorem fill_append_out (X Z : List Op) (pc : Nat) (B A : List Nat) (fb fa : Nat → Op)
    (hB : InR B pc (pc + X.length)) (hA : InR A pc (pc + X.length)) :
    fill (X ++ Z) pc B A fb fa = fill X pc B A fb fa ++ Z := by
  rw [fill_append]
  congr 1
  apply List.ext_getElem?; intro i
  rw [getElem?_fill]
  have nB : pc + X.length + i ∉ B := fun h => by have := hB _ h; omega
  have nA : pc + X.length + i ∉ A := fun h => by have := hA _ h; omega
  cases Z[i]? <;> simp [nB, nA]

theorem holed_ifThen {a : Stmt} {pc : Nat} {Xa : List Op} {Da : List Nat} (t : Nat)
    (ha : Holed a (pc + 1) Xa Da) (hna : armOf a (pc + 1) = []) :
    Holed (.ifThen t a) pc (Op.jumpIfNot ((Xa.length + 1 : Nat) : Int) :: Xa) (t :: Da) := by
  have la := ha.len
  refine ⟨fun bk ce _ => ?_, fun bk ce => ?_, fun p hp => ?_⟩
  · simp only [brkOf, armOf, compileS, size, List.map_cons]
    rw [fill_cons_out _ _ _ _ _ _ _ (by rw [la]; exact brkOf_range a (pc + 1)) (by rw [la]; exact armOf_range a (pc + 1))]
    congr 1
    · rw [la]; push_cast; rfl
    · rw [← ha.code bk none (fun _ => hna), hna]
      have : pc + (1 + size a) = pc + 1 + size a := by omega
      rw [this]
      apply fill_congr; intro i o _; simp
  · simp only [compileS, List.map_cons]; rw [← ha.dmap]
  · simp only [brkOf, armOf] at hp
    have r : pc + 1 ≤ p := by
      rcases hp with h | h
      · exact (brkOf_range a (pc + 1) p h).1
      · exact (armOf_range a (pc + 1) p h).1
    have := ha.holes p hp
    rw [show p - pc = (p - (pc + 1)) + 1 by omega, List.getElem?_cons_succ]; exact this

theorem holed_ifElse {a b : Stmt} {pc : Nat} {Xa Xb : List Op} {Da Db : List Nat} (t te : Nat)
    (ha : Holed a (pc + 1) Xa Da) (hb : Holed b (pc + 1 + size a + 1) Xb Db)
    (hna : armOf a (pc + 1) = []) (hnb : armOf b (pc + 1 + size a + 1) = []) :
    Holed (.ifElse t te a b) pc (Op.jumpIfNot ((Xa.length + 2 : Nat) : Int) :: (Xa ++ Op.jump ((Xb.length + 1 : Nat) : Int) :: Xb))
      (t :: (Da ++ te :: Db)) := by
  -- `ifElse t te a b` has the code of `seq (ifThen' a) (jump :: b)`; reuse the sequencing argument pointwise
  have la := ha.len
  have lb := hb.len
  have rBa := brkOf_range a (pc + 1)
  have rBb := brkOf_range b (pc + 1 + size a + 1)
  refine ⟨fun bk ce _ => ?_, fun bk ce => ?_, fun p hp => ?_⟩
  · simp only [brkOf, armOf, hna, hnb, List.append_nil, compileS, size, List.map_cons, List.map_append, List.cons_append]
    rw [fill_cons_out _ _ _ _ _ _ _
      (by intro p hp; rcases List.mem_append.mp hp with h | h
          · have := rBb p h; simp [la, lb]; omega
          · have := rBa p h; simp [la, lb]; omega)
      (by intro p hp; cases hp)]
    congr 1
    · rw [la]; push_cast; rfl
    · rw [fill_append, la]
      congr 1
      · rw [← ha.code (bk.shift (1 + size b)) none (fun _ => hna), hna]
        have e1 := (fill_restrict Xa (pc + 1) (brkOf a (pc + 1)) [] (brkOf b (pc + 1 + size a + 1)) [] (brkOp bk (pc + (1 + size a + 1 + size b)))
          (armOp ce (pc + (1 + size a + 1 + size b))) (fun p hp => by have := rBb p hp; omega) (fun p hp => by cases hp)).1
        simp only [List.nil_append] at e1
        rw [e1]
        apply fill_congr; intro i o _
        rw [brkOp_shift]
        have : pc + 1 + size a + (1 + size b) = pc + (1 + size a + 1 + size b) := by omega
        rw [this]; simp
      · have e2 := (fill_restrict (Op.jump ((Xb.length + 1 : Nat) : Int) :: Xb) (pc + 1 + size a) (brkOf b (pc + 1 + size a + 1)) []
          (brkOf a (pc + 1)) [] (brkOp bk (pc + (1 + size a + 1 + size b))) (armOp ce (pc + (1 + size a + 1 + size b)))
          (fun p hp => by have := rBa p hp; omega) (fun p hp => by cases hp)).2
        simp only [List.append_nil] at e2
        rw [e2]
        rw [fill_cons_out _ _ _ _ _ _ _ (by rw [lb]; exact rBb) (by intro p hp; cases hp)]
        congr 1
        · rw [lb]; push_cast; rfl
        · rw [← hb.code bk none (fun _ => hnb), hnb]
          apply fill_congr; intro i o _
          have : pc + 1 + size a + 1 + size b = pc + (1 + size a + 1 + size b) := by omega
          rw [this]; simp
  · simp only [compileS, List.map_cons, List.map_append, List.cons_append]; rw [← ha.dmap, ← hb.dmap]
  · simp only [brkOf, armOf, hna, hnb, List.append_nil, List.mem_append] at hp
    rcases hp with (h | h) | h
    · have r := rBb p h
      have := hb.holes p (Or.inl h)
      rw [show p - pc = (p - (pc + 1)) + 1 by omega, List.getElem?_cons_succ, List.getElem?_append_right (by omega), la]
      rw [show p - (pc + 1) - size a = (p - (pc + 1 + size a + 1)) + 1 by omega, List.getElem?_cons_succ]; exact this
    · have r := rBa p h
      have := ha.holes p (Or.inl h)
      rw [show p - pc = (p - (pc + 1)) + 1 by omega, List.getElem?_cons_succ, List.getElem?_append_left (by omega)]; exact this
    · cases h

/-- a statement with nothing pending: its holed code is its code, in every context -/
theorem Holed.closed {st : Stmt} {pc : Nat} {X : List Op} {D : List Nat} (h : Holed st pc X D)
    (hb : brkOf st pc = []) (ha : armOf st pc = []) (bk : BK) (ce : Option Nat) :
    (compileS st bk ce).map (·.1) = X := by
  have := h.code bk ce (fun _ => ha)
  rw [hb, ha, fill_nil] at this
  exact this.symm

/-- the pending breaks of a loop body, filled with the loop's exit -/
def fillB (X : List Op) (pc : Nat) (B : List Nat) (bk : BK) (e : Nat) : List Op := fill X pc B [] (brkOp bk e) (brkOp bk e)

theorem Holed.fillB_eq {st : Stmt} {pc : Nat} {X : List Op} {D : List Nat} (h : Holed st pc X D) (ha : armOf st pc = [])
    (bk : BK) : fillB X pc (brkOf st pc) bk (pc + size st) = (compileS st bk none).map (·.1) := by
  have := h.code bk none (fun _ => ha)
  rw [ha] at this
  rw [← this]
  unfold fillB
  apply fill_congr; intro i o _; simp

theorem holed_until {a : Stmt} {pc : Nat} {Xa : List Op} {Da : List Nat} (t : Nat)
    (ha : Holed a pc Xa Da) (hb : brkOf a pc = []) (hna : armOf a pc = []) :
    Holed (.untilLoop t a) pc (Xa ++ [Op.jumpIfNot (-(Xa.length : Int))]) (Da ++ [t]) :=
  holed_closed _ _ _ _ rfl rfl
    (fun bk ce => by simp only [compileS, List.map_append, List.map_cons, List.map_nil]; rw [ha.closed hb hna, ha.len])
    (fun bk ce => by simp only [compileS, List.map_append, List.map_cons, List.map_nil]; rw [← ha.dmap])

theorem holed_repeat {a : Stmt} {pc : Nat} {Xa : List Op} {Da : List Nat} (t : Nat)
    (ha : Holed a pc Xa Da) (hna : armOf a pc = []) :
    Holed (.repeatLoop t a) pc (fillB Xa pc (brkOf a pc) (.jump 1) (pc + size a) ++ [Op.jump (-(Xa.length : Int))]) (Da ++ [t]) :=
  holed_closed _ _ _ _ rfl rfl
    (fun bk ce => by simp only [compileS, List.map_append, List.map_cons, List.map_nil]; rw [ha.fillB_eq hna, ha.len])
    (fun bk ce => by simp only [compileS, List.map_append, List.map_cons, List.map_nil]; rw [← ha.dmap])

theorem holed_while {c a : Stmt} {pc : Nat} {Xc Xa : List Op} {Dc Da : List Nat} (tw tr : Nat)
    (hc : Holed c pc Xc Dc) (hcb : brkOf c pc = []) (hca : armOf c pc = [])
    (ha : Holed a (pc + size c + 1) Xa Da) (hna : armOf a (pc + size c + 1) = []) :
    Holed (.whileLoop tw tr c a) pc
      (Xc ++ Op.jumpIfNot ((Xa.length + 2 : Nat) : Int) :: (fillB Xa (pc + size c + 1) (brkOf a (pc + size c + 1)) (.jump 1) (pc + size c + 1 + size a) ++
        [Op.jump (-((Xc.length + 1 + Xa.length : Nat) : Int))]))
      (Dc ++ tw :: (Da ++ [tr])) :=
  holed_closed _ _ _ _ rfl rfl
    (fun bk ce => by
      simp only [compileS, List.map_append, List.map_cons, List.map_nil, List.cons_append]
      rw [hc.closed hcb hca, ha.fillB_eq hna, ha.len, hc.len]; push_cast; simp [Int.add_assoc])
    (fun bk ce => by
      simp only [compileS, List.map_append, List.map_cons, List.map_nil, List.cons_append]; rw [← hc.dmap, ← ha.dmap]; simp)

theorem holed_do {a : Stmt} {pc : Nat} {Xa : List Op} {Da : List Nat} (td tl : Nat)
    (ha : Holed a (pc + 1) Xa Da) (hna : armOf a (pc + 1) = []) :
    Holed (.doLoop td tl a) pc
      (Op.doOp ((Xa.length + 2 : Nat) : Int) :: (fillB Xa (pc + 1) (brkOf a (pc + 1)) (.loop 1) (pc + 1 + size a) ++ [Op.loopOp (-(Xa.length : Int))]))
      (td :: (Da ++ [tl])) :=
  holed_closed _ _ _ _ rfl rfl
    (fun bk ce => by
      simp only [compileS, List.map_append, List.map_cons, List.map_nil, List.cons_append]
      rw [ha.fillB_eq hna, ha.len]; push_cast; rfl)
    (fun bk ce => by
      simp only [compileS, List.map_append, List.map_cons, List.map_nil, List.cons_append]; rw [← ha.dmap])

theorem holed_defn {b : Stmt} {pc : Nat} {Xb : List Op} {Db : List Nat} (tc ts : Nat)
    (hb : Holed b (pc + 1) Xb Db) (hbb : brkOf b (pc + 1) = []) (hba : armOf b (pc + 1) = []) :
    Holed (.defn tc ts b) pc (Op.jump ((Xb.length + 2 : Nat) : Int) :: (Xb ++ [Op.ret])) (tc :: (Db ++ [ts])) :=
  holed_closed _ _ _ _ rfl rfl
    (fun bk ce => by
      simp only [compileS, List.map_append, List.map_cons, List.map_nil, List.cons_append]
      rw [hb.closed hbb hba, hb.len]; push_cast; rfl)
    (fun bk ce => by
      simp only [compileS, List.map_append, List.map_cons, List.map_nil, List.cons_append]; rw [← hb.dmap])

theorem brk_arm_disjoint : ∀ (st : Stmt) (pc p : Nat), p ∈ brkOf st pc → p ∉ armOf st pc := by
  intro st
  induction st with
  | seq a b iha ihb =>
    intro pc p hb ha
    simp only [brkOf, armOf, List.mem_append] at hb ha
    rcases hb with hb | hb <;> rcases ha with ha | ha
    · exact ihb _ p hb ha
    · have := brkOf_range b _ p hb; have := armOf_range a _ p ha; omega
    · have := brkOf_range a _ p hb; have := armOf_range b _ p ha; omega
    · exact iha _ p hb ha
  | ifThen t a ih => intro pc p hb ha; exact ih _ p hb ha
  | ifElse t te a b iha ihb =>
    intro pc p hb ha
    simp only [brkOf, armOf, List.mem_append] at hb ha
    rcases hb with hb | hb <;> rcases ha with ha | ha
    · exact ihb _ p hb ha
    · have := brkOf_range b _ p hb; have := armOf_range a _ p ha; omega
    · have := brkOf_range a _ p hb; have := armOf_range b _ p ha; omega
    · exact iha _ p hb ha
  | arm tOf tEndof body ih =>
    intro pc p hb ha
    simp only [brkOf, armOf, List.mem_cons] at hb ha
    rcases ha with rfl | ha
    · have := brkOf_range body _ _ hb; omega
    · exact ih _ p hb ha
  | _ => intro pc p hb; simp [brkOf, armOf] at hb ⊢

/-- filling the `endof`s first and the `break`s later is filling both at once -/
theorem fill_fill (X : List Op) (pc : Nat) (B A : List Nat) (g fb fa fa' : Nat → Op) :
    fill (fill X pc [] A g fa) pc B [] fb fa' = fill X pc B A fb fa := by
  apply List.ext_getElem?; intro i
  rw [getElem?_fill, getElem?_fill, getElem?_fill]
  cases X[i]? with
  | none => rfl
  | some o => simp

theorem holed_caseS {a : Stmt} {pc : Nat} {X : List Op} {D : List Nat} (ha : Holed a pc X D) :
    Holed (.caseS a) pc (fill X pc [] (armOf a pc) (fun _ => Op.nop) (armOp (some 0) (pc + size a))) D := by
  refine ⟨fun bk ce _ => ?_, fun bk ce => ?_, fun p hp => ?_⟩
  · simp only [brkOf, armOf, compileS, size]
    rw [fill_fill, ha.code bk (some 0) (fun h => by cases h)]
  · simp only [compileS]; exact ha.dmap bk (some 0)
  · simp only [brkOf, armOf, List.not_mem_nil, or_false] at hp
    have hnA := brk_arm_disjoint a pc p hp
    have r := brkOf_range a pc p hp
    rw [getElem?_fill, ha.holes p (Or.inl hp)]
    have : pc + (p - pc) = p := by omega
    simp [this, hnA]

theorem holed_arm {b : Stmt} {pc : Nat} {Xb : List Op} {Db : List Nat} (tOf tEndof : Nat)
    (hb : Holed b (pc + 1) Xb Db) (hnb : armOf b (pc + 1) = []) :
    Holed (.arm tOf tEndof b) pc (Op.caseOf ((Xb.length + 2 : Nat) : Int) :: (Xb ++ [Op.jump 0])) (tOf :: (Db ++ [tEndof])) := by
  have lb := hb.len
  have rB := brkOf_range b (pc + 1)
  refine ⟨fun bk ce hce => ?_, fun bk ce => ?_, fun p hp => ?_⟩
  · obtain ⟨c, rfl⟩ : ∃ c, ce = some c := by
      cases ce with
      | none => have := hce rfl; simp [armOf] at this
      | some c => exact ⟨c, rfl⟩
    simp only [brkOf, armOf, hnb, compileS, size, List.map_cons, List.map_append, List.map_nil, List.cons_append]
    rw [fill_cons]
    have n1 : pc ∉ brkOf b (pc + 1) := fun h => by have := rB _ h; omega
    have n2 : pc ∉ [pc + 1 + size b] := by simp; omega
    rw [if_neg n1, if_neg n2]
    congr 1
    · rw [lb]; push_cast; rfl
    · rw [fill_append, lb]
      congr 1
      · rw [← hb.code (bk.shift 1) none (fun _ => hnb), hnb]
        apply fill_congr; intro i o hi
        have hi' : i < size b := by rw [← lb]; exact (List.getElem?_eq_some_iff.mp hi).1
        rw [brkOp_shift]
        have : pc + 1 + size b + 1 = pc + (1 + size b + 1) := by omega
        rw [this]
        have : pc + 1 + i ∉ [pc + 1 + size b] := by simp; omega
        simp [this]
      · rw [fill_cons]
        have n3 : pc + 1 + size b ∉ brkOf b (pc + 1) := fun h => by have := rB _ h; omega
        rw [if_neg n3, if_pos (by simp)]
        simp [fill, armOp]; omega
  · simp only [compileS, List.map_cons, List.map_append, List.map_nil, List.cons_append]; rw [← hb.dmap]
  · simp only [brkOf, armOf, hnb, List.mem_singleton] at hp
    rcases hp with h | h
    · have r := rB p h
      have := hb.holes p (Or.inl h)
      rw [show p - pc = (p - (pc + 1)) + 1 by omega, List.getElem?_cons_succ, List.getElem?_append_left (by omega)]; exact this
    · rcases h with rfl | h
      · rw [show pc + 1 + size b - pc = size b + 1 by omega, List.getElem?_cons_succ,
          List.getElem?_append_right (by omega), lb]; simp

/-! ### the flow-stack entries themselves -/

/-- the entries a statement compiled at `pc` leaves on the flow stack, newest first -/
def pendOf : Stmt → Nat → List Flow
  | .seq a b, pc => pendOf b (pc + size a) ++ pendOf a pc
  | .ifThen _ a, pc => pendOf a (pc + 1)
  | .ifElse _ _ a b, pc => pendOf b (pc + 1 + size a + 1) ++ pendOf a (pc + 1)
  | .brk _, pc => [.breakF pc]
  | .caseS a, pc => (brkOf a pc).map .breakF
  | .arm _ _ body, pc => .caseEndOfF (pc + 1 + size body) :: pendOf body (pc + 1)
  | _, _ => []

/-- with no pending `endof`, the entries are the pending breaks -/
theorem pendOf_brk : ∀ (st : Stmt) (pc : Nat), armOf st pc = [] → pendOf st pc = (brkOf st pc).map .breakF := by
  intro st
  induction st with
  | seq a b iha ihb =>
    intro pc h
    simp only [armOf, List.append_eq_nil_iff] at h
    simp only [pendOf, brkOf, List.map_append, iha _ h.2, ihb _ h.1]
  | ifThen t a ih => intro pc h; exact ih _ h
  | ifElse t te a b iha ihb =>
    intro pc h
    simp only [armOf, List.append_eq_nil_iff] at h
    simp only [pendOf, brkOf, List.map_append, iha _ h.2, ihb _ h.1]
  | arm tOf tEndof body ih => intro pc h; simp [armOf] at h
  | brk t => intro pc _; rfl
  | caseS a ih => intro pc _; rfl
  | _ => intro pc _; rfl

/-- the pending breaks are always on the stack in order, whatever `endof`s lie between them -/
theorem pendOf_filter : ∀ (st : Stmt) (pc : Nat),
    ((pendOf st pc).filter fun | .breakF _ => true | _ => false) = (brkOf st pc).map .breakF := by
  intro st
  induction st with
  | seq a b iha ihb => intro pc; simp only [pendOf, brkOf, List.filter_append, List.map_append, iha, ihb]
  | ifThen t a ih => intro pc; exact ih _
  | ifElse t te a b iha ihb => intro pc; simp only [pendOf, brkOf, List.filter_append, List.map_append, iha, ihb]
  | arm tOf tEndof body ih => intro pc; simp only [pendOf, brkOf, List.filter_cons]; exact ih _
  | brk t => intro pc; rfl
  | caseS a ih =>
    intro pc; simp only [pendOf, brkOf]
    induction brkOf a pc with
    | nil => rfl
    | cons x r ihr => simp [List.filter_cons, ihr]
  | _ => intro pc; rfl

/-- the arms among the entries -/
theorem pendOf_arms : ∀ (st : Stmt) (pc : Nat),
    ((pendOf st pc).filterMap fun | .caseEndOfF q => some q | _ => none) = armOf st pc := by
  intro st
  induction st with
  | seq a b iha ihb => intro pc; simp only [pendOf, armOf, List.filterMap_append, iha, ihb]
  | ifThen t a ih => intro pc; exact ih _
  | ifElse t te a b iha ihb => intro pc; simp only [pendOf, armOf, List.filterMap_append, iha, ihb]
  | arm tOf tEndof body ih => intro pc; simp only [pendOf, armOf, List.filterMap_cons]; rw [ih]
  | brk t => intro pc; rfl
  | caseS a ih =>
    intro pc; simp only [pendOf, armOf]
    induction brkOf a pc with
    | nil => rfl
    | cons x r ihr => simp [List.filterMap_cons, ihr]
  | _ => intro pc; rfl

/-- every entry is a pending break or a pending `endof` -/
theorem pendOf_kinds : ∀ (st : Stmt) (pc : Nat), ∀ fl ∈ pendOf st pc, (∃ p, fl = .breakF p) ∨ (∃ q, fl = .caseEndOfF q) := by
  intro st
  induction st with
  | seq a b iha ihb =>
    intro pc fl h; simp only [pendOf, List.mem_append] at h
    rcases h with h | h; exact ihb _ fl h; exact iha _ fl h
  | ifThen t a ih => intro pc fl h; exact ih _ fl h
  | ifElse t te a b iha ihb =>
    intro pc fl h; simp only [pendOf, List.mem_append] at h
    rcases h with h | h; exact ihb _ fl h; exact iha _ fl h
  | arm tOf tEndof body ih =>
    intro pc fl h; simp only [pendOf, List.mem_cons] at h
    rcases h with rfl | h; exact Or.inr ⟨_, rfl⟩; exact ih _ fl h
  | brk t => intro pc fl h; simp [pendOf] at h; exact Or.inl ⟨_, h⟩
  | caseS a ih => intro pc fl h; simp only [pendOf, List.mem_map] at h; obtain ⟨p, _, rfl⟩ := h; exact Or.inl ⟨p, rfl⟩
  | _ => intro pc fl h; simp [pendOf] at h

/-! ### a block under construction: the statements compiled so far, oldest first -/

def sizeL (l : List Stmt) : Nat := (l.map size).sum
def pendL : List Stmt → Nat → List Flow
  | [], _ => []
  | x :: r, pc => pendL r (pc + size x) ++ pendOf x pc
def brkL : List Stmt → Nat → List Nat
  | [], _ => []
  | x :: r, pc => brkL r (pc + size x) ++ brkOf x pc
def armL : List Stmt → Nat → List Nat
  | [], _ => []
  | x :: r, pc => armL r (pc + size x) ++ armOf x pc

theorem size_seqs' (l : List Stmt) : size (seqs l) = sizeL l := size_seqs l

theorem pend_seqs : ∀ (l : List Stmt) (pc : Nat), pendOf (seqs l) pc = pendL l pc
  | [], _ => rfl
  | [x], pc => by simp [seqs, pendL]
  | x :: y :: r, pc => by
    have ih := pend_seqs (y :: r) (pc + size x)
    simp only [seqs, pendOf, pendL] at ih ⊢
    rw [ih]
theorem brk_seqs : ∀ (l : List Stmt) (pc : Nat), brkOf (seqs l) pc = brkL l pc
  | [], _ => rfl
  | [x], pc => by simp [seqs, brkL]
  | x :: y :: r, pc => by
    have ih := brk_seqs (y :: r) (pc + size x)
    simp only [seqs, brkOf, brkL] at ih ⊢
    rw [ih]
theorem arm_seqs : ∀ (l : List Stmt) (pc : Nat), armOf (seqs l) pc = armL l pc
  | [], _ => rfl
  | [x], pc => by simp [seqs, armL]
  | x :: y :: r, pc => by
    have ih := arm_seqs (y :: r) (pc + size x)
    simp only [seqs, armOf, armL] at ih ⊢
    rw [ih]

theorem sizeL_snoc (l : List Stmt) (x : Stmt) : sizeL (l ++ [x]) = sizeL l + size x := by simp [sizeL]
theorem pendL_snoc : ∀ (l : List Stmt) (x : Stmt) (pc : Nat), pendL (l ++ [x]) pc = pendOf x (pc + sizeL l) ++ pendL l pc
  | [], x, pc => by simp [pendL, sizeL]
  | y :: r, x, pc => by
    simp only [List.cons_append, pendL, pendL_snoc r x (pc + size y), sizeL, List.map_cons, List.sum_cons, List.append_assoc]
    congr 2; omega

/-- per-statement holed code of a block -/
def HoledL : List Stmt → Nat → List Op → List Nat → Prop
  | [], _, X, D => X = [] ∧ D = []
  | x :: r, pc, X, D => ∃ Xx Dx Xr Dr, X = Xx ++ Xr ∧ D = Dx ++ Dr ∧ Holed x pc Xx Dx ∧ HoledL r (pc + size x) Xr Dr

theorem holedL_snoc : ∀ (l : List Stmt) (x : Stmt) (pc : Nat) (X : List Op) (D : List Nat) (Xx : List Op) (Dx : List Nat),
    HoledL l pc X D → Holed x (pc + sizeL l) Xx Dx → HoledL (l ++ [x]) pc (X ++ Xx) (D ++ Dx)
  | [], x, pc, X, D, Xx, Dx, h, hx => by
    obtain ⟨rfl, rfl⟩ := h
    exact ⟨Xx, Dx, [], [], by simp, by simp, by simpa [sizeL] using hx, rfl, rfl⟩
  | y :: r, x, pc, X, D, Xx, Dx, h, hx => by
    obtain ⟨Xy, Dy, Xr, Dr, rfl, rfl, hy, hr⟩ := h
    have := holedL_snoc r x (pc + size y) Xr Dr Xx Dx hr (by
      have : pc + size y + sizeL r = pc + sizeL (y :: r) := by simp [sizeL]; omega
      rw [this]; exact hx)
    exact ⟨Xy, Dy, Xr ++ Xx, Dr ++ Dx, by simp, by simp, hy, this⟩

theorem holedL_seqs : ∀ (l : List Stmt) (pc : Nat) (X : List Op) (D : List Nat), HoledL l pc X D → Holed (seqs l) pc X D
  | [], pc, X, D, h => by obtain ⟨rfl, rfl⟩ := h; exact holed_skip pc
  | [x], pc, X, D, h => by
    obtain ⟨Xx, Dx, Xr, Dr, rfl, rfl, hx, rfl, rfl⟩ := h
    simpa [seqs] using hx
  | x :: y :: r, pc, X, D, h => by
    obtain ⟨Xx, Dx, Xr, Dr, rfl, rfl, hx, hr⟩ := h
    exact holed_seq hx (holedL_seqs (y :: r) _ Xr Dr hr)

theorem holedL_len : ∀ (l : List Stmt) (pc : Nat) (X : List Op) (D : List Nat), HoledL l pc X D → X.length = sizeL l ∧ D.length = sizeL l
  | [], pc, X, D, h => by obtain ⟨rfl, rfl⟩ := h; exact ⟨rfl, rfl⟩
  | x :: r, pc, X, D, h => by
    obtain ⟨Xx, Dx, Xr, Dr, rfl, rfl, hx, hr⟩ := h
    have := holedL_len r _ Xr Dr hr
    simp [sizeL, hx.len, hx.dlen] at this ⊢
    exact ⟨by rw [this.1], by rw [this.2]⟩

end Xeh.Structured
