/-
C01, link 2, general case — part 2: what the closing words do when breaks (and, for `endcase`, `endof`s) are pending.
-/
import XehModel.Proofs.FlowHoles

namespace Xeh.Structured
open Xeh Xeh.Mach Xeh.Compile Xeh.Compile.CState

theorem takeFirstCond_skip (bs : List Nat) (fl : List Flow) :
    takeFirstCond (bs.map .breakF ++ fl) = (takeFirstCond fl).map fun gr => (gr.1, bs.map .breakF ++ gr.2) := by
  induction bs with
  | nil => simp only [List.map_nil, List.nil_append]; cases takeFirstCond fl <;> rfl
  | cons b r ih =>
    simp only [List.map_cons, List.cons_append, takeFirstCond, ih]
    cases takeFirstCond fl <;> simp

/-- set several positions -/
def setAll (code : List Op) (ps : List Nat) (g : Nat → Op) : List Op := ps.foldl (fun c p => c.set p (g p)) code

theorem setAll_length (code : List Op) (ps : List Nat) (g : Nat → Op) : (setAll code ps g).length = code.length := by
  induction ps generalizing code with
  | nil => rfl
  | cons p r ih => simp [setAll, List.foldl_cons] at ih ⊢; rw [ih]; simp

theorem setAll_cons (code : List Op) (p : Nat) (ps : List Nat) (g : Nat → Op) :
    setAll code (p :: ps) g = setAll (code.set p (g p)) ps g := rfl

theorem getElem?_set' (code : List Op) (p i : Nat) (v : Op) :
    (code.set p v)[i]? = if i = p then code[i]?.map (fun _ => v) else code[i]? := by
  by_cases h : i = p
  · subst h
    rw [if_pos rfl]
    by_cases hl : i < code.length
    · rw [List.getElem?_set_self hl, List.getElem?_eq_getElem hl]; rfl
    · have h1 : (code.set i v)[i]? = none := by rw [List.getElem?_eq_none_iff]; simp; omega
      have h2 : code[i]? = none := by rw [List.getElem?_eq_none_iff]; omega
      rw [h1, h2]; rfl
  · rw [if_neg h, List.getElem?_set_ne (Ne.symm h)]

/-- the patched positions end up holding `g`, everything else is untouched -/
theorem getElem?_setAll (code : List Op) (ps : List Nat) (g : Nat → Op) (i : Nat) :
    (setAll code ps g)[i]? = if i ∈ ps then code[i]?.map (fun _ => g i) else code[i]? := by
  induction ps generalizing code with
  | nil => simp [setAll]
  | cons p r ih =>
    rw [setAll_cons, ih, getElem?_set']
    by_cases hip : i = p
    · subst hip
      cases code[i]? <;> simp
    · have : (i ∈ p :: r) ↔ i ∈ r := by simp [hip]
      simp only [this, if_neg hip]

/-- patching positions inside the fragment `X` of `pre ++ X ++ post` is filling `X` -/
theorem setAll_fill (pre X post : List Op) (ps : List Nat) (g : Nat → Op)
    (hr : ∀ p ∈ ps, pre.length ≤ p ∧ p < pre.length + X.length) :
    setAll (pre ++ (X ++ post)) ps g = pre ++ (fill X pre.length ps [] g g ++ post) := by
  apply List.ext_getElem?; intro i
  rw [getElem?_setAll]
  by_cases h1 : i < pre.length
  · have : i ∉ ps := fun h => by have := hr i h; omega
    rw [if_neg this, List.getElem?_append_left h1, List.getElem?_append_left h1]
  · have eL : (pre ++ (X ++ post))[i]? = (X ++ post)[i - pre.length]? := List.getElem?_append_right (by omega)
    have eR : (pre ++ (fill X pre.length ps [] g g ++ post))[i]? = (fill X pre.length ps [] g g ++ post)[i - pre.length]? :=
      List.getElem?_append_right (by omega)
    rw [eL, eR]
    by_cases h2 : i - pre.length < X.length
    · have e1 : (X ++ post)[i - pre.length]? = X[i - pre.length]? := List.getElem?_append_left h2
      have e2 : (fill X pre.length ps [] g g ++ post)[i - pre.length]? = (fill X pre.length ps [] g g)[i - pre.length]? :=
        List.getElem?_append_left (by rw [fill_length]; exact h2)
      rw [e1, e2, getElem?_fill]
      have e : pre.length + (i - pre.length) = i := by omega
      rw [e]
      cases X[i - pre.length]? <;> by_cases hm : i ∈ ps <;> simp [hm]
    · have : i ∉ ps := fun h => by have := hr i h; omega
      have e1 : (X ++ post)[i - pre.length]? = post[i - pre.length - X.length]? := List.getElem?_append_right (by omega)
      have e2 : (fill X pre.length ps [] g g ++ post)[i - pre.length]? = post[i - pre.length - X.length]? := by
        rw [List.getElem?_append_right (by rw [fill_length]; omega), fill_length]
      rw [if_neg this, e1, e2]

/-- the position holds some plain jump (what `backpatch_jump` accepts among others) -/
def IsJump (code : List Op) (p : Nat) : Prop := ∃ k, code[p]? = some (.jump k)

theorem isJump_set (code : List Op) (p q : Nat) (k : Int) (h : IsJump code q) : IsJump (code.set p (.jump k)) q := by
  obtain ⟨k0, hk⟩ := h
  unfold IsJump
  rw [getElem?_set']
  by_cases hq : q = p
  · rw [if_pos hq, hk]; exact ⟨k, rfl⟩
  · rw [if_neg hq]; exact ⟨k0, hk⟩

theorem backpatchJump_jump (s : CState) (p : Nat) (rel : Int) (h : IsJump s.code p) :
    s.backpatchJump p rel = some { s with code := s.code.set p (.jump rel) } := by
  obtain ⟨k, hk⟩ := h
  simp [CState.backpatchJump, hk]

/-- `repeat` resolves the pending breaks first -/
theorem repeat_pops : ∀ (bs : List Nat) (s : CState) (n : Nat) (rest : List Flow),
    s.flows = bs.map .breakF ++ rest → (∀ p ∈ bs, IsJump s.code p) →
    repeatLoop (bs.length + n) s =
      repeatLoop n { s with flows := rest, code := setAll s.code bs (fun p => .jump (fromTo p (s.code.length + 1))) } := by
  intro bs
  induction bs with
  | nil =>
    intro s n rest hf _
    have : rest = s.flows := by simpa using hf.symm
    subst this; simp [setAll]
  | cons b r ih =>
    intro s n rest hf hj
    have e : (b :: r).length + n = (r.length + n) + 1 := by simp; omega
    rw [e]
    simp only [repeatLoop, CState.popFlow, hf, List.map_cons, List.cons_append]
    have hb := backpatchJump_jump ({ s with flows := r.map .breakF ++ rest } : CState) b
      (fromTo b (({ s with flows := r.map .breakF ++ rest } : CState).origin + 1)) (hj b (by simp))
    rw [hb]
    simp only
    rw [ih _ n rest rfl (by
      intro p hp
      exact isJump_set _ _ _ _ (hj p (by simp [hp])))]
    simp [setAll_cons, CState.origin]

/-- `loop` turns the pending breaks into `Break` opcodes -/
theorem loop_pops : ∀ (bs : List Nat) (s : CState) (n : Nat) (rest : List Flow) (loopOrg stopOrg : Nat),
    s.flows = bs.map .breakF ++ rest →
    loopLoop (bs.length + n) s loopOrg stopOrg =
      loopLoop n { s with flows := rest, code := setAll s.code bs (fun p => .breakOp (fromTo p stopOrg)) } loopOrg stopOrg := by
  intro bs
  induction bs with
  | nil =>
    intro s n rest lo so hf
    have : rest = s.flows := by simpa using hf.symm
    subst this; simp [setAll]
  | cons b r ih =>
    intro s n rest lo so hf
    have e : (b :: r).length + n = (r.length + n) + 1 := by simp; omega
    rw [e]
    simp only [loopLoop, CState.popFlow, hf, List.map_cons, List.cons_append, CState.backpatch]
    rw [ih _ n rest lo so rfl]
    simp [setAll_cons]

def isBrkF : Flow → Bool
  | .breakF _ => true
  | _ => false

def armPos : Flow → Option Nat
  | .caseEndOfF q => some q
  | _ => none

/-- `endcase`: every pending `endof` of the spine is pointed at the end, the pending breaks stay -/
theorem endcase_pops : ∀ (P : List Flow) (bs : List Nat) (s : CState) (fuel : Nat) (F : List Flow) (endOrg : Nat),
    (∀ fl ∈ P, (∃ p, fl = .breakF p) ∨ (∃ q, fl = .caseEndOfF q)) →
    s.flows = bs.map .breakF ++ (P ++ .caseF :: F) → (∀ q ∈ P.filterMap armPos, IsJump s.code q) →
    (P.filterMap armPos).length + 1 ≤ fuel →
    endcaseLoop fuel s endOrg =
      .ok { s with flows := bs.map .breakF ++ (P.filter isBrkF ++ F),
                   code := setAll s.code (P.filterMap armPos) (fun q => .jump (fromTo q endOrg)) } := by
  intro P
  induction P with
  | nil =>
    intro bs s fuel F endOrg _ hf _ hfu
    obtain ⟨f, rfl⟩ : ∃ f, fuel = f + 1 := ⟨fuel - 1, by simp at hfu; omega⟩
    simp only [endcaseLoop, hf, List.nil_append, takeFirstCond_skip, takeFirstCond, Option.map_some]
    simp [setAll]
  | cons x P' ih =>
    intro bs s fuel F endOrg hk hf hj hfu
    rcases hk x (by simp) with ⟨p, rfl⟩ | ⟨q, rfl⟩
    · -- a pending break: it joins the prefix that `take_first_cond_flow` skips
      have hf' : s.flows = (bs ++ [p]).map .breakF ++ (P' ++ .caseF :: F) := by rw [hf]; simp
      have e1 : (Flow.breakF p :: P').filterMap armPos = P'.filterMap armPos := by simp [List.filterMap_cons, armPos]
      have e2 : (Flow.breakF p :: P').filter isBrkF = Flow.breakF p :: P'.filter isBrkF := by simp [List.filter_cons, isBrkF]
      rw [e1] at hj hfu
      have := ih (bs ++ [p]) s fuel F endOrg (fun fl h => hk fl (by simp [h])) hf' hj hfu
      rw [this, e1, e2]
      simp
    · have e1 : (Flow.caseEndOfF q :: P').filterMap armPos = q :: P'.filterMap armPos := by simp [List.filterMap_cons, armPos]
      have e2 : (Flow.caseEndOfF q :: P').filter isBrkF = P'.filter isBrkF := by simp [List.filter_cons, isBrkF]
      rw [e1] at hj hfu
      obtain ⟨f, rfl⟩ : ∃ f, fuel = f + 1 := ⟨fuel - 1, by simp at hfu; omega⟩
      have hq : IsJump s.code q := hj q (by simp)
      simp only [endcaseLoop, hf, List.cons_append, takeFirstCond_skip, takeFirstCond, Option.map_some]
      have hb := backpatchJump_jump ({ s with flows := bs.map .breakF ++ (P' ++ .caseF :: F) } : CState) q (fromTo q endOrg) hq
      rw [hb]
      simp only
      rw [ih bs _ f F endOrg (fun fl h => hk fl (by simp [h])) rfl
        (by intro q' hq'; exact isJump_set _ _ _ _ (hj q' (by simp [hq'])))
        (by simp at hfu ⊢; omega)]
      rw [e1, e2]
      simp [setAll_cons]

/-! ### closing words of conditionals with breaks pending on top -/

theorem close_then_g (s : CState) (base body : List Op) (bs : List Nat) (fl : List Flow)
    (hc : s.code = base ++ Op.jumpIfNot 0 :: body) (hf : s.flows = bs.map .breakF ++ .ifF base.length :: fl) :
    immediate s "then" = .ok { s with flows := bs.map .breakF ++ fl, code := base ++ Op.jumpIfNot ((body.length + 1 : Nat) : Int) :: body } := by
  have ho : s.origin = base.length + (body.length + 1) := by simp [CState.origin, hc]
  simp only [immediate, hf, takeFirstCond_skip, takeFirstCond, Option.map_some]
  unfold backpatchJump
  simp only [hc, getElem?_mid, set_mid, ho, fromTo_fwd]

theorem close_else_g (s : CState) (base body : List Op) (bs : List Nat) (fl : List Flow)
    (hc : s.code = base ++ Op.jumpIfNot 0 :: body) (hf : s.flows = bs.map .breakF ++ .ifF base.length :: fl) :
    immediate s "else" = .ok { s with flows := (Flow.elseF (base.length + 1 + body.length) :: (bs.map .breakF ++ fl)), code := base ++ Op.jumpIfNot ((body.length + 2 : Nat) : Int) :: (body ++ [Op.jump 0]), dmap := s.dmap ++ [s.lastTok] } := by
  simp only [immediate, hf, takeFirstCond_skip, takeFirstCond, Option.map_some]
  unfold backpatchJump
  have h1 : (({ s with flows := bs.map .breakF ++ fl } : CState).pushFlow (.elseF ({ s with flows := bs.map .breakF ++ fl } : CState).origin)).emit (.jump 0) =
      { s with flows := (Flow.elseF (base.length + 1 + body.length) :: (bs.map .breakF ++ fl)), code := base ++ Op.jumpIfNot 0 :: (body ++ [Op.jump 0]), dmap := s.dmap ++ [s.lastTok] } := by
    simp [CState.pushFlow, CState.emit, CState.origin, hc] <;> omega
  simp only [h1]
  simp only [getElem?_mid, set_mid]
  have : ({ s with flows := (Flow.elseF (base.length + 1 + body.length) :: (bs.map .breakF ++ fl)), code := base ++ Op.jumpIfNot 0 :: (body ++ [Op.jump 0]), dmap := s.dmap ++ [s.lastTok] } : CState).origin = base.length + (body.length + 2) := by
    simp [CState.origin] <;> omega
  rw [this, fromTo_fwd]

theorem close_then_else_g (s : CState) (base A B : List Op) (k : Int) (bs : List Nat) (fl : List Flow)
    (hc : s.code = base ++ Op.jumpIfNot k :: (A ++ Op.jump 0 :: B)) (hf : s.flows = bs.map .breakF ++ .elseF (base.length + 1 + A.length) :: fl) :
    immediate s "then" = .ok { s with flows := bs.map .breakF ++ fl, code := base ++ Op.jumpIfNot k :: (A ++ Op.jump ((B.length + 1 : Nat) : Int) :: B) } := by
  have ho : s.origin = (base.length + 1 + A.length) + (B.length + 1) := by simp [CState.origin, hc] <;> omega
  have hc' : s.code = (base ++ Op.jumpIfNot k :: A) ++ Op.jump 0 :: B := by rw [hc]; simp
  have hl : (base ++ Op.jumpIfNot k :: A).length = base.length + 1 + A.length := by simp <;> omega
  simp only [immediate, hf, takeFirstCond_skip, takeFirstCond, Option.map_some]
  unfold backpatchJump
  simp only [hc', ← hl, getElem?_mid, set_mid]
  rw [hl, ho, fromTo_fwd]
  simp

/-- `endof`: the arm's jump to the end of the case stays pending (on top of the breaks of the arm's body) -/
theorem close_endof_g (s : CState) (base body : List Op) (bs : List Nat) (fl : List Flow)
    (hc : s.code = base ++ Op.caseOf 0 :: body) (hf : s.flows = bs.map .breakF ++ .caseOfF base.length :: fl) :
    immediate s "endof" = .ok { s with flows := (Flow.caseEndOfF (base.length + 1 + body.length) :: (bs.map .breakF ++ fl)), code := base ++ Op.caseOf ((body.length + 2 : Nat) : Int) :: (body ++ [Op.jump 0]), dmap := s.dmap ++ [s.lastTok] } := by
  simp only [immediate, hf, takeFirstCond_skip, takeFirstCond, Option.map_some]
  unfold backpatchJump
  have h1 : ({ s with flows := bs.map .breakF ++ fl } : CState).emit (.jump 0) =
      { s with flows := bs.map .breakF ++ fl, code := base ++ Op.caseOf 0 :: (body ++ [Op.jump 0]), dmap := s.dmap ++ [s.lastTok] } := by
    simp [CState.emit, hc]
  simp only [h1]
  simp only [getElem?_mid, set_mid]
  have : ({ s with flows := bs.map .breakF ++ fl, code := base ++ Op.caseOf 0 :: (body ++ [Op.jump 0]), dmap := s.dmap ++ [s.lastTok] } : CState).origin = base.length + (body.length + 2) := by
    simp [CState.origin] <;> omega
  rw [this, fromTo_fwd]
  simp [CState.pushFlow, CState.origin, hc] <;> omega

/-! ### closing words of loops with breaks pending -/

/-- what the holes lemma of `Holed` gives for a body `X` placed after `base` -/
def HolesAt (base X : List Op) (bs : List Nat) : Prop :=
  ∀ q ∈ bs, base.length ≤ q ∧ q < base.length + X.length ∧ X[q - base.length]? = some (.jump 0)

theorem HolesAt.isJump {base X post : List Op} {bs : List Nat} (h : HolesAt base X bs) : ∀ q ∈ bs, IsJump (base ++ (X ++ post)) q := by
  intro q hq
  obtain ⟨h1, h2, h3⟩ := h q hq
  refine ⟨0, ?_⟩
  rw [List.getElem?_append_right h1, List.getElem?_append_left (by omega)]; exact h3

theorem setAll_fillB (base X post : List Op) (bs : List Nat) (h : HolesAt base X bs) (T : Nat) (g : Nat → Op) (bk : BK)
    (hg : ∀ q, g q = brkOp bk T q) :
    setAll (base ++ (X ++ post)) bs g = base ++ (fillB X base.length bs bk T ++ post) := by
  rw [setAll_fill base X post bs g (fun q hq => ⟨(h q hq).1, (h q hq).2.1⟩)]
  congr 2
  unfold fillB
  apply fill_congr; intro i o _; simp [hg]

theorem close_repeat_g (s : CState) (base X : List Op) (bs : List Nat) (fl : List Flow)
    (hc : s.code = base ++ X) (hf : s.flows = bs.map .breakF ++ .beginF base.length :: fl) (hh : HolesAt base X bs) :
    immediate s "repeat" = .ok { s with flows := fl, code := base ++ fillB X base.length bs (.jump 1) (base.length + X.length) ++ [Op.jump (-(X.length : Int))], dmap := s.dmap ++ [s.lastTok] } := by
  have hj : ∀ q ∈ bs, IsJump s.code q := by
    intro q hq; rw [hc]; have := hh.isJump (post := []) q hq; simpa using this
  have hlenf : s.flows.length + 1 = bs.length + (fl.length + 2) := by rw [hf]; simp; omega
  have hl : s.code.length = base.length + X.length := by rw [hc]; simp
  have hfill := setAll_fillB base X [] bs hh (base.length + X.length) (fun p => Op.jump (fromTo p (base.length + X.length + 1))) (.jump 1)
    (fun q => by simp [brkOp, fromTo])
  simp only [List.append_nil] at hfill
  have e1 : immediate s "repeat" = repeatLoop (bs.length + (fl.length + 2)) s := by simp only [immediate, hlenf]
  rw [e1, repeat_pops bs s (fl.length + 2) _ hf hj, hl, hc, hfill]
  have e2 := close_repeat ({ s with flows := .beginF base.length :: fl, code := base ++ fillB X base.length bs (.jump 1) (base.length + X.length) } : CState)
    base (fillB X base.length bs (.jump 1) (base.length + X.length)) fl rfl rfl
  simp only [immediate, List.length_cons] at e2
  rw [show fl.length + 2 = fl.length + 1 + 1 by omega, e2]
  simp [fillB, fill_length]

theorem close_repeat_while_g (s : CState) (base C A : List Op) (bs : List Nat) (fl : List Flow)
    (hc : s.code = base ++ (C ++ Op.jumpIfNot 0 :: A))
    (hf : s.flows = bs.map .breakF ++ .whileF (base.length + C.length) :: .beginF base.length :: fl)
    (hh : HolesAt (base ++ (C ++ [Op.jumpIfNot 0])) A bs) :
    immediate s "repeat" = .ok { s with flows := fl, code := base ++ (C ++ Op.jumpIfNot ((A.length + 2 : Nat) : Int) :: (fillB A (base.length + C.length + 1) bs (.jump 1) (base.length + C.length + 1 + A.length) ++ [Op.jump (-((C.length + 1 + A.length : Nat) : Int))])), dmap := s.dmap ++ [s.lastTok] } := by
  have hc' : s.code = (base ++ (C ++ [Op.jumpIfNot 0])) ++ (A ++ []) := by rw [hc]; simp
  have hj : ∀ q ∈ bs, IsJump s.code q := by
    intro q hq; rw [hc']; exact hh.isJump q hq
  have hlenf : s.flows.length + 1 = bs.length + (fl.length + 3) := by rw [hf]; simp; omega
  have hl1 : (base ++ (C ++ [Op.jumpIfNot 0])).length = base.length + C.length + 1 := by simp; omega
  have hl : s.code.length = base.length + C.length + 1 + A.length := by rw [hc]; simp; omega
  have hfill := setAll_fillB (base ++ (C ++ [Op.jumpIfNot 0])) A [] bs hh (base.length + C.length + 1 + A.length)
    (fun p => Op.jump (fromTo p (base.length + C.length + 1 + A.length + 1))) (.jump 1) (fun q => by simp [brkOp, fromTo])
  rw [hl1] at hfill
  have e1 : immediate s "repeat" = repeatLoop (bs.length + (fl.length + 3)) s := by simp only [immediate, hlenf]
  rw [e1, repeat_pops bs s (fl.length + 3) _ hf hj, hl, hc', hfill]
  have e2 := close_repeat_while ({ s with flows := .whileF (base.length + C.length) :: .beginF base.length :: fl, code := base ++ C ++ Op.jumpIfNot 0 :: fillB A (base.length + C.length + 1) bs (.jump 1) (base.length + C.length + 1 + A.length) } : CState)
    base C (fillB A (base.length + C.length + 1) bs (.jump 1) (base.length + C.length + 1 + A.length)) fl rfl rfl
  simp only [immediate, List.length_cons] at e2
  have e3 : (base ++ (C ++ [Op.jumpIfNot 0]) ++ (fillB A (base.length + C.length + 1) bs (.jump 1) (base.length + C.length + 1 + A.length) ++ [])) =
      base ++ C ++ Op.jumpIfNot 0 :: fillB A (base.length + C.length + 1) bs (.jump 1) (base.length + C.length + 1 + A.length) := by simp
  rw [e3, show fl.length + 3 = fl.length + 1 + 1 + 1 by omega, e2]
  simp [fillB, fill_length]

theorem close_loop_g (s : CState) (base X : List Op) (bs : List Nat) (fl : List Flow)
    (hc : s.code = base ++ Op.doOp 0 :: X) (hf : s.flows = bs.map .breakF ++ .doF base.length (base.length + 1) :: fl)
    (hh : HolesAt (base ++ [Op.doOp 0]) X bs) :
    immediate s "loop" = .ok { s with flows := fl, code := base ++ Op.doOp ((X.length + 2 : Nat) : Int) :: (fillB X (base.length + 1) bs (.loop 1) (base.length + 1 + X.length) ++ [Op.loopOp (-(X.length : Int))]), dmap := s.dmap ++ [s.lastTok] } := by
  have hl : s.code.length = base.length + 1 + X.length := by rw [hc]; simp; omega
  have hlenf : (s.emit (Op.loopOp 0)).flows.length + 1 = bs.length + (fl.length + 2) := by
    show s.flows.length + 1 = _; rw [hf]; simp; omega
  have hl1 : (base ++ [Op.doOp 0]).length = base.length + 1 := by simp
  have hfill := setAll_fillB (base ++ [Op.doOp 0]) X [Op.loopOp 0] bs hh (base.length + 1 + X.length)
    (fun p => Op.breakOp (fromTo p (base.length + 1 + X.length + 1))) (.loop 1) (fun q => by simp [brkOp, fromTo])
  rw [hl1] at hfill
  have hce : (s.emit (Op.loopOp 0)).code = (base ++ [Op.doOp 0]) ++ (X ++ [Op.loopOp 0]) := by simp [CState.emit, hc]
  have e1 : immediate s "loop" = loopLoop (bs.length + (fl.length + 2)) (s.emit (Op.loopOp 0)) s.code.length (s.code.length + 1) := by
    simp only [immediate, hlenf]; simp [CState.origin, CState.emit]
  rw [e1, loop_pops bs (s.emit (Op.loopOp 0)) (fl.length + 2) _ _ _ (by show s.flows = _; exact hf), hl, hce, hfill]
  generalize hY : fillB X (base.length + 1) bs (.loop 1) (base.length + 1 + X.length) = Y
  have lY : Y.length = X.length := by rw [← hY]; simp [fillB, fill_length]
  rw [show fl.length + 2 = (fl.length + 1) + 1 by omega]
  simp only [loopLoop, CState.popFlow, CState.backpatch, CState.emit]
  have e1' : fromTo base.length (base.length + 1 + X.length + 1) = ((X.length + 2 : Nat) : Int) := by unfold fromTo; omega
  have e2' : fromTo (base.length + 1 + X.length) (base.length + 1) = -(X.length : Int) := by unfold fromTo; omega
  rw [e1', e2']
  have h1 : (base ++ [Op.doOp 0] ++ (Y ++ [Op.loopOp 0])).set base.length (Op.doOp ((X.length + 2 : Nat) : Int)) =
      base ++ Op.doOp ((X.length + 2 : Nat) : Int) :: (Y ++ [Op.loopOp 0]) := by
    rw [List.append_assoc]; simp
  have h2 : (base ++ Op.doOp ((X.length + 2 : Nat) : Int) :: (Y ++ [Op.loopOp 0])).set (base.length + 1 + X.length) (Op.loopOp (-(X.length : Int))) =
      base ++ Op.doOp ((X.length + 2 : Nat) : Int) :: (Y ++ [Op.loopOp (-(X.length : Int))]) := by
    have : base.length + 1 + X.length = (base ++ Op.doOp ((X.length + 2 : Nat) : Int) :: Y).length := by simp [lY]; omega
    have e : base ++ Op.doOp ((X.length + 2 : Nat) : Int) :: (Y ++ [Op.loopOp 0]) = (base ++ Op.doOp ((X.length + 2 : Nat) : Int) :: Y) ++ Op.loopOp 0 :: [] := by simp
    rw [e, this, set_mid]; simp
  rw [h1, h2]

/-- `endcase`: the pending `endof`s of the spine are pointed at the end of the case, the pending breaks stay -/
theorem close_endcase_g (s : CState) (base X : List Op) (P : List Flow) (fl : List Flow)
    (hc : s.code = base ++ X) (hf : s.flows = P ++ .caseF :: fl)
    (hk : ∀ f ∈ P, (∃ p, f = .breakF p) ∨ (∃ q, f = .caseEndOfF q))
    (hh : HolesAt base X (P.filterMap armPos)) :
    immediate s "endcase" = .ok { s with flows := P.filter isBrkF ++ fl, code := base ++ fill X base.length [] (P.filterMap armPos) (fun _ => Op.nop) (armOp (some 0) (base.length + X.length)) } := by
  have hj : ∀ q ∈ P.filterMap armPos, IsJump s.code q := by
    intro q hq; rw [hc]; have := hh.isJump (post := []) q hq; simpa using this
  have hl : s.code.length = base.length + X.length := by rw [hc]; simp
  have := endcase_pops P [] s (s.flows.length + 1) fl s.origin hk (by simpa using hf) hj (by
    rw [hf]; simp
    have := List.length_filterMap_le armPos P
    omega)
  simp only [immediate, this, List.map_nil, List.nil_append]
  have hfill := setAll_fill base X [] (P.filterMap armPos) (fun q => Op.jump (fromTo q s.origin))
    (fun q hq => ⟨(hh q hq).1, (hh q hq).2.1⟩)
  simp only [List.append_nil] at hfill
  rw [hc, hfill]
  congr 3
  apply fill_congr; intro i o _
  simp [armOp, fromTo, CState.origin, hl]

end Xeh.Structured
