/-
C01, link 2: the flow-stack compiler (Model/Compile.lean: pending flows, jumps emitted with distance 0 and
backpatched when the closing word arrives) emits exactly what the compositional compiler `compileS` emits for the
tree `parseS` reads off the same tokens.

Stage A (this file): programs without `break`, `case`, definitions and locals — every construct is closed with
nothing left pending, so the flow stack after a block is the flow stack before it.
-/
import XehModel.Model.ParseS

namespace Xeh.Structured
open Xeh Xeh.Mach Xeh.Compile Xeh.Compile.CState

/-- statements whose code does not depend on the context: no `break`, no case arms, no definitions, no locals -/
def Simple : Stmt → Bool
  | .skip => true
  | .op _ o => match o with
    | .initLocal _ | .loadLocal _ => false
    | _ => true
  | .seq a b => Simple a && Simple b
  | .ifThen _ a => Simple a
  | .ifElse _ _ a b => Simple a && Simple b
  | .untilLoop _ a => Simple a
  | .whileLoop _ _ c a => Simple c && Simple a
  | .repeatLoop _ a => Simple a
  | .doLoop _ _ a => Simple a
  | .call _ _ _ => true
  | _ => false

def codeS (st : Stmt) : List (Op × Nat) := compileS st .none none

theorem compileS_simple (st : Stmt) : Simple st = true → ∀ bk ce, compileS st bk ce = codeS st := by
  induction st with
  | skip => intro _ _ _; rfl
  | op t o => intro _ _ _; rfl
  | seq a b iha ihb =>
    intro h bk ce
    simp only [Simple, Bool.and_eq_true] at h
    show compileS (.seq a b) bk ce = compileS (.seq a b) .none none
    simp only [compileS]
    rw [iha h.1, ihb h.2, iha h.1 (BK.none.shift _), ihb h.2 .none]
  | ifThen t a ih =>
    intro h bk ce; simp only [Simple] at h
    show compileS (.ifThen t a) bk ce = compileS (.ifThen t a) .none none
    simp only [compileS]; rw [ih h, ih h .none]
  | ifElse t te a b iha ihb =>
    intro h bk ce
    simp only [Simple, Bool.and_eq_true] at h
    show compileS (.ifElse t te a b) bk ce = compileS (.ifElse t te a b) .none none
    simp only [compileS]
    rw [iha h.1, ihb h.2, iha h.1 (BK.none.shift _), ihb h.2 .none]
  | untilLoop t a ih => intro h bk ce; rfl
  | whileLoop tw tr c a ihc iha => intro h bk ce; rfl
  | repeatLoop tr a ih => intro h bk ce; rfl
  | doLoop td tl a ih => intro h bk ce; rfl
  | brk t => intro h; simp [Simple] at h
  | caseS a ih => intro h; simp [Simple] at h
  | arm tOf tEndof body ih => intro h; simp [Simple] at h
  | defn tc ts body ih => intro h; simp [Simple] at h
  | call t addr ret => intro _ _ _; rfl

theorem compileS_len (st : Stmt) : ∀ (bk : BK) (ce : Option Nat), (compileS st bk ce).length = size st := by
  induction st with
  | skip => intro _ _; rfl
  | op t o => intro _ _; rfl
  | seq a b iha ihb => intro bk ce; simp [compileS, size, iha, ihb]
  | ifThen t a ih => intro bk ce; simp [compileS, size, ih]; omega
  | ifElse t te a b iha ihb => intro bk ce; simp [compileS, size, iha, ihb]; omega
  | untilLoop t a ih => intro bk ce; simp [compileS, size, ih]
  | whileLoop tw tr c a ihc iha => intro bk ce; simp [compileS, size, ihc, iha]; omega
  | repeatLoop tr a ih => intro bk ce; simp [compileS, size, ih]
  | doLoop td tl a ih => intro bk ce; simp [compileS, size, ih]; omega
  | brk t => intro bk ce; cases bk <;> rfl
  | caseS a ih => intro bk ce; simp [compileS, size, ih]
  | arm tOf tEndof body ih => intro bk ce; simp [compileS, size, ih]; omega
  | defn tc ts body ih => intro bk ce; simp [compileS, size, ih]; omega
  | call t addr ret => intro bk ce; rfl

/-- the statements of a block, oldest first -/
def fragL (l : List Stmt) : List (Op × Nat) := l.flatMap codeS

theorem simple_seqs : ∀ l : List Stmt, (∀ x ∈ l, Simple x = true) → Simple (seqs l) = true
  | [], _ => rfl
  | [x], h => h x (by simp)
  | x :: y :: r, h => by
    simp only [seqs, Simple, Bool.and_eq_true]
    exact ⟨h x (by simp), simple_seqs (y :: r) (fun z hz => h z (by simp [hz]))⟩

theorem codeS_seqs : ∀ l : List Stmt, (∀ x ∈ l, Simple x = true) → codeS (seqs l) = fragL l
  | [], _ => rfl
  | [x], _ => by simp [seqs, fragL]
  | x :: y :: r, h => by
    have hx := h x (by simp)
    have ih := codeS_seqs (y :: r) (fun z hz => h z (by simp [hz]))
    have hs := simple_seqs (y :: r) (fun z hz => h z (by simp [hz]))
    show compileS (.seq x (seqs (y :: r))) .none none = _
    simp only [compileS]
    rw [compileS_simple x hx, compileS_simple _ hs]
    simp only [fragL, List.flatMap_cons] at ih ⊢
    rw [← ih]

theorem size_seqs : ∀ l : List Stmt, size (seqs l) = (l.map size).sum
  | [] => rfl
  | [x] => by simp [seqs]
  | x :: y :: r => by
    have ih := size_seqs (y :: r)
    simp only [seqs, size, ih, List.map_cons, List.sum_cons]

theorem fragL_length (l : List Stmt) : (fragL l).length = (l.map size).sum := by
  induction l with
  | nil => rfl
  | cons x r ih => simp [fragL, List.flatMap_cons, codeS, compileS_len] at ih ⊢; first | done | omega

/-! ### the relation between the parser's state and the compiler's state -/

/-- no word of the remaining text is one of the immediate words stage A excludes -/
def NoBad (dict : List (String × Entry)) (toks : List Tok) : Prop :=
  ∀ w, Tok.word w ∈ toks → ∀ n, dict.lookup w = some (.native true n) →
    n ≠ "break" ∧ n ≠ "case" ∧ n ≠ "of" ∧ n ≠ ":" ∧ n ≠ "local"

/-- the same as a computable test -/
def noBadB (dict : List (String × Entry)) (toks : List Tok) : Bool :=
  toks.all fun t => match t with
    | .word w => match dict.lookup w with
      | some (.native true n) => n != "break" && n != "case" && n != "of" && n != ":" && n != "local"
      | _ => true
    | _ => true

theorem noBad_of_b (dict : List (String × Entry)) (toks : List Tok) (h : noBadB dict toks = true) : NoBad dict toks := by
  intro w hw n hl
  unfold noBadB at h
  rw [List.all_eq_true] at h
  have := h _ hw
  simp only [hl, Bool.and_eq_true, bne_iff_ne, ne_eq] at this
  exact ⟨this.1.1.1.1, this.1.1.1.2, this.1.1.2, this.1.2, this.2⟩

theorem NoBad.nil (dict : List (String × Entry)) : NoBad dict [] := fun w hw => by cases hw

def opSimple (o : Op) : Bool := match o with
  | .initLocal _ | .loadLocal _ => false
  | _ => true

theorem loadValueOp_simple (c : Cell) : opSimple (Compile.loadValueOp c) = true := by
  unfold Compile.loadValueOp Mach.loadValueOp
  split
  · split <;> rfl
  · rfl
  · rfl
  · rfl

theorem NoBad.tail {dict : List (String × Entry)} {t : Tok} {toks : List Tok} (h : NoBad dict (t :: toks)) : NoBad dict toks :=
  fun w hw => h w (List.mem_cons_of_mem _ hw)

theorem NoBad.var {dict : List (String × Entry)} {toks : List Tok} (h : NoBad dict toks) (name : String) (a : Nat) :
    NoBad ((name, .var a) :: dict) toks := by
  intro w hw n hl
  simp only [List.lookup] at hl
  split at hl
  · cases hl
  · exact h w hw n hl

structure Match (p : PState) (top : Bool) (s : CState) : Prop where
  dict : s.dict = p.dict
  heap : s.heapLen = p.heapLen
  lim : s.heapLimit = none
  notMeta : s.inMeta = false
  top : top = true → s.flows = [] ∧ s.hiddenFlows = 0
  noFun : topFun s.flows = none
  plocals : p.locals = none

/-- the conclusion of the block lemma -/
def BlockOK (toks : List Tok) (idx : Nat) (p : PState) (top : Bool) (blk : Block) (s : CState)
    (pre : List Op) (dpre : List Nat) : Prop :=
  Simple blk.stmt = true ∧ blk.st.pc = p.pc ∧ NoBad blk.st.dict blk.rest ∧
  ∃ s', Match blk.st top s' ∧ s'.flows = s.flows ∧ s'.hiddenFlows = s.hiddenFlows ∧
    s'.code = pre ++ (codeS blk.stmt).map (·.1) ∧ s'.dmap = dpre ++ (codeS blk.stmt).map (·.2) ∧
    (match blk.term with
     | .eof => blk.rest = [] ∧ compileToks toks idx s = compileToks [] blk.termIdx s'
     | t => ∃ w n, s'.dict.lookup w = some (.native true n) ∧ termOf n = some t ∧ blk.next = blk.termIdx + 1 ∧
            compileToks toks idx s = compileToks (.word w :: blk.rest) blk.termIdx s')

/-- appending one simple statement to the block under construction -/
theorem frag_snoc (acc : List Stmt) (x : Stmt) : fragL (x :: acc).reverse = fragL acc.reverse ++ codeS x := by
  simp [fragL]

/-- state after emitting the code of one more statement `x` (token attribution included) -/
theorem emit_frag (s : CState) (pre : List Op) (dpre : List Nat) (acc : List Stmt) (t : Nat) (o : Op)
    (hc : s.code = pre ++ (fragL acc.reverse).map (·.1)) (hd : s.dmap = dpre ++ (fragL acc.reverse).map (·.2)) :
    (({ s with lastTok := t } : CState).emit o).code = pre ++ (fragL (Stmt.op t o :: acc).reverse).map (·.1) ∧
    (({ s with lastTok := t } : CState).emit o).dmap = dpre ++ (fragL (Stmt.op t o :: acc).reverse).map (·.2) := by
  rw [frag_snoc]
  simp [CState.emit, hc, hd, codeS, compileS]

theorem match_emit {p : PState} {top : Bool} {s : CState} (h : Match p top s) (t : Nat) (o : Op) :
    Match p top (({ s with lastTok := t } : CState).emit o) :=
  ⟨h.dict, h.heap, h.lim, h.notMeta, h.top, h.noFun, h.plocals⟩

/-! ### what the closing words do to code whose shape is known -/

theorem getElem?_mid {α : Type} (base : List α) (x : α) (body : List α) : (base ++ x :: body)[base.length]? = some x := by
  simp

theorem set_mid {α : Type} (base : List α) (x y : α) (body : List α) :
    (base ++ x :: body).set base.length y = base ++ y :: body := by
  simp

theorem fromTo_fwd (a n : Nat) : fromTo a (a + n) = (n : Int) := by unfold fromTo; omega
theorem fromTo_back (a n : Nat) : fromTo (a + n) a = -(n : Int) := by unfold fromTo; omega

/-- `then` closing an `if` -/
theorem close_then (s : CState) (base body : List Op) (fl : List Flow)
    (hc : s.code = base ++ Op.jumpIfNot 0 :: body) (hf : s.flows = .ifF base.length :: fl) :
    immediate s "then" = .ok { s with flows := fl, code := base ++ Op.jumpIfNot ((body.length + 1 : Nat) : Int) :: body } := by
  have ho : s.origin = base.length + (body.length + 1) := by simp [CState.origin, hc]
  simp only [immediate, hf, takeFirstCond]
  unfold backpatchJump
  simp only [hc, getElem?_mid, set_mid, ho, fromTo_fwd]

/-- `else` after the true branch -/
theorem close_else (s : CState) (base body : List Op) (fl : List Flow)
    (hc : s.code = base ++ Op.jumpIfNot 0 :: body) (hf : s.flows = .ifF base.length :: fl) :
    immediate s "else" = .ok { s with flows := (Flow.elseF (base.length + 1 + body.length) :: fl), code := base ++ Op.jumpIfNot ((body.length + 2 : Nat) : Int) :: body ++ [Op.jump 0], dmap := s.dmap ++ [s.lastTok] } := by
  simp only [immediate, hf, takeFirstCond]
  unfold backpatchJump
  have h1 : (({ s with flows := fl } : CState).pushFlow (.elseF ({ s with flows := fl } : CState).origin)).emit (.jump 0) =
      { s with flows := (Flow.elseF (base.length + 1 + body.length) :: fl), code := base ++ Op.jumpIfNot 0 :: body ++ [Op.jump 0], dmap := s.dmap ++ [s.lastTok] } := by
    simp [CState.pushFlow, CState.emit, CState.origin, hc] <;> omega
  simp only [h1]
  have h2 : (base ++ Op.jumpIfNot 0 :: body ++ [Op.jump 0])[base.length]? = some (Op.jumpIfNot 0) := by
    rw [List.append_assoc]; simp
  simp only [h2]
  have h3 : (base ++ Op.jumpIfNot 0 :: body ++ [Op.jump 0]).set base.length (Op.jumpIfNot (fromTo base.length
      ({ s with flows := (Flow.elseF (base.length + 1 + body.length) :: fl), code := base ++ Op.jumpIfNot 0 :: body ++ [Op.jump 0], dmap := s.dmap ++ [s.lastTok] } : CState).origin)) =
      base ++ Op.jumpIfNot ((body.length + 2 : Nat) : Int) :: body ++ [Op.jump 0] := by
    have : ({ s with flows := (Flow.elseF (base.length + 1 + body.length) :: fl), code := base ++ Op.jumpIfNot 0 :: body ++ [Op.jump 0], dmap := s.dmap ++ [s.lastTok] } : CState).origin = base.length + (body.length + 2) := by
      simp [CState.origin] <;> omega
    rw [this, fromTo_fwd]
    rw [List.append_assoc, List.append_assoc]
    simp
  simp only [h3]

/-- `then` closing an `if … else` -/
theorem close_then_else (s : CState) (base A B : List Op) (k : Int) (fl : List Flow)
    (hc : s.code = base ++ Op.jumpIfNot k :: A ++ Op.jump 0 :: B) (hf : s.flows = .elseF (base.length + 1 + A.length) :: fl) :
    immediate s "then" = .ok { s with flows := fl, code := base ++ Op.jumpIfNot k :: A ++ Op.jump ((B.length + 1 : Nat) : Int) :: B } := by
  have ho : s.origin = (base.length + 1 + A.length) + (B.length + 1) := by simp [CState.origin, hc] <;> omega
  have hc' : s.code = (base ++ Op.jumpIfNot k :: A) ++ Op.jump 0 :: B := by rw [hc]
  have hl : (base ++ Op.jumpIfNot k :: A).length = base.length + 1 + A.length := by simp <;> omega
  simp only [immediate, hf, takeFirstCond]
  unfold backpatchJump
  simp only [hc', ← hl, getElem?_mid, set_mid]
  rw [hl, ho, fromTo_fwd]

/-- `until` -/
theorem close_until (s : CState) (base body : List Op) (fl : List Flow)
    (hc : s.code = base ++ body) (hf : s.flows = .beginF base.length :: fl) :
    immediate s "until" = .ok { s with flows := fl, code := base ++ body ++ [Op.jumpIfNot (-(body.length : Int))], dmap := s.dmap ++ [s.lastTok] } := by
  simp only [immediate, CState.popFlow, hf, CState.emit, CState.origin, hc, List.length_append, fromTo_back]

/-- `while` -/
theorem open_while (s : CState) : immediate s "while" =
    .ok { s with flows := .whileF s.code.length :: s.flows, code := s.code ++ [Op.jumpIfNot 0], dmap := s.dmap ++ [s.lastTok] } := by
  simp [immediate, CState.pushFlow, CState.emit, CState.origin]

/-- `repeat` closing `begin … repeat` -/
theorem close_repeat (s : CState) (base body : List Op) (fl : List Flow)
    (hc : s.code = base ++ body) (hf : s.flows = .beginF base.length :: fl) :
    immediate s "repeat" = .ok { s with flows := fl, code := base ++ body ++ [Op.jump (-(body.length : Int))], dmap := s.dmap ++ [s.lastTok] } := by
  simp only [immediate, repeatLoop, CState.popFlow, hf, CState.emit, CState.origin, hc, List.length_append, fromTo_back,
    List.length_cons]

/-- `repeat` closing `begin … while … repeat` -/
theorem close_repeat_while (s : CState) (base C A : List Op) (fl : List Flow)
    (hc : s.code = base ++ C ++ Op.jumpIfNot 0 :: A) (hf : s.flows = .whileF (base.length + C.length) :: .beginF base.length :: fl) :
    immediate s "repeat" = .ok { s with flows := fl, code := base ++ C ++ Op.jumpIfNot ((A.length + 2 : Nat) : Int) :: A ++ [Op.jump (-((C.length + 1 + A.length : Nat) : Int))], dmap := s.dmap ++ [s.lastTok] } := by
  have hl : (base ++ C).length = base.length + C.length := by simp
  simp only [immediate, repeatLoop, CState.popFlow, hf, List.length_cons]
  unfold backpatchJump
  simp only [hc, ← hl, getElem?_mid, set_mid]
  simp only [CState.origin, CState.emit, List.length_append, List.length_cons]
  have e1 : fromTo (base.length + C.length) (base.length + C.length + (A.length + 1) + 1) = ((A.length + 2 : Nat) : Int) := by
    unfold fromTo; omega
  have e2 : fromTo (base.length + C.length + (A.length + 1)) base.length = -((C.length + 1 + A.length : Nat) : Int) := by
    unfold fromTo; omega
  rw [e1, e2]

/-- `loop` closing a `do` -/
theorem close_loop (s : CState) (base body : List Op) (fl : List Flow)
    (hc : s.code = base ++ Op.doOp 0 :: body) (hf : s.flows = .doF base.length (base.length + 1) :: fl) :
    immediate s "loop" = .ok { s with flows := fl, code := base ++ Op.doOp ((body.length + 2 : Nat) : Int) :: body ++ [Op.loopOp (-(body.length : Int))], dmap := s.dmap ++ [s.lastTok] } := by
  simp only [immediate, CState.emit, hf, loopLoop, CState.popFlow, List.length_cons, CState.backpatch, CState.origin, hc,
    List.length_append, List.length_nil, Nat.zero_add]
  have e1 : fromTo base.length (base.length + (body.length + 1) + 1) = ((body.length + 2 : Nat) : Int) := by
    unfold fromTo; omega
  have e2 : fromTo (base.length + (body.length + 1)) (base.length + 1) = -(body.length : Int) := by
    unfold fromTo; omega
  rw [e1, e2]
  congr 2
  have h1 : (base ++ Op.doOp 0 :: body ++ [Op.loopOp 0]).set base.length (Op.doOp ((body.length + 2 : Nat) : Int)) =
      base ++ Op.doOp ((body.length + 2 : Nat) : Int) :: body ++ [Op.loopOp 0] := by
    rw [List.append_assoc]; simp
  rw [h1]
  have h2 : base.length + (body.length + 1) = (base ++ Op.doOp ((body.length + 2 : Nat) : Int) :: body).length := by
    simp <;> omega
  rw [h2, set_mid]

theorem open_do (s : CState) : immediate s "do" =
    .ok { s with flows := .doF s.code.length (s.code.length + 1) :: s.flows, code := s.code ++ [Op.doOp 0], dmap := s.dmap ++ [s.lastTok] } := by
  simp [immediate, CState.pushFlow, CState.emit, CState.origin]

theorem open_foreach (s : CState) : immediate s "foreach" =
    .ok { s with flows := .doF (s.code.length + 1) (s.code.length + 2) :: s.flows, code := s.code ++ [Op.native "<foreach-init>", Op.doOp 0, Op.native "<foreach-next>"], dmap := s.dmap ++ [s.lastTok, s.lastTok, s.lastTok] } := by
  simp [immediate, CState.pushFlow, CState.emit, CState.origin, emitNative]

theorem open_if (s : CState) : immediate s "if" =
    .ok { s with flows := .ifF s.code.length :: s.flows, code := s.code ++ [Op.jumpIfNot 0], dmap := s.dmap ++ [s.lastTok] } := by
  simp [immediate, CState.pushFlow, CState.emit, CState.origin]

theorem open_begin (s : CState) : immediate s "begin" = .ok { s with flows := .beginF s.code.length :: s.flows } := by
  simp [immediate, CState.pushFlow, CState.origin]

/-- the three builders: `[ … ]`, `{ … }`, `^{ … ^}` -/
theorem open_builder (s : CState) :
    immediate s "[" = .ok { s with flows := .vecF :: s.flows, code := s.code ++ [Op.native "<vec-begin>"], dmap := s.dmap ++ [s.lastTok] } ∧
    immediate s "{" = .ok { s with flows := .mapF :: s.flows, code := s.code ++ [Op.native "<map-begin>"], dmap := s.dmap ++ [s.lastTok] } ∧
    immediate s "^{" = .ok { s with flows := .tagsF :: s.flows, code := s.code ++ [Op.native "<vec-begin>"], dmap := s.dmap ++ [s.lastTok] } := by
  simp [immediate, CState.pushFlow, CState.emit, emitNative]

theorem close_builder (s : CState) (fl : List Flow) :
    (s.flows = .vecF :: fl → immediate s "]" = .ok { s with flows := fl, code := s.code ++ [Op.native "<vec-end>"], dmap := s.dmap ++ [s.lastTok] }) ∧
    (s.flows = .mapF :: fl → immediate s "}" = .ok { s with flows := fl, code := s.code ++ [Op.native "<map-end>"], dmap := s.dmap ++ [s.lastTok] }) ∧
    (s.flows = .tagsF :: fl → immediate s "^}" = .ok { s with flows := fl, code := s.code ++ [Op.native "<tags-end>"], dmap := s.dmap ++ [s.lastTok] }) := by
  refine ⟨?_, ?_, ?_⟩ <;> intro hf <;> simp [immediate, CState.popFlow, hf, CState.emit, emitNative]

def termName : Term → String
  | .eof => "" | .thenT => "then" | .elseT => "else" | .untilT => "until" | .whileT => "while" | .repeatT => "repeat"
  | .loopT => "loop" | .endofT => "endof" | .endcaseT => "endcase" | .rbrack => "]" | .rbrace => "}" | .rtags => "^}"
  | .semiT => ";"

theorem termOf_inv (n : String) (t : Term) (h : termOf n = some t) : n = termName t := by
  unfold termOf at h
  split at h <;> simp at h <;> subst h <;> rfl

/-- an immediate word that takes no name: one step of the token loop -/
theorem compile_imm (s s' : CState) (w n : String) (rest : List Tok) (idx : Nat)
    (hf : topFun s.flows = none) (hl : s.dict.lookup w = some (.native true n)) (ht : takesName n = false)
    (hi : immediate ({ s with lastTok := idx } : CState) n = .ok s') :
    compileToks (.word w :: rest) idx s = compileToks rest (idx + 1) s' := by
  simp only [compileToks, hf, Option.bind_none, hl, ht, hi]
  simp

/-- an immediate word that reads the next token as a name (not `late`) -/
theorem compile_named (s s' : CState) (w n name : String) (rest' : List Tok) (idx : Nat)
    (hf : topFun s.flows = none) (hl : s.dict.lookup w = some (.native true n)) (ht : takesName n = true)
    (hn : (n == "late") = false)
    (hi : withName ({ s with lastTok := idx + 1 } : CState) n name = .ok s') :
    compileToks (.word w :: .word name :: rest') idx s = compileToks rest' (idx + 2) s' := by
  simp only [compileToks, hf, Option.bind_none, hl, ht, hn, hi]
  simp

theorem topFun_cons (f : Flow) (fl : List Flow) (hf : ∀ ff, f ≠ .funF ff) : topFun (f :: fl) = topFun fl := by
  cases f <;> simp [topFun] at hf ⊢

theorem match_sub {p : PState} {top : Bool} {s : CState} (hm : Match p top s) (pc' : Nat) (sA : CState)
    (hd : sA.dict = s.dict) (hh : sA.heapLen = s.heapLen) (hl : sA.heapLimit = s.heapLimit) (hi : sA.inMeta = s.inMeta)
    (hf : topFun sA.flows = none) : Match { p with pc := pc' } false sA :=
  ⟨hd.trans hm.dict, hh.trans hm.heap, hl.trans hm.lim, hi.trans hm.notMeta, fun h => absurd h (by decide), hf, hm.plocals⟩

theorem match_back {p : PState} {top : Bool} {s : CState} (hm : Match p top s) {p2 : PState} {tp : Bool} {s2 : CState}
    (m2 : Match p2 tp s2) (s3 : CState) (pc : Nat)
    (hd : s3.dict = s2.dict) (hh : s3.heapLen = s2.heapLen) (hl : s3.heapLimit = s2.heapLimit) (hi : s3.inMeta = s2.inMeta)
    (hf : s3.flows = s.flows) (hhid : s3.hiddenFlows = s.hiddenFlows) : Match { p2 with pc := pc } top s3 :=
  ⟨hd.trans m2.dict, hh.trans m2.heap, hl.trans m2.lim, hi.trans m2.notMeta,
   fun h => ⟨hf.trans (hm.top h).1, hhid.trans (hm.top h).2⟩, by rw [hf]; exact hm.noFun, m2.plocals⟩

theorem block_sim : ∀ (f : Nat) (toks : List Tok) (idx : Nat) (p : PState) (top : Bool) (acc : List Stmt) (blk : Block),
    parseBlock f toks idx p top acc = some blk → (∀ x ∈ acc, Simple x = true) → NoBad p.dict toks →
    ∀ (s : CState) (pre : List Op) (dpre : List Nat), Match p top s → pre.length = p.pc →
      s.code = pre ++ (fragL acc.reverse).map (·.1) → s.dmap = dpre ++ (fragL acc.reverse).map (·.2) →
      BlockOK toks idx p top blk s pre dpre := by
  intro f
  induction f with
  | zero => intro toks idx p top acc blk h; simp [parseBlock] at h
  | succ f ih =>
    intro toks idx p top acc blk h hacc hnb s pre dpre hm hpre hc hd
    have hlen : s.code.length = p.pc + accSize acc := by
      rw [hc, List.length_append, List.length_map, fragL_length, hpre, accSize, List.map_reverse, List.sum_reverse]
    -- some statements (newest first) have been compiled: the rest of the block
    have step : ∀ (rest : List Tok) (next : Nat) (p' : PState) (xs : List Stmt) (s1 : CState),
        (∀ x ∈ xs, Simple x = true) → parseBlock f rest next p' top (xs ++ acc) = some blk → p'.pc = p.pc →
        NoBad p'.dict rest → Match p' top s1 → s1.flows = s.flows → s1.hiddenFlows = s.hiddenFlows →
        s1.code = s.code ++ (fragL xs.reverse).map (·.1) → s1.dmap = s.dmap ++ (fragL xs.reverse).map (·.2) →
        compileToks toks idx s = compileToks rest next s1 → BlockOK toks idx p top blk s pre dpre := by
      intro rest next p' xs s1 hxs hp hpc hnb' hm1 hf1 hh1 hc1 hd1 hct
      have hfr : fragL (xs ++ acc).reverse = fragL acc.reverse ++ fragL xs.reverse := by simp [fragL]
      have r := ih rest next p' top (xs ++ acc) blk hp
        (by intro x hx; rcases List.mem_append.mp hx with hx | hx; exact hxs x hx; exact hacc x hx)
        hnb' s1 pre dpre hm1 (hpc ▸ hpre)
        (by rw [hc1, hc, hfr, List.map_append, List.append_assoc])
        (by rw [hd1, hd, hfr, List.map_append, List.append_assoc])
      unfold BlockOK at r ⊢
      obtain ⟨r1, r2, r3, s', m', fl, hf, c', d', tm⟩ := r
      refine ⟨r1, r2.trans hpc, r3, s', m', fl.trans hf1, hf.trans hh1, c', d', ?_⟩
      revert tm
      cases blk.term <;> simp only <;> intro tm
      all_goals first
        | exact ⟨tm.1, hct.trans tm.2⟩
        | (obtain ⟨w, n, h1, h2, h3, h4⟩ := tm; exact ⟨w, n, h1, h2, h3, hct.trans h4⟩)
    -- one simple opcode, then the rest of the block
    have simpleOp : ∀ (rest : List Tok) (next : Nat) (t : Nat) (o : Op),
        opSimple o = true →
        parseBlock f rest next p top (.op t o :: acc) = some blk → NoBad p.dict rest →
        compileToks toks idx s = compileToks rest next (({ s with lastTok := t } : CState).emit o) →
        BlockOK toks idx p top blk s pre dpre := by
      intro rest next t o ho hp hnb' hct
      exact step rest next p [.op t o] _ (by intro x hx; simp at hx; subst hx; simpa [Simple, opSimple] using ho) hp rfl hnb'
        (match_emit hm t o) rfl rfl (by simp [CState.emit, fragL, codeS, compileS]) (by simp [CState.emit, fragL, codeS, compileS]) hct
    rcases toks with _ | ⟨tk, rest⟩
    · simp only [parseBlock, Option.some.injEq] at h
      subst h
      have hs : Simple (seqs acc.reverse) = true := simple_seqs _ (fun x hx => hacc x (List.mem_reverse.mp hx))
      unfold BlockOK
      dsimp only
      refine ⟨hs, rfl, NoBad.nil _, s, hm, rfl, rfl, ?_, ?_, rfl, rfl⟩
      · rw [codeS_seqs _ (fun x hx => hacc x (List.mem_reverse.mp hx))]; exact hc
      · rw [codeS_seqs _ (fun x hx => hacc x (List.mem_reverse.mp hx))]; exact hd
    rcases tk with c | w
    · simp only [parseBlock] at h
      exact simpleOp rest (idx + 1) idx (Compile.loadValueOp c) (loadValueOp_simple c) h hnb.tail (by simp [compileToks])
    · have hloc : (p.locals.bind fun ls => CState.rposition w ls) = none := by rw [hm.plocals]; rfl
      have hfun : ((topFun ({ s with lastTok := idx } : CState).flows).bind fun ff => rposition w ff.locals) = none := by
        simp [hm.noFun]
      simp only [parseBlock, hloc] at h
      have hd0 : ({ s with lastTok := idx } : CState).dict = p.dict := hm.dict
      cases hl : p.dict.lookup w with
      | none => simp [hl] at h
      | some e =>
        rw [hl] at h
        cases e with
        | const c =>
          simp only at h
          refine simpleOp rest (idx + 1) idx (Compile.loadValueOp c) (loadValueOp_simple c) h hnb.tail ?_
          simp [compileToks, hm.noFun, hm.dict, hl, buildWord]
        | var a =>
          simp only at h
          refine simpleOp rest (idx + 1) idx (.load a) rfl h hnb.tail ?_
          simp [compileToks, hm.noFun, hm.dict, hl, buildWord]
        | interp imm addr =>
          cases imm with
          | true => simp at h
          | false =>
            simp only at h
            refine step rest (idx + 1) p [.call idx addr (p.pc + accSize acc + 1)] (({ s with lastTok := idx } : CState).emit (.call addr))
              (by intro x hx; simp at hx; subst hx; rfl) h rfl hnb.tail (match_emit hm idx _) rfl rfl
              (by simp [CState.emit, fragL, codeS, compileS]) (by simp [CState.emit, fragL, codeS, compileS]) ?_
            simp [compileToks, hm.noFun, hm.dict, hl, buildWord]
        | native imm n =>
          cases imm with
          | false =>
            simp only at h
            refine simpleOp rest (idx + 1) idx (.native n) rfl h hnb.tail ?_
            simp [compileToks, hm.noFun, hm.dict, hl, buildWord]
          | true =>
            simp only at h
            have hbad := hnb w (by simp) n hl
            cases ht : termOf n with
            | some t =>
              rw [ht] at h
              simp only [Option.some.injEq] at h
              subst h
              have hs : Simple (seqs acc.reverse) = true := simple_seqs _ (fun x hx => hacc x (List.mem_reverse.mp hx))
              have hcs := codeS_seqs _ (fun x hx => hacc x (List.mem_reverse.mp hx))
              unfold BlockOK
              dsimp only
              refine ⟨hs, rfl, hnb.tail, s, hm, rfl, rfl, by rw [hcs]; exact hc, by rw [hcs]; exact hd, ?_⟩
              have hex : ∃ w' n', List.lookup w' s.dict = some (Entry.native true n') ∧ termOf n' = some t ∧ idx + 1 = idx + 1 ∧
                  compileToks (.word w :: rest) idx s = compileToks (.word w' :: rest) idx s :=
                ⟨w, n, by rw [hm.dict]; exact hl, ht, rfl, rfl⟩
              cases t with
              | eof => exfalso; unfold termOf at ht; split at ht <;> simp at ht
              | _ => exact hex
            | none =>
              rw [ht] at h
              simp only at h
              split at h
              · -- if … then / if … else … then
                have hopen := compile_imm s _ w "if" rest idx hm.noFun (by rw [hm.dict]; exact hl) (by decide) (open_if _)
                dsimp only at hopen
                generalize hsA : ({ s with lastTok := idx, flows := Flow.ifF s.code.length :: s.flows, code := s.code ++ [Op.jumpIfNot 0], dmap := s.dmap ++ [idx] } : CState) = sA at hopen
                have mA : Match { p with pc := p.pc + accSize acc + 1 } false sA := by
                  subst hsA
                  have hnf : topFun (Flow.ifF s.code.length :: s.flows) = none := by
                    rw [topFun_cons _ _ (by intro ff h; cases h)]; exact hm.noFun
                  exact ⟨hm.dict, hm.heap, hm.lim, hm.notMeta, fun h => absurd h (by decide), hnf, hm.plocals⟩
                have lA : sA.code.length = p.pc + accSize acc + 1 := by subst hsA; simp [hlen]
                cases hsub : parseBlock f rest (idx + 1) { p with pc := p.pc + accSize acc + 1 } false [] with
                | none => rw [hsub] at h; simp at h
                | some b1 =>
                  rw [hsub] at h
                  have r1 := ih rest (idx + 1) _ false [] b1 hsub (by intro x hx; cases hx) hnb.tail sA sA.code sA.dmap mA lA
                    (by simp [fragL]) (by simp [fragL])
                  unfold BlockOK at r1
                  obtain ⟨a, tm, ti, rest2, nx, st2⟩ := b1
                  obtain ⟨sa, pca, nba, s2, m2, fl2, hh2, c2, d2, tm2⟩ := r1
                  dsimp only at sa pca nba m2 c2 d2 tm2 h
                  cases tm with
                  | thenT =>
                    simp only at h tm2
                    obtain ⟨w2, n2, l2, t2, hnx, ct2⟩ := tm2
                    have e2 := termOf_inv n2 _ t2
                    simp only [termName] at e2
                    subst e2
                    have hcode2 : s2.code = s.code ++ Op.jumpIfNot 0 :: (codeS a).map (·.1) := by
                      rw [c2]; subst hsA; simp
                    have hfl2 : ({ s2 with lastTok := ti } : CState).flows = .ifF s.code.length :: s.flows := by
                      show s2.flows = _; rw [fl2]; subst hsA; rfl
                    have hcl := close_then ({ s2 with lastTok := ti } : CState) s.code ((codeS a).map (·.1)) s.flows hcode2 hfl2
                    have hstep2 := compile_imm s2 _ w2 "then" rest2 ti m2.noFun l2 (by decide) hcl
                    refine step rest2 nx { st2 with pc := p.pc } [.ifThen idx a]
                      { s2 with lastTok := ti, flows := s.flows, code := s.code ++ Op.jumpIfNot ((((codeS a).map (·.1)).length + 1 : Nat) : Int) :: (codeS a).map (·.1) }
                      ?_ h rfl nba ?_ rfl ?_ ?_ ?_ (hopen.trans (ct2.trans (hnx ▸ hstep2)))
                    · intro x hx; simp at hx; subst hx; simpa [Simple] using sa
                    · have hhid : s2.hiddenFlows = s.hiddenFlows := by rw [hh2]; subst hsA; rfl
                      exact ⟨m2.dict, m2.heap, m2.lim, m2.notMeta, fun h => ⟨(hm.top h).1, hhid.trans (hm.top h).2⟩, hm.noFun, m2.plocals⟩
                    · show s2.hiddenFlows = s.hiddenFlows; rw [hh2]; subst hsA; rfl
                    · show s.code ++ _ = _
                      simp [fragL, codeS, compileS, compileS_len]
                    · show s2.dmap = _
                      rw [d2]; subst hsA
                      simp [fragL, codeS, compileS]
                  | elseT =>
                    simp only at h tm2
                    obtain ⟨w2, n2, l2, t2, hnx, ct2⟩ := tm2
                    have e2 := termOf_inv n2 _ t2
                    simp only [termName] at e2
                    subst e2
                    have hcode2 : s2.code = s.code ++ Op.jumpIfNot 0 :: (codeS a).map (·.1) := by
                      rw [c2]; subst hsA; simp
                    have hfl2 : ({ s2 with lastTok := ti } : CState).flows = .ifF s.code.length :: s.flows := by
                      show s2.flows = _; rw [fl2]; subst hsA; rfl
                    have hcl := close_else ({ s2 with lastTok := ti } : CState) s.code ((codeS a).map (·.1)) s.flows hcode2 hfl2
                    have hstep2 := compile_imm s2 _ w2 "else" rest2 ti m2.noFun l2 (by decide) hcl
                    dsimp only at hstep2
                    generalize hsB : ({ s2 with lastTok := ti, flows := (Flow.elseF (s.code.length + 1 + ((codeS a).map (·.1)).length) :: s.flows), code := s.code ++ Op.jumpIfNot ((((codeS a).map (·.1)).length + 2 : Nat) : Int) :: (codeS a).map (·.1) ++ [Op.jump 0], dmap := s2.dmap ++ [ti] } : CState) = sB at hstep2
                    have hnfB : topFun sB.flows = none := by
                      subst hsB
                      show topFun (Flow.elseF _ :: s.flows) = none
                      rw [topFun_cons _ _ (by intro ff h; cases h)]; exact hm.noFun
                    have mB : Match { st2 with pc := p.pc + accSize acc + 1 + size a + 1 } false sB :=
                      match_sub m2 _ sB (by subst hsB; rfl) (by subst hsB; rfl) (by subst hsB; rfl) (by subst hsB; rfl) hnfB
                    have lB : sB.code.length = p.pc + accSize acc + 1 + size a + 1 := by
                      subst hsB; simp [hlen, codeS, compileS_len] <;> omega
                    subst hnx
                    cases hsub2 : parseBlock f rest2 (ti + 1) { st2 with pc := p.pc + accSize acc + 1 + size a + 1 } false [] with
                    | none => rw [hsub2] at h; simp at h
                    | some b2 =>
                      rw [hsub2] at h
                      have r2 := ih rest2 (ti + 1) _ false [] b2 hsub2 (by intro x hx; cases hx) nba sB sB.code sB.dmap mB lB
                        (by simp [fragL]) (by simp [fragL])
                      unfold BlockOK at r2
                      obtain ⟨b, tmb, tib, rest3, nx3, st3⟩ := b2
                      obtain ⟨sb, pcb, nbb, s4, m4, fl4, hh4, c4, d4, tm4⟩ := r2
                      dsimp only at sb pcb nbb m4 c4 d4 tm4 h
                      cases tmb with
                      | thenT =>
                        simp only at h tm4
                        obtain ⟨w4, n4, l4, t4, hnx4, ct4⟩ := tm4
                        have e4 := termOf_inv n4 _ t4
                        simp only [termName] at e4
                        subst e4
                        have hcode4 : s4.code = s.code ++ Op.jumpIfNot ((((codeS a).map (·.1)).length + 2 : Nat) : Int) :: (codeS a).map (·.1) ++ Op.jump 0 :: (codeS b).map (·.1) := by
                          rw [c4]; subst hsB; simp
                        have hfl4 : ({ s4 with lastTok := tib } : CState).flows = .elseF (s.code.length + 1 + ((codeS a).map (·.1)).length) :: s.flows := by
                          show s4.flows = _; rw [fl4]; subst hsB; rfl
                        have hcl4 := close_then_else ({ s4 with lastTok := tib } : CState) s.code ((codeS a).map (·.1)) ((codeS b).map (·.1)) _ s.flows hcode4 hfl4
                        have hstep4 := compile_imm s4 _ w4 "then" rest3 tib m4.noFun l4 (by decide) hcl4
                        subst hnx4
                        have hhid : s4.hiddenFlows = s.hiddenFlows := by
                          rw [hh4]; subst hsB; show s2.hiddenFlows = _; rw [hh2]; subst hsA; rfl
                        refine step rest3 (tib + 1) { st3 with pc := p.pc } [.ifElse idx ti a b]
                          { s4 with lastTok := tib, flows := s.flows, code := s.code ++ Op.jumpIfNot ((((codeS a).map (·.1)).length + 2 : Nat) : Int) :: (codeS a).map (·.1) ++ Op.jump ((((codeS b).map (·.1)).length + 1 : Nat) : Int) :: (codeS b).map (·.1) }
                          ?_ h rfl nbb (match_back hm m4 _ p.pc rfl rfl rfl rfl rfl hhid) rfl hhid ?_ ?_
                          (hopen.trans (ct2.trans (hstep2.trans (ct4.trans hstep4))))
                        · intro x hx; simp at hx; subst hx; simp [Simple, sa, sb]
                        · dsimp only
                          simp [fragL, codeS, compileS, compileS_len, BK.shift]
                        · show s4.dmap = _
                          rw [d4]; subst hsB
                          show s2.dmap ++ [ti] ++ _ = _
                          rw [d2]; subst hsA
                          simp [fragL, codeS, compileS, BK.shift]
                      | _ => simp at h
                  | _ => simp at h
              · -- begin … until / begin … repeat / begin … while … repeat
                have hopen := compile_imm s _ w "begin" rest idx hm.noFun (by rw [hm.dict]; exact hl) (by decide) (open_begin _)
                dsimp only at hopen
                generalize hsA : ({ s with lastTok := idx, flows := Flow.beginF s.code.length :: s.flows } : CState) = sA at hopen
                have hnfA : topFun sA.flows = none := by
                  subst hsA; show topFun (Flow.beginF _ :: s.flows) = none
                  rw [topFun_cons _ _ (by intro ff h; cases h)]; exact hm.noFun
                have mA : Match { p with pc := p.pc + accSize acc } false sA :=
                  match_sub hm _ sA (by subst hsA; rfl) (by subst hsA; rfl) (by subst hsA; rfl) (by subst hsA; rfl) hnfA
                have lA : sA.code.length = p.pc + accSize acc := by subst hsA; exact hlen
                cases hsub : parseBlock f rest (idx + 1) { p with pc := p.pc + accSize acc } false [] with
                | none => rw [hsub] at h; simp at h
                | some b1 =>
                  rw [hsub] at h
                  have r1 := ih rest (idx + 1) _ false [] b1 hsub (by intro x hx; cases hx) hnb.tail sA sA.code sA.dmap mA lA
                    (by simp [fragL]) (by simp [fragL])
                  unfold BlockOK at r1
                  obtain ⟨a, tm, ti, rest2, nx, st2⟩ := b1
                  obtain ⟨sa, pca, nba, s2, m2, fl2, hh2, c2, d2, tm2⟩ := r1
                  dsimp only at sa pca nba m2 c2 d2 tm2 h
                  have hcode2 : s2.code = s.code ++ (codeS a).map (·.1) := by rw [c2]; subst hsA; rfl
                  have hdm2 : s2.dmap = s.dmap ++ (codeS a).map (·.2) := by rw [d2]; subst hsA; rfl
                  have hfl2 : s2.flows = .beginF s.code.length :: s.flows := by rw [fl2]; subst hsA; rfl
                  have hhid2 : s2.hiddenFlows = s.hiddenFlows := by rw [hh2]; subst hsA; rfl
                  cases tm with
                  | untilT =>
                    simp only at h tm2
                    obtain ⟨w2, n2, l2, t2, hnx, ct2⟩ := tm2
                    have e2 := termOf_inv n2 _ t2
                    simp only [termName] at e2
                    subst e2
                    subst hnx
                    split at h
                    · simp at h
                    have hcl := close_until ({ s2 with lastTok := ti } : CState) s.code ((codeS a).map (·.1)) s.flows hcode2 hfl2
                    have hstep2 := compile_imm s2 _ w2 "until" rest2 ti m2.noFun l2 (by decide) hcl
                    refine step rest2 (ti + 1) { st2 with pc := p.pc } [.untilLoop ti a]
                      { s2 with lastTok := ti, flows := s.flows, code := s.code ++ (codeS a).map (·.1) ++ [Op.jumpIfNot (-(((codeS a).map (·.1)).length : Int))], dmap := s2.dmap ++ [ti] }
                      ?_ h rfl nba (match_back hm m2 _ p.pc rfl rfl rfl rfl rfl hhid2) rfl hhid2 ?_ ?_
                      (hopen.trans (ct2.trans hstep2))
                    · intro x hx; simp at hx; subst hx; simpa [Simple] using sa
                    · dsimp only; simp [fragL, codeS, compileS, compileS_len]
                    · dsimp only; rw [hdm2]; simp [fragL, codeS, compileS]
                  | repeatT =>
                    simp only at h tm2
                    obtain ⟨w2, n2, l2, t2, hnx, ct2⟩ := tm2
                    have e2 := termOf_inv n2 _ t2
                    simp only [termName] at e2
                    subst e2
                    subst hnx
                    have hcl := close_repeat ({ s2 with lastTok := ti } : CState) s.code ((codeS a).map (·.1)) s.flows hcode2 hfl2
                    have hstep2 := compile_imm s2 _ w2 "repeat" rest2 ti m2.noFun l2 (by decide) hcl
                    refine step rest2 (ti + 1) { st2 with pc := p.pc } [.repeatLoop ti a]
                      { s2 with lastTok := ti, flows := s.flows, code := s.code ++ (codeS a).map (·.1) ++ [Op.jump (-(((codeS a).map (·.1)).length : Int))], dmap := s2.dmap ++ [ti] }
                      ?_ h rfl nba (match_back hm m2 _ p.pc rfl rfl rfl rfl rfl hhid2) rfl hhid2 ?_ ?_
                      (hopen.trans (ct2.trans hstep2))
                    · intro x hx; simp at hx; subst hx; simpa [Simple] using sa
                    · have ea : compileS a (BK.jump 1) none = compileS a .none none := compileS_simple a sa _ _
                      dsimp only; simp [fragL, codeS, compileS, compileS_len, ea]
                    · have ea : compileS a (BK.jump 1) none = compileS a .none none := compileS_simple a sa _ _
                      dsimp only; rw [hdm2]; simp [fragL, codeS, compileS, ea]
                  | whileT =>
                    simp only at h tm2
                    obtain ⟨w2, n2, l2, t2, hnx, ct2⟩ := tm2
                    have e2 := termOf_inv n2 _ t2
                    simp only [termName] at e2
                    subst e2
                    subst hnx
                    split at h
                    · simp at h
                    have hstep2 := compile_imm s2 _ w2 "while" rest2 ti m2.noFun l2 (by decide) (open_while _)
                    dsimp only at hstep2
                    generalize hsW : ({ s2 with lastTok := ti, flows := Flow.whileF s2.code.length :: s2.flows, code := s2.code ++ [Op.jumpIfNot 0], dmap := s2.dmap ++ [ti] } : CState) = sW at hstep2
                    have hnfW : topFun sW.flows = none := by
                      subst hsW; show topFun (Flow.whileF _ :: s2.flows) = none
                      rw [topFun_cons _ _ (by intro ff h; cases h)]; exact m2.noFun
                    have mW : Match { st2 with pc := p.pc + accSize acc + size a + 1 } false sW :=
                      match_sub m2 _ sW (by subst hsW; rfl) (by subst hsW; rfl) (by subst hsW; rfl) (by subst hsW; rfl) hnfW
                    have lW : sW.code.length = p.pc + accSize acc + size a + 1 := by
                      subst hsW
                      show (s2.code ++ [Op.jumpIfNot 0]).length = _
                      rw [hcode2]
                      simp only [List.length_append, List.length_map, List.length_cons, List.length_nil, hlen, codeS, compileS_len]
                    cases hsub2 : parseBlock f rest2 (ti + 1) { st2 with pc := p.pc + accSize acc + size a + 1 } false [] with
                    | none => rw [hsub2] at h; simp at h
                    | some b2 =>
                      rw [hsub2] at h
                      have r2 := ih rest2 (ti + 1) _ false [] b2 hsub2 (by intro x hx; cases hx) nba sW sW.code sW.dmap mW lW
                        (by simp [fragL]) (by simp [fragL])
                      unfold BlockOK at r2
                      obtain ⟨b, tmb, tib, rest3, nx3, st3⟩ := b2
                      obtain ⟨sb, pcb, nbb, s4, m4, fl4, hh4, c4, d4, tm4⟩ := r2
                      dsimp only at sb pcb nbb m4 c4 d4 tm4 h
                      cases tmb with
                      | repeatT =>
                        simp only at h tm4
                        obtain ⟨w4, n4, l4, t4, hnx4, ct4⟩ := tm4
                        have e4 := termOf_inv n4 _ t4
                        simp only [termName] at e4
                        subst e4
                        subst hnx4
                        have hcode4 : s4.code = s.code ++ (codeS a).map (·.1) ++ Op.jumpIfNot 0 :: (codeS b).map (·.1) := by
                          rw [c4]; subst hsW; simp [hcode2]
                        have hfl4 : ({ s4 with lastTok := tib } : CState).flows = .whileF (s.code.length + ((codeS a).map (·.1)).length) :: .beginF s.code.length :: s.flows := by
                          show s4.flows = _; rw [fl4]; subst hsW
                          show Flow.whileF s2.code.length :: s2.flows = _
                          rw [hfl2, hcode2]; simp
                        have hcl4 := close_repeat_while ({ s4 with lastTok := tib } : CState) s.code ((codeS a).map (·.1)) ((codeS b).map (·.1)) s.flows hcode4 hfl4
                        have hstep4 := compile_imm s4 _ w4 "repeat" rest3 tib m4.noFun l4 (by decide) hcl4
                        have hhid : s4.hiddenFlows = s.hiddenFlows := by
                          rw [hh4]; subst hsW; exact hhid2
                        refine step rest3 (tib + 1) { st3 with pc := p.pc } [.whileLoop ti tib a b]
                          { s4 with lastTok := tib, flows := s.flows, code := s.code ++ (codeS a).map (·.1) ++ Op.jumpIfNot ((((codeS b).map (·.1)).length + 2 : Nat) : Int) :: (codeS b).map (·.1) ++ [Op.jump (-((((codeS a).map (·.1)).length + 1 + ((codeS b).map (·.1)).length : Nat) : Int))], dmap := s4.dmap ++ [tib] }
                          ?_ h rfl nbb (match_back hm m4 _ p.pc rfl rfl rfl rfl rfl hhid) rfl hhid ?_ ?_
                          (hopen.trans (ct2.trans (hstep2.trans (ct4.trans hstep4))))
                        · intro x hx; simp at hx; subst hx; simp [Simple, sa, sb]
                        · have eb : compileS b (BK.jump 1) none = compileS b .none none := compileS_simple b sb _ _
                          dsimp only
                          simp [fragL, codeS, compileS, compileS_len, eb]
                        · have eb : compileS b (BK.jump 1) none = compileS b .none none := compileS_simple b sb _ _
                          dsimp only
                          rw [d4]; subst hsW
                          show s2.dmap ++ [ti] ++ _ ++ [tib] = _
                          rw [hdm2]
                          simp [fragL, codeS, compileS, eb]
                      | _ => simp at h
                  | _ => simp at h
              · -- do … loop
                have hopen := compile_imm s _ w "do" rest idx hm.noFun (by rw [hm.dict]; exact hl) (by decide) (open_do _)
                dsimp only at hopen
                generalize hsA : ({ s with lastTok := idx, flows := Flow.doF s.code.length (s.code.length + 1) :: s.flows, code := s.code ++ [Op.doOp 0], dmap := s.dmap ++ [idx] } : CState) = sA at hopen
                have hnfA : topFun sA.flows = none := by
                  subst hsA; show topFun (Flow.doF s.code.length (s.code.length + 1) :: s.flows) = none
                  rw [topFun_cons _ _ (by intro ff h; cases h)]; exact hm.noFun
                have mA : Match { p with pc := p.pc + accSize acc + 1 } false sA :=
                  match_sub hm _ sA (by subst hsA; rfl) (by subst hsA; rfl) (by subst hsA; rfl) (by subst hsA; rfl) hnfA
                have lA : sA.code.length = p.pc + accSize acc + 1 := by subst hsA; simp [hlen]
                cases hsub : parseBlock f rest (idx + 1) { p with pc := p.pc + accSize acc + 1 } false [] with
                | none => rw [hsub] at h; simp at h
                | some b1 =>
                  rw [hsub] at h
                  have r1 := ih rest (idx + 1) _ false [] b1 hsub (by intro x hx; cases hx) hnb.tail sA sA.code sA.dmap mA lA
                    (by simp [fragL]) (by simp [fragL])
                  unfold BlockOK at r1
                  obtain ⟨a, tm, ti, rest2, nx, st2⟩ := b1
                  obtain ⟨sa, pca, nba, s2, m2, fl2, hh2, c2, d2, tm2⟩ := r1
                  dsimp only at sa pca nba m2 c2 d2 tm2 h
                  have hhid2 : s2.hiddenFlows = s.hiddenFlows := by rw [hh2]; subst hsA; rfl
                  cases tm with
                  | loopT =>
                    simp only at h tm2
                    obtain ⟨w2, n2, l2, t2, hnx, ct2⟩ := tm2
                    have e2 := termOf_inv n2 _ t2
                    simp only [termName] at e2
                    subst e2
                    subst hnx
                    have hcode2 : s2.code = (s.code) ++ Op.doOp 0 :: ((codeS a).map (·.1)) := by
                      rw [c2]; subst hsA; simp
                    have hfl2 : ({ s2 with lastTok := ti } : CState).flows = .doF (s.code).length ((s.code).length + 1) :: s.flows := by
                      show s2.flows = _; rw [fl2]; subst hsA; simp
                    have hcl := close_loop ({ s2 with lastTok := ti } : CState) (s.code) ((codeS a).map (·.1)) s.flows hcode2 hfl2
                    have hstep2 := compile_imm s2 _ w2 "loop" rest2 ti m2.noFun l2 (by decide) hcl
                    have ea : compileS a (BK.loop 1) none = compileS a .none none := compileS_simple a sa _ _
                    refine step rest2 (ti + 1) { st2 with pc := p.pc } [.doLoop idx ti a]
                      { s2 with lastTok := ti, flows := s.flows, code := (s.code) ++ Op.doOp (((((codeS a).map (·.1)).length + 2 : Nat)) : Int) :: ((codeS a).map (·.1)) ++ [Op.loopOp (-((((codeS a).map (·.1)).length : Int)))], dmap := s2.dmap ++ [ti] }
                      ?_ h rfl nba (match_back hm m2 _ p.pc rfl rfl rfl rfl rfl hhid2) rfl hhid2 ?_ ?_
                      (hopen.trans (ct2.trans hstep2))
                    · intro x hx; simp at hx; rcases hx with rfl | rfl <;> simp [Simple, sa]
                    · dsimp only; simp [fragL, codeS, compileS, compileS_len, ea, BK.shift, size] <;> omega
                    · dsimp only; rw [d2]; subst hsA; simp [fragL, codeS, compileS, ea, BK.shift]
                  | _ => simp at h
              · -- foreach … loop
                have hopen := compile_imm s _ w "foreach" rest idx hm.noFun (by rw [hm.dict]; exact hl) (by decide) (open_foreach _)
                dsimp only at hopen
                generalize hsA : ({ s with lastTok := idx, flows := Flow.doF (s.code.length + 1) (s.code.length + 2) :: s.flows, code := s.code ++ [Op.native "<foreach-init>", Op.doOp 0, Op.native "<foreach-next>"], dmap := s.dmap ++ [idx, idx, idx] } : CState) = sA at hopen
                have hnfA : topFun sA.flows = none := by
                  subst hsA; show topFun (Flow.doF (s.code.length + 1) (s.code.length + 2) :: s.flows) = none
                  rw [topFun_cons _ _ (by intro ff h; cases h)]; exact hm.noFun
                have mA : Match { p with pc := p.pc + accSize acc + 3 } false sA :=
                  match_sub hm _ sA (by subst hsA; rfl) (by subst hsA; rfl) (by subst hsA; rfl) (by subst hsA; rfl) hnfA
                have lA : sA.code.length = p.pc + accSize acc + 3 := by subst hsA; simp [hlen]
                cases hsub : parseBlock f rest (idx + 1) { p with pc := p.pc + accSize acc + 3 } false [] with
                | none => rw [hsub] at h; simp at h
                | some b1 =>
                  rw [hsub] at h
                  have r1 := ih rest (idx + 1) _ false [] b1 hsub (by intro x hx; cases hx) hnb.tail sA sA.code sA.dmap mA lA
                    (by simp [fragL]) (by simp [fragL])
                  unfold BlockOK at r1
                  obtain ⟨a, tm, ti, rest2, nx, st2⟩ := b1
                  obtain ⟨sa, pca, nba, s2, m2, fl2, hh2, c2, d2, tm2⟩ := r1
                  dsimp only at sa pca nba m2 c2 d2 tm2 h
                  have hhid2 : s2.hiddenFlows = s.hiddenFlows := by rw [hh2]; subst hsA; rfl
                  cases tm with
                  | loopT =>
                    simp only at h tm2
                    obtain ⟨w2, n2, l2, t2, hnx, ct2⟩ := tm2
                    have e2 := termOf_inv n2 _ t2
                    simp only [termName] at e2
                    subst e2
                    subst hnx
                    have hcode2 : s2.code = (s.code ++ [Op.native "<foreach-init>"]) ++ Op.doOp 0 :: (Op.native "<foreach-next>" :: (codeS a).map (·.1)) := by
                      rw [c2]; subst hsA; simp
                    have hfl2 : ({ s2 with lastTok := ti } : CState).flows = .doF (s.code ++ [Op.native "<foreach-init>"]).length ((s.code ++ [Op.native "<foreach-init>"]).length + 1) :: s.flows := by
                      show s2.flows = _; rw [fl2]; subst hsA; simp
                    have hcl := close_loop ({ s2 with lastTok := ti } : CState) (s.code ++ [Op.native "<foreach-init>"]) (Op.native "<foreach-next>" :: (codeS a).map (·.1)) s.flows hcode2 hfl2
                    have hstep2 := compile_imm s2 _ w2 "loop" rest2 ti m2.noFun l2 (by decide) hcl
                    have ea : compileS a (BK.loop 1) none = compileS a .none none := compileS_simple a sa _ _
                    refine step rest2 (ti + 1) { st2 with pc := p.pc } [.doLoop idx ti (.seq (.op idx (.native "<foreach-next>")) a), .op idx (.native "<foreach-init>")]
                      { s2 with lastTok := ti, flows := s.flows, code := (s.code ++ [Op.native "<foreach-init>"]) ++ Op.doOp ((((Op.native "<foreach-next>" :: (codeS a).map (·.1)).length + 2 : Nat)) : Int) :: (Op.native "<foreach-next>" :: (codeS a).map (·.1)) ++ [Op.loopOp (-(((Op.native "<foreach-next>" :: (codeS a).map (·.1)).length : Int)))], dmap := s2.dmap ++ [ti] }
                      ?_ h rfl nba (match_back hm m2 _ p.pc rfl rfl rfl rfl rfl hhid2) rfl hhid2 ?_ ?_
                      (hopen.trans (ct2.trans hstep2))
                    · intro x hx; simp at hx; rcases hx with rfl | rfl <;> simp [Simple, sa]
                    · dsimp only; simp [fragL, codeS, compileS, compileS_len, ea, BK.shift, size] <;> omega
                    · dsimp only; rw [d2]; subst hsA; simp [fragL, codeS, compileS, ea, BK.shift]
                  | _ => simp at h
              · exact absurd rfl hbad.2.1
              · exact absurd rfl hbad.2.2.1
              · -- [ … ]
                have hopen := compile_imm s _ w "[" rest idx hm.noFun (by rw [hm.dict]; exact hl) (by decide) ((open_builder _).1)
                dsimp only at hopen
                generalize hsA : ({ s with lastTok := idx, flows := Flow.vecF :: s.flows, code := s.code ++ [Op.native "<vec-begin>"], dmap := s.dmap ++ [idx] } : CState) = sA at hopen
                have hnfA : topFun sA.flows = none := by
                  subst hsA; show topFun (Flow.vecF :: s.flows) = none
                  rw [topFun_cons _ _ (by intro ff h; cases h)]; exact hm.noFun
                have mA : Match { p with pc := p.pc + accSize acc + 1 } false sA :=
                  match_sub hm _ sA (by subst hsA; rfl) (by subst hsA; rfl) (by subst hsA; rfl) (by subst hsA; rfl) hnfA
                have lA : sA.code.length = p.pc + accSize acc + 1 := by subst hsA; simp [hlen]
                cases hsub : parseBlock f rest (idx + 1) { p with pc := p.pc + accSize acc + 1 } false [] with
                | none => rw [hsub] at h; simp at h
                | some b1 =>
                  rw [hsub] at h
                  have r1 := ih rest (idx + 1) _ false [] b1 hsub (by intro x hx; cases hx) hnb.tail sA sA.code sA.dmap mA lA
                    (by simp [fragL]) (by simp [fragL])
                  unfold BlockOK at r1
                  obtain ⟨a, tm, ti, rest2, nx, st2⟩ := b1
                  obtain ⟨sa, pca, nba, s2, m2, fl2, hh2, c2, d2, tm2⟩ := r1
                  dsimp only at sa pca nba m2 c2 d2 tm2 h
                  have hhid2 : s2.hiddenFlows = s.hiddenFlows := by rw [hh2]; subst hsA; rfl
                  cases tm with
                  | rbrack =>
                    simp only at h tm2
                    obtain ⟨w2, n2, l2, t2, hnx, ct2⟩ := tm2
                    have e2 := termOf_inv n2 _ t2
                    simp only [termName] at e2
                    subst e2
                    subst hnx
                    split at h
                    · simp at h
                    have hfl2 : ({ s2 with lastTok := ti } : CState).flows = .vecF :: s.flows := by
                      show s2.flows = _; rw [fl2]; subst hsA; rfl
                    have hcl := ((close_builder ({ s2 with lastTok := ti } : CState) s.flows).1) hfl2
                    have hstep2 := compile_imm s2 _ w2 "]" rest2 ti m2.noFun l2 (by decide) hcl
                    refine step rest2 (ti + 1) { st2 with pc := p.pc } [.op ti (.native "<vec-end>"), a, .op idx (.native "<vec-begin>")]
                      { s2 with lastTok := ti, flows := s.flows, code := s2.code ++ [Op.native "<vec-end>"], dmap := s2.dmap ++ [ti] }
                      ?_ h rfl nba (match_back hm m2 _ p.pc rfl rfl rfl rfl rfl hhid2) rfl hhid2 ?_ ?_
                      (hopen.trans (ct2.trans hstep2))
                    · intro x hx; simp at hx; rcases hx with rfl | rfl | rfl <;> simp [Simple, sa]
                    · dsimp only; rw [c2]; subst hsA; simp [fragL, codeS, compileS]
                    · dsimp only; rw [d2]; subst hsA; simp [fragL, codeS, compileS]
                  | _ => simp at h
              · -- { … }
                have hopen := compile_imm s _ w "{" rest idx hm.noFun (by rw [hm.dict]; exact hl) (by decide) ((open_builder _).2.1)
                dsimp only at hopen
                generalize hsA : ({ s with lastTok := idx, flows := Flow.mapF :: s.flows, code := s.code ++ [Op.native "<map-begin>"], dmap := s.dmap ++ [idx] } : CState) = sA at hopen
                have hnfA : topFun sA.flows = none := by
                  subst hsA; show topFun (Flow.mapF :: s.flows) = none
                  rw [topFun_cons _ _ (by intro ff h; cases h)]; exact hm.noFun
                have mA : Match { p with pc := p.pc + accSize acc + 1 } false sA :=
                  match_sub hm _ sA (by subst hsA; rfl) (by subst hsA; rfl) (by subst hsA; rfl) (by subst hsA; rfl) hnfA
                have lA : sA.code.length = p.pc + accSize acc + 1 := by subst hsA; simp [hlen]
                cases hsub : parseBlock f rest (idx + 1) { p with pc := p.pc + accSize acc + 1 } false [] with
                | none => rw [hsub] at h; simp at h
                | some b1 =>
                  rw [hsub] at h
                  have r1 := ih rest (idx + 1) _ false [] b1 hsub (by intro x hx; cases hx) hnb.tail sA sA.code sA.dmap mA lA
                    (by simp [fragL]) (by simp [fragL])
                  unfold BlockOK at r1
                  obtain ⟨a, tm, ti, rest2, nx, st2⟩ := b1
                  obtain ⟨sa, pca, nba, s2, m2, fl2, hh2, c2, d2, tm2⟩ := r1
                  dsimp only at sa pca nba m2 c2 d2 tm2 h
                  have hhid2 : s2.hiddenFlows = s.hiddenFlows := by rw [hh2]; subst hsA; rfl
                  cases tm with
                  | rbrace =>
                    simp only at h tm2
                    obtain ⟨w2, n2, l2, t2, hnx, ct2⟩ := tm2
                    have e2 := termOf_inv n2 _ t2
                    simp only [termName] at e2
                    subst e2
                    subst hnx
                    split at h
                    · simp at h
                    have hfl2 : ({ s2 with lastTok := ti } : CState).flows = .mapF :: s.flows := by
                      show s2.flows = _; rw [fl2]; subst hsA; rfl
                    have hcl := ((close_builder ({ s2 with lastTok := ti } : CState) s.flows).2.1) hfl2
                    have hstep2 := compile_imm s2 _ w2 "}" rest2 ti m2.noFun l2 (by decide) hcl
                    refine step rest2 (ti + 1) { st2 with pc := p.pc } [.op ti (.native "<map-end>"), a, .op idx (.native "<map-begin>")]
                      { s2 with lastTok := ti, flows := s.flows, code := s2.code ++ [Op.native "<map-end>"], dmap := s2.dmap ++ [ti] }
                      ?_ h rfl nba (match_back hm m2 _ p.pc rfl rfl rfl rfl rfl hhid2) rfl hhid2 ?_ ?_
                      (hopen.trans (ct2.trans hstep2))
                    · intro x hx; simp at hx; rcases hx with rfl | rfl | rfl <;> simp [Simple, sa]
                    · dsimp only; rw [c2]; subst hsA; simp [fragL, codeS, compileS]
                    · dsimp only; rw [d2]; subst hsA; simp [fragL, codeS, compileS]
                  | _ => simp at h
              · -- ^{ … ^}
                have hopen := compile_imm s _ w "^{" rest idx hm.noFun (by rw [hm.dict]; exact hl) (by decide) ((open_builder _).2.2)
                dsimp only at hopen
                generalize hsA : ({ s with lastTok := idx, flows := Flow.tagsF :: s.flows, code := s.code ++ [Op.native "<vec-begin>"], dmap := s.dmap ++ [idx] } : CState) = sA at hopen
                have hnfA : topFun sA.flows = none := by
                  subst hsA; show topFun (Flow.tagsF :: s.flows) = none
                  rw [topFun_cons _ _ (by intro ff h; cases h)]; exact hm.noFun
                have mA : Match { p with pc := p.pc + accSize acc + 1 } false sA :=
                  match_sub hm _ sA (by subst hsA; rfl) (by subst hsA; rfl) (by subst hsA; rfl) (by subst hsA; rfl) hnfA
                have lA : sA.code.length = p.pc + accSize acc + 1 := by subst hsA; simp [hlen]
                cases hsub : parseBlock f rest (idx + 1) { p with pc := p.pc + accSize acc + 1 } false [] with
                | none => rw [hsub] at h; simp at h
                | some b1 =>
                  rw [hsub] at h
                  have r1 := ih rest (idx + 1) _ false [] b1 hsub (by intro x hx; cases hx) hnb.tail sA sA.code sA.dmap mA lA
                    (by simp [fragL]) (by simp [fragL])
                  unfold BlockOK at r1
                  obtain ⟨a, tm, ti, rest2, nx, st2⟩ := b1
                  obtain ⟨sa, pca, nba, s2, m2, fl2, hh2, c2, d2, tm2⟩ := r1
                  dsimp only at sa pca nba m2 c2 d2 tm2 h
                  have hhid2 : s2.hiddenFlows = s.hiddenFlows := by rw [hh2]; subst hsA; rfl
                  cases tm with
                  | rtags =>
                    simp only at h tm2
                    obtain ⟨w2, n2, l2, t2, hnx, ct2⟩ := tm2
                    have e2 := termOf_inv n2 _ t2
                    simp only [termName] at e2
                    subst e2
                    subst hnx
                    split at h
                    · simp at h
                    have hfl2 : ({ s2 with lastTok := ti } : CState).flows = .tagsF :: s.flows := by
                      show s2.flows = _; rw [fl2]; subst hsA; rfl
                    have hcl := ((close_builder ({ s2 with lastTok := ti } : CState) s.flows).2.2) hfl2
                    have hstep2 := compile_imm s2 _ w2 "^}" rest2 ti m2.noFun l2 (by decide) hcl
                    refine step rest2 (ti + 1) { st2 with pc := p.pc } [.op ti (.native "<tags-end>"), a, .op idx (.native "<vec-begin>")]
                      { s2 with lastTok := ti, flows := s.flows, code := s2.code ++ [Op.native "<tags-end>"], dmap := s2.dmap ++ [ti] }
                      ?_ h rfl nba (match_back hm m2 _ p.pc rfl rfl rfl rfl rfl hhid2) rfl hhid2 ?_ ?_
                      (hopen.trans (ct2.trans hstep2))
                    · intro x hx; simp at hx; rcases hx with rfl | rfl | rfl <;> simp [Simple, sa]
                    · dsimp only; rw [c2]; subst hsA; simp [fragL, codeS, compileS]
                    · dsimp only; rw [d2]; subst hsA; simp [fragL, codeS, compileS]
                  | _ => simp at h
              · exact absurd rfl hbad.1
              · -- nil
                refine simpleOp rest (idx + 1) idx .loadNil rfl h hnb.tail ?_
                exact compile_imm s _ w "nil" rest idx hm.noFun (by rw [hm.dict]; exact hl) (by decide) (by simp [immediate])
              · -- ^hex
                refine step rest (idx + 1) p [.op idx (.native "<fmt-base>"), .op idx (Compile.loadValueOp (.int 16))]
                  (emitNative (({ s with lastTok := idx } : CState).emit (Compile.loadValueOp (.int 16))) "<fmt-base>")
                  ?_ h rfl hnb.tail ⟨hm.dict, hm.heap, hm.lim, hm.notMeta, hm.top, hm.noFun, hm.plocals⟩ rfl rfl ?_ ?_
                  (compile_imm s _ w "^hex" rest idx hm.noFun (by rw [hm.dict]; exact hl) (by decide) (by simp [immediate]))
                · intro x hx; simp at hx; rcases hx with rfl | rfl
                  · rfl
                  · simpa [Simple, opSimple] using loadValueOp_simple (.int 16)
                · simp [emitNative, CState.emit, fragL, codeS, compileS]
                · simp [emitNative, CState.emit, fragL, codeS, compileS]
              · -- ^dec
                refine step rest (idx + 1) p [.op idx (.native "<fmt-base>"), .op idx (Compile.loadValueOp (.int 10))]
                  (emitNative (({ s with lastTok := idx } : CState).emit (Compile.loadValueOp (.int 10))) "<fmt-base>")
                  ?_ h rfl hnb.tail ⟨hm.dict, hm.heap, hm.lim, hm.notMeta, hm.top, hm.noFun, hm.plocals⟩ rfl rfl ?_ ?_
                  (compile_imm s _ w "^dec" rest idx hm.noFun (by rw [hm.dict]; exact hl) (by decide) (by simp [immediate]))
                · intro x hx; simp at hx; rcases hx with rfl | rfl
                  · rfl
                  · simpa [Simple, opSimple] using loadValueOp_simple (.int 10)
                · simp [emitNative, CState.emit, fragL, codeS, compileS]
                · simp [emitNative, CState.emit, fragL, codeS, compileS]
              · -- ^oct
                refine step rest (idx + 1) p [.op idx (.native "<fmt-base>"), .op idx (Compile.loadValueOp (.int 8))]
                  (emitNative (({ s with lastTok := idx } : CState).emit (Compile.loadValueOp (.int 8))) "<fmt-base>")
                  ?_ h rfl hnb.tail ⟨hm.dict, hm.heap, hm.lim, hm.notMeta, hm.top, hm.noFun, hm.plocals⟩ rfl rfl ?_ ?_
                  (compile_imm s _ w "^oct" rest idx hm.noFun (by rw [hm.dict]; exact hl) (by decide) (by simp [immediate]))
                · intro x hx; simp at hx; rcases hx with rfl | rfl
                  · rfl
                  · simpa [Simple, opSimple] using loadValueOp_simple (.int 8)
                · simp [emitNative, CState.emit, fragL, codeS, compileS]
                · simp [emitNative, CState.emit, fragL, codeS, compileS]
              · -- ^bin
                refine step rest (idx + 1) p [.op idx (.native "<fmt-base>"), .op idx (Compile.loadValueOp (.int 2))]
                  (emitNative (({ s with lastTok := idx } : CState).emit (Compile.loadValueOp (.int 2))) "<fmt-base>")
                  ?_ h rfl hnb.tail ⟨hm.dict, hm.heap, hm.lim, hm.notMeta, hm.top, hm.noFun, hm.plocals⟩ rfl rfl ?_ ?_
                  (compile_imm s _ w "^bin" rest idx hm.noFun (by rw [hm.dict]; exact hl) (by decide) (by simp [immediate]))
                · intro x hx; simp at hx; rcases hx with rfl | rfl
                  · rfl
                  · simpa [Simple, opSimple] using loadValueOp_simple (.int 2)
                · simp [emitNative, CState.emit, fragL, codeS, compileS]
                · simp [emitNative, CState.emit, fragL, codeS, compileS]
              · -- fmt/prefix
                refine simpleOp rest (idx + 1) idx (.native "<fmt-prefix>") rfl h hnb.tail ?_
                exact compile_imm s _ w "fmt/prefix" rest idx hm.noFun (by rw [hm.dict]; exact hl) (by decide) (by simp [immediate, emitNative])
              · -- fmt/tags
                refine simpleOp rest (idx + 1) idx (.native "<fmt-tags>") rfl h hnb.tail ?_
                exact compile_imm s _ w "fmt/tags" rest idx hm.noFun (by rw [hm.dict]; exact hl) (by decide) (by simp [immediate, emitNative])
              · -- fmt/upcase
                refine simpleOp rest (idx + 1) idx (.native "<fmt-upcase>") rfl h hnb.tail ?_
                exact compile_imm s _ w "fmt/upcase" rest idx hm.noFun (by rw [hm.dict]; exact hl) (by decide) (by simp [immediate, emitNative])
              · exact absurd rfl hbad.2.2.2.1
              · exact absurd rfl hbad.2.2.2.2
              · -- var name
                rcases rest with _ | ⟨tk, rest'⟩
                · simp at h
                rcases tk with c | name
                · simp at h
                simp only at h
                split at h
                · rename_i htop
                  have hfl := hm.top htop
                  have hw : withName ({ s with lastTok := idx + 1 } : CState) "var" name =
                      .ok ((({ s with lastTok := idx + 1, heapLen := s.heapLen + 1, dict := (name, Entry.var s.heapLen) :: s.dict } : CState)).emit (.store s.heapLen)) := by
                    simp [withName, buildGlobal, hfl.1, hfl.2, hm.notMeta, hm.lim]
                  have hct := compile_named s _ w "var" name rest' idx hm.noFun (by rw [hm.dict]; exact hl) (by decide) (by decide) hw
                  refine step rest' (idx + 2) { p with dict := (name, Entry.var p.heapLen) :: p.dict, heapLen := p.heapLen + 1 }
                    [.op (idx + 1) (.store p.heapLen)]
                    ((({ s with lastTok := idx + 1, heapLen := s.heapLen + 1, dict := (name, Entry.var s.heapLen) :: s.dict } : CState)).emit (.store s.heapLen))
                    ?_ h rfl (hnb.tail.tail.var name _) ?_ rfl rfl ?_ ?_ hct
                  · intro x hx; simp at hx; subst hx; rfl
                  · exact ⟨by show (name, Entry.var s.heapLen) :: s.dict = _; rw [hm.dict, hm.heap],
                      by show s.heapLen + 1 = _; rw [hm.heap], hm.lim, hm.notMeta, hm.top, hm.noFun, hm.plocals⟩
                  · simp [CState.emit, fragL, codeS, compileS, hm.heap]
                  · simp [CState.emit, fragL, codeS, compileS]
                · simp at h
              · -- ! name
                rcases rest with _ | ⟨tk, rest'⟩
                · simp at h
                rcases tk with c | name
                · simp at h
                simp only at h
                split at h
                · rename_i a hla
                  have hw : withName ({ s with lastTok := idx + 1 } : CState) "!" name =
                      .ok (({ s with lastTok := idx + 1 } : CState).emit (.store a)) := by
                    simp [withName, hm.dict, hla]
                  have hct := compile_named s _ w "!" name rest' idx hm.noFun (by rw [hm.dict]; exact hl) (by decide) (by decide) hw
                  exact simpleOp rest' (idx + 2) (idx + 1) (.store a) rfl h hnb.tail.tail hct
                · simp at h
              · -- defined name
                rcases rest with _ | ⟨tk, rest'⟩
                · simp at h
                rcases tk with c | name
                · simp at h
                simp only at h
                have hw : withName ({ s with lastTok := idx + 1 } : CState) "defined" name =
                    .ok (({ s with lastTok := idx + 1 } : CState).emit (Compile.loadValueOp (.flag (p.dict.lookup name).isSome))) := by
                  simp [withName, hm.dict]
                have hct := compile_named s _ w "defined" name rest' idx hm.noFun (by rw [hm.dict]; exact hl) (by decide) (by decide) hw
                exact simpleOp rest' (idx + 2) (idx + 1) _ (loadValueOp_simple _) h hnb.tail.tail hct
              · simp at h

/-- **link 2, stage A.** For every token list that `parseS` accepts and that uses none of `break`, `case`/`of`,
    `:` and `local`: the flow-stack compiler, started on a state that matches the parser's (same dictionary and heap
    size, nothing pending, no heap limit, outside a meta block), succeeds and appends exactly the code and the debug
    map of `compileS (parseS toks)`. -/
theorem flow_compiler_agrees (toks : List Tok) (ps ps' : PState) (st : Stmt) (s0 : CState)
    (hp : parseS toks ps = some (st, ps')) (hnb : NoBad ps.dict toks) (hm : Match ps true s0)
    (hpc : s0.code.length = ps.pc) :
    ∃ s, compileToks toks 0 s0 = .ok s ∧
      s.code = s0.code ++ (compileS st .none none).map (·.1) ∧
      s.dmap = s0.dmap ++ (compileS st .none none).map (·.2) ∧
      s.dict = ps'.dict ∧ s.heapLen = ps'.heapLen ∧ s.flows = [] := by
  unfold parseS at hp
  cases hb : parseBlock (2 * toks.length + 2) toks 0 ps true [] with
  | none => rw [hb] at hp; simp at hp
  | some blk =>
    rw [hb] at hp
    obtain ⟨stmt, tm, ti, rest, nx, st'⟩ := blk
    have r := block_sim _ toks 0 ps true [] _ hb (by intro x hx; cases hx) hnb s0 s0.code s0.dmap hm hpc
      (by simp [fragL]) (by simp [fragL])
    unfold BlockOK at r
    obtain ⟨_, _, _, s', m', fl, _, c', d', tm'⟩ := r
    dsimp only at m' c' d' tm' hp
    cases tm with
    | eof =>
      simp only at hp tm'
      split at hp
      · simp only [Option.some.injEq, Prod.mk.injEq] at hp
        obtain ⟨rfl, rfl⟩ := hp
        have hfl : s'.flows = [] := by rw [fl]; exact (hm.top rfl).1
        refine ⟨s', ?_, c', d', m'.dict, m'.heap, hfl⟩
        rw [tm'.2]
        simp [compileToks, hfl]
      · simp at hp
    | _ => simp at hp

end Xeh.Structured
