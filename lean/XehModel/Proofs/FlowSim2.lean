/-
C01, link 2, general case — part 3: the block lemma (pending jumps on the flow stack, definitions, locals).
-/
import XehModel.Proofs.FlowPops
import XehModel.Proofs.ParseAcc

namespace Xeh.Structured
open Xeh Xeh.Mach Xeh.Compile Xeh.Compile.CState

/-! ### well-formedness of the parts -/

theorem wfs_seqs : ∀ (l : List Stmt) (k r : Bool), WFS (seqs l) k r = true ↔ ∀ x ∈ l, WFS x k r = true
  | [], k, r => by simp [seqs, WFS]
  | [x], k, r => by simp [seqs]
  | x :: y :: t, k, r => by
    have ih := wfs_seqs (y :: t) k r
    simp only [seqs, WFS, Bool.and_eq_true, ih]
    constructor
    · rintro ⟨h1, h2⟩ z hz
      rcases List.mem_cons.mp hz with rfl | hz
      · exact h1
      · exact h2 z hz
    · intro h; exact ⟨h x (by simp), fun z hz => h z (by simp [hz])⟩

/-- every statement already in the accumulator is a well-formed part of the final block -/
theorem wfs_of_acc {S : Stmt} {acc : List Stmt} {k r : Bool} (h : AccExt S acc) (hw : WFS S k r = true) :
    ∀ x ∈ acc, WFS x k r = true := by
  obtain ⟨more, rfl⟩ := h
  intro x hx
  exact (wfs_seqs _ k r).mp hw x (by simp [hx])

theorem wfs_noarm : ∀ (st : Stmt) (k : Bool) (pc : Nat), WFS st k false = true → armOf st pc = [] := by
  intro st
  induction st with
  | seq a b iha ihb =>
    intro k pc h; simp only [WFS, Bool.and_eq_true] at h
    simp [armOf, iha k _ h.1, ihb k _ h.2]
  | ifThen t a ih => intro k pc h; simp only [WFS] at h; exact ih k _ h
  | ifElse t te a b iha ihb =>
    intro k pc h; simp only [WFS, Bool.and_eq_true] at h
    simp [armOf, iha k _ h.1, ihb k _ h.2]
  | arm tOf tEndof body ih => intro k pc h; simp [WFS] at h
  | _ => intro k pc _; rfl

theorem wfs_nobrk : ∀ (st : Stmt) (r : Bool) (pc : Nat), WFS st false r = true → brkOf st pc = [] := by
  intro st
  induction st with
  | seq a b iha ihb =>
    intro r pc h; simp only [WFS, Bool.and_eq_true] at h
    simp [brkOf, iha r _ h.1, ihb r _ h.2]
  | ifThen t a ih => intro r pc h; simp only [WFS] at h; exact ih false _ h
  | ifElse t te a b iha ihb =>
    intro r pc h; simp only [WFS, Bool.and_eq_true] at h
    simp [brkOf, iha false _ h.1, ihb false _ h.2]
  | brk t => intro r pc h; simp [WFS] at h
  | caseS a ih => intro r pc h; simp only [WFS] at h; exact ih true _ h
  | arm tOf tEndof body ih => intro r pc h; simp only [WFS, Bool.and_eq_true] at h; exact ih false _ h.2
  | _ => intro r pc _; rfl

theorem freeBrk_nobrk : ∀ (st : Stmt) (pc : Nat), freeBrk st = false → brkOf st pc = [] := by
  intro st
  induction st with
  | seq a b iha ihb => intro pc h; simp only [freeBrk, Bool.or_eq_false_iff] at h; simp [brkOf, iha _ h.1, ihb _ h.2]
  | ifThen t a ih => intro pc h; exact ih _ h
  | ifElse t te a b iha ihb => intro pc h; simp only [freeBrk, Bool.or_eq_false_iff] at h; simp [brkOf, iha _ h.1, ihb _ h.2]
  | brk t => intro pc h; simp [freeBrk] at h
  | caseS a ih => intro pc h; exact ih _ h
  | arm tOf tEndof body ih => intro pc h; exact ih _ h
  | _ => intro pc _; rfl

/-! ### blocks: appending statements -/

theorem pendL_append : ∀ (l l' : List Stmt) (pc : Nat), pendL (l ++ l') pc = pendL l' (pc + sizeL l) ++ pendL l pc
  | [], l', pc => by simp [pendL, sizeL]
  | y :: r, l', pc => by
    simp only [List.cons_append, pendL, pendL_append r l' (pc + size y), sizeL, List.map_cons, List.sum_cons, List.append_assoc]
    congr 2; omega

theorem sizeL_append (l l' : List Stmt) : sizeL (l ++ l') = sizeL l + sizeL l' := by simp [sizeL]

theorem holedL_append : ∀ (l l' : List Stmt) (pc : Nat) (X : List Op) (D : List Nat) (X' : List Op) (D' : List Nat),
    HoledL l pc X D → HoledL l' (pc + sizeL l) X' D' → HoledL (l ++ l') pc (X ++ X') (D ++ D')
  | [], l', pc, X, D, X', D', h, h' => by
    obtain ⟨rfl, rfl⟩ := h
    simpa [sizeL] using h'
  | y :: r, l', pc, X, D, X', D', h, h' => by
    obtain ⟨Xy, Dy, Xr, Dr, rfl, rfl, hy, hr⟩ := h
    have := holedL_append r l' (pc + size y) Xr Dr X' D' hr (by
      have : pc + size y + sizeL r = pc + sizeL (y :: r) := by simp [sizeL]; omega
      rw [this]; exact h')
    exact ⟨Xy, Dy, Xr ++ X', Dr ++ D', by simp, by simp, hy, this⟩

theorem holedL_one {x : Stmt} {pc : Nat} {X : List Op} {D : List Nat} (h : Holed x pc X D) : HoledL [x] pc X D :=
  ⟨X, D, [], [], by simp, by simp, h, rfl, rfl⟩

theorem sizeL_reverse (l : List Stmt) : sizeL l.reverse = sizeL l := by simp [sizeL, List.sum_reverse]

theorem accSize_eq (acc : List Stmt) : accSize acc = sizeL acc.reverse := by rw [sizeL_reverse]; rfl

/-! ### loops on the flow stack -/

theorem hasLoops_append (a b : List Flow) : hasLoops (a ++ b) = (hasLoops a || hasLoops b) := by
  simp [hasLoops, List.any_append]

theorem hasLoops_pendOf (st : Stmt) (pc : Nat) : hasLoops (pendOf st pc) = false := by
  unfold hasLoops
  rw [List.any_eq_false]
  intro fl hfl
  rcases pendOf_kinds st pc fl hfl with ⟨p, rfl⟩ | ⟨q, rfl⟩ <;> simp

theorem hasLoops_pendL : ∀ (l : List Stmt) (pc : Nat), hasLoops (pendL l pc) = false
  | [], _ => rfl
  | x :: r, pc => by simp [pendL, hasLoops_append, hasLoops_pendL r, hasLoops_pendOf]

theorem topFun_append_pend (P F : List Flow) (h : ∀ fl ∈ P, (∃ p, fl = .breakF p) ∨ (∃ q, fl = .caseEndOfF q)) :
    topFun (P ++ F) = topFun F := by
  induction P with
  | nil => rfl
  | cons x r ih =>
    rcases h x (by simp) with ⟨p, rfl⟩ | ⟨q, rfl⟩ <;>
    · simp only [List.cons_append, topFun]; exact ih (fun fl hfl => h fl (by simp [hfl]))

theorem pendL_kinds : ∀ (l : List Stmt) (pc : Nat), ∀ fl ∈ pendL l pc, (∃ p, fl = .breakF p) ∨ (∃ q, fl = .caseEndOfF q)
  | [], _, fl, h => by simp [pendL] at h
  | x :: r, pc, fl, h => by
    simp only [pendL, List.mem_append] at h
    rcases h with h | h
    · exact pendL_kinds r _ fl h
    · exact pendOf_kinds x pc fl h

/-! ### the locals of the open definition live inside the flow stack -/

theorem hasLoops_cons (f : Flow) (fl : List Flow) :
    hasLoops (f :: fl) = ((match f with | .beginF _ | .whileF _ | .doF _ _ => true | _ => false) || hasLoops fl) := by
  cases f <;> simp [hasLoops]


/-- replace the locals of the innermost open definition -/
def setLoc (ls : List String) : List Flow → List Flow
  | [] => []
  | .funF ff :: rest => .funF { ff with locals := ls } :: rest
  | f :: rest => f :: setLoc ls rest

/-- the flow stack `F` after the block has declared the locals `ls` (no definition open: nothing to replace) -/
def wl (ls : Option (List String)) (F : List Flow) : List Flow := setLoc (ls.getD []) F

theorem setLoc_cons (ls : List String) (f : Flow) (F : List Flow) (hf : ∀ ff, f ≠ .funF ff) :
    setLoc ls (f :: F) = f :: setLoc ls F := by
  cases f <;> simp [setLoc] at hf ⊢

theorem wl_cons (ls : Option (List String)) (f : Flow) (F : List Flow) (hf : ∀ ff, f ≠ .funF ff) :
    wl ls (f :: F) = f :: wl ls F := setLoc_cons _ f F hf

theorem setLoc_pend (ls : List String) (P F : List Flow)
    (h : ∀ fl ∈ P, (∃ p, fl = .breakF p) ∨ (∃ q, fl = .caseEndOfF q)) : setLoc ls (P ++ F) = P ++ setLoc ls F := by
  induction P with
  | nil => rfl
  | cons x r ih =>
    rcases h x (by simp) with ⟨p, rfl⟩ | ⟨q, rfl⟩ <;>
    · simp only [List.cons_append, setLoc]; rw [ih (fun fl hfl => h fl (by simp [hfl]))]

theorem wl_pend (ls : Option (List String)) (P F : List Flow)
    (h : ∀ fl ∈ P, (∃ p, fl = .breakF p) ∨ (∃ q, fl = .caseEndOfF q)) : wl ls (P ++ F) = P ++ wl ls F := setLoc_pend _ P F h

theorem wl_brks (ls : Option (List String)) (bs : List Nat) (F : List Flow) : wl ls (bs.map .breakF ++ F) = bs.map .breakF ++ wl ls F :=
  wl_pend ls _ F (fun fl hfl => by simp at hfl; obtain ⟨x, _, rfl⟩ := hfl; exact Or.inl ⟨x, rfl⟩)

theorem setLoc_setLoc (l1 l2 : List String) : ∀ F : List Flow, setLoc l2 (setLoc l1 F) = setLoc l2 F
  | [] => rfl
  | f :: rest => by
    cases f <;> simp [setLoc, setLoc_setLoc l1 l2 rest]

theorem wl_wl (l1 l2 : Option (List String)) (F : List Flow) : wl l2 (wl l1 F) = wl l2 F := setLoc_setLoc _ _ F

theorem topFun_setLoc (ls : List String) : ∀ F : List Flow, topFun (setLoc ls F) = (topFun F).map fun ff => { ff with locals := ls }
  | [] => rfl
  | f :: rest => by cases f <;> simp [setLoc, topFun, topFun_setLoc ls rest]

theorem setLoc_none (ls : List String) : ∀ F : List Flow, topFun F = none → setLoc ls F = F
  | [], _ => rfl
  | f :: rest, h => by
    cases f <;> simp [setLoc, topFun] at h ⊢ <;> exact setLoc_none ls rest h

theorem setLoc_self : ∀ (F : List Flow) (ff : FunFlow), topFun F = some ff → setLoc ff.locals F = F
  | [], _, h => by simp [topFun] at h
  | f :: rest, ff, h => by
    cases f <;> simp [setLoc, topFun] at h ⊢
    all_goals first
      | exact setLoc_self rest ff h
      | (subst h; rfl)

/-- the parser's locals are the locals of the innermost open definition -/
def LocOK (ls : Option (List String)) (F : List Flow) : Prop := ls = (topFun F).map (·.locals)

theorem LocOK.wl_self {ls : Option (List String)} {F : List Flow} (h : LocOK ls F) : wl ls F = F := by
  unfold LocOK at h; unfold wl
  cases hf : topFun F with
  | none => exact setLoc_none _ F hf
  | some ff => rw [hf] at h; subst h; exact setLoc_self F ff hf

theorem LocOK.wl {ls ls' : Option (List String)} {F : List Flow} (h : LocOK ls F) (hs : ls'.isSome = ls.isSome) : LocOK ls' (wl ls' F) := by
  unfold LocOK at h ⊢; unfold Structured.wl
  rw [topFun_setLoc]
  cases hf : topFun F with
  | none => rw [hf] at h; subst h; cases ls' <;> simp at hs ⊢
  | some ff => rw [hf] at h; subst h; cases ls' <;> simp at hs ⊢

theorem LocOK.cons {ls : Option (List String)} {F : List Flow} (h : LocOK ls F) (f : Flow) (hf : ∀ ff, f ≠ .funF ff) : LocOK ls (f :: F) := by
  unfold LocOK at h ⊢; rw [topFun_cons f F hf]; exact h

theorem LocOK.pend {ls : Option (List String)} {F : List Flow} (h : LocOK ls F) (P : List Flow)
    (hp : ∀ fl ∈ P, (∃ p, fl = .breakF p) ∨ (∃ q, fl = .caseEndOfF q)) : LocOK ls (P ++ F) := by
  unfold LocOK at h ⊢; rw [topFun_append_pend P F hp]; exact h

theorem LocOK.bind {ls : Option (List String)} {F : List Flow} (h : LocOK ls F) (w : String) :
    ((topFun F).bind fun ff => rposition w ff.locals) = ls.bind fun l => rposition w l := by
  unfold LocOK at h; subst h; cases topFun F <;> rfl

theorem hasLoops_setLoc (ls : List String) : ∀ F : List Flow, hasLoops (setLoc ls F) = hasLoops F
  | [] => rfl
  | f :: rest => by
    cases f <;> simp only [setLoc, hasLoops_cons, hasLoops_setLoc ls rest]

theorem hasLoops_wl (ls : Option (List String)) (F : List Flow) : hasLoops (wl ls F) = hasLoops F := hasLoops_setLoc _ F

/-! ### the relation between the parser's state and the compiler's state, and the block lemma -/

/-- (nothing is excluded any more; the name is kept so that the block lemma reads as before) -/
def NoBad2 (_dict : List (String × Entry)) (_toks : List Tok) : Prop := True

theorem NoBad2.nil (dict : List (String × Entry)) : NoBad2 dict [] := trivial
theorem NoBad2.tail {dict : List (String × Entry)} {t : Tok} {toks : List Tok} (_h : NoBad2 dict (t :: toks)) : NoBad2 dict toks := trivial
theorem NoBad2.var {dict : List (String × Entry)} {toks : List Tok} (_h : NoBad2 dict toks) (name : String) (a : Nat) :
    NoBad2 ((name, .var a) :: dict) toks := trivial

theorem setTopFun_eq : ∀ (fl : List Flow) (ff : FunFlow) (l : List String), topFun fl = some ff →
    setTopFun { ff with locals := l } fl = setLoc l fl
  | [], _, _, h => by simp [topFun] at h
  | f :: rest, ff, l, h => by
    cases f <;> simp [setTopFun, setLoc, topFun] at h ⊢
    all_goals first
      | exact setTopFun_eq rest ff l h
      | (subst h; rfl)

/-- `;` closing a definition whose body left nothing pending -/
theorem close_semi (s : CState) (base body : List Op) (ff : FunFlow) (fl : List Flow)
    (hc : s.code = base ++ Op.jump 0 :: body) (hf : s.flows = .funF ff :: fl) (hst : ff.start = base.length) :
    immediate s ";" = .ok { s with flows := fl, code := base ++ Op.jump ((body.length + 2 : Nat) : Int) :: (body ++ [Op.ret]), dmap := s.dmap ++ [s.lastTok] } := by
  simp only [immediate, CState.popFlow, hf, CState.emit]
  unfold backpatchJump
  have h1 : (base ++ Op.jump 0 :: body ++ [Op.ret])[ff.start]? = some (Op.jump 0) := by
    rw [hst, List.append_assoc]; simp
  simp only [hc, h1]
  have h2 : (base ++ Op.jump 0 :: body ++ [Op.ret]).set ff.start (Op.jump (fromTo ff.start
      ({ s with flows := fl, code := base ++ Op.jump 0 :: body ++ [Op.ret], dmap := s.dmap ++ [s.lastTok] } : CState).origin)) =
      base ++ Op.jump ((body.length + 2 : Nat) : Int) :: (body ++ [Op.ret]) := by
    have : ({ s with flows := fl, code := base ++ Op.jump 0 :: body ++ [Op.ret], dmap := s.dmap ++ [s.lastTok] } : CState).origin = base.length + (body.length + 2) := by
      simp [CState.origin] <;> omega
    rw [this, hst, fromTo_fwd, List.append_assoc]
    simp
  simp only [h2]

structure Match2 (p : PState) (s : CState) : Prop where
  dict : s.dict = p.dict
  heap : s.heapLen = p.heapLen
  lim : s.heapLimit = none
  notMeta : s.inMeta = false

theorem Match2.pc {p : PState} {s : CState} (h : Match2 p s) (pc : Nat) : Match2 { p with pc := pc } s :=
  ⟨h.dict, h.heap, h.lim, h.notMeta⟩

theorem Match2.same {p : PState} {s s' : CState} (h : Match2 p s) (hd : s'.dict = s.dict) (hh : s'.heapLen = s.heapLen)
    (hl : s'.heapLimit = s.heapLimit) (hi : s'.inMeta = s.inMeta) : Match2 p s' :=
  ⟨hd.trans h.dict, hh.trans h.heap, hl.trans h.lim, hi.trans h.notMeta⟩

theorem Match2.move {p : PState} {s : CState} (h : Match2 p s) (pc : Nat) (s' : CState) (hd : s'.dict = s.dict)
    (hh : s'.heapLen = s.heapLen) (hl : s'.heapLimit = s.heapLimit) (hi : s'.inMeta = s.inMeta) :
    Match2 { p with pc := pc } s' :=
  ⟨hd.trans h.dict, hh.trans h.heap, hl.trans h.lim, hi.trans h.notMeta⟩

/-- the conclusion of the block lemma: `F` is the flow stack the block was opened on -/
def BlockOK2 (toks : List Tok) (idx : Nat) (p : PState) (blk : Block) (s : CState)
    (pre : List Op) (dpre : List Nat) (F : List Flow) : Prop :=
  blk.st.pc = p.pc ∧ NoBad2 blk.st.dict blk.rest ∧ blk.st.locals.isSome = p.locals.isSome ∧
  ∃ s' X D, Match2 blk.st s' ∧ s'.flows = pendOf blk.stmt p.pc ++ wl blk.st.locals F ∧ s'.hiddenFlows = s.hiddenFlows ∧
    s'.code = pre ++ X ∧ s'.dmap = dpre ++ D ∧ Holed blk.stmt p.pc X D ∧
    (match blk.term with
     | .eof => blk.rest = [] ∧ compileToks toks idx s = compileToks [] blk.termIdx s'
     | t => ∃ w n, s'.dict.lookup w = some (.native true n) ∧ termOf n = some t ∧ blk.next = blk.termIdx + 1 ∧
            (blk.st.locals.bind fun l => rposition w l) = none ∧
            compileToks toks idx s = compileToks (.word w :: blk.rest) blk.termIdx s')

theorem armPos_eq : (fun fl : Flow => match fl with | .caseEndOfF q => some q | _ => none) = armPos := by
  funext fl; cases fl <;> rfl

theorem isBrkF_eq : (fun fl : Flow => match fl with | .breakF _ => true | _ => false) = isBrkF := by
  funext fl; cases fl <;> rfl

theorem pendOf_arms' (st : Stmt) (pc : Nat) : (pendOf st pc).filterMap armPos = armOf st pc := by
  rw [← armPos_eq]; exact pendOf_arms st pc

theorem pendOf_filter' (st : Stmt) (pc : Nat) : (pendOf st pc).filter isBrkF = (brkOf st pc).map .breakF := by
  rw [← isBrkF_eq]; exact pendOf_filter st pc

theorem wfs_freeArm_noarm : ∀ (st : Stmt) (k r : Bool) (pc : Nat), WFS st k r = true → freeArm st = false → armOf st pc = [] := by
  intro st
  induction st with
  | seq a b iha ihb =>
    intro k r pc h hf
    simp only [WFS, Bool.and_eq_true] at h
    simp only [freeArm, Bool.or_eq_false_iff] at hf
    simp [armOf, iha k r _ h.1 hf.1, ihb k r _ h.2 hf.2]
  | ifThen t a ih => intro k r pc h _; simp only [WFS] at h; exact wfs_noarm a k _ h
  | ifElse t te a b iha ihb =>
    intro k r pc h _; simp only [WFS, Bool.and_eq_true] at h
    simp [armOf, wfs_noarm a k _ h.1, wfs_noarm b k _ h.2]
  | arm tOf tEndof body ih => intro k r pc _ hf; simp [freeArm] at hf
  | _ => intro k r pc _ _; rfl

theorem pendL_nil_of_wfs : ∀ (l : List Stmt) (pc : Nat), (∀ x ∈ l, WFS x false false = true) → pendL l pc = []
  | [], _, _ => rfl
  | x :: r, pc, h => by
    have hx := h x (by simp)
    simp only [pendL, pendL_nil_of_wfs r _ (fun y hy => h y (by simp [hy])), List.nil_append]
    rw [pendOf_brk x pc (wfs_noarm x false pc hx), wfs_nobrk x false pc hx]; rfl

theorem compile_imm' (s s' : CState) (w n : String) (rest : List Tok) (idx : Nat)
    (hf : ((topFun s.flows).bind fun ff => rposition w ff.locals) = none) (hl : s.dict.lookup w = some (.native true n))
    (ht : takesName n = false) (hi : immediate ({ s with lastTok := idx } : CState) n = .ok s') :
    compileToks (.word w :: rest) idx s = compileToks rest (idx + 1) s' := by
  simp only [compileToks, hf, hl, ht, hi]
  simp

theorem compile_named' (s s' : CState) (w n name : String) (rest' : List Tok) (idx : Nat)
    (hf : ((topFun s.flows).bind fun ff => rposition w ff.locals) = none) (hl : s.dict.lookup w = some (.native true n))
    (ht : takesName n = true) (hn : (n == "late") = false)
    (hi : withName ({ s with lastTok := idx + 1 } : CState) n name = .ok s') :
    compileToks (.word w :: .word name :: rest') idx s = compileToks rest' (idx + 2) s' := by
  simp only [compileToks, hf, hl, ht, hn, hi]
  simp

theorem loc_after {ls ls' : Option (List String)} {F P : List Flow} (h : LocOK ls F) (hs : ls'.isSome = ls.isSome)
    (hp : ∀ fl ∈ P, (∃ p, fl = .breakF p) ∨ (∃ q, fl = .caseEndOfF q)) (w : String)
    (hlw : (ls'.bind fun l => rposition w l) = none) :
    ((topFun (P ++ wl ls' F)).bind fun ff => rposition w ff.locals) = none :=
  (((h.wl hs).pend P hp).bind w).trans hlw

theorem block_sim2 : ∀ (f : Nat) (toks : List Tok) (idx : Nat) (p : PState) (top : Bool) (acc : List Stmt) (blk : Block)
    (k r : Bool),
    parseBlock f toks idx p top acc = some blk → WFS blk.stmt k r = true → NoBad2 p.dict toks →
    (top = true → k = false ∧ r = false) →
    ∀ (s : CState) (pre : List Op) (dpre : List Nat) (X0 : List Op) (D0 : List Nat) (F : List Flow),
      Match2 p s → LocOK p.locals F → (top = true → F = [] ∧ s.hiddenFlows = 0) → (k = true → hasLoops F = true) →
      pre.length = p.pc → s.code = pre ++ X0 → s.dmap = dpre ++ D0 → HoledL acc.reverse p.pc X0 D0 →
      s.flows = pendL acc.reverse p.pc ++ F →
      BlockOK2 toks idx p blk s pre dpre F := by
  intro f
  induction f with
  | zero => intro toks idx p top acc blk k r h; simp [parseBlock] at h
  | succ f ih =>
    intro toks idx p top acc blk k r h hw hnb htk s pre dpre X0 D0 F hm hnf htop hk hpre hc hd hH hfl
    have hlen : s.code.length = p.pc + sizeL acc.reverse := by
      rw [hc, List.length_append, (holedL_len _ _ _ _ hH).1, hpre]
    have hdlen : D0.length = sizeL acc.reverse := (holedL_len _ _ _ _ hH).2
    have hacc := parse_acc _ _ _ _ _ _ _ h
    have haccw := wfs_of_acc hacc hw
    have hlocs : LocOK p.locals s.flows := by rw [hfl]; exact hnf.pend _ (pendL_kinds _ _)
    have hwls : wl p.locals s.flows = s.flows := hlocs.wl_self
    -- some statements (newest first) have been compiled: the rest of the block
    have step : ∀ (rest : List Tok) (next : Nat) (p' : PState) (xs : List Stmt) (s1 : CState) (Xx : List Op) (Dx : List Nat),
        parseBlock f rest next p' top (xs ++ acc) = some blk → p'.pc = p.pc →
        NoBad2 p'.dict rest → Match2 p' s1 → s1.hiddenFlows = s.hiddenFlows → p'.locals.isSome = p.locals.isSome →
        HoledL xs.reverse (p.pc + sizeL acc.reverse) Xx Dx →
        s1.flows = pendL xs.reverse (p.pc + sizeL acc.reverse) ++ wl p'.locals s.flows →
        s1.code = s.code ++ Xx → s1.dmap = s.dmap ++ Dx →
        compileToks toks idx s = compileToks rest next s1 → BlockOK2 toks idx p blk s pre dpre F := by
      intro rest next p' xs s1 Xx Dx hp hpc hnb' hm1 hh1 his hHx hf1 hc1 hd1 hct
      have hwlF : wl p'.locals s.flows = pendL acc.reverse p.pc ++ wl p'.locals F := by
        rw [hfl]; exact wl_pend _ _ _ (pendL_kinds _ _)
      have htF : top = true → wl p'.locals F = [] := fun ht => by rw [(htop ht).1]; rfl
      have r := ih rest next p' top (xs ++ acc) blk k r hp hw hnb' htk s1 pre dpre (X0 ++ Xx) (D0 ++ Dx) (wl p'.locals F) hm1
        (hnf.wl his)
        (fun ht => ⟨htF ht, hh1.trans (htop ht).2⟩) (fun hkt => by rw [hasLoops_wl]; exact hk hkt) (hpc ▸ hpre)
        (by rw [hc1, hc, List.append_assoc]) (by rw [hd1, hd, List.append_assoc])
        (by rw [List.reverse_append, hpc]; exact holedL_append _ _ _ _ _ _ _ hH hHx)
        (by rw [List.reverse_append, pendL_append, hpc, hf1, hwlF, List.append_assoc])
      unfold BlockOK2 at r ⊢
      obtain ⟨r2, r3, r4, s', X, D, m', fl, hf, c', d', hol, tm⟩ := r
      refine ⟨r2.trans hpc, r3, r4.trans his, s', X, D, m', by rw [fl, hpc, wl_wl], hf.trans hh1, c', d', by rw [← hpc]; exact hol, ?_⟩
      revert tm
      cases blk.term <;> simp only <;> intro tm
      all_goals first
        | exact ⟨tm.1, hct.trans tm.2⟩
        | (obtain ⟨w, n, h1, h2, h3, h3', h4⟩ := tm; exact ⟨w, n, h1, h2, h3, h3', hct.trans h4⟩)
    -- one simple opcode, then the rest of the block
    have simpleOp : ∀ (rest : List Tok) (next : Nat) (t : Nat) (o : Op),
        parseBlock f rest next p top (.op t o :: acc) = some blk → NoBad2 p.dict rest →
        compileToks toks idx s = compileToks rest next (({ s with lastTok := t } : CState).emit o) →
        BlockOK2 toks idx p blk s pre dpre F := by
      intro rest next t o hp hnb' hct
      exact step rest next p [.op t o] (({ s with lastTok := t } : CState).emit o) [o] [t] hp rfl hnb' (hm.same rfl rfl rfl rfl) rfl rfl
        (holedL_one (holed_op t o _)) (by simp [pendL, pendOf, CState.emit, hwls]) (by simp [CState.emit]) (by simp [CState.emit]) hct
    rcases toks with _ | ⟨tk, rest⟩
    · simp only [parseBlock, Option.some.injEq] at h
      subst h
      unfold BlockOK2
      dsimp only
      refine ⟨rfl, NoBad2.nil _, rfl, s, X0, D0, hm, by rw [pend_seqs, hnf.wl_self]; exact hfl, rfl, hc, hd, holedL_seqs _ _ _ _ hH, rfl, rfl⟩
    rcases tk with c | w
    · simp only [parseBlock] at h
      exact simpleOp rest (idx + 1) idx (Compile.loadValueOp c) h hnb.tail (by simp [compileToks])
    · cases hloc : (p.locals.bind fun ls => CState.rposition w ls) with
      | some i =>
        -- a local of the definition being compiled
        simp only [parseBlock, hloc] at h
        refine simpleOp rest (idx + 1) idx (.loadLocal i) h hnb.tail ?_
        have : ((topFun ({ s with lastTok := idx } : CState).flows).bind fun ff => rposition w ff.locals) = some i :=
          (hlocs.bind w).trans hloc
        simp [compileToks, this]
      | none =>
      have hnfs : ((topFun s.flows).bind fun ff => rposition w ff.locals) = none := (hlocs.bind w).trans hloc
      simp only [parseBlock, hloc, accSize_eq] at h
      cases hl : p.dict.lookup w with
      | none => simp [hl] at h
      | some e =>
        rw [hl] at h
        cases e with
        | const c =>
          simp only at h
          refine simpleOp rest (idx + 1) idx (Compile.loadValueOp c) h hnb.tail ?_
          simp [compileToks, hnfs, hm.dict, hl, buildWord]
        | var a =>
          simp only at h
          refine simpleOp rest (idx + 1) idx (.load a) h hnb.tail ?_
          simp [compileToks, hnfs, hm.dict, hl, buildWord]
        | interp imm addr =>
          cases imm with
          | true => simp at h
          | false =>
            simp only at h
            refine step rest (idx + 1) p [.call idx addr (p.pc + sizeL acc.reverse + 1)] (({ s with lastTok := idx } : CState).emit (.call addr))
              [.call addr] [idx] h rfl hnb.tail (hm.same rfl rfl rfl rfl) rfl rfl (holedL_one (holed_call _ _ _ _))
              (by simp [pendL, pendOf, CState.emit, hwls]) (by simp [CState.emit]) (by simp [CState.emit]) ?_
            simp [compileToks, hnfs, hm.dict, hl, buildWord]
        | native imm n =>
          cases imm with
          | false =>
            simp only at h
            refine simpleOp rest (idx + 1) idx (.native n) h hnb.tail ?_
            simp [compileToks, hnfs, hm.dict, hl, buildWord]
          | true =>
            simp only at h
            cases ht : termOf n with
            | some t =>
              rw [ht] at h
              simp only [Option.some.injEq] at h
              subst h
              unfold BlockOK2
              dsimp only
              refine ⟨rfl, hnb.tail, rfl, s, X0, D0, hm, by rw [pend_seqs, hnf.wl_self]; exact hfl, rfl, hc, hd, holedL_seqs _ _ _ _ hH, ?_⟩
              have hex : ∃ w' n', List.lookup w' s.dict = some (Entry.native true n') ∧ termOf n' = some t ∧ idx + 1 = idx + 1 ∧
                  (p.locals.bind fun l => rposition w' l) = none ∧
                  compileToks (.word w :: rest) idx s = compileToks (.word w' :: rest) idx s :=
                ⟨w, n, by rw [hm.dict]; exact hl, ht, rfl, hloc, rfl⟩
              cases t with
              | eof => exfalso; unfold termOf at ht; split at ht <;> simp at ht
              | _ => exact hex
            | none =>
              rw [ht] at h
              simp only at h
              have hls : hasLoops s.flows = hasLoops F := by rw [hfl, hasLoops_append, hasLoops_pendL]; simp
              split at h
              · -- if … then / if … else … then
                have hopen := compile_imm' s _ w "if" rest idx hnfs (by rw [hm.dict]; exact hl) (by decide) (open_if _)
                dsimp only at hopen
                generalize hsA : ({ s with lastTok := idx, flows := Flow.ifF s.code.length :: s.flows, code := s.code ++ [Op.jumpIfNot 0], dmap := s.dmap ++ [idx] } : CState) = sA at hopen
                have fA : sA.flows = Flow.ifF s.code.length :: s.flows := by subst hsA; rfl
                have cA : sA.code = s.code ++ [Op.jumpIfNot 0] := by subst hsA; rfl
                have dA : sA.dmap = s.dmap ++ [idx] := by subst hsA; rfl
                have hidA : sA.hiddenFlows = s.hiddenFlows := by subst hsA; rfl
                have mA : Match2 { p with pc := p.pc + sizeL acc.reverse + 1 } sA := by
                  subst hsA; exact hm.move _ _ rfl rfl rfl rfl
                have lA : sA.code.length = p.pc + sizeL acc.reverse + 1 := by rw [cA]; simp [hlen]
                have nfA : LocOK p.locals (Flow.ifF s.code.length :: s.flows) := hlocs.cons _ (by intro ff h; cases h)
                have hkA : k = true → hasLoops (Flow.ifF s.code.length :: s.flows) = true := fun h => by
                  rw [hasLoops_cons, hls, hk h]; rfl
                cases hsub : parseBlock f rest (idx + 1) { p with pc := p.pc + sizeL acc.reverse + 1 } false [] with
                | none => rw [hsub] at h; simp at h
                | some b1 =>
                  rw [hsub] at h
                  obtain ⟨a, tm, ti, rest2, nx, st2⟩ := b1
                  cases tm with
                  | thenT =>
                    simp only at h
                    have hwc : WFS (.ifThen idx a) k r = true := wfs_of_acc (parse_acc _ _ _ _ _ _ _ h) hw _ (by simp)
                    have hwa : WFS a k false = true := by simpa [WFS] using hwc
                    have hna := wfs_noarm a k (p.pc + sizeL acc.reverse + 1) hwa
                    have r1 := ih rest (idx + 1) _ false [] _ k false hsub hwa hnb.tail (fun h => absurd h (by decide))
                      sA sA.code sA.dmap [] [] (Flow.ifF s.code.length :: s.flows) mA nfA (fun h => absurd h (by decide)) hkA lA
                      (by simp) (by simp) ⟨rfl, rfl⟩ (by simp [pendL, fA])
                    unfold BlockOK2 at r1
                    obtain ⟨pca, nba, is2, s2, Xa, Da, m2, fl2, hh2, c2, d2, hola, tm2⟩ := r1
                    dsimp only at pca nba is2 m2 fl2 c2 d2 hola tm2
                    have fl2r := fl2
                    rw [wl_cons _ _ _ (by intro ff h; cases h)] at fl2
                    obtain ⟨w2, n2, l2, t2, hnx, hlw2, ct2⟩ := tm2
                    have e2 := termOf_inv n2 _ t2
                    simp only [termName] at e2
                    subst e2
                    subst hnx
                    have hcode2 : s2.code = s.code ++ Op.jumpIfNot 0 :: Xa := by rw [c2, cA]; simp
                    have hfl2 : ({ s2 with lastTok := ti } : CState).flows = (brkOf a (p.pc + sizeL acc.reverse + 1)).map .breakF ++ .ifF s.code.length :: (wl st2.locals s.flows) := by
                      show s2.flows = _; rw [fl2, pendOf_brk a _ hna]
                    have hcl := close_then_g ({ s2 with lastTok := ti } : CState) s.code Xa _ (wl st2.locals s.flows) hcode2 hfl2
                    have hnf2 : ((topFun s2.flows).bind fun ff => rposition w2 ff.locals) = none := by rw [fl2r]; exact loc_after nfA is2 (pendOf_kinds _ _) w2 hlw2
                    have hstep2 := compile_imm' s2 _ w2 "then" rest2 ti hnf2 l2 (by decide) hcl
                    refine step rest2 (ti + 1) { st2 with pc := p.pc } [.ifThen idx a]
                      { s2 with lastTok := ti, flows := (brkOf a (p.pc + sizeL acc.reverse + 1)).map .breakF ++ (wl st2.locals s.flows), code := s.code ++ Op.jumpIfNot ((Xa.length + 1 : Nat) : Int) :: Xa }
                      (Op.jumpIfNot ((Xa.length + 1 : Nat) : Int) :: Xa) (idx :: Da) h rfl nba (m2.move _ _ rfl rfl rfl rfl)
                      (hh2.trans hidA) is2 (holedL_one (holed_ifThen idx hola hna)) ?_ rfl ?_ (hopen.trans (ct2.trans hstep2))
                    · simp [pendL, pendOf, pendOf_brk a _ hna]
                    · show s2.dmap = _; rw [d2, dA]; simp
                  | elseT =>
                    simp only at h
                    -- the second branch is parsed before the continuation: split on it first
                    cases hsub2 : parseBlock f rest2 nx { st2 with pc := p.pc + sizeL acc.reverse + 1 + size a + 1 } false [] with
                    | none => rw [hsub2] at h; simp at h
                    | some b2 =>
                      rw [hsub2] at h
                      obtain ⟨b, tmb, tib, rest3, nx3, st3⟩ := b2
                      cases tmb with
                      | thenT =>
                        simp only at h
                        have hwc : WFS (.ifElse idx ti a b) k r = true := wfs_of_acc (parse_acc _ _ _ _ _ _ _ h) hw _ (by simp)
                        have hwab : WFS a k false = true ∧ WFS b k false = true := by simpa [WFS] using hwc
                        have hna := wfs_noarm a k (p.pc + sizeL acc.reverse + 1) hwab.1
                        have hnb' := wfs_noarm b k (p.pc + sizeL acc.reverse + 1 + size a + 1) hwab.2
                        have r1 := ih rest (idx + 1) _ false [] _ k false hsub hwab.1 hnb.tail (fun h => absurd h (by decide))
                          sA sA.code sA.dmap [] [] (Flow.ifF s.code.length :: s.flows) mA nfA (fun h => absurd h (by decide)) hkA lA
                          (by simp) (by simp) ⟨rfl, rfl⟩ (by simp [pendL, fA])
                        unfold BlockOK2 at r1
                        obtain ⟨pca, nba, is2, s2, Xa, Da, m2, fl2, hh2, c2, d2, hola, tm2⟩ := r1
                        dsimp only at pca nba is2 m2 fl2 c2 d2 hola tm2
                        have fl2r := fl2
                        rw [wl_cons _ _ _ (by intro ff h; cases h)] at fl2
                        obtain ⟨w2, n2, l2, t2, hnx, hlw2, ct2⟩ := tm2
                        have e2 := termOf_inv n2 _ t2
                        simp only [termName] at e2
                        subst e2
                        subst hnx
                        have hcode2 : s2.code = s.code ++ Op.jumpIfNot 0 :: Xa := by rw [c2, cA]; simp
                        have hfl2 : ({ s2 with lastTok := ti } : CState).flows = (brkOf a (p.pc + sizeL acc.reverse + 1)).map .breakF ++ .ifF s.code.length :: (wl st2.locals s.flows) := by
                          show s2.flows = _; rw [fl2, pendOf_brk a _ hna]
                        have hcl := close_else_g ({ s2 with lastTok := ti } : CState) s.code Xa _ (wl st2.locals s.flows) hcode2 hfl2
                        have hnf2 : ((topFun s2.flows).bind fun ff => rposition w2 ff.locals) = none := by rw [fl2r]; exact loc_after nfA is2 (pendOf_kinds _ _) w2 hlw2
                        have hstep2 := compile_imm' s2 _ w2 "else" rest2 ti hnf2 l2 (by decide) hcl
                        dsimp only at hstep2
                        generalize hsB : ({ s2 with lastTok := ti, flows := (Flow.elseF (s.code.length + 1 + Xa.length) :: ((brkOf a (p.pc + sizeL acc.reverse + 1)).map .breakF ++ (wl st2.locals s.flows))), code := s.code ++ Op.jumpIfNot ((Xa.length + 2 : Nat) : Int) :: (Xa ++ [Op.jump 0]), dmap := s2.dmap ++ [ti] } : CState) = sB at hstep2
                        have fB : sB.flows = Flow.elseF (s.code.length + 1 + Xa.length) :: ((brkOf a (p.pc + sizeL acc.reverse + 1)).map .breakF ++ (wl st2.locals s.flows)) := by subst hsB; rfl
                        have cB : sB.code = s.code ++ Op.jumpIfNot ((Xa.length + 2 : Nat) : Int) :: (Xa ++ [Op.jump 0]) := by subst hsB; rfl
                        have dB : sB.dmap = s2.dmap ++ [ti] := by subst hsB; rfl
                        have hidB : sB.hiddenFlows = s2.hiddenFlows := by subst hsB; rfl
                        have mB : Match2 { st2 with pc := p.pc + sizeL acc.reverse + 1 + size a + 1 } sB := by
                          subst hsB; exact m2.move _ _ rfl rfl rfl rfl
                        have la := hola.len
                        have lB : sB.code.length = p.pc + sizeL acc.reverse + 1 + size a + 1 := by rw [cB]; simp [hlen, la]; omega
                        have nfB : LocOK st2.locals (Flow.elseF (s.code.length + 1 + Xa.length) :: ((brkOf a (p.pc + sizeL acc.reverse + 1)).map .breakF ++ (wl st2.locals s.flows))) :=
                          ((hlocs.wl is2).pend _ (by intro fl hfl; simp at hfl; obtain ⟨x, _, rfl⟩ := hfl; exact Or.inl ⟨x, rfl⟩)).cons _ (by intro ff h; cases h)
                        have hkB : k = true → hasLoops (Flow.elseF (s.code.length + 1 + Xa.length) :: ((brkOf a (p.pc + sizeL acc.reverse + 1)).map .breakF ++ (wl st2.locals s.flows))) = true := fun h => by
                          rw [hasLoops_cons, hasLoops_append, hasLoops_wl, hls, hk h]; simp
                        have r2 := ih rest2 (ti + 1) _ false [] _ k false hsub2 hwab.2 nba (fun h => absurd h (by decide))
                          sB sB.code sB.dmap [] [] _ mB nfB (fun h => absurd h (by decide)) hkB lB
                          (by simp) (by simp) ⟨rfl, rfl⟩ (by simp [pendL, fB])
                        unfold BlockOK2 at r2
                        obtain ⟨pcb, nbb, is4, s4, Xb, Db, m4, fl4, hh4, c4, d4, holb, tm4⟩ := r2
                        dsimp only at pcb nbb is4 m4 fl4 c4 d4 holb tm4
                        have fl4r := fl4
                        rw [wl_cons _ _ _ (by intro ff h; cases h), wl_brks, wl_wl] at fl4
                        obtain ⟨w4, n4, l4, t4, hnx4, hlw4, ct4⟩ := tm4
                        have e4 := termOf_inv n4 _ t4
                        simp only [termName] at e4
                        subst e4
                        subst hnx4
                        have hcode4 : s4.code = s.code ++ Op.jumpIfNot ((Xa.length + 2 : Nat) : Int) :: (Xa ++ Op.jump 0 :: Xb) := by
                          rw [c4, cB]; simp
                        have hfl4 : ({ s4 with lastTok := tib } : CState).flows =
                            (brkOf b (p.pc + sizeL acc.reverse + 1 + size a + 1)).map .breakF ++
                              .elseF (s.code.length + 1 + Xa.length) :: ((brkOf a (p.pc + sizeL acc.reverse + 1)).map .breakF ++ (wl st3.locals s.flows)) := by
                          show s4.flows = _; rw [fl4, pendOf_brk b _ hnb']
                        have hcl4 := close_then_else_g ({ s4 with lastTok := tib } : CState) s.code Xa Xb _ _ _ hcode4 hfl4
                        have hnf4 : ((topFun s4.flows).bind fun ff => rposition w4 ff.locals) = none := by rw [fl4r]; exact loc_after nfB is4 (pendOf_kinds _ _) w4 hlw4
                        have hstep4 := compile_imm' s4 _ w4 "then" rest3 tib hnf4 l4 (by decide) hcl4
                        refine step rest3 (tib + 1) { st3 with pc := p.pc } [.ifElse idx ti a b]
                          { s4 with lastTok := tib, flows := (brkOf b (p.pc + sizeL acc.reverse + 1 + size a + 1)).map .breakF ++ ((brkOf a (p.pc + sizeL acc.reverse + 1)).map .breakF ++ (wl st3.locals s.flows)), code := s.code ++ Op.jumpIfNot ((Xa.length + 2 : Nat) : Int) :: (Xa ++ Op.jump ((Xb.length + 1 : Nat) : Int) :: Xb) }
                          (Op.jumpIfNot ((Xa.length + 2 : Nat) : Int) :: (Xa ++ Op.jump ((Xb.length + 1 : Nat) : Int) :: Xb)) (idx :: (Da ++ ti :: Db))
                          h rfl nbb (m4.move _ _ rfl rfl rfl rfl) (hh4.trans (hidB.trans (hh2.trans hidA))) (is4.trans is2)
                          (holedL_one (holed_ifElse idx ti hola holb hna hnb')) ?_ rfl ?_
                          (hopen.trans (ct2.trans (hstep2.trans (ct4.trans hstep4))))
                        · simp [pendL, pendOf, pendOf_brk a _ hna, pendOf_brk b _ hnb']
                        · show s4.dmap = _; rw [d4, dB, d2, dA]; simp
                      | _ => simp at h
                  | _ => simp at h
              · -- begin … until / begin … repeat / begin … while … repeat
                have hopen := compile_imm' s _ w "begin" rest idx hnfs (by rw [hm.dict]; exact hl) (by decide) (open_begin _)
                dsimp only at hopen
                generalize hsA : ({ s with lastTok := idx, flows := Flow.beginF s.code.length :: s.flows } : CState) = sA at hopen
                have fA : sA.flows = Flow.beginF s.code.length :: s.flows := by subst hsA; rfl
                have cA : sA.code = s.code := by subst hsA; rfl
                have dA : sA.dmap = s.dmap := by subst hsA; rfl
                have hidA : sA.hiddenFlows = s.hiddenFlows := by subst hsA; rfl
                have mA : Match2 { p with pc := p.pc + sizeL acc.reverse } sA := by
                  subst hsA; exact hm.move _ _ rfl rfl rfl rfl
                have lA : sA.code.length = p.pc + sizeL acc.reverse := by rw [cA]; exact hlen
                have nfA : LocOK p.locals (Flow.beginF s.code.length :: s.flows) := hlocs.cons _ (by intro ff h; cases h)
                have hkA : ∀ k' : Bool, k' = true → hasLoops (Flow.beginF s.code.length :: s.flows) = true := fun _ _ => by
                  rw [hasLoops_cons]; rfl
                cases hsub : parseBlock f rest (idx + 1) { p with pc := p.pc + sizeL acc.reverse } false [] with
                | none => rw [hsub] at h; simp at h
                | some b1 =>
                  rw [hsub] at h
                  obtain ⟨a, tm, ti, rest2, nx, st2⟩ := b1
                  cases tm with
                  | untilT =>
                    simp only at h
                    split at h
                    · simp at h
                    rename_i hfb
                    have hwc : WFS (.untilLoop ti a) k r = true := wfs_of_acc (parse_acc _ _ _ _ _ _ _ h) hw _ (by simp)
                    have hwa : WFS a false false = true := by simpa [WFS] using hwc
                    have hna := wfs_noarm a false (p.pc + sizeL acc.reverse) hwa
                    have hnbk := wfs_nobrk a false (p.pc + sizeL acc.reverse) hwa
                    have r1 := ih rest (idx + 1) _ false [] _ false false hsub hwa hnb.tail (fun h => absurd h (by decide))
                      sA sA.code sA.dmap [] [] (Flow.beginF s.code.length :: s.flows) mA nfA (fun h => absurd h (by decide)) (hkA false) lA
                      (by simp) (by simp) ⟨rfl, rfl⟩ (by simp [pendL, fA])
                    unfold BlockOK2 at r1
                    obtain ⟨pca, nba, is2, s2, Xa, Da, m2, fl2, hh2, c2, d2, hola, tm2⟩ := r1
                    dsimp only at pca nba is2 m2 fl2 c2 d2 hola tm2
                    have fl2r := fl2
                    rw [wl_cons _ _ _ (by intro ff h; cases h)] at fl2
                    obtain ⟨w2, n2, l2, t2, hnx, hlw2, ct2⟩ := tm2
                    have e2 := termOf_inv n2 _ t2
                    simp only [termName] at e2
                    subst e2
                    subst hnx
                    have hpa : pendOf a (p.pc + sizeL acc.reverse) = [] := by rw [pendOf_brk a _ hna, hnbk]; rfl
                    have hcode2 : s2.code = s.code ++ Xa := by rw [c2, cA]
                    have hfl2 : ({ s2 with lastTok := ti } : CState).flows = .beginF s.code.length :: (wl st2.locals s.flows) := by
                      show s2.flows = _; rw [fl2, hpa]; rfl
                    have hcl := close_until ({ s2 with lastTok := ti } : CState) s.code Xa (wl st2.locals s.flows) hcode2 hfl2
                    have hnf2 : ((topFun s2.flows).bind fun ff => rposition w2 ff.locals) = none := by rw [fl2r]; exact loc_after nfA is2 (pendOf_kinds _ _) w2 hlw2
                    have hstep2 := compile_imm' s2 _ w2 "until" rest2 ti hnf2 l2 (by decide) hcl
                    refine step rest2 (ti + 1) { st2 with pc := p.pc } [.untilLoop ti a]
                      { s2 with lastTok := ti, flows := (wl st2.locals s.flows), code := s.code ++ Xa ++ [Op.jumpIfNot (-(Xa.length : Int))], dmap := s2.dmap ++ [ti] }
                      (Xa ++ [Op.jumpIfNot (-(Xa.length : Int))]) (Da ++ [ti]) h rfl nba (m2.move _ _ rfl rfl rfl rfl)
                      (hh2.trans hidA) is2 (holedL_one (holed_until ti hola hnbk hna)) (by simp [pendL, pendOf]) (by simp) ?_
                      (hopen.trans (ct2.trans hstep2))
                    show s2.dmap ++ [ti] = _; rw [d2, dA]; simp
                  | repeatT =>
                    simp only at h
                    have hwc : WFS (.repeatLoop ti a) k r = true := wfs_of_acc (parse_acc _ _ _ _ _ _ _ h) hw _ (by simp)
                    have hwa : WFS a true false = true := by simpa [WFS] using hwc
                    have hna := wfs_noarm a true (p.pc + sizeL acc.reverse) hwa
                    have r1 := ih rest (idx + 1) _ false [] _ true false hsub hwa hnb.tail (fun h => absurd h (by decide))
                      sA sA.code sA.dmap [] [] (Flow.beginF s.code.length :: s.flows) mA nfA (fun h => absurd h (by decide)) (hkA true) lA
                      (by simp) (by simp) ⟨rfl, rfl⟩ (by simp [pendL, fA])
                    unfold BlockOK2 at r1
                    obtain ⟨pca, nba, is2, s2, Xa, Da, m2, fl2, hh2, c2, d2, hola, tm2⟩ := r1
                    dsimp only at pca nba is2 m2 fl2 c2 d2 hola tm2
                    have fl2r := fl2
                    rw [wl_cons _ _ _ (by intro ff h; cases h)] at fl2
                    obtain ⟨w2, n2, l2, t2, hnx, hlw2, ct2⟩ := tm2
                    have e2 := termOf_inv n2 _ t2
                    simp only [termName] at e2
                    subst e2
                    subst hnx
                    have la := hola.len
                    have hcode2 : s2.code = s.code ++ Xa := by rw [c2, cA]
                    have hfl2 : ({ s2 with lastTok := ti } : CState).flows = (brkOf a (p.pc + sizeL acc.reverse)).map .breakF ++ .beginF s.code.length :: (wl st2.locals s.flows) := by
                      show s2.flows = _; rw [fl2, pendOf_brk a _ hna]
                    have hh : HolesAt s.code Xa (brkOf a (p.pc + sizeL acc.reverse)) := by
                      intro q hq
                      have rq := brkOf_range a _ q hq
                      have := hola.holes q (Or.inl hq)
                      rw [hlen]; exact ⟨rq.1, by rw [la]; exact rq.2, this⟩
                    have hcl := close_repeat_g ({ s2 with lastTok := ti } : CState) s.code Xa _ (wl st2.locals s.flows) hcode2 hfl2 hh
                    rw [hlen, la] at hcl
                    have hnf2 : ((topFun s2.flows).bind fun ff => rposition w2 ff.locals) = none := by rw [fl2r]; exact loc_after nfA is2 (pendOf_kinds _ _) w2 hlw2
                    have hstep2 := compile_imm' s2 _ w2 "repeat" rest2 ti hnf2 l2 (by decide) hcl
                    have hH' := holed_repeat ti hola hna
                    rw [la] at hH'
                    refine step rest2 (ti + 1) { st2 with pc := p.pc } [.repeatLoop ti a]
                      { s2 with lastTok := ti, flows := (wl st2.locals s.flows), code := s.code ++ fillB Xa (p.pc + sizeL acc.reverse) (brkOf a (p.pc + sizeL acc.reverse)) (.jump 1) (p.pc + sizeL acc.reverse + size a) ++ [Op.jump (-(size a : Int))], dmap := s2.dmap ++ [ti] }
                      (fillB Xa (p.pc + sizeL acc.reverse) (brkOf a (p.pc + sizeL acc.reverse)) (.jump 1) (p.pc + sizeL acc.reverse + size a) ++ [Op.jump (-(size a : Int))])
                      (Da ++ [ti]) h rfl nba (m2.move _ _ rfl rfl rfl rfl)
                      (hh2.trans hidA) is2 (holedL_one hH') (by simp [pendL, pendOf]) (by simp) ?_
                      (hopen.trans (ct2.trans hstep2))
                    show s2.dmap ++ [ti] = _; rw [d2, dA]; simp
                  | whileT =>
                    simp only at h
                    split at h
                    · simp at h
                    cases hsub2 : parseBlock f rest2 nx { st2 with pc := p.pc + sizeL acc.reverse + size a + 1 } false [] with
                    | none => rw [hsub2] at h; simp at h
                    | some b2 =>
                      rw [hsub2] at h
                      obtain ⟨b, tmb, tib, rest3, nx3, st3⟩ := b2
                      cases tmb with
                      | repeatT =>
                        simp only at h
                        have hwc : WFS (.whileLoop ti tib a b) k r = true := wfs_of_acc (parse_acc _ _ _ _ _ _ _ h) hw _ (by simp)
                        have hwab : WFS a false false = true ∧ WFS b true false = true := by simpa [WFS] using hwc
                        have hna := wfs_noarm a false (p.pc + sizeL acc.reverse) hwab.1
                        have hnbk := wfs_nobrk a false (p.pc + sizeL acc.reverse) hwab.1
                        have hnb' := wfs_noarm b true (p.pc + sizeL acc.reverse + size a + 1) hwab.2
                        have r1 := ih rest (idx + 1) _ false [] _ false false hsub hwab.1 hnb.tail (fun h => absurd h (by decide))
                          sA sA.code sA.dmap [] [] (Flow.beginF s.code.length :: s.flows) mA nfA (fun h => absurd h (by decide)) (hkA false) lA
                          (by simp) (by simp) ⟨rfl, rfl⟩ (by simp [pendL, fA])
                        unfold BlockOK2 at r1
                        obtain ⟨pca, nba, is2, s2, Xa, Da, m2, fl2, hh2, c2, d2, hola, tm2⟩ := r1
                        dsimp only at pca nba is2 m2 fl2 c2 d2 hola tm2
                        have fl2r := fl2
                        rw [wl_cons _ _ _ (by intro ff h; cases h)] at fl2
                        obtain ⟨w2, n2, l2, t2, hnx, hlw2, ct2⟩ := tm2
                        have e2 := termOf_inv n2 _ t2
                        simp only [termName] at e2
                        subst e2
                        subst hnx
                        have la := hola.len
                        have hpa : pendOf a (p.pc + sizeL acc.reverse) = [] := by rw [pendOf_brk a _ hna, hnbk]; rfl
                        have hcode2 : s2.code = s.code ++ Xa := by rw [c2, cA]
                        have hfl2 : s2.flows = .beginF s.code.length :: (wl st2.locals s.flows) := by rw [fl2, hpa]; rfl
                        have hnf2 : ((topFun s2.flows).bind fun ff => rposition w2 ff.locals) = none := by rw [fl2r]; exact loc_after nfA is2 (pendOf_kinds _ _) w2 hlw2
                        have hstep2 := compile_imm' s2 _ w2 "while" rest2 ti hnf2 l2 (by decide) (open_while _)
                        dsimp only at hstep2
                        generalize hsW : ({ s2 with lastTok := ti, flows := Flow.whileF s2.code.length :: s2.flows, code := s2.code ++ [Op.jumpIfNot 0], dmap := s2.dmap ++ [ti] } : CState) = sW at hstep2
                        have fW : sW.flows = Flow.whileF (s.code.length + Xa.length) :: Flow.beginF s.code.length :: (wl st2.locals s.flows) := by
                          subst hsW; show Flow.whileF s2.code.length :: s2.flows = _; rw [hfl2, hcode2]; simp
                        have cW : sW.code = s.code ++ (Xa ++ [Op.jumpIfNot 0]) := by subst hsW; show s2.code ++ _ = _; rw [hcode2]; simp
                        have dW : sW.dmap = s2.dmap ++ [ti] := by subst hsW; rfl
                        have hidW : sW.hiddenFlows = s2.hiddenFlows := by subst hsW; rfl
                        have mW : Match2 { st2 with pc := p.pc + sizeL acc.reverse + size a + 1 } sW := by
                          subst hsW; exact m2.move _ _ rfl rfl rfl rfl
                        have lW : sW.code.length = p.pc + sizeL acc.reverse + size a + 1 := by rw [cW]; simp [hlen, la]; omega
                        have nfW : LocOK st2.locals (Flow.whileF (s.code.length + Xa.length) :: Flow.beginF s.code.length :: (wl st2.locals s.flows)) :=
                          ((hlocs.wl is2).cons _ (by intro ff h; cases h)).cons _ (by intro ff h; cases h)
                        have hkW : true = true → hasLoops (Flow.whileF (s.code.length + Xa.length) :: Flow.beginF s.code.length :: (wl st2.locals s.flows)) = true := fun _ => by
                          rw [hasLoops_cons]; rfl
                        have r2 := ih rest2 (ti + 1) _ false [] _ true false hsub2 hwab.2 nba (fun h => absurd h (by decide))
                          sW sW.code sW.dmap [] [] _ mW nfW (fun h => absurd h (by decide)) hkW lW
                          (by simp) (by simp) ⟨rfl, rfl⟩ (by simp [pendL, fW])
                        unfold BlockOK2 at r2
                        obtain ⟨pcb, nbb, is4, s4, Xb, Db, m4, fl4, hh4, c4, d4, holb, tm4⟩ := r2
                        dsimp only at pcb nbb is4 m4 fl4 c4 d4 holb tm4
                        have fl4r := fl4
                        rw [wl_cons _ _ _ (by intro ff h; cases h), wl_cons _ _ _ (by intro ff h; cases h), wl_wl] at fl4
                        obtain ⟨w4, n4, l4, t4, hnx4, hlw4, ct4⟩ := tm4
                        have e4 := termOf_inv n4 _ t4
                        simp only [termName] at e4
                        subst e4
                        subst hnx4
                        have lb := holb.len
                        have hcode4 : s4.code = s.code ++ (Xa ++ Op.jumpIfNot 0 :: Xb) := by rw [c4, cW]; simp
                        have hfl4 : ({ s4 with lastTok := tib } : CState).flows = (brkOf b (p.pc + sizeL acc.reverse + size a + 1)).map .breakF ++
                            .whileF (s.code.length + Xa.length) :: .beginF s.code.length :: (wl st3.locals s.flows) := by
                          show s4.flows = _; rw [fl4, pendOf_brk b _ hnb']
                        have hh : HolesAt (s.code ++ (Xa ++ [Op.jumpIfNot 0])) Xb (brkOf b (p.pc + sizeL acc.reverse + size a + 1)) := by
                          intro q hq
                          have rq := brkOf_range b _ q hq
                          have := holb.holes q (Or.inl hq)
                          have hl : (s.code ++ (Xa ++ [Op.jumpIfNot 0])).length = p.pc + sizeL acc.reverse + size a + 1 := by simp [hlen, la]; omega
                          rw [hl]; exact ⟨rq.1, by rw [lb]; exact rq.2, this⟩
                        have hcl4 := close_repeat_while_g ({ s4 with lastTok := tib } : CState) s.code Xa Xb _ (wl st3.locals s.flows) hcode4 hfl4 hh
                        rw [hlen, la, lb] at hcl4
                        have hnf4 : ((topFun s4.flows).bind fun ff => rposition w4 ff.locals) = none := by rw [fl4r]; exact loc_after nfW is4 (pendOf_kinds _ _) w4 hlw4
                        have hstep4 := compile_imm' s4 _ w4 "repeat" rest3 tib hnf4 l4 (by decide) hcl4
                        have hH' := holed_while ti tib hola hnbk hna holb hnb'
                        rw [la, lb] at hH'
                        refine step rest3 (tib + 1) { st3 with pc := p.pc } [.whileLoop ti tib a b]
                          { s4 with lastTok := tib, flows := (wl st3.locals s.flows), code := s.code ++ (Xa ++ Op.jumpIfNot ((size b + 2 : Nat) : Int) :: (fillB Xb (p.pc + sizeL acc.reverse + size a + 1) (brkOf b (p.pc + sizeL acc.reverse + size a + 1)) (.jump 1) (p.pc + sizeL acc.reverse + size a + 1 + size b) ++ [Op.jump (-((size a + 1 + size b : Nat) : Int))])), dmap := s4.dmap ++ [tib] }
                          (Xa ++ Op.jumpIfNot ((size b + 2 : Nat) : Int) :: (fillB Xb (p.pc + sizeL acc.reverse + size a + 1) (brkOf b (p.pc + sizeL acc.reverse + size a + 1)) (.jump 1) (p.pc + sizeL acc.reverse + size a + 1 + size b) ++ [Op.jump (-((size a + 1 + size b : Nat) : Int))]))
                          (Da ++ ti :: (Db ++ [tib])) h rfl nbb (m4.move _ _ rfl rfl rfl rfl)
                          (hh4.trans (hidW.trans (hh2.trans hidA))) (is4.trans is2) (holedL_one hH') (by simp [pendL, pendOf]) (by simp) ?_
                          (hopen.trans (ct2.trans (hstep2.trans (ct4.trans hstep4))))
                        show s4.dmap ++ [tib] = _; rw [d4, dW, d2, dA]; simp
                      | _ => simp at h
                  | _ => simp at h
              · -- do … loop
                have hopen := compile_imm' s _ w "do" rest idx hnfs (by rw [hm.dict]; exact hl) (by decide) (open_do _)
                dsimp only at hopen
                generalize hsA : ({ s with lastTok := idx, flows := Flow.doF s.code.length (s.code.length + 1) :: s.flows, code := s.code ++ [Op.doOp 0], dmap := s.dmap ++ [idx] } : CState) = sA at hopen
                have fA : sA.flows = Flow.doF s.code.length (s.code.length + 1) :: s.flows := by subst hsA; rfl
                have cA : sA.code = s.code ++ [Op.doOp 0] := by subst hsA; rfl
                have dA : sA.dmap = s.dmap ++ [idx] := by subst hsA; rfl
                have hidA : sA.hiddenFlows = s.hiddenFlows := by subst hsA; rfl
                have mA : Match2 { p with pc := p.pc + sizeL acc.reverse + 1 } sA := by
                  subst hsA; exact hm.move _ _ rfl rfl rfl rfl
                have lA : sA.code.length = p.pc + sizeL acc.reverse + 1 := by rw [cA]; simp [hlen]
                have nfA : LocOK p.locals (Flow.doF s.code.length (s.code.length + 1) :: s.flows) := hlocs.cons _ (by intro ff h; cases h)
                have hkA : true = true → hasLoops (Flow.doF s.code.length (s.code.length + 1) :: s.flows) = true := fun _ => by
                  rw [hasLoops_cons]; rfl
                cases hsub : parseBlock f rest (idx + 1) { p with pc := p.pc + sizeL acc.reverse + 1 } false [] with
                | none => rw [hsub] at h; simp at h
                | some b1 =>
                  rw [hsub] at h
                  obtain ⟨a, tm, ti, rest2, nx, st2⟩ := b1
                  cases tm with
                  | loopT =>
                    simp only at h
                    have hwc : WFS (.doLoop idx ti a) k r = true := wfs_of_acc (parse_acc _ _ _ _ _ _ _ h) hw _ (by simp)
                    have hwa : WFS a true false = true := by simpa [WFS, straight] using hwc
                    have hna := wfs_noarm a true (p.pc + sizeL acc.reverse + 1) hwa
                    have r1 := ih rest (idx + 1) _ false [] _ true false hsub hwa hnb.tail (fun h => absurd h (by decide))
                      sA sA.code sA.dmap [] [] (Flow.doF s.code.length (s.code.length + 1) :: s.flows) mA nfA (fun h => absurd h (by decide)) hkA lA
                      (by simp) (by simp) ⟨rfl, rfl⟩ (by simp [pendL, fA])
                    unfold BlockOK2 at r1
                    obtain ⟨pca, nba, is2, s2, Xa, Da, m2, fl2, hh2, c2, d2, hola, tm2⟩ := r1
                    dsimp only at pca nba is2 m2 fl2 c2 d2 hola tm2
                    have fl2r := fl2
                    rw [wl_cons _ _ _ (by intro ff h; cases h)] at fl2
                    obtain ⟨w2, n2, l2, t2, hnx, hlw2, ct2⟩ := tm2
                    have e2 := termOf_inv n2 _ t2
                    simp only [termName] at e2
                    subst e2
                    subst hnx
                    have la := hola.len
                    have hnf2 : ((topFun s2.flows).bind fun ff => rposition w2 ff.locals) = none := by rw [fl2r]; exact loc_after nfA is2 (pendOf_kinds _ _) w2 hlw2
                    have hcode2 : s2.code = s.code ++ Op.doOp 0 :: Xa := by rw [c2, cA]; simp
                    have hfl2 : ({ s2 with lastTok := ti } : CState).flows = (brkOf a (p.pc + sizeL acc.reverse + 1)).map .breakF ++ .doF s.code.length (s.code.length + 1) :: (wl st2.locals s.flows) := by
                      show s2.flows = _; rw [fl2, pendOf_brk a _ hna]
                    have hh : HolesAt (s.code ++ [Op.doOp 0]) Xa (brkOf a (p.pc + sizeL acc.reverse + 1)) := by
                      intro q hq
                      have rq := brkOf_range a _ q hq
                      have := hola.holes q (Or.inl hq)
                      have hl' : (s.code ++ [Op.doOp 0]).length = p.pc + sizeL acc.reverse + 1 := by simp [hlen]
                      rw [hl']; exact ⟨rq.1, by rw [la]; exact rq.2, this⟩
                    have hcl := close_loop_g ({ s2 with lastTok := ti } : CState) s.code Xa _ (wl st2.locals s.flows) hcode2 hfl2 hh
                    rw [hlen, la] at hcl
                    have hstep2 := compile_imm' s2 _ w2 "loop" rest2 ti hnf2 l2 (by decide) hcl
                    have hH' := holed_do idx ti hola hna
                    rw [la] at hH'
                    refine step rest2 (ti + 1) { st2 with pc := p.pc } [.doLoop idx ti a]
                      { s2 with lastTok := ti, flows := (wl st2.locals s.flows), code := s.code ++ Op.doOp ((size a + 2 : Nat) : Int) :: (fillB Xa (p.pc + sizeL acc.reverse + 1) (brkOf a (p.pc + sizeL acc.reverse + 1)) (.loop 1) (p.pc + sizeL acc.reverse + 1 + size a) ++ [Op.loopOp (-(size a : Int))]), dmap := s2.dmap ++ [ti] }
                      (Op.doOp ((size a + 2 : Nat) : Int) :: (fillB Xa (p.pc + sizeL acc.reverse + 1) (brkOf a (p.pc + sizeL acc.reverse + 1)) (.loop 1) (p.pc + sizeL acc.reverse + 1 + size a) ++ [Op.loopOp (-(size a : Int))]))
                      (idx :: (Da ++ [ti])) h rfl nba (m2.move _ _ rfl rfl rfl rfl)
                      (hh2.trans hidA) is2 (holedL_one hH') (by simp [pendL, pendOf]) (by simp) ?_
                      (hopen.trans (ct2.trans hstep2))
                    show s2.dmap ++ [ti] = _; rw [d2, dA]; simp
                  | _ => simp at h
              · -- foreach … loop
                have hopen := compile_imm' s _ w "foreach" rest idx hnfs (by rw [hm.dict]; exact hl) (by decide) (open_foreach _)
                dsimp only at hopen
                generalize hsA : ({ s with lastTok := idx, flows := Flow.doF (s.code.length + 1) (s.code.length + 2) :: s.flows, code := s.code ++ [Op.native "<foreach-init>", Op.doOp 0, Op.native "<foreach-next>"], dmap := s.dmap ++ [idx, idx, idx] } : CState) = sA at hopen
                have fA : sA.flows = Flow.doF (s.code.length + 1) (s.code.length + 2) :: s.flows := by subst hsA; rfl
                have cA : sA.code = s.code ++ [Op.native "<foreach-init>", Op.doOp 0, Op.native "<foreach-next>"] := by subst hsA; rfl
                have dA : sA.dmap = s.dmap ++ [idx, idx, idx] := by subst hsA; rfl
                have hidA : sA.hiddenFlows = s.hiddenFlows := by subst hsA; rfl
                have mA : Match2 { p with pc := p.pc + sizeL acc.reverse + 3 } sA := by
                  subst hsA; exact hm.move _ _ rfl rfl rfl rfl
                have lA : sA.code.length = p.pc + sizeL acc.reverse + 3 := by rw [cA]; simp [hlen]
                have nfA : LocOK p.locals (Flow.doF (s.code.length + 1) (s.code.length + 2) :: s.flows) := hlocs.cons _ (by intro ff h; cases h)
                have hkA : true = true → hasLoops (Flow.doF (s.code.length + 1) (s.code.length + 2) :: s.flows) = true := fun _ => by
                  rw [hasLoops_cons]; rfl
                cases hsub : parseBlock f rest (idx + 1) { p with pc := p.pc + sizeL acc.reverse + 3 } false [] with
                | none => rw [hsub] at h; simp at h
                | some b1 =>
                  rw [hsub] at h
                  obtain ⟨a, tm, ti, rest2, nx, st2⟩ := b1
                  cases tm with
                  | loopT =>
                    simp only at h
                    have hwc : WFS (.doLoop idx ti (.seq (.op idx (.native "<foreach-next>")) a)) k r = true :=
                      wfs_of_acc (parse_acc _ _ _ _ _ _ _ h) hw _ (by simp)
                    have hwa : WFS a true false = true := by simpa [WFS, straight] using hwc
                    have hna := wfs_noarm a true (p.pc + sizeL acc.reverse + 3) hwa
                    have r1 := ih rest (idx + 1) _ false [] _ true false hsub hwa hnb.tail (fun h => absurd h (by decide))
                      sA sA.code sA.dmap [] [] (Flow.doF (s.code.length + 1) (s.code.length + 2) :: s.flows) mA nfA (fun h => absurd h (by decide)) hkA lA
                      (by simp) (by simp) ⟨rfl, rfl⟩ (by simp [pendL, fA])
                    unfold BlockOK2 at r1
                    obtain ⟨pca, nba, is2, s2, Xa, Da, m2, fl2, hh2, c2, d2, hola, tm2⟩ := r1
                    dsimp only at pca nba is2 m2 fl2 c2 d2 hola tm2
                    have fl2r := fl2
                    rw [wl_cons _ _ _ (by intro ff h; cases h)] at fl2
                    obtain ⟨w2, n2, l2, t2, hnx, hlw2, ct2⟩ := tm2
                    have e2 := termOf_inv n2 _ t2
                    simp only [termName] at e2
                    subst e2
                    subst hnx
                    have la := hola.len
                    have hnf2 : ((topFun s2.flows).bind fun ff => rposition w2 ff.locals) = none := by rw [fl2r]; exact loc_after nfA is2 (pendOf_kinds _ _) w2 hlw2
                    have hcode2 : s2.code = (s.code ++ [Op.native "<foreach-init>"]) ++ Op.doOp 0 :: (Op.native "<foreach-next>" :: Xa) := by
                      rw [c2, cA]; simp
                    have hbl : (s.code ++ [Op.native "<foreach-init>"]).length = p.pc + sizeL acc.reverse + 1 := by simp [hlen]
                    have hfl2 : ({ s2 with lastTok := ti } : CState).flows = (brkOf a (p.pc + sizeL acc.reverse + 3)).map .breakF ++
                        .doF (s.code ++ [Op.native "<foreach-init>"]).length ((s.code ++ [Op.native "<foreach-init>"]).length + 1) :: (wl st2.locals s.flows) := by
                      show s2.flows = _; rw [fl2, pendOf_brk a _ hna, hbl, hlen]
                    have hh : HolesAt ((s.code ++ [Op.native "<foreach-init>"]) ++ [Op.doOp 0]) (Op.native "<foreach-next>" :: Xa) (brkOf a (p.pc + sizeL acc.reverse + 3)) := by
                      intro q hq
                      have rq := brkOf_range a _ q hq
                      have := hola.holes q (Or.inl hq)
                      have hl' : ((s.code ++ [Op.native "<foreach-init>"]) ++ [Op.doOp 0]).length = p.pc + sizeL acc.reverse + 2 := by simp [hlen]
                      rw [hl']
                      refine ⟨by omega, by simp [la]; omega, ?_⟩
                      rw [show q - (p.pc + sizeL acc.reverse + 2) = (q - (p.pc + sizeL acc.reverse + 3)) + 1 by omega, List.getElem?_cons_succ]
                      exact this
                    have hcl := close_loop_g ({ s2 with lastTok := ti } : CState) (s.code ++ [Op.native "<foreach-init>"]) (Op.native "<foreach-next>" :: Xa) _ (wl st2.locals s.flows) hcode2 hfl2 hh
                    have hxl : (Op.native "<foreach-next>" :: Xa).length = 1 + size a := by simp [la]; omega
                    rw [hbl, hxl] at hcl
                    have hstep2 := compile_imm' s2 _ w2 "loop" rest2 ti hnf2 l2 (by decide) hcl
                    -- the statement-level reading of the same code
                    have hseq : Holed (.seq (.op idx (.native "<foreach-next>")) a) (p.pc + sizeL acc.reverse + 2) (Op.native "<foreach-next>" :: Xa) (idx :: Da) := by
                      have := holed_seq (holed_op idx (.native "<foreach-next>") (p.pc + sizeL acc.reverse + 2)) (by simpa [size] using hola)
                      simpa using this
                    have hnas : armOf (.seq (.op idx (.native "<foreach-next>")) a) (p.pc + sizeL acc.reverse + 2) = [] := by
                      simp [armOf, size, hna]
                    have hbs : brkOf (.seq (.op idx (.native "<foreach-next>")) a) (p.pc + sizeL acc.reverse + 2) = brkOf a (p.pc + sizeL acc.reverse + 3) := by
                      simp [brkOf, size]
                    have hH' := holed_do idx ti (pc := p.pc + sizeL acc.reverse + 1) hseq hnas
                    rw [hbs] at hH'
                    have hsz : size (.seq (.op idx (.native "<foreach-next>")) a) = 1 + size a := by simp [size]
                    rw [hsz, hxl] at hH'
                    have hs1 : sizeL [Stmt.op idx (.native "<foreach-init>")] = 1 := by simp [sizeL, size]
                    have hHL : HoledL [.op idx (.native "<foreach-init>"), .doLoop idx ti (.seq (.op idx (.native "<foreach-next>")) a)] (p.pc + sizeL acc.reverse)
                        ([Op.native "<foreach-init>"] ++ _) ([idx] ++ _) :=
                      holedL_append [_] [_] _ _ _ _ _ (holedL_one (holed_op idx (.native "<foreach-init>") _)) (holedL_one (by rw [hs1]; exact hH'))
                    refine step rest2 (ti + 1) { st2 with pc := p.pc }
                      [.doLoop idx ti (.seq (.op idx (.native "<foreach-next>")) a), .op idx (.native "<foreach-init>")]
                      { s2 with lastTok := ti, flows := (wl st2.locals s.flows), code := (s.code ++ [Op.native "<foreach-init>"]) ++ Op.doOp ((1 + size a + 2 : Nat) : Int) :: (fillB (Op.native "<foreach-next>" :: Xa) (p.pc + sizeL acc.reverse + 1 + 1) (brkOf a (p.pc + sizeL acc.reverse + 3)) (.loop 1) (p.pc + sizeL acc.reverse + 1 + 1 + (1 + size a)) ++ [Op.loopOp (-((1 + size a : Nat) : Int))]), dmap := s2.dmap ++ [ti] }
                      _ _ h rfl nba (m2.move _ _ rfl rfl rfl rfl)
                      (hh2.trans hidA) is2 hHL (by simp [pendL, pendOf]) ?_ ?_
                      (hopen.trans (ct2.trans hstep2))
                    · simp only [List.append_assoc, List.cons_append, List.nil_append]
                    · show s2.dmap ++ [ti] = _; rw [d2, dA]; simp
                  | _ => simp at h
              · -- case … endcase
                have hopen := compile_imm' s _ w "case" rest idx hnfs (by rw [hm.dict]; exact hl) (by decide)
                  (show immediate ({ s with lastTok := idx } : CState) "case" = .ok { s with lastTok := idx, flows := Flow.caseF :: s.flows } by simp [immediate, CState.pushFlow])
                generalize hsA : ({ s with lastTok := idx, flows := Flow.caseF :: s.flows } : CState) = sA at hopen
                have fA : sA.flows = Flow.caseF :: s.flows := by subst hsA; rfl
                have cA : sA.code = s.code := by subst hsA; rfl
                have dA : sA.dmap = s.dmap := by subst hsA; rfl
                have hidA : sA.hiddenFlows = s.hiddenFlows := by subst hsA; rfl
                have mA : Match2 { p with pc := p.pc + sizeL acc.reverse } sA := by
                  subst hsA; exact hm.move _ _ rfl rfl rfl rfl
                have lA : sA.code.length = p.pc + sizeL acc.reverse := by rw [cA]; exact hlen
                have nfA : LocOK p.locals (Flow.caseF :: s.flows) := hlocs.cons _ (by intro ff h; cases h)
                have hkA : k = true → hasLoops (Flow.caseF :: s.flows) = true := fun h => by
                  rw [hasLoops_cons, hls, hk h]; rfl
                cases hsub : parseBlock f rest (idx + 1) { p with pc := p.pc + sizeL acc.reverse } false [] with
                | none => rw [hsub] at h; simp at h
                | some b1 =>
                  rw [hsub] at h
                  obtain ⟨a, tm, ti, rest2, nx, st2⟩ := b1
                  cases tm with
                  | endcaseT =>
                    simp only at h
                    have hwc : WFS (.caseS a) k r = true := wfs_of_acc (parse_acc _ _ _ _ _ _ _ h) hw _ (by simp)
                    have hwa : WFS a k true = true := by simpa [WFS] using hwc
                    have r1 := ih rest (idx + 1) _ false [] _ k true hsub hwa hnb.tail (fun h => absurd h (by decide))
                      sA sA.code sA.dmap [] [] (Flow.caseF :: s.flows) mA nfA (fun h => absurd h (by decide)) hkA lA
                      (by simp) (by simp) ⟨rfl, rfl⟩ (by simp [pendL, fA])
                    unfold BlockOK2 at r1
                    obtain ⟨pca, nba, is2, s2, Xa, Da, m2, fl2, hh2, c2, d2, hola, tm2⟩ := r1
                    dsimp only at pca nba is2 m2 fl2 c2 d2 hola tm2
                    have fl2r := fl2
                    rw [wl_cons _ _ _ (by intro ff h; cases h)] at fl2
                    obtain ⟨w2, n2, l2, t2, hnx, hlw2, ct2⟩ := tm2
                    have e2 := termOf_inv n2 _ t2
                    simp only [termName] at e2
                    subst e2
                    subst hnx
                    have la := hola.len
                    have hcode2 : s2.code = s.code ++ Xa := by rw [c2, cA]
                    have hfl2 : ({ s2 with lastTok := ti } : CState).flows = pendOf a (p.pc + sizeL acc.reverse) ++ .caseF :: (wl st2.locals s.flows) := fl2
                    have hh : HolesAt s.code Xa ((pendOf a (p.pc + sizeL acc.reverse)).filterMap armPos) := by
                      rw [pendOf_arms']
                      intro q hq
                      have rq := armOf_range a _ q hq
                      have := hola.holes q (Or.inr hq)
                      rw [hlen]; exact ⟨rq.1, by rw [la]; exact rq.2, this⟩
                    have hcl := close_endcase_g ({ s2 with lastTok := ti } : CState) s.code Xa _ (wl st2.locals s.flows) hcode2 hfl2 (pendOf_kinds _ _) hh
                    rw [pendOf_arms', pendOf_filter', hlen, la] at hcl
                    have hnf2 : ((topFun s2.flows).bind fun ff => rposition w2 ff.locals) = none := by rw [fl2r]; exact loc_after nfA is2 (pendOf_kinds _ _) w2 hlw2
                    have hstep2 := compile_imm' s2 _ w2 "endcase" rest2 ti hnf2 l2 (by decide) hcl
                    refine step rest2 (ti + 1) { st2 with pc := p.pc } [.caseS a]
                      { s2 with lastTok := ti, flows := (brkOf a (p.pc + sizeL acc.reverse)).map .breakF ++ (wl st2.locals s.flows), code := s.code ++ fill Xa (p.pc + sizeL acc.reverse) [] (armOf a (p.pc + sizeL acc.reverse)) (fun _ => Op.nop) (armOp (some 0) (p.pc + sizeL acc.reverse + size a)) }
                      (fill Xa (p.pc + sizeL acc.reverse) [] (armOf a (p.pc + sizeL acc.reverse)) (fun _ => Op.nop) (armOp (some 0) (p.pc + sizeL acc.reverse + size a)))
                      Da h rfl nba (m2.move _ _ rfl rfl rfl rfl)
                      (hh2.trans hidA) is2 (holedL_one (holed_caseS hola)) (by simp [pendL, pendOf]) rfl ?_
                      (hopen.trans (ct2.trans hstep2))
                    show s2.dmap = _; rw [d2, dA]
                  | _ => simp at h
              · -- of … endof
                have hopen := compile_imm' s _ w "of" rest idx hnfs (by rw [hm.dict]; exact hl) (by decide)
                  (show immediate ({ s with lastTok := idx } : CState) "of" = .ok { s with lastTok := idx, flows := Flow.caseOfF s.code.length :: s.flows, code := s.code ++ [Op.caseOf 0], dmap := s.dmap ++ [idx] } by
                    simp [immediate, CState.pushFlow, CState.emit, CState.origin])
                generalize hsA : ({ s with lastTok := idx, flows := Flow.caseOfF s.code.length :: s.flows, code := s.code ++ [Op.caseOf 0], dmap := s.dmap ++ [idx] } : CState) = sA at hopen
                have fA : sA.flows = Flow.caseOfF s.code.length :: s.flows := by subst hsA; rfl
                have cA : sA.code = s.code ++ [Op.caseOf 0] := by subst hsA; rfl
                have dA : sA.dmap = s.dmap ++ [idx] := by subst hsA; rfl
                have hidA : sA.hiddenFlows = s.hiddenFlows := by subst hsA; rfl
                have mA : Match2 { p with pc := p.pc + sizeL acc.reverse + 1 } sA := by
                  subst hsA; exact hm.move _ _ rfl rfl rfl rfl
                have lA : sA.code.length = p.pc + sizeL acc.reverse + 1 := by rw [cA]; simp [hlen]
                have nfA : LocOK p.locals (Flow.caseOfF s.code.length :: s.flows) := hlocs.cons _ (by intro ff h; cases h)
                have hkA : k = true → hasLoops (Flow.caseOfF s.code.length :: s.flows) = true := fun h => by
                  rw [hasLoops_cons, hls, hk h]; rfl
                cases hsub : parseBlock f rest (idx + 1) { p with pc := p.pc + sizeL acc.reverse + 1 } false [] with
                | none => rw [hsub] at h; simp at h
                | some b1 =>
                  rw [hsub] at h
                  obtain ⟨a, tm, ti, rest2, nx, st2⟩ := b1
                  cases tm with
                  | endofT =>
                    simp only at h
                    split at h
                    · simp at h
                    have hwc : WFS (.arm idx ti a) k r = true := wfs_of_acc (parse_acc _ _ _ _ _ _ _ h) hw _ (by simp)
                    have hwa : WFS a k false = true := by
                      simp only [WFS, Bool.and_eq_true] at hwc; exact hwc.2
                    have hna := wfs_noarm a k (p.pc + sizeL acc.reverse + 1) hwa
                    have r1 := ih rest (idx + 1) _ false [] _ k false hsub hwa hnb.tail (fun h => absurd h (by decide))
                      sA sA.code sA.dmap [] [] (Flow.caseOfF s.code.length :: s.flows) mA nfA (fun h => absurd h (by decide)) hkA lA
                      (by simp) (by simp) ⟨rfl, rfl⟩ (by simp [pendL, fA])
                    unfold BlockOK2 at r1
                    obtain ⟨pca, nba, is2, s2, Xa, Da, m2, fl2, hh2, c2, d2, hola, tm2⟩ := r1
                    dsimp only at pca nba is2 m2 fl2 c2 d2 hola tm2
                    have fl2r := fl2
                    rw [wl_cons _ _ _ (by intro ff h; cases h)] at fl2
                    obtain ⟨w2, n2, l2, t2, hnx, hlw2, ct2⟩ := tm2
                    have e2 := termOf_inv n2 _ t2
                    simp only [termName] at e2
                    subst e2
                    subst hnx
                    have la := hola.len
                    have hcode2 : s2.code = s.code ++ Op.caseOf 0 :: Xa := by rw [c2, cA]; simp
                    have hfl2 : ({ s2 with lastTok := ti } : CState).flows = (brkOf a (p.pc + sizeL acc.reverse + 1)).map .breakF ++ .caseOfF s.code.length :: (wl st2.locals s.flows) := by
                      show s2.flows = _; rw [fl2, pendOf_brk a _ hna]
                    have hcl := close_endof_g ({ s2 with lastTok := ti } : CState) s.code Xa _ (wl st2.locals s.flows) hcode2 hfl2
                    have hnf2 : ((topFun s2.flows).bind fun ff => rposition w2 ff.locals) = none := by rw [fl2r]; exact loc_after nfA is2 (pendOf_kinds _ _) w2 hlw2
                    have hstep2 := compile_imm' s2 _ w2 "endof" rest2 ti hnf2 l2 (by decide) hcl
                    refine step rest2 (ti + 1) { st2 with pc := p.pc } [.arm idx ti a]
                      { s2 with lastTok := ti, flows := (Flow.caseEndOfF (s.code.length + 1 + Xa.length) :: ((brkOf a (p.pc + sizeL acc.reverse + 1)).map .breakF ++ (wl st2.locals s.flows))), code := s.code ++ Op.caseOf ((Xa.length + 2 : Nat) : Int) :: (Xa ++ [Op.jump 0]), dmap := s2.dmap ++ [ti] }
                      (Op.caseOf ((Xa.length + 2 : Nat) : Int) :: (Xa ++ [Op.jump 0])) (idx :: (Da ++ [ti])) h rfl nba (m2.move _ _ rfl rfl rfl rfl)
                      (hh2.trans hidA) is2 (holedL_one (holed_arm idx ti hola hna)) ?_ rfl ?_
                      (hopen.trans (ct2.trans hstep2))
                    · simp [pendL, pendOf, pendOf_brk a _ hna, hlen, la]
                    · show s2.dmap ++ [ti] = _; rw [d2, dA]; simp
                  | _ => simp at h
              · -- [ … ]
                have hopen := compile_imm' s _ w "[" rest idx hnfs (by rw [hm.dict]; exact hl) (by decide) ((open_builder _).1)
                dsimp only at hopen
                generalize hsA : ({ s with lastTok := idx, flows := Flow.vecF :: s.flows, code := s.code ++ [Op.native "<vec-begin>"], dmap := s.dmap ++ [idx] } : CState) = sA at hopen
                have fA : sA.flows = Flow.vecF :: s.flows := by subst hsA; rfl
                have cA : sA.code = s.code ++ [Op.native "<vec-begin>"] := by subst hsA; rfl
                have dA : sA.dmap = s.dmap ++ [idx] := by subst hsA; rfl
                have hidA : sA.hiddenFlows = s.hiddenFlows := by subst hsA; rfl
                have mA : Match2 { p with pc := p.pc + sizeL acc.reverse + 1 } sA := by
                  subst hsA; exact hm.move _ _ rfl rfl rfl rfl
                have lA : sA.code.length = p.pc + sizeL acc.reverse + 1 := by rw [cA]; simp [hlen]
                have nfA : LocOK p.locals (Flow.vecF :: s.flows) := hlocs.cons _ (by intro ff h; cases h)
                have hkA : k = true → hasLoops (Flow.vecF :: s.flows) = true := fun h => by
                  rw [hasLoops_cons, hls, hk h]; rfl
                cases hsub : parseBlock f rest (idx + 1) { p with pc := p.pc + sizeL acc.reverse + 1 } false [] with
                | none => rw [hsub] at h; simp at h
                | some b1 =>
                  rw [hsub] at h
                  obtain ⟨a, tm, ti, rest2, nx, st2⟩ := b1
                  cases tm with
                  | rbrack =>
                    simp only at h
                    split at h
                    · simp at h
                    rename_i hfree
                    simp only [Bool.or_eq_true, not_or, Bool.not_eq_true] at hfree
                    have hwa : WFS a k r = true := wfs_of_acc (parse_acc _ _ _ _ _ _ _ h) hw _ (by simp)
                    have hna := wfs_freeArm_noarm a k r (p.pc + sizeL acc.reverse + 1) hwa hfree.2
                    have hnbk := freeBrk_nobrk a (p.pc + sizeL acc.reverse + 1) hfree.1
                    have hpa : pendOf a (p.pc + sizeL acc.reverse + 1) = [] := by rw [pendOf_brk a _ hna, hnbk]; rfl
                    have r1 := ih rest (idx + 1) _ false [] _ k r hsub hwa hnb.tail (fun h => absurd h (by decide))
                      sA sA.code sA.dmap [] [] (Flow.vecF :: s.flows) mA nfA (fun h => absurd h (by decide)) hkA lA
                      (by simp) (by simp) ⟨rfl, rfl⟩ (by simp [pendL, fA])
                    unfold BlockOK2 at r1
                    obtain ⟨pca, nba, is2, s2, Xa, Da, m2, fl2, hh2, c2, d2, hola, tm2⟩ := r1
                    dsimp only at pca nba is2 m2 fl2 c2 d2 hola tm2
                    have fl2r := fl2
                    rw [wl_cons _ _ _ (by intro ff h; cases h)] at fl2
                    obtain ⟨w2, n2, l2, t2, hnx, hlw2, ct2⟩ := tm2
                    have e2 := termOf_inv n2 _ t2
                    simp only [termName] at e2
                    subst e2
                    subst hnx
                    have hfl2 : ({ s2 with lastTok := ti } : CState).flows = .vecF :: (wl st2.locals s.flows) := by
                      show s2.flows = _; rw [fl2, hpa]; rfl
                    have hcl := ((close_builder ({ s2 with lastTok := ti } : CState) (wl st2.locals s.flows)).1) hfl2
                    have hnf2 : ((topFun s2.flows).bind fun ff => rposition w2 ff.locals) = none := by rw [fl2r]; exact loc_after nfA is2 (pendOf_kinds _ _) w2 hlw2
                    have hstep2 := compile_imm' s2 _ w2 "]" rest2 ti hnf2 l2 (by decide) hcl
                    have hs1 : sizeL [Stmt.op idx (.native "<vec-begin>")] = 1 := by simp [sizeL, size]
                    have hs2 : sizeL [Stmt.op idx (.native "<vec-begin>"), a] = 1 + size a := by simp [sizeL, size]
                    have hHL : HoledL [.op idx (.native "<vec-begin>"), a, .op ti (.native "<vec-end>")] (p.pc + sizeL acc.reverse)
                        (([Op.native "<vec-begin>"] ++ Xa) ++ [Op.native "<vec-end>"]) (([idx] ++ Da) ++ [ti]) :=
                      holedL_append [_, _] [_] _ _ _ _ _
                        (holedL_append [_] [_] _ _ _ _ _ (holedL_one (holed_op idx _ _)) (holedL_one (by rw [hs1]; exact hola)))
                        (holedL_one (holed_op ti _ _))
                    refine step rest2 (ti + 1) { st2 with pc := p.pc } [.op ti (.native "<vec-end>"), a, .op idx (.native "<vec-begin>")]
                      { s2 with lastTok := ti, flows := (wl st2.locals s.flows), code := s2.code ++ [Op.native "<vec-end>"], dmap := s2.dmap ++ [ti] }
                      _ _ h rfl nba (m2.move _ _ rfl rfl rfl rfl)
                      (hh2.trans hidA) is2 hHL ?_ ?_ ?_
                      (hopen.trans (ct2.trans hstep2))
                    · simp [pendL, pendOf, size, hpa]
                    · show s2.code ++ _ = _; rw [c2, cA]; simp
                    · show s2.dmap ++ _ = _; rw [d2, dA]; simp
                  | _ => simp at h
              · -- { … }
                have hopen := compile_imm' s _ w "{" rest idx hnfs (by rw [hm.dict]; exact hl) (by decide) ((open_builder _).2.1)
                dsimp only at hopen
                generalize hsA : ({ s with lastTok := idx, flows := Flow.mapF :: s.flows, code := s.code ++ [Op.native "<map-begin>"], dmap := s.dmap ++ [idx] } : CState) = sA at hopen
                have fA : sA.flows = Flow.mapF :: s.flows := by subst hsA; rfl
                have cA : sA.code = s.code ++ [Op.native "<map-begin>"] := by subst hsA; rfl
                have dA : sA.dmap = s.dmap ++ [idx] := by subst hsA; rfl
                have hidA : sA.hiddenFlows = s.hiddenFlows := by subst hsA; rfl
                have mA : Match2 { p with pc := p.pc + sizeL acc.reverse + 1 } sA := by
                  subst hsA; exact hm.move _ _ rfl rfl rfl rfl
                have lA : sA.code.length = p.pc + sizeL acc.reverse + 1 := by rw [cA]; simp [hlen]
                have nfA : LocOK p.locals (Flow.mapF :: s.flows) := hlocs.cons _ (by intro ff h; cases h)
                have hkA : k = true → hasLoops (Flow.mapF :: s.flows) = true := fun h => by
                  rw [hasLoops_cons, hls, hk h]; rfl
                cases hsub : parseBlock f rest (idx + 1) { p with pc := p.pc + sizeL acc.reverse + 1 } false [] with
                | none => rw [hsub] at h; simp at h
                | some b1 =>
                  rw [hsub] at h
                  obtain ⟨a, tm, ti, rest2, nx, st2⟩ := b1
                  cases tm with
                  | rbrace =>
                    simp only at h
                    split at h
                    · simp at h
                    rename_i hfree
                    simp only [Bool.or_eq_true, not_or, Bool.not_eq_true] at hfree
                    have hwa : WFS a k r = true := wfs_of_acc (parse_acc _ _ _ _ _ _ _ h) hw _ (by simp)
                    have hna := wfs_freeArm_noarm a k r (p.pc + sizeL acc.reverse + 1) hwa hfree.2
                    have hnbk := freeBrk_nobrk a (p.pc + sizeL acc.reverse + 1) hfree.1
                    have hpa : pendOf a (p.pc + sizeL acc.reverse + 1) = [] := by rw [pendOf_brk a _ hna, hnbk]; rfl
                    have r1 := ih rest (idx + 1) _ false [] _ k r hsub hwa hnb.tail (fun h => absurd h (by decide))
                      sA sA.code sA.dmap [] [] (Flow.mapF :: s.flows) mA nfA (fun h => absurd h (by decide)) hkA lA
                      (by simp) (by simp) ⟨rfl, rfl⟩ (by simp [pendL, fA])
                    unfold BlockOK2 at r1
                    obtain ⟨pca, nba, is2, s2, Xa, Da, m2, fl2, hh2, c2, d2, hola, tm2⟩ := r1
                    dsimp only at pca nba is2 m2 fl2 c2 d2 hola tm2
                    have fl2r := fl2
                    rw [wl_cons _ _ _ (by intro ff h; cases h)] at fl2
                    obtain ⟨w2, n2, l2, t2, hnx, hlw2, ct2⟩ := tm2
                    have e2 := termOf_inv n2 _ t2
                    simp only [termName] at e2
                    subst e2
                    subst hnx
                    have hfl2 : ({ s2 with lastTok := ti } : CState).flows = .mapF :: (wl st2.locals s.flows) := by
                      show s2.flows = _; rw [fl2, hpa]; rfl
                    have hcl := ((close_builder ({ s2 with lastTok := ti } : CState) (wl st2.locals s.flows)).2.1) hfl2
                    have hnf2 : ((topFun s2.flows).bind fun ff => rposition w2 ff.locals) = none := by rw [fl2r]; exact loc_after nfA is2 (pendOf_kinds _ _) w2 hlw2
                    have hstep2 := compile_imm' s2 _ w2 "}" rest2 ti hnf2 l2 (by decide) hcl
                    have hs1 : sizeL [Stmt.op idx (.native "<map-begin>")] = 1 := by simp [sizeL, size]
                    have hs2 : sizeL [Stmt.op idx (.native "<map-begin>"), a] = 1 + size a := by simp [sizeL, size]
                    have hHL : HoledL [.op idx (.native "<map-begin>"), a, .op ti (.native "<map-end>")] (p.pc + sizeL acc.reverse)
                        (([Op.native "<map-begin>"] ++ Xa) ++ [Op.native "<map-end>"]) (([idx] ++ Da) ++ [ti]) :=
                      holedL_append [_, _] [_] _ _ _ _ _
                        (holedL_append [_] [_] _ _ _ _ _ (holedL_one (holed_op idx _ _)) (holedL_one (by rw [hs1]; exact hola)))
                        (holedL_one (holed_op ti _ _))
                    refine step rest2 (ti + 1) { st2 with pc := p.pc } [.op ti (.native "<map-end>"), a, .op idx (.native "<map-begin>")]
                      { s2 with lastTok := ti, flows := (wl st2.locals s.flows), code := s2.code ++ [Op.native "<map-end>"], dmap := s2.dmap ++ [ti] }
                      _ _ h rfl nba (m2.move _ _ rfl rfl rfl rfl)
                      (hh2.trans hidA) is2 hHL ?_ ?_ ?_
                      (hopen.trans (ct2.trans hstep2))
                    · simp [pendL, pendOf, size, hpa]
                    · show s2.code ++ _ = _; rw [c2, cA]; simp
                    · show s2.dmap ++ _ = _; rw [d2, dA]; simp
                  | _ => simp at h
              · -- ^{ … ^}
                have hopen := compile_imm' s _ w "^{" rest idx hnfs (by rw [hm.dict]; exact hl) (by decide) ((open_builder _).2.2)
                dsimp only at hopen
                generalize hsA : ({ s with lastTok := idx, flows := Flow.tagsF :: s.flows, code := s.code ++ [Op.native "<vec-begin>"], dmap := s.dmap ++ [idx] } : CState) = sA at hopen
                have fA : sA.flows = Flow.tagsF :: s.flows := by subst hsA; rfl
                have cA : sA.code = s.code ++ [Op.native "<vec-begin>"] := by subst hsA; rfl
                have dA : sA.dmap = s.dmap ++ [idx] := by subst hsA; rfl
                have hidA : sA.hiddenFlows = s.hiddenFlows := by subst hsA; rfl
                have mA : Match2 { p with pc := p.pc + sizeL acc.reverse + 1 } sA := by
                  subst hsA; exact hm.move _ _ rfl rfl rfl rfl
                have lA : sA.code.length = p.pc + sizeL acc.reverse + 1 := by rw [cA]; simp [hlen]
                have nfA : LocOK p.locals (Flow.tagsF :: s.flows) := hlocs.cons _ (by intro ff h; cases h)
                have hkA : k = true → hasLoops (Flow.tagsF :: s.flows) = true := fun h => by
                  rw [hasLoops_cons, hls, hk h]; rfl
                cases hsub : parseBlock f rest (idx + 1) { p with pc := p.pc + sizeL acc.reverse + 1 } false [] with
                | none => rw [hsub] at h; simp at h
                | some b1 =>
                  rw [hsub] at h
                  obtain ⟨a, tm, ti, rest2, nx, st2⟩ := b1
                  cases tm with
                  | rtags =>
                    simp only at h
                    split at h
                    · simp at h
                    rename_i hfree
                    simp only [Bool.or_eq_true, not_or, Bool.not_eq_true] at hfree
                    have hwa : WFS a k r = true := wfs_of_acc (parse_acc _ _ _ _ _ _ _ h) hw _ (by simp)
                    have hna := wfs_freeArm_noarm a k r (p.pc + sizeL acc.reverse + 1) hwa hfree.2
                    have hnbk := freeBrk_nobrk a (p.pc + sizeL acc.reverse + 1) hfree.1
                    have hpa : pendOf a (p.pc + sizeL acc.reverse + 1) = [] := by rw [pendOf_brk a _ hna, hnbk]; rfl
                    have r1 := ih rest (idx + 1) _ false [] _ k r hsub hwa hnb.tail (fun h => absurd h (by decide))
                      sA sA.code sA.dmap [] [] (Flow.tagsF :: s.flows) mA nfA (fun h => absurd h (by decide)) hkA lA
                      (by simp) (by simp) ⟨rfl, rfl⟩ (by simp [pendL, fA])
                    unfold BlockOK2 at r1
                    obtain ⟨pca, nba, is2, s2, Xa, Da, m2, fl2, hh2, c2, d2, hola, tm2⟩ := r1
                    dsimp only at pca nba is2 m2 fl2 c2 d2 hola tm2
                    have fl2r := fl2
                    rw [wl_cons _ _ _ (by intro ff h; cases h)] at fl2
                    obtain ⟨w2, n2, l2, t2, hnx, hlw2, ct2⟩ := tm2
                    have e2 := termOf_inv n2 _ t2
                    simp only [termName] at e2
                    subst e2
                    subst hnx
                    have hfl2 : ({ s2 with lastTok := ti } : CState).flows = .tagsF :: (wl st2.locals s.flows) := by
                      show s2.flows = _; rw [fl2, hpa]; rfl
                    have hcl := ((close_builder ({ s2 with lastTok := ti } : CState) (wl st2.locals s.flows)).2.2) hfl2
                    have hnf2 : ((topFun s2.flows).bind fun ff => rposition w2 ff.locals) = none := by rw [fl2r]; exact loc_after nfA is2 (pendOf_kinds _ _) w2 hlw2
                    have hstep2 := compile_imm' s2 _ w2 "^}" rest2 ti hnf2 l2 (by decide) hcl
                    have hs1 : sizeL [Stmt.op idx (.native "<vec-begin>")] = 1 := by simp [sizeL, size]
                    have hs2 : sizeL [Stmt.op idx (.native "<vec-begin>"), a] = 1 + size a := by simp [sizeL, size]
                    have hHL : HoledL [.op idx (.native "<vec-begin>"), a, .op ti (.native "<tags-end>")] (p.pc + sizeL acc.reverse)
                        (([Op.native "<vec-begin>"] ++ Xa) ++ [Op.native "<tags-end>"]) (([idx] ++ Da) ++ [ti]) :=
                      holedL_append [_, _] [_] _ _ _ _ _
                        (holedL_append [_] [_] _ _ _ _ _ (holedL_one (holed_op idx _ _)) (holedL_one (by rw [hs1]; exact hola)))
                        (holedL_one (holed_op ti _ _))
                    refine step rest2 (ti + 1) { st2 with pc := p.pc } [.op ti (.native "<tags-end>"), a, .op idx (.native "<vec-begin>")]
                      { s2 with lastTok := ti, flows := (wl st2.locals s.flows), code := s2.code ++ [Op.native "<tags-end>"], dmap := s2.dmap ++ [ti] }
                      _ _ h rfl nba (m2.move _ _ rfl rfl rfl rfl)
                      (hh2.trans hidA) is2 hHL ?_ ?_ ?_
                      (hopen.trans (ct2.trans hstep2))
                    · simp [pendL, pendOf, size, hpa]
                    · show s2.code ++ _ = _; rw [c2, cA]; simp
                    · show s2.dmap ++ _ = _; rw [d2, dA]; simp
                  | _ => simp at h
              · -- break
                have hwb : WFS (.brk idx) k r = true := wfs_of_acc (parse_acc _ _ _ _ _ _ _ h) hw _ (by simp)
                have hkt : k = true := by simpa [WFS] using hwb
                have hl1 : hasLoops ({ s with lastTok := idx } : CState).flows = true := by show hasLoops s.flows = true; rw [hls]; exact hk hkt
                have himm : immediate ({ s with lastTok := idx } : CState) "break" =
                    .ok { s with lastTok := idx, flows := Flow.breakF s.code.length :: s.flows, code := s.code ++ [Op.jump 0], dmap := s.dmap ++ [idx] } := by
                  simp [immediate, hl1, CState.emit, CState.pushFlow, CState.origin]
                have hopen := compile_imm' s _ w "break" rest idx hnfs (by rw [hm.dict]; exact hl) (by decide) himm
                refine step rest (idx + 1) p [.brk idx]
                  { s with lastTok := idx, flows := Flow.breakF s.code.length :: s.flows, code := s.code ++ [Op.jump 0], dmap := s.dmap ++ [idx] }
                  [Op.jump 0] [idx] h rfl hnb.tail (hm.same rfl rfl rfl rfl) rfl rfl (holedL_one (holed_brk idx _)) ?_ rfl rfl hopen
                simp [pendL, pendOf, hlen, hwls]
              · -- nil
                refine simpleOp rest (idx + 1) idx .loadNil h hnb.tail ?_
                exact compile_imm' s _ w "nil" rest idx hnfs (by rw [hm.dict]; exact hl) (by decide) (by simp [immediate])
              · -- ^hex
                have hs1 : sizeL [Stmt.op idx (Compile.loadValueOp (.int 16))] = 1 := by simp [sizeL, size]
                refine step rest (idx + 1) p [.op idx (.native "<fmt-base>"), .op idx (Compile.loadValueOp (.int 16))]
                  (emitNative (({ s with lastTok := idx } : CState).emit (Compile.loadValueOp (.int 16))) "<fmt-base>")
                  ([Compile.loadValueOp (.int 16)] ++ [Op.native "<fmt-base>"]) ([idx] ++ [idx])
                  h rfl hnb.tail (hm.same rfl rfl rfl rfl) rfl rfl
                  (holedL_append [_] [_] _ _ _ _ _ (holedL_one (holed_op idx _ _)) (holedL_one (holed_op idx _ _)))
                  (by simp [pendL, pendOf, emitNative, CState.emit, hwls]) (by simp [emitNative, CState.emit]) (by simp [emitNative, CState.emit])
                  (compile_imm' s _ w "^hex" rest idx hnfs (by rw [hm.dict]; exact hl) (by decide) (by simp [immediate]))
              · -- ^dec
                have hs1 : sizeL [Stmt.op idx (Compile.loadValueOp (.int 10))] = 1 := by simp [sizeL, size]
                refine step rest (idx + 1) p [.op idx (.native "<fmt-base>"), .op idx (Compile.loadValueOp (.int 10))]
                  (emitNative (({ s with lastTok := idx } : CState).emit (Compile.loadValueOp (.int 10))) "<fmt-base>")
                  ([Compile.loadValueOp (.int 10)] ++ [Op.native "<fmt-base>"]) ([idx] ++ [idx])
                  h rfl hnb.tail (hm.same rfl rfl rfl rfl) rfl rfl
                  (holedL_append [_] [_] _ _ _ _ _ (holedL_one (holed_op idx _ _)) (holedL_one (holed_op idx _ _)))
                  (by simp [pendL, pendOf, emitNative, CState.emit, hwls]) (by simp [emitNative, CState.emit]) (by simp [emitNative, CState.emit])
                  (compile_imm' s _ w "^dec" rest idx hnfs (by rw [hm.dict]; exact hl) (by decide) (by simp [immediate]))
              · -- ^oct
                have hs1 : sizeL [Stmt.op idx (Compile.loadValueOp (.int 8))] = 1 := by simp [sizeL, size]
                refine step rest (idx + 1) p [.op idx (.native "<fmt-base>"), .op idx (Compile.loadValueOp (.int 8))]
                  (emitNative (({ s with lastTok := idx } : CState).emit (Compile.loadValueOp (.int 8))) "<fmt-base>")
                  ([Compile.loadValueOp (.int 8)] ++ [Op.native "<fmt-base>"]) ([idx] ++ [idx])
                  h rfl hnb.tail (hm.same rfl rfl rfl rfl) rfl rfl
                  (holedL_append [_] [_] _ _ _ _ _ (holedL_one (holed_op idx _ _)) (holedL_one (holed_op idx _ _)))
                  (by simp [pendL, pendOf, emitNative, CState.emit, hwls]) (by simp [emitNative, CState.emit]) (by simp [emitNative, CState.emit])
                  (compile_imm' s _ w "^oct" rest idx hnfs (by rw [hm.dict]; exact hl) (by decide) (by simp [immediate]))
              · -- ^bin
                have hs1 : sizeL [Stmt.op idx (Compile.loadValueOp (.int 2))] = 1 := by simp [sizeL, size]
                refine step rest (idx + 1) p [.op idx (.native "<fmt-base>"), .op idx (Compile.loadValueOp (.int 2))]
                  (emitNative (({ s with lastTok := idx } : CState).emit (Compile.loadValueOp (.int 2))) "<fmt-base>")
                  ([Compile.loadValueOp (.int 2)] ++ [Op.native "<fmt-base>"]) ([idx] ++ [idx])
                  h rfl hnb.tail (hm.same rfl rfl rfl rfl) rfl rfl
                  (holedL_append [_] [_] _ _ _ _ _ (holedL_one (holed_op idx _ _)) (holedL_one (holed_op idx _ _)))
                  (by simp [pendL, pendOf, emitNative, CState.emit, hwls]) (by simp [emitNative, CState.emit]) (by simp [emitNative, CState.emit])
                  (compile_imm' s _ w "^bin" rest idx hnfs (by rw [hm.dict]; exact hl) (by decide) (by simp [immediate]))
              · -- fmt/prefix
                refine simpleOp rest (idx + 1) idx (.native "<fmt-prefix>") h hnb.tail ?_
                exact compile_imm' s _ w "fmt/prefix" rest idx hnfs (by rw [hm.dict]; exact hl) (by decide) (by simp [immediate, emitNative])
              · -- fmt/tags
                refine simpleOp rest (idx + 1) idx (.native "<fmt-tags>") h hnb.tail ?_
                exact compile_imm' s _ w "fmt/tags" rest idx hnfs (by rw [hm.dict]; exact hl) (by decide) (by simp [immediate, emitNative])
              · -- fmt/upcase
                refine simpleOp rest (idx + 1) idx (.native "<fmt-upcase>") h hnb.tail ?_
                exact compile_imm' s _ w "fmt/upcase" rest idx hnfs (by rw [hm.dict]; exact hl) (by decide) (by simp [immediate, emitNative])
              · -- : name … ;
                rcases rest with _ | ⟨tk, rest'⟩
                · simp at h
                rcases tk with c | name
                · simp at h
                simp only at h
                split at h
                · simp at h
                rename_i hnl
                have hpl : p.locals = none := by cases hp : p.locals <;> simp_all
                have hw' : withName ({ s with lastTok := idx + 1 } : CState) ":" name =
                    .ok { s with lastTok := idx + 1, flows := Flow.funF { start := s.code.length, locals := [] } :: s.flows, code := s.code ++ [Op.jump 0], dmap := s.dmap ++ [idx + 1], dict := (name, Entry.interp false (s.code.length + 1)) :: s.dict } := by
                  simp [withName, CState.emit, CState.pushFlow, CState.origin]
                have hopen := compile_named' s _ w ":" name rest' idx hnfs (by rw [hm.dict]; exact hl) (by decide) (by decide) hw'
                generalize hsA : ({ s with lastTok := idx + 1, flows := Flow.funF { start := s.code.length, locals := [] } :: s.flows, code := s.code ++ [Op.jump 0], dmap := s.dmap ++ [idx + 1], dict := (name, Entry.interp false (s.code.length + 1)) :: s.dict } : CState) = sA at hopen
                have fA : sA.flows = Flow.funF { start := s.code.length, locals := [] } :: s.flows := by subst hsA; rfl
                have cA : sA.code = s.code ++ [Op.jump 0] := by subst hsA; rfl
                have dA : sA.dmap = s.dmap ++ [idx + 1] := by subst hsA; rfl
                have hidA : sA.hiddenFlows = s.hiddenFlows := by subst hsA; rfl
                have mA : Match2 { p with pc := p.pc + sizeL acc.reverse + 1, locals := some ([] : List String), dict := (name, Entry.interp false (p.pc + sizeL acc.reverse + 1)) :: p.dict } sA := by
                  subst hsA
                  exact ⟨by show (name, Entry.interp false (s.code.length + 1)) :: s.dict = _; rw [hm.dict, hlen], hm.heap, hm.lim, hm.notMeta⟩
                have lA : sA.code.length = p.pc + sizeL acc.reverse + 1 := by rw [cA]; simp [hlen]
                have nfA : LocOK (some ([] : List String)) (Flow.funF { start := s.code.length, locals := [] } :: s.flows) := rfl
                cases hsub : parseBlock f rest' (idx + 2) { p with pc := p.pc + sizeL acc.reverse + 1, locals := some ([] : List String), dict := (name, Entry.interp false (p.pc + sizeL acc.reverse + 1)) :: p.dict } false [] with
                | none => rw [hsub] at h; simp at h
                | some b1 =>
                  rw [hsub] at h
                  obtain ⟨a, tm, ti, rest2, nx, st2⟩ := b1
                  cases tm with
                  | semiT =>
                    simp only at h
                    split at h
                    · simp at h
                    rename_i hfree
                    simp only [Bool.or_eq_true, not_or, Bool.not_eq_true] at hfree
                    have hwc : WFS (.defn (idx + 1) ti a) k r = true := wfs_of_acc (parse_acc _ _ _ _ _ _ _ h) hw _ (by simp)
                    have hwa : WFS a false false = true := by simpa [WFS] using hwc
                    have hna := wfs_noarm a false (p.pc + sizeL acc.reverse + 1) hwa
                    have hnbk := wfs_nobrk a false (p.pc + sizeL acc.reverse + 1) hwa
                    have hpa : pendOf a (p.pc + sizeL acc.reverse + 1) = [] := by rw [pendOf_brk a _ hna, hnbk]; rfl
                    have r1 := ih rest' (idx + 2) _ false [] _ false false hsub hwa trivial (fun h => absurd h (by decide))
                      sA sA.code sA.dmap [] [] (Flow.funF { start := s.code.length, locals := [] } :: s.flows) mA nfA (fun h => absurd h (by decide))
                      (fun h => absurd h (by decide)) lA (by simp) (by simp) ⟨rfl, rfl⟩ (by simp [pendL, fA])
                    unfold BlockOK2 at r1
                    obtain ⟨pca, nba, is2, s2, Xa, Da, m2, fl2, hh2, c2, d2, hola, tm2⟩ := r1
                    dsimp only at pca nba is2 m2 fl2 c2 d2 hola tm2
                    have fl2r := fl2
                    obtain ⟨w2, n2, l2, t2, hnx, hlw2, ct2⟩ := tm2
                    have e2 := termOf_inv n2 _ t2
                    simp only [termName] at e2
                    subst e2
                    subst hnx
                    have hcode2 : s2.code = s.code ++ Op.jump 0 :: Xa := by rw [c2, cA]; simp
                    have hfl2 : ({ s2 with lastTok := ti } : CState).flows = .funF { start := s.code.length, locals := st2.locals.getD [] } :: s.flows := by
                      show s2.flows = _; rw [fl2, hpa]; rfl
                    have hcl := close_semi ({ s2 with lastTok := ti } : CState) s.code Xa _ s.flows hcode2 hfl2 rfl
                    have hnf2 : ((topFun s2.flows).bind fun ff => rposition w2 ff.locals) = none := by
                      rw [fl2r]; exact loc_after nfA is2 (pendOf_kinds _ _) w2 hlw2
                    have hstep2 := compile_imm' s2 _ w2 ";" rest2 ti hnf2 l2 (by decide) hcl
                    have hwls' : wl (none : Option (List String)) s.flows = s.flows := by rw [← hpl]; exact hwls
                    refine step rest2 (ti + 1) { st2 with pc := p.pc, locals := none, funs := (p.pc + sizeL acc.reverse + 1, a, ti) :: st2.funs } [.defn (idx + 1) ti a]
                      { s2 with lastTok := ti, flows := s.flows, code := s.code ++ Op.jump ((Xa.length + 2 : Nat) : Int) :: (Xa ++ [Op.ret]), dmap := s2.dmap ++ [ti] }
                      (Op.jump ((Xa.length + 2 : Nat) : Int) :: (Xa ++ [Op.ret])) ((idx + 1) :: (Da ++ [ti])) h rfl trivial
                      ⟨m2.dict, m2.heap, m2.lim, m2.notMeta⟩ (hh2.trans hidA) (by rw [hpl]) (holedL_one (holed_defn (idx + 1) ti hola hnbk hna))
                      (by simp [pendL, pendOf, hwls']) rfl ?_ (hopen.trans (ct2.trans hstep2))
                    show s2.dmap ++ [ti] = _; rw [d2, dA]; simp
                  | _ => simp at h
              · -- local name
                rcases rest with _ | ⟨tk, rest'⟩
                · simp at h
                rcases tk with c | name
                · simp at h
                cases hpl : p.locals with
                | none => rw [hpl] at h; simp at h
                | some ls =>
                  rw [hpl] at h
                  simp only at h
                  have hlo := hlocs
                  unfold LocOK at hlo
                  rw [hpl] at hlo
                  obtain ⟨ff, hff, hffl⟩ : ∃ ff, topFun s.flows = some ff ∧ ff.locals = ls := by
                    cases htf : topFun s.flows with
                    | none => rw [htf] at hlo; simp at hlo
                    | some ff => rw [htf] at hlo; simp at hlo; exact ⟨ff, rfl, hlo.symm⟩
                  have hw' : withName ({ s with lastTok := idx + 1 } : CState) "local" name =
                      .ok (({ s with lastTok := idx + 1, flows := setLoc (ls ++ [name]) s.flows } : CState).emit (.initLocal ls.length)) := by
                    simp [withName, buildLocal, hff, setTopFun_eq s.flows ff _ hff, hffl]
                  have hct := compile_named' s _ w "local" name rest' idx hnfs (by rw [hm.dict]; exact hl) (by decide) (by decide) hw'
                  refine step rest' (idx + 2) { p with locals := some (ls ++ [name]) } [.op (idx + 1) (.initLocal ls.length)]
                    (({ s with lastTok := idx + 1, flows := setLoc (ls ++ [name]) s.flows } : CState).emit (.initLocal ls.length))
                    [Op.initLocal ls.length] [idx + 1] h rfl trivial ⟨hm.dict, hm.heap, hm.lim, hm.notMeta⟩ rfl (by rw [hpl]; rfl) (holedL_one (holed_op _ _ _))
                    (by simp [pendL, pendOf, CState.emit, wl]) (by simp [CState.emit]) (by simp [CState.emit]) hct
              · -- var name
                rcases rest with _ | ⟨tk, rest'⟩
                · simp at h
                rcases tk with c | name
                · simp at h
                simp only at h
                split at h
                · rename_i htop'
                  have hF := htop htop'
                  have hkr := htk htop'
                  have hpn : pendL acc.reverse p.pc = [] := pendL_nil_of_wfs _ _ (fun x hx => by
                    have := haccw x (List.mem_reverse.mp hx); rw [hkr.1, hkr.2] at this; exact this)
                  have hfe : s.flows = [] := by rw [hfl, hpn, hF.1]; rfl
                  have hw' : withName ({ s with lastTok := idx + 1 } : CState) "var" name =
                      .ok ((({ s with lastTok := idx + 1, heapLen := s.heapLen + 1, dict := (name, Entry.var s.heapLen) :: s.dict } : CState)).emit (.store s.heapLen)) := by
                    simp [withName, buildGlobal, hfe, hF.2, hm.notMeta, hm.lim]
                  have hct := compile_named' s _ w "var" name rest' idx hnfs (by rw [hm.dict]; exact hl) (by decide) (by decide) hw'
                  refine step rest' (idx + 2) { p with dict := (name, Entry.var p.heapLen) :: p.dict, heapLen := p.heapLen + 1 }
                    [.op (idx + 1) (.store p.heapLen)]
                    ((({ s with lastTok := idx + 1, heapLen := s.heapLen + 1, dict := (name, Entry.var s.heapLen) :: s.dict } : CState)).emit (.store s.heapLen))
                    [Op.store p.heapLen] [idx + 1] h rfl (hnb.tail.tail.var name _) ?_ rfl rfl (holedL_one (holed_op _ _ _))
                    (by simp [pendL, pendOf, CState.emit, hwls]) (by simp [CState.emit, hm.heap]) (by simp [CState.emit]) hct
                  exact ⟨by show (name, Entry.var s.heapLen) :: s.dict = _; rw [hm.dict, hm.heap],
                    by show s.heapLen + 1 = _; rw [hm.heap], hm.lim, hm.notMeta⟩
                · simp at h
              · -- ! name
                rcases rest with _ | ⟨tk, rest'⟩
                · simp at h
                rcases tk with c | name
                · simp at h
                simp only at h
                split at h
                · rename_i a hla
                  have hw' : withName ({ s with lastTok := idx + 1 } : CState) "!" name =
                      .ok (({ s with lastTok := idx + 1 } : CState).emit (.store a)) := by
                    simp [withName, hm.dict, hla]
                  have hct := compile_named' s _ w "!" name rest' idx hnfs (by rw [hm.dict]; exact hl) (by decide) (by decide) hw'
                  exact simpleOp rest' (idx + 2) (idx + 1) (.store a) h hnb.tail.tail hct
                · simp at h
              · -- defined name
                rcases rest with _ | ⟨tk, rest'⟩
                · simp at h
                rcases tk with c | name
                · simp at h
                simp only at h
                have hw' : withName ({ s with lastTok := idx + 1 } : CState) "defined" name =
                    .ok (({ s with lastTok := idx + 1 } : CState).emit (Compile.loadValueOp (.flag (p.dict.lookup name).isSome))) := by
                  simp [withName, hm.dict]
                have hct := compile_named' s _ w "defined" name rest' idx hnfs (by rw [hm.dict]; exact hl) (by decide) (by decide) hw'
                exact simpleOp rest' (idx + 2) (idx + 1) _ h hnb.tail.tail hct
              · simp at h

/-- **link 2.** For every token list that `parseS` accepts: the flow-stack compiler, started on a state that matches the
    parser's (same dictionary and heap size, nothing pending, no heap limit, outside a meta block, no definition
    open), succeeds and appends exactly the code and the debug map of `compileS (parseS toks)` — conditionals, `case`,
    every kind of loop, `break` (emitted as `jump 0` and patched, or turned into a `Break` opcode, when its loop
    closes), builders, variables, definitions (the name bound before the body is read, so recursion compiles) and
    locals (kept inside the definition's entry on the pending-flow stack). -/
theorem flow_compiler_agrees2 (toks : List Tok) (ps ps' : PState) (st : Stmt) (s0 : CState)
    (hp : parseS toks ps = some (st, ps')) (hm : Match2 ps s0) (hloc0 : ps.locals = none)
    (hfl : s0.flows = []) (hhid : s0.hiddenFlows = 0) (hpc : s0.code.length = ps.pc) :
    ∃ s, compileToks toks 0 s0 = .ok s ∧
      s.code = s0.code ++ (compileS st .none none).map (·.1) ∧
      s.dmap = s0.dmap ++ (compileS st .none none).map (·.2) ∧
      s.dict = ps'.dict ∧ s.heapLen = ps'.heapLen ∧ s.flows = [] := by
  unfold parseS at hp
  cases hb : parseBlock (2 * toks.length + 2) toks 0 ps true [] with
  | none => rw [hb] at hp; simp at hp
  | some blk =>
    rw [hb] at hp
    obtain ⟨stmt, tm, ti, rest, nx, st'⟩ := blk
    cases tm with
    | eof =>
      simp only at hp
      split at hp
      · rename_i hwp
        simp only [Option.some.injEq, Prod.mk.injEq] at hp
        obtain ⟨rfl, rfl⟩ := hp
        have hw : WFS stmt false false = true := by
          simp only [Bool.and_eq_true] at hwp; exact hwp.1
        have r := block_sim2 _ toks 0 ps true [] _ false false hb hw trivial (fun _ => ⟨rfl, rfl⟩) s0 s0.code s0.dmap [] [] []
          hm (by unfold LocOK; rw [hloc0]; rfl) (fun _ => ⟨rfl, hhid⟩) (fun h => absurd h (by decide)) hpc (by simp) (by simp) ⟨rfl, rfl⟩ (by simp [pendL, hfl])
        unfold BlockOK2 at r
        obtain ⟨_, _, _, s', X, D, m', fl, _, c', d', hol, tm'⟩ := r
        dsimp only at m' fl c' d' hol tm'
        have hwn : wl st'.locals ([] : List Flow) = [] := rfl
        rw [hwn] at fl
        have hna := wfs_noarm stmt false ps.pc hw
        have hnbk := wfs_nobrk stmt false ps.pc hw
        have hfl' : s'.flows = [] := by rw [fl, pendOf_brk stmt _ hna, hnbk]; rfl
        have hX := hol.closed hnbk hna .none none
        have hD := hol.dmap .none none
        refine ⟨s', ?_, by rw [c', hX], by rw [d', ← hD], m'.dict, m'.heap, hfl'⟩
        rw [tm'.2]
        simp [compileToks, hfl']
      · simp at hp
    | _ => simp at hp

end Xeh.Structured
