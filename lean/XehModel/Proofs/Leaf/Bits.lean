/-
Tie B, bridge theorems (DESIGN §4.2) — `upper_bound_index`, `cut_bits`, `bit_mask` (bitstr.rs). The left-hand sides are re-translated from /repo/src/*.rs on every run
(Generated/Leaf.lean); one module per group of functions, so that a property depends on — and is alarmed by — exactly
the functions its theorems rest on.
-/
import XehModel.Proofs.Leaf.Common

namespace Xeh.LeafBridge
open Xeh.MI Xeh.Generated Xeh.LeafSpec

section symbolic
seal evalE binop unify arith coerce coerceAll meth1 meth2 meth2Same unop castTo bindArgs fit Ty.wrap Ty.toU bitAnd bitOr bitXor bitNot shlW shrW

/-- **`upper_bound_index`**: ⌈n / 8⌉ -/
theorem upperBoundIndex_matches_source (p : Profile) (n : Nat) (hn : n < 2^64) :
    evalFn p src_upper_bound_index [(n : Int)] = .ok [(upperBoundIndex n : Nat)] := by
  by_cases h : (n : Int) % 8 > 0
  all_goals
    apply evalFn_ok
    mi_eval
    unfold upperBoundIndex
    mi_finish

/-- `cut_bits` evaluated symbolically: only the residues `start % 8` and the clipped length reach
    the byte-level computation -/
theorem cutBits_eval (p : Profile) (x s e : Nat) (hx : x < 256) (hs : s ≤ e) (he : e < 2^64) :
    evalFn p src_cut_bits [(x : Int), s, e] =
      .ok [cutCore x ((s % 8 : Nat) : Int) ((cutBitsLen s e : Nat) : Int), ((cutBitsLen s e : Nat) : Int)] := by
  have e1 : (s : Int) % 8 = ((s % 8 : Nat) : Int) := by omega
  have e2 : min ((e : Int) - s) (8 - ((s % 8 : Nat) : Int)) = ((cutBitsLen s e : Nat) : Int) := by
    unfold cutBitsLen; omega
  apply evalFn_ok
  mi_eval
  simp only [List.map_cons, List.map_nil, cutCore, e1, e2]

end symbolic
/-- **`cut_bits`** (bitstr.rs): for every byte, every bit range `start ≤ end` in the address space and
    both build profiles the Rust function returns the `cutBitsLen` bits of the byte from bit
    `start % 8`, as a number, and that length; it never panics. -/
theorem cutBits_matches_source (p : Profile) (x s e : Nat) (hx : x < 256) (hs : s ≤ e) (he : e < 2^64) :
    evalFn p src_cut_bits [(x : Int), s, e] = .ok [(cutBitsVal x s e : Nat), (cutBitsLen s e : Nat)] := by
  rw [cutBits_eval p x s e hx hs he]
  have hsb : s % 8 < 8 := Nat.mod_lt _ (by decide)
  have hlen : cutBitsLen s e < 9 := by unfold cutBitsLen; omega
  have hsum : s % 8 + cutBitsLen s e ≤ 8 := by unfold cutBitsLen; omega
  rw [cutCore_spec x (s % 8) (cutBitsLen s e) hx hsb hlen hsum]; rfl

/-- … and those are bits `start % 8 ..` of the byte, most significant first -/
theorem cutBitsVal_bits (x s e : Nat) (hx : x < 256) :
    cutBitsVal x s e = cutBitsBits x (s % 8) (cutBitsLen s e) := by
  have hsb : s % 8 < 8 := Nat.mod_lt _ (by decide)
  have hlen : cutBitsLen s e < 9 := by unfold cutBitsLen; omega
  have hsum : s % 8 + cutBitsLen s e ≤ 8 := by unfold cutBitsLen; omega
  exact cutBits_bits x (s % 8) (cutBitsLen s e) hx hsb hlen hsum

/-- **`bit_mask`**: `2^len − 1` for every length a byte can hold -/
theorem bitMask_matches_source (p : Profile) (len : Nat) (h : len ≤ 8) :
    evalFn p src_bit_mask [(len : Int)] = .ok [(bitMask len : Nat)] := by
  have key : ∀ p : Profile, ∀ l : Fin 9, evalFn p src_bit_mask [(l.val : Int)] = .ok [(bitMask l.val : Nat)] := by
    intro p; cases p <;> decide
  exact key p ⟨len, by omega⟩


example : evalFn .debug src_cut_bits [0xA5, 9, 13] = .ok [4, 4] := by decide +kernel
/-- `start > end` is outside `cut_bits`' contract: a debug build panics -/
example : evalFn .debug src_cut_bits [0, 5, 4] = .panic "attempt to subtract with overflow" := by decide +kernel

end Xeh.LeafBridge
