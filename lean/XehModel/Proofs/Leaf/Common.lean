/-
Tie B, bridge theorems — what the per-function modules share: the scope check of the translator's output and the
closing tactic.
-/
import XehModel.Model.LeafSpec
import XehModel.Generated.Leaf
import XehModel.Proofs.LeafLemmas
import XehModel.Proofs.LeafFinite
import XehModel.Proofs.LeafFiniteBits

namespace Xeh.LeafBridge
open Xeh.MI Xeh.Generated Xeh.LeafSpec

/-- the de Bruijn indices the translator computed agree with the source names (so `extract.py`'s
    scope resolution is checked, not trusted) -/
theorem src_wellScoped : ∀ f ∈ src_all_fns, f.wellScoped = true := by decide

/-- close `List.map (·.v) [⟨a, t⟩, …] = [b, …]` by linear arithmetic -/
macro "mi_finish" : tactic =>
  `(tactic| (simp only [List.map_cons, List.map_nil, List.cons.injEq, and_true, true_and, List.cons_append, List.nil_append,
               List.append_nil, boolVal, eq_self, Bool.false_eq_true, if_true, if_false] <;> omega))


end Xeh.LeafBridge
