/-
Tie B, bridge theorems (DESIGN §4.2) — `relative_index`, `slicing_index` (state.rs). The left-hand sides are re-translated from /repo/src/*.rs on every run
(Generated/Leaf.lean); one module per group of functions, so that a property depends on — and is alarmed by — exactly
the functions its theorems rest on.
-/
import XehModel.Proofs.Leaf.Common

namespace Xeh.LeafBridge
open Xeh.MI Xeh.Generated Xeh.LeafSpec

section symbolic
seal evalE binop unify arith coerce coerceAll meth1 meth2 meth2Same unop castTo bindArgs fit Ty.wrap Ty.toU bitAnd bitOr bitXor bitNot shlW shrW

/-- `Option<usize>` as the evaluator returns it: tag, payload -/
def optEnc : Option Nat → List Int
  | none => [0, 0]
  | some k => [1, (k : Int)]

/-- **`relative_index`**: Python-style index, `None` outside -/
theorem relativeIndex_matches_source (p : Profile) (len : Nat) (i : Int) (hl : len < 2^64)
    (hi1 : -(2^63) ≤ i) (hi2 : i < 2^63) :
    evalFn p src_relative_index [(len : Int), i] = .ok (optEnc (relativeIndex len i)) := by
  by_cases h1 : i < 0
  · have e1 : ¬ (0 ≤ i) := by omega
    by_cases h2 : (i.natAbs : Int) > len
    · have e2 : ¬ (0 ≤ (len : Int) + i) := by omega
      apply evalFn_ok
      mi_eval
      simp [relativeIndex, e1, e2, optEnc]
    · have e2 : 0 ≤ (len : Int) + i := by omega
      apply evalFn_ok
      mi_eval
      simp only [relativeIndex, e1, e2, if_true, if_false, optEnc]
      mi_finish
  · have e1 : 0 ≤ i := by omega
    by_cases h2 : i < len
    · apply evalFn_ok
      mi_eval
      simp only [relativeIndex, e1, h2, if_true, optEnc]
      mi_finish
    · apply evalFn_ok
      mi_eval
      simp [relativeIndex, e1, h2, optEnc]

/-- **`slicing_index`**: Python-style slice bound, clamped to `0 ..= len` -/
theorem slicingIndex_matches_source (p : Profile) (i : Int) (len : Nat) (hl : len < 2^64)
    (hi1 : -(2^63) ≤ i) (hi2 : i < 2^63) :
    evalFn p src_slicing_index [i, (len : Int)] = .ok [(slicingIndex i len : Nat)] := by
  by_cases h1 : i < 0
  all_goals
    apply evalFn_ok
    mi_eval
    unfold slicingIndex
    simp only [h1, if_true, if_false]
    mi_finish

end symbolic

example : evalFn .debug src_relative_index [3, -1] = .ok [1, 2] := by decide +kernel
example : evalFn .release src_slicing_index [-10, 3] = .ok [0] := by decide +kernel

end Xeh.LeafBridge
