/-
Tie B, bridge theorems (DESIGN §4.2) — `RelativeJump::from_to`, `RelativeJump::calculate` (opcodes.rs). The left-hand sides are re-translated from /repo/src/*.rs on every run
(Generated/Leaf.lean); one module per group of functions, so that a property depends on — and is alarmed by — exactly
the functions its theorems rest on.
-/
import XehModel.Proofs.Leaf.Common

namespace Xeh.LeafBridge
open Xeh.MI Xeh.Generated Xeh.LeafSpec

section symbolic
seal evalE binop unify arith coerce coerceAll meth1 meth2 meth2Same unop castTo bindArgs fit Ty.wrap Ty.toU bitAnd bitOr bitXor bitNot shlW shrW

/-- **`RelativeJump::from_to`**: the signed distance `dest - origin`, whenever it fits the `i32` of
    the opcode (0 stays 0: a self-jump) -/
theorem fromTo_matches_source (p : Profile) (o d : Nat) (ho : o < 2^64) (hd : d < 2^64)
    (h1 : -(2^31) ≤ jumpDistance o d) (h2 : jumpDistance o d < 2^31) :
    evalFn p src_from_to [(o : Int), d] = .ok [jumpDistance o d] := by
  unfold jumpDistance at *
  by_cases h : (o : Int) > d
  all_goals
    apply evalFn_ok
    mi_eval
    mi_finish

/-- **`RelativeJump::calculate`**: `ip + rel` -/
theorem calculate_matches_source (p : Profile) (rel : Int) (ip : Nat) (hr1 : -(2^31) ≤ rel) (hr2 : rel < 2^31)
    (hip : ip < 2^63) (h0 : 0 ≤ jumpTarget rel ip) (h1 : jumpTarget rel ip < 2^63) :
    evalFn p src_calculate [rel, (ip : Int)] = .ok [jumpTarget rel ip] := by
  unfold jumpTarget at *
  apply evalFn_ok
  mi_eval
  mi_finish

/-- the round trip the compiler relies on (`jump_offset` then `fetch_and_run`): a jump assembled at
    `origin` towards `dest` lands on `dest` (code addresses below 2^31; note a zero distance stays a
    self-jump) -/
theorem fromTo_calculate_source (p : Profile) (o d : Nat) (ho : o < 2^31) (hd : d < 2^31) :
    ∃ rel, evalFn p src_from_to [(o : Int), d] = .ok [rel] ∧
           evalFn p src_calculate [rel, (o : Int)] = .ok [(d : Int)] := by
  refine ⟨jumpDistance o d, ?_, ?_⟩
  · apply fromTo_matches_source <;> (try unfold jumpDistance) <;> omega
  · have h := calculate_matches_source p (jumpDistance o d) o
      (by unfold jumpDistance; omega) (by unfold jumpDistance; omega) (by omega)
      (by unfold jumpTarget jumpDistance; omega) (by unfold jumpTarget jumpDistance; omega)
    rw [h]; unfold jumpTarget jumpDistance; congr 2; omega

end symbolic

example : evalFn .debug src_from_to [7, 7] = .ok [0] := by decide +kernel
/-- `calculate` at the top of the `isize` range panics in a debug build, while a release build wraps -/
example : evalFn .debug src_calculate [1, 2^63 - 1] = .panic "attempt to add with overflow" := by decide +kernel
example : evalFn .release src_calculate [1, 2^63 - 1] = .ok [2^63] := by decide +kernel

end Xeh.LeafBridge
