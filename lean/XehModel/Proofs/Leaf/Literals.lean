/-
Tie B, bridge theorems (DESIGN §4.2) — the i64 test of `load_value_opcode` (state.rs), the `FMT_*` constants and `FmtFlags::default` (fmt_flags.rs). The left-hand sides are re-translated from /repo/src/*.rs on every run
(Generated/Leaf.lean); one module per group of functions, so that a property depends on — and is alarmed by — exactly
the functions its theorems rest on.
-/
import XehModel.Proofs.Leaf.Common

namespace Xeh.LeafBridge
open Xeh.MI Xeh.Generated Xeh.LeafSpec

section symbolic
seal evalE binop unify arith coerce coerceAll meth1 meth2 meth2Same unop castTo bindArgs fit Ty.wrap Ty.toU bitAnd bitOr bitXor bitNot shlW shrW

/-- the i64 test of `load_value_opcode`, for every i128 -/
theorem loadI64_guard_matches_source (p : Profile) (i : Int) (h1 : -(2^127) ≤ i) (h2 : i < 2^127) :
    evalFn p src_load_i64_guard [i] = .ok [if fitsI64 i then 1 else 0] := by
  apply evalFn_ok
  mi_eval
  unfold fitsI64
  simp only [List.map_cons, List.map_nil, Ty.lo, Ty.hi]
  rfl

/-- and in that case `i as i64` keeps the value -/
theorem loadI64_payload_matches_source (p : Profile) (i : Int) (h : fitsI64 i = true) :
    evalFn p src_load_i64_payload [i] = .ok [i] := by
  simp only [fitsI64, decide_eq_true_eq] at h
  apply evalFn_ok
  mi_eval
  mi_finish

end symbolic
/-- **fmt_flags.rs**: the five constants and the default flags word -/
theorem fmt_constants_match (p : Profile) :
    evalFn p src_FMT_BASE_MASK [] = .ok [(fmtBaseMask : Nat)] ∧
    evalFn p src_FMT_PREFIX_BIT [] = .ok [(fmtPrefixBit : Nat)] ∧
    evalFn p src_FMT_TAGS_BIT [] = .ok [(fmtTagsBit : Nat)] ∧
    evalFn p src_FMT_FITSCREEN_BIT [] = .ok [(fmtFitscreenBit : Nat)] ∧
    evalFn p src_FMT_UPCASE_BIT [] = .ok [(fmtUpcaseBit : Nat)] ∧
    evalFn p src_fmt_default [] = .ok [(fmtDefault : Nat)] := by
  cases p <;> decide



end Xeh.LeafBridge
