/-
Tie B, bridge theorems (DESIGN §4.2): the denotation (Model/MachineInt.lean, both build profiles) of
the Rust leaf functions that `tools/extract.py` re-translates from /repo/src/*.rs on every run
(Generated/Leaf.lean) equals the hand-written specification (Model/LeafSpec.lean). Because the
left-hand sides are regenerated, an edit of one of those functions changes a proof obligation of
`lake build XehModel.Proofs.LeafBridge`; the table obligations live in Proofs/LeafTables.lean
(imported here, so building this module checks both).
The theorems live in one module per group of functions (Proofs/Leaf/*.lean) and per table (Proofs/Tables/*.lean); this
module only gathers them.

  function (file)                     theorem                                   hypotheses
  upper_bound_index (bitstr.rs)       upperBoundIndex_matches_source            n < 2^64
  bit_mask (bitstr.rs)                bitMask_matches_source                    len ≤ 8
  cut_bits (bitstr.rs)                cutBits_matches_source, cutBitsVal_bits   x < 256, start ≤ end < 2^64
  RelativeJump::from_to (opcodes.rs)  fromTo_matches_source                     distance fits i32
  RelativeJump::calculate             calculate_matches_source                  ip < 2^63, 0 ≤ target < 2^63
  from_to ∘ calculate                 fromTo_calculate_source                   addresses < 2^31
  relative_index (state.rs)           relativeIndex_matches_source              len < 2^64, index ∈ isize
  slicing_index (state.rs)            slicingIndex_matches_source               len < 2^64, index ∈ isize
  load_value_opcode's i64 test        loadI64_guard/payload_matches_source      i ∈ i128
  FMT_* and FmtFlags::default         fmt_constants_match                       —

Every statement is `evalFn p src_… args = .ok …` for *both* profiles `p`, so it also says that the
function neither panics (debug overflow checks included) nor is ill-typed on those arguments. The
hypotheses are the ones the proofs need: e.g. `calculate` does overflow `isize` in a debug build
when `ip + rel ≥ 2^63`, which no code address reaches.

Method: `mi_eval` (Proofs/LeafLemmas.lean) runs the evaluator symbolically on the concrete AST and
leaves a closed arithmetic goal; `omega` closes it. For `cut_bits` the byte-level part is a finite
kernel computation (Proofs/LeafFinite.lean) on the residues `start % 8`, `min (end-start) (8 - start%8)`.
-/
import XehModel.Proofs.Leaf.Common
import XehModel.Proofs.Leaf.Bits
import XehModel.Proofs.Leaf.Jumps
import XehModel.Proofs.Leaf.Index
import XehModel.Proofs.Leaf.Literals
import XehModel.Proofs.LeafTables
