/-
Tie B, bridge theorems (DESIGN §4.2): the denotation (Model/MachineInt.lean, both build profiles) of
the Rust leaf functions that `tools/extract.py` re-translates from /repo/src/*.rs on every run
(Generated/Leaf.lean) equals the hand-written specification (Model/LeafSpec.lean). Because the
left-hand sides are regenerated, an edit of one of those functions changes a proof obligation of
`lake build XehModel.Proofs.LeafBridge`; the table obligations live in Proofs/LeafTables.lean
(imported here, so building this module checks both).

  function (file)                     theorem                                   hypotheses
  upper_bound_index (bitstr.rs)       upperBoundIndex_matches_source            n < 2^64
  bit_mask (bitstr.rs)                bitMask_matches_source                    len ≤ 8
  cut_bits (bitstr.rs)                cutBits_matches_source, cutBitsVal_bits   x < 256, start ≤ end < 2^64
  RelativeJump::from_to (opcodes.rs)  fromTo_matches_source                     distance fits i32
  RelativeJump::calculate             calculate_matches_source                  ip < 2^63, 0 ≤ target < 2^63
  from_to ∘ calculate                 fromTo_calculate_source                   addresses < 2^31
  relative_index (state.rs)           relativeIndex_matches_source              len < 2^64, index ∈ isize
  slicing_index (state.rs)            slicingIndex_matches_source               len < 2^64, index ∈ isize
  load_value_opcode's i64 test        loadI64_guard/payload_matches_source      i ∈ i128
  FMT_* and FmtFlags::default         fmt_constants_match                       —

Every statement is `evalFn p src_… args = .ok …` for *both* profiles `p`, so it also says that the
function neither panics (debug overflow checks included) nor is ill-typed on those arguments. The
hypotheses are the ones the proofs need: e.g. `calculate` does overflow `isize` in a debug build
when `ip + rel ≥ 2^63`, which no code address reaches.

Method: `mi_eval` (Proofs/LeafLemmas.lean) runs the evaluator symbolically on the concrete AST and
leaves a closed arithmetic goal; `omega` closes it. For `cut_bits` the byte-level part is a finite
kernel computation (Proofs/LeafFinite.lean) on the residues `start % 8`, `min (end-start) (8 - start%8)`.
-/
import XehModel.Model.LeafSpec
import XehModel.Generated.Leaf
import XehModel.Proofs.LeafLemmas
import XehModel.Proofs.LeafFinite
import XehModel.Proofs.LeafFiniteBits
import XehModel.Proofs.LeafTables

namespace Xeh.LeafBridge
open Xeh.MI Xeh.Generated Xeh.LeafSpec

/-- the de Bruijn indices the translator computed agree with the source names (so `extract.py`'s
    scope resolution is checked, not trusted) -/
theorem src_wellScoped : ∀ f ∈ src_all_fns, f.wellScoped = true := by decide

section symbolic
seal evalE binop unify arith coerce coerceAll meth1 meth2 meth2Same unop castTo bindArgs fit Ty.wrap Ty.toU bitAnd bitOr bitXor bitNot shlW shrW

/-- close `List.map (·.v) [⟨a, t⟩, …] = [b, …]` by linear arithmetic -/
macro "mi_finish" : tactic =>
  `(tactic| (simp only [List.map_cons, List.map_nil, List.cons.injEq, and_true, true_and, List.cons_append, List.nil_append,
               List.append_nil, boolVal, eq_self, Bool.false_eq_true, if_true, if_false] <;> omega))

/-- **`upper_bound_index`**: ⌈n / 8⌉ -/
theorem upperBoundIndex_matches_source (p : Profile) (n : Nat) (hn : n < 2^64) :
    evalFn p src_upper_bound_index [(n : Int)] = .ok [(upperBoundIndex n : Nat)] := by
  by_cases h : (n : Int) % 8 > 0
  all_goals
    apply evalFn_ok
    mi_eval
    unfold upperBoundIndex
    mi_finish

/-- **`RelativeJump::from_to`**: the signed distance `dest - origin`, whenever it fits the `i32` of
    the opcode (0 stays 0: a self-jump) -/
theorem fromTo_matches_source (p : Profile) (o d : Nat) (ho : o < 2^64) (hd : d < 2^64)
    (h1 : -(2^31) ≤ jumpDistance o d) (h2 : jumpDistance o d < 2^31) :
    evalFn p src_from_to [(o : Int), d] = .ok [jumpDistance o d] := by
  unfold jumpDistance at *
  by_cases h : (o : Int) > d
  all_goals
    apply evalFn_ok
    mi_eval
    mi_finish

/-- **`RelativeJump::calculate`**: `ip + rel` -/
theorem calculate_matches_source (p : Profile) (rel : Int) (ip : Nat) (hr1 : -(2^31) ≤ rel) (hr2 : rel < 2^31)
    (hip : ip < 2^63) (h0 : 0 ≤ jumpTarget rel ip) (h1 : jumpTarget rel ip < 2^63) :
    evalFn p src_calculate [rel, (ip : Int)] = .ok [jumpTarget rel ip] := by
  unfold jumpTarget at *
  apply evalFn_ok
  mi_eval
  mi_finish

/-- the round trip the compiler relies on (`jump_offset` then `fetch_and_run`): a jump assembled at
    `origin` towards `dest` lands on `dest` (code addresses below 2^31; note a zero distance stays a
    self-jump) -/
theorem fromTo_calculate_source (p : Profile) (o d : Nat) (ho : o < 2^31) (hd : d < 2^31) :
    ∃ rel, evalFn p src_from_to [(o : Int), d] = .ok [rel] ∧
           evalFn p src_calculate [rel, (o : Int)] = .ok [(d : Int)] := by
  refine ⟨jumpDistance o d, ?_, ?_⟩
  · apply fromTo_matches_source <;> (try unfold jumpDistance) <;> omega
  · have h := calculate_matches_source p (jumpDistance o d) o
      (by unfold jumpDistance; omega) (by unfold jumpDistance; omega) (by omega)
      (by unfold jumpTarget jumpDistance; omega) (by unfold jumpTarget jumpDistance; omega)
    rw [h]; unfold jumpTarget jumpDistance; congr 2; omega

/-- `Option<usize>` as the evaluator returns it: tag, payload -/
def optEnc : Option Nat → List Int
  | none => [0, 0]
  | some k => [1, (k : Int)]

/-- **`relative_index`**: Python-style index, `None` outside -/
theorem relativeIndex_matches_source (p : Profile) (len : Nat) (i : Int) (hl : len < 2^64)
    (hi1 : -(2^63) ≤ i) (hi2 : i < 2^63) :
    evalFn p src_relative_index [(len : Int), i] = .ok (optEnc (relativeIndex len i)) := by
  by_cases h1 : i < 0
  · have e1 : ¬ (0 ≤ i) := by omega
    by_cases h2 : (i.natAbs : Int) > len
    · have e2 : ¬ (0 ≤ (len : Int) + i) := by omega
      apply evalFn_ok
      mi_eval
      simp [relativeIndex, e1, e2, optEnc]
    · have e2 : 0 ≤ (len : Int) + i := by omega
      apply evalFn_ok
      mi_eval
      simp only [relativeIndex, e1, e2, if_true, if_false, optEnc]
      mi_finish
  · have e1 : 0 ≤ i := by omega
    by_cases h2 : i < len
    · apply evalFn_ok
      mi_eval
      simp only [relativeIndex, e1, h2, if_true, optEnc]
      mi_finish
    · apply evalFn_ok
      mi_eval
      simp [relativeIndex, e1, h2, optEnc]

/-- **`slicing_index`**: Python-style slice bound, clamped to `0 ..= len` -/
theorem slicingIndex_matches_source (p : Profile) (i : Int) (len : Nat) (hl : len < 2^64)
    (hi1 : -(2^63) ≤ i) (hi2 : i < 2^63) :
    evalFn p src_slicing_index [i, (len : Int)] = .ok [(slicingIndex i len : Nat)] := by
  by_cases h1 : i < 0
  all_goals
    apply evalFn_ok
    mi_eval
    unfold slicingIndex
    simp only [h1, if_true, if_false]
    mi_finish

/-- the i64 test of `load_value_opcode`, for every i128 -/
theorem loadI64_guard_matches_source (p : Profile) (i : Int) (h1 : -(2^127) ≤ i) (h2 : i < 2^127) :
    evalFn p src_load_i64_guard [i] = .ok [if fitsI64 i then 1 else 0] := by
  apply evalFn_ok
  mi_eval
  unfold fitsI64
  simp only [List.map_cons, List.map_nil, Ty.lo, Ty.hi]
  rfl

/-- and in that case `i as i64` keeps the value -/
theorem loadI64_payload_matches_source (p : Profile) (i : Int) (h : fitsI64 i = true) :
    evalFn p src_load_i64_payload [i] = .ok [i] := by
  simp only [fitsI64, decide_eq_true_eq] at h
  apply evalFn_ok
  mi_eval
  mi_finish

/-- `cut_bits` evaluated symbolically: only the residues `start % 8` and the clipped length reach
    the byte-level computation -/
theorem cutBits_eval (p : Profile) (x s e : Nat) (hx : x < 256) (hs : s ≤ e) (he : e < 2^64) :
    evalFn p src_cut_bits [(x : Int), s, e] =
      .ok [cutCore x ((s % 8 : Nat) : Int) ((cutBitsLen s e : Nat) : Int), ((cutBitsLen s e : Nat) : Int)] := by
  have e1 : (s : Int) % 8 = ((s % 8 : Nat) : Int) := by omega
  have e2 : min ((e : Int) - s) (8 - ((s % 8 : Nat) : Int)) = ((cutBitsLen s e : Nat) : Int) := by
    unfold cutBitsLen; omega
  apply evalFn_ok
  mi_eval
  simp only [List.map_cons, List.map_nil, cutCore, e1, e2]

end symbolic
/-- **`cut_bits`** (bitstr.rs): for every byte, every bit range `start ≤ end` in the address space and
    both build profiles the Rust function returns the `cutBitsLen` bits of the byte from bit
    `start % 8`, as a number, and that length; it never panics. -/
theorem cutBits_matches_source (p : Profile) (x s e : Nat) (hx : x < 256) (hs : s ≤ e) (he : e < 2^64) :
    evalFn p src_cut_bits [(x : Int), s, e] = .ok [(cutBitsVal x s e : Nat), (cutBitsLen s e : Nat)] := by
  rw [cutBits_eval p x s e hx hs he]
  have hsb : s % 8 < 8 := Nat.mod_lt _ (by decide)
  have hlen : cutBitsLen s e < 9 := by unfold cutBitsLen; omega
  have hsum : s % 8 + cutBitsLen s e ≤ 8 := by unfold cutBitsLen; omega
  rw [cutCore_spec x (s % 8) (cutBitsLen s e) hx hsb hlen hsum]; rfl

/-- … and those are bits `start % 8 ..` of the byte, most significant first -/
theorem cutBitsVal_bits (x s e : Nat) (hx : x < 256) :
    cutBitsVal x s e = cutBitsBits x (s % 8) (cutBitsLen s e) := by
  have hsb : s % 8 < 8 := Nat.mod_lt _ (by decide)
  have hlen : cutBitsLen s e < 9 := by unfold cutBitsLen; omega
  have hsum : s % 8 + cutBitsLen s e ≤ 8 := by unfold cutBitsLen; omega
  exact cutBits_bits x (s % 8) (cutBitsLen s e) hx hsb hlen hsum

/-- **`bit_mask`**: `2^len − 1` for every length a byte can hold -/
theorem bitMask_matches_source (p : Profile) (len : Nat) (h : len ≤ 8) :
    evalFn p src_bit_mask [(len : Int)] = .ok [(bitMask len : Nat)] := by
  have key : ∀ p : Profile, ∀ l : Fin 9, evalFn p src_bit_mask [(l.val : Int)] = .ok [(bitMask l.val : Nat)] := by
    intro p; cases p <;> decide
  exact key p ⟨len, by omega⟩

/-- **fmt_flags.rs**: the five constants and the default flags word -/
theorem fmt_constants_match (p : Profile) :
    evalFn p src_FMT_BASE_MASK [] = .ok [(fmtBaseMask : Nat)] ∧
    evalFn p src_FMT_PREFIX_BIT [] = .ok [(fmtPrefixBit : Nat)] ∧
    evalFn p src_FMT_TAGS_BIT [] = .ok [(fmtTagsBit : Nat)] ∧
    evalFn p src_FMT_FITSCREEN_BIT [] = .ok [(fmtFitscreenBit : Nat)] ∧
    evalFn p src_FMT_UPCASE_BIT [] = .ok [(fmtUpcaseBit : Nat)] ∧
    evalFn p src_fmt_default [] = .ok [(fmtDefault : Nat)] := by
  cases p <;> decide

/-! ### the hypotheses are satisfiable, and they matter: concrete evaluations -/

example : evalFn .debug src_cut_bits [0xA5, 9, 13] = .ok [4, 4] := by decide +kernel
example : evalFn .debug src_relative_index [3, -1] = .ok [1, 2] := by decide +kernel
example : evalFn .release src_slicing_index [-10, 3] = .ok [0] := by decide +kernel
example : evalFn .debug src_from_to [7, 7] = .ok [0] := by decide +kernel
/-- `start > end` is outside `cut_bits`' contract: a debug build panics … -/
example : evalFn .debug src_cut_bits [0, 5, 4] = .panic "attempt to subtract with overflow" := by decide +kernel
/-- … and so does `calculate` at the top of the `isize` range, while a release build wraps -/
example : evalFn .debug src_calculate [1, 2^63 - 1] = .panic "attempt to add with overflow" := by decide +kernel
example : evalFn .release src_calculate [1, 2^63 - 1] = .ok [2^63] := by decide +kernel

end Xeh.LeafBridge
