/-
Finite (byte-level) fact behind the `cut_bits` bridge theorem, checked by kernel evaluation over
every byte × start bit × length (11 264 admissible cases; `decide +kernel` uses no axioms), in four
quarters of the byte range so that no single check is long. It depends only on
Model/MachineInt.lean and Model/LeafSpec.lean, not on the regenerated sources, so it is checked once
and stays cached; Proofs/LeafBridge.lean lifts it to unbounded bit offsets by `omega`.
-/
import XehModel.Model.MachineInt
import XehModel.Model.LeafSpec

namespace Xeh.LeafBridge
open Xeh.MI Xeh.LeafSpec

/-- the byte-level computation of `cut_bits` as the Rust code performs it, on the residues
    `sb = start % 8`, `len = min (end - start) (8 - sb)`:
    `x.wrapping_shr((8 - (sb + len)) as u32) & (!0xffu32.wrapping_shl(len as u32)) as u8` -/
def cutCore (x sb len : Int) : Int :=
  bitAnd .u8 (shrW .u8 x ((8 - (sb + len)) % (Ty.u8.bits : Int)).toNat)
    (Ty.u8.wrap (bitNot .u32 (shlW .u32 255 (len % (Ty.u32.bits : Int)).toNat)))

/-- shift-and-mask equals "drop the bits to the right of the field, keep `len` bits" -/
def CutCoreOK (x sb len : Nat) : Prop :=
  cutCore x sb len = ((x / 2 ^ (8 - sb - len)) % 2 ^ len : Nat)

instance (x sb len : Nat) : Decidable (CutCoreOK x sb len) := by unfold CutCoreOK; infer_instance

set_option maxRecDepth 100000 in
theorem cutCore_q0 : ∀ y : Fin 64, ∀ sb : Fin 8, ∀ len : Fin 9, sb.val + len.val ≤ 8 →
    CutCoreOK (y.val + 0) sb.val len.val := by decide +kernel
set_option maxRecDepth 100000 in
theorem cutCore_q1 : ∀ y : Fin 64, ∀ sb : Fin 8, ∀ len : Fin 9, sb.val + len.val ≤ 8 →
    CutCoreOK (y.val + 64) sb.val len.val := by decide +kernel
set_option maxRecDepth 100000 in
theorem cutCore_q2 : ∀ y : Fin 64, ∀ sb : Fin 8, ∀ len : Fin 9, sb.val + len.val ≤ 8 →
    CutCoreOK (y.val + 128) sb.val len.val := by decide +kernel
set_option maxRecDepth 100000 in
theorem cutCore_q3 : ∀ y : Fin 64, ∀ sb : Fin 8, ∀ len : Fin 9, sb.val + len.val ≤ 8 →
    CutCoreOK (y.val + 192) sb.val len.val := by decide +kernel

theorem cutCore_spec (x sb len : Nat) (hx : x < 256) (hsb : sb < 8) (hlen : len < 9) (h : sb + len ≤ 8) :
    cutCore x sb len = ((x / 2 ^ (8 - sb - len)) % 2 ^ len : Nat) := by
  show CutCoreOK x sb len
  rcases (by omega : x < 64 ∨ (64 ≤ x ∧ x < 128) ∨ (128 ≤ x ∧ x < 192) ∨ 192 ≤ x) with c | c | c | c
  · exact cutCore_q0 ⟨x, c⟩ ⟨sb, hsb⟩ ⟨len, hlen⟩ h
  · rw [show x = x - 64 + 64 by omega]; exact cutCore_q1 ⟨x - 64, by omega⟩ ⟨sb, hsb⟩ ⟨len, hlen⟩ h
  · rw [show x = x - 128 + 128 by omega]; exact cutCore_q2 ⟨x - 128, by omega⟩ ⟨sb, hsb⟩ ⟨len, hlen⟩ h
  · rw [show x = x - 192 + 192 by omega]; exact cutCore_q3 ⟨x - 192, by omega⟩ ⟨sb, hsb⟩ ⟨len, hlen⟩ h

end Xeh.LeafBridge
