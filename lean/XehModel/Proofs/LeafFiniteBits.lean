/-
The arithmetic reading of `cut_bits` (Model/LeafSpec.lean `cutBitsVal`) against the bit-list
reading (`cutBitsBits`): every byte × start bit × length, by kernel evaluation, in four quarters of
the byte range. Depends only on Model/LeafSpec.lean; kept in its own module so that it is checked
in parallel with Proofs/LeafFinite.lean and cached independently of the regenerated sources.
-/
import XehModel.Model.LeafSpec

namespace Xeh.LeafBridge
open Xeh.LeafSpec

/-- that number is the big-endian value of bits `sb .. sb+len` of the byte (MSB first) -/
def CutBitsOK (x sb len : Nat) : Prop :=
  (x / 2 ^ (8 - sb - len)) % 2 ^ len = cutBitsBits x sb len

instance (x sb len : Nat) : Decidable (CutBitsOK x sb len) := by unfold CutBitsOK; infer_instance

set_option maxRecDepth 100000 in
theorem cutBits_q0 : ∀ y : Fin 64, ∀ sb : Fin 8, ∀ len : Fin 9, sb.val + len.val ≤ 8 →
    CutBitsOK (y.val + 0) sb.val len.val := by decide +kernel
set_option maxRecDepth 100000 in
theorem cutBits_q1 : ∀ y : Fin 64, ∀ sb : Fin 8, ∀ len : Fin 9, sb.val + len.val ≤ 8 →
    CutBitsOK (y.val + 64) sb.val len.val := by decide +kernel
set_option maxRecDepth 100000 in
theorem cutBits_q2 : ∀ y : Fin 64, ∀ sb : Fin 8, ∀ len : Fin 9, sb.val + len.val ≤ 8 →
    CutBitsOK (y.val + 128) sb.val len.val := by decide +kernel
set_option maxRecDepth 100000 in
theorem cutBits_q3 : ∀ y : Fin 64, ∀ sb : Fin 8, ∀ len : Fin 9, sb.val + len.val ≤ 8 →
    CutBitsOK (y.val + 192) sb.val len.val := by decide +kernel

theorem cutBits_bits (x sb len : Nat) (hx : x < 256) (hsb : sb < 8) (hlen : len < 9) (h : sb + len ≤ 8) :
    (x / 2 ^ (8 - sb - len)) % 2 ^ len = cutBitsBits x sb len := by
  show CutBitsOK x sb len
  rcases (by omega : x < 64 ∨ (64 ≤ x ∧ x < 128) ∨ (128 ≤ x ∧ x < 192) ∨ 192 ≤ x) with c | c | c | c
  · exact cutBits_q0 ⟨x, c⟩ ⟨sb, hsb⟩ ⟨len, hlen⟩ h
  · rw [show x = x - 64 + 64 by omega]; exact cutBits_q1 ⟨x - 64, by omega⟩ ⟨sb, hsb⟩ ⟨len, hlen⟩ h
  · rw [show x = x - 128 + 128 by omega]; exact cutBits_q2 ⟨x - 128, by omega⟩ ⟨sb, hsb⟩ ⟨len, hlen⟩ h
  · rw [show x = x - 192 + 192 by omega]; exact cutBits_q3 ⟨x - 192, by omega⟩ ⟨sb, hsb⟩ ⟨len, hlen⟩ h

end Xeh.LeafBridge
