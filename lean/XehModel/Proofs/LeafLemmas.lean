/-
A small symbolic executor for `Xeh.MI.evalFn` (used by Proofs/LeafBridge.lean).

The bridge theorems evaluate a *concrete* AST (regenerated from the Rust source on every run) on
*symbolic* integer arguments. `mi_eval` does that syntax-directed: one big-step rule per
constructor (`ev_*`), one lemma per primitive operation resolving it to `.ok …` under side
conditions (range of the exact result, divisor ≠ 0, …) that `mi_disch` (= `decide` / `omega`)
discharges from the hypotheses of the theorem. Results are built by unification, so the tactic also
*computes* the closed form that the theorem then compares with the specification.
-/
import XehModel.Model.MachineInt

namespace Xeh.MI

theorem InRange_of {t : Ty} {v : Int} (h1 : t.lo ≤ v) (h2 : v ≤ t.hi) : t.InRange v := Or.inr ⟨h1, h2⟩

theorem wrap_id {t : Ty} {v : Int} (h1 : t.lo ≤ v) (h2 : v ≤ t.hi) : t.wrap v = v := by
  cases t <;> simp [Ty.wrap, Ty.signed, Ty.bits, Ty.lo, Ty.hi] at * <;> omega

/-! ### primitives -/

theorem fit_ok {p : Profile} {t : Ty} {v : Int} {site : String} (h1 : t.lo ≤ v) (h2 : v ≤ t.hi) :
    fit p t v site = .ok ⟨v, t⟩ := by
  simp [fit, InRange_of h1 h2]

theorem coerce_same (a : Int) (t : Ty) : coerce t ⟨a, t⟩ = .ok ⟨a, t⟩ := by simp [coerce]

theorem coerce_lit {a : Int} {t : Ty} (ht : t ≠ .lit) (hi : t.isInt = true) (h1 : t.lo ≤ a) (h2 : a ≤ t.hi) :
    coerce t ⟨a, .lit⟩ = .ok ⟨a, t⟩ := by
  simp [coerce, hi, InRange_of h1 h2, Ne.symm ht]

theorem unify_same (a b : Int) (t : Ty) : unify ⟨a, t⟩ ⟨b, t⟩ = .ok (t, a, b) := by simp [unify]

theorem unify_litL {a b : Int} {t : Ty} (ht : t ≠ .lit) (hi : t.isInt = true) (h1 : t.lo ≤ a) (h2 : a ≤ t.hi) :
    unify ⟨a, .lit⟩ ⟨b, t⟩ = .ok (t, a, b) := by
  simp [unify, coerce_lit ht hi h1 h2, Ne.symm ht]

theorem unify_litR {a b : Int} {t : Ty} (ht : t ≠ .lit) (hi : t.isInt = true) (h1 : t.lo ≤ b) (h2 : b ≤ t.hi) :
    unify ⟨a, t⟩ ⟨b, .lit⟩ = .ok (t, a, b) := by
  simp [unify, coerce_lit ht hi h1 h2, ht]

theorem asBool_boolVal (b : Bool) : asBool (boolVal b) = .ok b := by
  cases b <;> simp [asBool, boolVal]

/-- `binop` for every operator except the two shifts -/
theorem binop_arith {p : Profile} {op : BinOp} {x y : Val} {t : Ty} {a b : Int} {r : Val}
    (hop : op ≠ .shl ∧ op ≠ .shr) (hu : unify x y = .ok (t, a, b)) (hr : arith p op t a b = .ok r) :
    binop p op x y = .ok r := by
  cases op <;> simp_all [binop]

theorem arith_add_ok {p : Profile} {t : Ty} {x y : Int} (ht : t ≠ .bool) (h1 : t.lo ≤ x + y) (h2 : x + y ≤ t.hi) :
    arith p .add t x y = .ok ⟨x + y, t⟩ := by simp [arith, ht, fit_ok h1 h2]
theorem arith_sub_ok {p : Profile} {t : Ty} {x y : Int} (ht : t ≠ .bool) (h1 : t.lo ≤ x - y) (h2 : x - y ≤ t.hi) :
    arith p .sub t x y = .ok ⟨x - y, t⟩ := by simp [arith, ht, fit_ok h1 h2]
theorem arith_mul_ok {p : Profile} {t : Ty} {x y : Int} (ht : t ≠ .bool) (h1 : t.lo ≤ x * y) (h2 : x * y ≤ t.hi) :
    arith p .mul t x y = .ok ⟨x * y, t⟩ := by simp [arith, ht, fit_ok h1 h2]

/-- `/` on non-negative operands is floor division -/
theorem arith_div_nonneg {p : Profile} {t : Ty} {x y : Int} (ht : t ≠ .bool) (hx : 0 ≤ x) (hy : 0 < y)
    (h1 : t.lo ≤ 0) (h2 : x ≤ t.hi) : arith p .div t x y = .ok ⟨x / y, t⟩ := by
  have hd : x.tdiv y = x / y := Int.tdiv_eq_ediv_of_nonneg hx
  have hq0 : 0 ≤ x / y := Int.ediv_nonneg hx (Int.le_of_lt hy)
  have hq1 : x / y ≤ x := Int.ediv_le_self _ hx
  have hr : t.InRange (x / y) := InRange_of (Int.le_trans h1 hq0) (Int.le_trans hq1 h2)
  have hy0 : y ≠ 0 := by omega
  simp [arith, ht, hy0, hd, hr]

/-- `%` on non-negative operands is the Euclidean remainder -/
theorem arith_rem_nonneg {p : Profile} {t : Ty} {x y : Int} (ht : t ≠ .bool) (hx : 0 ≤ x) (hy : 0 < y)
    (h1 : t.lo ≤ 0) (h2 : x ≤ t.hi) : arith p .rem t x y = .ok ⟨x % y, t⟩ := by
  have hd : x.tdiv y = x / y := Int.tdiv_eq_ediv_of_nonneg hx
  have hm : x.tmod y = x % y := Int.tmod_eq_emod_of_nonneg hx
  have hq0 : 0 ≤ x / y := Int.ediv_nonneg hx (Int.le_of_lt hy)
  have hq1 : x / y ≤ x := Int.ediv_le_self _ hx
  have hr : t.InRange (x / y) := InRange_of (Int.le_trans h1 hq0) (Int.le_trans hq1 h2)
  have hy0 : y ≠ 0 := by omega
  simp [arith, ht, hy0, hd, hm, hr]

theorem arith_eq {p : Profile} {t : Ty} {x y : Int} : arith p .eq t x y = .ok (boolVal (decide (x = y))) := rfl
theorem arith_ne {p : Profile} {t : Ty} {x y : Int} : arith p .ne t x y = .ok (boolVal (decide (x ≠ y))) := rfl
theorem arith_lt {p : Profile} {t : Ty} {x y : Int} (ht : t ≠ .bool) :
    arith p .lt t x y = .ok (boolVal (decide (x < y))) := by simp [arith, ht]
theorem arith_le {p : Profile} {t : Ty} {x y : Int} (ht : t ≠ .bool) :
    arith p .le t x y = .ok (boolVal (decide (x ≤ y))) := by simp [arith, ht]
theorem arith_gt {p : Profile} {t : Ty} {x y : Int} (ht : t ≠ .bool) :
    arith p .gt t x y = .ok (boolVal (decide (x > y))) := by simp [arith, ht]
theorem arith_ge {p : Profile} {t : Ty} {x y : Int} (ht : t ≠ .bool) :
    arith p .ge t x y = .ok (boolVal (decide (x ≥ y))) := by simp [arith, ht]

theorem arith_band {p : Profile} {t : Ty} {x y : Int} (ht : t ≠ .lit) :
    arith p .band t x y = .ok ⟨bitAnd t x y, t⟩ := by simp [arith, ht]
theorem arith_bor {p : Profile} {t : Ty} {x y : Int} (ht : t ≠ .lit) :
    arith p .bor t x y = .ok ⟨bitOr t x y, t⟩ := by simp [arith, ht]
theorem arith_bxor {p : Profile} {t : Ty} {x y : Int} (ht : t ≠ .lit) :
    arith p .bxor t x y = .ok ⟨bitXor t x y, t⟩ := by simp [arith, ht]

theorem unop_neg_ok {p : Profile} {t : Ty} {a : Int} (ht : t.signed = true) (h1 : t.lo ≤ -a) (h2 : -a ≤ t.hi) :
    unop p .neg ⟨a, t⟩ = .ok ⟨-a, t⟩ := by
  have : t ≠ .lit := by intro h; subst h; simp [Ty.signed] at ht
  simp [unop, this, ht, fit_ok h1 h2]

theorem unop_not_int {p : Profile} {t : Ty} {a : Int} (h1 : t ≠ .bool) (h2 : t ≠ .lit) :
    unop p .not ⟨a, t⟩ = .ok ⟨bitNot t a, t⟩ := by simp [unop, h1, h2]

theorem unop_not_bool {p : Profile} {b : Bool} : unop p .not (boolVal b) = .ok (boolVal (!b)) := by
  cases b <;> simp [unop, boolVal]

theorem castTo_ok {t : Ty} {x : Val} (h : t ≠ .lit ∧ t ≠ .bool) : castTo t x = .ok ⟨t.wrap x.v, t⟩ := by
  simp [castTo, h.1, h.2]

theorem meth1_abs_ok {p : Profile} {t : Ty} {a : Int} (ht : t.signed = true)
    (h2 : (a.natAbs : Int) ≤ t.hi) : meth1 p .abs ⟨a, t⟩ = .ok ⟨(a.natAbs : Int), t⟩ := by
  have h1 : t.lo ≤ (a.natAbs : Int) := by
    cases t <;> simp [Ty.signed] at ht <;> simp [Ty.lo] <;> omega
  simp [meth1, ht, fit_ok h1 h2]

theorem meth1_unsignedAbs {p : Profile} {t : Ty} {a : Int} (ht : t.signed = true) :
    meth1 p .unsignedAbs ⟨a, t⟩ = .ok ⟨(a.natAbs : Int), t.unsignedOf⟩ := by simp [meth1, ht]

theorem meth1_wrappingNeg {p : Profile} {t : Ty} {a : Int} (ht : t.signed = true) :
    meth1 p .wrappingNeg ⟨a, t⟩ = .ok ⟨t.wrap (-a), t⟩ := by simp [meth1, ht]

theorem meth2_shl {p : Profile} {t : Ty} {a : Int} {y : Val} {k : Int} (ht : t ≠ .lit ∧ t ≠ .bool)
    (hc : coerce .u32 y = .ok ⟨k, .u32⟩) :
    meth2 p .wrappingShl ⟨a, t⟩ y = .ok ⟨shlW t a (k % t.bits).toNat, t⟩ := by
  simp [meth2, ht.1, ht.2, hc, wshift]

theorem meth2_shr {p : Profile} {t : Ty} {a : Int} {y : Val} {k : Int} (ht : t ≠ .lit ∧ t ≠ .bool)
    (hc : coerce .u32 y = .ok ⟨k, .u32⟩) :
    meth2 p .wrappingShr ⟨a, t⟩ y = .ok ⟨shrW t a (k % t.bits).toNat, t⟩ := by
  simp [meth2, ht.1, ht.2, hc, wshift]

theorem meth2_same {p : Profile} {m : Meth2} {t : Ty} {a b : Int} {y r : Val} (ht : t ≠ .lit ∧ t ≠ .bool)
    (hm : m ≠ .wrappingShl ∧ m ≠ .wrappingShr) (hc : coerce t y = .ok ⟨b, t⟩)
    (hr : meth2Same m t a b = .ok r) : meth2 p m ⟨a, t⟩ y = .ok r := by
  cases m <;> simp_all [meth2]

theorem m2s_min {t : Ty} {a b : Int} : meth2Same .min t a b = .ok ⟨min a b, t⟩ := rfl
theorem m2s_max {t : Ty} {a b : Int} : meth2Same .max t a b = .ok ⟨max a b, t⟩ := rfl
theorem m2s_wadd {t : Ty} {a b : Int} : meth2Same .wrappingAdd t a b = .ok ⟨t.wrap (a + b), t⟩ := rfl
theorem m2s_wsub {t : Ty} {a b : Int} : meth2Same .wrappingSub t a b = .ok ⟨t.wrap (a - b), t⟩ := rfl
theorem m2s_wmul {t : Ty} {a b : Int} : meth2Same .wrappingMul t a b = .ok ⟨t.wrap (a * b), t⟩ := rfl

theorem coerceAll_nil : coerceAll [] [] = .ok [] := rfl
theorem coerceAll_cons {t : Ty} {ts : List Ty} {x y : Val} {xs ys : List Val}
    (h1 : coerce t x = .ok y) (h2 : coerceAll ts xs = .ok ys) :
    coerceAll (t :: ts) (x :: xs) = .ok (y :: ys) := by simp [coerceAll, h1, h2]

theorem bindArgs_nil : bindArgs [] [] = .ok [] := rfl
theorem bindArgs_cons {n : String} {t : Ty} {ps : List (String × Ty)} {a : Int} {as : List Int} {r : List Val}
    (ht : t ≠ .lit) (h1 : t.lo ≤ a) (h2 : a ≤ t.hi) (hr : bindArgs ps as = .ok r) :
    bindArgs ((n, t) :: ps) (a :: as) = .ok (⟨a, t⟩ :: r) := by
  simp [bindArgs, ht, InRange_of h1 h2, hr]

/-! ### big-step rules, one per constructor -/

section rules
variable {p : Profile} {env : List Val}

theorem ev_lit {v : Int} {t : Ty} (h : t.InRange v) : evalE p env (.lit v t) = .ok [⟨v, t⟩] := by
  simp [evalE, h]
theorem ev_tmin {t : Ty} : evalE p env (.tmin t) = .ok [⟨t.lo, t⟩] := rfl
theorem ev_tmax {t : Ty} : evalE p env (.tmax t) = .ok [⟨t.hi, t⟩] := rfl
theorem ev_var {i : Nat} {n : String} {x : Val} (h : env[i]? = some x) : evalE p env (.var i n) = .ok [x] := by
  simp [evalE, h]
theorem ev_un {op : UnOp} {e : Expr} {a r : Val} (he : evalE p env e = .ok [a]) (hr : unop p op a = .ok r) :
    evalE p env (.un op e) = .ok [r] := by simp [evalE, he, hr]
theorem ev_bin {op : BinOp} {a b : Expr} {x y r : Val} (ha : evalE p env a = .ok [x])
    (hb : evalE p env b = .ok [y]) (hr : binop p op x y = .ok r) :
    evalE p env (.bin op a b) = .ok [r] := by simp [evalE, ha, hb, hr]
/-- `&&` when the right operand evaluates whatever the left one says (no panic to short-circuit).
    The `Decidable` instances are ordinary implicit arguments so that `apply` can fill them by
    unification with the comparison that produced the flag. -/
theorem ev_and {a b : Expr} {P Q : Prop} {dP : Decidable P} {dQ : Decidable Q}
    (ha : evalE p env a = .ok [boolVal (@decide P dP)]) (hb : evalE p env b = .ok [boolVal (@decide Q dQ)]) :
    evalE p env (.andE a b) = .ok [boolVal (decide (P ∧ Q))] := by
  by_cases hp : P <;> by_cases hq : Q <;> simp [evalE, ha, hb, asBool_boolVal, hp, hq]
theorem ev_or {a b : Expr} {P Q : Prop} {dP : Decidable P} {dQ : Decidable Q}
    (ha : evalE p env a = .ok [boolVal (@decide P dP)]) (hb : evalE p env b = .ok [boolVal (@decide Q dQ)]) :
    evalE p env (.orE a b) = .ok [boolVal (decide (P ∨ Q))] := by
  by_cases hp : P <;> by_cases hq : Q <;> simp [evalE, ha, hb, asBool_boolVal, hp, hq]
theorem ev_cast {e : Expr} {t : Ty} {x : Val} {w : Int} (he : evalE p env e = .ok [x])
    (ht : t ≠ .lit ∧ t ≠ .bool) (hw : t.wrap x.v = w) : evalE p env (.cast e t) = .ok [⟨w, t⟩] := by
  simp [evalE, he, castTo_ok ht, hw]
theorem ev_m1 {m : Meth1} {e : Expr} {x r : Val} (he : evalE p env e = .ok [x]) (hr : meth1 p m x = .ok r) :
    evalE p env (.m1 m e) = .ok [r] := by simp [evalE, he, hr]
theorem ev_m2 {m : Meth2} {a b : Expr} {x y r : Val} (ha : evalE p env a = .ok [x])
    (hb : evalE p env b = .ok [y]) (hr : meth2 p m x y = .ok r) :
    evalE p env (.m2 m a b) = .ok [r] := by simp [evalE, ha, hb, hr]
/-- the condition is evaluated, then the goal becomes an `if` on the *proposition*, which
    `ite_pos_eq` / `ite_neg_eq` resolve from the theorem's hypotheses -/
theorem ev_ite {c t e : Expr} {P : Prop} {dP : Decidable P} {r : List Val}
    (hc : evalE p env c = .ok [boolVal (@decide P dP)])
    (hr : (@ite _ P dP (evalE p env t) (evalE p env e)) = .ok r) :
    evalE p env (.ite c t e) = .ok r := by
  by_cases hp : P <;> simp_all [evalE, asBool_boolVal]
theorem ev_let {n : String} {v body : Expr} {x : Val} {r : List Val} (hv : evalE p env v = .ok [x])
    (hb : evalE p (x :: env) body = .ok r) : evalE p env (.letE n v body) = .ok r := by
  simp [evalE, hv, hb]
theorem ev_unit : evalE p env .unit = .ok [] := rfl
theorem ev_pair {a b : Expr} {xs ys : List Val} (ha : evalE p env a = .ok xs) (hb : evalE p env b = .ok ys) :
    evalE p env (.pair a b) = .ok (xs ++ ys) := by simp [evalE, ha, hb]
theorem ev_none : evalE p env .none = .ok [boolVal false, ⟨0, .lit⟩] := rfl
theorem ev_some {e : Expr} {x : Val} (he : evalE p env e = .ok [x]) :
    evalE p env (.some e) = .ok [boolVal true, x] := by simp [evalE, he]
theorem ev_call {n : String} {ps : List (String × Ty)} {ret : List Ty} {body args : Expr}
    {xs ys rs ws : List Val} (ha : evalE p env args = .ok xs) (hc : coerceAll (ps.map (·.2)) xs = .ok ys)
    (hb : evalE p ys.reverse body = .ok rs) (hr : coerceAll ret rs = .ok ws) :
    evalE p env (.call n ps ret body args) = .ok ws := by simp [evalE, ha, hc, hb, hr]
theorem ev_callFn {f : FnAst} {args : Expr}
    {xs ys rs ws : List Val} (ha : evalE p env args = .ok xs) (hc : coerceAll (f.params.map (·.2)) xs = .ok ys)
    (hb : evalE p ys.reverse f.body = .ok rs) (hr : coerceAll f.ret rs = .ok ws) :
    evalE p env (Expr.callFn f args) = .ok ws := ev_call ha hc hb hr

theorem ite_pos_eq {α : Type} {P : Prop} {dP : Decidable P} {a b r : α} (h : P) (ha : a = r) :
    (@ite _ P dP a b) = r := by simp [h, ha]
theorem ite_neg_eq {α : Type} {P : Prop} {dP : Decidable P} {a b r : α} (h : ¬P) (hb : b = r) :
    (@ite _ P dP a b) = r := by simp [h, hb]

theorem evalFn_ok {f : FnAst} {args out : List Int} {vs rs ws : List Val}
    (h1 : bindArgs f.params args = .ok vs) (h2 : evalE p vs.reverse f.body = .ok rs)
    (h3 : coerceAll f.ret rs = .ok ws) (h4 : ws.map (·.v) = out) :
    evalFn p f args = .ok out := by simp [evalFn, h1, h2, h3, h4]

end rules
end Xeh.MI

/-- discharger for the arithmetic side conditions of the step lemmas. (No `decide` here: on a goal
    with free variables and 64-bit literals it can run into `maxRecDepth`, which `first` does not
    catch.) -/
macro "mi_disch" : tactic =>
  `(tactic| first
    | omega
    | (simp only [Xeh.MI.Ty.lo, Xeh.MI.Ty.hi, Xeh.MI.Ty.bits, Xeh.MI.Ty.unsignedOf, Xeh.MI.Val.v]; omega)
    | fail "mi_disch: side condition not provable")

open Xeh.MI in
/-- one step of the symbolic executor on the first goal -/
macro "mi_step" : tactic =>
  `(tactic| first
    -- leaves
    | exact ev_unit | exact ev_none | exact ev_tmin | exact ev_tmax
    | exact ev_lit (by decide)
    | exact ev_var rfl
    | exact coerceAll_nil | exact bindArgs_nil
    | exact coerce_same _ _
    | exact coerce_lit (by decide) (by decide) (by mi_disch) (by mi_disch)
    | exact unify_same _ _ _
    | exact unify_litL (by decide) (by decide) (by mi_disch) (by mi_disch)
    | exact unify_litR (by decide) (by decide) (by mi_disch) (by mi_disch)
    | exact arith_add_ok (by decide) (by mi_disch) (by mi_disch)
    | exact arith_sub_ok (by decide) (by mi_disch) (by mi_disch)
    | exact arith_mul_ok (by decide) (by mi_disch) (by mi_disch)
    | exact arith_div_nonneg (by decide) (by mi_disch) (by mi_disch) (by mi_disch) (by mi_disch)
    | exact arith_rem_nonneg (by decide) (by mi_disch) (by mi_disch) (by mi_disch) (by mi_disch)
    | exact arith_eq | exact arith_ne
    | exact arith_lt (by decide) | exact arith_le (by decide)
    | exact arith_gt (by decide) | exact arith_ge (by decide)
    | exact arith_band (by decide) | exact arith_bor (by decide) | exact arith_bxor (by decide)
    | exact unop_neg_ok (by decide) (by mi_disch) (by mi_disch)
    | exact unop_not_int (by decide) (by decide)
    | exact unop_not_bool
    | exact meth1_abs_ok (by decide) (by mi_disch)
    | exact meth1_unsignedAbs (by decide)
    | exact meth1_wrappingNeg (by decide)
    | exact m2s_min | exact m2s_max | exact m2s_wadd | exact m2s_wsub | exact m2s_wmul
    -- a cast that does not change the value, else the general form
    | exact wrap_id (by mi_disch) (by mi_disch)
    | exact (rfl : Ty.wrap _ _ = _)
    -- compound: side conditions become goals of their own, closed by the `decide`/`mi_disch` leaves
    | apply binop_arith
    | apply meth2_shl
    | apply meth2_shr
    | apply meth2_same
    | apply coerceAll_cons
    | apply bindArgs_cons
    | apply ev_un | apply ev_bin | apply ev_and | apply ev_or | apply ev_cast
    | apply ev_m1 | apply ev_m2 | apply ev_ite | apply ev_let | apply ev_pair | apply ev_some
    | apply ev_callFn | apply ev_call
    -- choose the branch of an `if` whose condition the hypotheses decide
    | refine ite_pos_eq (by mi_disch) ?_
    | refine ite_neg_eq (by mi_disch) ?_
    | decide
    | mi_disch)

/-- run the symbolic executor until no goal of the evaluator's form is left -/
macro "mi_eval" : tactic => `(tactic| repeat mi_step)
