/-
Tie B, tables (DESIGN §4.2): the word registrations, the arithmetic operator table, the data-word
table, the three limit comparisons and the list of direct state-mutation sites that
`tools/extract.py` regenerates from /repo/src/*.rs into Generated/Tables.lean, against expected
tables written by hand. Checked by `decide +kernel` (no axioms). Separate from
Proofs/LeafBridge.lean (which imports this module) so that the two are checked in parallel and a
change of a leaf *function* does not re-check the tables, nor the other way round.
-/
import XehModel.Proofs.Tables.Words
import XehModel.Proofs.Tables.Arith
import XehModel.Proofs.Tables.Data
import XehModel.Proofs.Tables.Limits
import XehModel.Proofs.Tables.BuildRoutes
import XehModel.Proofs.Tables.LastError
import XehModel.Proofs.Tables.ReverseLog
import XehModel.Proofs.Tables.RangeOps
import XehModel.Proofs.Tables.Mutations
