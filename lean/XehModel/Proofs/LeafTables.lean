/-
Tie B, tables (DESIGN §4.2): the word registrations, the arithmetic operator table, the data-word
table, the three limit comparisons and the list of direct state-mutation sites that
`tools/extract.py` regenerates from /repo/src/*.rs into Generated/Tables.lean, against expected
tables written by hand. Checked by `decide +kernel` (no axioms). Separate from
Proofs/LeafBridge.lean (which imports this module) so that the two are checked in parallel and a
change of a leaf *function* does not re-check the tables, nor the other way round.
-/
import XehModel.Generated.Tables
import XehModel.Model.Arith

namespace Xeh.LeafBridge
open Xeh.Generated

/-! The expected tables below are written by hand from the source as it is now (after the `fix:`
commits). `tools/extract.py` regenerates the `src_*` side on every run; an edit of a registration,
of an operator in arith.rs, of a limit test or a new direct mutation of an interpreter stack makes
one of these `decide`s fail. -/

/-- the immediate (compile-time) words, in registration order -/
def expectedImmediates : List String := [
  "if", "else", "then", "case", "of", "endof", "endcase", "begin", "while", "until",
  "break", "repeat", "[", "]", "{", "}", ":", ";", "late", "immediate",
  "local", "var", "!", "nil", "#(", "#)", "~)", "const", "do", "loop",
  "foreach", "defined", "let", "include", "require", "^{", "^}", "^hex", "^dec", "^oct",
  "^bin", "fmt/prefix", "fmt/tags", "fmt/upcase", "see", "enum", "endenum"
]

theorem immediates_match : src_immediates = expectedImmediates := rfl

/-- arith.rs, word by word: which Rust operation implements the integer arm and which the real arm
    (next to the model words of Model/Arith.lean: `wordAdd` = `wrap128 (a + b)` ↔ `wrapping_add`,
    `wordDiv` = zero test, `tdiv`, range test ↔ `== 0 DivisionByZero checked_div IntegerOverflow`,
    `wordRem` ↔ `wrapping_rem`, `wordNeg`/`wordAbs` ↔ `checked_neg`/`checked_abs`, `shl128`/`shr128`
    with `shiftCount` ↔ `wrapping_shl/shr(a, b as u32)`, …); last the shared helpers: operands are
    popped right then left, the integer arm is taken on the *right* operand's type, `ops(a, b)`
    keeps the operand order. -/
def expectedArithOps : List (String × String) := [
  ("+", "int: wrapping_add real: Add::add"),
  ("-", "int: wrapping_sub real: Sub::sub"),
  ("*", "int: wrapping_mul real: Mul::mul"),
  ("/", "int: to_xint == 0 DivisionByZero checked_div IntegerOverflow real: to_real == 0.0 DivisionByZero /"),
  ("neg", "int: checked_neg IntegerOverflow real: neg"),
  ("abs", "int: checked_abs IntegerOverflow real: abs"),
  ("<", "int: to_xint cmp real: to_real compare_reals() then: is_lt"),
  ("<=", "int: to_xint cmp real: to_real compare_reals() then: is_le"),
  (">", "int: to_xint cmp real: to_real compare_reals() then: is_gt"),
  (">=", "int: to_xint cmp real: to_real compare_reals() then: is_ge"),
  ("==", "int: to_xint cmp real: to_real compare_reals() then: is_eq"),
  ("<>", "int: to_xint cmp real: to_real compare_reals() then: is_ne"),
  ("rem", "int: to_xint == 0 DivisionByZero wrapping_rem real: to_real %"),
  ("and", "to_bool & to_bool"),
  ("or", "to_bool | to_bool"),
  ("xor", "to_bool ^ to_bool"),
  ("not", "to_bool not"),
  ("band", "int: BitAnd::bitand"),
  ("bor", "int: BitOr::bitor"),
  ("bxor", "int: BitXor::bitxor"),
  ("bnot", "to_xint not"),
  ("bsl", "int: wrapping_shl as u32"),
  ("bsr", "int: wrapping_shr as u32"),
  ("round", "to_real round"),
  ("random", "getrandom::getrandom u32::from_le_bytes as Xreal / u32::MAX as Xreal"),
  ("min", "int: min real: min"),
  ("max", "int: max real: max"),
  (">real", "to_xint as Xreal"),
  (">int", "to_real as Xint"),
  ("zero?", "int: == 0 real: == 0.0"),
  ("positive?", "int: > 0 real: > 0.0"),
  ("negative?", "int: < 0 real: < 0.0"),
  ("popcnt", "to_xint count_ones"),
  ("fn arithmetic_ops_int", "to_xint to_xint ops_int(a,b)"),
  ("fn arithmetic_ops_real", "int: to_xint ops_int(a,*b) real: to_real ops_real(a,*b)"),
  ("fn compare_cells", "int: to_xint cmp real: to_real compare_reals()"),
  ("fn compare_reals", "< Ordering::Less > Ordering::Greater Ordering::Equal")
]

theorem arith_table_matches : src_arith = expectedArithOps := rfl

/-- the words arith.rs registers (all non-immediate), in registration order -/
def expectedArithWords : List String := [
  "+", "-", "*", "/", "neg", "abs", "<", "<=", ">", ">=",
  "==", "<>", "rem", "and", "or", "xor", "not", "band", "bor", "bxor",
  "bnot", "bsl", "bsr", "round", "random", "min", "max", ">real", ">int", "zero?",
  "positive?", "negative?", "popcnt"
]

theorem arith_words_match : src_arith_words = expectedArithWords := rfl

/-- every word of the model's arithmetic table (`Xeh.arithTable`, Model/Arith.lean) is registered by
    arith.rs … -/
theorem arith_words_registered : ∀ w ∈ Xeh.arithTable.map (·.1), w ∈ src_arith_words := by
  decide +kernel

/-- … and the model covers every word arith.rs registers, except `random` -/
theorem arith_words_modelled :
    ∀ w ∈ src_arith_words, w = "random" ∨ w ∈ Xeh.arithTable.map (·.1) := by
  decide +kernel

/-- the macro-generated data words: for every width the twelve integer words, for 32/64 the six
    float words, each bound to the reader / writer with that width and byte order -/
def expectedDataWords : List (String × String) :=
  (["8", "16", "32", "64"].flatMap fun n => [
    ("u" ++ n, "|xs|read_unsigned_n(xs," ++ n ++ ")"),
    ("u" ++ n ++ "le", "|xs|read_unsigned(xs," ++ n ++ ",Byteorder::Little)"),
    ("u" ++ n ++ "be", "|xs|read_unsigned(xs," ++ n ++ ",Byteorder::Big)"),
    ("i" ++ n, "|xs|read_signed_n(xs," ++ n ++ ")"),
    ("i" ++ n ++ "le", "|xs|read_signed(xs," ++ n ++ ",Byteorder::Little)"),
    ("i" ++ n ++ "be", "|xs|read_signed(xs," ++ n ++ ",Byteorder::Big)"),
    ("u" ++ n ++ "!", "|xs|pack_int(xs," ++ n ++ ")"),
    ("u" ++ n ++ "le!", "|xs|pack_int_bo(xs," ++ n ++ ",Byteorder::Little)"),
    ("u" ++ n ++ "be!", "|xs|pack_int_bo(xs," ++ n ++ ",Byteorder::Big)"),
    ("i" ++ n ++ "!", "|xs|pack_int(xs," ++ n ++ ")"),
    ("i" ++ n ++ "le!", "|xs|pack_int_bo(xs," ++ n ++ ",Byteorder::Little)"),
    ("i" ++ n ++ "be!", "|xs|pack_int_bo(xs," ++ n ++ ",Byteorder::Big)")]) ++
  (["32", "64"].flatMap fun n => [
    ("f" ++ n, "|xs|read_float_n(xs," ++ n ++ ")"),
    ("f" ++ n ++ "le", "|xs|read_float(xs," ++ n ++ ",Byteorder::Little)"),
    ("f" ++ n ++ "be", "|xs|read_float(xs," ++ n ++ ",Byteorder::Big)"),
    ("f" ++ n ++ "!", "|xs|pack_float(xs," ++ n ++ ")"),
    ("f" ++ n ++ "le!", "|xs|pack_float_bo(xs," ++ n ++ ",Byteorder::Little)"),
    ("f" ++ n ++ "be!", "|xs|pack_float_bo(xs," ++ n ++ ",Byteorder::Big)")])

theorem data_words_match : src_data_words = expectedDataWords := by decide +kernel

/-- the three resource-limit tests: each compares the *current* size with `>=` against the limit
    (so a limit of `n` admits exactly `n` cells / heap slots / instructions), an unset limit is
    `usize::MAX`, and the outcome is an error return — not a panic, not a silent clamp -/
def expectedLimitChecks : List (String × String × String × String × String × String) := [
  ("check_stack_limit", "self.data_stack.len()", ">=", "limit", "self.stack_limit.unwrap_or(usize::MAX)", "return Err(Xerr::ErrorMsg(..))"),
  ("check_heap_limit", "self.heap.len()", ">=", "limit", "self.heap_limit.unwrap_or(usize::MAX)", "return Err(Xerr::ErrorMsg(..))"),
  ("insn_meter_increase", "self.insn_meter", ">=", "limit", "self.insn_limit.unwrap_or(usize::MAX)", "return Err(Xerr::ErrorMsg(..))")
]

theorem limit_comparisons_match_source :
    src_limit_checks = expectedLimitChecks ∧
    src_limit_effects = [("insn_meter_increase", "self.insn_meter+=1")] := ⟨rfl, rfl⟩

/-- Every place of the crate (outside `#[cfg(test)]` and the `verif_hooks` block) that mutates one of
    the interpreter's stacks / tables directly, as (field.operation, enclosing function), in source
    order. `&mut` = a mutable borrow of the field or of one of its elements, `[]=` = assignment
    through an index. Read it as: the run-time stacks (`data_stack return_stack loops special heap`)
    are touched only by the primitives `push_data … alloc_heap`, their inverse `reverse_changes`,
    the two unwinders `build_unwind` / `abort_run`, and `foreach_next` (logged since the C02 repair);
    everything else is compile-time state (`code debug_map dict flow_stack nested input`). -/
def expectedMutationSites : List (String × String) := [
  ("input.truncate", "build_unwind"),
  ("nested.truncate", "build_unwind"),
  ("flow_stack.truncate", "build_unwind"),
  ("code.truncate", "build_unwind"),
  ("debug_map.truncate", "build_unwind"),
  ("dict.get_mut", "build_unwind"),
  ("dict.truncate", "build_unwind"),
  ("heap.truncate", "build_unwind"),
  ("data_stack.truncate", "build_unwind"),
  ("return_stack.truncate", "build_unwind"),
  ("loops.truncate", "build_unwind"),
  ("special.truncate", "build_unwind"),
  ("input.push", "intern_source"),
  ("input.last_mut", "next_token"),
  ("input.pop", "next_token"),
  ("nested.push", "context_open"),
  ("nested.pop", "context_close"),
  ("code.truncate", "context_close"),
  ("debug_map.truncate", "context_close"),
  ("dict.swap_remove", "context_close"),
  -- repair 0bda475: the results of a meta block are taken off the stack without a reverse-log entry;
  -- the model function that accounts for it is `Session.emitResults` (Model/Session.lean)
  ("data_stack.pop", "context_close"),
  ("dict.push", "dict_insert"),
  ("debug_map.[]=", "code_emit"),
  ("debug_map.push", "code_emit"),
  ("code.push", "code_emit"),
  ("code.[]=", "backpatch"),
  ("heap.get_mut", "swap_cell_ref"),
  ("heap.push", "alloc_heap"),
  ("return_stack.truncate", "abort_run"),
  ("loops.truncate", "abort_run"),
  ("special.truncate", "abort_run"),
  -- `Resolve` inside a meta block binds for one execution: swap the opcode in, run it, put `Resolve` back
  -- (Model/VM.lean `patchCode`)
  ("code.&mut", "fetch_and_run"),
  ("code.[]=", "fetch_and_run"),
  ("data_stack.pop", "reverse_changes"),
  ("data_stack.push", "reverse_changes"),
  ("data_stack.swap", "reverse_changes"),
  ("data_stack.swap", "reverse_changes"),
  ("return_stack.pop", "reverse_changes"),
  ("return_stack.push", "reverse_changes"),
  ("loops.push", "reverse_changes"),
  ("loops.pop", "reverse_changes"),
  ("loops.last_mut", "reverse_changes"),
  ("special.push", "reverse_changes"),
  ("special.pop", "reverse_changes"),
  ("heap.get_mut", "reverse_changes"),
  ("flow_stack.pop", "pop_flow"),
  ("flow_stack.push", "push_flow"),
  ("data_stack.push", "push_data"),
  ("data_stack.pop", "pop_data"),
  ("data_stack.swap", "swap_data"),
  ("data_stack.swap", "rot_data"),
  ("return_stack.push", "push_return"),
  ("return_stack.pop", "pop_return"),
  ("return_stack.&mut", "top_frame"),
  ("loops.push", "push_loop"),
  ("loops.pop", "pop_loop"),
  ("loops.last_mut", "loop_next"),
  ("special.push", "push_special"),
  ("special.pop", "pop_special"),
  ("flow_stack.remove", "take_first_cond_flow"),
  ("dict.get_mut", "core_word_def_end"),
  ("dict.get_mut", "core_word_immediate"),
  ("dict.&mut", "core_word_const"),
  ("loops.last_mut", "foreach_next"),
  ("flow_stack.last_mut", "enum_field_default"),
  ("flow_stack.last_mut", "enum_field_set_value")
]

theorem mutation_sites_match : src_mutation_sites = expectedMutationSites := rfl

/-- all of them are in state.rs (the fields are private to that module) -/
theorem mutation_sites_in_state_rs : src_mutation_files = List.replicate 66 "state.rs" := by decide +kernel

/-- the functions that may touch a run-time stack (`data_stack return_stack loops special heap`), in
    source order: the unwinder of a failed build, the closing of a meta block (it takes the block's results off the
    stack to re-emit them as literals: `Session.emitResults`), the heap primitives, the run-time unwinder, the
    reverse interpreter, the stack primitives `Prog` is built from (Model/Prog.lean) and
    `foreach_next` (logged since the C02 repair) -/
def runtimePrimitives : List String := [
  "build_unwind", "context_close", "swap_cell_ref", "alloc_heap", "abort_run", "reverse_changes", "push_data",
  "pop_data", "swap_data", "rot_data", "push_return", "pop_return", "top_frame",
  "push_loop", "pop_loop", "loop_next", "push_special", "pop_special", "foreach_next"]

/-- the statement that justifies modelling native words as programs over the primitives: no
    function outside `runtimePrimitives` — in particular no `core_word_*` — mutates a run-time stack
    directly -/
theorem runtime_mutators_match : src_runtime_mutators = runtimePrimitives := rfl

def isRuntimeField (site : String) : Bool :=
  ["data_stack.", "return_stack.", "loops.", "special.", "heap."].any fun f => f.isPrefixOf site

/-- the same, derived in Lean from the full site list (not from the translator's digest) -/
theorem runtime_mutations_only_in_primitives :
    ∀ s ∈ src_mutation_sites, isRuntimeField s.1 = true → s.2 ∈ runtimePrimitives := by
  decide +kernel

end Xeh.LeafBridge
