/-
Helper lemmas for C16 (bit-strings): the printer's chunks (two hex digits per 8 bits, a final
partial chunk as hex digit + `x`/`.` marks, chunks separated by a blank) against the reader.
-/
import XehModel.Model.Lex
import XehModel.Model.Print
import XehModel.Proofs.LexNum

namespace Xeh.Lex
open Xeh.Print

/-- the bits one character of a bit-string literal contributes (`none`: not allowed / closing) -/
def bitCharBits (c : Char) : Option (List Bool) :=
  match toDigit 16 c with
  | some x => some (nibbleBits x)
  | none =>
    if isWs c then some []
    else if c == '.' then some [false]
    else if c == 'x' then some [true]
    else none

def decodeChars : List Char → Option (List Bool)
  | [] => some []
  | c :: r =>
    match bitCharBits c, decodeChars r with
    | some b, some bs => some (b ++ bs)
    | _, _ => none

theorem decodeChars_append (a b : List Char) (x y : List Bool)
    (ha : decodeChars a = some x) (hb : decodeChars b = some y) : decodeChars (a ++ b) = some (x ++ y) := by
  induction a generalizing x with
  | nil => simp [decodeChars] at ha; subst ha; simpa using hb
  | cons c t ih =>
    simp only [decodeChars, List.cons_append] at ha ⊢
    cases hc : bitCharBits c with
    | none => simp [hc] at ha
    | some bc =>
      cases ht : decodeChars t with
      | none => simp [hc, ht] at ha
      | some bt =>
        simp [hc, ht] at ha
        subst ha
        simp [ih bt ht, List.append_assoc]

theorem BitsEnd.prepend_nil (e : BitsEnd) : e.prepend [] = e := by
  cases e <;> simp [BitsEnd.prepend]

theorem BitsEnd.prepend_prepend (e : BitsEnd) (a b : List Bool) :
    (e.prepend b).prepend a = e.prepend (a ++ b) := by
  cases e <;> simp [BitsEnd.prepend]

/-- the reader on allowed characters followed by anything -/
theorem scanBits_decode (cs : List Char) (bits : List Bool) (tail : List Char)
    (h : decodeChars cs = some bits) :
    scanBits (cs ++ tail) =
      ((scanBits tail).1.prepend bits, cs ++ (scanBits tail).2.1, (scanBits tail).2.2) := by
  induction cs generalizing bits with
  | nil => simp [decodeChars] at h; subst h; simp [BitsEnd.prepend_nil]
  | cons c t ih =>
    simp only [decodeChars] at h
    cases hc : bitCharBits c with
    | none => simp [hc] at h
    | some bc =>
      cases ht : decodeChars t with
      | none => simp [hc, ht] at h
      | some bt =>
        simp [hc, ht] at h
        subst h
        have := ih bt ht
        simp only [List.cons_append]
        unfold bitCharBits at hc
        rw [scanBits]
        split at hc
        · rename_i x hx
          simp at hc; subst hc
          simp [hx, this, BitsEnd.prepend_prepend]
        · rename_i hx
          simp only [hx]
          split at hc
          · rename_i hw
            simp at hc; subst hc
            simp [hw, this]
          · rename_i hw
            split at hc
            · rename_i hdot
              simp at hc; subst hc
              simp [hw, hdot, this, BitsEnd.prepend_prepend]
            · rename_i hdot
              split at hc
              · rename_i hxx
                simp at hc; subst hc
                simp [hw, hdot, hxx, this, BitsEnd.prepend_prepend]
              · simp at hc

/-! ### the per-chunk table: a printed chunk of 1..8 bits reads back as those bits -/

theorem chunk1 : ∀ a : Bool, decodeChars (printChunk (bitsVal [a]) 1) = some [a] := by decide +kernel
theorem chunk2 : ∀ a b : Bool, decodeChars (printChunk (bitsVal [a,b]) 2) = some [a,b] := by decide +kernel
theorem chunk3 : ∀ a b c : Bool, decodeChars (printChunk (bitsVal [a,b,c]) 3) = some [a,b,c] := by
  decide +kernel
theorem chunk4 : ∀ a b c d : Bool, decodeChars (printChunk (bitsVal [a,b,c,d]) 4) = some [a,b,c,d] := by
  decide +kernel
theorem chunk5 : ∀ a b c d e : Bool,
    decodeChars (printChunk (bitsVal [a,b,c,d,e]) 5) = some [a,b,c,d,e] := by decide +kernel
theorem chunk6 : ∀ a b c d e f : Bool,
    decodeChars (printChunk (bitsVal [a,b,c,d,e,f]) 6) = some [a,b,c,d,e,f] := by decide +kernel
theorem chunk7 : ∀ a b c d e f g : Bool,
    decodeChars (printChunk (bitsVal [a,b,c,d,e,f,g]) 7) = some [a,b,c,d,e,f,g] := by decide +kernel
theorem chunk8 : ∀ a b c d e f g h : Bool,
    decodeChars (printChunk (bitsVal [a,b,c,d,e,f,g,h]) 8) = some [a,b,c,d,e,f,g,h] := by decide +kernel

theorem chunk_table (c : List Bool) (h1 : 1 ≤ c.length) (h8 : c.length ≤ 8) :
    decodeChars (printChunk (bitsVal c) c.length) = some c := by
  match c, h1, h8 with
  | [a], _, _ => exact chunk1 a
  | [a,b], _, _ => exact chunk2 a b
  | [a,b,c], _, _ => exact chunk3 a b c
  | [a,b,c,d], _, _ => exact chunk4 a b c d
  | [a,b,c,d,e], _, _ => exact chunk5 a b c d e
  | [a,b,c,d,e,f], _, _ => exact chunk6 a b c d e f
  | [a,b,c,d,e,f,g], _, _ => exact chunk7 a b c d e f g
  | [a,b,c,d,e,f,g,h], _, _ => exact chunk8 a b c d e f g h
  | [], h1, _ => simp at h1
  | _ :: _ :: _ :: _ :: _ :: _ :: _ :: _ :: _ :: _, _, h8 => simp at h8

/-! ### chunks of 8 -/

theorem chunks8_flatten (bs : List Bool) : (chunks8 bs).flatten = bs := by
  fun_induction chunks8 bs with
  | case1 => rfl
  | case2 bs h ih => simp [ih, List.take_append_drop]

theorem chunks8_len (bs : List Bool) : ∀ c ∈ chunks8 bs, 1 ≤ c.length ∧ c.length ≤ 8 := by
  fun_induction chunks8 bs with
  | case1 => simp
  | case2 bs h ih =>
    intro c hc
    simp only [List.mem_cons] at hc
    rcases hc with rfl | hc
    · have : 0 < bs.length := List.length_pos_iff.mpr h
      simp only [List.length_take]; omega
    · exact ih c hc

theorem decode_joinSp (cs : List (List Bool)) (h : ∀ c ∈ cs, 1 ≤ c.length ∧ c.length ≤ 8) :
    decodeChars (joinSp (cs.map fun c => printChunk (bitsVal c) c.length)) = some cs.flatten := by
  induction cs with
  | nil => simp [joinSp, decodeChars]
  | cons a t ih =>
    have ha := chunk_table a (h a (by simp)).1 (h a (by simp)).2
    have iht := ih (fun c hc => h c (by simp [hc]))
    cases t with
    | nil => simpa [joinSp] using ha
    | cons b t' =>
      simp only [List.map_cons, joinSp] at iht ⊢
      have hsp : decodeChars (' ' :: joinSp (printChunk (bitsVal b) b.length :: List.map (fun c => printChunk (bitsVal c) c.length) t'))
          = some (b :: t').flatten := by
        have hb : bitCharBits ' ' = some [] := by decide +kernel
        simp only [decodeChars, hb, iht]
        simp
      have := decodeChars_append _ _ _ _ ha hsp
      simpa using this

/-- the reader on the printed body of any bit list, closed by `|`, followed by anything -/
theorem scanBits_print (bs : List Bool) (rest : List Char) :
    scanBits (joinSp ((chunks8 bs).map fun c => printChunk (bitsVal c) c.length) ++ '|' :: rest) =
      (.closed bs, joinSp ((chunks8 bs).map fun c => printChunk (bitsVal c) c.length) ++ ['|'], rest) := by
  have hd := decode_joinSp (chunks8 bs) (chunks8_len bs)
  rw [chunks8_flatten] at hd
  rw [scanBits_decode _ bs _ hd]
  have : scanBits ('|' :: rest) = (.closed [], ['|'], rest) := by
    rw [scanBits]
    have h1 : toDigit 16 '|' = none := by decide +kernel
    simp [h1, isWs]
  simp [this, BitsEnd.prepend]

/-- lexing the print of any bit-string yields that bit-string and consumes exactly the print —
    whatever follows (the lexer requires no separator after the closing bar) -/
theorem scan_printBits (pos : Nat) (bs : List Bool) (rest : List Char) :
    scan pos (printBits bs ++ rest) = ⟨.ok (.lit (.bitstr bs)), printBits bs, rest⟩ := by
  unfold printBits
  simp only [List.cons_append, List.append_assoc]
  rw [scan_nonws_head pos '|' _ (by decide)]
  unfold scanTok
  have h1 : ('|' == '"' || '|' == '“') = false := by decide
  simp only [h1, Bool.false_eq_true, if_false, beq_self_eq_true, if_true]
  have := scanBits_print bs rest
  simp only [List.nil_append]
  rw [this]

end Xeh.Lex
