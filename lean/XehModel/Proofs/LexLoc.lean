/-
Helper lemmas for C17 (location function): the `token_location` scan against a declarative
description of line / column / quoted line.
-/
import XehModel.Model.Lex
import XehModel.Proofs.LexTiling

namespace Xeh.Lex

/-- a line break character for `token_location`: LF or CR -/
def isBreak (c : Char) : Bool := c == '\n' || c == '\r'

/-- the text after the last line break of `pre` (all of `pre` when it has none), computed left to
    right: `seg` is the current break-free run -/
def lastSegAux : List Char → List Char → List Char
  | [], seg => seg
  | c :: r, seg => if isBreak c then lastSegAux r [] else lastSegAux r (seg ++ [c])

def lastSeg (pre : List Char) : List Char := lastSegAux pre []

/-- number of LF characters -/
def countLF : List Char → Nat
  | [] => 0
  | c :: r => (if c == '\n' then 1 else 0) + countLF r

/-- the break-free prefix of `post` -/
def firstSeg : List Char → List Char
  | [] => []
  | c :: r => if isBreak c then [] else c :: firstSeg r

/-- `lastSegAux` returns the maximal break-free suffix -/
theorem lastSegAux_spec (pre seg : List Char) (hseg : ∀ c ∈ seg, isBreak c = false) :
    ∃ a, seg ++ pre = a ++ lastSegAux pre seg ∧ (∀ c ∈ lastSegAux pre seg, isBreak c = false) ∧
      (a = [] ∨ ∃ a' b, a = a' ++ [b] ∧ isBreak b = true) := by
  induction pre generalizing seg with
  | nil => exact ⟨[], by simp [lastSegAux], by simpa [lastSegAux] using hseg, Or.inl rfl⟩
  | cons c r ih =>
    by_cases hc : isBreak c = true
    · obtain ⟨a1, h1, h2, h3⟩ := ih [] (by simp)
      simp only [lastSegAux, hc, if_true]
      refine ⟨seg ++ [c] ++ a1, ?_, h2, Or.inr ?_⟩
      · simp only [List.nil_append] at h1
        rw [List.append_assoc, List.append_assoc, ← h1]; simp
      · rcases h3 with rfl | ⟨a', b, rfl, hb⟩
        · exact ⟨seg, c, by simp, hc⟩
        · exact ⟨seg ++ [c] ++ a', b, by simp, hb⟩
    · have hc' : isBreak c = false := by simpa using hc
      obtain ⟨a1, h1, h2, h3⟩ := ih (seg ++ [c]) (by
        intro x hx; simp only [List.mem_append, List.mem_singleton] at hx
        rcases hx with hx | rfl
        · exact hseg x hx
        · exact hc')
      simp only [lastSegAux, hc', Bool.false_eq_true, if_false]
      exact ⟨a1, by rw [← h1]; simp, h2, h3⟩

/-! ### byte extraction -/

theorem dropBytes_append (a r : List Char) : dropBytes (a ++ r) (utf8Len a) = some r := by
  induction a with
  | nil => cases r <;> simp [utf8Len, dropBytes]
  | cons c t ih =>
    have hp := utf8Size_pos c
    rw [utf8Len_cons]
    obtain ⟨k, hk⟩ : ∃ k, utf8Size c + utf8Len t = k + 1 := ⟨utf8Size c + utf8Len t - 1, by omega⟩
    rw [hk]
    simp only [List.cons_append, dropBytes]
    have : utf8Size c ≤ k + 1 := by omega
    simp only [this, if_true]
    have : k + 1 - utf8Size c = utf8Len t := by omega
    rw [this]; exact ih

theorem takeBytes_append (m b : List Char) : takeBytes (m ++ b) (utf8Len m) = some m := by
  induction m with
  | nil => cases b <;> simp [utf8Len, takeBytes]
  | cons c t ih =>
    have hp := utf8Size_pos c
    rw [utf8Len_cons]
    obtain ⟨k, hk⟩ : ∃ k, utf8Size c + utf8Len t = k + 1 := ⟨utf8Size c + utf8Len t - 1, by omega⟩
    rw [hk]
    simp only [List.cons_append, takeBytes]
    have : utf8Size c ≤ k + 1 := by omega
    simp only [this, if_true]
    have : k + 1 - utf8Size c = utf8Len t := by omega
    rw [this, ih]; rfl

theorem substrBytes_mid (a m b : List Char) :
    substrBytes (a ++ m ++ b) (utf8Len a) (utf8Len a + utf8Len m) = some m := by
  unfold substrBytes
  simp only [Nat.le_add_right, if_true]
  rw [List.append_assoc, dropBytes_append]
  simp only [Option.bind]
  have : utf8Len a + utf8Len m - utf8Len a = utf8Len m := by omega
  rw [this, takeBytes_append]

/-! ### the scan -/

/-- phase 1: characters before the token start. `seg` is the current break-free run; the loop
    state is `start = i - |seg|` bytes, `col = |seg|` chars. -/
theorem locLoop_before (T : Nat) (pre post : List Char) (i : Nat) (seg : List Char) (e line : Nat)
    (hT : T = i + utf8Len pre) (hseg : utf8Len seg ≤ i) :
    locLoop T (pre ++ post) i (i - utf8Len seg) e line seg.length =
      locLoop T post T (T - utf8Len (lastSegAux pre seg)) (if pre = [] then e else T)
        (line + countLF pre) (lastSegAux pre seg).length := by
  induction pre generalizing i seg e line with
  | nil => simp [utf8Len] at hT; subst hT; simp [lastSegAux, countLF]
  | cons c r ih =>
    have hp := utf8Size_pos c
    rw [utf8Len_cons] at hT
    simp only [List.cons_append, locLoop]
    by_cases hc : isBreak c = true
    · have hc2 : (c == '\n' || c == '\r') = true := hc
      simp only [hc2, if_true]
      have hnot : ¬(i - utf8Len seg ≤ T ∧ T < i + utf8Size c) := by omega
      simp only [hnot, if_false]
      have := ih (i + utf8Size c) [] (i + utf8Size c) (if (c == '\n') = true then line + 1 else line)
        (by omega) (by simp [utf8Len])
      simp only [utf8Len, List.map_nil, List.sum_nil, Nat.sub_zero, List.length_nil] at this
      rw [this]
      simp only [lastSegAux, hc, if_true, countLF, List.cons_ne_nil, if_false]
      have hr : (if r = [] then i + utf8Size c else T) = T := by
        split
        · rename_i h; subst h; simp [utf8Len] at hT; omega
        · rfl
      rw [hr]
      congr 1
      by_cases hn : (c == '\n') = true <;> simp [hn] <;> omega
    · have hc' : isBreak c = false := by simpa using hc
      have hc2 : (c == '\n' || c == '\r') = false := hc'
      simp only [hc2, Bool.false_eq_true, if_false]
      have hlt : i < T := by omega
      simp only [hlt, if_true]
      have hlen : utf8Len (seg ++ [c]) = utf8Len seg + utf8Size c := by
        rw [utf8Len_append]; simp [utf8Len]
      have := ih (i + utf8Size c) (seg ++ [c]) (i + utf8Size c) line (by omega) (by omega)
      have hst : i + utf8Size c - utf8Len (seg ++ [c]) = i - utf8Len seg := by omega
      rw [hst] at this
      simp only [List.length_append, List.length_singleton] at this
      rw [this]
      simp only [lastSegAux, hc', Bool.false_eq_true, if_false, countLF, List.cons_ne_nil]
      have hn : (c == '\n') = false := by
        simp only [isBreak, Bool.or_eq_false_iff] at hc'; exact hc'.1
      have hr : (if r = [] then i + utf8Size c else T) = T := by
        split
        · rename_i h; subst h; simp [utf8Len] at hT; omega
        · rfl
      rw [hr]
      simp [hn]

/-- phase 2: from the token start on, the scan stops at the first break (or the end) -/
theorem locLoop_after (T : Nat) (post : List Char) (i start line col : Nat) (hi : T ≤ i) (hs : start ≤ T) :
    locLoop T post i start i line col = (start, i + utf8Len (firstSeg post), line, col) := by
  induction post generalizing i with
  | nil => simp [locLoop, firstSeg, utf8Len]
  | cons c r ih =>
    have hp := utf8Size_pos c
    simp only [locLoop]
    by_cases hc : isBreak c = true
    · have hc2 : (c == '\n' || c == '\r') = true := hc
      have hin : start ≤ T ∧ T < i + utf8Size c := by omega
      simp [hc2, hin, firstSeg, hc, utf8Len]
    · have hc' : isBreak c = false := by simpa using hc
      have hc2 : (c == '\n' || c == '\r') = false := hc'
      have hlt : ¬ i < T := by omega
      simp only [hc2, Bool.false_eq_true, if_false, hlt]
      rw [ih (i + utf8Size c) (by omega)]
      simp [firstSeg, hc', utf8Len_cons]; omega

/-- `firstSeg` is the maximal break-free prefix -/
theorem firstSeg_spec (post : List Char) :
    ∃ b, post = firstSeg post ++ b ∧ (∀ c ∈ firstSeg post, isBreak c = false) ∧
      (b = [] ∨ ∃ w b', b = w :: b' ∧ isBreak w = true) := by
  induction post with
  | nil => exact ⟨[], rfl, by simp [firstSeg], Or.inl rfl⟩
  | cons c r ih =>
    by_cases hc : isBreak c = true
    · exact ⟨c :: r, by simp [firstSeg, hc], by simp [firstSeg, hc], Or.inr ⟨c, r, rfl, hc⟩⟩
    · have hc' : isBreak c = false := by simpa using hc
      obtain ⟨b, h1, h2, h3⟩ := ih
      refine ⟨b, ?_, ?_, h3⟩
      · simp only [firstSeg, hc', Bool.false_eq_true, if_false, List.cons_append]; rw [← h1]
      · intro x hx
        simp only [firstSeg, hc', Bool.false_eq_true, if_false, List.mem_cons] at hx
        rcases hx with rfl | hx
        · exact hc'
        · exact h2 x hx

/-- the whole function on a token starting right after `pre` -/
theorem tokenLocation_eq (pre post : List Char) :
    tokenLocation (pre ++ post) (utf8Len pre) =
      .ok (⟨countLF pre, (lastSeg pre).length, utf8Len pre - utf8Len (lastSeg pre),
            utf8Len pre + utf8Len (firstSeg post)⟩, lastSeg pre ++ firstSeg post) := by
  obtain ⟨a, ha, -, -⟩ := lastSegAux_spec pre [] (by simp)
  obtain ⟨b, hb, -, -⟩ := firstSeg_spec post
  simp only [List.nil_append] at ha
  have hlen : utf8Len pre = utf8Len a + utf8Len (lastSeg pre) := by
    have := congrArg utf8Len ha
    rw [utf8Len_append] at this; exact this
  unfold tokenLocation
  have h1 := locLoop_before (utf8Len pre) pre post 0 [] 0 0 (by simp) (by simp [utf8Len])
  simp only [utf8Len, List.map_nil, List.sum_nil, Nat.sub_zero, List.length_nil, Nat.zero_add] at h1
  have he : (if pre = [] then 0 else (List.map utf8Size pre).sum) = (List.map utf8Size pre).sum := by
    split
    · rename_i h; subst h; rfl
    · rfl
  rw [he] at h1
  have h2 := locLoop_after (utf8Len pre) post (utf8Len pre) (utf8Len pre - utf8Len (lastSeg pre))
    (countLF pre) (lastSeg pre).length (Nat.le_refl _) (Nat.sub_le _ _)
  simp only [utf8Len] at h1 h2 hlen ⊢
  rw [h1]
  change locLoop _ post _ _ _ _ _ = _ at h2
  simp only [lastSeg] at h2 ⊢
  rw [h2]
  simp only []
  have hs : substrBytes (pre ++ post) ((List.map utf8Size pre).sum - (List.map utf8Size (lastSegAux pre [])).sum)
      ((List.map utf8Size pre).sum + (List.map utf8Size (firstSeg post)).sum) =
      some (lastSegAux pre [] ++ firstSeg post) := by
    have hm := substrBytes_mid a (lastSegAux pre [] ++ firstSeg post) b
    have e1 : pre ++ post = a ++ (lastSegAux pre [] ++ firstSeg post) ++ b := by
      conv => lhs; rw [ha, hb]
      simp [lastSeg]
    have e2 : (List.map utf8Size pre).sum - (List.map utf8Size (lastSegAux pre [])).sum = utf8Len a := by
      simp only [lastSeg, utf8Len] at hlen ⊢; omega
    have e3 : (List.map utf8Size pre).sum + (List.map utf8Size (firstSeg post)).sum =
        utf8Len a + utf8Len (lastSegAux pre [] ++ firstSeg post) := by
      rw [utf8Len_append]; simp only [lastSeg, utf8Len] at hlen ⊢; omega
    rw [e1, e2, e3]; exact hm
  rw [hs]

end Xeh.Lex
