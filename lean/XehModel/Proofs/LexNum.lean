/-
Helper lemmas for C16 (numbers): digit strings and their value, `natDigits` (printer) against
`digitsVal`/`parseInt` (reader), and the evaluation of `scanWord` on a numeral followed by a
separator.
-/
import XehModel.Model.Lex
import XehModel.Model.Print
import XehModel.Proofs.LexTiling

namespace Xeh.Lex
open Xeh.Print

/-! ### spanP on `body ++ rest` -/

/-- `rest` is empty or starts with a char failing `p` -/
def StopsAt (p : Char → Bool) (rest : List Char) : Prop :=
  rest = [] ∨ ∃ w r, rest = w :: r ∧ p w = false

theorem spanP_append (p : Char → Bool) (body rest : List Char)
    (hb : ∀ c ∈ body, p c = true) (hr : StopsAt p rest) :
    spanP p (body ++ rest) = (body, rest) := by
  induction body with
  | nil =>
    rcases hr with rfl | ⟨w, r, rfl, hw⟩
    · simp [spanP]
    · simp [spanP, hw]
  | cons c t ih =>
    have hc : p c = true := hb c (by simp)
    have := ih (fun x hx => hb x (by simp [hx]))
    simp [spanP, hc, this]

/-! ### digit characters -/

theorem toDigit_digitChar_aux : ∀ up : Bool, ∀ d : Fin 36, toDigit 36 (digitChar up d.val) = some d.val := by
  decide +kernel

theorem toDigit_lt {radix : Nat} {c : Char} {v : Nat} (h : toDigit radix c = some v) : v < radix := by
  unfold toDigit at h
  simp only [] at h
  split at h
  · split at h
    · simp at h; omega
    · simp at h
  · simp at h

/-- `toDigit` in a smaller radix agrees with radix 36 when the digit fits -/
theorem toDigit_of_36 {radix : Nat} {c : Char} {v : Nat} (h : toDigit 36 c = some v) (hv : v < radix) :
    toDigit radix c = some v := by
  unfold toDigit at h ⊢
  simp only [] at h ⊢
  split at h
  · rename_i v' heq
    split at h
    · simp at h; subst h; simp [hv]
    · simp at h
  · simp at h

theorem toDigit_digitChar (up : Bool) {b d : Nat} (hd : d < b) (hb : b ≤ 36) :
    toDigit b (digitChar up d) = some d :=
  toDigit_of_36 (toDigit_digitChar_aux up ⟨d, by omega⟩) hd

/-! ### value of a digit string -/

theorem digitsVal_append (radix : Nat) (xs ys : List Char) (acc : Nat) :
    digitsVal radix (xs ++ ys) acc = (digitsVal radix xs acc).bind (digitsVal radix ys) := by
  induction xs generalizing acc with
  | nil => simp [digitsVal]
  | cons c t ih =>
    simp only [List.cons_append, digitsVal]
    split
    · exact ih _
    · simp

/-- the printer's digits denote the number (every base 2..36, both letter cases) -/
theorem digitsVal_natDigits (b : Nat) (up : Bool) (hb2 : 2 ≤ b) (hb : b ≤ 36) (n : Nat) :
    digitsVal b (natDigits b up n) 0 = some n := by
  induction n using Nat.strongRecOn with
  | _ n ih =>
    rw [natDigits]
    split
    · rename_i h
      have hn : n < b := by omega
      simp [digitsVal, toDigit_digitChar up hn hb]
    · rename_i h
      have hn : b ≤ n := by omega
      have hlt : n / b < n := Nat.div_lt_self (by omega) hb2
      rw [digitsVal_append, ih (n / b) hlt]
      have hm : n % b < b := Nat.mod_lt _ (by omega)
      simp [digitsVal, toDigit_digitChar up hm hb]
      exact Nat.div_add_mod' n b

theorem natDigits_ne_nil (b : Nat) (up : Bool) (n : Nat) : natDigits b up n ≠ [] := by
  rw [natDigits]; split <;> simp

theorem natDigits_all (b : Nat) (up : Bool) (hb2 : 2 ≤ b) (P : Char → Prop)
    (hP : ∀ d, d < b → P (digitChar up d)) (n : Nat) : ∀ c ∈ natDigits b up n, P c := by
  induction n using Nat.strongRecOn with
  | _ n ih =>
    rw [natDigits]
    split
    · rename_i h
      intro c hc
      simp at hc; subst hc; exact hP n (by omega)
    · rename_i h
      intro c hc
      simp only [List.mem_append, List.mem_singleton] at hc
      rcases hc with hc | rfl
      · exact ih (n / b) (Nat.div_lt_self (by omega) hb2) c hc
      · exact hP _ (Nat.mod_lt _ (by omega))

/-- a non-zero number prints with a non-zero leading digit -/
theorem natDigits_head (b : Nat) (up : Bool) (hb2 : 2 ≤ b) (n : Nat) (hn : n ≠ 0) :
    ∃ d t, natDigits b up n = digitChar up d :: t ∧ 0 < d ∧ d < b := by
  induction n using Nat.strongRecOn with
  | _ n ih =>
    rw [natDigits]
    split
    · rename_i h
      exact ⟨n, [], rfl, by omega, by omega⟩
    · rename_i h
      have hge : b ≤ n := by omega
      have hq : n / b ≠ 0 := by
        have : 0 < n / b := Nat.div_pos hge (by omega)
        omega
      obtain ⟨d, t, heq, hd⟩ := ih (n / b) (Nat.div_lt_self (by omega) hb2) hq
      exact ⟨d, t ++ [digitChar up (n % b)], by rw [heq]; rfl, hd⟩

/-- decimal digit chars -/
theorem digitChar_isDigit {d : Nat} (hd : d < 10) : isDigit (digitChar false d) = true := by
  have : ∀ d : Fin 10, isDigit (digitChar false d.val) = true := by decide +kernel
  exact this ⟨d, hd⟩

theorem digitChar_ne_zero {d : Nat} (hd : d < 10) (h0 : 0 < d) : digitChar false d ≠ '0' := by
  have : ∀ d : Fin 10, 0 < d.val → digitChar false d.val ≠ '0' := by decide +kernel
  exact this ⟨d, hd⟩ h0

/-- what being an ASCII digit excludes -/
theorem isDigit_excl {c : Char} (h : isDigit c = true) :
    isWs c = false ∧ c ≠ '"' ∧ c ≠ '“' ∧ c ≠ '|' ∧ c ≠ '.' ∧ c ≠ '_' ∧ c ≠ '-' ∧ c ≠ '+' ∧ c ≠ 'b' ∧ c ≠ 'x' := by
  simp only [isDigit, Bool.and_eq_true, decide_eq_true_eq] at h
  refine ⟨?_, ?_, ?_, ?_, ?_, ?_, ?_, ?_, ?_, ?_⟩
  · simp only [isWs, Bool.or_eq_false_iff, beq_eq_false_iff_ne]
    refine ⟨⟨⟨⟨?_, ?_⟩, ?_⟩, ?_⟩, ?_⟩ <;> (rintro rfl; simp at h)
  all_goals (rintro rfl; simp at h)

/-- `scanWord` on a numeral: head, optional radix prefix, then `body` up to a separator -/
theorem scanWord_num (pos : Nat) (c : Char) (r : List Char) {d : Char}
    {tmp0 taken0 r0 tmp1 takenP body rest : List Char} {radix : Option Nat}
    (h1 : numHead c r = (some d, tmp0, taken0, r0))
    (h2 : radixPrefix (some d) tmp0 r0 = (radix, tmp1, takenP, body ++ rest))
    (hb : ∀ x ∈ body, isWs x = false) (hr : rest = [] ∨ ∃ w r', rest = w :: r' ∧ isWs w = true) :
    scanWord pos c r =
      match numDecide d radix tmp1 body with
      | .ok t => ⟨.ok t, taken0 ++ takenP ++ body, rest⟩
      | .error k => ⟨.error ⟨k, pos, pos + utf8Len (taken0 ++ takenP ++ body)⟩, taken0 ++ takenP ++ body, rest⟩ := by
  have hs : spanP (fun c => !isWs c) (body ++ rest) = (body, rest) := by
    apply spanP_append
    · intro x hx; simp [hb x hx]
    · rcases hr with rfl | ⟨w, r', rfl, hw⟩
      · left; rfl
      · right; exact ⟨w, r', rfl, by simp [hw]⟩
  unfold scanWord
  simp only [h1, h2, hs]
  cases numDecide d radix tmp1 body <;> rfl

/-! ### `parseInt` by sign -/

theorem splitSign_unsigned (c : Char) (t : List Char) (h1 : c ≠ '-') (h2 : c ≠ '+') :
    splitSign (c :: t) = (false, c :: t) := by
  unfold splitSign
  split
  · rename_i heq; simp at heq; exact absurd heq.1 h1
  · rename_i heq; simp at heq; exact absurd heq.1 h2
  · rfl

theorem parseInt_unsigned (radix : Nat) (c : Char) (t : List Char) (h1 : c ≠ '-') (h2 : c ≠ '+') :
    parseInt radix (c :: t) =
      match digitsVal radix (c :: t) 0 with
      | none => none
      | some n => if InRange (n : Int) then some (n : Int) else none := by
  unfold parseInt
  rw [splitSign_unsigned c t h1 h2]
  simp only [List.isEmpty_cons, Bool.false_eq_true, if_false]
  cases digitsVal radix (c :: t) 0 <;> rfl

theorem parseInt_minus (radix : Nat) (ds : List Char) (hne : ds ≠ []) :
    parseInt radix ('-' :: ds) =
      match digitsVal radix ds 0 with
      | none => none
      | some n => if InRange (-(n : Int)) then some (-(n : Int)) else none := by
  unfold parseInt
  simp only [splitSign, List.isEmpty_iff, hne, if_false]
  cases digitsVal radix ds 0 <;> simp

theorem parseInt_plus (radix : Nat) (ds : List Char) (hne : ds ≠ []) :
    parseInt radix ('+' :: ds) =
      match digitsVal radix ds 0 with
      | none => none
      | some n => if InRange (n : Int) then some (n : Int) else none := by
  unfold parseInt
  simp only [splitSign, List.isEmpty_iff, hne, if_false]
  cases digitsVal radix ds 0 <;> simp

/-- a separator: end of input or ASCII whitespace -/
def Sep (rest : List Char) : Prop := rest = [] ∨ ∃ w r', rest = w :: r' ∧ isWs w = true

theorem scan_nonws_head (pos : Nat) (c : Char) (r : List Char) (hc : isWs c = false) :
    scan pos (c :: r) = scanTok pos c r := by
  unfold scan; simp [spanP, hc]

theorem scanTok_word (pos : Nat) (c : Char) (r : List Char) (h1 : c ≠ '"') (h2 : c ≠ '“') (h3 : c ≠ '|') :
    scanTok pos c r = scanWord pos c r := by
  unfold scanTok; simp [h1, h2, h3]

theorem digits_no_dot {t : List Char} (h : ∀ c ∈ t, isDigit c = true) : t.any (· == '.') = false := by
  simp only [List.any_eq_false, beq_iff_eq]
  intro c hc heq
  exact (isDigit_excl (h c hc)).2.2.2.2.1 heq

theorem digits_filter {t : List Char} (h : ∀ c ∈ t, isDigit c = true) : t.filter (· != '_') = t := by
  rw [List.filter_eq_self]
  intro c hc
  simp only [bne_iff_ne]
  exact (isDigit_excl (h c hc)).2.2.2.2.2.1

theorem radixPrefix_none (d : Char) (tmp r : List Char) (hd : d ≠ '0') :
    radixPrefix (some d) tmp r = (none, tmp, [], r) := by
  unfold radixPrefix; simp [hd]

/-- the decimal print of every i128, followed by a separator, lexes as that integer literal and
    consumes exactly the print -/
theorem scan_printDec (pos : Nat) (i : Int) (hi : InRange i) (rest : List Char) (hr : Sep rest) :
    scan pos (printInt {} i ++ rest) = ⟨.ok (.lit (.int i)), printInt {} i, rest⟩ := by
  have hpr : printInt {} i = if i < 0 then '-' :: natDigits 10 false i.natAbs else natDigits 10 false i.natAbs := by
    simp [printInt]
  rw [hpr]
  by_cases h0 : i = 0
  · subst h0
    have hz : natDigits 10 false 0 = ['0'] := by rw [natDigits]; simp [digitChar]
    simp only [Int.natAbs_zero, hz, Int.lt_irrefl, if_false]
    show scan pos ('0' :: rest) = _
    rw [scan_nonws_head pos '0' rest (by decide), scanTok_word pos '0' rest (by decide) (by decide) (by decide)]
    have h1 : numHead '0' rest = (some '0', ['0'], ['0'], rest) := by simp [numHead, isDigit]
    have h2 : radixPrefix (some '0') ['0'] rest = (none, ['0'], [], [] ++ rest) := by
      unfold radixPrefix
      rcases hr with rfl | ⟨w, r', rfl, hw⟩
      · simp
      · have hb : w ≠ 'b' := by rintro rfl; simp [isWs] at hw
        have hx : w ≠ 'x' := by rintro rfl; simp [isWs] at hw
        simp
        split
        · rename_i heq; simp at heq; exact absurd heq.1 hb
        · rename_i heq; simp at heq; exact absurd heq.1 hx
        · rfl
    rw [scanWord_num pos '0' rest h1 h2 (by simp) hr]
    have : numDecide '0' none ['0'] [] = .ok (.lit (.int 0)) := by
      simp [numDecide, parseInt, splitSign, digitsVal, toDigit, InRange]
    simp [this]
  · have hn : i.natAbs ≠ 0 := by omega
    obtain ⟨d, t, heq, hd0, hd10⟩ := natDigits_head 10 false (by omega) i.natAbs hn
    have hall : ∀ c ∈ natDigits 10 false i.natAbs, isDigit c = true :=
      natDigits_all 10 false (by omega) (fun c => isDigit c = true) (fun d hd => digitChar_isDigit hd) _
    have hval := digitsVal_natDigits 10 false (by omega) (by omega) i.natAbs
    rw [heq] at hall hval
    rw [heq]
    have hdc : isDigit (digitChar false d) = true := hall _ (by simp)
    have ht : ∀ c ∈ t, isDigit c = true := fun c hc => hall c (by simp [hc])
    have hne0 : digitChar false d ≠ '0' := digitChar_ne_zero hd10 hd0
    obtain ⟨e1, e2, e3, e4, e5, e6, e7, e8, e9, e10⟩ := isDigit_excl hdc
    have hbody : ∀ x ∈ t, isWs x = false := fun x hx => (isDigit_excl (ht x hx)).1
    by_cases hneg : i < 0
    · simp only [hneg, if_true]
      show scan pos ('-' :: digitChar false d :: (t ++ rest)) = _
      rw [scan_nonws_head pos '-' _ (by decide), scanTok_word pos '-' _ (by decide) (by decide) (by decide)]
      have h1 : numHead '-' (digitChar false d :: (t ++ rest)) =
          (some (digitChar false d), ['-', digitChar false d], ['-', digitChar false d], t ++ rest) := by
        have hd' := hdc
        simp only [isDigit, Bool.and_eq_true, decide_eq_true_eq] at hd'
        simp [numHead, isDigit, hd']
      have h2 := radixPrefix_none (digitChar false d) ['-', digitChar false d] (t ++ rest) hne0
      rw [scanWord_num pos '-' _ h1 h2 hbody hr]
      have hdec : numDecide (digitChar false d) none ['-', digitChar false d] t = .ok (.lit (.int i)) := by
        unfold numDecide
        simp only [digits_no_dot ht, digits_filter ht]
        have : parseInt 10 ('-' :: digitChar false d :: t) = some i := by
          rw [parseInt_minus 10 _ (by simp), hval]
          have hi' : (-(i.natAbs : Int)) = i := by omega
          simp [hi', hi]
        simp [hne0, this]
      simp [hdec]
    · simp only [hneg, if_false]
      show scan pos (digitChar false d :: (t ++ rest)) = _
      rw [scan_nonws_head pos _ _ e1, scanTok_word pos _ _ e2 e3 e4]
      have h1 : numHead (digitChar false d) (t ++ rest) =
          (some (digitChar false d), [digitChar false d], [digitChar false d], t ++ rest) := by
        simp [numHead, hdc]
      have h2 := radixPrefix_none (digitChar false d) [digitChar false d] (t ++ rest) hne0
      rw [scanWord_num pos _ _ h1 h2 hbody hr]
      have hdec : numDecide (digitChar false d) none [digitChar false d] t = .ok (.lit (.int i)) := by
        unfold numDecide
        simp only [digits_no_dot ht, digits_filter ht]
        have : parseInt 10 (digitChar false d :: t) = some i := by
          rw [parseInt_unsigned 10 _ _ e7 e8, hval]
          have hi' : ((i.natAbs : Nat) : Int) = i := by omega
          simp [hi', hi]
        simp [hne0, this]
      simp [hdec]

/-! ### numerals in general: sign, first digit, optional radix prefix, body -/

/-- an optional sign as the lexer accepts it in front of a digit -/
def IsSign (sg : List Char) : Prop := sg = [] ∨ sg = ['+'] ∨ sg = ['-']

/-- sign + first digit: the token is a number; `tmp` starts as sign + digit -/
theorem scan_numeral_head (pos : Nat) (sg : List Char) (hsg : IsSign sg) (d : Char) (hd : isDigit d = true)
    (r : List Char) :
    ∃ c r', sg ++ d :: r = c :: r' ∧ scan pos (sg ++ d :: r) = scanWord pos c r' ∧
      numHead c r' = (some d, sg ++ [d], sg ++ [d], r) := by
  obtain ⟨e1, e2, e3, e4, -, -, e7, e8, -, -⟩ := isDigit_excl hd
  rcases hsg with rfl | rfl | rfl
  · refine ⟨d, r, rfl, ?_, ?_⟩
    · show scan pos (d :: r) = _
      rw [scan_nonws_head pos d r e1, scanTok_word pos d r e2 e3 e4]
    · simp [numHead, hd]
  · refine ⟨'+', d :: r, rfl, ?_, ?_⟩
    · show scan pos ('+' :: d :: r) = _
      rw [scan_nonws_head pos '+' _ (by decide), scanTok_word pos '+' _ (by decide) (by decide) (by decide)]
    · have : isDigit '+' = false := by decide
      simp [numHead, hd, this]
  · refine ⟨'-', d :: r, rfl, ?_, ?_⟩
    · show scan pos ('-' :: d :: r) = _
      rw [scan_nonws_head pos '-' _ (by decide), scanTok_word pos '-' _ (by decide) (by decide) (by decide)]
    · have : isDigit '-' = false := by decide
      simp [numHead, hd, this]

/-- the outcome of a numeric token as a `Step` -/
def numStep (pos : Nat) (res : Except ErrKind Tok) (taken rest : List Char) : Step :=
  match res with
  | .ok t => ⟨.ok t, taken, rest⟩
  | .error k => ⟨.error ⟨k, pos, pos + utf8Len taken⟩, taken, rest⟩

theorem dropLast_sign_zero (sg : List Char) : (sg ++ ['0']).dropLast = sg := by simp

/-- `sign 0x body` / `sign 0b body`: radix 16 / 2, `tmp` = sign ++ body without `_` -/
theorem scan_prefixed (pos : Nat) (sg : List Char) (hsg : IsSign sg) (pc : Char) (R : Nat)
    (hp : (pc = 'x' ∧ R = 16) ∨ (pc = 'b' ∧ R = 2))
    (body rest : List Char) (hb : ∀ x ∈ body, isWs x = false) (hr : Sep rest) :
    scan pos (sg ++ '0' :: pc :: body ++ rest) =
      numStep pos (numDecide '0' (some R) sg body) (sg ++ '0' :: pc :: body) rest := by
  obtain ⟨c, r', heq, hscan, hhead⟩ := scan_numeral_head pos sg hsg '0' (by decide) (pc :: (body ++ rest))
  have e : sg ++ '0' :: pc :: body ++ rest = sg ++ '0' :: pc :: (body ++ rest) := by simp
  rw [e, hscan]
  have h2 : radixPrefix (some '0') (sg ++ ['0']) (pc :: (body ++ rest)) = (some R, sg, [pc], body ++ rest) := by
    rcases hp with ⟨rfl, rfl⟩ | ⟨rfl, rfl⟩ <;> simp [radixPrefix]
  rw [scanWord_num pos c r' hhead h2 hb hr]
  unfold numStep
  cases numDecide '0' (some R) sg body <;> simp

/-- a numeral without radix prefix whose first digit is not `0`: decimal -/
theorem scan_decimal (pos : Nat) (sg : List Char) (hsg : IsSign sg) (d : Char) (hd : isDigit d = true)
    (hd0 : d ≠ '0') (body rest : List Char) (hb : ∀ x ∈ body, isWs x = false) (hr : Sep rest) :
    scan pos (sg ++ d :: body ++ rest) =
      numStep pos (numDecide d none (sg ++ [d]) body) (sg ++ d :: body) rest := by
  obtain ⟨c, r', heq, hscan, hhead⟩ := scan_numeral_head pos sg hsg d hd (body ++ rest)
  have e : sg ++ d :: body ++ rest = sg ++ d :: (body ++ rest) := by simp
  rw [e, hscan]
  have h2 := radixPrefix_none d (sg ++ [d]) (body ++ rest) hd0
  rw [scanWord_num pos c r' hhead h2 hb hr]
  unfold numStep
  cases numDecide d none (sg ++ [d]) body <;> simp

/-- a leading `0` not followed by `x`/`b`: hexadecimal, the `0` stays in `tmp` -/
theorem scan_leadingZero (pos : Nat) (sg : List Char) (hsg : IsSign sg)
    (body rest : List Char) (hb : ∀ x ∈ body, isWs x = false) (hr : Sep rest)
    (hnx : ∀ c t, body = c :: t → c ≠ 'x' ∧ c ≠ 'b') :
    scan pos (sg ++ '0' :: body ++ rest) =
      numStep pos (numDecide '0' none (sg ++ ['0']) body) (sg ++ '0' :: body) rest := by
  obtain ⟨c, r', heq, hscan, hhead⟩ := scan_numeral_head pos sg hsg '0' (by decide) (body ++ rest)
  have e : sg ++ '0' :: body ++ rest = sg ++ '0' :: (body ++ rest) := by simp
  rw [e, hscan]
  have h2 : radixPrefix (some '0') (sg ++ ['0']) (body ++ rest) = (none, sg ++ ['0'], [], body ++ rest) := by
    unfold radixPrefix
    simp only [beq_self_eq_true, if_true]
    split
    · rename_i r1 heq1
      exfalso
      cases body with
      | nil =>
        rcases hr with rfl | ⟨w, r'', rfl, hw⟩
        · simp at heq1
        · simp at heq1; rw [heq1.1] at hw; simp [isWs] at hw
      | cons a t => simp at heq1; exact (hnx a t rfl).2 heq1.1
    · rename_i r1 heq1
      exfalso
      cases body with
      | nil =>
        rcases hr with rfl | ⟨w, r'', rfl, hw⟩
        · simp at heq1
        · simp at heq1; rw [heq1.1] at hw; simp [isWs] at hw
      | cons a t => simp at heq1; exact (hnx a t rfl).1 heq1.1
    · rfl
  rw [scanWord_num pos c r' hhead h2 hb hr]
  unfold numStep
  cases numDecide '0' none (sg ++ ['0']) body <;> simp

/-! ### what `numDecide` decides -/

/-- `_` anywhere in the body is ignored -/
theorem numDecide_underscore (d : Char) (radix : Option Nat) (tmp1 body : List Char) :
    numDecide d radix tmp1 body = numDecide d radix tmp1 (body.filter (· != '_')) := by
  unfold numDecide
  have h1 : (body.filter (· != '_')).any (· == '.') = body.any (· == '.') := by
    induction body with
    | nil => rfl
    | cons c t ih =>
      by_cases hc : c = '_'
      · subst hc; simp [List.filter_cons, ih]
      · have hb : (c != '_') = true := by simp [hc]
        simp [List.filter_cons, hb, ih]
  simp only [h1, List.filter_filter, Bool.and_self]

/-- without a `.` the token is the integer `from_str_radix` reads, or `parse int error` -/
theorem numDecide_int (d : Char) (radix : Option Nat) (tmp1 body : List Char)
    (hnd : body.any (· == '.') = false) :
    numDecide d radix tmp1 body =
      match parseInt (match radix with | some x => x | none => if d == '0' then 16 else 10)
          (tmp1 ++ body.filter (· != '_')) with
      | some i => .ok (.lit (.int i))
      | none => .error .parseInt := by
  unfold numDecide
  simp only [hnd]
  rfl

/-- with a `.`: an error under a radix prefix, else the text handed to the float parser -/
theorem numDecide_real (d : Char) (radix : Option Nat) (tmp1 body : List Char)
    (hd : body.any (· == '.') = true) :
    numDecide d radix tmp1 body =
      if radix.isSome then .error .parseFloat
      else if validFloat (tmp1 ++ body.filter (· != '_')) then .ok (.realLit (tmp1 ++ body.filter (· != '_')))
      else .error .parseFloat := by
  unfold numDecide
  simp only [hd]
  rfl

/-- `from_str_radix` returns exactly the in-range values of well-formed digit strings -/
theorem parseInt_some_iff (radix : Nat) (s : List Char) (i : Int) :
    parseInt radix s = some i ↔
      ∃ n, (splitSign s).2 ≠ [] ∧ digitsVal radix (splitSign s).2 0 = some n ∧
        i = (if (splitSign s).1 then -(n : Int) else (n : Int)) ∧ InRange i := by
  unfold parseInt
  simp only []
  constructor
  · intro h
    by_cases he : (splitSign s).2.isEmpty = true
    · rw [if_pos he] at h; simp at h
    · rw [if_neg he] at h
      cases hn : digitsVal radix (splitSign s).2 0 with
      | none => simp [hn] at h
      | some n =>
        simp only [hn] at h
        by_cases hr : InRange (if (splitSign s).1 = true then -(n : Int) else (n : Int))
        · rw [if_pos hr] at h
          simp at h
          exact ⟨n, by simpa using he, rfl, h.symm, h ▸ hr⟩
        · rw [if_neg hr] at h; simp at h
  · rintro ⟨n, hne, hn, hi, hr⟩
    have : (splitSign s).2.isEmpty = false := by simpa using hne
    simp only [this, hn]
    subst hi
    simp [hr]

/-! ### digit strings with a value -/

theorem toDigit_not_special (radix : Nat) (c : Char) (hc : c = '.' ∨ c = '-' ∨ c = '+' ∨ c = '_') :
    toDigit radix c = none := by
  rcases hc with rfl | rfl | rfl | rfl <;> simp [toDigit]

theorem digitsVal_some_digits {radix : Nat} {ds : List Char} {acc v : Nat}
    (h : digitsVal radix ds acc = some v) : ∀ c ∈ ds, (toDigit radix c).isSome = true := by
  induction ds generalizing acc with
  | nil => simp
  | cons c t ih =>
    simp only [digitsVal] at h
    cases hc : toDigit radix c with
    | none => simp [hc] at h
    | some d =>
      simp only [hc] at h
      intro x hx
      simp only [List.mem_cons] at hx
      rcases hx with rfl | hx
      · simp [hc]
      · exact ih h x hx

theorem digits_not_special {radix : Nat} {ds : List Char} {acc v : Nat}
    (h : digitsVal radix ds acc = some v) (c : Char) (hc : c = '.' ∨ c = '-' ∨ c = '+' ∨ c = '_') : c ∉ ds := by
  intro hm
  have := digitsVal_some_digits h c hm
  rw [toDigit_not_special radix c hc] at this
  simp at this

/-- a `.` in `body` survives the removal of `_` -/
theorem any_dot_filter (body : List Char) :
    (body.filter (· != '_')).any (· == '.') = body.any (· == '.') := by
  induction body with
  | nil => rfl
  | cons c t ih =>
    by_cases hc : c = '_'
    · subst hc; simp [List.filter_cons, ih]
    · have hb : (c != '_') = true := by simp [hc]
      simp [List.filter_cons, hb, ih]

theorem no_dot_of_digits {radix : Nat} {body : List Char} {v : Nat}
    (h : digitsVal radix (body.filter (· != '_')) 0 = some v) : body.any (· == '.') = false := by
  rw [← any_dot_filter]
  simp only [List.any_eq_false, beq_iff_eq]
  intro c hc heq
  exact digits_not_special h c (Or.inl heq) hc

/-- `from_str_radix` on sign + digits -/
theorem parseInt_signed (radix : Nat) (sg ds : List Char) (hsg : IsSign sg) (hne : ds ≠ []) (v : Nat)
    (hv : digitsVal radix ds 0 = some v) :
    parseInt radix (sg ++ ds) =
      if InRange (if sg = ['-'] then -(v : Int) else (v : Int))
      then some (if sg = ['-'] then -(v : Int) else (v : Int)) else none := by
  rcases hsg with rfl | rfl | rfl
  · cases ds with
    | nil => exact absurd rfl hne
    | cons c t =>
      have h1 : c ≠ '-' := by rintro rfl; exact digits_not_special hv '-' (by simp) (by simp)
      have h2 : c ≠ '+' := by rintro rfl; exact digits_not_special hv '+' (by simp) (by simp)
      simp only [List.nil_append]
      rw [parseInt_unsigned radix c t h1 h2, hv]
      simp
  · show parseInt radix ('+' :: ds) = _
    rw [parseInt_plus radix ds hne, hv]
    simp
  · show parseInt radix ('-' :: ds) = _
    rw [parseInt_minus radix ds hne, hv]
    simp

theorem digitsVal_leading_zero (ds : List Char) : digitsVal 16 ('0' :: ds) 0 = digitsVal 16 ds 0 := by
  simp [digitsVal, toDigit]

end Xeh.Lex
