/-
Helper lemmas for C16 (print → token list of vectors and maps): a compositional "lexes to"
relation, the single-character tokens `[ ] { }` and blanks, and the token list of the print of
any nesting of vectors/maps over integers and bit-strings.
-/
import XehModel.Model.Lex
import XehModel.Model.Print
import XehModel.Proofs.LexNum
import XehModel.Proofs.LexBits

namespace Xeh.Lex
open Xeh.Print

/-- scanning `inp` reports the tokens `ts` one after the other (blanks included, at any byte
    position) and leaves `r` -/
inductive Lexes : List Char → List Tok → List Char → Prop
  | nil (r : List Char) : Lexes r [] r
  | cons {inp : List Char} {t : Tok} {taken r1 : List Char} {ts : List Tok} {r : List Char}
      (h : ∀ pos, scan pos inp = ⟨.ok t, taken, r1⟩) (hne : t ≠ .eof) (tl : Lexes r1 ts r) :
      Lexes inp (t :: ts) r

theorem Lexes.append {a b c : List Char} {ts us : List Tok} (h1 : Lexes a ts b) (h2 : Lexes b us c) :
    Lexes a (ts ++ us) c := by
  induction h1 with
  | nil r => simpa using h2
  | cons h hne _ ih => exact Lexes.cons h hne (ih h2)

theorem Lexes.single {inp : List Char} {t : Tok} {taken r : List Char}
    (h : ∀ pos, scan pos inp = ⟨.ok t, taken, r⟩) (hne : t ≠ .eof) : Lexes inp [t] r :=
  Lexes.cons h hne (Lexes.nil r)

theorem runFuel_succ_ok (n : Nat) (lx lx' : Lex) (t : Tok) (h : lx.next = (.ok t, lx')) (hne : t ≠ .eof) :
    Xeh.Lex.runFuel (n + 1) lx =
      ⟨⟨t, lx'.last, lx'.startPos, lx'.pos⟩ :: (Xeh.Lex.runFuel n lx').items, (Xeh.Lex.runFuel n lx').err,
        (Xeh.Lex.runFuel n lx').final⟩ := by
  conv => lhs; unfold Xeh.Lex.runFuel
  rw [h]
  cases t with
  | eof => exact absurd rfl hne
  | _ => rfl

theorem runFuel_succ_eof (n : Nat) (lx lx' : Lex) (h : lx.next = (.ok .eof, lx')) :
    Xeh.Lex.runFuel (n + 1) lx = ⟨[], none, lx'⟩ := by
  conv => lhs; unfold Xeh.Lex.runFuel
  rw [h]

/-- `Lexes` describes `runFuel` -/
theorem Lexes.runFuel {inp : List Char} {ts : List Tok} {r : List Char} (h : Lexes inp ts r) :
    ∀ (n : Nat) (lx : Lex), lx.rest = inp → inp.length < n →
      ∃ (n' : Nat) (lx' : Lex), lx'.rest = r ∧ r.length < n' ∧
        (runFuel n lx).items.map (·.tok) = ts ++ (runFuel n' lx').items.map (·.tok) ∧
        (runFuel n lx).err = (runFuel n' lx').err := by
  induction h with
  | nil r => intro n lx h1 h2; exact ⟨n, lx, h1, h2, by simp, rfl⟩
  | @cons inp t taken r1 ts r hs hne _ ih =>
    intro n lx h1 h2
    cases n with
    | zero => omega
    | succ n =>
      have hsc := hs lx.pos
      have hsplit := scan_split lx.pos inp
      rw [hsc] at hsplit
      simp only at hsplit
      have hlen : r1.length < n := by
        have hne' : taken ≠ [] := by
          have := scan_taken_ne lx.pos inp (by rw [hsc]; simpa using hne)
          rwa [hsc] at this
        have : taken.length + r1.length = inp.length := by rw [← List.length_append, hsplit]
        have : 0 < taken.length := List.length_pos_iff.mpr hne'
        omega
      have hnext : lx.next = (.ok t, ⟨r1, lx.pos + utf8Len taken, lx.pos, taken⟩) := by
        simp only [Lex.next, h1, hsc]
      obtain ⟨n', lx', e1, e2, e3, e4⟩ := ih n ⟨r1, lx.pos + utf8Len taken, lx.pos, taken⟩ rfl hlen
      rw [runFuel_succ_ok n lx _ t hnext hne]
      exact ⟨n', lx', e1, e2, by simp [e3], by simp [e4]⟩

/-- a text that lexes to `ts` leaving nothing: that is what `run` reports, without error -/
theorem Lexes.run {text : List Char} {ts : List Tok} (h : Lexes text ts []) :
    (run text).items.map (·.tok) = ts ∧ (run text).err = none := by
  obtain ⟨n', lx', e1, e2, e3, e4⟩ := h.runFuel (text.length + 1) (Lex.new text) rfl (Nat.lt_succ_self _)
  have hend : (Xeh.Lex.runFuel n' lx').items = [] ∧ (Xeh.Lex.runFuel n' lx').err = none := by
    cases n' with
    | zero => omega
    | succ k =>
      have : lx'.next.1 = .ok .eof := by simp [Lex.next, e1, scan, spanP]
      have hn : lx'.next = (.ok .eof, lx'.next.2) := by rw [← this]
      rw [runFuel_succ_eof k lx' _ hn]
      simp
  unfold Xeh.Lex.run
  rw [e3, e4, hend.1, hend.2]
  simp

/-! ### single tokens -/

/-- starts with a non-blank character -/
def NonWsHead (s : List Char) : Prop := ∃ c r, s = c :: r ∧ isWs c = false

/-- a single blank before a non-blank (or the end) is one whitespace token -/
theorem scan_blank (pos : Nat) (rest : List Char) (h : rest = [] ∨ NonWsHead rest) :
    scan pos (' ' :: rest) = ⟨.ok (.ws [' ']), [' '], rest⟩ := by
  rcases h with rfl | ⟨c, r, rfl, hc⟩
  · simp [scan, spanP, isWs]
  · have h1 : isWs ' ' = true := by decide
    simp [scan, spanP, h1, hc]

/-- `[ ] { }` followed by a separator are one-character words -/
theorem scan_bracket (pos : Nat) (c : Char) (hc : c = '[' ∨ c = ']' ∨ c = '{' ∨ c = '}') (rest : List Char)
    (hr : Sep rest) : scan pos (c :: rest) = ⟨.ok (.word [c]), [c], rest⟩ := by
  have hsp : spanP (fun c => !isWs c) rest = ([], rest) := by
    have := spanP_append (fun c => !isWs c) [] rest (by simp) (by
      rcases hr with rfl | ⟨w, r', rfl, hw⟩
      · left; rfl
      · right; exact ⟨w, r', rfl, by simp [hw]⟩)
    simpa using this
  rcases hc with rfl | rfl | rfl | rfl <;>
  · rw [scan_nonws_head pos _ _ (by decide), scanTok_word pos _ _ (by decide) (by decide) (by decide)]
    have hd : ∀ x : Char, (x = '[' ∨ x = ']' ∨ x = '{' ∨ x = '}') → isDigit x = false := by
      intro x hx; rcases hx with rfl | rfl | rfl | rfl <;> decide
    simp [scanWord, numHead, radixPrefix, hsp, isDigit]

/-! ### values built from integers and bit-strings -/

mutual
/-- integers in range, bit-strings, and vectors / maps of such values (any nesting) -/
def PV : Cell → Prop
  | .int i => InRange i
  | .bitstr _ => True
  | .vec xs => PVs xs
  | .map kv => PVm kv
  | _ => False
def PVs : CellList → Prop
  | .nil => True
  | .cons h t => PV h ∧ PVs t
def PVm : PairList → Prop
  | .nil => True
  | .cons k v t => PV k ∧ PV v ∧ PVm t
end

mutual
/-- the token list of the (default-flags) print of a value: blanks included -/
def toks : Cell → List Tok
  | .vec xs => .word ['['] :: .ws [' '] :: (toksElems xs ++ [.word [']']])
  | .map kv => .word ['{'] :: .ws [' '] :: (toksPairs kv ++ [.word ['}']])
  | c => [.lit c]
/-- element, blank, element, blank, … -/
def toksElems : CellList → List Tok
  | .nil => []
  | .cons h t => toks h ++ .ws [' '] :: toksElems t
/-- value, blank, key, blank, … -/
def toksPairs : PairList → List Tok
  | .nil => []
  | .cons k v t => toks v ++ .ws [' '] :: (toks k ++ .ws [' '] :: toksPairs t)
end

theorem printInt_nonWsHead (i : Int) : NonWsHead (printInt {} i) := by
  have hpr : printInt {} i = if i < 0 then '-' :: natDigits 10 false i.natAbs else natDigits 10 false i.natAbs := by
    simp [printInt]
  rw [hpr]
  split
  · exact ⟨'-', _, rfl, by decide⟩
  · have hall : ∀ c ∈ natDigits 10 false i.natAbs, isDigit c = true :=
      natDigits_all 10 false (by omega) (fun c => isDigit c = true) (fun d hd => digitChar_isDigit hd) _
    cases h : natDigits 10 false i.natAbs with
    | nil => exact absurd h (natDigits_ne_nil _ _ _)
    | cons c t => exact ⟨c, t, rfl, (isDigit_excl (hall c (by simp [h]))).1⟩

theorem sep_of_blank (r : List Char) : Sep (' ' :: r) := Or.inr ⟨' ', r, rfl, by decide⟩

mutual
theorem lexes_cell : (c : Cell) → PV c →
    ∃ s, printCell {} c = some s ∧ NonWsHead s ∧ ∀ rest, Sep rest → Lexes (s ++ rest) (toks c) rest
  | .int i, h => by
    refine ⟨printInt {} i, by simp [printCell], printInt_nonWsHead i, ?_⟩
    intro rest hr
    exact Lexes.single (fun pos => scan_printDec pos i h rest hr) (by simp)
  | .bitstr b, _ => by
    refine ⟨printBits b, by simp [printCell], ⟨'|', _, rfl, by decide⟩, ?_⟩
    intro rest _
    exact Lexes.single (fun pos => scan_printBits pos b rest) (by simp)
  | .vec xs, h => by
    obtain ⟨body, hb, hl⟩ := lexes_elems xs (by simpa [PV] using h)
    refine ⟨'[' :: ' ' :: body ++ [']'], by simp [printCell, hb], ⟨'[', _, rfl, by decide⟩, ?_⟩
    intro rest hr
    have h3 : Lexes ([']'] ++ rest) [.word [']']] rest :=
      Lexes.single (fun pos => scan_bracket pos ']' (by simp) rest hr) (by simp)
    have h2 := hl (']' :: rest) ⟨']', rest, rfl, by decide⟩
    have h1 : Lexes (' ' :: (body ++ ']' :: rest)) [.ws [' ']] (body ++ ']' :: rest) := by
      refine Lexes.single (fun pos => scan_blank pos _ (Or.inr ?_)) (by simp)
      cases body with
      | nil => exact ⟨']', rest, rfl, by decide⟩
      | cons c t =>
        obtain ⟨c', r', e, hc'⟩ := lexes_elems_head xs (by simpa [PV] using h) (c :: t) hb (by simp)
        exact ⟨c', r' ++ ']' :: rest, by rw [e]; rfl, hc'⟩
    have h0 : Lexes ('[' :: ' ' :: (body ++ ']' :: rest)) [.word ['[']] (' ' :: (body ++ ']' :: rest)) :=
      Lexes.single (fun pos => scan_bracket pos '[' (by simp) _ (sep_of_blank _)) (by simp)
    have := h0.append (h1.append (h2.append h3))
    simpa [toks] using this
  | .map kv, h => by
    obtain ⟨body, hb, hl⟩ := lexes_pairs kv (by simpa [PV] using h)
    refine ⟨'{' :: ' ' :: body ++ ['}'], by simp [printCell, hb], ⟨'{', _, rfl, by decide⟩, ?_⟩
    intro rest hr
    have h3 : Lexes (['}'] ++ rest) [.word ['}']] rest :=
      Lexes.single (fun pos => scan_bracket pos '}' (by simp) rest hr) (by simp)
    have h2 := hl ('}' :: rest) ⟨'}', rest, rfl, by decide⟩
    have h1 : Lexes (' ' :: (body ++ '}' :: rest)) [.ws [' ']] (body ++ '}' :: rest) := by
      refine Lexes.single (fun pos => scan_blank pos _ (Or.inr ?_)) (by simp)
      cases body with
      | nil => exact ⟨'}', rest, rfl, by decide⟩
      | cons c t =>
        obtain ⟨c', r', e, hc'⟩ := lexes_pairs_head kv (by simpa [PV] using h) (c :: t) hb (by simp)
        exact ⟨c', r' ++ '}' :: rest, by rw [e]; rfl, hc'⟩
    have h0 : Lexes ('{' :: ' ' :: (body ++ '}' :: rest)) [.word ['{']] (' ' :: (body ++ '}' :: rest)) :=
      Lexes.single (fun pos => scan_bracket pos '{' (by simp) _ (sep_of_blank _)) (by simp)
    have := h0.append (h1.append (h2.append h3))
    simpa [toks] using this
  | .nil, h | .flag _, h | .real _, h | .str _, h | .fn _ _, h | .any _, h | .tagged _ _, h => by
    simp [PV] at h
/-- the elements of a vector, each followed by one blank, in front of a non-blank `tail` -/
theorem lexes_elems : (xs : CellList) → PVs xs →
    ∃ s, printElems {} xs = some s ∧ ∀ tail, NonWsHead tail → Lexes (s ++ tail) (toksElems xs) tail
  | .nil, _ => ⟨[], by simp [printElems], fun tail _ => by simpa [toksElems] using Lexes.nil tail⟩
  | .cons h t, hp => by
    have hp' : PV h ∧ PVs t := by simpa [PVs] using hp
    obtain ⟨sh, e1, _, l1⟩ := lexes_cell h hp'.1
    obtain ⟨st, e2, l2⟩ := lexes_elems t hp'.2
    refine ⟨sh ++ ' ' :: st, by simp [printElems, e1, e2], ?_⟩
    intro tail ht
    have a := l1 (' ' :: (st ++ tail)) (sep_of_blank _)
    have c := l2 tail ht
    have b : Lexes (' ' :: (st ++ tail)) [.ws [' ']] (st ++ tail) := by
      refine Lexes.single (fun pos => scan_blank pos _ (Or.inr ?_)) (by simp)
      cases st with
      | nil => simpa using ht
      | cons c' t' =>
        obtain ⟨c'', r', e, hc'⟩ := lexes_elems_head t hp'.2 (c' :: t') e2 (by simp)
        exact ⟨c'', r' ++ tail, by rw [e]; rfl, hc'⟩
    have := a.append (b.append c)
    simpa [toksElems] using this
/-- a non-empty element text starts with a non-blank -/
theorem lexes_elems_head : (xs : CellList) → PVs xs → ∀ s, printElems {} xs = some s → s ≠ [] → NonWsHead s
  | .nil, _ => fun s h hne => by simp [printElems] at h; exact absurd h hne
  | .cons h t, hp => fun s hs _ => by
    have hp' : PV h ∧ PVs t := by simpa [PVs] using hp
    obtain ⟨sh, e1, ⟨c, r, e, hc⟩, _⟩ := lexes_cell h hp'.1
    obtain ⟨st, e2, _⟩ := lexes_elems t hp'.2
    simp [printElems, e1, e2] at hs
    exact ⟨c, r ++ ' ' :: st, by rw [← hs, e]; rfl, hc⟩
/-- the entries of a map, value before key, each followed by one blank -/
theorem lexes_pairs : (kv : PairList) → PVm kv →
    ∃ s, printPairs {} kv = some s ∧ ∀ tail, NonWsHead tail → Lexes (s ++ tail) (toksPairs kv) tail
  | .nil, _ => ⟨[], by simp [printPairs], fun tail _ => by simpa [toksPairs] using Lexes.nil tail⟩
  | .cons k v t, hp => by
    have hp' : PV k ∧ PV v ∧ PVm t := by simpa [PVm] using hp
    obtain ⟨sv, e1, _, l1⟩ := lexes_cell v hp'.2.1
    obtain ⟨sk, e2, ⟨ck, rk, ek, hck⟩, l2⟩ := lexes_cell k hp'.1
    obtain ⟨st, e3, l3⟩ := lexes_pairs t hp'.2.2
    refine ⟨sv ++ ' ' :: (sk ++ ' ' :: st), by simp [printPairs, e1, e2, e3], ?_⟩
    intro tail ht
    have a := l1 (' ' :: (sk ++ ' ' :: (st ++ tail))) (sep_of_blank _)
    have b : Lexes (' ' :: (sk ++ ' ' :: (st ++ tail))) [.ws [' ']] (sk ++ ' ' :: (st ++ tail)) :=
      Lexes.single (fun pos => scan_blank pos _ (Or.inr ⟨ck, rk ++ ' ' :: (st ++ tail), by rw [ek]; rfl, hck⟩)) (by simp)
    have c := l2 (' ' :: (st ++ tail)) (sep_of_blank _)
    have d : Lexes (' ' :: (st ++ tail)) [.ws [' ']] (st ++ tail) := by
      refine Lexes.single (fun pos => scan_blank pos _ (Or.inr ?_)) (by simp)
      cases st with
      | nil => simpa using ht
      | cons c' t' =>
        obtain ⟨c'', r', e, hc'⟩ := lexes_pairs_head t hp'.2.2 (c' :: t') e3 (by simp)
        exact ⟨c'', r' ++ tail, by rw [e]; rfl, hc'⟩
    have e := l3 tail ht
    have := a.append (b.append (c.append (d.append e)))
    simpa [toksPairs] using this
theorem lexes_pairs_head : (kv : PairList) → PVm kv → ∀ s, printPairs {} kv = some s → s ≠ [] → NonWsHead s
  | .nil, _ => fun s h hne => by simp [printPairs] at h; exact absurd h hne
  | .cons k v t, hp => fun s hs _ => by
    have hp' : PV k ∧ PV v ∧ PVm t := by simpa [PVm] using hp
    obtain ⟨sv, e1, ⟨c, r, e, hc⟩, _⟩ := lexes_cell v hp'.2.1
    obtain ⟨sk, e2, _, _⟩ := lexes_cell k hp'.1
    obtain ⟨st, e3, _⟩ := lexes_pairs t hp'.2.2
    simp [printPairs, e1, e2, e3] at hs
    exact ⟨c, r ++ ' ' :: (sk ++ ' ' :: st), by rw [← hs, e]; rfl, hc⟩
end

end Xeh.Lex
