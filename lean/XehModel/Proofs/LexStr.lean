/-
Helper lemmas for C16 (string literals): a literal body written as a sequence of pieces — raw
characters (anything except backslash and the two closing quotes) and the five documented escapes
— decodes to the sequence of the pieces' values.
-/
import XehModel.Model.Lex
import XehModel.Proofs.LexNum

namespace Xeh.Lex

/-- one element of a string-literal body -/
inductive Piece where
  | raw (c : Char)
  | esc (code : Char)
deriving Repr, DecidableEq

/-- how a piece is spelled -/
def Piece.text : Piece → List Char
  | .raw c => [c]
  | .esc k => ['\\', k]

/-- a raw piece is not a backslash or a closing quote; an escape code is one of the five -/
def Piece.Ok : Piece → Prop
  | .raw c => c ≠ '\\' ∧ c ≠ '"' ∧ c ≠ '”'
  | .esc k => k = '\\' ∨ k = '"' ∨ k = 'n' ∨ k = 'r' ∨ k = 't'

/-- what a piece denotes -/
def Piece.val : Piece → Char
  | .raw c => c
  | .esc k => if k = 'n' then '\n' else if k = 'r' then '\r' else if k = 't' then '\t' else k

theorem unescape_ok {k : Char} (h : Piece.Ok (.esc k)) : unescape k = some (Piece.val (.esc k)) := by
  rcases h with rfl | rfl | rfl | rfl | rfl <;> decide

/-- any other escape code is rejected -/
theorem unescape_none {k : Char} (h : ¬ Piece.Ok (.esc k)) : unescape k = none := by
  simp only [Piece.Ok, not_or] at h
  obtain ⟨h1, h2, h3, h4, h5⟩ := h
  unfold unescape
  split <;> simp_all

def sepOk : List Char → Bool
  | [] => true
  | w :: _ => isWs w

/-- the loop after the opening quote on a well-formed body closed by `q` -/
theorem scanStr_pieces (ps : List Piece) (hps : ∀ p ∈ ps, p.Ok) (q : Char) (hq : q = '"' ∨ q = '”')
    (rest : List Char) :
    scanStr (ps.flatMap Piece.text ++ q :: rest) =
      (.closed (ps.map Piece.val) (sepOk rest), ps.flatMap Piece.text ++ [q], rest) := by
  induction ps with
  | nil =>
    have hq1 : q ≠ '\\' := by rcases hq with rfl | rfl <;> decide
    have hq2 : (q == '"' || q == '”') = true := by rcases hq with rfl | rfl <;> decide
    simp only [List.flatMap_nil, List.nil_append, List.map_nil]
    unfold scanStr
    simp only [beq_iff_eq, hq1, if_false, hq2, if_true]
    cases rest <;> rfl
  | cons p t ih =>
    have iht := ih (fun x hx => hps x (by simp [hx]))
    have hp := hps p (by simp)
    cases p with
    | raw c =>
      obtain ⟨h1, h2, h3⟩ := hp
      simp only [List.flatMap_cons, Piece.text, List.cons_append, List.nil_append, List.map_cons, Piece.val,
        List.append_assoc]
      have hq2 : (c == '"' || c == '”') = false := by simp [h2, h3]
      conv => lhs; unfold scanStr
      simp only [beq_iff_eq, h1, if_false, hq2, Bool.false_eq_true]
      rw [iht]; rfl
    | esc k =>
      have hu := unescape_ok hp
      simp only [List.flatMap_cons, Piece.text, List.cons_append, List.nil_append, List.map_cons,
        List.append_assoc]
      conv => lhs; unfold scanStr
      simp only [beq_self_eq_true, if_true, hu]
      rw [iht]; rfl

/-- an undocumented escape stops the literal with `unknown string escape sequence` -/
theorem scanStr_bad_escape (ps : List Piece) (hps : ∀ p ∈ ps, p.Ok) (k : Char) (hk : ¬ Piece.Ok (.esc k))
    (rest : List Char) :
    scanStr (ps.flatMap Piece.text ++ '\\' :: k :: rest) =
      (.badEscape k, ps.flatMap Piece.text ++ ['\\', k], rest) := by
  induction ps with
  | nil =>
    simp only [List.flatMap_nil, List.nil_append]
    unfold scanStr
    simp [unescape_none hk]
  | cons p t ih =>
    have iht := ih (fun x hx => hps x (by simp [hx]))
    have hp := hps p (by simp)
    cases p with
    | raw c =>
      obtain ⟨h1, h2, h3⟩ := hp
      simp only [List.flatMap_cons, Piece.text, List.cons_append, List.nil_append, List.append_assoc]
      have hq2 : (c == '"' || c == '”') = false := by simp [h2, h3]
      conv => lhs; unfold scanStr
      simp only [beq_iff_eq, h1, if_false, hq2, Bool.false_eq_true]
      rw [iht]; rfl
    | esc k' =>
      have hu := unescape_ok hp
      simp only [List.flatMap_cons, Piece.text, List.cons_append, List.nil_append, List.append_assoc]
      conv => lhs; unfold scanStr
      simp only [beq_self_eq_true, if_true, hu]
      rw [iht]; rfl

end Xeh.Lex
