/-
Helper lemmas for C16: every sub-scanner splits its input (`taken ++ rest = input`), a non-eof
step consumes at least one char, and running the lexer tiles the text.
-/
import XehModel.Model.Lex

namespace Xeh.Lex

/-! ### sub-scanners split their input -/

theorem scanStr_split (l : List Char) : (scanStr l).2.1 ++ (scanStr l).2.2 = l := by
  fun_induction scanStr l <;> simp_all

theorem scanBits_split (l : List Char) : (scanBits l).2.1 ++ (scanBits l).2.2 = l := by
  fun_induction scanBits l <;> simp_all

theorem scanMl_split (l : List Char) : (scanMl l).2.1 ++ (scanMl l).2.2 = l := by
  fun_induction scanMl l <;> simp_all

theorem numHead_split (c : Char) (r : List Char) :
    (numHead c r).2.2.1 ++ (numHead c r).2.2.2 = c :: r := by
  unfold numHead
  split
  · rfl
  · split
    · split
      · split <;> simp
      · simp
    · rfl

theorem numHead_taken_ne (c : Char) (r : List Char) : (numHead c r).2.2.1 ≠ [] := by
  unfold numHead
  split
  · simp
  · split
    · split
      · split <;> simp
      · simp
    · simp

theorem radixPrefix_split (np : Option Char) (tmp r : List Char) :
    (radixPrefix np tmp r).2.2.1 ++ (radixPrefix np tmp r).2.2.2 = r := by
  unfold radixPrefix
  split
  · split <;> simp
  · simp

theorem span_split (p : Char → Bool) (l : List Char) : (spanP p l).1 ++ (spanP p l).2 = l := by
  fun_induction spanP p l <;> simp_all

/-- the word/number/comment branch splits `c :: r` -/
theorem scanWord_split (pos : Nat) (c : Char) (r : List Char) :
    (scanWord pos c r).taken ++ (scanWord pos c r).rest = c :: r := by
  have h1 := numHead_split c r
  have h2 := radixPrefix_split (numHead c r).1 (numHead c r).2.1 (numHead c r).2.2.2
  have h3 := span_split (fun c => !isWs c)
    (radixPrefix (numHead c r).1 (numHead c r).2.1 (numHead c r).2.2.2).2.2.2
  have key : (numHead c r).2.2.1 ++ (radixPrefix (numHead c r).1 (numHead c r).2.1 (numHead c r).2.2.2).2.2.1
      ++ (spanP (fun c => !isWs c) (radixPrefix (numHead c r).1 (numHead c r).2.1 (numHead c r).2.2.2).2.2.2).1
      ++ (spanP (fun c => !isWs c) (radixPrefix (numHead c r).1 (numHead c r).2.1 (numHead c r).2.2.2).2.2.2).2
      = c :: r := by
    rw [List.append_assoc, h3, List.append_assoc, h2, h1]
  unfold scanWord
  simp only []
  split
  · split
    · -- line comment
      have h4 := span_split (fun c => c != '\n')
        (spanP (fun c => !isWs c) (radixPrefix (numHead c r).1 (numHead c r).2.1 (numHead c r).2.2.2).2.2.2).2
      simp only [List.append_assoc] at key ⊢
      rw [h4]; exact key
    · split
      · -- multi-line comment
        have h4 := scanMl_split
          (spanP (fun c => !isWs c) (radixPrefix (numHead c r).1 (numHead c r).2.1 (numHead c r).2.2.2).2.2.2).2
        split <;> (simp only [List.append_assoc] at key ⊢; rw [h4]; exact key)
      · exact key
  · split <;> exact key

theorem scanWord_taken_ne (pos : Nat) (c : Char) (r : List Char) : (scanWord pos c r).taken ≠ [] := by
  have h := numHead_taken_ne c r
  unfold scanWord
  simp only []
  split
  · split
    · simp_all
    · split
      · split <;> simp_all
      · simp_all
  · split <;> simp_all

theorem scanTok_split (pos : Nat) (c : Char) (r : List Char) :
    (scanTok pos c r).taken ++ (scanTok pos c r).rest = c :: r := by
  have h1 := scanStr_split r
  have h2 := scanBits_split r
  have h3 := scanWord_split pos c r
  unfold scanTok
  repeat' split
  all_goals simp_all

theorem scanTok_taken_ne (pos : Nat) (c : Char) (r : List Char) : (scanTok pos c r).taken ≠ [] := by
  have h3 := scanWord_taken_ne pos c r
  unfold scanTok
  repeat' split
  all_goals simp_all

/-- `Lex::next` splits the remaining input into the consumed text and the new remaining input -/
theorem scan_split (pos : Nat) (l : List Char) : (scan pos l).taken ++ (scan pos l).rest = l := by
  have hw := span_split isWs l
  unfold scan
  split
  · rename_i heq
    rw [heq] at hw; exact hw
  · split
    · rfl
    · exact scanTok_split pos _ _

/-- only EndOfInput consumes nothing -/
theorem scan_taken_ne (pos : Nat) (l : List Char) (h : (scan pos l).res ≠ .ok .eof) :
    (scan pos l).taken ≠ [] := by
  unfold scan at h ⊢
  split
  · simp
  · split
    · simp_all
    · exact scanTok_taken_ne pos _ _

theorem utf8Size_pos (c : Char) : 1 ≤ utf8Size c := by
  unfold utf8Size; simp only []; split
  · omega
  · split
    · omega
    · split <;> omega

theorem utf8Len_cons (c : Char) (l : List Char) : utf8Len (c :: l) = utf8Size c + utf8Len l := by
  simp [utf8Len]

theorem utf8Len_append (a b : List Char) : utf8Len (a ++ b) = utf8Len a + utf8Len b := by
  simp [utf8Len]

theorem utf8Len_pos {l : List Char} (h : l ≠ []) : 1 ≤ utf8Len l := by
  cases l with
  | nil => exact absurd rfl h
  | cons c t => rw [utf8Len_cons]; have := utf8Size_pos c; omega

theorem utf8Len_ge_length (l : List Char) : l.length ≤ utf8Len l := by
  induction l with
  | nil => simp [utf8Len]
  | cons c t ih => rw [utf8Len_cons]; have := utf8Size_pos c; simp; omega

/-- a numeric token is an integer literal, a real literal or an error -/
theorem numDecide_ok {d : Char} {radix : Option Nat} {tmp1 body : List Char} {t : Tok}
    (h : numDecide d radix tmp1 body = .ok t) :
    (∃ i, t = .lit (.int i)) ∨ (∃ s, t = .realLit s) := by
  unfold numDecide at h
  simp only [] at h
  split at h
  · split at h
    · simp at h
    · split at h
      · right; exact ⟨_, by simpa using h.symm⟩
      · simp at h
  · split at h
    · left; exact ⟨_, by simpa using h.symm⟩
    · simp at h

theorem scanWord_tok_text (pos : Nat) (c : Char) (r : List Char) :
    (∀ s, (scanWord pos c r).res = .ok (.word s) → s = (scanWord pos c r).taken) ∧
    (∀ s, (scanWord pos c r).res ≠ .ok (.ws s)) ∧
    (∀ s, (scanWord pos c r).res = .ok (.comment s) → s = (scanWord pos c r).taken) ∧
    (scanWord pos c r).res ≠ .ok .eof := by
  unfold scanWord
  simp only []
  split
  · split
    · simp
    · split
      · split <;> simp
      · simp
  · split
    · rename_i heq
      rcases numDecide_ok heq with ⟨i, rfl⟩ | ⟨s, rfl⟩ <;> simp
    · simp

theorem scanTok_tok_text (pos : Nat) (c : Char) (r : List Char) :
    (∀ s, (scanTok pos c r).res = .ok (.word s) → s = (scanTok pos c r).taken) ∧
    (∀ s, (scanTok pos c r).res ≠ .ok (.ws s)) ∧
    (∀ s, (scanTok pos c r).res = .ok (.comment s) → s = (scanTok pos c r).taken) ∧
    (scanTok pos c r).res ≠ .ok .eof := by
  have h3 := scanWord_tok_text pos c r
  unfold scanTok
  repeat' split
  all_goals simp_all

/-- the text carried by a word / whitespace / comment token is the consumed text -/
theorem scan_tok_text (pos : Nat) (l : List Char) :
    (∀ s, (scan pos l).res = .ok (.word s) → s = (scan pos l).taken) ∧
    (∀ s, (scan pos l).res = .ok (.ws s) → s = (scan pos l).taken) ∧
    (∀ s, (scan pos l).res = .ok (.comment s) → s = (scan pos l).taken) := by
  unfold scan
  split
  · simp
  · split
    · simp
    · have h := scanTok_tok_text pos
      refine ⟨(h _ _).1, ?_, (h _ _).2.2.1⟩
      intro s hs; exact absurd hs ((h _ _).2.1 s)

/-! ### `Lex::next` -/

theorem next_split (lx : Lex) :
    lx.next.2.last ++ lx.next.2.rest = lx.rest ∧ lx.next.2.startPos = lx.pos ∧
    lx.next.2.pos = lx.pos + utf8Len lx.next.2.last := by
  simp [Lex.next, scan_split]

theorem next_consumes (lx : Lex) (h : lx.next.1 ≠ .ok .eof) :
    lx.next.2.last ≠ [] ∧ lx.next.2.rest.length < lx.rest.length := by
  have hs := scan_split lx.pos lx.rest
  have hn := scan_taken_ne lx.pos lx.rest (by simpa [Lex.next] using h)
  refine ⟨by simpa [Lex.next] using hn, ?_⟩
  have : (scan lx.pos lx.rest).taken.length + (scan lx.pos lx.rest).rest.length = lx.rest.length := by
    rw [← List.length_append, hs]
  have : 0 < (scan lx.pos lx.rest).taken.length := List.length_pos_iff.mpr hn
  simp only [Lex.next]; omega

theorem scan_eof (pos : Nat) (l : List Char) (h : (scan pos l).res = .ok .eof) :
    l = [] ∧ (scan pos l).taken = [] ∧ (scan pos l).rest = [] := by
  unfold scan at h ⊢
  split
  · rename_i heq; simp [heq] at h
  · rename_i heq
    split
    · simp
    · simp only [heq] at h
      exact absurd h (scanTok_tok_text pos _ _).2.2.2

theorem next_eof (lx : Lex) (h : lx.next.1 = .ok .eof) :
    lx.rest = [] ∧ lx.next.2.last = [] ∧ lx.next.2.rest = [] := by
  have := scan_eof lx.pos lx.rest (by simpa [Lex.next] using h)
  simpa [Lex.next] using this

/-! ### running to the end -/

def Item.textOf (it : Item) : List Char := it.text

/-- the items are contiguous from `pos` and end at `e` -/
def tiles : Nat → List Item → Nat → Prop
  | pos, [], e => e = pos
  | pos, it :: r, e => it.lo = pos ∧ it.hi = pos + utf8Len it.text ∧ tiles it.hi r e

def Run.errText (r : Run) : List Char :=
  match r.err with
  | some (_, t, _, _) => t
  | none => []

theorem runFuel_concat (n : Nat) (lx : Lex) :
    ((runFuel n lx).items.map (·.text)).flatten ++ (runFuel n lx).errText ++ (runFuel n lx).final.rest
      = lx.rest := by
  induction n generalizing lx with
  | zero => simp [runFuel, Run.errText]
  | succ n ih =>
    have hs := next_split lx
    unfold runFuel
    split
    · rename_i lx' heq
      have h1 : lx.next.1 = .ok .eof := by rw [heq]
      have h2 := next_eof lx h1
      have : lx' = lx.next.2 := by rw [heq]
      subst this
      simp [Run.errText, h2.1, h2.2.2]
    · rename_i t lx' hne heq
      have : lx' = lx.next.2 := by rw [heq]
      subst this
      have := ih lx.next.2
      simp only [Run.errText] at this ⊢
      simp only [List.map_cons, List.flatten_cons, List.append_assoc] at this ⊢
      rw [this]; exact hs.1
    · rename_i e lx' heq
      have : lx' = lx.next.2 := by rw [heq]
      subst this
      simp [Run.errText]; exact hs.1

/-- where the good tokens end: the start of the failing token, or the final position -/
def Run.endPos (r : Run) : Nat :=
  match r.err with
  | some (_, _, lo, _) => lo
  | none => r.final.pos

theorem runFuel_tiles (n : Nat) (lx : Lex) :
    tiles lx.pos (runFuel n lx).items (runFuel n lx).endPos ∧
    (∀ e t lo hi, (runFuel n lx).err = some (e, t, lo, hi) → hi = lo + utf8Len t) := by
  induction n generalizing lx with
  | zero => simp [runFuel, tiles, Run.endPos]
  | succ n ih =>
    have hs := next_split lx
    unfold runFuel
    split
    · rename_i lx' heq
      have h1 : lx.next.1 = .ok .eof := by rw [heq]
      have h2 := next_eof lx h1
      have : lx' = lx.next.2 := by rw [heq]
      subst this
      simp [tiles, Run.endPos, hs.2.2, h2.2.1, utf8Len]
    · rename_i t lx' hne heq
      have : lx' = lx.next.2 := by rw [heq]
      subst this
      have := ih lx.next.2
      simp only [Run.endPos, tiles] at this ⊢
      refine ⟨⟨hs.2.1, hs.2.2, ?_⟩, this.2⟩
      simpa [hs.2.2] using this.1
    · rename_i e lx' heq
      have : lx' = lx.next.2 := by rw [heq]
      subst this
      simp [tiles, Run.endPos, hs.2.1, hs.2.2]
      intro _ t lo hi _ h1 h2 h3
      subst h1 h2 h3; rfl

/-- more fuel than remaining chars changes nothing -/
theorem runFuel_enough (n m : Nat) (lx : Lex) (hn : lx.rest.length < n) (hm : lx.rest.length < m) :
    runFuel n lx = runFuel m lx := by
  induction n generalizing m lx with
  | zero => omega
  | succ n ih =>
    cases m with
    | zero => omega
    | succ m =>
      unfold runFuel
      split
      · rfl
      · rename_i t lx' hne heq
        have h1 : lx.next.1 ≠ .ok .eof := by rw [heq]; simpa using hne
        have hc := (next_consumes lx h1).2
        have : lx' = lx.next.2 := by rw [heq]
        subst this
        rw [ih m lx.next.2 (by omega) (by omega)]
      · rfl

/-- with enough fuel the run ends at EndOfInput (nothing left) or at an error -/
theorem runFuel_complete (n : Nat) (lx : Lex) (hn : lx.rest.length < n) :
    (runFuel n lx).err.isSome ∨ (runFuel n lx).final.rest = [] := by
  induction n generalizing lx with
  | zero => omega
  | succ n ih =>
    unfold runFuel
    split
    · rename_i lx' heq
      have h1 : lx.next.1 = .ok .eof := by rw [heq]
      have h2 := next_eof lx h1
      have : lx' = lx.next.2 := by rw [heq]
      subst this
      right; exact h2.2.2
    · rename_i t lx' hne heq
      have h1 : lx.next.1 ≠ .ok .eof := by rw [heq]; simpa using hne
      have hc := (next_consumes lx h1).2
      have : lx' = lx.next.2 := by rw [heq]
      subst this
      exact ih lx.next.2 (by omega)
    · left; rfl

/-! ### `next_nonws` -/

/-- `next_nonws` always returns (its loop terminates): with more fuel than remaining chars the
    fuel-indexed loop answers, and the answer does not depend on the fuel -/
theorem nextNonwsFuel_some (n : Nat) (lx : Lex) (hn : lx.rest.length < n) :
    ∃ r, Lex.nextNonwsFuel n lx = some r ∧ ∀ m, lx.rest.length < m → Lex.nextNonwsFuel m lx = some r := by
  induction n generalizing lx with
  | zero => omega
  | succ n ih =>
    by_cases hskip : (∃ s, lx.next.1 = .ok (.ws s)) ∨ (∃ s, lx.next.1 = .ok (.comment s))
    · have h1 : lx.next.1 ≠ .ok .eof := by
        rcases hskip with ⟨s, hs⟩ | ⟨s, hs⟩ <;> simp [hs]
      have hc := (next_consumes lx h1).2
      obtain ⟨r, hr1, hr2⟩ := ih lx.next.2 (by omega)
      have red : ∀ k, Lex.nextNonwsFuel (k + 1) lx = Lex.nextNonwsFuel k lx.next.2 := by
        intro k
        rw [Lex.nextNonwsFuel]
        rcases hskip with ⟨s, hs⟩ | ⟨s, hs⟩
        · have : lx.next = (.ok (.ws s), lx.next.2) := by rw [← hs]
          rw [this]
        · have : lx.next = (.ok (.comment s), lx.next.2) := by rw [← hs]
          rw [this]
      refine ⟨r, by rw [red n]; exact hr1, ?_⟩
      intro m hm
      cases m with
      | zero => omega
      | succ m => rw [red m]; exact hr2 m (by omega)
    · have red : ∀ k, Lex.nextNonwsFuel (k + 1) lx = some lx.next := by
        intro k
        rw [Lex.nextNonwsFuel]
        split
        · rename_i s lx' heq; exact absurd (Or.inl ⟨s, by rw [heq]⟩) hskip
        · rename_i s lx' heq; exact absurd (Or.inr ⟨s, by rw [heq]⟩) hskip
        · rfl
      refine ⟨lx.next, red n, ?_⟩
      intro m hm
      cases m with
      | zero => omega
      | succ m => exact red m

end Xeh.Lex
