/-
C08, native-word layer: the programs of the word table have no reachable `panic` node.
-/
import XehModel.Proofs.VMNoPanic
import XehModel.Model.NativeTable
import XehModel.Proofs.EncWords

namespace Xeh.Mach
open Xeh Prog

theorem PanicOnly.ofOutcome {P : String → Prop} {α : Type} (o : Outcome α) (k : α → Prog) (ho : NP o)
    (hk : ∀ a, PanicOnly P (k a)) : PanicOnly P (Prog.ofOutcome o k) := by
  unfold Prog.ofOutcome
  split
  · exact hk _
  · exact .fail _
  · rename_i s; exact absurd rfl (ho s)

theorem PanicOnly.pushAll {P : String → Prop} (cs : List Cell) (k : Prog) (hk : PanicOnly P k) : PanicOnly P (Prog.pushAll cs k) := by
  induction cs with
  | nil => exact hk
  | cons c cs ih => exact .push _ _ ih

theorem PanicOnly.popN {P : String → Prop} (n : Nat) (k : Prog) (hk : PanicOnly P k) : PanicOnly P (Prog.popN n k) := by
  induction n with
  | zero => exact hk
  | succ n ih => exact .pop _ fun _ => ih

/-- close a goal `NP (f …)` for a leaf function `f` (extended with `macro_rules` as lemmas are added) -/
syntax "np_auto" : tactic
macro_rules | `(tactic| np_auto) => `(tactic| exact NP_ok _)
macro_rules | `(tactic| np_auto) => `(tactic| exact NP_err _)
macro_rules | `(tactic| np_auto) => `(tactic| exact condTrue_np _)
macro_rules | `(tactic| np_auto) => `(tactic| exact toIsize_np _)
macro_rules | `(tactic| np_auto) => `(tactic| exact toBool_np _)

/-- one structural step of a panic-freedom proof -/
macro "pf_step" : tactic => `(tactic| with_reducible first
  | exact PanicOnly.done
  | exact PanicOnly.fail _
  | (apply PanicOnly.pop; intro _)
  | apply PanicOnly.push
  | (apply PanicOnly.top; intro _)
  | apply PanicOnly.dup
  | apply PanicOnly.swap
  | apply PanicOnly.rot
  | apply PanicOnly.over
  | (apply PanicOnly.depth; intro _)
  | (apply PanicOnly.rawLen; intro _)
  | (apply PanicOnly.rawFrom; intro _)
  | (apply PanicOnly.getVar; intro _)
  | apply PanicOnly.setVar
  | apply PanicOnly.print
  | apply PanicOnly.pushSpecial
  | (apply PanicOnly.popSpecial; intro _)
  | (apply PanicOnly.loopAt; intro _)
  | apply PanicOnly.setLoopItems
  | apply PanicOnly.stop
  | apply PanicOnly.pushAll
  | apply PanicOnly.popN
  | (refine PanicOnly.ofOutcome _ _ ?_ (fun _ => ?_))
  | np_auto
  | split)

macro "pf" : tactic => `(tactic| repeat' pf_step)

theorem pf_wordDepth : PanicFree wordDepth := by unfold wordDepth; pf
theorem pf_wordNilQ : PanicFree wordNilQ := by unfold wordNilQ; pf
theorem pf_wordEqual : PanicFree wordEqual := by unfold wordEqual; pf
theorem pf_wordAssert : PanicFree wordAssert := by
  unfold wordAssert; pf
theorem pf_wordAssertEq : PanicFree wordAssertEq := by unfold wordAssertEq; pf
theorem pf_wordError : PanicFree wordError := by unfold wordError; pf
theorem pf_wordExit : PanicFree wordExit := by
  unfold wordExit; pf
theorem pf_wordCounter (n : Nat) : PanicFree (wordCounter n) := by unfold wordCounter; pf
theorem pf_vecBuilderBegin : PanicFree vecBuilderBegin := by unfold vecBuilderBegin; pf
theorem pf_vecBuilderEnd : PanicFree vecBuilderEnd := by unfold vecBuilderEnd collectTillPtr; pf
theorem pf_mapBuilderEnd : PanicFree mapBuilderEnd := by unfold mapBuilderEnd mapCollect; pf

theorem toMap_np (c : Cell) : NP c.toMap := by unfold Cell.toMap; intro s; split <;> simp
theorem toVec_np (c : Cell) : NP c.toVec := by unfold Cell.toVec; intro s; split <;> simp
theorem toStr_np (c : Cell) : NP c.toStr := by unfold Cell.toStr; intro s; split <;> simp
theorem toBitstr_np (c : Cell) : NP c.toBitstr := by unfold Cell.toBitstr; intro s; split <;> simp
theorem toUsize_np (c : Cell) : NP c.toUsize := by
  unfold Cell.toUsize; intro s; split <;> (try split) <;> (try split) <;> simp
macro_rules | `(tactic| np_auto) => `(tactic| exact toMap_np _)
macro_rules | `(tactic| np_auto) => `(tactic| exact toVec_np _)
macro_rules | `(tactic| np_auto) => `(tactic| exact toStr_np _)
macro_rules | `(tactic| np_auto) => `(tactic| exact toBitstr_np _)
macro_rules | `(tactic| np_auto) => `(tactic| exact toUsize_np _)

theorem pf_wordWithTags : PanicFree wordWithTags := by unfold wordWithTags; pf
theorem pf_tagsEnd : PanicFree tagsEnd := by
  unfold tagsEnd mapCollect wordWithTags; pf
theorem pf_foreachRange (n : Nat) : PanicFree (foreachRange n) := by unfold foreachRange; pf
theorem pf_foreachInit : PanicFree foreachInit := by
  unfold foreachInit; pf
  all_goals exact pf_foreachRange _
theorem pf_foreachNext : PanicFree foreachNext := by unfold foreachNext; pf

/-- a whole table -/
def AllPF (t : List (String × Prog)) : Prop := ∀ e ∈ t, PanicFree e.2

theorem AllPF.nil : AllPF [] := fun _ h => by cases h
theorem AllPF.cons (n : String) (p : Prog) (t : List (String × Prog)) (hp : PanicFree p) (ht : AllPF t) :
    AllPF ((n, p) :: t) := by
  intro e he
  rcases List.mem_cons.mp he with rfl | h
  · exact hp
  · exact ht e h
theorem AllPF.append (a b : List (String × Prog)) (ha : AllPF a) (hb : AllPF b) : AllPF (a ++ b) := by
  intro e he
  rcases List.mem_append.mp he with h | h
  · exact ha e h
  · exact hb e h

theorem pf_coreTable : AllPF coreTable := by
  unfold coreTable
  repeat' (first | exact AllPF.nil | apply AllPF.cons)
  all_goals first
    | exact pf_wordDepth | exact pf_wordNilQ | exact pf_wordEqual | exact pf_wordAssert | exact pf_wordAssertEq
    | exact pf_wordError | exact pf_wordExit | exact pf_wordCounter _ | exact pf_vecBuilderBegin
    | exact pf_vecBuilderEnd | exact pf_mapBuilderEnd | exact pf_tagsEnd | exact pf_wordWithTags
    | exact pf_foreachInit | exact pf_foreachNext | pf

/-! ### arithmetic -/

theorem toXint_np (c : Cell) : NP c.toXint := by
  unfold Cell.toXint; intro s; split <;> (try split) <;> simp
theorem toReal_np (c : Cell) : NP c.toReal := by
  unfold Cell.toReal; intro s; split <;> (try split) <;> simp
macro_rules | `(tactic| np_auto) => `(tactic| exact toXint_np _)
macro_rules | `(tactic| np_auto) => `(tactic| exact toReal_np _)

theorem pf_arithOpsReal (fi : Int → Int → Int) (fr : UInt64 → UInt64 → UInt64) : PanicFree (arithOpsReal fi fr) := by
  unfold arithOpsReal; pf
theorem pf_arithOpsInt (fi : Int → Int → Int) : PanicFree (arithOpsInt fi) := by unfold arithOpsInt; pf
theorem pf_wordDiv : PanicFree wordDiv := by unfold wordDiv; pf
theorem pf_wordRem : PanicFree wordRem := by unfold wordRem; pf
theorem pf_wordNeg : PanicFree wordNeg := by unfold wordNeg; pf
theorem pf_wordAbs : PanicFree wordAbs := by unfold wordAbs; pf
theorem pf_wordCmp (t : Ordering → Bool) : PanicFree (wordCmp t) := by unfold wordCmp; pf
theorem pf_wordNot : PanicFree wordNot := by unfold wordNot; pf
theorem pf_wordLogic (f : Bool → Bool → Bool) : PanicFree (wordLogic f) := by unfold wordLogic; pf
theorem pf_wordBnot : PanicFree wordBnot := by unfold wordBnot; pf
theorem pf_wordPopcnt : PanicFree wordPopcnt := by unfold wordPopcnt; pf
theorem pf_wordRound : PanicFree wordRound := by unfold wordRound; pf
theorem pf_wordIntoReal : PanicFree wordIntoReal := by unfold wordIntoReal; pf
theorem pf_wordIntoInt : PanicFree wordIntoInt := by unfold wordIntoInt; pf
theorem pf_wordNumTest (ti : Int → Bool) (tr : UInt64 → Bool) : PanicFree (wordNumTest ti tr) := by
  unfold wordNumTest; pf

theorem pf_arithTable : AllPF arithTable := by
  unfold arithTable wordAdd wordSub wordMul wordMin wordMax
  repeat' (first | exact AllPF.nil | apply AllPF.cons)
  all_goals with_reducible first
    | exact pf_arithOpsReal _ _ | exact pf_arithOpsInt _ | exact pf_wordDiv | exact pf_wordRem | exact pf_wordNeg
    | exact pf_wordAbs | exact pf_wordCmp _ | exact pf_wordNot | exact pf_wordLogic _ | exact pf_wordBnot
    | exact pf_wordPopcnt | exact pf_wordRound | exact pf_wordIntoReal | exact pf_wordIntoInt
    | exact pf_wordNumTest _ _

/-! ### collections and tags -/

open Coll in
theorem pf_collTable : AllPF Coll.collTable := by
  unfold Coll.collTable
  repeat' (first | exact AllPF.nil | apply AllPF.cons)
  · unfold wordInsert; pf
  · unfold wordRemove; pf
  · unfold wordGet; pf
  · unfold wordLength; pf
  · unfold wordNth; pf
  · unfold wordSlice; pf
  · unfold wordConcat; pf
  · unfold wordJoin; pf
  · unfold wordSort; pf
  · unfold wordReverse; pf
  · unfold wordPush; pf
  · unfold wordCollect; pf
  · unfold wordUnbox; pf
  all_goals (unfold wordIs; pf)

open Coll in
theorem pf_tagTable : AllPF Coll.tagTable := by
  unfold Coll.tagTable
  repeat' (first | exact AllPF.nil | apply AllPF.cons)
  · unfold Coll.wordFmtBase Coll.putFmt; pf
  · unfold Coll.wordFmtBit Coll.putFmt; pf
  · unfold Coll.wordFmtBit Coll.putFmt; pf
  · unfold Coll.wordFmtBit Coll.putFmt; pf
  · unfold wordTags; pf
  · unfold Coll.wordWithTags; pf
  · unfold wordInsertTag; pf
  · unfold wordRemoveTag; pf
  · unfold wordGetTag; pf

/-! ### text encodings -/

open Enc in
theorem concatLeaf_np (v : Cell) : NP (concatLeaf v) := by
  unfold concatLeaf; intro s; split <;> (try split) <;> simp

open Enc in
mutual
theorem concatList_np : ∀ l : CellList, NP (concatList l)
  | .nil => by intro s; simp [concatList]
  | .cons x t => by
    intro s
    have h1 := concatElem_np x
    have h2 := concatList_np t
    unfold concatList
    cases hx : concatElem x with
    | ok a =>
      simp only
      cases ht : concatList t with
      | ok b => simp
      | err e => simp
      | panic p => exact absurd ht (h2 p)
    | err e => simp
    | panic p => exact absurd hx (h1 p)
theorem concatElem_np : ∀ c : Cell, NP (concatElem c)
  | .vec xs => by unfold concatElem; exact concatList_np xs
  | .tagged (.vec xs) _ => by unfold concatElem; exact concatList_np xs
  | .tagged (.int i) _ => by unfold concatElem; exact concatLeaf_np _
  | .tagged (.real i) _ => by unfold concatElem; exact concatLeaf_np _
  | .tagged (.str i) _ => by unfold concatElem; exact concatLeaf_np _
  | .tagged (.flag i) _ => by unfold concatElem; exact concatLeaf_np _
  | .tagged .nil _ => by unfold concatElem; exact concatLeaf_np _
  | .tagged (.bitstr i) _ => by unfold concatElem; exact concatLeaf_np _
  | .tagged (.map i) _ => by unfold concatElem; exact concatLeaf_np _
  | .tagged (.fn i j) _ => by unfold concatElem; exact concatLeaf_np _
  | .tagged (.any i) _ => by unfold concatElem; exact concatLeaf_np _
  | .tagged (.tagged a b) _ => by unfold concatElem; exact concatLeaf_np _
  | (.int i) => by unfold concatElem; exact concatLeaf_np _
  | (.real i) => by unfold concatElem; exact concatLeaf_np _
  | (.str i) => by unfold concatElem; exact concatLeaf_np _
  | (.flag i) => by unfold concatElem; exact concatLeaf_np _
  | .nil => by unfold concatElem; exact concatLeaf_np _
  | (.bitstr i) => by unfold concatElem; exact concatLeaf_np _
  | (.map i) => by unfold concatElem; exact concatLeaf_np _
  | (.fn i j) => by unfold concatElem; exact concatLeaf_np _
  | (.any i) => by unfold concatElem; exact concatLeaf_np _
end

open Enc in
theorem bitstrConcat_np (c : Cell) : NP (bitstrConcat c) := by
  unfold bitstrConcat; intro s
  split
  · simp
  · exact concatList_np _ s
  · simp
  · simp
macro_rules | `(tactic| np_auto) => `(tactic| exact bitstrConcat_np _)

open Enc in
theorem pf_encodeWord (enc : List Nat → List Nat) : PanicFree (encodeWord enc) := by unfold encodeWord; pf

open Enc in
theorem pf_decodeWord (dec : List Nat → Dec) (hd : ∀ d p, dec d ≠ .panic p) : PanicFree (decodeWord dec) := by
  unfold decodeWord; pf
  rename_i site heq
  exact absurd heq (hd _ site)

open Enc in
theorem pf_encTable : AllPF Enc.encTable := by
  unfold Enc.encTable
  repeat' (first | exact AllPF.nil | apply AllPF.cons)
  · exact pf_encodeWord _
  · exact pf_decodeWord _ (by intro d p; unfold base32Dec; cases b32Decode rfcInv d <;> simp [Dec.ofOption])
  · exact pf_encodeWord _
  · exact pf_decodeWord _ (by intro d p; unfold base32hexDec; cases b32Decode crockInv d <;> simp [Dec.ofOption])
  · exact pf_encodeWord _
  · exact pf_decodeWord _ (by intro d p; unfold base64Dec; cases b64Decode d <;> simp [Dec.ofOption])
  · exact pf_encodeWord _
  · exact pf_decodeWord _ z85Guarded_no_panic

/-! ### printing: the only panic node is the marker of a gap of the model (values `formatCell` does not cover) -/

def IsPrintGap (s : String) : Prop := s = "model: printing this value is outside the model"

theorem pf_printTable : ∀ e ∈ printTable, PanicOnly IsPrintGap e.2 := by
  intro e he
  simp only [printTable, List.mem_cons, List.mem_nil_iff, or_false] at he
  rcases he with rfl | rfl | rfl | rfl
  · simp only [wordPrint, gapPrint]; pf; exact PanicOnly.panic _ rfl
  · simp only [wordPrint, gapPrint]; pf; exact PanicOnly.panic _ rfl
  · pf
  · simp only [wordDisplayStack, gapPrint]; pf; exact PanicOnly.panic _ rfl

/-! ### the whole word table, and the VM running over it -/

theorem PanicOnly.mono {P Q : String → Prop} (hpq : ∀ s, P s → Q s) {p : Prog} (h : PanicOnly P p) : PanicOnly Q p := by
  induction h with
  | done => exact .done
  | fail e => exact .fail e
  | panic site hs => exact .panic site (hpq _ hs)
  | pop k _ ih => exact .pop k ih
  | push c k _ ih => exact .push c k ih
  | top k _ ih => exact .top k ih
  | dup k _ ih => exact .dup k ih
  | swap k _ ih => exact .swap k ih
  | rot k _ ih => exact .rot k ih
  | over k _ ih => exact .over k ih
  | depth k _ ih => exact .depth k ih
  | rawLen k _ ih => exact .rawLen k ih
  | rawFrom ptr k _ ih => exact .rawFrom ptr k ih
  | getVar idx k _ ih => exact .getVar idx k ih
  | setVar idx c k _ ih => exact .setVar idx c k ih
  | print t k _ ih => exact .print t k ih
  | pushSpecial ptr k _ ih => exact .pushSpecial ptr k ih
  | popSpecial k _ ih => exact .popSpecial k ih
  | loopAt n k _ ih => exact .loopAt n k ih
  | setLoopItems c k _ ih => exact .setLoopItems c k ih
  | stop k _ ih => exact .stop k ih

theorem lookup_mem {β : Type} (t : List (String × β)) (name : String) (p : β) (h : t.lookup name = some p) :
    (name, p) ∈ t := by
  induction t with
  | nil => simp [List.lookup] at h
  | cons e t ih =>
    obtain ⟨n, q⟩ := e
    simp only [List.lookup] at h
    split at h
    · rename_i heq
      simp only [beq_iff_eq] at heq
      cases h; subst heq; exact List.mem_cons_self
    · exact List.mem_cons_of_mem _ (ih h)

/-- every program of the word table the VM uses: no panic node except the printing gap marker -/
theorem nativeTable_only : ∀ e ∈ nativeTable, PanicOnly IsPrintGap e.2 := by
  intro e he
  have free : ∀ t, AllPF t → e ∈ t → PanicOnly IsPrintGap e.2 :=
    fun t ht h => PanicOnly.mono (fun _ hf => nomatch hf) (ht e h)
  unfold nativeTable at he
  simp only [List.mem_append] at he
  rcases he with ((((h | h) | h) | h) | h) | h
  · exact free _ pf_coreTable h
  · exact free _ pf_arithTable h
  · exact free _ pf_collTable h
  · exact free _ pf_tagTable h
  · exact free _ pf_encTable h
  · exact pf_printTable e h

theorem nativeProg_only (name : String) (p : Prog) (h : nativeProg name = some p) : PanicOnly IsPrintGap p :=
  nativeTable_only (name, p) (lookup_mem _ _ _ h)

/-- **the modelled interpreter core never panics**: running any program from any machine state for any number of
    steps with the model's whole word table, the only `panic` answers are the model's own two gap markers (a word
    the table lacks, a value the printing model does not cover) — which the driver reports as `unsupported`,
    never as an answer.  Every other failure is an error value. -/
theorem vm_never_panics (fuel : Nat) (m : Mach) (s : String) (m' : Mach)
    (h : run nativeProg fuel m = some (.panic s, m')) :
    s = "model: printing this value is outside the model" ∨
    ∃ name, nativeProg name = none ∧ s = s!"model: native word {name} is outside the model" :=
  run_panic_only nativeProg IsPrintGap nativeProg_only fuel m s m' h

end Xeh.Mach
