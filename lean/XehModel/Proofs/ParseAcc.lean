/-
`parseBlock` only ever adds statements in front of the accumulator it was given.
-/
import XehModel.Model.ParseS

namespace Xeh.Structured
open Xeh Xeh.Compile

def AccExt (S : Stmt) (acc : List Stmt) : Prop := ∃ more, S = seqs ((more ++ acc).reverse)

theorem AccExt.refl (acc : List Stmt) : AccExt (seqs acc.reverse) acc := ⟨[], rfl⟩

theorem AccExt.drop {S : Stmt} {x : Stmt} {acc : List Stmt} (h : AccExt S (x :: acc)) : AccExt S acc := by
  obtain ⟨m, hm⟩ := h
  exact ⟨m ++ [x], by simpa using hm⟩

theorem parse_acc : ∀ (f : Nat) (toks : List Tok) (idx : Nat) (p : PState) (top : Bool) (acc : List Stmt) (blk : Block),
    parseBlock f toks idx p top acc = some blk → AccExt blk.stmt acc := by
  intro f
  induction f with
  | zero => intro toks idx p top acc blk h; simp [parseBlock] at h
  | succ f ih =>
    intro toks idx p top acc blk h
    rcases toks with _ | ⟨tk, rest⟩
    · simp only [parseBlock, Option.some.injEq] at h; subst h; exact AccExt.refl acc
    rcases tk with c | w
    · simp only [parseBlock] at h; exact (ih _ _ _ _ _ _ h).drop
    · simp only [parseBlock] at h
      repeat' (split at h)
      all_goals first
        | (simp at h; done)
        | (simp only [Option.some.injEq] at h; subst h; exact AccExt.refl acc)
        | exact (ih _ _ _ _ _ _ h).drop
        | exact (ih _ _ _ _ _ _ h).drop.drop
        | exact (ih _ _ _ _ _ _ h).drop.drop.drop

end Xeh.Structured
