/- Helper lemmas about `Prog.runStack` (not property theorems). -/
import XehModel.Model.Prog

namespace Xeh.Prog

theorem runStack_pop_cons (k : Cell → Prog) (h : Nat) (c : Cell) (s : List Cell) (hh : h ≤ s.length) :
    runStack (.pop k) h (c :: s) = runStack (k c) h s := by
  simp [runStack]; omega

theorem runStack_top_cons (k : Cell → Prog) (h : Nat) (c : Cell) (s : List Cell) (hh : h ≤ s.length) :
    runStack (.top k) h (c :: s) = runStack (k c) h (c :: s) := by
  simp [runStack]; omega

@[simp] theorem runStack_push (c : Cell) (k : Prog) (h : Nat) (s : List Cell) :
    runStack (.push c k) h s = runStack k h (c :: s) := by simp [runStack]

@[simp] theorem runStack_done (h : Nat) (s : List Cell) : runStack .done h s = .ok s := by simp [runStack]
@[simp] theorem runStack_fail (e : Xerr) (h : Nat) (s : List Cell) : runStack (.fail e) h s = .err e := by simp [runStack]

@[simp] theorem runStack_pop_nil (k : Cell → Prog) (h : Nat) : runStack (.pop k) h [] = .err .stackUnderflow := by
  simp [runStack]

@[simp] theorem runStack_top_nil (k : Cell → Prog) (h : Nat) : runStack (.top k) h [] = .err .stackUnderflow := by
  simp [runStack]

end Xeh.Prog

namespace Xeh

theorem cmp_cases (a b : Int) :
    (a < b ∧ compare a b = .lt) ∨ (a = b ∧ compare a b = .eq) ∨ (a > b ∧ compare a b = .gt) := by
  rcases Int.lt_trichotomy a b with h | h | h
  · left; exact ⟨h, by simp [Int.compare_eq_lt, h]⟩
  · right; left; exact ⟨h, by simp [h]⟩
  · right; right; exact ⟨h, by simp [Int.compare_eq_gt, h]⟩

end Xeh
