/-
The debug map of a session stays parallel to its code (same length) through every step of the token loop — compiling,
running meta blocks, closing them (both are truncated to the same mark, the results are re-emitted one entry each) —
as long as the loop goes on (`ok` answers).  Needed where a meta block is opened in the middle of a source: the state at
the `#(` is again a state a source can be read in (`Idle`).
-/
import XehModel.Model.Session
import XehModel.Proofs.CompileAlign
import XehModel.Proofs.VMBound

namespace Xeh.Session
open Xeh Xeh.Mach Xeh.Compile Xeh.Session.Sess

def AL (s : Sess) : Prop := s.dmap.length = s.m.code.length

def ALR : SRes → Prop
  | .ok s => AL s
  | _ => True

theorem alr_bind (r : SRes) (k : Sess → SRes) : ALR r → (∀ s, AL s → ALR (k s)) →
    ALR (match r with
      | .ok s => k s
      | r => r) := by
  intro h hk
  cases r with
  | ok s => exact hk s h
  | err e s => trivial
  | panic p s => trivial
  | unsupported u => trivial
  | timeout => trivial

theorem al_emit {s : Sess} (h : AL s) (op : Op) : AL (s.emit op) := by
  simp only [AL, Sess.emit, List.length_append, List.length_cons, List.length_nil] at h ⊢
  omega

theorem al_runS {s : Sess} (h : AL s) (fuel : Nat) : ALR (s.runS fuel) := by
  unfold Sess.runS
  split
  · trivial
  · rename_i o m' hr
    have := (run_bnd nativeProg fuel s.m _ hr).2.2.2.2
    show s.dmap.length = m'.code.length
    rw [this]; exact h
  · split <;> trivial
  · split <;> trivial

theorem al_emitResults : ∀ (f : Nat) (s : Sess), AL s → ALR (Sess.emitResults f s)
  | 0, s, h => h
  | f + 1, s, h => by
    simp only [Sess.emitResults]
    split
    · split
      · exact al_emitResults f _ (al_emit (s := { s with m := { s.m with ds := _ } }) h _)
      · exact h
    · exact h

theorem al_contextClose {s : Sess} (h : AL s) (fuel : Nat) : ALR (s.contextClose fuel) := by
  unfold Sess.contextClose
  split
  · trivial
  · rename_i prev rest hn
    dsimp only
    have hr : AL ({ s with nested := rest } : Sess) := h
    split
    · refine alr_bind _ _ (al_runS hr fuel) (fun s1 h1 => h1)
    · refine alr_bind _ _ (al_runS hr fuel) (fun s1 h1 => ?_)
      have h2 : AL { s1 with m := { s1.m with code := s1.m.code.take s1.m.ctx.csLen, dict := purge s1.m.dict s1.m.ctx.diLen }, dmap := s1.dmap.take s1.m.ctx.csLen } := by
        simp only [AL, List.length_take] at h1 ⊢
        rw [h1]
      refine alr_bind _ _ ?_ (fun s2 h3 => h3)
      split
      · exact al_emitResults _ _ h2
      · exact h2
    · exact h

theorem al_nestedEnd {s : Sess} (h : AL s) (fuel : Nat) : ALR (s.nestedEnd fuel) := by
  unfold Sess.nestedEnd
  split
  · trivial
  · split
    · split <;> trivial
    · exact al_contextClose h fuel

theorem al_constDef {s : Sess} (h : AL s) (name : String) : ALR (s.constDef name) := by
  unfold Sess.constDef
  split
  · trivial
  · have hk := (popData_bnd s.m).2.2.2.2
    split
    · rename_i v m1 hp
      rw [hp] at hk
      simp only at hk
      dsimp only
      split
      · split
        · show s.dmap.length = m1.code.length; rw [hk]; exact h
        · trivial
      · show s.dmap.length = m1.code.length; rw [hk]; exact h
    · trivial
    · trivial

theorem al_metaRun {s : Sess} (h : AL s) (fuel : Nat) : ALR (s.metaRun fuel) := by
  unfold Sess.metaRun
  split
  · exact al_runS h fuel
  · exact h

theorem alr_andRun (fuel : Nat) (r : SRes) (h : ALR r) : ALR (andRun fuel r) := by
  cases r with
  | ok s => exact al_metaRun h fuel
  | err e s => trivial
  | panic p s => trivial
  | unsupported u => trivial
  | timeout => trivial

theorem al_toC {s : Sess} (h : AL s) : Aligned s.toC := h

theorem al_fromC {s : Sess} (c : CState) (hc : Aligned c) : AL (s.fromC c) := hc

/-- a compiling word answered through `ofC`, given that it keeps compiler states aligned -/
theorem alr_ofC (s : Sess) (r : CRes CState) (hr : ∀ c, r = .ok c → Aligned c) : ALR (s.ofC r) := by
  cases r with
  | ok c => exact al_fromC c (hr c rfl)
  | err e c => trivial
  | unsupported u => trivial

/-- the token loop -/
theorem al_tokens (fuel depth : Nat) (toks : List Tok) : ∀ (idx : Nat) (s : Sess), AL s → ALR (tokens fuel depth toks idx s) := by
  induction hn : toks.length using Nat.strongRecOn generalizing toks with
  | _ n ih =>
    intro idx s h
    have cont : ∀ (rest : List Tok) (i : Nat) (r : SRes), rest.length < n → ALR r →
        ALR (match andRun fuel r with
          | .ok s => tokens fuel depth rest i s
          | r => r) := by
      intro rest i r hl hr
      exact alr_bind _ _ (alr_andRun fuel r hr) (fun s1 h1 => ih rest.length hl rest rfl i s1 h1)
    have hi : ∀ k, AL ({ s with lastTok := k } : Sess) := fun _ => h
    match toks, hn with
    | [], _ =>
      simp only [tokens]
      split
      · trivial
      · split
        · split <;> trivial
        · exact hi idx
    | .lit c :: rest, hn =>
      subst hn
      simp only [tokens]
      exact cont rest _ _ (by simp) (al_emit (hi idx) _)
    | .word w :: rest, hn =>
      subst hn
      simp only [tokens]
      split
      · exact cont rest _ _ (by simp) (al_emit (hi idx) _)
      · split
        · split
          · exact cont rest _ _ (by simp) (show AL (({ s with lastTok := idx } : Sess).contextOpen .metaEval) from hi idx)
          · split
            · exact cont rest _ _ (by simp) (al_nestedEnd (hi idx) fuel)
            · split
              · split
                · rename_i name rest'
                  refine cont rest' _ _ (by simp only [List.length_cons]; omega) ?_
                  split
                  · exact al_constDef (hi (idx + 1)) name
                  · split
                    · exact alr_ofC _ _ (fun c e => late_aligned _ c _ _ (al_toC (hi idx)) e)
                    · exact alr_ofC _ _ (fun c e => withName_aligned _ c _ _ (al_toC (hi (idx + 1))) e)
                · trivial
              · exact cont rest _ _ (by simp) (alr_ofC _ _ (fun c e => immediate_aligned _ c _ (al_toC (hi idx)) e))
        · exact cont rest _ _ (by simp) (alr_ofC _ _ (fun c e => buildWord_aligned _ c _ (al_toC (hi idx)) e))

end Xeh.Session
