/-
`eval` and `compile` read a source the same way.  `build_from_source` opens a context of the requested mode; the two
contexts differ in the mode (`eval` / `compile`, neither a meta block) and in the data-stack floor.  While the source is
read nothing looks at either: code runs only inside meta blocks, which have contexts of their own, and the base
context waits — as the current context while no block is open, in the stack of saved contexts while one is.
`RB`: two sessions that are the same except for that one context.  Every step of the token loop keeps them so.
-/
import XehModel.Model.Session

namespace Xeh.Session
open Xeh Xeh.Mach Xeh.Compile Xeh.Session.Sess

/-- the other base context -/
def swp (c' c : Ctx) : Ctx := { c' with fsLen := c.fsLen }

/-- the same session, except for the base context: it is the current one (`cur`: `k` contexts are saved), or it is
    saved with exactly `k` contexts below it (`nest`) -/
inductive RB (c' : Ctx) (k : Nat) : Sess → Sess → Prop
  | cur (s : Sess) (h1 : s.nested.length = k) (h2 : s.m.ctx.mode ≠ .metaEval) :
      RB c' k s { s with m := { s.m with ctx := swp c' s.m.ctx } }
  | nest (s : Sess) (pre : List Ctx) (E : Ctx) (bot : List Ctx) (h1 : s.nested = pre ++ E :: bot) (h2 : bot.length = k)
      (h3 : E.mode ≠ .metaEval) : RB c' k s { s with nested := pre ++ swp c' E :: bot }

/-- related answers -/
def GRB (c' : Ctx) (k : Nat) : SRes → SRes → Prop
  | .ok s, .ok t => RB c' k s t
  | .err e s, .err e' t => e = e' ∧ (RB c' k s t ∨ s = t)
  | .panic p s, .panic p' t => p = p' ∧ (RB c' k s t ∨ s = t)
  | .unsupported u, .unsupported u' => u = u'
  | .timeout, .timeout => True
  | _, _ => False

variable {c' : Ctx} {k : Nat}

theorem grb_bind' (r r' : SRes) (f f' : Sess → SRes) : GRB c' k r r' → (∀ s t, RB c' k s t → GRB c' k (f s) (f' t)) →
    GRB c' k (match r with
      | .ok s => f s
      | r => r)
     (match r' with
      | .ok s => f' s
      | r => r) := by
  intro h hk
  cases r <;> cases r' <;> first | exact h.elim | skip
  · exact hk _ _ h
  · exact h
  · exact h
  · exact h
  · trivial

theorem grb_bind {r r' : SRes} {f f' : Sess → SRes} (h : GRB c' k r r') (hk : ∀ s t, RB c' k s t → GRB c' k (f s) (f' t)) :
    GRB c' k (match (generalizing := false) r with
      | .ok s => f s
      | r => r)
     (match (generalizing := false) r' with
      | .ok s => f' s
      | r => r) := grb_bind' r r' f f' h hk

theorem grb_ite (c : Prop) [Decidable c] {a a' b b' : SRes} (h1 : GRB c' k a a') (h2 : GRB c' k b b') :
    GRB c' k (if c then a else b) (if c then a' else b') := by
  split <;> assumption

theorem grb_ite2 {p p' : Prop} [Decidable p] [Decidable p'] (hc : p ↔ p') {a a' b b' : SRes}
    (h1 : p → GRB c' k a a') (h2 : ¬p → GRB c' k b b') :
    GRB c' k (if p then a else b) (if p' then a' else b') := by
  by_cases h : p
  · rw [if_pos h, if_pos (hc.mp h)]; exact h1 h
  · rw [if_neg h, if_neg (fun x => h (hc.mpr x))]; exact h2 h

theorem grb_flows {fl fl' : List Flow} (hfl : fl = fl') {S T : Sess} (h : RB c' k S T) :
    GRB c' k (match (generalizing := false) fl with
      | f :: _ => .err (flowError f) S
      | [] => .panic "flow stack" S)
     (match (generalizing := false) fl' with
      | f :: _ => .err (flowError f) T
      | [] => .panic "flow stack" T) := by
  subst hfl
  split <;> exact ⟨rfl, .inl h⟩

/-- what the two sessions share -/
theorem RB.same {s t : Sess} (h : RB c' k s t) (hmd : c'.mode ≠ .metaEval) :
    s.toC = t.toC ∧ s.hidden = t.hidden ∧ s.flows = t.flows ∧ s.m.dict = t.m.dict ∧ s.m.ds = t.m.ds ∧
    (s.m.ctx.mode == .metaEval) = (t.m.ctx.mode == .metaEval) ∧ s.nested.length = t.nested.length ∧ s.m.ctx.fsLen = t.m.ctx.fsLen := by
  cases h with
  | cur h1 h2 =>
    refine ⟨?_, rfl, rfl, rfl, rfl, ?_, rfl, rfl⟩
    · simp only [Sess.toC, Sess.visible, Sess.visLen, swp]
      cases hm : s.m.ctx.mode <;> cases hm' : c'.mode <;> simp_all <;> rfl
    · simp only [swp]
      cases hm : s.m.ctx.mode <;> cases hm' : c'.mode <;> simp_all <;> rfl
  | nest pre E bot h1 h2 h3 =>
    refine ⟨rfl, rfl, rfl, rfl, rfl, rfl, ?_, rfl⟩
    simp [h1]

theorem rb_fromC {s t : Sess} (h : RB c' k s t) (c : CState) : RB c' k (s.fromC c) (t.fromC c) := by
  cases h with
  | cur h1 h2 => exact RB.cur (s.fromC c) h1 h2
  | nest pre E bot h1 h2 h3 => exact RB.nest (s.fromC c) pre E bot h1 h2 h3

theorem rb_setTok {s t : Sess} (h : RB c' k s t) (i : Nat) : RB c' k { s with lastTok := i } { t with lastTok := i } := by
  cases h with
  | cur h1 h2 => exact RB.cur { s with lastTok := i } h1 h2
  | nest pre E bot h1 h2 h3 => exact RB.nest { s with lastTok := i } pre E bot h1 h2 h3

theorem rb_ofC {s t : Sess} (h : RB c' k s t) (r : CRes CState) : GRB c' k (s.ofC r) (t.ofC r) := by
  cases r with
  | ok c => exact rb_fromC h c
  | err e c => exact ⟨rfl, .inl (rb_setTok (rb_fromC h c) _)⟩
  | unsupported u => exact rfl

theorem rb_emit {s t : Sess} (h : RB c' k s t) (op : Op) : RB c' k (s.emit op) (t.emit op) := by
  cases h with
  | cur h1 h2 => exact RB.cur (s.emit op) h1 h2
  | nest pre E bot h1 h2 h3 => exact RB.nest (s.emit op) pre E bot h1 h2 h3

theorem rb_openMeta {s t : Sess} (h : RB c' k s t) (hmd : c'.mode ≠ .metaEval) :
    RB c' k (s.contextOpen .metaEval) (t.contextOpen .metaEval) := by
  cases h with
  | cur h1 h2 =>
    have e : ({ s with m := { s.m with ctx := swp c' s.m.ctx } } : Sess).contextOpen .metaEval =
        { (s.contextOpen .metaEval) with nested := [] ++ swp c' s.m.ctx :: s.nested } := by
      simp only [Sess.contextOpen, swp, List.nil_append]
      have a1 : (c'.mode = Mode.metaEval) = False := by simp [hmd]
      have a2 : (s.m.ctx.mode = Mode.metaEval) = False := by simp [h2]
      simp only [a1, a2, if_false]
    rw [e]
    exact RB.nest (s.contextOpen .metaEval) [] s.m.ctx s.nested rfl h1 h2
  | nest pre E bot h1 h2 h3 =>
    have e : ({ s with nested := pre ++ swp c' E :: bot } : Sess).contextOpen .metaEval =
        { (s.contextOpen .metaEval) with nested := (s.m.ctx :: pre) ++ swp c' E :: bot } := by
      simp [Sess.contextOpen]
    rw [e]
    exact RB.nest (s.contextOpen .metaEval) (s.m.ctx :: pre) E bot (by simp [Sess.contextOpen, h1]) h2 h3

/-- replace the saved contexts in an answer -/
def SRes.setNested (n : List Ctx) : SRes → SRes
  | .ok s => .ok { s with nested := n }
  | .err e s => .err e { s with nested := n }
  | .panic p s => .panic p { s with nested := n }
  | r => r

/-- the saved contexts of an answer are `n` -/
def SRes.nestedIs (n : List Ctx) : SRes → Prop
  | .ok s => s.nested = n
  | .err _ s => s.nested = n
  | .panic _ s => s.nested = n
  | _ => True

/-- `run` neither reads nor writes the saved contexts -/
theorem runS_nested (s : Sess) (n : List Ctx) (fuel : Nat) :
    ({ s with nested := n } : Sess).runS fuel = SRes.setNested n (s.runS fuel) ∧ SRes.nestedIs s.nested (s.runS fuel) := by
  unfold Sess.runS
  dsimp only
  split
  · exact ⟨rfl, trivial⟩
  · exact ⟨rfl, rfl⟩
  · split
    · exact ⟨rfl, trivial⟩
    · exact ⟨rfl, rfl⟩
  · split
    · exact ⟨rfl, trivial⟩
    · exact ⟨rfl, rfl⟩

/-- an answer and the same answer with a context replaced in the saved stack -/
theorem grb_setNested {r : SRes} {pre : List Ctx} {E : Ctx} {bot : List Ctx} (hn : SRes.nestedIs (pre ++ E :: bot) r)
    (h2 : bot.length = k) (h3 : E.mode ≠ .metaEval) : GRB c' k r (SRes.setNested (pre ++ swp c' E :: bot) r) := by
  cases r with
  | ok s => exact RB.nest s pre E bot hn h2 h3
  | err e s => exact ⟨rfl, .inl (RB.nest s pre E bot hn h2 h3)⟩
  | panic p s => exact ⟨rfl, .inl (RB.nest s pre E bot hn h2 h3)⟩
  | unsupported u => exact rfl
  | timeout => trivial

theorem rb_runS_nest {s : Sess} {pre : List Ctx} {E : Ctx} {bot : List Ctx} (h1 : s.nested = pre ++ E :: bot)
    (h2 : bot.length = k) (h3 : E.mode ≠ .metaEval) (fuel : Nat) :
    GRB c' k (s.runS fuel) (({ s with nested := pre ++ swp c' E :: bot } : Sess).runS fuel) := by
  obtain ⟨e1, e2⟩ := runS_nested s (pre ++ swp c' E :: bot) fuel
  rw [e1]
  exact grb_setNested (h1 ▸ e2) h2 h3

theorem rb_metaRun {s t : Sess} (h : RB c' k s t) (hmd : c'.mode ≠ .metaEval) (fuel : Nat) :
    GRB c' k (s.metaRun fuel) (t.metaRun fuel) := by
  cases h with
  | cur h1 h2 =>
    have a1 : (s.m.ctx.mode == Mode.metaEval) = false := by cases hm : s.m.ctx.mode <;> simp_all
    have a2 : ((swp c' s.m.ctx).mode == Mode.metaEval) = false := by cases hm' : c'.mode <;> simp_all [swp]
    simp only [Sess.metaRun, a1, a2, Bool.false_and, Bool.false_eq_true, if_false]
    exact RB.cur s h1 h2
  | nest pre E bot h1 h2 h3 =>
    simp only [Sess.metaRun, Sess.hasPendingFlow]
    exact grb_ite _ (rb_runS_nest h1 h2 h3 fuel) (RB.nest s pre E bot h1 h2 h3)

theorem rb_andRun (hmd : c'.mode ≠ .metaEval) (fuel : Nat) {r r' : SRes} (h : GRB c' k r r') :
    GRB c' k (andRun fuel r) (andRun fuel r') := by
  cases r <;> cases r' <;> first | exact h.elim | skip
  · exact rb_metaRun h hmd fuel
  · exact h
  · exact h
  · exact h
  · trivial

/-- re-emitting the results of a block neither reads nor writes the saved contexts -/
theorem emitResults_nested : ∀ (f : Nat) (s : Sess) (n : List Ctx),
    Sess.emitResults f { s with nested := n } = SRes.setNested n (Sess.emitResults f s) ∧
    SRes.nestedIs s.nested (Sess.emitResults f s)
  | 0, s, n => ⟨rfl, rfl⟩
  | f + 1, s, n => by
    simp only [Sess.emitResults]
    split
    · split
      · rename_i v rest hd
        have ih := emitResults_nested f (({ s with m := { s.m with ds := rest } } : Sess).emit (Mach.loadValueOp v)) n
        exact ⟨ih.1, ih.2⟩
      · exact ⟨rfl, rfl⟩
    · exact ⟨rfl, rfl⟩

/-- what `context_close` does to a meta block after its last run -/
def closeTail (prev : Ctx) (s : Sess) : SRes :=
  let s := { s with m := { s.m with code := s.m.code.take s.m.ctx.csLen, dict := purge s.m.dict s.m.ctx.diLen },
                    dmap := s.dmap.take s.m.ctx.csLen }
  match (if prev.mode != .metaEval || s.flows.length > prev.fsLen then Sess.emitResults (s.m.ds.length + 1) s else .ok s) with
  | .ok s => .ok { s with m := { s.m with ctx := prev } }
  | r => r

theorem contextClose_meta (s : Sess) (prev : Ctx) (rest : List Ctx) (fuel : Nat) (h : s.nested = prev :: rest)
    (hm : s.m.ctx.mode = .metaEval) :
    s.contextClose fuel = match ({ s with nested := rest } : Sess).runS fuel with
      | .ok s1 => closeTail prev s1
      | r => r := by
  simp only [Sess.contextClose, h, hm, closeTail]
  cases Sess.runS fuel { s with nested := rest } <;> rfl

theorem closeTail_nested (prev : Ctx) (s : Sess) (n : List Ctx) :
    closeTail prev { s with nested := n } = SRes.setNested n (closeTail prev s) ∧ SRes.nestedIs s.nested (closeTail prev s) := by
  simp only [closeTail]
  by_cases hc : (prev.mode != Mode.metaEval || decide (s.flows.length > prev.fsLen)) = true
  · simp only [hc, if_true]
    obtain ⟨h1, h2⟩ := emitResults_nested (s.m.ds.length + 1) { s with m := { s.m with code := s.m.code.take s.m.ctx.csLen, dict := purge s.m.dict s.m.ctx.diLen }, dmap := s.dmap.take s.m.ctx.csLen } n
    simp only at h1 h2
    rw [h1]
    revert h2
    generalize Sess.emitResults _ _ = r2
    intro h2
    cases r2 <;> first | exact ⟨rfl, h2⟩ | exact ⟨rfl, trivial⟩
  · simp only [hc, if_false]
    exact ⟨rfl, rfl⟩

/-- `#)` closing a block: the base context comes back as the current one, or stays where it is below the others -/
theorem rb_contextClose {s t : Sess} (h : RB c' k s t) (hmd : c'.mode ≠ .metaEval) (hmeta : s.m.ctx.mode = .metaEval) (fuel : Nat) :
    GRB c' k (s.contextClose fuel) (t.contextClose fuel) := by
  cases h with
  | cur h1 h2 => exact (h2 hmeta).elim
  | nest pre E bot h1 h2 h3 =>
    cases pre with
    | nil =>
      simp only [List.nil_append] at h1
      simp only [Sess.contextClose, h1, List.nil_append, hmeta]
      -- the run is the same on both sides; afterwards `E` / its twin becomes the current context
      cases hr : Sess.runS fuel { s with nested := bot } with
      | ok s1 =>
        simp only
        have hn := (runS_nested { s with nested := bot } bot fuel).2
        rw [hr] at hn
        simp only [SRes.nestedIs] at hn
        have a1 : (E.mode != Mode.metaEval) = true := by cases hm : E.mode <;> simp_all
        have a2 : (c'.mode != Mode.metaEval) = true := by cases hm' : c'.mode <;> simp_all
        simp only [a1, a2, Bool.true_or, if_true, swp]
        have hn2 := (emitResults_nested (s1.m.ds.length + 1) { s1 with m := { s1.m with code := s1.m.code.take s1.m.ctx.csLen, dict := purge s1.m.dict s1.m.ctx.diLen }, dmap := s1.dmap.take s1.m.ctx.csLen } s1.nested).2
        revert hn2
        generalize Sess.emitResults _ _ = r
        intro hn2
        cases r with
        | ok s2 =>
          simp only [SRes.nestedIs] at hn2
          exact RB.cur { s2 with m := { s2.m with ctx := E } } (by simp only; rw [hn2, hn]; exact h2) h3
        | err e s2 => exact ⟨rfl, .inr rfl⟩
        | panic p s2 => exact ⟨rfl, .inr rfl⟩
        | unsupported u => exact rfl
        | timeout => trivial
      | err e s1 => exact ⟨rfl, .inr rfl⟩
      | panic p s1 => exact ⟨rfl, .inr rfl⟩
      | unsupported u => exact rfl
      | timeout => trivial
    | cons p pre' =>
      rw [contextClose_meta s p (pre' ++ E :: bot) fuel (by simpa using h1) hmeta,
        contextClose_meta { s with nested := p :: pre' ++ swp c' E :: bot } p (pre' ++ swp c' E :: bot) fuel (by simp) hmeta]
      obtain ⟨e1, e2⟩ := runS_nested { s with nested := pre' ++ E :: bot } (pre' ++ swp c' E :: bot) fuel
      simp only at e1 e2 ⊢
      rw [e1]
      revert e2
      generalize Sess.runS fuel { s with nested := pre' ++ E :: bot } = r
      intro e2
      cases r with
      | ok s1 =>
        simp only [SRes.setNested, SRes.nestedIs] at e2 ⊢
        obtain ⟨f1, f2⟩ := closeTail_nested p s1 (pre' ++ swp c' E :: bot)
        rw [f1]
        exact grb_setNested (e2 ▸ f2) h2 h3
      | err e s1 => exact ⟨rfl, .inl (RB.nest s1 pre' E bot e2 h2 h3)⟩
      | panic q s1 => exact ⟨rfl, .inl (RB.nest s1 pre' E bot e2 h2 h3)⟩
      | unsupported u => exact rfl
      | timeout => trivial

theorem rb_nestedEnd {s t : Sess} (h : RB c' k s t) (hmd : c'.mode ≠ .metaEval) (fuel : Nat) :
    GRB c' k (s.nestedEnd fuel) (t.nestedEnd fuel) := by
  obtain ⟨_, _, e3, _, _, e6, _, e8⟩ := h.same hmd
  unfold Sess.nestedEnd Sess.hasPendingFlow
  have e6' : (s.m.ctx.mode != Mode.metaEval) = (t.m.ctx.mode != Mode.metaEval) := by
    simp only [bne, e6]
  refine grb_ite2 (by rw [e6']) (fun _ => ⟨rfl, .inl h⟩) (fun hm => ?_)
  refine grb_ite2 (by rw [e3, e8]) (fun _ => ?_) (fun _ => ?_)
  · exact grb_flows e3 h
  · have hmeta : s.m.ctx.mode = .metaEval := by cases hx : s.m.ctx.mode <;> simp_all
    exact rb_contextClose h hmd hmeta fuel

theorem rb_constDef {s t : Sess} (h : RB c' k s t) (hmd : c'.mode ≠ .metaEval) (name : String) :
    GRB c' k (s.constDef name) (t.constDef name) := by
  cases h with
  | cur h1 h2 =>
    have a1 : (s.m.ctx.mode != Mode.metaEval) = true := by cases hm : s.m.ctx.mode <;> simp_all
    have a2 : ((swp c' s.m.ctx).mode != Mode.metaEval) = true := by cases hm' : c'.mode <;> simp_all [swp]
    simp only [Sess.constDef, a1, a2, if_true]
    exact ⟨rfl, .inl (RB.cur s h1 h2)⟩
  | nest pre E bot h1 h2 h3 =>
    simp only [Sess.constDef]
    refine grb_ite _ ⟨rfl, .inl (RB.nest s pre E bot h1 h2 h3)⟩ ?_
    split
    · split
      · split
        · exact RB.nest _ pre E bot h1 h2 h3
        · exact ⟨rfl, .inl (RB.nest _ pre E bot h1 h2 h3)⟩
      · exact RB.nest _ pre E bot h1 h2 h3
    · exact ⟨rfl, .inl (RB.nest _ pre E bot h1 h2 h3)⟩
    · exact ⟨rfl, .inl (RB.nest _ pre E bot h1 h2 h3)⟩

/-- the token loop -/
theorem rb_tokens (hmd : c'.mode ≠ .metaEval) (fuel depth : Nat) (toks : List Tok) : ∀ (idx : Nat) (s t : Sess), RB c' k s t →
    GRB c' k (tokens fuel depth toks idx s) (tokens fuel depth toks idx t) := by
  induction hn : toks.length using Nat.strongRecOn generalizing toks with
  | _ n ih =>
    intro idx s t h
    have cont : ∀ (rest : List Tok) (i : Nat) (r r' : SRes), rest.length < n → GRB c' k r r' →
        GRB c' k (match andRun fuel r with
          | .ok s => tokens fuel depth rest i s
          | r => r)
         (match andRun fuel r' with
          | .ok s => tokens fuel depth rest i s
          | r => r) := by
      intro rest i r r' hl hr
      exact grb_bind (rb_andRun hmd fuel hr) (fun s1 t1 h1 => ih rest.length hl rest rfl i s1 t1 h1)
    have h' := rb_setTok h idx
    obtain ⟨e1, _, e3, e4, _, _, e7, e8⟩ := h'.same hmd
    simp only at e3 e4 e7 e8
    match toks, hn with
    | [], _ =>
      simp only [tokens, Sess.hasPendingFlow]
      refine grb_ite2 (by rw [e7]) (fun _ => ⟨rfl, .inl h'⟩) (fun _ => grb_ite2 (by rw [e3, e8]) (fun _ => ?_) (fun _ => h'))
      exact grb_flows e3 h'
    | .lit c :: rest, hn =>
      subst hn
      simp only [tokens]
      exact cont rest _ _ _ (by simp) (rb_emit h' _)
    | .word w :: rest, hn =>
      subst hn
      have ev : ({ s with lastTok := idx } : Sess).visible = ({ t with lastTok := idx } : Sess).visible := by
        have := congrArg CState.flows e1
        simpa [Sess.toC] using this
      simp only [tokens]
      rw [← ev, ← e4]
      split
      · exact cont rest _ _ _ (by simp) (rb_emit h' _)
      · split
        · split
          · exact cont rest _ _ _ (by simp) (rb_openMeta h' hmd)
          · split
            · exact cont rest _ _ _ (by simp) (rb_nestedEnd h' hmd fuel)
            · split
              · split
                · rename_i name rest'
                  refine cont rest' _ _ _ (by simp only [List.length_cons]; omega) ?_
                  have h'' := rb_setTok h (idx + 1)
                  split
                  · exact rb_constDef h'' hmd name
                  · split
                    · rw [← e1]; exact rb_ofC h' _
                    · rw [← (h''.same hmd).1]; exact rb_ofC h'' _
                · exact ⟨rfl, .inl h'⟩
              · rw [← e1]; exact cont rest _ _ _ (by simp) (rb_ofC h' _)
        · rw [← e1]; exact cont rest _ _ _ (by simp) (rb_ofC h' _)

theorem rb_build1 {s t : Sess} (h : RB c' k s t) (hmd : c'.mode ≠ .metaEval) (fuel : Nat) (toks : List Tok) :
    GRB c' k (s.build1 fuel toks) (t.build1 fuel toks) := by
  unfold Sess.build1
  rw [← (h.same hmd).2.2.2.2.2.2.1]
  exact grb_bind (rb_metaRun h hmd fuel) (fun s1 t1 h1 => rb_tokens hmd fuel _ toks 0 s1 t1 h1)

/-- inversion -/
theorem RB.inv {s t : Sess} (h : RB c' k s t) :
    (s.nested.length = k ∧ s.m.ctx.mode ≠ .metaEval ∧ t = { s with m := { s.m with ctx := swp c' s.m.ctx } }) ∨
    (∃ pre E bot, s.nested = pre ++ E :: bot ∧ bot.length = k ∧ E.mode ≠ .metaEval ∧ t = { s with nested := pre ++ swp c' E :: bot }) := by
  cases h with
  | cur h1 h2 => exact .inl ⟨h1, h2, rfl⟩
  | nest pre E bot h1 h2 h3 => exact .inr ⟨pre, E, bot, h1, h2, h3, rfl⟩

/-- unwinding to a mark below the base context forgets the difference -/
theorem unwind_rb {mark s t : Sess} (h : RB c' k s t) (hk : mark.nested.length < k) : unwind mark s = unwind mark t := by
  cases h with
  | cur h1 h2 => rfl
  | nest pre E bot h1 h2 h3 =>
    simp only [Sess.unwind, h1]
    have e1 : (pre ++ E :: bot).length - mark.nested.length = (pre.length + 1) + (bot.length - mark.nested.length) := by
      simp only [List.length_append, List.length_cons]; omega
    have e2 : (pre ++ swp c' E :: bot).length - mark.nested.length = (pre.length + 1) + (bot.length - mark.nested.length) := by
      simp only [List.length_append, List.length_cons]; omega
    have d1 : (pre ++ E :: bot).drop ((pre.length + 1) + (bot.length - mark.nested.length)) = bot.drop (bot.length - mark.nested.length) := by
      rw [← List.drop_drop, show pre ++ E :: bot = (pre ++ [E]) ++ bot by simp, List.drop_left' (by simp)]
    have d2 : (pre ++ swp c' E :: bot).drop ((pre.length + 1) + (bot.length - mark.nested.length)) = bot.drop (bot.length - mark.nested.length) := by
      rw [← List.drop_drop, show pre ++ swp c' E :: bot = (pre ++ [swp c' E]) ++ bot by simp, List.drop_left' (by simp)]
    rw [e1, e2, d1, d2]

end Xeh.Session
