/-
C11 helper: a meta block opened in a context that is not itself a meta block, seen as a whole — from its
`#(` to the `#)` that closes it. Inside, the session stays an extension of the session at the `#(`
(Proofs/SessionUnwind.lean with the block's context as the base); when the block closes, everything is as it
was at the `#(`, except that the code has grown by one literal per result and the dictionary by constants.
-/
import XehModel.Proofs.SessionUnwind

set_option linter.unusedVariables false
set_option linter.unusedSimpArgs false

namespace Xeh.Session
open Xeh Xeh.Mach Xeh.Compile Sess

/-- opening a meta block from a context that is not a meta block -/
theorem ext_open_block {s0 : Sess} (i : Idle s0) (h0 : s0.m.ctx.mode ≠ .metaEval) :
    Ext .metaEval s0 (s0.contextOpen .metaEval) := by
  refine ⟨⟨by simp [Sess.contextOpen], by simp [Sess.contextOpen], Nat.le_refl _, ⟨[], rfl, by simp [hidOf, Sess.contextOpen]⟩,
      by simp [Sess.contextOpen], hidOf_all _, hidOf_all _, hidOf_all _, hidOf_all _, hidOf_all _,
      by simp only [Sess.contextOpen]; rw [hidOf_cons _ _ _ (Nat.le_refl _)]; exact hidOf_all _,
      fun h => h, fun ℓ h => ⟨[], by simpa [Sess.contextOpen] using h⟩, ⟨rfl, rfl, rfl⟩⟩, ?_, ⟨[], rfl, by intro f hf; cases hf⟩, ?_, Nat.le_refl _, i.dmap⟩
  · refine .base _ ⟨Nat.le_refl _, Nat.le_refl _, Nat.le_refl _, Nat.le_refl _, Nat.le_refl _, Nat.le_refl _, fun _ => ?_⟩ rfl
      ⟨rfl, rfl, rfl, rfl, rfl, rfl, rfl, fun _ => ?_⟩
    · simp only [Sess.contextOpen]; rw [if_neg h0]; exact Nat.le_refl _
    · simp only [Sess.contextOpen]; rw [if_neg h0]
  · simp only [Sess.contextOpen]
    refine ⟨?_, Nat.le_refl _, Nat.le_refl _, Nat.le_refl _⟩
    simp only; rw [if_neg h0]; exact Nat.le_refl _

/-- what `emitResults` does, exactly: it pops the values above `bound` and appends one literal per value -/
theorem emitResults_spec (f : Nat) : ∀ (s s' : Sess), emitResults f s = .ok s' → s.m.ds.length ≤ f + max s.m.ctx.dsOpen s.m.ctx.dsLen →
    s'.m.ds.length ≤ max s.m.ctx.dsOpen s.m.ctx.dsLen ∧ s'.m.ctx = s.m.ctx ∧ s'.nested = s.nested ∧ s'.flows = s.flows ∧
    s'.m.dict = s.m.dict ∧
    ∃ vs : List Cell, s'.m.code = s.m.code ++ vs.map Mach.loadValueOp ∧ vs.length + s'.m.ds.length = s.m.ds.length := by
  induction f with
  | zero =>
    intro s s' h hl
    simp only [emitResults] at h
    cases h
    exact ⟨by omega, rfl, rfl, rfl, rfl, [], by simp, by simp⟩
  | succ f ih =>
    intro s s' h hl
    simp only [emitResults] at h
    split at h
    · rename_i hgt
      split at h
      · rename_i v rest hd
        have hds : rest.length + 1 = s.m.ds.length := by rw [hd]; rfl
        obtain ⟨a, b, c, d, dd, vs, e1, e2⟩ := ih _ s' h (by simp only [Sess.emit]; omega)
        simp only [Sess.emit] at a b c d dd e1 e2
        exact ⟨a, b, c, d, dd, v :: vs, by rw [e1]; simp, by simp; omega⟩
      · rename_i hd
        exfalso
        rw [hd] at hgt
        simp at hgt
    · cases h
      exact ⟨by omega, rfl, rfl, rfl, rfl, [], by simp, by simp⟩

theorem eq_of_hidOf_le {l x : List α} {n : Nat} (h : hidOf l n = x) (hx : x.length = n) (hl : l.length ≤ n) : l = x := by
  have : l.length - n = 0 := by omega
  simpa [hidOf, this] using h

/-- **a meta block, closed**: for a block opened at `s0` (in a context that is not a meta block), from any state
    inside the block in which the block's own context is current and no control structure is open, closing it
    (`#)`) — if it succeeds — gives back the session of the `#(`: same context, same nesting, same pending flows,
    same data stack, every variable with its value, the return/loop/builder stacks that were there; the code is
    the code at the `#(` followed by one literal per result (the block's own code is gone), and nothing else. -/
theorem block_close_full {s0 s t : Sess} (fuel : Nat) (h0 : s0.m.ctx.mode ≠ .metaEval)
    (h : Ext .metaEval s0 s) (hbase : s.nested.length = s0.nested.length + 1) (hnp : s.hasPendingFlow = false)
    (hc : s.contextClose fuel = .ok t) :
    (t.m.ctx = s0.m.ctx ∧ t.nested = s0.nested ∧ t.flows = s0.flows ∧ t.m.ds = s0.m.ds ∧
    t.m.heap.take s0.m.heap.length = s0.m.heap ∧ hidOf t.m.rs s0.m.rs.length = s0.m.rs ∧
    hidOf t.m.loops s0.m.loops.length = s0.m.loops ∧ hidOf t.m.special s0.m.special.length = s0.m.special ∧
    (∃ vs : List Cell, t.m.code = s0.m.code ++ vs.map Mach.loadValueOp) ∧
    hidOf t.m.dict s0.m.dict.length = hidOf s.m.dict s0.m.dict.length) ∧ Ext0 s0 t := by
  obtain ⟨hm, hnest⟩ := h.chain.base_of_len hbase
  have hch := h.chain
  rw [hnest] at hch
  have bmk : BaseMarks s0 s.m.ctx := by
    cases hch with
    | base _ _ _ b => exact b
    | inner c _ rest hc' _ _ _ => have := hc'.nested.2; simp at this
  have hL := h.toL
  have hL1 : ExtL s0 { s with nested := s0.nested } :=
    extL_setNested hL s0.nested (by rw [hnest, hidOf_cons _ _ _ (Nat.le_refl _)])
  -- the block has nothing pending: the flow stack is the one of the `#(`
  have hflows : s.flows = s0.flows := by
    obtain ⟨nw, hf, _⟩ := h.flows
    have : ¬ (s.flows.length > s.m.ctx.fsLen) := by simpa [Sess.hasPendingFlow] using hnp
    rw [bmk.fs, hf] at this
    have hz : nw.length = 0 := by simp only [List.length_append] at this; omega
    have : nw = [] := List.eq_nil_of_length_eq_zero hz
    rw [hf, this]; rfl
  unfold Sess.contextClose at hc
  simp only [hnest, hm] at hc
  rcases runS_cases { s with nested := s0.nested } fuel with e | ⟨u, e⟩ | ⟨o, m', hr, hcase⟩
  · rw [e] at hc; cases hc
  · rw [e] at hc; cases hc
  · rcases hcase with e | ⟨er, e⟩ | ⟨p, e⟩
    · rw [e] at hc
      simp only at hc
      obtain ⟨hL2, hmk⟩ := extL_sealed hL1 hm m' (run_sealed nativeProg fuel s.m (o, m') h.wf hr)
      have sl := run_sealed nativeProg fuel s.m (o, m') h.wf hr
      have hm2 : m'.ctx.mode = .metaEval := by
        have := congrArg Ctx.mode hmk; simp only [Ctx.marks] at this; rw [this]; exact hm
      have hf : ∀ (f : Ctx → Nat), (∀ x : Ctx, f x = f x.marks) → f m'.ctx = f s.m.ctx := fun f hf => by rw [hf m'.ctx, hf s.m.ctx, hmk]
      have hL3 := extL_purge hL2
      have hcond : (s0.m.ctx.mode != Mode.metaEval || decide (s.flows.length > s0.m.ctx.fsLen)) = true := by
        have : (s0.m.ctx.mode != Mode.metaEval) = true := by simpa using h0
        simp [this]
      simp only [hcond, if_true] at hc
      -- what the emission did
      have hspec := emitResults_spec (m'.ds.length + 1)
        { m := { m' with code := m'.code.take m'.ctx.csLen, dict := purge m'.dict m'.ctx.diLen },
          dmap := s.dmap.take m'.ctx.csLen, flows := s.flows, nested := s0.nested, constUndo := s.constUndo, lastTok := s.lastTok }
      have hemit := extL_emitResults (m'.ds.length + 1) hL3 hm2
      revert hspec hemit hc
      generalize emitResults (m'.ds.length + 1) _ = r4
      intro hc hspec hemit
      cases r4 with
      | ok s4 =>
        simp only at hc
        cases hc
        obtain ⟨hlen, hctx4, hnest4, hfl4, hdict4, vs, hcode4, _⟩ := hspec s4 rfl (by simp; omega)
        obtain ⟨e4, _, _⟩ := hemit
        simp only at hlen hctx4 hnest4 hfl4 hdict4 hcode4
        have hdsO : m'.ctx.dsOpen = s0.m.ds.length := by rw [hf Ctx.dsOpen (fun _ => rfl)]; exact bmk.dsOpen
        have hdsL : m'.ctx.dsLen = s0.m.ds.length := by
          rw [hf Ctx.dsLen (fun _ => rfl)]; exact bmk.ds (by rw [hm]; exact fun e => h0 e.symm)
        have hcs : m'.ctx.csLen = s0.m.code.length := by rw [hf Ctx.csLen (fun _ => rfl)]; exact bmk.cs
        refine ⟨⟨rfl, hnest4, by rw [hfl4]; exact hflows, ?_, e4.ext0.heap, e4.ext0.rs, e4.ext0.loops, e4.ext0.special, ⟨vs, ?_⟩, ?_⟩,
          ⟨e4.ext0.code, e4.ext0.dmap, e4.ext0.dictLen, e4.ext0.undo, e4.ext0.heap, e4.ext0.ds, e4.ext0.rs, e4.ext0.loops,
            e4.ext0.special, e4.ext0.flows, e4.ext0.nested, e4.ext0.nolog, e4.ext0.log, e4.ext0.limits⟩⟩
        · exact eq_of_hidOf_le e4.ext0.ds rfl (by rw [hdsO, hdsL] at hlen; simpa using hlen)
        · show s4.m.code = _
          rw [hcode4, hcs, sl.codeMeta hm]
          exact congrArg (· ++ _) h.ext0.code
        · -- the part of the dictionary that existed at the `#(` is what it was just before the `#)`
          have hd3 := (purge_old m'.dict m'.ctx.diLen s0.m.dict.length (by rw [hf Ctx.diLen (fun _ => rfl)]; exact Nat.le_of_eq bmk.di.symm)
            (by rw [sl.dict]; exact h.ext0.dictLen)).1
          show hidOf s4.m.dict _ = _
          rw [hdict4, hd3, sl.dict]
      | err e s4 => simp only at hc; cases hc
      | panic p s4 => simp only at hc; cases hc
      | unsupported u => simp only at hc; cases hc
      | timeout => simp only at hc; cases hc
    · rw [e] at hc; cases hc
    · rw [e] at hc; cases hc

theorem block_close {s0 s t : Sess} (fuel : Nat) (h0 : s0.m.ctx.mode ≠ .metaEval)
    (h : Ext .metaEval s0 s) (hbase : s.nested.length = s0.nested.length + 1) (hnp : s.hasPendingFlow = false)
    (hc : s.contextClose fuel = .ok t) :
    t.m.ctx = s0.m.ctx ∧ t.nested = s0.nested ∧ t.flows = s0.flows ∧ t.m.ds = s0.m.ds ∧
    t.m.heap.take s0.m.heap.length = s0.m.heap ∧ hidOf t.m.rs s0.m.rs.length = s0.m.rs ∧
    hidOf t.m.loops s0.m.loops.length = s0.m.loops ∧ hidOf t.m.special s0.m.special.length = s0.m.special ∧
    (∃ vs : List Cell, t.m.code = s0.m.code ++ vs.map Mach.loadValueOp) ∧
    hidOf t.m.dict s0.m.dict.length = hidOf s.m.dict s0.m.dict.length :=
  (block_close_full fuel h0 h hbase hnp hc).1

end Xeh.Session
