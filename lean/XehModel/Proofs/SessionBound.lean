/-
C14 at the level of whole sources, stack and heap limits: whatever a source does — compile (and allocate variables),
run meta blocks while it is read, be rejected and unwound, run, fail — the limits are untouched, the data stack holds at
most `max S (cells before)` cells and the heap at most `max H (cells before)`.  No well-formedness hypothesis.
-/
import XehModel.Model.Session
import XehModel.Proofs.VMBound
import XehModel.Proofs.CompileHeap

namespace Xeh.Session
open Xeh Xeh.Mach Xeh.Compile Xeh.Session.Sess

/-- relative to the machine `a` a source was submitted to -/
def SB (a m : Mach) : Prop :=
  m.stackLimit = a.stackLimit ∧ m.heapLimit = a.heapLimit ∧
  (∀ S, a.stackLimit = some S → m.ds.length ≤ max S a.ds.length) ∧
  (∀ H, a.heapLimit = some H → m.heap.length ≤ max H a.heap.length)

theorem SB.refl (a : Mach) : SB a a := ⟨rfl, rfl, fun _ _ => by omega, fun _ _ => by omega⟩

theorem SB.trans {a b c : Mach} (h1 : SB a b) (h2 : SB b c) : SB a c :=
  ⟨h2.1.trans h1.1, h2.2.1.trans h1.2.1,
    fun S hS => by
      have x := h1.2.2.1 S hS
      have y := h2.2.2.1 S (by rw [h1.1]; exact hS)
      omega,
    fun H hH => by
      have x := h1.2.2.2 H hH
      have y := h2.2.2.2 H (by rw [h1.2.1]; exact hH)
      omega⟩

theorem SB.ofBnd {a b : Mach} (h : Bnd a b) : SB a b :=
  ⟨h.1, h.2.1, h.2.2.2.1, fun H _ => by rw [h.2.2.1]; omega⟩

/-- a machine that differs from `b` in none of the four things -/
theorem SB.same {a b c : Mach} (h : SB a b) (e1 : c.stackLimit = b.stackLimit) (e2 : c.heapLimit = b.heapLimit)
    (e3 : c.ds.length ≤ b.ds.length) (e4 : c.heap.length ≤ b.heap.length) : SB a c :=
  ⟨e1.trans h.1, e2.trans h.2.1, fun S hS => by have := h.2.2.1 S hS; omega, fun H hH => by have := h.2.2.2 H hH; omega⟩

/-- what a step of the session may return, relative to the machine it started from -/
def BOKS (a : Mach) : SRes → Prop
  | .ok s => SB a s.m
  | .err _ s => SB a s.m
  | .panic _ s => SB a s.m
  | _ => True

theorem boks_bind (a : Mach) (r : SRes) (k : Sess → SRes) : BOKS a r → (∀ s, SB a s.m → BOKS a (k s)) →
    BOKS a (match r with
      | .ok s => k s
      | r => r) := by
  intro h hk
  cases r with
  | ok s => exact hk s h
  | err e s => exact h
  | panic p s => exact h
  | unsupported u => trivial
  | timeout => trivial

theorem boks_mono {a b : Mach} (hab : SB a b) {r : SRes} (h : BOKS b r) : BOKS a r := by
  cases r with
  | ok s => exact hab.trans h
  | err e s => exact hab.trans h
  | panic p s => exact hab.trans h
  | unsupported u => trivial
  | timeout => trivial

theorem boks_runS (s : Sess) (fuel : Nat) : BOKS s.m (s.runS fuel) := by
  unfold Sess.runS
  split
  · trivial
  · rename_i o m' h; exact SB.ofBnd (run_bnd nativeProg fuel s.m _ h)
  · rename_i e m' h
    split
    · trivial
    · exact SB.ofBnd (run_bnd nativeProg fuel s.m _ h)
  · rename_i p m' h
    split
    · trivial
    · exact SB.ofBnd (run_bnd nativeProg fuel s.m _ h)

theorem boks_emitResults : ∀ (f : Nat) (s : Sess), BOKS s.m (Sess.emitResults f s)
  | 0, s => SB.refl _
  | f + 1, s => by
    simp only [Sess.emitResults]
    split
    · split
      · rename_i v rest hd
        have k1 : SB s.m (({ s with m := { s.m with ds := rest } } : Sess).emit (Mach.loadValueOp v)).m :=
          SB.same (SB.refl _) rfl rfl (by show rest.length ≤ s.m.ds.length; rw [hd]; simp) (Nat.le_refl _)
        exact boks_mono k1 (boks_emitResults f _)
      · exact SB.refl _
    · exact SB.refl _

theorem boks_contextClose (fuel : Nat) (s : Sess) : BOKS s.m (s.contextClose fuel) := by
  unfold Sess.contextClose
  split
  · exact SB.refl _
  · rename_i prev rest hn
    dsimp only
    split
    · refine boks_bind s.m _ _ (boks_runS ({ s with nested := rest }) fuel) (fun s1 h1 => ?_)
      exact h1
    · refine boks_bind s.m _ _ (boks_runS ({ s with nested := rest }) fuel) (fun s1 h1 => ?_)
      refine boks_bind s.m _ _ ?_ (fun s2 h2 => h2)
      split
      · have key : ∀ (n : Nat) (sx : Sess), SB s1.m sx.m → BOKS s.m (emitResults n sx) := fun n sx e1 =>
          boks_mono (h1.trans e1) (boks_emitResults n sx)
        exact key _ _ (SB.same (SB.refl _) rfl rfl (Nat.le_refl _) (Nat.le_refl _))
      · exact h1
    · exact SB.refl _

theorem boks_nestedEnd (fuel : Nat) (s : Sess) : BOKS s.m (s.nestedEnd fuel) := by
  unfold Sess.nestedEnd
  split
  · exact SB.refl _
  · split
    · split <;> exact SB.refl _
    · exact boks_contextClose fuel s

theorem boks_constDef (s : Sess) (name : String) : BOKS s.m (s.constDef name) := by
  unfold Sess.constDef
  split
  · exact SB.refl _
  · have k1 := SB.ofBnd (popData_bnd s.m)
    split
    · rename_i v m1 h
      rw [h] at k1
      simp only
      split
      · split
        · exact k1
        · exact k1
      · exact k1
    · rename_i e m1 h; rw [h] at k1; exact k1
    · rename_i e m1 h; rw [h] at k1; exact k1

theorem boks_metaRun (fuel : Nat) (s : Sess) : BOKS s.m (s.metaRun fuel) := by
  unfold Sess.metaRun
  split
  · exact boks_runS s fuel
  · exact SB.refl _

theorem boks_andRun (a : Mach) (fuel : Nat) (r : SRes) (h : BOKS a r) : BOKS a (andRun fuel r) := by
  cases r with
  | ok s => exact boks_mono h (boks_metaRun fuel s)
  | err e s => exact h
  | panic p s => exact h
  | unsupported u => trivial
  | timeout => trivial

/-- writing a compile result back: the heap grows to the compiler's count, which respects the limit -/
theorem sb_fromC (s : Sess) (c : CState) (h : HL s.toC c) : SB s.m (s.fromC c).m := by
  obtain ⟨h1, h2, h3, _, _⟩ := h
  refine ⟨rfl, rfl, fun S _ => by show s.m.ds.length ≤ _; omega, fun H hH => ?_⟩
  have := h3 H hH
  simp only [Sess.toC] at this h2
  simp only [Sess.fromC, List.length_append, List.length_replicate]
  omega

theorem boks_ofC (s : Sess) (r : CRes CState) (h : HR s.toC r) : BOKS s.m (s.ofC r) := by
  cases r with
  | ok c => exact sb_fromC s c h
  | err e c => exact sb_fromC s c h
  | unsupported u => trivial

/-- the token loop -/
theorem boks_tokens (fuel depth : Nat) (toks : List Tok) : ∀ (idx : Nat) (s : Sess), BOKS s.m (tokens fuel depth toks idx s) := by
  induction hn : toks.length using Nat.strongRecOn generalizing toks with
  | _ n ih =>
    intro idx s
    have cont : ∀ (rest : List Tok) (i : Nat) (r : SRes), rest.length < n → BOKS s.m r →
        BOKS s.m (match andRun fuel r with
          | .ok s => tokens fuel depth rest i s
          | r => r) := by
      intro rest i r hl hr
      exact boks_bind s.m _ _ (boks_andRun s.m fuel r hr) (fun s1 h1 => boks_mono h1 (ih rest.length hl rest rfl i s1))
    match toks, hn with
    | [], _ =>
      simp only [tokens]
      split
      · exact SB.refl _
      · split
        · split <;> exact SB.refl _
        · exact SB.refl _
    | .lit c :: rest, hn =>
      subst hn
      simp only [tokens]
      exact cont rest _ _ (by simp) (SB.refl _)
    | .word w :: rest, hn =>
      subst hn
      simp only [tokens]
      split
      · exact cont rest _ _ (by simp) (SB.refl _)
      · split
        · split
          · exact cont rest _ _ (by simp) (SB.refl _)
          · split
            · exact cont rest _ _ (by simp) (boks_nestedEnd fuel _)
            · split
              · split
                · rename_i name rest'
                  refine cont rest' _ _ (by simp only [List.length_cons]; omega) ?_
                  split
                  · exact boks_constDef _ name
                  · split
                    · exact boks_ofC _ _ (late_hr _ _ _)
                    · exact boks_ofC _ _ (withName_hr _ _ _)
                · exact SB.refl _
              · exact cont rest _ _ (by simp) (boks_ofC _ _ (immediate_hr _ _))
        · exact cont rest _ _ (by simp) (boks_ofC _ _ (buildWord_hr _ _))

theorem boks_build1 (fuel : Nat) (toks : List Tok) (s : Sess) : BOKS s.m (s.build1 fuel toks) := by
  unfold Sess.build1
  exact boks_bind s.m _ _ (boks_metaRun fuel s) (fun s1 h1 => boks_mono h1 (boks_tokens fuel _ toks 0 s1))

theorem sb_unwind (mark s : Sess) : SB s.m (Sess.unwind mark s).m :=
  ⟨rfl, rfl, fun S _ => by simp only [Sess.unwind, List.length_drop]; omega,
    fun H _ => by simp only [Sess.unwind, List.length_take]; omega⟩

/-- what `build_from_source` answers, relative to the machine it was given -/
def BOKB (a : Mach) : BRes → Prop
  | .done s => SB a s.m
  | .rejected _ s => SB a s.m
  | .failed _ s => SB a s.m
  | .panic _ s => SB a s.m
  | _ => True

/-- **one source**: built and run, rejected and unwound, or failed at run time -/
theorem buildSource_bound (fuel : Nat) (mode : Mode) (toks : List Tok) (s : Sess) :
    BOKB s.m (s.buildSource fuel mode toks) := by
  unfold Sess.buildSource
  simp only
  have h1 := boks_build1 fuel toks (s.contextOpen mode)
  have e0 : SB s.m (s.contextOpen mode).m := SB.same (SB.refl _) rfl rfl (Nat.le_refl _) (Nat.le_refl _)
  revert h1
  cases (s.contextOpen mode).build1 fuel toks with
  | err e s2 => intro h1; exact (e0.trans h1).trans (sb_unwind s s2)
  | panic p s2 => intro h1; exact e0.trans h1
  | unsupported u => intro _; trivial
  | timeout => intro _; trivial
  | ok s2 =>
    intro h1
    have h1' : SB s.m s2.m := e0.trans h1
    simp only
    have h2 := boks_contextClose fuel { s2 with constUndo := s2.constUndo.drop (s2.constUndo.length - s.constUndo.length), m := forgetBuildLog s.m s2.m }
    have h1' : SB s.m (forgetBuildLog s.m s2.m) := SB.same h1' rfl rfl (Nat.le_refl _) (Nat.le_refl _)
    revert h2
    cases Sess.contextClose fuel { s2 with constUndo := s2.constUndo.drop (s2.constUndo.length - s.constUndo.length), m := forgetBuildLog s.m s2.m } with
    | ok s3 => intro h2; exact h1'.trans h2
    | err e s3 => intro h2; exact h1'.trans h2
    | panic p s3 => intro h2; exact h1'.trans h2
    | unsupported u => intro _; trivial
    | timeout => intro _; trivial

end Xeh.Session
