/-
Outside meta blocks the session's token loop IS the flow-stack compiler: reading a token list that the compiler
accepts (so: without `#(`, `#)`, `const`, which the compiler on its own answers `unsupported`) leaves the session with
exactly the compiler's result written back (`tokens_is_compileToks`).  This carries C01's theorems about
`compileToks` to `build_from_source`, the entry point behind `eval` and `compile`.
-/
import XehModel.Model.Session
import XehModel.Proofs.CompileHeap
import XehModel.Proofs.SessionInline

namespace Xeh.Session
open Xeh Xeh.Mach Xeh.Compile Xeh.Session.Sess

/-- the compiler state `c` can be written back into `s` and read out again -/
structure Sync (s : Sess) (c : CState) : Prop where
  fs : s.m.ctx.fsLen ≤ s.flows.length
  heapLen : s.m.heap.length ≤ c.heapLen
  heapLimit : c.heapLimit = s.m.heapLimit
  hidden : c.hiddenFlows = s.m.ctx.fsLen
  inMeta : c.inMeta = (s.m.ctx.mode == .metaEval)

theorem hidden_length {s : Sess} (h : s.m.ctx.fsLen ≤ s.flows.length) : s.hidden.length = s.m.ctx.fsLen := by
  simp only [Sess.hidden, Sess.visLen, List.length_drop]; omega

theorem sync_toC (s : Sess) (h : s.m.ctx.fsLen ≤ s.flows.length) : Sync s s.toC :=
  ⟨h, Nat.le_refl _, rfl, by simp only [Sess.toC, Sess.visLen]; omega, rfl⟩

/-- read out what was written back -/
theorem toC_fromC (s : Sess) (c : CState) (h : Sync s c) : (s.fromC c).toC = c := by
  obtain ⟨h1, h2, h3, h4, h5⟩ := h
  have hl := hidden_length h1
  cases c
  simp only at h2 h3 h4 h5
  simp only [Sess.toC, Sess.fromC, Sess.visible, Sess.visLen, CState.mk.injEq, List.length_append, List.length_replicate, true_and]
  refine ⟨?_, by omega, h3.symm, ?_, h5.symm⟩
  · rw [hl]; simp
  · rw [hl]; omega

/-- write back twice = write back the later state -/
theorem fromC_fromC (s : Sess) (c c' : CState) (h : Sync s c) (hle : c.heapLen ≤ c'.heapLen) :
    (s.fromC c).fromC c' = s.fromC c' := by
  obtain ⟨h1, h2, _, _, _⟩ := h
  have hl := hidden_length h1
  have hh : (s.fromC c).hidden = s.hidden := by
    have e1 : (s.fromC c).flows = c.flows ++ s.hidden := rfl
    have e2 : (s.fromC c).m.ctx.fsLen = s.m.ctx.fsLen := rfl
    unfold Sess.hidden Sess.visLen
    rw [e1, e2, List.length_append]
    have e3 : s.hidden = List.drop (s.flows.length - s.m.ctx.fsLen) s.flows := rfl
    rw [hl, show c.flows.length + s.m.ctx.fsLen - s.m.ctx.fsLen = c.flows.length by omega, List.drop_left, e3]
  have e4 : ∀ (x : Sess) (y : CState), x.fromC y = { x with m := { x.m with code := y.code, dict := y.dict, heap := x.m.heap ++ List.replicate (y.heapLen - x.m.heap.length) Cell.nil }, dmap := y.dmap, flows := y.flows ++ x.hidden, lastTok := y.lastTok } := fun _ _ => rfl
  rw [e4 (s.fromC c) c', hh, e4 s c', e4 s c]
  simp only [List.length_append, List.length_replicate, List.append_assoc, List.replicate_append_replicate]
  have : c.heapLen - s.m.heap.length + (c'.heapLen - (s.m.heap.length + (c.heapLen - s.m.heap.length))) = c'.heapLen - s.m.heap.length := by omega
  rw [this]

theorem sync_fromC {s : Sess} {c c' : CState} (h : Sync s c) (hl : HL c c') : Sync (s.fromC c) c' := by
  obtain ⟨h1, h2, h3, h4, h5⟩ := h
  obtain ⟨g1, g2, _, g4, g5⟩ := hl
  refine ⟨?_, ?_, g1.trans h3, g4.trans h4, g5.trans h5⟩
  · simp only [Sess.fromC, List.length_append, hidden_length h1]; omega
  · simp only [Sess.fromC, List.length_append, List.length_replicate]; omega

theorem metaRun_noop (s : Sess) (fuel : Nat) (h : s.m.ctx.mode ≠ .metaEval) : s.metaRun fuel = .ok s := by
  unfold Sess.metaRun
  have : (s.m.ctx.mode == Mode.metaEval) = false := by cases hm : s.m.ctx.mode <;> simp_all
  simp [this]

/-- one compiling word, through the session: the session afterwards is the compiler's result written back -/
theorem ofC_ok (s : Sess) (c c1 : CState) (fuel : Nat) (hs : Sync s c) (hm : s.m.ctx.mode ≠ .metaEval) (hl : HL c c1) :
    andRun fuel ((s.fromC c).ofC (.ok c1)) = .ok (s.fromC c1) := by
  simp only [Sess.ofC, andRun]
  rw [fromC_fromC s c c1 hs hl.2.1]
  exact metaRun_noop _ fuel hm

/-- go on with the token loop after an answer -/
def thenTokens (fuel depth : Nat) (rest : List Tok) (i : Nat) : SRes → SRes
  | .ok s1 => tokens fuel depth rest i s1
  | r => r

theorem tokens_step' (fuel depth : Nat) (t : Tok) (rest : List Tok) (idx : Nat) (s : Sess) :
    tokens fuel depth (t :: rest) idx s =
      thenTokens fuel depth (step1 fuel t rest idx s).2.1 (step1 fuel t rest idx s).2.2 (step1 fuel t rest idx s).1 := by
  rw [tokens_step]
  rcases step1 fuel t rest idx s with ⟨r, rest', i'⟩
  cases r <;> rfl

/-- **outside meta blocks the token loop is the compiler**: from a session in sync with the compiler state `c`, if the
    flow-stack compiler accepts the tokens and ends in `c'`, the token loop ends where it would end on the empty token
    list from the session with `c'` written back -/
theorem tokens_is_compileToks (fuel depth : Nat) (s : Sess) (hm : s.m.ctx.mode ≠ .metaEval) (toks : List Tok) :
    ∀ (idx : Nat) (c c' : CState), Sync s c → compileToks toks idx c = .ok c' →
      tokens fuel depth toks idx (s.fromC c) = tokens fuel depth [] (idx + toks.length) (s.fromC c') ∧ HL c c' := by
  induction hn : toks.length using Nat.strongRecOn generalizing toks with
  | _ n ih =>
    intro idx c c' hs hc
    have hrt := toC_fromC s c hs
    have hmc : (s.fromC c).m.ctx.mode ≠ .metaEval := hm
    -- what one step does on both sides, given the compiler's answer to the step
    have step : ∀ (rest : List Tok) (i : Nat) (c1 : CState), rest.length < n → HL c c1 → compileToks rest i c1 = .ok c' →
        thenTokens fuel depth rest i (andRun fuel (.ok (s.fromC c1))) = tokens fuel depth [] (i + rest.length) (s.fromC c') ∧ HL c c' := by
      intro rest i c1 hlen hl1 hc1
      have hs1 : Sync s c1 := ⟨hs.fs, Nat.le_trans hs.heapLen hl1.2.1, hl1.1.trans hs.heapLimit, hl1.2.2.2.1.trans hs.hidden,
        hl1.2.2.2.2.trans hs.inMeta⟩
      have hmr : andRun fuel (.ok (s.fromC c1)) = .ok (s.fromC c1) := metaRun_noop _ fuel hm
      rw [hmr]
      show tokens fuel depth rest i (s.fromC c1) = _ ∧ _
      obtain ⟨e, hl2⟩ := ih rest.length hlen rest rfl i c1 c' hs1 hc1
      exact ⟨e, hl1.trans hl2⟩
    -- a compiling word answered through `ofC`
    have viaC : ∀ (sx : Sess) (r : CRes CState) (rest : List Tok) (i : Nat), sx.fromC = (s.fromC c).fromC → rest.length < n →
        HR c r → (match r with
          | .ok s' => compileToks rest i s'
          | .err e sp => .err e sp
          | .unsupported u => .unsupported u) = .ok c' →
        thenTokens fuel depth rest i (andRun fuel (sx.ofC r)) = tokens fuel depth [] (i + rest.length) (s.fromC c') ∧ HL c c' := by
      intro sx r rest i hsx hlen hr hcr
      cases r with
      | ok c1 =>
        simp only at hcr
        simp only [Sess.ofC, hsx]
        rw [fromC_fromC s c c1 hs hr.2.1]
        exact step rest i c1 hlen hr hcr
      | err e sp => cases hcr
      | unsupported u => cases hcr
    match toks, hn with
    | [], hn =>
      subst hn
      simp only [compileToks] at hc
      split at hc
      · cases hc; exact ⟨rfl, HL.refl _⟩
      · cases hc
    | .lit v :: rest, hn =>
      subst hn
      simp only [compileToks] at hc
      have e1 : (({ (s.fromC c) with lastTok := idx } : Sess).emit (Mach.loadValueOp v)) =
          s.fromC (({ c with lastTok := idx } : CState).emit (Compile.loadValueOp v)) := by
        simp [Sess.fromC, Sess.emit, CState.emit, Compile.loadValueOp, Sess.hidden, Sess.visLen]
      have hl1 : HL c (({ c with lastTok := idx } : CState).emit (Compile.loadValueOp v)) := hl_same4 same4_of
      have := step rest (idx + 1) _ (by simp) hl1 hc
      rw [tokens_step']
      simp only [step1, List.length_cons]
      rw [show idx + (rest.length + 1) = idx + 1 + rest.length by omega, e1]
      exact this
    | .word w :: rest, hn =>
      subst hn
      have hv : ({ (s.fromC c) with lastTok := idx } : Sess).visible = c.flows := by
        have := congrArg CState.flows hrt
        simpa [Sess.toC, Sess.visible, Sess.visLen] using this
      have htc : ∀ k, ({ (s.fromC c) with lastTok := k } : Sess).toC = { c with lastTok := k } := by
        intro k
        have : ({ (s.fromC c) with lastTok := k } : Sess).toC = { (s.fromC c).toC with lastTok := k } := rfl
        rw [this, hrt]
      have hfc : ∀ k, ({ (s.fromC c) with lastTok := k } : Sess).fromC = (s.fromC c).fromC := by
        intro k; funext y; rfl
      have hd : (s.fromC c).m.dict = c.dict := rfl
      rw [tokens_step']
      simp only [compileToks] at hc
      simp only [step1, hv, List.length_cons, htc, hd]
      cases hloc : (CState.topFun c.flows).bind fun ff => CState.rposition w ff.locals with
      | some i =>
        rw [hloc] at hc
        simp only at hc ⊢
        have e1 : (({ (s.fromC c) with lastTok := idx } : Sess).emit (.loadLocal i)) =
            s.fromC (({ c with lastTok := idx } : CState).emit (.loadLocal i)) := by
          simp [Sess.fromC, Sess.emit, CState.emit, Sess.hidden, Sess.visLen]
        rw [show idx + (rest.length + 1) = idx + 1 + rest.length by omega, e1]
        exact step rest (idx + 1) _ (by simp) (hl_same4 same4_of) hc
      | none =>
        rw [hloc] at hc
        simp only at hc ⊢
        have hci : HL c ({ c with lastTok := idx } : CState) := hl_same4 same4_of
        have hci1 : HL c ({ c with lastTok := idx + 1 } : CState) := hl_same4 same4_of
        -- the ordinary-word path, shared by several dictionary cases
        have ordinary : (match buildWord { c with lastTok := idx } w with
              | .ok s' => compileToks rest (idx + 1) s'
              | .err e sp => .err e sp
              | .unsupported u => .unsupported u) = .ok c' →
            thenTokens fuel depth rest (idx + 1)
              (andRun fuel (({ (s.fromC c) with lastTok := idx } : Sess).ofC (buildWord { c with lastTok := idx } w))) =
              tokens fuel depth [] (idx + (rest.length + 1)) (s.fromC c') ∧ HL c c' := by
          intro hcw
          rw [show idx + (rest.length + 1) = idx + 1 + rest.length by omega]
          exact viaC _ _ rest (idx + 1) (hfc idx) (by simp) (hr_mono hci (buildWord_hr _ w)) hcw
        cases hlk : List.lookup w c.dict with
        | none => rw [hlk] at hc; simp only at hc ⊢; exact ordinary hc
        | some en =>
          rw [hlk] at hc
          cases en with
          | const v => simp only at hc ⊢; exact ordinary hc
          | var a => simp only at hc ⊢; exact ordinary hc
          | interp im a => simp only at hc ⊢; exact ordinary hc
          | native im n =>
            cases im with
            | false => simp only at hc ⊢; exact ordinary hc
            | true =>
              simp only at hc ⊢
              by_cases h1 : (n == "#(") = true
              · have : n = "#(" := by simpa using h1
                subst this
                simp only [show takesName "#(" = false by decide, Bool.false_eq_true, if_false] at hc
                have : immediate ({ c with lastTok := idx } : CState) "#(" = .unsupported "#(" := rfl
                rw [this] at hc; cases hc
              · simp only [h1, Bool.false_eq_true, if_false, ↓reduceIte]
                by_cases h2 : (n == "#)") = true
                · have : n = "#)" := by simpa using h2
                  subst this
                  simp only [show takesName "#)" = false by decide, Bool.false_eq_true, if_false] at hc
                  have : immediate ({ c with lastTok := idx } : CState) "#)" = .unsupported "#)" := rfl
                  rw [this] at hc; cases hc
                · simp only [h2, Bool.false_eq_true, if_false, ↓reduceIte]
                  by_cases h3 : (n == "const") = true
                  · have : n = "const" := by simpa using h3
                    subst this
                    simp only [show takesName "const" = false by decide, Bool.false_eq_true, if_false] at hc
                    have : immediate ({ c with lastTok := idx } : CState) "const" = .unsupported "const" := rfl
                    rw [this] at hc; cases hc
                  · by_cases h4 : takesName n = true
                    · simp only [h4, if_true] at hc
                      simp only [h3, h4, Bool.false_or, if_true, ↓reduceIte]
                      cases rest with
                      | nil => simp only at hc; split at hc <;> cases hc
                      | cons r1 rest' =>
                        cases r1 with
                        | lit v => simp only at hc; split at hc <;> cases hc
                        | word name =>
                          simp only at hc ⊢
                          simp only [h3, Bool.false_eq_true, if_false, ↓reduceIte, List.length_cons, htc]
                          rw [show idx + (rest'.length + 1 + 1) = idx + 2 + rest'.length by omega]
                          by_cases h5 : (n == "late") = true
                          · simp only [h5, if_true, ↓reduceIte] at hc ⊢
                            exact viaC _ _ rest' (idx + 2) (hfc idx) (by simp only [List.length_cons]; omega) (hr_mono hci (late_hr _ _ _)) hc
                          · simp only [h5, Bool.false_eq_true, if_false, ↓reduceIte] at hc ⊢
                            exact viaC _ _ rest' (idx + 2) (hfc (idx + 1)) (by simp only [List.length_cons]; omega) (hr_mono hci1 (withName_hr _ _ _)) hc
                    · have h4' : takesName n = false := by simpa using h4
                      simp only [h4', Bool.false_eq_true, if_false] at hc
                      simp only [h3, h4', Bool.or_self, Bool.false_eq_true, if_false, ↓reduceIte]
                      rw [show idx + (rest.length + 1) = idx + 1 + rest.length by omega]
                      exact viaC _ _ rest (idx + 1) (hfc idx) (by simp) (hr_mono hci (immediate_hr _ _)) hc

/-- the compiler overwrites the last-token marker before it reads it -/
theorem compileToks_tok (x : Tok) (rest : List Tok) (idx l : Nat) (c : CState) :
    compileToks (x :: rest) idx { c with lastTok := l } = compileToks (x :: rest) idx c := by
  cases x <;> simp only [compileToks]

theorem fromC_toC (s : Sess) (h : s.m.ctx.fsLen ≤ s.flows.length) : s.fromC s.toC = s := by
  obtain ⟨⟨mc, mh, md, mr, ml, msp, mctx, mmt, mil, msl, mhl, mlg, mo, mst, mdi⟩, d, f, n, cu, l⟩ := s
  simp [Sess.fromC, Sess.toC, Sess.visible, Sess.hidden, Sess.visLen]

/-- a fresh session — no code yet, nothing pending, no heap limit — reads a source the compiler accepts: the result is
    the compiler's result written back -/
theorem build1_fresh (fuel : Nat) (mode : Mode) (hmode : mode ≠ .metaEval) (toks : List Tok) (s : Sess) (c' : CState)
    (hcode : s.m.code = []) (hdmap : s.dmap = []) (hflows : s.flows = []) (hlim : s.m.heapLimit = none)
    (hc : compileToks toks 0 { dict := s.m.dict, heapLen := s.m.heap.length } = .ok c') (hfl : c'.flows = []) :
    (s.contextOpen mode).build1 fuel toks = .ok { ((s.contextOpen mode).fromC c') with lastTok := toks.length } := by
  have hm : (s.contextOpen mode).m.ctx.mode ≠ .metaEval := by simpa [Sess.contextOpen] using hmode
  have hfs : (s.contextOpen mode).m.ctx.fsLen ≤ (s.contextOpen mode).flows.length := by simp [Sess.contextOpen]
  have htc : (s.contextOpen mode).toC = { ({ dict := s.m.dict, heapLen := s.m.heap.length } : CState) with lastTok := s.lastTok } := by
    simp only [Sess.toC, Sess.contextOpen, Sess.visible, Sess.visLen, hcode, hdmap, hflows, hlim, CState.mk.injEq]
    cases mode <;> simp_all
  cases toks with
  | nil =>
    simp only [compileToks] at hc
    cases hc
    unfold Sess.build1
    rw [metaRun_noop _ fuel hm]
    simp only [tokens, Sess.hasPendingFlow, Sess.contextOpen, hflows, List.length_nil, Sess.fromC, Sess.hidden, Sess.visLen, hcode, hdmap]
    simp
  | cons x rest =>
    have hc2 : compileToks (x :: rest) 0 (s.contextOpen mode).toC = .ok c' := by rw [htc, compileToks_tok]; exact hc
    obtain ⟨e, _⟩ := tokens_is_compileToks fuel (s.contextOpen mode).nested.length (s.contextOpen mode) hm (x :: rest) 0 _ c'
      (sync_toC _ hfs) hc2
    rw [fromC_toC _ hfs] at e
    unfold Sess.build1
    rw [metaRun_noop _ fuel hm]
    simp only
    rw [e]
    simp only [tokens, Nat.zero_add]
    have h1 : ((((s.contextOpen mode).fromC c').nested.length != (s.contextOpen mode).nested.length)) = false := by
      simp [Sess.fromC]
    have h2 : ({ ((s.contextOpen mode).fromC c') with lastTok := (x :: rest).length } : Sess).hasPendingFlow = false := by
      simp [Sess.hasPendingFlow, Sess.fromC, Sess.hidden, Sess.visLen, Sess.contextOpen, hflows, hfl]
    simp only [h1, h2, Bool.false_eq_true, if_false]

end Xeh.Session
