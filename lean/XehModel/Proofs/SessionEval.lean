/-
`eval src` is `compile src` followed by `run`.

Reading the source is the same in both modes (Proofs/SessionBase.lean: the base context is never looked at while the
source is read, and comes back unchanged — `base_kept`).  What differs is who runs the new code: `eval`'s own context,
opened at the current stack heights, or — after `compile` has closed its context — the interpreter's resting context.
For an interpreter at rest the two agree on everything the VM reads (Proofs/VMCtx.lean), and the VM leaves the rest of
a context alone (`run_sealed`).
-/
import XehModel.Proofs.SessionBase
import XehModel.Proofs.SessionUnwind
import XehModel.Proofs.VMCtx

namespace Xeh.Session
open Xeh Xeh.Mach Xeh.Compile Xeh.Session.Sess

/-- an interpreter between sources: in eval mode, nothing of a program in flight on the return / loop / builder stacks,
    the instruction pointer at the end of the code -/
structure AtRest (s : Sess) : Prop where
  mode : s.m.ctx.mode = .eval
  rs : s.m.rs.length = s.m.ctx.rsLen
  ls : s.m.loops.length = s.m.ctx.lsLen
  ss : s.m.special.length = s.m.ctx.ssPtr
  ip : s.m.ctx.ip = s.m.code.length

/-- `compile`, then `run` -/
def compileThenRun (fuel : Nat) (toks : List Tok) (s : Sess) : BRes :=
  match s.buildSource fuel .compile toks with
  | .done s1 =>
    match s1.runS fuel with
    | .ok s2 => .done s2
    | .err e s2 => .failed e s2
    | .panic p s2 => .panic p s2
    | .unsupported u => .unsupported u
    | .timeout => .timeout
  | r => r

/-- the same session up to the bookkeeping fields of the current context -/
def SameC (x y : Sess) : Prop := ({ x with m := normC x.m } : Sess) = { y with m := normC y.m }

/-- the two answers agree -/
def EvalR : BRes → BRes → Prop
  | .done x, .done y => x = y
  | .rejected e x, .rejected e' y => e = e' ∧ x = y
  | .failed e x, .failed e' y => e = e' ∧ SameC x y
  | .panic p _, .panic p' _ => p = p'
  | .unsupported u, .unsupported u' => u = u'
  | .timeout, .timeout => True
  | _, _ => False

/-- reading a source gives the base context back as it was (all of it but `fsLen`, which the reader looks at) -/
theorem base_kept {s s2 : Sess} (hmode : s.m.ctx.mode ≠ .metaEval) (fuel : Nat) (toks : List Tok)
    (h : s.build1 fuel toks = .ok s2) (hlen : s2.nested.length = s.nested.length) : s2.m.ctx = swp s.m.ctx s2.m.ctx := by
  have h0 : RB s.m.ctx s.nested.length s { s with m := { s.m with ctx := swp s.m.ctx s.m.ctx } } := RB.cur s rfl hmode
  have e0 : ({ s with m := { s.m with ctx := swp s.m.ctx s.m.ctx } } : Sess) = s := rfl
  rw [e0] at h0
  have hb := rb_build1 h0 hmode fuel toks
  rw [h] at hb
  rcases RB.inv hb with ⟨_, _, e⟩ | ⟨pre, E, bot, h1, h2, _, _⟩
  · have := congrArg (fun x : Sess => x.m.ctx) e
    exact this
  · rw [h1] at hlen
    simp only [List.length_append, List.length_cons] at hlen
    omega

/-- the `run` of the session on two machines that agree up to the context's bookkeeping -/
theorem runS_normC (x y : Sess) (hm : normC x.m = normC y.m) (fuel : Nat) :
    match x.runS fuel, y.runS fuel with
    | .ok x', .ok y' => normC x'.m = normC y'.m ∧ x' = { x with m := x'.m } ∧ y' = { y with m := y'.m } ∧
        Mach.run nativeProg fuel x.m = some (.ok (), x'.m) ∧ Mach.run nativeProg fuel y.m = some (.ok (), y'.m)
    | .err e x', .err e' y' => e = e' ∧ normC x'.m = normC y'.m ∧ x' = { x with m := x'.m } ∧ y' = { y with m := y'.m }
    | .panic p x', .panic p' y' => p = p' ∧ normC x'.m = normC y'.m ∧ x' = { x with m := x'.m } ∧ y' = { y with m := y'.m }
    | .unsupported u, .unsupported u' => u = u'
    | .timeout, .timeout => True
    | _, _ => False := by
  have hr := NormC.run_sim nativeProg fuel x.m y.m hm
  unfold Sess.runS
  revert hr
  cases Mach.run nativeProg fuel x.m with
  | none => cases Mach.run nativeProg fuel y.m with
    | none => intro _; trivial
    | some rb => intro hr; exact hr.elim
  | some ra => cases Mach.run nativeProg fuel y.m with
    | none => intro hr; exact hr.elim
    | some rb =>
      obtain ⟨oa, ma⟩ := ra
      obtain ⟨ob, mb⟩ := rb
      rintro ⟨e1, e2⟩
      simp only at e1 e2
      subst e1
      cases oa with
      | ok u => exact ⟨e2, rfl, rfl, rfl, rfl⟩
      | err e =>
        simp only
        cases hg : isModelGap (Outcome.err e : Outcome Unit) with
        | true => simp only [if_true]
        | false => simp only [Bool.false_eq_true, if_false]; exact ⟨trivial, e2, trivial, trivial⟩
      | panic p =>
        simp only
        cases hg : p.startsWith "model:" with
        | true => simp only [if_true]
        | false => simp only [Bool.false_eq_true, if_false]; exact ⟨trivial, e2, trivial, trivial⟩

/-- executing code leaves the current context alone, except for its instruction pointer -/
theorem run_marks (fuel : Nat) (m m' : Mach) (o : Outcome Unit) (w : WF m) (h : Mach.run nativeProg fuel m = some (o, m')) :
    m'.ctx.marks = m.ctx.marks := by
  have := (run_sealed nativeProg fuel m (o, m') w h).hid
  exact congrArg Hid.marks this

/-- two machines that agree on what the VM reads, each with its own context's bookkeeping: put the second context
    (with the first machine's instruction pointer) into the first machine and they are the same machine -/
theorem equalize (ma mb : Mach) (c : Ctx) (hn : normC ma = normC mb) (hb : mb.ctx.marks = c.marks)
    (hv : c.ssPtr = ma.ctx.ssPtr ∧ c.mode = ma.ctx.mode ∧ c.dsLen = ma.ctx.dsLen ∧ c.rsLen = ma.ctx.rsLen ∧ c.lsLen = ma.ctx.lsLen) :
    mb = { ma with ctx := { c with ip := ma.ctx.ip } } := by
  apply NormC.ctx_same_up_to_ip
  · rw [← hn]
    exact (NormC.of_ctx ma { c with ip := ma.ctx.ip } ⟨rfl, hv.1, hv.2.1, hv.2.2.1, hv.2.2.2.1, hv.2.2.2.2⟩).symm
  · have e := hb
    rcases mb with ⟨c2, hp2, ds2, rs2, lp2, sp2, ⟨q12, q22, q32, q42, q52, q62, q72, q82, q92, q102⟩, mt2, il2, sl2, hl2, lg2, o2, st2, di2⟩
    rcases c with ⟨q1, q2, q3, q4, q5, q6, q7, q8, q9, q10⟩
    simp only [Ctx.marks, Ctx.mk.injEq] at e
    simp only
    simp_all

/-- **`eval` is `compile` followed by `run`**, for an interpreter at rest: the same answer (built and run, rejected with
    the same error, failed at run time with the same error), the same session afterwards — exactly the same when the
    source was rejected or ran to its end, the same up to the bookkeeping fields of the current context when the run
    failed (`eval` leaves the failed source's own context current, as `context_close` does not restore on failure). -/
theorem eval_eq_compile_run (fuel : Nat) (toks : List Tok) (s : Sess) (idle : Idle s) (rest : AtRest s) :
    EvalR (s.buildSource fuel .eval toks) (compileThenRun fuel toks s) := by
  have hE0 : (s.contextOpen .eval).m.ctx.mode ≠ .metaEval := by simp [Sess.contextOpen]
  have hC0 : (s.contextOpen .compile).m.ctx.mode ≠ .metaEval := by simp [Sess.contextOpen]
  have hC : s.contextOpen .compile =
      { (s.contextOpen .eval) with m := { (s.contextOpen .eval).m with ctx := swp (s.contextOpen .compile).m.ctx (s.contextOpen .eval).m.ctx } } := by
    simp [Sess.contextOpen, swp]
  have h0 : RB (s.contextOpen .compile).m.ctx (s.nested.length + 1) (s.contextOpen .eval) (s.contextOpen .compile) := by
    have := RB.cur (c' := (s.contextOpen .compile).m.ctx) (k := s.nested.length + 1) (s.contextOpen .eval)
      (by simp [Sess.contextOpen]) hE0
    rw [← hC] at this
    exact this
  have hb := rb_build1 h0 hC0 fuel toks
  have hext := sok_build1 (ext_open idle .eval (by decide)) (by decide) fuel toks
  unfold compileThenRun Sess.buildSource
  simp only
  cases hE : (s.contextOpen .eval).build1 fuel toks with
  | err e s2 =>
    rw [hE] at hb
    cases hCb : (s.contextOpen .compile).build1 fuel toks with
    | err e' t2 =>
      rw [hCb] at hb
      refine ⟨hb.1, ?_⟩
      rcases hb.2 with h | h
      · exact unwind_rb h (by omega)
      · rw [h]
    | ok _ => rw [hCb] at hb; exact hb.elim
    | panic _ _ => rw [hCb] at hb; exact hb.elim
    | unsupported _ => rw [hCb] at hb; exact hb.elim
    | timeout => rw [hCb] at hb; exact hb.elim
  | panic p s2 =>
    rw [hE] at hb
    cases hCb : (s.contextOpen .compile).build1 fuel toks with
    | panic p' t2 => rw [hCb] at hb; exact hb.1
    | ok _ => rw [hCb] at hb; exact hb.elim
    | err _ _ => rw [hCb] at hb; exact hb.elim
    | unsupported _ => rw [hCb] at hb; exact hb.elim
    | timeout => rw [hCb] at hb; exact hb.elim
  | unsupported u =>
    rw [hE] at hb
    cases hCb : (s.contextOpen .compile).build1 fuel toks with
    | unsupported u' => rw [hCb] at hb; exact hb
    | ok _ => rw [hCb] at hb; exact hb.elim
    | err _ _ => rw [hCb] at hb; exact hb.elim
    | panic _ _ => rw [hCb] at hb; exact hb.elim
    | timeout => rw [hCb] at hb; exact hb.elim
  | timeout =>
    rw [hE] at hb
    cases hCb : (s.contextOpen .compile).build1 fuel toks with
    | timeout => trivial
    | ok _ => rw [hCb] at hb; exact hb.elim
    | err _ _ => rw [hCb] at hb; exact hb.elim
    | panic _ _ => rw [hCb] at hb; exact hb.elim
    | unsupported _ => rw [hCb] at hb; exact hb.elim
  | ok s2 =>
    rw [hE] at hb hext
    cases hCb : (s.contextOpen .compile).build1 fuel toks with
    | err _ _ => rw [hCb] at hb; exact hb.elim
    | panic _ _ => rw [hCb] at hb; exact hb.elim
    | unsupported _ => rw [hCb] at hb; exact hb.elim
    | timeout => rw [hCb] at hb; exact hb.elim
    | ok t2 =>
      rw [hCb] at hb
      have e : Ext .eval s s2 := hext
      obtain ⟨hmode2, hnest2⟩ := build1_ok_base fuel toks (by decide) hE e
      have hkept := base_kept hE0 fuel toks hE (by rw [hnest2]; simp [Sess.contextOpen])
      -- what the VM reads of the context is what it reads of the resting context
      have hv : s.m.ctx.ip = s2.m.ctx.ip ∧ s.m.ctx.ssPtr = s2.m.ctx.ssPtr ∧ s.m.ctx.mode = s2.m.ctx.mode ∧
          s.m.ctx.dsLen = s2.m.ctx.dsLen ∧ s.m.ctx.rsLen = s2.m.ctx.rsLen ∧ s.m.ctx.lsLen = s2.m.ctx.lsLen := by
        rw [hkept]
        simp only [swp, Sess.contextOpen, rest.mode, if_true]
        exact ⟨rest.ip, rest.ss.symm, trivial, trivial, rest.rs.symm, rest.ls.symm⟩
      -- the compile-mode reading ends in the same session with the other base context
      have ht2 : t2 = { s2 with m := { s2.m with ctx := swp (s.contextOpen .compile).m.ctx s2.m.ctx } } := by
        rcases RB.inv hb with ⟨_, _, e⟩ | ⟨pre, E, bot, h1, h2, _, _⟩
        · exact e
        · rw [hnest2] at h1
          have := congrArg List.length h1
          simp only [List.length_append, List.length_cons] at this
          omega
      subst ht2
      -- both sides forget what the build logged (`forget_build_log`); the machine from here on is `M`
      have e1 : forgetBuildLog s.m { s2.m with ctx := swp (s.contextOpen .compile).m.ctx s2.m.ctx } =
          { forgetBuildLog s.m s2.m with ctx := swp (s.contextOpen .compile).m.ctx s2.m.ctx } := rfl
      simp only [e1]
      have hMc : (forgetBuildLog s.m s2.m).ctx = s2.m.ctx := rfl
      have wX : WF (forgetBuildLog s.m s2.m) := ⟨e.wf.ds, e.wf.rs, e.wf.ls, e.wf.ss⟩
      rw [← hMc] at hv hmode2
      generalize forgetBuildLog s.m s2.m = M at hv hmode2 wX ⊢
      have hmC : (swp (s.contextOpen .compile).m.ctx s2.m.ctx).mode = .compile := by simp [swp, Sess.contextOpen]
      simp only [Sess.contextClose, hnest2, hmode2, hmC, rest.mode, if_true]
      generalize hu : List.drop (s2.constUndo.length - s.constUndo.length) s2.constUndo = u
      have hn : normC ({ s2 with m := M, nested := s.nested, constUndo := u } : Sess).m =
          normC ({ s2 with m := { M with ctx := s.m.ctx }, nested := s.nested, constUndo := u } : Sess).m :=
        (NormC.of_ctx M s.m.ctx hv).symm
      have hr := runS_normC _ _ hn fuel
      have wY : WF { M with ctx := s.m.ctx } := by
        obtain ⟨_, v2, _, v4, v5, v6⟩ := hv
        exact ⟨by simp only; rw [v4]; exact wX.ds, by simp only; rw [v5]; exact wX.rs, by simp only; rw [v6]; exact wX.ls,
          by simp only; rw [v2]; exact wX.ss⟩
      revert hr
      cases Sess.runS fuel { s2 with m := M, nested := s.nested, constUndo := u } with
      | ok x' =>
        cases Sess.runS fuel { s2 with m := { M with ctx := s.m.ctx }, nested := s.nested, constUndo := u } with
        | ok y' =>
          rintro ⟨g1, g2, g3, g4, g5⟩
          simp only [EvalR]
          have mx := run_marks fuel _ _ _ wX g4
          have my := run_marks fuel _ _ _ wY g5
          simp only at mx my
          have hv' : s.m.ctx.ssPtr = x'.m.ctx.ssPtr ∧ s.m.ctx.mode = x'.m.ctx.mode ∧ s.m.ctx.dsLen = x'.m.ctx.dsLen ∧
              s.m.ctx.rsLen = x'.m.ctx.rsLen ∧ s.m.ctx.lsLen = x'.m.ctx.lsLen := by
            have f := fun (g : Ctx → Nat) (hg : ∀ c : Ctx, g c = g c.marks) => by
              have : g x'.m.ctx = g M.ctx := by rw [hg x'.m.ctx, hg M.ctx, mx]
              exact this
            have fm : x'.m.ctx.mode = M.ctx.mode := by
              have := congrArg Ctx.mode mx; simpa [Ctx.marks] using this
            obtain ⟨_, v2, v3, v4, v5, v6⟩ := hv
            exact ⟨by rw [f Ctx.ssPtr (fun _ => rfl)]; exact v2, by rw [fm]; exact v3, by rw [f Ctx.dsLen (fun _ => rfl)]; exact v4,
              by rw [f Ctx.rsLen (fun _ => rfl)]; exact v5, by rw [f Ctx.lsLen (fun _ => rfl)]; exact v6⟩
          have key := equalize x'.m y'.m s.m.ctx g1 my hv'
          rw [g3, key, g2]
          simp only [rest.mode]
        | err _ _ => intro hr; exact hr.elim
        | panic _ _ => intro hr; exact hr.elim
        | unsupported _ => intro hr; exact hr.elim
        | timeout => intro hr; exact hr.elim
      | err ex x' =>
        cases Sess.runS fuel { s2 with m := { M with ctx := s.m.ctx }, nested := s.nested, constUndo := u } with
        | err ey y' =>
          rintro ⟨g0, g1, g2, g3⟩
          refine ⟨g0, ?_⟩
          simp only [SameC]
          rw [g2, g3]
          simp only [g1]
        | ok _ => intro hr; exact hr.elim
        | panic _ _ => intro hr; exact hr.elim
        | unsupported _ => intro hr; exact hr.elim
        | timeout => intro hr; exact hr.elim
      | panic px x' =>
        cases Sess.runS fuel { s2 with m := { M with ctx := s.m.ctx }, nested := s.nested, constUndo := u } with
        | panic py y' => rintro ⟨g0, _⟩; exact g0
        | ok _ => intro hr; exact hr.elim
        | err _ _ => intro hr; exact hr.elim
        | unsupported _ => intro hr; exact hr.elim
        | timeout => intro hr; exact hr.elim
      | unsupported ux =>
        cases Sess.runS fuel { s2 with m := { M with ctx := s.m.ctx }, nested := s.nested, constUndo := u } with
        | unsupported uy => intro hr; exact hr
        | ok _ => intro hr; exact hr.elim
        | err _ _ => intro hr; exact hr.elim
        | panic _ _ => intro hr; exact hr.elim
        | timeout => intro hr; exact hr.elim
      | timeout =>
        cases Sess.runS fuel { s2 with m := { M with ctx := s.m.ctx }, nested := s.nested, constUndo := u } with
        | timeout => intro _; trivial
        | ok _ => intro hr; exact hr.elim
        | err _ _ => intro hr; exact hr.elim
        | panic _ _ => intro hr; exact hr.elim
        | unsupported _ => intro hr; exact hr.elim

end Xeh.Session
