/-
Two sessions that agree on everything except the instruction meter, the about-to-stop flag and a fixed prefix of the
captured output behave alike: every function of the session model — the flow-stack compiler's steps, `run`, meta blocks,
`const`, the token loop, unwinding, a whole `build_from_source` — returns the same kind of answer, with the same error,
in sessions that are again so related.  (No instruction limit: with a limit the meter is not a ghost.)
The last-token marker is overwritten before it is read by every entry point, so sources submitted to sessions that
differ in it as well behave alike too (`GSt`).
-/
import XehModel.Model.Session
import XehModel.Proofs.VMGhost
import XehModel.Proofs.SessionMeter

namespace Xeh.Session
open Xeh Xeh.Mach Xeh.Compile Xeh.Session.Sess

/-- the relation: same session up to meter / stop flag, `s.m.out = pre ++ t.m.out`, and no instruction limit -/
def GS (pre : List Char) (s t : Sess) : Prop :=
  normA s.m = normB pre t.m ∧ s.dmap = t.dmap ∧ s.flows = t.flows ∧ s.nested = t.nested ∧ s.constUndo = t.constUndo ∧
  s.lastTok = t.lastTok ∧ s.m.insnLimit = none

/-- related answers -/
def GR (pre : List Char) : SRes → SRes → Prop
  | .ok s, .ok t => GS pre s t
  | .err e s, .err e' t => e = e' ∧ GS pre s t
  | .panic p s, .panic p' t => p = p' ∧ GS pre s t
  | .unsupported u, .unsupported u' => u = u'
  | .timeout, .timeout => True
  | _, _ => False

variable {pre : List Char}

theorem gr_bind' (r r' : SRes) (k k' : Sess → SRes) : GR pre r r' → (∀ s t, GS pre s t → GR pre (k s) (k' t)) →
    GR pre (match r with
      | .ok s => k s
      | r => r)
     (match r' with
      | .ok s => k' s
      | r => r) := by
  intro h hk
  cases r <;> cases r' <;> first | exact h.elim | skip
  · exact hk _ _ h
  · exact h
  · exact h
  · exact h
  · trivial

theorem gr_bind {r r' : SRes} {k k' : Sess → SRes} (h : GR pre r r') (hk : ∀ s t, GS pre s t → GR pre (k s) (k' t)) :
    GR pre (match (generalizing := false) r with
      | .ok s => k s
      | r => r)
     (match (generalizing := false) r' with
      | .ok s => k' s
      | r => r) := gr_bind' r r' k k' h hk

theorem gr_ite (c : Prop) [Decidable c] {a a' b b' : SRes} (h1 : GR pre a a') (h2 : GR pre b b') :
    GR pre (if c then a else b) (if c then a' else b') := by
  split <;> assumption

/-- take two related sessions apart: afterwards both are literal records over the same variables, except for the meter,
    the stop flag and the output (`pre ++ out` on the left) -/
local macro "gs_cases " h:ident s:ident t:ident : tactic => `(tactic|
  (obtain ⟨hm, h2, h3, h4, h5, h6, hl⟩ := $h
   obtain ⟨ma, _, _, _, _, _⟩ := $s
   obtain ⟨mb, _, _, _, _, _⟩ := $t
   cases ma; cases mb
   simp only [normA, normB, Mach.mk.injEq, true_and, and_true] at hm
   obtain ⟨m1, m2, m3, m4, m5, m6, m7, m8, m9, m10, m11, m12, m13⟩ := hm
   simp only at h2 h3 h4 h5 h6 hl
   subst_vars))

theorem gs_mk {a b : Mach} {d : List Nat} {f : List Flow} {n : List Ctx} {c : List (Nat × Cell)} {l : Nat}
    (h : normA a = normB pre b) (hl : a.insnLimit = none) :
    GS pre ⟨a, d, f, n, c, l⟩ ⟨b, d, f, n, c, l⟩ := ⟨h, rfl, rfl, rfl, rfl, rfl, hl⟩

theorem gs_toC (s t : Sess) (h : GS pre s t) : s.toC = t.toC := by
  gs_cases h s t
  rfl

theorem gs_fromC (s t : Sess) (h : GS pre s t) (c : CState) : GS pre (s.fromC c) (t.fromC c) := by
  gs_cases h s t
  simp [GS, Sess.fromC, Sess.hidden, Sess.visLen, normA, normB]

theorem gs_ofC (s t : Sess) (h : GS pre s t) (r : CRes CState) : GR pre (s.ofC r) (t.ofC r) := by
  cases r with
  | ok c => exact gs_fromC s t h c
  | err e c =>
    refine ⟨rfl, ?_⟩
    have := gs_fromC s t h c
    obtain ⟨a1, a2, a3, a4, a5, a6, a7⟩ := this
    exact ⟨a1, a2, a3, a4, a5, rfl, a7⟩
  | unsupported u => exact rfl

theorem gs_emit (s t : Sess) (h : GS pre s t) (op : Op) : GS pre (s.emit op) (t.emit op) := by
  gs_cases h s t
  simp [GS, Sess.emit, normA, normB]

theorem gs_contextOpen (s t : Sess) (h : GS pre s t) (mode : Mode) : GS pre (s.contextOpen mode) (t.contextOpen mode) := by
  gs_cases h s t
  simp [GS, Sess.contextOpen, normA, normB]

theorem gs_setTok (s t : Sess) (h : GS pre s t) (i : Nat) : GS pre { s with lastTok := i } { t with lastTok := i } := by
  obtain ⟨a1, a2, a3, a4, a5, a6, a7⟩ := h
  exact ⟨a1, a2, a3, a4, a5, rfl, a7⟩

theorem gs_runS (s t : Sess) (h : GS pre s t) (fuel : Nat) : GR pre (s.runS fuel) (t.runS fuel) := by
  have hr := Ghost.run_sim nativeProg fuel s.m t.m h.1 h.2.2.2.2.2.2
  have hk := run_mle nativeProg fuel s.m
  obtain ⟨hm, h2, h3, h4, h5, h6, hl⟩ := h
  unfold Sess.runS
  revert hr hk
  generalize Mach.run nativeProg fuel s.m = ra
  generalize Mach.run nativeProg fuel t.m = rb
  intro hr hk
  cases ra with
  | none => cases rb with
    | none => trivial
    | some rb => exact hr.elim
  | some ra => cases rb with
    | none => exact hr.elim
    | some rb =>
      obtain ⟨oa, ma⟩ := ra
      obtain ⟨ob, mb⟩ := rb
      obtain ⟨e1, e2⟩ := hr
      simp only at e1 e2
      subst e1
      have hl2 : ma.insnLimit = none := by rw [(hk _ rfl).limit, hl]
      cases oa with
      | ok u => exact ⟨e2, h2, h3, h4, h5, h6, hl2⟩
      | err e =>
        simp only
        split
        · rfl
        · exact ⟨rfl, e2, h2, h3, h4, h5, h6, hl2⟩
      | panic p =>
        simp only
        split
        · rfl
        · exact ⟨rfl, e2, h2, h3, h4, h5, h6, hl2⟩

theorem gs_same {s t : Sess} (h : GS pre s t) :
    s.m.ctx = t.m.ctx ∧ s.m.ds = t.m.ds ∧ s.flows = t.flows ∧ s.nested = t.nested ∧ s.m.dict = t.m.dict ∧
    s.m.code = t.m.code ∧ s.dmap = t.dmap ∧ s.lastTok = t.lastTok ∧ s.constUndo = t.constUndo := by
  gs_cases h s t
  simp

theorem gs_pending {s t : Sess} (h : GS pre s t) : s.hasPendingFlow = t.hasPendingFlow := by
  obtain ⟨e1, _, e3, _⟩ := gs_same h
  simp [Sess.hasPendingFlow, e1, e3]

theorem gs_visible {s t : Sess} (h : GS pre s t) : s.visible = t.visible := by
  obtain ⟨e1, _, e3, _⟩ := gs_same h
  simp [Sess.visible, Sess.visLen, e1, e3]

/-- replace the machine by a related one -/
theorem gs_withM {s t : Sess} (h : GS pre s t) {a b : Mach} (hab : normA a = normB pre b) (hl : a.insnLimit = none) :
    GS pre { s with m := a } { t with m := b } := by
  obtain ⟨_, a2, a3, a4, a5, a6, _⟩ := h
  exact ⟨hab, a2, a3, a4, a5, a6, hl⟩

theorem popData_limit (a : Mach) : a.popData.2.insnLimit = a.insnLimit := (popData_keeps a).2

theorem gs_dropTop {s t : Sess} (h : GS pre s t) (rest : List Cell) :
    GS pre { s with m := { s.m with ds := rest } } { t with m := { t.m with ds := rest } } := by
  gs_cases h s t
  simp [GS, normA, normB]

theorem gs_emitResults : ∀ (f : Nat) (s t : Sess), GS pre s t → GR pre (Sess.emitResults f s) (Sess.emitResults f t)
  | 0, s, t, h => h
  | f + 1, s, t, h => by
    obtain ⟨e1, e2, _⟩ := gs_same h
    simp only [Sess.emitResults]
    have hc : (s.m.ds.length > max s.m.ctx.dsOpen s.m.ctx.dsLen) ↔ (t.m.ds.length > max t.m.ctx.dsOpen t.m.ctx.dsLen) := by
      rw [e1, e2]
    by_cases hgt : s.m.ds.length > max s.m.ctx.dsOpen s.m.ctx.dsLen
    · rw [if_pos hgt, if_pos (hc.mp hgt)]
      cases hd : t.m.ds with
      | nil => rw [e2, hd]; exact h
      | cons v rest =>
        rw [e2, hd]
        exact gs_emitResults f _ _ (gs_emit _ _ (gs_dropTop h rest) _)
    · rw [if_neg hgt, if_neg (fun x => hgt (hc.mpr x))]
      exact h

theorem gs_setNested {s t : Sess} (h : GS pre s t) (n : List Ctx) : GS pre { s with nested := n } { t with nested := n } := by
  obtain ⟨a1, a2, a3, _, a5, a6, a7⟩ := h
  exact ⟨a1, a2, a3, rfl, a5, a6, a7⟩

theorem gs_setCtx {s t : Sess} (h : GS pre s t) (c : Ctx) :
    GS pre { s with m := { s.m with ctx := c } } { t with m := { t.m with ctx := c } } := by
  gs_cases h s t
  simp [GS, normA, normB]

theorem gs_closeMeta {s t : Sess} (h : GS pre s t) :
    GS pre { s with m := { s.m with code := s.m.code.take s.m.ctx.csLen, dict := purge s.m.dict s.m.ctx.diLen },
                    dmap := s.dmap.take s.m.ctx.csLen }
           { t with m := { t.m with code := t.m.code.take t.m.ctx.csLen, dict := purge t.m.dict t.m.ctx.diLen },
                    dmap := t.dmap.take t.m.ctx.csLen } := by
  gs_cases h s t
  simp [GS, normA, normB]

theorem gs_contextClose (s t : Sess) (h : GS pre s t) (fuel : Nat) : GR pre (s.contextClose fuel) (t.contextClose fuel) := by
  obtain ⟨e1, _, _, e4, _⟩ := gs_same h
  unfold Sess.contextClose
  rw [e4]
  split
  · exact ⟨rfl, h⟩
  · rename_i prev rest hn
    have h1 := gs_setNested h rest
    dsimp only
    rw [e1]
    split
    · refine gr_bind (gs_runS _ _ h1 fuel) (fun s1 t1 g1 => ?_)
      obtain ⟨f1, _⟩ := gs_same g1
      rw [f1]
      exact gs_setCtx g1 _
    · refine gr_bind (gs_runS _ _ h1 fuel) (fun s1 t1 g1 => ?_)
      gs_cases g1 s1 t1
      dsimp only
      refine gr_bind ?_ (fun s2 t2 g3 => gs_setCtx g3 _)
      split
      · exact gs_emitResults _ _ _ (by simp [GS, normA, normB])
      · simp [GR, GS, normA, normB]
    · exact gs_setCtx h1 _

theorem gs_nestedEnd (s t : Sess) (h : GS pre s t) (fuel : Nat) : GR pre (s.nestedEnd fuel) (t.nestedEnd fuel) := by
  obtain ⟨e1, _, e3, _⟩ := gs_same h
  unfold Sess.nestedEnd
  rw [e1, gs_pending h, e3]
  split
  · exact ⟨rfl, h⟩
  · split
    · split
      · exact ⟨rfl, h⟩
      · exact ⟨rfl, h⟩
    · exact gs_contextClose s t h fuel

theorem gs_metaRun (s t : Sess) (h : GS pre s t) (fuel : Nat) : GR pre (s.metaRun fuel) (t.metaRun fuel) := by
  obtain ⟨e1, _⟩ := gs_same h
  unfold Sess.metaRun
  rw [e1, gs_pending h]
  split
  · exact gs_runS s t h fuel
  · exact h

theorem gs_andRun (fuel : Nat) {r r' : SRes} (h : GR pre r r') : GR pre (andRun fuel r) (andRun fuel r') := by
  cases r <;> cases r' <;> first | exact h.elim | skip
  · exact gs_metaRun _ _ h fuel
  · exact h
  · exact h
  · exact h
  · trivial

theorem gs_setDict {s t : Sess} (h : GS pre s t) (d : List (String × Entry)) (u : List (Nat × Cell)) :
    GS pre { s with m := { s.m with dict := d }, constUndo := u } { t with m := { t.m with dict := d }, constUndo := u } := by
  gs_cases h s t
  simp [GS, normA, normB]

theorem gs_setDict' {s t : Sess} (h : GS pre s t) (d : List (String × Entry)) :
    GS pre { s with m := { s.m with dict := d } } { t with m := { t.m with dict := d } } := by
  gs_cases h s t
  simp [GS, normA, normB]

local macro "m_cases " h:ident a:ident b:ident : tactic => `(tactic|
  (cases $a:ident; cases $b:ident
   simp only [normA, normB, Mach.mk.injEq, true_and, and_true] at $h:ident
   obtain ⟨m1, m2, m3, m4, m5, m6, m7, m8, m9, m10, m11, m12, m13⟩ := $h
   subst_vars))

/-- take the sessions apart, keep the machines: afterwards `s = ⟨sm, d, f, n, c, l⟩`, `t = ⟨tm, d, f, n, c, l⟩` -/
local macro "gs_half " h:ident s:ident t:ident " with " sm:ident tm:ident hm:ident hl:ident : tactic => `(tactic|
  (obtain ⟨$hm:ident, h2, h3, h4, h5, h6, $hl:ident⟩ := $h
   obtain ⟨$sm:ident, _, _, _, _, _⟩ := $s
   obtain ⟨$tm:ident, _, _, _, _, _⟩ := $t
   simp only at $hm:ident h2 h3 h4 h5 h6 $hl:ident
   subst h2 h3 h4 h5 h6))

theorem gs_constDef (s t : Sess) (h : GS pre s t) (name : String) : GR pre (s.constDef name) (t.constDef name) := by
  gs_half h s t with sm tm hm hl
  obtain ⟨_, e1, _⟩ := Ghost.ds_eq sm tm hm
  have hp := Ghost.popData_sim sm tm hm
  have hk := popData_limit sm
  unfold Sess.constDef
  dsimp only
  rw [e1]
  split
  · exact ⟨rfl, hm, rfl, rfl, rfl, rfl, rfl, hl⟩
  · revert hp hk
    generalize sm.popData = ra
    generalize tm.popData = rb
    obtain ⟨oa, ma⟩ := ra
    obtain ⟨ob, mb⟩ := rb
    intro hp hk
    obtain ⟨g1, g2⟩ := hp
    simp only at g1 g2 hk
    subst g1
    have hl' : ma.insnLimit = none := by rw [hk]; exact hl
    clear hk hm hl e1
    m_cases g2 ma mb
    cases oa with
    | ok v =>
      simp only
      split
      · split
        · simp [GR, GS, normA, normB]
        · simp [GR, GS, normA, normB]
      · simp [GR, GS, normA, normB]
    | err e => simp [GR, GS, normA, normB]
    | panic p => simp [GR, GS, normA, normB]

/-- the token loop -/
theorem gs_tokens (fuel depth : Nat) (toks : List Tok) : ∀ (idx : Nat) (s t : Sess), GS pre s t →
    GR pre (tokens fuel depth toks idx s) (tokens fuel depth toks idx t) := by
  induction hn : toks.length using Nat.strongRecOn generalizing toks with
  | _ n ih =>
    intro idx s t h
    have cont : ∀ (rest : List Tok) (i : Nat) (r r' : SRes), rest.length < n → GR pre r r' →
        GR pre (match andRun fuel r with
          | .ok s => tokens fuel depth rest i s
          | r => r)
         (match andRun fuel r' with
          | .ok s => tokens fuel depth rest i s
          | r => r) := by
      intro rest i r r' hl hr
      exact gr_bind (gs_andRun fuel hr) (fun s1 t1 h1 => ih rest.length hl rest rfl i s1 t1 h1)
    match toks, hn with
    | [], _ =>
      gs_half h s t with sm tm hm hl
      obtain ⟨_, e1, _⟩ := Ghost.ds_eq sm tm hm
      simp only [tokens, Sess.hasPendingFlow, e1]
      refine gr_ite _ ⟨rfl, hm, rfl, rfl, rfl, rfl, rfl, hl⟩ (gr_ite _ ?_ ⟨hm, rfl, rfl, rfl, rfl, rfl, hl⟩)
      split <;> exact ⟨rfl, hm, rfl, rfl, rfl, rfl, rfl, hl⟩
    | .lit c :: rest, hn =>
      subst hn
      simp only [tokens]
      exact cont rest _ _ _ (by simp) (gs_emit _ _ (gs_setTok s t h idx) _)
    | .word w :: rest, hn =>
      subst hn
      have h' := gs_setTok s t h idx
      have e5 : s.m.dict = t.m.dict := (gs_same h).2.2.2.2.1
      have ev := gs_visible h'
      simp only [tokens]
      rw [ev, e5]
      split
      · exact cont rest _ _ _ (by simp) (gs_emit _ _ h' _)
      · split
        · split
          · exact cont rest _ _ _ (by simp) (gs_contextOpen _ _ h' _)
          · split
            · exact cont rest _ _ _ (by simp) (gs_nestedEnd _ _ h' fuel)
            · split
              · split
                · rename_i name rest'
                  refine cont rest' _ _ _ (by simp only [List.length_cons]; omega) ?_
                  have h'' := gs_setTok s t h (idx + 1)
                  split
                  · exact gs_constDef _ _ h'' name
                  · split
                    · rw [gs_toC _ _ h']; exact gs_ofC _ _ h' _
                    · rw [gs_toC _ _ h'']; exact gs_ofC _ _ h'' _
                · exact ⟨rfl, h'⟩
              · rw [gs_toC _ _ h']; exact cont rest _ _ _ (by simp) (gs_ofC _ _ h' _)
        · rw [gs_toC _ _ h']; exact cont rest _ _ _ (by simp) (gs_ofC _ _ h' _)

/-- the token loop overwrites the last-token marker before it reads it -/
theorem tokens_tok (fuel depth : Nat) (toks : List Tok) (idx k : Nat) (s : Sess) :
    tokens fuel depth toks idx { s with lastTok := k } = tokens fuel depth toks idx s := by
  cases toks with
  | nil => rfl
  | cons x rest => cases x <;> simp only [tokens]

/-- related up to the last-token marker -/
def GSt (pre : List Char) (s t : Sess) : Prop := GS pre { s with lastTok := 0 } { t with lastTok := 0 }

theorem GS.toGSt {s t : Sess} (h : GS pre s t) : GSt pre s t := gs_setTok s t h 0

theorem gs_unwind {ms mt s t : Sess} (hmk : GSt pre ms mt) (h : GS pre s t) : GS pre (unwind ms s) (unwind mt t) := by
  unfold GSt at hmk
  obtain ⟨hm', h2', h3', h4', h5', _, _⟩ := hmk
  obtain ⟨msm, _, _, _, _, _⟩ := ms
  obtain ⟨mtm, _, _, _, _, _⟩ := mt
  simp only at hm' h2' h3' h4' h5'
  subst h2' h3' h4' h5'
  m_cases hm' msm mtm
  gs_cases h s t
  simp [GS, Sess.unwind, normA, normB]

/-- related answers of `build_from_source` -/
def BR (pre : List Char) : BRes → BRes → Prop
  | .done s, .done t => GS pre s t
  | .rejected e s, .rejected e' t => e = e' ∧ GS pre s t
  | .failed e s, .failed e' t => e = e' ∧ GS pre s t
  | .panic p s, .panic p' t => p = p' ∧ GS pre s t
  | .unsupported u, .unsupported u' => u = u'
  | .timeout, .timeout => True
  | _, _ => False

theorem gs_dropUndo {s t : Sess} (h : GS pre s t) (n : Nat) :
    GS pre { s with constUndo := s.constUndo.drop (s.constUndo.length - n) } { t with constUndo := t.constUndo.drop (t.constUndo.length - n) } := by
  obtain ⟨a1, a2, a3, a4, a5, a6, a7⟩ := h
  exact ⟨a1, a2, a3, a4, by simp only; rw [a5], a6, a7⟩

/-- `forget_build_log` on both sides -/
theorem gs_forget {ms mt s t : Sess} (hmk : GSt pre ms mt) (h : GS pre s t) (n : Nat) :
    GS pre { s with constUndo := s.constUndo.drop (s.constUndo.length - n), m := forgetBuildLog ms.m s.m }
           { t with constUndo := t.constUndo.drop (t.constUndo.length - n), m := forgetBuildLog mt.m t.m } := by
  unfold GSt at hmk
  obtain ⟨hm', h2', h3', h4', h5', _, _⟩ := hmk
  obtain ⟨msm, _, _, _, _, _⟩ := ms
  obtain ⟨mtm, _, _, _, _, _⟩ := mt
  simp only at hm' h2' h3' h4' h5'
  subst h2' h3' h4' h5'
  m_cases hm' msm mtm
  gs_cases h s t
  simp [GS, forgetBuildLog, normA, normB]

/-- **one source, two related sessions**: the same answer, related sessions afterwards -/
theorem gs_buildSource (fuel : Nat) (mode : Mode) (hmode : mode ≠ .metaEval) (toks : List Tok) (s t : Sess)
    (h : GSt pre s t) : BR pre (s.buildSource fuel mode toks) (t.buildSource fuel mode toks) := by
  have h1 : GS pre (({ s with lastTok := 0 } : Sess).contextOpen mode) (({ t with lastTok := 0 } : Sess).contextOpen mode) :=
    gs_contextOpen _ _ h mode
  have hb : GR pre ((s.contextOpen mode).build1 fuel toks) ((t.contextOpen mode).build1 fuel toks) := by
    have e1 : ∀ x : Sess, (x.contextOpen mode).build1 fuel toks =
        tokens fuel (x.nested.length + 1) toks 0 (({ x with lastTok := 0 } : Sess).contextOpen mode) := by
      intro x
      unfold Sess.build1 Sess.metaRun
      have : ((x.contextOpen mode).m.ctx.mode == Mode.metaEval) = false := by
        cases mode <;> first | rfl | exact (hmode rfl).elim
      rw [this]
      simp only [Bool.false_and, Bool.false_eq_true, ↓reduceIte]
      show tokens fuel (x.nested.length + 1) toks 0 (x.contextOpen mode) = _
      exact (tokens_tok fuel _ toks 0 0 (x.contextOpen mode)).symm
    rw [e1 s, e1 t, show s.nested.length = t.nested.length from by rw [show s.nested = t.nested from h.2.2.2.1]]
    exact gs_tokens fuel _ toks 0 _ _ h1
  have hcu : s.constUndo = t.constUndo := h.2.2.2.2.1
  unfold Sess.buildSource
  simp only
  revert hb
  generalize (s.contextOpen mode).build1 fuel toks = ra
  generalize (t.contextOpen mode).build1 fuel toks = rb
  intro hb
  cases ra <;> cases rb <;> first | exact hb.elim | skip
  · rename_i s2 t2
    simp only
    have h2 := gs_contextClose _ _ (gs_forget h hb s.constUndo.length) fuel
    rw [← hcu]
    revert h2
    generalize Sess.contextClose fuel _ = ra
    generalize Sess.contextClose fuel _ = rb
    intro h2
    cases ra <;> cases rb <;> first | exact h2.elim | exact h2
  · exact ⟨hb.1, gs_unwind h hb.2⟩
  · exact hb
  · exact hb
  · trivial

theorem gs_abortRun {s t : Sess} (h : GS pre s t) : GS pre s.abortRun t.abortRun := by
  gs_cases h s t
  simp [GS, Sess.abortRun, normA, normB]

/-- what the relation says, field by field -/
theorem GS.spec {s t : Sess} (h : GS pre s t) :
    s.m.out = pre ++ t.m.out ∧
    s = { t with m := { t.m with meter := s.m.meter, out := s.m.out, aboutToStop := s.m.aboutToStop } } := by
  gs_cases h s t
  simp

/-- the relation from its field-by-field description -/
theorem GS.ofSpec {s t : Sess} (hl : t.m.insnLimit = none) (ho : s.m.out = pre ++ t.m.out)
    (he : s = { t with m := { t.m with meter := s.m.meter, out := s.m.out, aboutToStop := s.m.aboutToStop } }) : GS pre s t := by
  obtain ⟨sm, _, _, _, _, _⟩ := s
  obtain ⟨tm, _, _, _, _, _⟩ := t
  cases sm; cases tm
  simp only [Sess.mk.injEq, Mach.mk.injEq] at he ho hl
  simp_all [GS, normA, normB]

end Xeh.Session
