/-
The same congruence as Proofs/SessionGhost.lean for a coarser relation: `GD` also forgets the debug map and the
last-token marker (the two places where token *indices* are stored).  Two sessions related by `GD` treat token lists
alike even when the tokens sit at different positions of their sources — which is what comparing a program containing
`#( e #)` with the program containing the values of `e` needs.  The compiler's part is Proofs/CompileTok.lean.
(Generated from SessionGhost.lean by renaming and then adapted by hand.)
-/
import XehModel.Model.Session
import XehModel.Proofs.VMGhost
import XehModel.Proofs.SessionMeter
import XehModel.Proofs.CompileTok
import XehModel.Proofs.SessionGhost

namespace Xeh.Session
open Xeh Xeh.Mach Xeh.Compile Xeh.Session.Sess

/-- the relation: same session up to meter / stop flag, `s.m.out = pre ++ t.m.out`, and no instruction limit -/
def GD (pre : List Char) (s t : Sess) : Prop :=
  normA s.m = normB pre t.m ∧ s.flows = t.flows ∧ s.nested = t.nested ∧ s.constUndo = t.constUndo ∧ s.m.insnLimit = none

/-- related answers -/
def GRD (pre : List Char) : SRes → SRes → Prop
  | .ok s, .ok t => GD pre s t
  | .err e s, .err e' t => e = e' ∧ GD pre s t
  | .panic p s, .panic p' t => p = p' ∧ GD pre s t
  | .unsupported u, .unsupported u' => u = u'
  | .timeout, .timeout => True
  | _, _ => False

variable {pre : List Char}

theorem grd_bind' (r r' : SRes) (k k' : Sess → SRes) : GRD pre r r' → (∀ s t, GD pre s t → GRD pre (k s) (k' t)) →
    GRD pre (match r with
      | .ok s => k s
      | r => r)
     (match r' with
      | .ok s => k' s
      | r => r) := by
  intro h hk
  cases r <;> cases r' <;> first | exact h.elim | skip
  · exact hk _ _ h
  · exact h
  · exact h
  · exact h
  · trivial

theorem grd_bind {r r' : SRes} {k k' : Sess → SRes} (h : GRD pre r r') (hk : ∀ s t, GD pre s t → GRD pre (k s) (k' t)) :
    GRD pre (match (generalizing := false) r with
      | .ok s => k s
      | r => r)
     (match (generalizing := false) r' with
      | .ok s => k' s
      | r => r) := grd_bind' r r' k k' h hk

theorem grd_ite (c : Prop) [Decidable c] {a a' b b' : SRes} (h1 : GRD pre a a') (h2 : GRD pre b b') :
    GRD pre (if c then a else b) (if c then a' else b') := by
  split <;> assumption

theorem grd_ite2 {p p' : Prop} [Decidable p] [Decidable p'] (hc : p ↔ p') {a a' b b' : SRes}
    (h1 : p → GRD pre a a') (h2 : ¬p → GRD pre b b') :
    GRD pre (if p then a else b) (if p' then a' else b') := by
  by_cases h : p
  · rw [if_pos h, if_pos (hc.mp h)]; exact h1 h
  · rw [if_neg h, if_neg (fun x => h (hc.mpr x))]; exact h2 h

theorem grd_flows {fl fl' : List Flow} (hfl : fl = fl') {S T : Sess} (h : GD pre S T) :
    GRD pre (match (generalizing := false) fl with
      | f :: _ => .err (flowError f) S
      | [] => .panic "flow stack" S)
     (match (generalizing := false) fl' with
      | f :: _ => .err (flowError f) T
      | [] => .panic "flow stack" T) := by
  subst hfl
  split <;> exact ⟨rfl, h⟩

/-- take two related sessions apart: afterwards both are literal records over the same variables, except for the meter,
    the stop flag and the output (`pre ++ out` on the left) -/
local macro "gd_cases " h:ident s:ident t:ident : tactic => `(tactic|
  (obtain ⟨hm, h3, h4, h5, hl⟩ := $h
   obtain ⟨ma, _, _, _, _, _⟩ := $s
   obtain ⟨mb, _, _, _, _, _⟩ := $t
   cases ma; cases mb
   simp only [normA, normB, Mach.mk.injEq, true_and, and_true] at hm
   obtain ⟨m1, m2, m3, m4, m5, m6, m7, m8, m9, m10, m11, m12, m13⟩ := hm
   simp only at h3 h4 h5 hl
   subst_vars))

theorem gd_toC (s t : Sess) (h : GD pre s t) : CD s.toC t.toC := by
  gd_cases h s t
  simp [CD, Sess.toC, Sess.visible, Sess.visLen]

theorem gd_fromC (s t : Sess) (h : GD pre s t) (c c' : CState) (hc : CD c c') : GD pre (s.fromC c) (t.fromC c') := by
  obtain ⟨e1, e2, e3, e4, _⟩ := hc.fields
  gd_cases h s t
  simp [GD, Sess.fromC, Sess.hidden, Sess.visLen, normA, normB, e1, e2, e3, e4]

theorem gd_ofC (s t : Sess) (h : GD pre s t) (r r' : CRes CState) (hr : CRD r r') : GRD pre (s.ofC r) (t.ofC r') := by
  cases r <;> cases r' <;> first | exact hr.elim | skip
  · exact gd_fromC s t h _ _ hr
  · refine ⟨hr.1, ?_⟩
    have := gd_fromC s t h _ _ hr.2
    obtain ⟨a1, a3, a4, a5, a7⟩ := this
    exact ⟨a1, a3, a4, a5, a7⟩
  · exact hr

theorem gd_emit (s t : Sess) (h : GD pre s t) (op : Op) : GD pre (s.emit op) (t.emit op) := by
  gd_cases h s t
  simp [GD, Sess.emit, normA, normB]

theorem gd_contextOpen (s t : Sess) (h : GD pre s t) (mode : Mode) : GD pre (s.contextOpen mode) (t.contextOpen mode) := by
  gd_cases h s t
  simp [GD, Sess.contextOpen, normA, normB]

theorem gd_setTok (s t : Sess) (h : GD pre s t) (i j : Nat) : GD pre { s with lastTok := i } { t with lastTok := j } := by
  obtain ⟨a1, a3, a4, a5, a7⟩ := h
  exact ⟨a1, a3, a4, a5, a7⟩

theorem gd_runS (s t : Sess) (h : GD pre s t) (fuel : Nat) : GRD pre (s.runS fuel) (t.runS fuel) := by
  have hr := Ghost.run_sim nativeProg fuel s.m t.m h.1 h.2.2.2.2
  have hk := run_mle nativeProg fuel s.m
  obtain ⟨hm, h3, h4, h5, hl⟩ := h
  unfold Sess.runS
  revert hr hk
  generalize Mach.run nativeProg fuel s.m = ra
  generalize Mach.run nativeProg fuel t.m = rb
  intro hr hk
  cases ra with
  | none => cases rb with
    | none => trivial
    | some rb => exact hr.elim
  | some ra => cases rb with
    | none => exact hr.elim
    | some rb =>
      obtain ⟨oa, ma⟩ := ra
      obtain ⟨ob, mb⟩ := rb
      obtain ⟨e1, e2⟩ := hr
      simp only at e1 e2
      subst e1
      have hl2 : ma.insnLimit = none := by rw [(hk _ rfl).limit, hl]
      cases oa with
      | ok u => exact ⟨e2, h3, h4, h5, hl2⟩
      | err e =>
        simp only
        split
        · rfl
        · exact ⟨rfl, e2, h3, h4, h5, hl2⟩
      | panic p =>
        simp only
        split
        · rfl
        · exact ⟨rfl, e2, h3, h4, h5, hl2⟩

theorem gd_same {s t : Sess} (h : GD pre s t) :
    s.m.ctx = t.m.ctx ∧ s.m.ds = t.m.ds ∧ s.flows = t.flows ∧ s.nested = t.nested ∧ s.m.dict = t.m.dict ∧
    s.m.code = t.m.code ∧ s.constUndo = t.constUndo := by
  gd_cases h s t
  simp

theorem gd_pending {s t : Sess} (h : GD pre s t) : s.hasPendingFlow = t.hasPendingFlow := by
  obtain ⟨e1, _, e3, _⟩ := gd_same h
  simp [Sess.hasPendingFlow, e1, e3]

theorem gd_visible {s t : Sess} (h : GD pre s t) : s.visible = t.visible := by
  obtain ⟨e1, _, e3, _⟩ := gd_same h
  simp [Sess.visible, Sess.visLen, e1, e3]

/-- replace the machine by a related one -/
theorem gd_withM {s t : Sess} (h : GD pre s t) {a b : Mach} (hab : normA a = normB pre b) (hl : a.insnLimit = none) :
    GD pre { s with m := a } { t with m := b } := by
  obtain ⟨_, a3, a4, a5, _⟩ := h
  exact ⟨hab, a3, a4, a5, hl⟩

theorem gd_dropTop {s t : Sess} (h : GD pre s t) (rest : List Cell) :
    GD pre { s with m := { s.m with ds := rest } } { t with m := { t.m with ds := rest } } := by
  gd_cases h s t
  simp [GD, normA, normB]

theorem gd_emitResults : ∀ (f : Nat) (s t : Sess), GD pre s t → GRD pre (Sess.emitResults f s) (Sess.emitResults f t)
  | 0, s, t, h => h
  | f + 1, s, t, h => by
    obtain ⟨e1, e2, _⟩ := gd_same h
    simp only [Sess.emitResults]
    have hc : (s.m.ds.length > max s.m.ctx.dsOpen s.m.ctx.dsLen) ↔ (t.m.ds.length > max t.m.ctx.dsOpen t.m.ctx.dsLen) := by
      rw [e1, e2]
    by_cases hgt : s.m.ds.length > max s.m.ctx.dsOpen s.m.ctx.dsLen
    · rw [if_pos hgt, if_pos (hc.mp hgt)]
      cases hd : t.m.ds with
      | nil => rw [e2, hd]; exact h
      | cons v rest =>
        rw [e2, hd]
        exact gd_emitResults f _ _ (gd_emit _ _ (gd_dropTop h rest) _)
    · rw [if_neg hgt, if_neg (fun x => hgt (hc.mpr x))]
      exact h

theorem gd_setNested {s t : Sess} (h : GD pre s t) (n : List Ctx) : GD pre { s with nested := n } { t with nested := n } := by
  obtain ⟨a1, a3, _, a5, a7⟩ := h
  exact ⟨a1, a3, rfl, a5, a7⟩

theorem gd_setCtx {s t : Sess} (h : GD pre s t) (c : Ctx) :
    GD pre { s with m := { s.m with ctx := c } } { t with m := { t.m with ctx := c } } := by
  gd_cases h s t
  simp [GD, normA, normB]

theorem gd_closeMeta {s t : Sess} (h : GD pre s t) :
    GD pre { s with m := { s.m with code := s.m.code.take s.m.ctx.csLen, dict := purge s.m.dict s.m.ctx.diLen },
                    dmap := s.dmap.take s.m.ctx.csLen }
           { t with m := { t.m with code := t.m.code.take t.m.ctx.csLen, dict := purge t.m.dict t.m.ctx.diLen },
                    dmap := t.dmap.take t.m.ctx.csLen } := by
  gd_cases h s t
  simp [GD, normA, normB]

theorem gd_contextClose (s t : Sess) (h : GD pre s t) (fuel : Nat) : GRD pre (s.contextClose fuel) (t.contextClose fuel) := by
  obtain ⟨e1, _, _, e4, _⟩ := gd_same h
  unfold Sess.contextClose
  rw [e4]
  split
  · exact ⟨rfl, h⟩
  · rename_i prev rest hn
    have h1 := gd_setNested h rest
    dsimp only
    rw [e1]
    split
    · refine grd_bind (gd_runS _ _ h1 fuel) (fun s1 t1 g1 => ?_)
      obtain ⟨f1, _⟩ := gd_same g1
      rw [f1]
      exact gd_setCtx g1 _
    · refine grd_bind (gd_runS _ _ h1 fuel) (fun s1 t1 g1 => ?_)
      gd_cases g1 s1 t1
      dsimp only
      refine grd_bind ?_ (fun s2 t2 g3 => gd_setCtx g3 _)
      split
      · exact gd_emitResults _ _ _ (by simp [GD, normA, normB])
      · simp [GRD, GD, normA, normB]
    · exact gd_setCtx h1 _

theorem gd_nestedEnd (s t : Sess) (h : GD pre s t) (fuel : Nat) : GRD pre (s.nestedEnd fuel) (t.nestedEnd fuel) := by
  obtain ⟨e1, _, e3, _⟩ := gd_same h
  unfold Sess.nestedEnd
  rw [e1, gd_pending h, e3]
  split
  · exact ⟨rfl, h⟩
  · split
    · split
      · exact ⟨rfl, h⟩
      · exact ⟨rfl, h⟩
    · exact gd_contextClose s t h fuel

theorem gd_metaRun (s t : Sess) (h : GD pre s t) (fuel : Nat) : GRD pre (s.metaRun fuel) (t.metaRun fuel) := by
  obtain ⟨e1, _⟩ := gd_same h
  unfold Sess.metaRun
  rw [e1, gd_pending h]
  split
  · exact gd_runS s t h fuel
  · exact h

theorem gd_andRun (fuel : Nat) {r r' : SRes} (h : GRD pre r r') : GRD pre (andRun fuel r) (andRun fuel r') := by
  cases r <;> cases r' <;> first | exact h.elim | skip
  · exact gd_metaRun _ _ h fuel
  · exact h
  · exact h
  · exact h
  · trivial

theorem gd_setDict {s t : Sess} (h : GD pre s t) (d : List (String × Entry)) (u : List (Nat × Cell)) :
    GD pre { s with m := { s.m with dict := d }, constUndo := u } { t with m := { t.m with dict := d }, constUndo := u } := by
  gd_cases h s t
  simp [GD, normA, normB]

theorem gd_setDict' {s t : Sess} (h : GD pre s t) (d : List (String × Entry)) :
    GD pre { s with m := { s.m with dict := d } } { t with m := { t.m with dict := d } } := by
  gd_cases h s t
  simp [GD, normA, normB]

local macro "m_cases " h:ident a:ident b:ident : tactic => `(tactic|
  (cases $a:ident; cases $b:ident
   simp only [normA, normB, Mach.mk.injEq, true_and, and_true] at $h:ident
   obtain ⟨m1, m2, m3, m4, m5, m6, m7, m8, m9, m10, m11, m12, m13⟩ := $h
   subst_vars))

/-- take the sessions apart, keep the machines: afterwards `s = ⟨sm, d, f, n, c, l⟩`, `t = ⟨tm, d, f, n, c, l⟩` -/
local macro "gd_half " h:ident s:ident t:ident " with " sm:ident tm:ident hm:ident hl:ident : tactic => `(tactic|
  (obtain ⟨$hm:ident, h3, h4, h5, $hl:ident⟩ := $h
   obtain ⟨$sm:ident, _, _, _, _, _⟩ := $s
   obtain ⟨$tm:ident, _, _, _, _, _⟩ := $t
   simp only at $hm:ident h3 h4 h5 $hl:ident
   subst h3 h4 h5))

theorem gd_constDef (s t : Sess) (h : GD pre s t) (name : String) : GRD pre (s.constDef name) (t.constDef name) := by
  gd_half h s t with sm tm hm hl
  obtain ⟨_, e1, _⟩ := Ghost.ds_eq sm tm hm
  have hp := Ghost.popData_sim sm tm hm
  have hk := popData_limit sm
  unfold Sess.constDef
  dsimp only
  rw [e1]
  split
  · exact ⟨rfl, hm, rfl, rfl, rfl, hl⟩
  · revert hp hk
    generalize sm.popData = ra
    generalize tm.popData = rb
    obtain ⟨oa, ma⟩ := ra
    obtain ⟨ob, mb⟩ := rb
    intro hp hk
    obtain ⟨g1, g2⟩ := hp
    simp only at g1 g2 hk
    subst g1
    have hl' : ma.insnLimit = none := by rw [hk]; exact hl
    clear hk hm hl e1
    m_cases g2 ma mb
    cases oa with
    | ok v =>
      simp only
      split
      · split
        · simp [GRD, GD, normA, normB]
        · simp [GRD, GD, normA, normB]
      · simp [GRD, GD, normA, normB]
    | err e => simp [GRD, GD, normA, normB]
    | panic p => simp [GRD, GD, normA, normB]

/-- the token loop, the two token lists sitting at different positions of their sources -/
theorem gd_tokens (fuel depth : Nat) (toks : List Tok) : ∀ (i j : Nat) (s t : Sess), GD pre s t →
    GRD pre (tokens fuel depth toks i s) (tokens fuel depth toks j t) := by
  induction hn : toks.length using Nat.strongRecOn generalizing toks with
  | _ n ih =>
    intro i j s t h
    have cont : ∀ (rest : List Tok) (i' j' : Nat) (r r' : SRes), rest.length < n → GRD pre r r' →
        GRD pre (match andRun fuel r with
          | .ok s => tokens fuel depth rest i' s
          | r => r)
         (match andRun fuel r' with
          | .ok s => tokens fuel depth rest j' s
          | r => r) := by
      intro rest i' j' r r' hl hr
      exact grd_bind (gd_andRun fuel hr) (fun s1 t1 h1 => ih rest.length hl rest rfl i' j' s1 t1 h1)
    have h' := gd_setTok s t h i j
    match toks, hn with
    | [], _ =>
      obtain ⟨e1, _, e3, e4, _⟩ := gd_same h'
      simp only at e1 e3 e4
      simp only [tokens, Sess.hasPendingFlow]
      exact grd_ite2 (by rw [e4]) (fun _ => ⟨rfl, h'⟩) (fun _ => grd_ite2 (by rw [e3, e1]) (fun _ => grd_flows e3 h') (fun _ => h'))
    | .lit c :: rest, hn =>
      subst hn
      simp only [tokens]
      exact cont rest _ _ _ _ (by simp) (gd_emit _ _ h' _)
    | .word w :: rest, hn =>
      subst hn
      have e5 : s.m.dict = t.m.dict := (gd_same h).2.2.2.2.1
      have ev := gd_visible h'
      simp only [tokens]
      rw [ev, e5]
      split
      · exact cont rest _ _ _ _ (by simp) (gd_emit _ _ h' _)
      · split
        · split
          · exact cont rest _ _ _ _ (by simp) (gd_contextOpen _ _ h' _)
          · split
            · exact cont rest _ _ _ _ (by simp) (gd_nestedEnd _ _ h' fuel)
            · split
              · split
                · rename_i name rest'
                  refine cont rest' _ _ _ _ (by simp only [List.length_cons]; omega) ?_
                  have h'' := gd_setTok s t h (i + 1) (j + 1)
                  split
                  · exact gd_constDef _ _ h'' name
                  · split
                    · exact gd_ofC _ _ h' _ _ (cd_late _ _ _ _ _ (gd_toC _ _ h'))
                    · exact gd_ofC _ _ h'' _ _ (cd_withName _ _ _ _ (gd_toC _ _ h''))
                · exact ⟨rfl, h'⟩
              · exact cont rest _ _ _ _ (by simp) (gd_ofC _ _ h' _ _ (cd_immediate _ _ _ (gd_toC _ _ h')))
        · exact cont rest _ _ _ _ (by simp) (gd_ofC _ _ h' _ _ (cd_buildWord _ _ _ (gd_toC _ _ h')))

theorem gd_abortRun {s t : Sess} (h : GD pre s t) : GD pre s.abortRun t.abortRun := by
  gd_cases h s t
  simp [GD, Sess.abortRun, normA, normB]

theorem gd_unwind (mark : Sess) {s t : Sess} (h : GD pre s t) : GD pre (unwind mark s) (unwind mark t) := by
  gd_cases h s t
  simp [GD, Sess.unwind, normA, normB]

/-- what the relation says, field by field -/
theorem GD.spec {s t : Sess} (h : GD pre s t) :
    s.m.out = pre ++ t.m.out ∧
    s = { t with m := { t.m with meter := s.m.meter, out := s.m.out, aboutToStop := s.m.aboutToStop },
                 dmap := s.dmap, lastTok := s.lastTok } := by
  gd_cases h s t
  simp

end Xeh.Session
