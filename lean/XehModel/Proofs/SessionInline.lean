/-
A meta block and its values.  The token loop is cut into single steps (`step1`, `tokens_step`), a block is followed
from its `#(` to the `#)` that closes it by watching the depth of the saved contexts (`untilClosed`,
`tokens_untilClosed`) — no syntactic matching of `#(` and `#)`, which are dictionary words like any other —, the
session at the end of the block is described by the block theorems (Proofs/SessionBlock.lean), and the rest of the
source is read from there and from the session that read the values as literals alike (Proofs/SessionGhostD.lean).
-/
import XehModel.Proofs.SessionBlock
import XehModel.Proofs.SessionGhostD

namespace Xeh.Session
open Xeh Xeh.Mach Xeh.Compile Xeh.Session.Sess

/-- one round of the token loop: the answer to the token at the head (after the meta run that follows it), the tokens
    that remain and the index of the next one -/
def step1 (fuel : Nat) (t : Tok) (rest : List Tok) (idx : Nat) (s : Sess) : SRes × List Tok × Nat :=
  match t with
  | .lit c => (andRun fuel (.ok (({ s with lastTok := idx } : Sess).emit (Mach.loadValueOp c))), rest, idx + 1)
  | .word w =>
    let s := { s with lastTok := idx }
    match (CState.topFun s.visible).bind fun ff => CState.rposition w ff.locals with
    | some i => (andRun fuel (.ok (s.emit (.loadLocal i))), rest, idx + 1)
    | none =>
      match s.m.dict.lookup w with
      | some (.native true n) =>
        if n == "#(" then (andRun fuel (.ok (s.contextOpen .metaEval)), rest, idx + 1)
        else if n == "#)" then (andRun fuel (s.nestedEnd fuel), rest, idx + 1)
        else if n == "const" || takesName n then
          match rest with
          | .word name :: rest' =>
            let r := if n == "const" then ({ s with lastTok := idx + 1 } : Sess).constDef name
                     else if n == "late" then s.ofC (late s.toC name (idx + 1))
                     else ({ s with lastTok := idx + 1 } : Sess).ofC (withName ({ s with lastTok := idx + 1 } : Sess).toC n name)
            (andRun fuel r, rest', idx + 2)
          | _ => (.err .expectingName s, rest, idx)
        else (andRun fuel (s.ofC (immediate s.toC n)), rest, idx + 1)
      | _ => (andRun fuel (s.ofC (buildWord s.toC w)), rest, idx + 1)

theorem tokens_step (fuel depth : Nat) (t : Tok) (rest : List Tok) (idx : Nat) (s : Sess) :
    tokens fuel depth (t :: rest) idx s =
      match step1 fuel t rest idx s with
      | (.ok s', rest', i') => tokens fuel depth rest' i' s'
      | (r, _, _) => r := by
  cases t with
  | lit c =>
    simp only [tokens, step1]
    cases andRun fuel _ <;> rfl
  | word w =>
    simp only [tokens, step1]
    cases hloc : (CState.topFun ({ s with lastTok := idx } : Sess).visible).bind fun ff => CState.rposition w ff.locals with
    | some i =>
      simp only
      cases andRun fuel _ <;> rfl
    | none =>
      simp only
      cases hlk : List.lookup w s.m.dict with
      | none => simp only; cases andRun fuel _ <;> rfl
      | some en =>
        cases en with
        | native im n =>
          cases im with
          | false => simp only; cases andRun fuel _ <;> rfl
          | true =>
            simp only
            by_cases h1 : (n == "#(") = true
            · simp only [h1, if_true, ↓reduceIte]; cases andRun fuel _ <;> rfl
            · simp only [h1, Bool.false_eq_true, if_false, ↓reduceIte]
              by_cases h2 : (n == "#)") = true
              · simp only [h2, if_true, ↓reduceIte]; cases andRun fuel _ <;> rfl
              · simp only [h2, Bool.false_eq_true, if_false, ↓reduceIte]
                by_cases h3 : (n == "const" || takesName n) = true
                · simp only [h3, if_true, ↓reduceIte]
                  cases rest with
                  | nil => rfl
                  | cons r1 rest' =>
                    cases r1 with
                    | lit c => rfl
                    | word name => simp only; cases andRun fuel _ <;> rfl
                · simp only [h3, Bool.false_eq_true, if_false, ↓reduceIte]; cases andRun fuel _ <;> rfl
        | const c => simp only; cases andRun fuel _ <;> rfl
        | var a => simp only; cases andRun fuel _ <;> rfl
        | interp im a => simp only; cases andRun fuel _ <;> rfl

theorem step1_len (fuel : Nat) (t : Tok) (rest : List Tok) (idx : Nat) (s : Sess) :
    (step1 fuel t rest idx s).2.1.length ≤ rest.length := by
  cases t with
  | lit c => simp [step1]
  | word w =>
    simp only [step1]
    split
    · simp
    · split
      · split
        · simp
        · split
          · simp
          · split
            · split
              · simp
              · simp
            · simp
      · simp

/-- where following a block ends -/
inductive URes where
  /-- the saved contexts are back to `base` deep: the block is closed; what remains to be read, the next index, the session -/
  | closed (rest : List Tok) (i : Nat) (t : Sess)
  /-- the token loop stopped (an error, the model's `unsupported` / `timeout`) -/
  | stop (r : SRes)
  /-- the tokens (or the gas `n`) ran out with the block still open -/
  | eof (toks : List Tok) (i : Nat) (s : Sess)

/-- follow the token loop until the saved contexts are `base` deep again (`n`: gas, at least the number of tokens) -/
def untilClosed (fuel base : Nat) : Nat → List Tok → Nat → Sess → URes
  | 0, toks, i, s => .eof toks i s
  | _ + 1, [], i, s => .eof [] i s
  | n + 1, t :: rest, i, s =>
    match step1 fuel t rest i s with
    | (.ok s', rest', i') => if s'.nested.length = base then .closed rest' i' s' else untilClosed fuel base n rest' i' s'
    | (r, _, _) => .stop r

/-- the token loop is: follow the block, then go on -/
theorem tokens_untilClosed (fuel depth base : Nat) : ∀ (n : Nat) (toks : List Tok) (i : Nat) (s : Sess),
    tokens fuel depth toks i s =
      match untilClosed fuel base n toks i s with
      | .closed rest i' t => tokens fuel depth rest i' t
      | .stop r => r
      | .eof toks' i' s' => tokens fuel depth toks' i' s' := by
  intro n
  induction n with
  | zero => intro toks i s; rfl
  | succ n ih =>
    intro toks i s
    cases toks with
    | nil => rfl
    | cons t rest =>
      rw [tokens_step]
      simp only [untilClosed]
      rcases hst : step1 fuel t rest i s with ⟨r, rest', i'⟩
      cases r with
      | ok s' =>
        simp only
        by_cases hc : s'.nested.length = base
        · simp only [hc, if_true]
        · simp only [hc, if_false]; exact ih rest' i' s'
      | err e s' => rfl
      | panic p s' => rfl
      | unsupported u => rfl
      | timeout => rfl

/-- one round inside a block keeps the session an extension of the session at the `#(` — unless it is the `#)` that
    closes the block -/
theorem step1_ext {s0 s : Sess} (h : Ext .metaEval s0 s) (fuel : Nat) (t : Tok) (rest : List Tok) (idx : Nat) :
    SOK .metaEval s0 (step1 fuel t rest idx s).1 ∨
    (s.nested.length = s0.nested.length + 1 ∧
      (step1 fuel t rest idx s) = (andRun fuel (({ s with lastTok := idx } : Sess).nestedEnd fuel), rest, idx + 1)) := by
  have hs := ext_lastTok idx h
  obtain ⟨hp, ho⟩ := pre_toC hs
  cases t with
  | lit c => exact .inl (sok_andRun fuel (.ok _) (ext_emit _ hs))
  | word w =>
    simp only [step1]
    cases hloc : (CState.topFun ({ s with lastTok := idx } : Sess).visible).bind fun ff => CState.rposition w ff.locals with
    | some i => exact .inl (sok_andRun fuel (.ok _) (ext_emit _ hs))
    | none =>
      simp only
      cases hlk : List.lookup w s.m.dict with
      | none => exact .inl (sok_andRun fuel _ (sok_ofC hs _ (buildWord_good _ _ _ hp ho)))
      | some en =>
        cases en with
        | native im n =>
          cases im with
          | false => exact .inl (sok_andRun fuel _ (sok_ofC hs _ (buildWord_good _ _ _ hp ho)))
          | true =>
            simp only
            by_cases h1 : (n == "#(") = true
            · simp only [h1, if_true, ↓reduceIte]
              exact .inl (sok_andRun fuel (.ok _) (ext_contextOpen hs))
            · simp only [h1, Bool.false_eq_true, if_false, ↓reduceIte]
              by_cases h2 : (n == "#)") = true
              · simp only [h2, if_true, ↓reduceIte]
                by_cases hd : s.nested.length = s0.nested.length + 1
                · exact .inr ⟨hd, trivial⟩
                · exact .inl (sok_andRun fuel _ (sok_nestedEnd hs (Or.inr hd) fuel))
              · simp only [h2, Bool.false_eq_true, if_false, ↓reduceIte]
                by_cases h3 : (n == "const" || takesName n) = true
                · simp only [h3, if_true, ↓reduceIte]
                  cases rest with
                  | nil => exact .inl hs.ext0
                  | cons r1 rest' =>
                    cases r1 with
                    | lit c => exact .inl hs.ext0
                    | word name =>
                      simp only
                      have hs1 := ext_lastTok (idx + 1) h
                      obtain ⟨hp1, ho1⟩ := pre_toC hs1
                      refine .inl (sok_andRun fuel _ ?_)
                      split
                      · exact sok_constDef hs1 name
                      · split
                        · exact sok_ofC hs _ (late_good _ _ _ _ hp ho)
                        · exact sok_ofC hs1 _ (withName_good _ _ _ _ hp1 ho1)
                · simp only [h3, Bool.false_eq_true, if_false, ↓reduceIte]
                  exact .inl (sok_andRun fuel _ (sok_ofC hs _ (immediate_good _ _ _ hp ho)))
        | const c => exact .inl (sok_andRun fuel _ (sok_ofC hs _ (buildWord_good _ _ _ hp ho)))
        | var a => exact .inl (sok_andRun fuel _ (sok_ofC hs _ (buildWord_good _ _ _ hp ho)))
        | interp im a => exact .inl (sok_andRun fuel _ (sok_ofC hs _ (buildWord_good _ _ _ hp ho)))

/-- the session when a block has just been closed, relative to the session at its `#(` -/
structure Closed (s0 t : Sess) : Prop where
  ctx : t.m.ctx = s0.m.ctx
  nested : t.nested = s0.nested
  flows : t.flows = s0.flows
  ds : t.m.ds = s0.m.ds
  code : ∃ vs : List Cell, t.m.code = s0.m.code ++ vs.map Mach.loadValueOp
  ext0 : Ext0 s0 t

/-- following a block from any state inside it: if it gets closed, the session is `Closed` -/
theorem block_ext {s0 : Sess} (h0 : s0.m.ctx.mode ≠ .metaEval) (fuel : Nat) {rest : List Tok} {i' : Nat} {t : Sess} :
    ∀ (n : Nat) (toks : List Tok) (i : Nat) (s : Sess), Ext .metaEval s0 s →
      untilClosed fuel s0.nested.length n toks i s = .closed rest i' t → Closed s0 t := by
  intro n
  induction n with
  | zero => intro toks i s _ h; cases h
  | succ n ih =>
    intro toks i s hext h
    cases toks with
    | nil => cases h
    | cons tk rest0 =>
      simp only [untilClosed] at h
      rcases step1_ext hext fuel tk rest0 i with hsok | ⟨hd, hst⟩
      · rcases hst : step1 fuel tk rest0 i s with ⟨r, rest', j⟩
        rw [hst] at h hsok
        cases r with
        | ok s' =>
          simp only at h hsok
          have hlt := (hsok : Ext .metaEval s0 s').chain.nested.2
          have hne : ¬ s'.nested.length = s0.nested.length := by omega
          simp only [hne, if_false] at h
          exact ih rest' j s' hsok h
        | err e s' => cases h
        | panic p s' => cases h
        | unsupported u => cases h
        | timeout => cases h
      · rw [hst] at h
        -- the closing `#)`
        have hs := ext_lastTok i hext
        obtain ⟨hm, _⟩ := hs.chain.base_of_len hd
        have hmode : (({ s with lastTok := i } : Sess).m.ctx.mode != Mode.metaEval) = false := by
          simp only at hm ⊢; rw [hm]; rfl
        unfold Sess.nestedEnd at h
        simp only [hmode, Bool.false_eq_true, if_false] at h
        by_cases hp : ({ s with lastTok := i } : Sess).hasPendingFlow = true
        · simp only [hp, if_true] at h
          cases hfl : s.flows with
          | nil => simp only [hfl, andRun] at h; cases h
          | cons f fl => simp only [hfl, andRun] at h; cases h
        · have hp' : ({ s with lastTok := i } : Sess).hasPendingFlow = false := by simpa using hp
          simp only [hp', Bool.false_eq_true, if_false] at h
          cases hc : Sess.contextClose fuel { s with lastTok := i } with
          | ok t0 =>
            rw [hc] at h
            obtain ⟨⟨c1, c2, c3, c4, _, _, _, _, c9, _⟩, c11⟩ := block_close_full fuel h0 hs hd hp' hc
            have hmr : t0.metaRun fuel = .ok t0 := by
              unfold Sess.metaRun
              have : (t0.m.ctx.mode == Mode.metaEval) = false := by
                rw [c1]; cases hm0 : s0.m.ctx.mode <;> simp_all
              simp [this]
            simp only [andRun, hmr] at h
            have hl : t0.nested.length = s0.nested.length := by rw [c2]
            simp only [hl, if_true] at h
            cases h
            exact ⟨c1, c2, c3, c4, c9, c11⟩
          | err e t0 => rw [hc] at h; cases h
          | panic p t0 => rw [hc] at h; cases h
          | unsupported u => rw [hc] at h; cases h
          | timeout => rw [hc] at h; cases h

/-- the values written as literals: one `load` per value, attributed to consecutive tokens -/
def emitLits : List Cell → Nat → Sess → Sess
  | [], _, s => s
  | v :: vs, j, s => emitLits vs (j + 1) (({ s with lastTok := j } : Sess).emit (Mach.loadValueOp v))

theorem emitLits_spec : ∀ (vs : List Cell) (j : Nat) (s : Sess),
    (emitLits vs j s).m = { s.m with code := s.m.code ++ vs.map Mach.loadValueOp } ∧
    (emitLits vs j s).flows = s.flows ∧ (emitLits vs j s).nested = s.nested ∧ (emitLits vs j s).constUndo = s.constUndo
  | [], j, s => ⟨by simp [emitLits], rfl, rfl, rfl⟩
  | v :: vs, j, s => by
    obtain ⟨a, b, c, d⟩ := emitLits_spec vs (j + 1) (({ s with lastTok := j } : Sess).emit (Mach.loadValueOp v))
    refine ⟨?_, b, c, d⟩
    rw [emitLits, a]
    simp [Sess.emit]

/-- reading literals outside a meta block only emits them -/
theorem tokens_lits (fuel depth : Nat) (rest : List Tok) : ∀ (vs : List Cell) (j : Nat) (s : Sess), s.m.ctx.mode ≠ .metaEval →
    tokens fuel depth (vs.map Tok.lit ++ rest) j s = tokens fuel depth rest (j + vs.length) (emitLits vs j s)
  | [], j, s, _ => rfl
  | v :: vs, j, s, hm => by
    have hmr : ((({ s with lastTok := j } : Sess).emit (Mach.loadValueOp v)).metaRun fuel) =
        .ok (({ s with lastTok := j } : Sess).emit (Mach.loadValueOp v)) := by
      unfold Sess.metaRun
      have : ((({ s with lastTok := j } : Sess).emit (Mach.loadValueOp v)).m.ctx.mode == Mode.metaEval) = false := by
        simp only [Sess.emit]; cases hx : s.m.ctx.mode <;> simp_all
      simp [this]
    simp only [List.map_cons, List.cons_append, tokens, andRun, hmr]
    rw [tokens_lits fuel depth rest vs (j + 1) _ (by simpa [Sess.emit] using hm)]
    simp only [emitLits, List.length_cons]
    congr 1
    omega

/-- what the block theorems cannot know: the block defined no constant, allocated no variable (by compiling a word
    that declares one), and left the return / loop / builder stacks as it found them -/
structure Clean (s t : Sess) : Prop where
  heap : t.m.heap = s.m.heap
  dict : t.m.dict = s.m.dict
  rs : t.m.rs = s.m.rs
  loops : t.m.loops = s.m.loops
  special : t.m.special = s.m.special
  constUndo : t.constUndo = s.constUndo

/-- two answers that are alike up to debug map, last-token marker, meter, stop flag, and what had been printed before
    (`o`, `o'`) -/
def TwinR (o o' : List Char) (r r' : SRes) : Prop := ∃ rz, GRD o r rz ∧ GRD o' r' rz

/-- the session that closed the block and the session that read its values agree -/
theorem closed_twin {s t : Sess} (c : Closed s t) (cl : Clean s t) (hlog : s.m.log = none) (hlim : s.m.insnLimit = none)
    (vs : List Cell) (hcode : t.m.code = s.m.code ++ vs.map Mach.loadValueOp) (j : Nat) :
    ∃ z, GD t.m.out t z ∧ GD (emitLits vs j s).m.out (emitLits vs j s) z := by
  obtain ⟨e1, e2, e3, e4⟩ := emitLits_spec vs j s
  refine ⟨{ (emitLits vs j s) with m := { (emitLits vs j s).m with out := [] } }, ?_, ?_⟩
  · obtain ⟨c1, c2, c3, c4, _, c6⟩ := c
    obtain ⟨l1, l2, l3⟩ := c6.limits
    have lg := c6.nolog hlog
    obtain ⟨d1, d2, d3, d4, d5, d6⟩ := cl
    refine ⟨?_, by simp only; rw [c3, e2], by simp only; rw [c2, e3], by simp only; rw [d6, e4], by rw [l1]; exact hlim⟩
    rw [e1]
    rcases t with ⟨⟨tc, th, td, tr, tl, tsp, tctx, tmt, til, tsl, thl, tlg, to, tst, tdi⟩, _, _, _, _, _⟩
    simp only at c1 c4 hcode l1 l2 l3 lg d1 d2 d3 d4 d5
    subst_vars
    simp [normA, normB, hlog]
  · refine ⟨?_, rfl, rfl, rfl, by rw [e1]; exact hlim⟩
    simp [normA, normB]

/-- `run` on a machine that has nothing to run -/
theorem runS_idle (s : Sess) (fuel : Nat) (h : s.m.isRunning = false) : s.runS fuel = .ok s := by
  have hr : Mach.run nativeProg fuel s.m = some (.ok (), s.m) := by
    cases fuel <;> simp [Mach.run, h]
  simp only [Sess.runS, hr]

/-- **a meta block is its values.**  `s`: any session outside a meta block a source can be read in; the token at
    position `i` is a word `w` that means `#(` (the core word, not shadowed by a local); following the block from there
    (`untilClosed`) it gets closed with `rest` still unread, in session `t`; the block is `Clean`.  Then there are
    values `vs` — the block's results, top of the stack first, as the suite pins it — such that reading the source
    from the `#(` on and reading `vs` written as literals followed by the same `rest` give answers that are alike
    (`TwinR`): the same kind of answer, the same error, sessions equal in everything (code, stacks, variables,
    dictionary, pending flows, contexts) except debug map, last-token marker, meter, stop flag, and the text the block
    printed while it was evaluated. -/
theorem block_inlines (fuel depth : Nat) (s : Sess) (idle : Idle s) (h0 : s.m.ctx.mode ≠ .metaEval)
    (hlog : s.m.log = none) (hlim : s.m.insnLimit = none)
    (w : String) (rest0 : List Tok) (i : Nat)
    (hloc : ((CState.topFun ({ s with lastTok := i } : Sess).visible).bind fun ff => CState.rposition w ff.locals) = none)
    (hw : s.m.dict.lookup w = some (.native true "#("))
    (n : Nat) (rest : List Tok) (i' : Nat) (t : Sess)
    (hblk : untilClosed fuel s.nested.length n rest0 (i + 1) (({ s with lastTok := i } : Sess).contextOpen .metaEval) = .closed rest i' t)
    (clean : Clean s t) :
    ∃ vs : List Cell, t.m.code = s.m.code ++ vs.map Mach.loadValueOp ∧
      ∀ j, TwinR t.m.out s.m.out (tokens fuel depth (.word w :: rest0) i s) (tokens fuel depth (vs.map Tok.lit ++ rest) j s) := by
  -- the first round opens the block
  have idle' : Idle ({ s with lastTok := i } : Sess) := ⟨idle.wf, idle.fs, idle.dmap⟩
  have hopen : Ext .metaEval ({ s with lastTok := i } : Sess) (({ s with lastTok := i } : Sess).contextOpen .metaEval) :=
    ext_open_block idle' h0
  have hst : step1 fuel (.word w) rest0 i s =
      (.ok (({ s with lastTok := i } : Sess).contextOpen .metaEval), rest0, i + 1) := by
    simp only [step1, hloc, hw]
    have hmr : (({ s with lastTok := i } : Sess).contextOpen .metaEval).metaRun fuel =
        .ok (({ s with lastTok := i } : Sess).contextOpen .metaEval) := by
      unfold Sess.metaRun
      have a1 : ((({ s with lastTok := i } : Sess).contextOpen .metaEval).m.ctx.mode == Mode.metaEval) = true := rfl
      have a2 : (({ s with lastTok := i } : Sess).contextOpen .metaEval).hasPendingFlow = false := by
        simp [Sess.hasPendingFlow, Sess.contextOpen]
      simp only [a1, a2, Bool.not_false, Bool.and_self, if_true]
      exact runS_idle _ fuel (by simp [Mach.isRunning, Sess.contextOpen])
    simp [andRun, hmr]
  have hA : tokens fuel depth (.word w :: rest0) i s = tokens fuel depth rest i' t := by
    rw [tokens_step, hst]
    simp only
    rw [tokens_untilClosed fuel depth s.nested.length n rest0 (i + 1), hblk]
  -- the session at the end of the block
  have hcl := block_ext (s0 := ({ s with lastTok := i } : Sess)) h0 fuel n rest0 (i + 1) _ hopen hblk
  obtain ⟨c1, c2, c3, c4, ⟨vs, c5⟩, c6⟩ := hcl
  have hcl' : Closed s t := ⟨c1, c2, c3, c4, ⟨vs, c5⟩,
    ⟨c6.code, c6.dmap, c6.dictLen, c6.undo, c6.heap, c6.ds, c6.rs, c6.loops, c6.special, c6.flows, c6.nested, c6.nolog, c6.log, c6.limits⟩⟩
  refine ⟨vs, c5, fun j => ?_⟩
  obtain ⟨z, g1, g2⟩ := closed_twin hcl' clean hlog hlim vs c5 j
  rw [hA, tokens_lits fuel depth rest vs j s h0]
  have o2 : (emitLits vs j s).m.out = s.m.out := by rw [(emitLits_spec vs j s).1]
  rw [o2] at g2
  exact ⟨tokens fuel depth rest 0 z, gd_tokens fuel depth rest i' 0 t z g1, gd_tokens fuel depth rest (j + vs.length) 0 _ z g2⟩

/-- two sessions alike: they printed the same text `d` after `o` / `o'`, and are equal in everything else but debug
    map, last-token marker, meter and stop flag -/
def Alike (o o' : List Char) (x y : Sess) : Prop :=
  ∃ d, x.m.out = o ++ d ∧ y.m.out = o' ++ d ∧
    y = { x with m := { x.m with meter := y.m.meter, out := y.m.out, aboutToStop := y.m.aboutToStop },
                 dmap := y.dmap, lastTok := y.lastTok }

theorem alike_of_gd {o o' : List Char} {x y z : Sess} (h1 : GD o x z) (h2 : GD o' y z) : Alike o o' x y := by
  obtain ⟨a1, a2⟩ := GD.spec h1
  obtain ⟨b1, b2⟩ := GD.spec h2
  refine ⟨z.m.out, a1, b1, ?_⟩
  obtain ⟨xm, _, _, _, _, _⟩ := x
  obtain ⟨ym, _, _, _, _, _⟩ := y
  obtain ⟨zm, _, _, _, _, _⟩ := z
  cases xm; cases ym; cases zm
  simp only [Sess.mk.injEq, Mach.mk.injEq] at a2 b2 ⊢
  simp_all

/-- two answers alike: the same kind of answer, the same error, sessions `Alike` -/
def AlikeR (o o' : List Char) : SRes → SRes → Prop
  | .ok x, .ok y => Alike o o' x y
  | .err e x, .err e' y => e = e' ∧ Alike o o' x y
  | .panic p x, .panic p' y => p = p' ∧ Alike o o' x y
  | .unsupported u, .unsupported u' => u = u'
  | .timeout, .timeout => True
  | _, _ => False

/-- what `TwinR` says, spelled out -/
theorem TwinR.spec {o o' : List Char} {r r' : SRes} (h : TwinR o o' r r') : AlikeR o o' r r' := by
  obtain ⟨rz, h1, h2⟩ := h
  cases r <;> cases rz <;> first | exact h1.elim | skip
  all_goals cases r' <;> first | exact h2.elim | skip
  · exact alike_of_gd h1 h2
  · exact ⟨h1.1.trans h2.1.symm, alike_of_gd h1.2 h2.2⟩
  · exact ⟨h1.1.trans h2.1.symm, alike_of_gd h1.2 h2.2⟩
  · exact h1.trans h2.symm
  · trivial

end Xeh.Session
