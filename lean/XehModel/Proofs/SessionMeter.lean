/-
C14 at the level of whole sources: whatever a history of sources does — build, run meta blocks while building, be
rejected and unwound, fail at run time — the instruction meter never goes down, the limit is untouched, and a meter
within the limit stays within it.  No well-formedness hypothesis.
-/
import XehModel.Model.Session
import XehModel.Proofs.VMMeter

namespace Xeh.Session
open Xeh Xeh.Mach Xeh.Compile Xeh.Session.Sess

theorem mle_same {a b : Mach} (hm : b.meter = a.meter) (hl : b.insnLimit = a.insnLimit) : MLe a b :=
  ⟨hl, by rw [hm]; exact Nat.le_refl _, fun N _ h => by rw [hm]; exact h⟩

/-- what a step of the session may return, relative to the machine `a` it started from -/
def MOK (a : Mach) : SRes → Prop
  | .ok s => MLe a s.m
  | .err _ s => MLe a s.m
  | .panic _ s => MLe a s.m
  | _ => True

theorem mok_bind (a : Mach) (r : SRes) (k : Sess → SRes) : MOK a r → (∀ s, MLe a s.m → MOK a (k s)) →
    MOK a (match r with
      | .ok s => k s
      | r => r) := by
  intro h hk
  cases r with
  | ok s => exact hk s h
  | err e s => exact h
  | panic p s => exact h
  | unsupported u => trivial
  | timeout => trivial

theorem mok_runS (s : Sess) (fuel : Nat) : MOK s.m (s.runS fuel) := by
  unfold Sess.runS
  split
  · trivial
  · rename_i o m' h; exact run_mle nativeProg fuel s.m _ h
  · rename_i e m' h
    split
    · trivial
    · exact run_mle nativeProg fuel s.m _ h
  · rename_i p m' h
    split
    · trivial
    · exact run_mle nativeProg fuel s.m _ h

theorem mok_mono {a b : Mach} (hab : MLe a b) {r : SRes} (h : MOK b r) : MOK a r := by
  cases r with
  | ok s => exact hab.trans h
  | err e s => exact hab.trans h
  | panic p s => exact hab.trans h
  | unsupported u => trivial
  | timeout => trivial

theorem mok_emitResults : ∀ (f : Nat) (s : Sess), MOK s.m (Sess.emitResults f s)
  | 0, s => mle_same rfl rfl
  | f + 1, s => by
    simp only [Sess.emitResults]
    split
    · split
      · rename_i v rest hd
        exact mok_mono (mle_same rfl rfl : MLe s.m (({ s with m := { s.m with ds := rest } } : Sess).emit (Mach.loadValueOp v)).m)
          (mok_emitResults f (({ s with m := { s.m with ds := rest } } : Sess).emit (Mach.loadValueOp v)))
      · exact mle_same rfl rfl
    · exact mle_same rfl rfl

theorem mok_contextClose (fuel : Nat) (s : Sess) : MOK s.m (s.contextClose fuel) := by
  unfold Sess.contextClose
  split
  · exact mle_same rfl rfl
  · rename_i prev rest hn
    dsimp only
    split
    · refine mok_bind s.m _ _ (mok_runS ({ s with nested := rest }) fuel) (fun s1 h1 => ?_)
      exact ⟨h1.limit, h1.mono, h1.bound⟩
    · refine mok_bind s.m _ _ (mok_runS ({ s with nested := rest }) fuel) (fun s1 h1 => ?_)
      refine mok_bind s.m _ _ ?_ (fun s2 h2 => ⟨h2.limit, h2.mono, h2.bound⟩)
      split
      · have key : ∀ (n : Nat) (sx : Sess), sx.m.meter = s1.m.meter → sx.m.insnLimit = s1.m.insnLimit →
            MOK s.m (emitResults n sx) := fun n sx e1 e2 =>
          mok_mono (h1.trans (mle_same e1 e2)) (mok_emitResults n sx)
        exact key _ _ rfl rfl
      · exact ⟨h1.limit, h1.mono, h1.bound⟩
    · exact mle_same rfl rfl

theorem mok_nestedEnd (fuel : Nat) (s : Sess) : MOK s.m (s.nestedEnd fuel) := by
  unfold Sess.nestedEnd
  split
  · exact mle_same rfl rfl
  · split
    · split
      · exact mle_same rfl rfl
      · exact mle_same rfl rfl
    · exact mok_contextClose fuel s

theorem mok_constDef (s : Sess) (name : String) : MOK s.m (s.constDef name) := by
  unfold Sess.constDef
  split
  · exact mle_same rfl rfl
  · have k1 := (popData_keeps s.m).mle
    split
    · rename_i v m1 h
      rw [h] at k1
      simp only
      split
      · split
        · exact ⟨k1.limit, k1.mono, k1.bound⟩
        · exact ⟨k1.limit, k1.mono, k1.bound⟩
      · exact ⟨k1.limit, k1.mono, k1.bound⟩
    · rename_i e m1 h; rw [h] at k1; exact k1
    · rename_i e m1 h; rw [h] at k1; exact k1

theorem mok_metaRun (fuel : Nat) (s : Sess) : MOK s.m (s.metaRun fuel) := by
  unfold Sess.metaRun
  split
  · exact mok_runS s fuel
  · exact mle_same rfl rfl

theorem mok_andRun (a : Mach) (fuel : Nat) (r : SRes) (h : MOK a r) : MOK a (andRun fuel r) := by
  cases r with
  | ok s => exact mok_mono h (mok_metaRun fuel s)
  | err e s => exact h
  | panic p s => exact h
  | unsupported u => trivial
  | timeout => trivial

theorem mok_ofC (s : Sess) (r : CRes CState) : MOK s.m (s.ofC r) := by
  cases r with
  | ok c => exact mle_same rfl rfl
  | err e c => exact mle_same rfl rfl
  | unsupported u => trivial

/-- the token loop -/
theorem mok_tokens (fuel depth : Nat) (toks : List Tok) : ∀ (idx : Nat) (s : Sess), MOK s.m (tokens fuel depth toks idx s) := by
  induction hn : toks.length using Nat.strongRecOn generalizing toks with
  | _ n ih =>
    intro idx s
    have cont : ∀ (rest : List Tok) (i : Nat) (r : SRes), rest.length < n → MOK s.m r →
        MOK s.m (match andRun fuel r with
          | .ok s => tokens fuel depth rest i s
          | r => r) := by
      intro rest i r hl hr
      exact mok_bind s.m _ _ (mok_andRun s.m fuel r hr) (fun s1 h1 => mok_mono h1 (ih rest.length hl rest rfl i s1))
    match toks, hn with
    | [], _ =>
      simp only [tokens]
      split
      · exact mle_same rfl rfl
      · split
        · split
          · exact mle_same rfl rfl
          · exact mle_same rfl rfl
        · exact mle_same rfl rfl
    | .lit c :: rest, hn =>
      subst hn
      simp only [tokens]
      exact cont rest _ _ (by simp) (mle_same rfl rfl)
    | .word w :: rest, hn =>
      subst hn
      simp only [tokens]
      split
      · exact cont rest _ _ (by simp) (mle_same rfl rfl)
      · split
        · split
          · exact cont rest _ _ (by simp) (mle_same rfl rfl)
          · split
            · exact cont rest _ _ (by simp) (mok_nestedEnd fuel _)
            · split
              · split
                · rename_i name rest'
                  refine cont rest' _ _ (by simp only [List.length_cons]; omega) ?_
                  split
                  · exact mok_constDef _ name
                  · split
                    · exact mok_ofC _ _
                    · exact mok_ofC _ _
                · exact mle_same rfl rfl
              · exact cont rest _ _ (by simp) (mok_ofC _ _)
        · exact cont rest _ _ (by simp) (mok_ofC _ _)

theorem mok_build1 (fuel : Nat) (toks : List Tok) (s : Sess) : MOK s.m (s.build1 fuel toks) := by
  unfold Sess.build1
  exact mok_bind s.m _ _ (mok_metaRun fuel s) (fun s1 h1 => mok_mono h1 (mok_tokens fuel _ toks 0 s1))

theorem unwind_keeps (mark s : Sess) : Keeps s.m (Sess.unwind mark s).m := ⟨rfl, rfl⟩

/-- what `build_from_source` answers, relative to the machine it was given -/
def BOK (a : Mach) : BRes → Prop
  | .done s => MLe a s.m
  | .rejected _ s => MLe a s.m
  | .failed _ s => MLe a s.m
  | .panic _ s => MLe a s.m
  | _ => True

/-- **one source**: built and run, rejected and unwound, or failed at run time — the meter has not gone down, the limit
    is what it was, and a meter within the limit is still within it.  In particular what a rejected source executed
    while it was being built (its meta blocks) stays counted. -/
theorem buildSource_meter (fuel : Nat) (mode : Mode) (toks : List Tok) (s : Sess) :
    BOK s.m (s.buildSource fuel mode toks) := by
  unfold Sess.buildSource
  simp only
  have h1 := mok_build1 fuel toks (s.contextOpen mode)
  have e0 : (s.contextOpen mode).m.meter = s.m.meter ∧ (s.contextOpen mode).m.insnLimit = s.m.insnLimit := ⟨rfl, rfl⟩
  revert h1
  cases (s.contextOpen mode).build1 fuel toks with
  | err e s2 =>
    intro h1
    have h1' : MLe s.m s2.m := ⟨h1.limit.trans e0.2, e0.1 ▸ h1.mono, fun N hN hm => h1.bound N (e0.2 ▸ hN) (e0.1 ▸ hm)⟩
    exact h1'.trans (unwind_keeps s s2).mle
  | panic p s2 =>
    intro h1
    exact ⟨h1.limit.trans e0.2, e0.1 ▸ h1.mono, fun N hN hm => h1.bound N (e0.2 ▸ hN) (e0.1 ▸ hm)⟩
  | unsupported u => intro _; trivial
  | timeout => intro _; trivial
  | ok s2 =>
    intro h1
    have h1' : MLe s.m s2.m := ⟨h1.limit.trans e0.2, e0.1 ▸ h1.mono, fun N hN hm => h1.bound N (e0.2 ▸ hN) (e0.1 ▸ hm)⟩
    simp only
    have h2 := mok_contextClose fuel { s2 with constUndo := s2.constUndo.drop (s2.constUndo.length - s.constUndo.length), m := forgetBuildLog s.m s2.m }
    have h1' : MLe s.m (forgetBuildLog s.m s2.m) := h1'.trans (mle_same rfl rfl)
    revert h2
    cases Sess.contextClose fuel { s2 with constUndo := s2.constUndo.drop (s2.constUndo.length - s.constUndo.length), m := forgetBuildLog s.m s2.m } with
    | ok s3 => intro h2; exact h1'.trans h2
    | err e s3 => intro h2; exact h1'.trans h2
    | panic p s3 => intro h2; exact h1'.trans h2
    | unsupported u => intro _; trivial
    | timeout => intro _; trivial

end Xeh.Session
