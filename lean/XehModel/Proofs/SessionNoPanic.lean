/-
C08 at the level of whole sources: whatever is submitted — any token list, in any mode, to any session, with any meta
blocks — the session model never answers `panic`.  The VM's only panic sites are the model's own two gap markers
(Proofs/NativeNoPanic.lean), both of which begin with "model:" and are therefore reported as `unsupported`
(`gap_marker`: this is where `String.startsWith` has to be reasoned about); the session layer's own `panic` branches
(an empty flow stack that claims to have something pending; a `pop_data` that panics) are unreachable.
-/
import Init.Data.String.Lemmas.Pattern.TakeDrop.String
import XehModel.Model.Session
import XehModel.Proofs.NativeNoPanic

namespace Xeh.Session
open Xeh Xeh.Mach Xeh.Compile Xeh.Session.Sess

theorem gap_marker (name : String) : (s!"model: native word {name} is outside the model").startsWith "model:" = true := by
  simp only [String.startsWith_string_iff, String.toList_append]
  show _ <+: ("model: native word ").toList ++ _
  have : ("model: native word ").toList = ['m', 'o', 'd', 'e', 'l', ':'] ++ " native word ".toList := by decide
  rw [this, List.append_assoc]
  exact List.prefix_append _ _

theorem gap_marker_print : ("model: printing this value is outside the model").startsWith "model:" = true := by
  simp only [String.startsWith_string_iff]
  have : ("model: printing this value is outside the model").toList =
      ['m', 'o', 'd', 'e', 'l', ':'] ++ " printing this value is outside the model".toList := by decide
  rw [this]
  exact List.prefix_append _ _

/-- not a panic -/
def NPan : SRes → Prop
  | .panic _ _ => False
  | _ => True

theorem npan_bind (r : SRes) (k : Sess → SRes) : NPan r → (∀ s, NPan (k s)) →
    NPan (match r with
      | .ok s => k s
      | r => r) := by
  intro h hk
  cases r with
  | ok s => exact hk s
  | err e s => trivial
  | panic p s => exact h.elim
  | unsupported u => trivial
  | timeout => trivial

theorem npan_runS (s : Sess) (fuel : Nat) : NPan (s.runS fuel) := by
  unfold Sess.runS
  split
  · trivial
  · trivial
  · split <;> trivial
  · rename_i p m' h
    rcases vm_never_panics fuel s.m p m' h with rfl | ⟨name, _, rfl⟩
    · simp only [gap_marker_print, if_true]; trivial
    · simp only [gap_marker, if_true]; trivial

theorem npan_emitResults : ∀ (f : Nat) (s : Sess), NPan (Sess.emitResults f s)
  | 0, s => trivial
  | f + 1, s => by
    simp only [Sess.emitResults]
    split
    · split
      · exact npan_emitResults f _
      · trivial
    · trivial

theorem npan_contextClose (s : Sess) (fuel : Nat) : NPan (s.contextClose fuel) := by
  unfold Sess.contextClose
  split
  · trivial
  · dsimp only
    split
    · exact npan_bind _ _ (npan_runS _ fuel) (fun _ => trivial)
    · refine npan_bind _ _ (npan_runS _ fuel) (fun s1 => ?_)
      refine npan_bind _ _ ?_ (fun _ => trivial)
      split
      · exact npan_emitResults _ _
      · trivial
    · trivial

theorem pending_ne_nil {s : Sess} (h : s.hasPendingFlow = true) : s.flows ≠ [] := by
  intro e
  simp [Sess.hasPendingFlow, e] at h

theorem npan_nestedEnd (s : Sess) (fuel : Nat) : NPan (s.nestedEnd fuel) := by
  unfold Sess.nestedEnd
  split
  · trivial
  · split
    · rename_i hp
      split
      · trivial
      · rename_i hf; exact (pending_ne_nil hp hf).elim
    · exact npan_contextClose s fuel

theorem npan_constDef (s : Sess) (name : String) : NPan (s.constDef name) := by
  unfold Sess.constDef
  split
  · trivial
  · split
    · dsimp only
      split
      · split <;> trivial
      · trivial
    · trivial
    · rename_i p m1 h
      exact (popData_np s.m p (by rw [h])).elim

theorem npan_metaRun (s : Sess) (fuel : Nat) : NPan (s.metaRun fuel) := by
  unfold Sess.metaRun
  split
  · exact npan_runS s fuel
  · trivial

theorem npan_andRun (fuel : Nat) (r : SRes) (h : NPan r) : NPan (andRun fuel r) := by
  cases r with
  | ok s => exact npan_metaRun s fuel
  | err e s => trivial
  | panic p s => exact h.elim
  | unsupported u => trivial
  | timeout => trivial

theorem npan_ofC (s : Sess) (r : CRes CState) : NPan (s.ofC r) := by
  cases r <;> trivial

/-- the token loop -/
theorem npan_tokens (fuel depth : Nat) (toks : List Tok) : ∀ (idx : Nat) (s : Sess), NPan (tokens fuel depth toks idx s) := by
  induction hn : toks.length using Nat.strongRecOn generalizing toks with
  | _ n ih =>
    intro idx s
    have cont : ∀ (rest : List Tok) (i : Nat) (r : SRes), rest.length < n → NPan r →
        NPan (match andRun fuel r with
          | .ok s => tokens fuel depth rest i s
          | r => r) := by
      intro rest i r hl hr
      exact npan_bind _ _ (npan_andRun fuel r hr) (fun s1 => ih rest.length hl rest rfl i s1)
    match toks, hn with
    | [], _ =>
      simp only [tokens]
      split
      · trivial
      · split
        · rename_i hp
          split
          · trivial
          · rename_i hf; exact (pending_ne_nil hp hf).elim
        · trivial
    | .lit c :: rest, hn =>
      subst hn
      simp only [tokens]
      exact cont rest _ _ (by simp) trivial
    | .word w :: rest, hn =>
      subst hn
      simp only [tokens]
      split
      · exact cont rest _ _ (by simp) trivial
      · split
        · split
          · exact cont rest _ _ (by simp) trivial
          · split
            · exact cont rest _ _ (by simp) (npan_nestedEnd _ fuel)
            · split
              · split
                · rename_i name rest'
                  refine cont rest' _ _ (by simp only [List.length_cons]; omega) ?_
                  split
                  · exact npan_constDef _ name
                  · split
                    · exact npan_ofC _ _
                    · exact npan_ofC _ _
                · trivial
              · exact cont rest _ _ (by simp) (npan_ofC _ _)
        · exact cont rest _ _ (by simp) (npan_ofC _ _)

theorem npan_build1 (fuel : Nat) (toks : List Tok) (s : Sess) : NPan (s.build1 fuel toks) := by
  unfold Sess.build1
  exact npan_bind _ _ (npan_metaRun s fuel) (fun s1 => npan_tokens fuel _ toks 0 s1)

/-- **one source never panics**: `build_from_source` on any session, in any mode, with any tokens and fuel -/
theorem buildSource_never_panics (fuel : Nat) (mode : Mode) (toks : List Tok) (s : Sess) (p : String) (s' : Sess) :
    s.buildSource fuel mode toks ≠ .panic p s' := by
  unfold Sess.buildSource
  simp only
  have h1 := npan_build1 fuel toks (s.contextOpen mode)
  revert h1
  cases (s.contextOpen mode).build1 fuel toks with
  | err e s2 => intro _ h; cases h
  | panic q s2 => intro h1; exact h1.elim
  | unsupported u => intro _ h; cases h
  | timeout => intro _ h; cases h
  | ok s2 =>
    intro _
    simp only
    have h2 := npan_contextClose { s2 with constUndo := s2.constUndo.drop (s2.constUndo.length - s.constUndo.length), m := forgetBuildLog s.m s2.m } fuel
    revert h2
    cases Sess.contextClose fuel { s2 with constUndo := s2.constUndo.drop (s2.constUndo.length - s.constUndo.length), m := forgetBuildLog s.m s2.m } with
    | ok s3 => intro _ h; cases h
    | err e s3 => intro _ h; cases h
    | panic q s3 => intro h2; exact h2.elim
    | unsupported u => intro _ h; cases h
    | timeout => intro _ h; cases h

end Xeh.Session
