/-
Compiling a source leaves the data stack exactly as it found it.  (`Ext` already says: what was there is still there
underneath, and every variable has its value; here: nothing is left on top.)  The token loop is followed at its base
level — where only the compiler works, which does not touch the data stack — and every meta block opened from there
is a block of Proofs/SessionInline.lean / SessionBlock.lean: when it closes, the stack is the stack at its `#(`.
-/
import XehModel.Proofs.SessionInline
import XehModel.Proofs.SessionAligned
import XehModel.Proofs.SessionCompile

namespace Xeh.Session
open Xeh Xeh.Mach Xeh.Compile Xeh.Session.Sess

/-- a property kept by every successful round of the token loop is kept by following a block to its end -/
theorem untilClosed_keeps (P : Sess → Prop) (fuel base : Nat)
    (hstep : ∀ (s : Sess) (t : Tok) (rest : List Tok) (i : Nat) (s' : Sess), P s → (step1 fuel t rest i s).1 = .ok s' → P s') :
    ∀ (n : Nat) (toks : List Tok) (i : Nat) (s : Sess) (rest : List Tok) (i' : Nat) (t : Sess), P s →
      untilClosed fuel base n toks i s = .closed rest i' t → P t := by
  intro n
  induction n with
  | zero => intro toks i s rest i' t _ h; cases h
  | succ n ih =>
    intro toks i s rest i' t hp h
    cases toks with
    | nil => cases h
    | cons tk rest0 =>
      simp only [untilClosed] at h
      rcases hst : step1 fuel tk rest0 i s with ⟨r, rest', j⟩
      rw [hst] at h
      have hs := hstep s tk rest0 i
      rw [hst] at hs
      cases r with
      | ok s' =>
        simp only at h hs
        have hp' := hs s' hp rfl
        by_cases hc : s'.nested.length = base
        · simp only [hc, if_true] at h
          cases h
          exact hp'
        · simp only [hc, if_false] at h
          exact ih rest' j s' rest i' t hp' h
      | err e s' => cases h
      | panic p s' => cases h
      | unsupported u => cases h
      | timeout => cases h

/-- one round keeps the session an extension of the session the source was submitted to (any base mode but a meta block) -/
theorem step1_sok {bm : Mode} (hbm : bm ≠ .metaEval) {s0 s : Sess} (h : Ext bm s0 s) (fuel : Nat) (t : Tok) (rest : List Tok) (idx : Nat) :
    SOK bm s0 (step1 fuel t rest idx s).1 := by
  have hs := ext_lastTok idx h
  obtain ⟨hp, ho⟩ := pre_toC hs
  cases t with
  | lit c => exact sok_andRun fuel (.ok _) (ext_emit _ hs)
  | word w =>
    simp only [step1]
    cases hloc : (CState.topFun ({ s with lastTok := idx } : Sess).visible).bind fun ff => CState.rposition w ff.locals with
    | some i => exact sok_andRun fuel (.ok _) (ext_emit _ hs)
    | none =>
      simp only
      cases hlk : List.lookup w s.m.dict with
      | none => exact sok_andRun fuel _ (sok_ofC hs _ (buildWord_good _ _ _ hp ho))
      | some en =>
        cases en with
        | native im n =>
          cases im with
          | false => exact sok_andRun fuel _ (sok_ofC hs _ (buildWord_good _ _ _ hp ho))
          | true =>
            simp only
            by_cases h1 : (n == "#(") = true
            · simp only [h1, if_true, ↓reduceIte]
              exact sok_andRun fuel (.ok _) (ext_contextOpen hs)
            · simp only [h1, Bool.false_eq_true, if_false, ↓reduceIte]
              by_cases h2 : (n == "#)") = true
              · simp only [h2, if_true, ↓reduceIte]
                exact sok_andRun fuel _ (sok_nestedEnd hs (Or.inl hbm) fuel)
              · simp only [h2, Bool.false_eq_true, if_false, ↓reduceIte]
                by_cases h3 : (n == "const" || takesName n) = true
                · simp only [h3, if_true, ↓reduceIte]
                  cases rest with
                  | nil => exact hs.ext0
                  | cons r1 rest' =>
                    cases r1 with
                    | lit c => exact hs.ext0
                    | word name =>
                      simp only
                      have hs1 := ext_lastTok (idx + 1) h
                      obtain ⟨hp1, ho1⟩ := pre_toC hs1
                      refine sok_andRun fuel _ ?_
                      split
                      · exact sok_constDef hs1 name
                      · split
                        · exact sok_ofC hs _ (late_good _ _ _ _ hp ho)
                        · exact sok_ofC hs1 _ (withName_good _ _ _ _ hp1 ho1)
                · simp only [h3, Bool.false_eq_true, if_false, ↓reduceIte]
                  exact sok_andRun fuel _ (sok_ofC hs _ (immediate_good _ _ _ hp ho))
        | const c => exact sok_andRun fuel _ (sok_ofC hs _ (buildWord_good _ _ _ hp ho))
        | var a => exact sok_andRun fuel _ (sok_ofC hs _ (buildWord_good _ _ _ hp ho))
        | interp im a => exact sok_andRun fuel _ (sok_ofC hs _ (buildWord_good _ _ _ hp ho))

/-- one round keeps debug map and code aligned -/
theorem al_step1 {s : Sess} (h : AL s) (fuel : Nat) (t : Tok) (rest : List Tok) (idx : Nat) : ALR (step1 fuel t rest idx s).1 := by
  have hi : ∀ k, AL ({ s with lastTok := k } : Sess) := fun _ => h
  cases t with
  | lit c => exact alr_andRun fuel (.ok _) (al_emit (hi idx) _)
  | word w =>
    simp only [step1]
    split
    · exact alr_andRun fuel (.ok _) (al_emit (hi idx) _)
    · split
      · split
        · exact alr_andRun fuel (.ok _) (show AL (({ s with lastTok := idx } : Sess).contextOpen .metaEval) from hi idx)
        · split
          · exact alr_andRun fuel _ (al_nestedEnd (hi idx) fuel)
          · split
            · split
              · refine alr_andRun fuel _ ?_
                split
                · exact al_constDef (hi (idx + 1)) _
                · split
                  · exact alr_ofC _ _ (fun c e => late_aligned _ c _ _ (al_toC (hi idx)) e)
                  · exact alr_ofC _ _ (fun c e => withName_aligned _ c _ _ (al_toC (hi (idx + 1))) e)
              · trivial
            · exact alr_andRun fuel _ (alr_ofC _ _ (fun c e => immediate_aligned _ c _ (al_toC (hi idx)) e))
      · exact alr_andRun fuel _ (alr_ofC _ _ (fun c e => buildWord_aligned _ c _ (al_toC (hi idx)) e))

/-- what following a block returns is a suffix of what it was given -/
theorem untilClosed_len (fuel base : Nat) : ∀ (n : Nat) (toks : List Tok) (i : Nat) (s : Sess) (rest : List Tok) (i' : Nat) (t : Sess),
    untilClosed fuel base n toks i s = .closed rest i' t → rest.length < toks.length := by
  intro n
  induction n with
  | zero => intro toks i s rest i' t h; cases h
  | succ n ih =>
    intro toks i s rest i' t h
    cases toks with
    | nil => cases h
    | cons tk rest0 =>
      simp only [untilClosed] at h
      have hl := step1_len fuel tk rest0 i s
      rcases hst : step1 fuel tk rest0 i s with ⟨r, rest', j⟩
      rw [hst] at h hl
      simp only at hl
      cases r with
      | ok s' =>
        simp only at h
        by_cases hc : s'.nested.length = base
        · simp only [hc, if_true] at h
          cases h
          simp only [List.length_cons]; omega
        · simp only [hc, if_false] at h
          have := ih rest' j s' rest i' t h
          simp only [List.length_cons]; omega
      | err e s' => cases h
      | panic p s' => cases h
      | unsupported u => cases h
      | timeout => cases h

/-- the loop stopped: with an answer that is not `ok` -/
theorem untilClosed_stop (fuel base : Nat) : ∀ (n : Nat) (toks : List Tok) (i : Nat) (s : Sess) (r : SRes),
    untilClosed fuel base n toks i s = .stop r → ∀ y, r ≠ .ok y := by
  intro n
  induction n with
  | zero => intro toks i s r h; cases h
  | succ n ih =>
    intro toks i s r h
    cases toks with
    | nil => cases h
    | cons tk rest0 =>
      simp only [untilClosed] at h
      rcases hst : step1 fuel tk rest0 i s with ⟨r0, rest', j⟩
      rw [hst] at h
      cases r0 with
      | ok s' =>
        simp only at h
        by_cases hc : s'.nested.length = base
        · simp only [hc, if_true] at h; cases h
        · simp only [hc, if_false] at h; exact ih rest' j s' r h
      | err e s' => cases h; intro y hy; cases hy
      | panic p s' => cases h; intro y hy; cases hy
      | unsupported u => cases h; intro y hy; cases hy
      | timeout => cases h; intro y hy; cases hy

/-- the tokens ran out inside the block: nothing is left to read and the block is still open -/
theorem untilClosed_eof (fuel base : Nat) : ∀ (n : Nat) (toks : List Tok) (i : Nat) (s : Sess) (toks' : List Tok) (i' : Nat) (s' : Sess),
    toks.length ≤ n → s.nested.length ≠ base → untilClosed fuel base n toks i s = .eof toks' i' s' →
    toks' = [] ∧ s'.nested.length ≠ base := by
  intro n
  induction n with
  | zero =>
    intro toks i s toks' i' s' hl hs h
    cases h
    exact ⟨List.eq_nil_of_length_eq_zero (by omega), hs⟩
  | succ n ih =>
    intro toks i s toks' i' s' hl hs h
    cases toks with
    | nil => cases h; exact ⟨rfl, hs⟩
    | cons tk rest0 =>
      simp only [untilClosed] at h
      have hlen := step1_len fuel tk rest0 i s
      rcases hst : step1 fuel tk rest0 i s with ⟨r0, rest', j⟩
      rw [hst] at h hlen
      simp only at hlen
      cases r0 with
      | ok s1 =>
        simp only at h
        by_cases hc : s1.nested.length = base
        · simp only [hc, if_true] at h; cases h
        · simp only [hc, if_false] at h
          exact ih rest' j s1 toks' i' s' (by simp only [List.length_cons] at hl; omega) hc h
      | err e s1 => cases h
      | panic p s1 => cases h
      | unsupported u => cases h
      | timeout => cases h

/-- writing a compile result back leaves data stack and saved contexts alone -/
theorem ofC_keeps (s : Sess) (r : CRes CState) (s' : Sess) (fuel : Nat) (hm : s.m.ctx.mode ≠ .metaEval)
    (h : andRun fuel (s.ofC r) = .ok s') : s'.nested = s.nested ∧ s'.m.ds = s.m.ds := by
  cases r with
  | ok c =>
    simp only [Sess.ofC, andRun] at h
    rw [metaRun_noop _ fuel (by exact hm)] at h
    cases h; exact ⟨rfl, rfl⟩
  | err e c => simp [Sess.ofC, andRun] at h
  | unsupported u => simp [Sess.ofC, andRun] at h

/-- one round at the base level of a source that is being compiled: either the data stack and the saved contexts are
    what they were, or the round opened a meta block -/
theorem step1_base (fuel : Nat) (t : Tok) (rest : List Tok) (idx : Nat) (s s' : Sess) (hm : s.m.ctx.mode = .compile)
    (h : (step1 fuel t rest idx s).1 = .ok s') :
    (s'.nested = s.nested ∧ s'.m.ds = s.m.ds) ∨
    (step1 fuel t rest idx s = (.ok (({ s with lastTok := idx } : Sess).contextOpen .metaEval), rest, idx + 1)) := by
  have hne : ∀ k, ({ s with lastTok := k } : Sess).m.ctx.mode ≠ .metaEval := fun _ => by
    show s.m.ctx.mode ≠ _; rw [hm]; decide
  have emitc : ∀ (k : Nat) (op : Op), andRun fuel (.ok (({ s with lastTok := k } : Sess).emit op)) = .ok s' →
      s'.nested = s.nested ∧ s'.m.ds = s.m.ds := by
    intro k op he
    simp only [andRun] at he
    rw [metaRun_noop (({ s with lastTok := k } : Sess).emit op) fuel (hne k)] at he
    cases he; exact ⟨rfl, rfl⟩
  cases t with
  | lit c => exact .inl (emitc idx _ h)
  | word w =>
    simp only [step1] at h ⊢
    cases hloc : (CState.topFun ({ s with lastTok := idx } : Sess).visible).bind fun ff => CState.rposition w ff.locals with
    | some i => rw [hloc] at h; exact .inl (emitc idx _ h)
    | none =>
      rw [hloc] at h
      simp only at h ⊢
      cases hlk : List.lookup w s.m.dict with
      | none => rw [hlk] at h; exact .inl (ofC_keeps _ _ _ fuel (hne idx) h)
      | some en =>
        rw [hlk] at h
        cases en with
        | native im n =>
          cases im with
          | false => exact .inl (ofC_keeps _ _ _ fuel (hne idx) h)
          | true =>
            simp only at h ⊢
            by_cases h1 : (n == "#(") = true
            · simp only [h1, if_true, ↓reduceIte] at h ⊢
              refine .inr ?_
              have hmr : (({ s with lastTok := idx } : Sess).contextOpen .metaEval).metaRun fuel =
                  .ok (({ s with lastTok := idx } : Sess).contextOpen .metaEval) := by
                unfold Sess.metaRun
                have a1 : ((({ s with lastTok := idx } : Sess).contextOpen .metaEval).m.ctx.mode == Mode.metaEval) = true := rfl
                have a2 : (({ s with lastTok := idx } : Sess).contextOpen .metaEval).hasPendingFlow = false := by
                  simp [Sess.hasPendingFlow, Sess.contextOpen]
                simp only [a1, a2, Bool.not_false, Bool.and_self, if_true]
                exact runS_idle _ fuel (by simp [Mach.isRunning, Sess.contextOpen])
              simp [andRun, hmr]
            · simp only [h1, Bool.false_eq_true, if_false, ↓reduceIte] at h ⊢
              by_cases h2 : (n == "#)") = true
              · simp only [h2, if_true, ↓reduceIte] at h
                have : ({ s with lastTok := idx } : Sess).nestedEnd fuel = .err unbalancedContext { s with lastTok := idx } := by
                  unfold Sess.nestedEnd
                  have : (({ s with lastTok := idx } : Sess).m.ctx.mode != Mode.metaEval) = true := by
                    show (s.m.ctx.mode != Mode.metaEval) = true; rw [hm]; rfl
                  simp [this]
                rw [this] at h
                simp [andRun] at h
              · simp only [h2, Bool.false_eq_true, if_false, ↓reduceIte] at h
                by_cases h3 : (n == "const" || takesName n) = true
                · simp only [h3, if_true, ↓reduceIte] at h
                  cases rest with
                  | nil => simp at h
                  | cons r1 rest' =>
                    cases r1 with
                    | lit c => simp at h
                    | word name =>
                      simp only at h
                      by_cases h4 : (n == "const") = true
                      · simp only [h4, if_true, ↓reduceIte] at h
                        have : ({ s with lastTok := idx + 1 } : Sess).constDef name =
                            .err (.errorMsg "const word used out of the meta-eval context") { s with lastTok := idx + 1 } := by
                          unfold Sess.constDef
                          have : (({ s with lastTok := idx + 1 } : Sess).m.ctx.mode != Mode.metaEval) = true := by
                            show (s.m.ctx.mode != Mode.metaEval) = true; rw [hm]; rfl
                          simp [this]
                        rw [this] at h
                        simp [andRun] at h
                      · simp only [h4, Bool.false_eq_true, if_false, ↓reduceIte] at h
                        by_cases h5 : (n == "late") = true
                        · simp only [h5, if_true, ↓reduceIte] at h
                          exact .inl (ofC_keeps _ _ _ fuel (hne idx) h)
                        · simp only [h5, Bool.false_eq_true, if_false, ↓reduceIte] at h
                          exact .inl (ofC_keeps _ _ _ fuel (hne (idx + 1)) h)
                · simp only [h3, Bool.false_eq_true, if_false, ↓reduceIte] at h
                  exact .inl (ofC_keeps _ _ _ fuel (hne idx) h)
        | const c => exact .inl (ofC_keeps _ _ _ fuel (hne idx) h)
        | var a => exact .inl (ofC_keeps _ _ _ fuel (hne idx) h)
        | interp im a => exact .inl (ofC_keeps _ _ _ fuel (hne idx) h)

/-- at the base level of a source that is being compiled -/
structure BaseInv (s x : Sess) : Prop where
  ext : Ext .compile s x
  base : x.nested.length = s.nested.length + 1
  ds : x.m.ds = s.m.ds
  al : AL x

theorem BaseInv.mode {s x : Sess} (b : BaseInv s x) : x.m.ctx.mode = .compile :=
  (b.ext.chain.base_of_len b.base).1

/-- reading tokens from the base level of a source that is being compiled: if the loop finishes, the data stack is the
    one the source was submitted with -/
theorem compile_tokens_quiet (fuel : Nat) (s : Sess) : ∀ (n : Nat) (toks : List Tok) (i : Nat) (x y : Sess), toks.length ≤ n →
    BaseInv s x → tokens fuel (s.nested.length + 1) toks i x = .ok y → y.m.ds = s.m.ds := by
  intro n
  induction n using Nat.strongRecOn with
  | _ n ih =>
    intro toks i x y hl inv h
    cases toks with
    | nil =>
      simp only [tokens] at h
      split at h
      · cases h
      · split at h
        · split at h <;> cases h
        · cases h; exact inv.ds
    | cons tk rest =>
      rw [tokens_step'] at h
      have hsok := step1_sok (by decide : Mode.compile ≠ .metaEval) inv.ext fuel tk rest i
      have hal := al_step1 inv.al fuel tk rest i
      have hlen := step1_len fuel tk rest i x
      cases hr : (step1 fuel tk rest i x).1 with
      | ok x' =>
        rw [hr] at h hsok hal
        simp only [thenTokens] at h
        have hn : n ≠ 0 := by simp only [List.length_cons] at hl; omega
        rcases step1_base fuel tk rest i x x' inv.mode hr with ⟨e1, e2⟩ | hopen
        · -- still at the base level
          have inv' : BaseInv s x' := ⟨hsok, by rw [e1]; exact inv.base, by rw [e2]; exact inv.ds, hal⟩
          exact ih (n - 1) (by omega) _ _ x' y (by simp only [List.length_cons] at hl; omega) inv' h
        · -- a meta block has been opened: follow it to its end
          rw [hopen] at h hr
          simp only at h hr
          cases hr
          have idle' : Idle ({ x with lastTok := i } : Sess) := ⟨inv.ext.wf, inv.ext.fs, inv.al⟩
          have h0 : ({ x with lastTok := i } : Sess).m.ctx.mode ≠ .metaEval := by
            show x.m.ctx.mode ≠ _; rw [inv.mode]; decide
          have hopenE : Ext .metaEval ({ x with lastTok := i } : Sess) (({ x with lastTok := i } : Sess).contextOpen .metaEval) :=
            ext_open_block idle' h0
          rw [tokens_untilClosed fuel (s.nested.length + 1) x.nested.length rest.length rest (i + 1)] at h
          cases hu : untilClosed fuel x.nested.length rest.length rest (i + 1) (({ x with lastTok := i } : Sess).contextOpen .metaEval) with
          | closed rest' i' t =>
            rw [hu] at h
            simp only at h
            have hcl := block_ext (s0 := ({ x with lastTok := i } : Sess)) h0 fuel rest.length rest (i + 1) _ hopenE hu
            have hext : Ext .compile s t := untilClosed_keeps (fun z => Ext .compile s z) fuel x.nested.length
              (fun z tk' r' j z' hz hz' => by
                have := step1_sok (by decide : Mode.compile ≠ .metaEval) hz fuel tk' r' j
                rw [hz'] at this; exact this)
              rest.length rest (i + 1) _ rest' i' t hsok hu
            have halt : AL t := untilClosed_keeps AL fuel x.nested.length
              (fun z tk' r' j z' hz hz' => by
                have := al_step1 hz fuel tk' r' j
                rw [hz'] at this; exact this)
              rest.length rest (i + 1) _ rest' i' t hal hu
            have inv' : BaseInv s t := ⟨hext, by rw [hcl.nested]; exact inv.base, by rw [hcl.ds]; exact inv.ds, halt⟩
            have hlt := untilClosed_len fuel x.nested.length rest.length rest (i + 1) _ rest' i' t hu
            exact ih (n - 1) (by omega) _ _ t y (by simp only [List.length_cons] at hl; omega) inv' h
          | stop r =>
            rw [hu] at h
            simp only at h
            exact absurd h (untilClosed_stop fuel x.nested.length rest.length rest (i + 1) _ r hu y)
          | eof toks' i' z =>
            rw [hu] at h
            simp only at h
            obtain ⟨e1, e2⟩ := untilClosed_eof fuel x.nested.length rest.length rest (i + 1) _ toks' i' z (Nat.le_refl _)
              (by simp [Sess.contextOpen]) hu
            subst e1
            have := tokens_ok_depth fuel _ [] i' z y h
            simp only [tokens] at h
            have hne : (z.nested.length != s.nested.length + 1) = true := by
              rw [← inv.base]; simpa using e2
            simp [hne] at h
      | err e x' => rw [hr] at h; simp [thenTokens] at h
      | panic p x' => rw [hr] at h; simp [thenTokens] at h
      | unsupported u => rw [hr] at h; simp [thenTokens] at h
      | timeout => rw [hr] at h; simp [thenTokens] at h

/-- **compiling a source never changes the data stack**: whatever meta blocks the source contains, at whatever depth,
    once `compile` has answered *done* the data stack is the one it was given (and every variable has its value, the
    code that existed is still there — `Ext0`). -/
theorem compile_is_quiet (fuel : Nat) (toks : List Tok) (s s' : Sess) (idle : Idle s)
    (h : s.buildSource fuel .compile toks = .done s') : s'.m.ds = s.m.ds := by
  have hopen := ext_open idle .compile (by decide)
  unfold Sess.buildSource at h
  simp only [] at h
  cases hg : (s.contextOpen .compile).build1 fuel toks with
  | ok s2 =>
    rw [hg] at h
    simp only at h
    have hb := sok_build1 hopen (by decide) fuel toks
    rw [hg] at hb
    obtain ⟨hmode, hnest⟩ := build1_ok_base fuel toks (by decide) hg hb
    have hmode' : (forgetBuildLog s.m s2.m).ctx.mode = .compile := hmode
    simp only [Sess.contextClose, hnest, hmode'] at h
    cases h
    show s2.m.ds = s.m.ds
    -- the token loop, from the base level
    unfold Sess.build1 at hg
    rw [metaRun_noop _ fuel (by simp [Sess.contextOpen])] at hg
    simp only at hg
    have inv : BaseInv s (s.contextOpen .compile) := ⟨hopen, by simp [Sess.contextOpen], rfl, idle.dmap⟩
    have hd : (s.contextOpen .compile).nested.length = s.nested.length + 1 := by simp [Sess.contextOpen]
    rw [hd] at hg
    exact compile_tokens_quiet fuel s toks.length toks 0 _ s2 (Nat.le_refl _) inv hg
  | err e2 s2 => rw [hg] at h; cases h
  | panic p s2 => rw [hg] at h; cases h
  | unsupported u => rw [hg] at h; cases h
  | timeout => rw [hg] at h; cases h

end Xeh.Session
