/-
REPL-level events for C10's follow-up theorem: `run()` and a whole REPL line (`compile`, `run`, and `abort_run` only when
the run failed — src/repl.rs `run_line` after repair 1568e86) preserve the twin relation `GSt`.
-/
import XehModel.Proofs.SessionGhost

set_option linter.unusedSimpArgs false
set_option linter.unusedVariables false

namespace Xeh.Session
open Xeh Xeh.Mach Xeh.Compile Xeh.Session.Sess

variable {pre : List Char}

/-- `GR` with the last-token marker left out, as `GSt` does for states -/
def GRt (pre : List Char) : SRes → SRes → Prop
  | .ok s, .ok t => GSt pre s t
  | .err e s, .err e' t => e = e' ∧ GSt pre s t
  | .panic p s, .panic p' t => p = p' ∧ GSt pre s t
  | .unsupported u, .unsupported u' => u = u'
  | .timeout, .timeout => True
  | _, _ => False

/-- `run` looks at the machine only: the last-token marker rides along -/
theorem runS_setTok (s : Sess) (i fuel : Nat) :
    ({ s with lastTok := i } : Sess).runS fuel =
      match s.runS fuel with
      | .ok a => .ok { a with lastTok := i }
      | .err e a => .err e { a with lastTok := i }
      | .panic p a => .panic p { a with lastTok := i }
      | .unsupported u => .unsupported u
      | .timeout => .timeout := by
  unfold Sess.runS
  dsimp only
  cases Mach.run nativeProg fuel s.m with
  | none => rfl
  | some r =>
    obtain ⟨o, m⟩ := r
    cases o with
    | ok u => rfl
    | err e => dsimp only; split <;> rfl
    | panic p => dsimp only; split <;> rfl

/-- `run()` on twins -/
theorem gst_runS {x z : Sess} (h : GSt pre x z) (fuel : Nat) : GRt pre (x.runS fuel) (z.runS fuel) := by
  have := gs_runS _ _ h fuel
  rw [runS_setTok x 0 fuel, runS_setTok z 0 fuel] at this
  revert this
  cases x.runS fuel <;> cases z.runS fuel <;> simp only [GR, GRt, GSt] <;> intro this <;> exact this

/-- `abort_run` on twins -/
theorem gst_abortRun {x z : Sess} (h : GSt pre x z) : GSt pre x.abortRun z.abortRun := gs_abortRun h

end Xeh.Session
